/-
C09 — libvpsc: removeoverlaps leaves no overlap and changes no size; the constraint sets produced
by generateXConstraints / generateYConstraints are acyclic and separating.

All theorems are about the model `AdaptaVerif.Model.Scanline` (tied to rectangle.cpp by the
correspondence harness) and hold for ALL rectangle arrays, ALL border values, ALL tie-break
ranks (heap addresses) and ALL event orders `compare_events` may produce.
-/
import AdaptaVerif.Lemmas.ScanlineCheck
import AdaptaVerif.Lemmas.ScanlineExample
import AdaptaVerif.Lemmas.ScanlineSort
namespace AdaptaVerif.Props.C09
open AdaptaVerif.Model.Scanline AdaptaVerif.Spec.Rects AdaptaVerif.Check.Rects
open AdaptaVerif.Lemmas.Scanline AdaptaVerif.Lemmas.Scanline.Example

/-- the input rectangles are non-degenerate as seen through the getters (the C++ asserts
    `getMinX()<getMaxX()`): extent in the sweep dimension not inverted, length ≥ 0 -/
def GoodAxis (ax : Axis) (n : Nat) : Prop := ∀ i, i < n → 0 ≤ ax.sz i ∧ ax.opn i ≤ ax.cls i

/-! ## (1) acyclicity: every constraint goes up in the (centre, rank) key -/

/-- Every constraint emitted by generateYConstraints / generateXConstraints (either mode) goes
    from a node with smaller scan-line key (centre, rank) to one with a larger key.  Holds for any
    rank function and any event list whatsoever. -/
theorem gen_key_increases (rs : Array Rect) (bx b : Rat) (rank : Nat → Nat) (evs : List Ev) (nl : Bool) :
    (∀ c ∈ generateYConstraints rs bx b rank evs, keyLt (yAxis rs bx b) rank c.l c.r = true) ∧
    (∀ c ∈ generateXConstraints rs bx b rank evs nl, keyLt (xAxis rs bx b) rank c.l c.r = true) := by
  have pm := ptrMono_empty
  have nm := nbrMono_empty
  refine ⟨scanPtr_mono _ (keyLt_trans _ _) evs [] _ _ (pm _), ?_⟩
  unfold generateXConstraints
  cases nl with
  | true => exact scanNL_mono _ evs [] _ _ (nm _)
  | false => exact scanPtr_mono _ (keyLt_trans _ _) evs [] _ _ (pm _)

/-- Hence the constraint graphs are DAGs: no non-empty chain of generated constraints returns to
    its start. -/
theorem gen_acyclic (rs : Array Rect) (bx b : Rat) (rank : Nat → Nat) (evs : List Ev) (nl : Bool) :
    Acyclic (generateYConstraints rs bx b rank evs) ∧
    Acyclic (generateXConstraints rs bx b rank evs nl) :=
  ⟨acyclic_of_mono (keyLt_irrefl _ rank) (keyLt_trans _ rank) (gen_key_increases rs bx b rank evs nl).1,
   acyclic_of_mono (keyLt_irrefl _ rank) (keyLt_trans _ rank) (gen_key_increases rs bx b rank evs nl).2⟩

/-- Determinism: the generated constraint lists are functions of (rectangles, borders, rank, event
    order) and depend on the rank only through the ORDER it induces.  Since CmpNodePos breaks ties
    by variable id before looking at heap addresses, any two runs whose variable ids are distinct
    use rank orders that agree (id order), so nothing else - no address - can influence the result:
    two rank functions inducing the same order give identical constraint lists. -/
theorem gen_deterministic_given_rank (rs : Array Rect) (bx b : Rat) (rank rank' : Nat → Nat)
    (h : ∀ i j, rank i < rank j ↔ rank' i < rank' j) (evs : List Ev) (nl : Bool) :
    generateYConstraints rs bx b rank evs = generateYConstraints rs bx b rank' evs ∧
    generateXConstraints rs bx b rank evs nl = generateXConstraints rs bx b rank' evs nl := by
  unfold generateYConstraints generateXConstraints
  simp only [keyLt_congr _ h, and_self]

/-- non-vacuity: id order and "id first, then any address" induce the same order when ids are
    distinct, e.g. rank i = i and rank' i = 1000·i + (address mod 1000) -/
example (addr : Nat → Nat) (evs : List Ev) (rs : Array Rect) :
    generateYConstraints rs 0 0 id evs = generateYConstraints rs 0 0 (fun i => 1000 * i + addr i % 1000) evs :=
  (gen_deterministic_given_rank rs 0 0 id (fun i => 1000 * i + addr i % 1000)
    (fun i j => by
      have hi := Nat.mod_lt (addr i) (by decide : 1000 > 0)
      have hj := Nat.mod_lt (addr j) (by decide : 1000 > 0)
      simp only [id]
      by_cases hij : i = j
      · subst hij; omega
      · omega) evs false).1

/-! ## (2) the y pass (and the x pass without neighbour lists) separates every meeting pair -/

/-- generateYConstraints: for every pair of rectangles whose x-extents meet in the code's sense
    (`getMinX i ≤ getMaxX j ∧ getMinX j ≤ getMaxX i`: touching counts, because Open is processed
    before Close), every placement `y` of the centres that satisfies the generated constraints
    keeps the two centres at least (h_i + h_j)/2 apart. -/
theorem geny_separates (rs : Array Rect) (bx b : Rat) (rank : Nat → Nat) (inj : RankInjective rank)
    (evs : List Ev) (hv : ValidOrder (yAxis rs bx b) rs.size evs)
    (hgood : GoodAxis (yAxis rs bx b) rs.size)
    (y : Nat → Rat) (hsat : Sat y (generateYConstraints rs bx b rank evs))
    (i j : Nat) (hi : i < rs.size) (hj : j < rs.size) (hij : i ≠ j)
    (hmeet : ScanMeet (yAxis rs bx b) i j) :
    y i + ((rectAt rs i).height b + (rectAt rs j).height b) / 2 ≤ y j ∨
    y j + ((rectAt rs i).height b + (rectAt rs j).height b) / 2 ≤ y i :=
  scanPtr_separates inj hv hgood hsat hi hj hij hmeet

/-- non-vacuity: the hypotheses of `geny_separates` hold for two overlapping squares [0,2]² and
    [1,3]² (events O0 O1 C0 C1, rank = index, the generated constraint is (0,1,gap 2), placement
    y₀ = 0, y₁ = 2), and the conclusion is the non-trivial fact 0 + 2 ≤ 2. -/
example : exY 0 + ((rectAt exRs 0).height 0 + (rectAt exRs 1).height 0) / 2 ≤ exY 1 ∨
          exY 1 + ((rectAt exRs 0).height 0 + (rectAt exRs 1).height 0) / 2 ≤ exY 0 :=
  geny_separates exRs 0 0 id (fun _ _ h => h) exEvs exValid exGood exY exSat 0 1 (by decide) (by decide)
    (by decide) exMeet

/-- the same for generateXConstraints with useNeighbourLists = false (third pass) -/
theorem genx_separates (rs : Array Rect) (bx b : Rat) (rank : Nat → Nat) (inj : RankInjective rank)
    (evs : List Ev) (hv : ValidOrder (xAxis rs bx b) rs.size evs)
    (hgood : GoodAxis (xAxis rs bx b) rs.size)
    (x : Nat → Rat) (hsat : Sat x (generateXConstraints rs bx b rank evs false))
    (i j : Nat) (hi : i < rs.size) (hj : j < rs.size) (hij : i ≠ j)
    (hmeet : ScanMeet (xAxis rs bx b) i j) :
    x i + ((rectAt rs i).width bx + (rectAt rs j).width bx) / 2 ≤ x j ∨
    x j + ((rectAt rs i).width bx + (rectAt rs j).width bx) / 2 ≤ x i :=
  scanPtr_separates inj hv hgood (by simpa [generateXConstraints] using hsat) hi hj hij hmeet

/-- non-vacuity of `genx_separates`: the x sweep of the same two squares (constraint (0,1,gap 2),
    placement x₀ = 0, x₁ = 2) -/
example : exY 0 + ((rectAt exRs 0).width 0 + (rectAt exRs 1).width 0) / 2 ≤ exY 1 ∨
          exY 1 + ((rectAt exRs 0).width 0 + (rectAt exRs 1).width 0) / 2 ≤ exY 0 :=
  genx_separates exRs 0 0 id (fun _ _ h => h) exEvs exXValid exXGood exY exXSat 0 1 (by decide) (by decide)
    (by decide) exXMeet

/-- For every rectangle array and every border there IS a valid event order (the stable sort the
    driver uses), so the hypothesis `ValidOrder` of the separation theorems is never vacuous. -/
theorem valid_order_exists (rs : Array Rect) (bx b : Rat) :
    ValidOrder (yAxis rs bx b) rs.size (sortEvents (yAxis rs bx b) rs.size) ∧
    ValidOrder (xAxis rs bx b) rs.size (sortEvents (xAxis rs bx b) rs.size) :=
  ⟨sortEvents_valid _ _, sortEvents_valid _ _⟩

/-- On valid input the firstAbove/firstBelow pointer bookkeeping produces exactly the
    constraints obtained by looking up the scan-line neighbours at Close time. -/
theorem pointer_bookkeeping_exact (rs : Array Rect) (bx b : Rat) (rank : Nat → Nat)
    (inj : RankInjective rank) (evs : List Ev) (hv : ValidOrder (yAxis rs bx b) rs.size evs)
    (hgood : GoodAxis (yAxis rs bx b) rs.size) :
    generateYConstraints rs bx b rank evs
      = scanAdj (yAxis rs bx b) (keyLt (yAxis rs bx b) rank) evs [] :=
  scanPtr_eq_scanAdj _ (keyLt_strictTotal _ inj) evs [] _ _ (inv_init hv hgood)

example : generateYConstraints exRs 0 0 id exEvs
    = scanAdj (yAxis exRs 0 0) (keyLt (yAxis exRs 0 0) id) exEvs [] :=
  pointer_bookkeeping_exact exRs 0 0 id (fun _ _ h => h) exEvs exValid exGood

/-! ## (3) a satisfied separation constraint with gap = half sizes means no overlap in that axis -/

theorem separation_no_overlap (u v : Rect) (bx b : Rat)
    (h : u.centreY b + (u.height b + v.height b) / 2 ≤ v.centreY b ∨
         v.centreY b + (u.height b + v.height b) / 2 ≤ u.centreY b) :
    ¬ IntervalsMeet (u.getMinY b) (u.getMaxY b) (v.getMinY b) (v.getMaxY b) ∧
    ¬ Overlap (bordered u bx b) (bordered v bx b) := by
  have key : ¬ IntervalsMeet (u.getMinY b) (u.getMaxY b) (v.getMinY b) (v.getMaxY b) := by
    have := separation_no_meet h
    have e1 : u.getMinY b = u.centreY b - u.height b / 2 := by simp only [Rect.centreY, Rect.height]; ring
    have e2 : u.getMaxY b = u.centreY b + u.height b / 2 := by simp only [Rect.centreY, Rect.height]; ring
    have e3 : v.getMinY b = v.centreY b - v.height b / 2 := by simp only [Rect.centreY, Rect.height]; ring
    have e4 : v.getMaxY b = v.centreY b + v.height b / 2 := by simp only [Rect.centreY, Rect.height]; ring
    rw [e1, e2, e3, e4]; exact this
  exact ⟨key, fun hov => key ((overlap_iff _ _).1 hov).2⟩

/-- The y pass as a whole: move every rectangle's centre to ANY placement satisfying the generated
    constraints; afterwards no two rectangles (as seen through the getters, i.e. including the
    borders) overlap with positive area. -/
theorem geny_no_overlap (rs : Array Rect) (bx b : Rat) (rank : Nat → Nat) (inj : RankInjective rank)
    (evs : List Ev) (hv : ValidOrder (yAxis rs bx b) rs.size evs)
    (hgood : GoodAxis (yAxis rs bx b) rs.size)
    (y : Nat → Rat) (hsat : Sat y (generateYConstraints rs bx b rank evs))
    (i j : Nat) (hi : i < rs.size) (hj : j < rs.size) (hij : i ≠ j) :
    ¬ Overlap (bordered ((rectAt rs i).moveCentreY b (y i)) bx b)
              (bordered ((rectAt rs j).moveCentreY b (y j)) bx b) := by
  intro hov
  obtain ⟨⟨x, hx1, hx2, hx3, hx4⟩, hy⟩ := (overlap_iff _ _).1 hov
  by_cases hmeet : ScanMeet (yAxis rs bx b) i j
  · have hsep := geny_separates rs bx b rank inj evs hv hgood y hsat i j hi hj hij hmeet
    refine (separation_no_overlap ((rectAt rs i).moveCentreY b (y i)) ((rectAt rs j).moveCentreY b (y j)) bx b ?_).1 hy
    simpa only [moveCentreY_centre, moveCentreY_height] using hsep
  · -- x-extents strictly apart: moving in y does not change them
    simp only [ScanMeet, yAxis, not_and_or, not_le] at hmeet
    simp only [bordered, Rect.moveCentreY, Rect.moveMinY, Rect.getMinX, Rect.getMaxX] at hx1 hx2 hx3 hx4
    simp only [Rect.getMinX, Rect.getMaxX] at hmeet
    rcases hmeet with h | h <;> linarith

/-- non-vacuity of `geny_no_overlap` on the same instance: after the move the squares are
    [0,2]×[-1,1] and [1,3]×[1,3] — touching, not overlapping. -/
example : ¬ Overlap (bordered ((rectAt exRs 0).moveCentreY 0 (exY 0)) 0 0)
                    (bordered ((rectAt exRs 1).moveCentreY 0 (exY 1)) 0 0) :=
  geny_no_overlap exRs 0 0 id (fun _ _ h => h) exEvs exValid exGood exY exSat 0 1 (by decide) (by decide)
    (by decide)

/-- The third pass: the same for generateXConstraints without neighbour lists. -/
theorem genx_no_overlap (rs : Array Rect) (bx b : Rat) (rank : Nat → Nat) (inj : RankInjective rank)
    (evs : List Ev) (hv : ValidOrder (xAxis rs bx b) rs.size evs)
    (hgood : GoodAxis (xAxis rs bx b) rs.size)
    (x : Nat → Rat) (hsat : Sat x (generateXConstraints rs bx b rank evs false))
    (i j : Nat) (hi : i < rs.size) (hj : j < rs.size) (hij : i ≠ j) :
    ¬ Overlap (bordered ((rectAt rs i).moveCentreX bx (x i)) bx b)
              (bordered ((rectAt rs j).moveCentreX bx (x j)) bx b) := by
  intro hov
  obtain ⟨⟨p, hp1, hp2, hp3, hp4⟩, ⟨q, hq1, hq2, hq3, hq4⟩⟩ := (overlap_iff _ _).1 hov
  by_cases hmeet : ScanMeet (xAxis rs bx b) i j
  · have hsep := genx_separates rs bx b rank inj evs hv hgood x hsat i j hi hj hij hmeet
    simp only [bordered] at hp1 hp2 hp3 hp4
    rw [moveCentreX_getMinX] at hp1 hp3
    rw [moveCentreX_getMaxX] at hp2 hp4
    rcases hsep with h | h <;> linarith
  · simp only [ScanMeet, xAxis, not_and_or, not_le] at hmeet
    simp only [bordered, Rect.moveCentreX, Rect.moveMinX, Rect.getMinY, Rect.getMaxY] at hq1 hq2 hq3 hq4
    simp only [Rect.getMinY, Rect.getMaxY] at hmeet
    rcases hmeet with h | h <;> linarith

/-- removeoverlaps, thirdPass = false: the LAST pass is the y pass, run with borders
    (xBorder, yBorder + EXTRA_GAP); whatever the x pass did before, if the solver returns a placement
    satisfying the generated constraints then, after the borders are restored to (xBorder, yBorder),
    no two rectangles overlap (as seen through the getters). -/
theorem removeoverlaps_y_last_no_overlap (rs : Array Rect) (bx b extra : Rat) (hextra : 0 ≤ extra)
    (rank : Nat → Nat) (inj : RankInjective rank)
    (evs : List Ev) (hv : ValidOrder (yAxis rs bx (b + extra)) rs.size evs)
    (hgood : GoodAxis (yAxis rs bx (b + extra)) rs.size)
    (y : Nat → Rat) (hsat : Sat y (generateYConstraints rs bx (b + extra) rank evs))
    (i j : Nat) (hi : i < rs.size) (hj : j < rs.size) (hij : i ≠ j) :
    ¬ Overlap (bordered ((rectAt rs i).moveCentreY (b + extra) (y i)) bx b)
              (bordered ((rectAt rs j).moveCentreY (b + extra) (y j)) bx b) := by
  intro hov
  have := overlap_border_mono (ex := 0) (ey := extra) (le_refl _) hextra hov
  rw [add_zero] at this
  exact geny_no_overlap rs bx (b + extra) rank inj evs hv hgood y hsat i j hi hj hij this

/-- removeoverlaps, thirdPass = true: the last pass is the x pass without neighbour lists, run with
    borders (xBorder + EXTRA_GAP, yBorder) on the rectangles as the y pass left them. -/
theorem removeoverlaps_x_last_no_overlap (rs : Array Rect) (bx b extra : Rat) (hextra : 0 ≤ extra)
    (rank : Nat → Nat) (inj : RankInjective rank)
    (evs : List Ev) (hv : ValidOrder (xAxis rs (bx + extra) b) rs.size evs)
    (hgood : GoodAxis (xAxis rs (bx + extra) b) rs.size)
    (x : Nat → Rat) (hsat : Sat x (generateXConstraints rs (bx + extra) b rank evs false))
    (i j : Nat) (hi : i < rs.size) (hj : j < rs.size) (hij : i ≠ j) :
    ¬ Overlap (bordered ((rectAt rs i).moveCentreX (bx + extra) (x i)) bx b)
              (bordered ((rectAt rs j).moveCentreX (bx + extra) (x j)) bx b) := by
  intro hov
  have := overlap_border_mono (ex := extra) (ey := 0) hextra (le_refl _) hov
  rw [add_zero] at this
  exact genx_no_overlap rs (bx + extra) b rank inj evs hv hgood x hsat i j hi hj hij this

/-! ## (4) the checkers used on the implementation's output are sound -/

/-- `noOverlap rs 0` decides exactly "no two distinct rectangles share an interior point". -/
theorem noOverlap_sound_complete (rs : Array Rect) :
    noOverlap rs 0 = true ↔
      ∀ i j, i < rs.size → j < rs.size → i ≠ j → ¬ Overlap (rectAt rs i) (rectAt rs j) :=
  noOverlap_zero_iff rs

theorem satisfiedBy_sound_complete (y : Nat → Rat) (cs : List Con) : satisfiedBy y cs = true ↔ Sat y cs :=
  satisfiedBy_iff y cs

/-- an accepted ordering witness proves the constraint graph acyclic -/
theorem acyclic_witness_sound (pos : Nat → Nat) (cs : List Con) (h : acyclicBy pos cs = true) : Acyclic cs :=
  acyclicBy_sound h

/-- an accepted separation certificate proves: every placement satisfying `cs` keeps every pair
    whose sweep extents meet at least half their lengths apart -/
theorem separation_certificate_sound (ax : Axis) (n : Nat) (cs : List Con) (pos : Nat → Nat) (masks : Array Nat)
    (h : sepCert ax n cs pos masks = true) (y : Nat → Rat) (hsat : Sat y cs)
    (u v : Nat) (hu : u < n) (hv : v < n) (huv : u ≠ v) (hmeet : ScanMeet ax u v) :
    y u + (ax.sz u + ax.sz v) / 2 ≤ y v ∨ y v + (ax.sz u + ax.sz v) / 2 ≤ y u :=
  sepCert_sound h hsat hu hv huv hmeet

/-- non-vacuity of `separation_certificate_sound`: the certificate (ordering witness = index,
    reachability sets {1}, {}) for the constraint (0,1,gap 2) of the example is accepted -/
example : exY 0 + ((yAxis exRs 0 0).sz 0 + (yAxis exRs 0 0).sz 1) / 2 ≤ exY 1 ∨
          exY 1 + ((yAxis exRs 0 0).sz 0 + (yAxis exRs 0 0).sz 1) / 2 ≤ exY 0 :=
  separation_certificate_sound (yAxis exRs 0 0) 2 [⟨0, 1, 2⟩] id #[2, 0] exCert exY
    (by rw [← exCons]; exact exSat) 0 1 (by decide) (by decide) (by decide) exMeet

theorem sizesKept_sound_complete (old new : Array Rect) :
    sizesKept old new 0 = true ↔ old.size = new.size ∧ ∀ i, i < old.size →
      (rectAt new i).maxX - (rectAt new i).minX = (rectAt old i).maxX - (rectAt old i).minX ∧
      (rectAt new i).maxY - (rectAt new i).minY = (rectAt old i).maxY - (rectAt old i).minY :=
  sizesKept_zero_iff old new

/-! ## (5) sizes are kept by the moves removeoverlaps performs (exact arithmetic) -/

theorem moveCentre_keeps_size (r : Rect) (bx b p : Rat) :
    (r.moveCentreX bx p).width bx = r.width bx ∧ (r.moveCentreX bx p).height b = r.height b ∧
    (r.moveCentreY b p).width bx = r.width bx ∧ (r.moveCentreY b p).height b = r.height b ∧
    (r.moveCentreX bx p).centreX bx = p ∧ (r.moveCentreY b p).centreY b = p :=
  ⟨moveCentreX_width r bx p, moveCentreX_height r bx b p, moveCentreY_width r bx b p,
   moveCentreY_height r b p, moveCentreX_centre r bx p, moveCentreY_centre r b p⟩

end AdaptaVerif.Props.C09
