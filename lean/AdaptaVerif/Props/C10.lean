/-
C10 — libavoid nudging: shared paths are separated without moving endpoints.
Property theorems only (helpers: Lemmas/Nudge.lean).

What is proved for ALL regions / parameters / solver outputs (model: Model/Nudge.lean):
  (a) `region_separation`: any assignment satisfying the generated constraints keeps ordered,
      overlapping segments of different connectors (not exempted by the common-end-point rule)
      at least `sepDist` apart;
  (b) `region_limits`, `applied_in_limits`: a satisfied solution is within `tol` of the channel
      limits and the applied (clamped) positions are inside `[minSpaceLimit, maxSpaceLimit]`;
  (c) `fixed_stay_put`, `unsatisfied_no_change`: fixed segments are never written, and nothing is
      written when the `satisfied` test fails — this, not the weight, is the mechanism that keeps
      end segments in place (the weight only feeds the `satisfied` test; that VPSC honours it is
      C01/C02's business and is checked here per run on `displayRoute()`);
  (d) `applied_separation`: after applying a satisfied solution the separation is ≥ sepDist − 2·tol;
  (e) `sepAfter_bounds`: the reduced distance after k ≤ 9 reductions is ≥ d/10 > 0.
Soundness of the route checkers of Check/Nudge.lean.
Not proved / not modelled: segment ordering (`PtOrderMap`, `linesort`), region formation, channel
limits (`buildOrthogonalChannelInfo`), the unifying pass; the per-region constraint dump (design
hook H1) is not available, so `genCons` is not compared with the C++ constraint list.
-/
import AdaptaVerif.Lemmas.Nudge
import AdaptaVerif.Lemmas.PinsAttach
import AdaptaVerif.Check.Nudge
import AdaptaVerif.Spec.Nudge
namespace AdaptaVerif.Props.C10
open AdaptaVerif.Model.Nudge AdaptaVerif.Lemmas.Nudge AdaptaVerif.Spec.Nudge
open AdaptaVerif.Model.Pins AdaptaVerif.Spec.Pins AdaptaVerif.Check.Nudge

/-- (a) ∀ regions, ∀ solver outputs satisfying the generated constraints: ordered overlapping
    segments of different connectors end at least `sepDist` apart -/
theorem region_separation (p : Params) (segs : List Seg) (sol : Sol) (h : AllHold p segs sol)
    (j i : Nat) (a b : Seg) (hj : segs[j]? = some a) (hi : segs[i]? = some b) (hji : j < i)
    (hov : overlaps b a = true) (hfix : b.fixed = false ∨ a.fixed = false) (hfull : FullGap p a b) :
    sol.x j + p.sepDist ≤ sol.x i := by
  have hm := sep_mem_genCons p segs j i a b hj hi hji hov hfix
  rw [gapFor_full p a b hfull] at hm
  have := h _ hm
  simpa [Cons.holds] using this

/-- the executable constraint test of the driver decides `Cons.holds` -/
theorem holdsB_iff (sol : Sol) (c : Cons) : c.holdsB sol = true ↔ c.holds sol := by
  cases c with
  | sep j i gap eq => cases eq <;> simp [Cons.holdsB, Cons.holds]
  | lower i l => simp [Cons.holdsB, Cons.holds]
  | upper i u => simp [Cons.holdsB, Cons.holds]

/-- non-vacuity: a region of two overlapping free segments of different connectors in a channel
    [0, 30] with sepDist 10, and an assignment satisfying all constraints -/
example : AllHold ⟨10, true, fun _ _ => false, fun _ _ => false, 1/10000⟩
    [⟨5, some 0, some 30, false, 1, 0, 100⟩, ⟨5, some 0, some 30, false, 2, 50, 150⟩]
    ⟨fun i => if i = 0 then 0 else 10, fun _ => 0, fun _ => 30⟩ := by
  intro c hc
  simp [genCons, genFrom, consFor, overlaps, leOpt, gapFor] at hc
  rcases hc with rfl | rfl | rfl | ⟨_, rfl⟩ | rfl <;> simp [Cons.holds] <;> norm_num

/-- (b) a satisfied solution keeps every non-fixed segment within `tol` of its channel limits -/
theorem region_limits (p : Params) (segs : List Seg) (sol : Sol) (h : AllHold p segs sol)
    (hs : Satisfied p segs sol) (i : Nat) (s : Seg) (hi : segs[i]? = some s) (hf : s.fixed = false) :
    (∀ l, s.minLim = some l → l - p.tol ≤ sol.x i) ∧ (∀ u, s.maxLim = some u → sol.x i ≤ u + p.tol) := by
  obtain ⟨_, hl, hu⟩ := hs i s hi
  constructor
  · intro l hm
    have hc := h _ (lower_mem_genCons p segs i s l hi hf hm)
    simp only [Cons.holds] at hc
    have := absR_le (hl hf l hm)
    linarith [this.1]
  · intro u hm
    have hc := h _ (upper_mem_genCons p segs i s u hi hf hm)
    simp only [Cons.holds] at hc
    have := absR_le (hu hf u hm)
    linarith [this.2]

/-- non-vacuity of `Satisfied` (same instance as above: channel variables at the limits) -/
example : Satisfied ⟨10, true, fun _ _ => false, fun _ _ => false, 1/10000⟩
    [⟨5, some 0, some 30, false, 1, 0, 100⟩, ⟨5, some 0, some 30, false, 2, 50, 150⟩]
    ⟨fun i => if i = 0 then 0 else 10, fun _ => 0, fun _ => 30⟩ := by
  intro i s hi
  match i, hi with
  | 0, hi => simp at hi; subst hi; simp [AdaptaVerif.Model.Nudge.absR]
  | 1, hi => simp at hi; subst hi; simp [AdaptaVerif.Model.Nudge.absR]
  | (n + 2), hi => simp at hi

/-- (b') the position written back is inside `[minSpaceLimit, maxSpaceLimit]` -/
theorem applied_in_limits (p : Params) (segs : List Seg) (sol : Sol) (h : AllHold p segs sol)
    (hs : Satisfied p segs sol) (ht : 0 ≤ p.tol) (i : Nat) (s : Seg) (hi : segs[i]? = some s)
    (hf : s.fixed = false) (hlu : ∀ l u, s.minLim = some l → s.maxLim = some u → l ≤ u) :
    (∀ l, s.minLim = some l → l ≤ finalPos true s (sol.x i)) ∧
    (∀ u, s.maxLim = some u → finalPos true s (sol.x i) ≤ u) := by
  obtain ⟨h1, h2⟩ := region_limits p segs sol h hs i s hi hf
  have hc := clamp_close s (sol.x i) p.tol ht hlu h1 h2
  simp only [finalPos, hf, if_true, Bool.false_eq_true, if_false]
  exact ⟨hc.2.2.1, hc.2.2.2⟩

/-- (c) fixed segments are never moved by the apply step -/
theorem fixed_stay_put (sat : Bool) (s : Seg) (xi : Rat) (hf : s.fixed = true) : finalPos sat s xi = s.pos := by
  unfold finalPos; simp [hf]

/-- (c') when the `satisfied` test fails nothing is moved -/
theorem unsatisfied_no_change (s : Seg) (xi : Rat) : finalPos false s xi = s.pos := by
  unfold finalPos; simp

/-- (d) after applying a satisfied solution: separation ≥ sepDist − 2·tol -/
theorem applied_separation (p : Params) (segs : List Seg) (sol : Sol) (h : AllHold p segs sol)
    (hs : Satisfied p segs sol) (ht : 0 ≤ p.tol)
    (hlims : ∀ (i : Nat) (s : Seg), segs[i]? = some s → ∀ l u, s.minLim = some l → s.maxLim = some u → l ≤ u)
    (j i : Nat) (a b : Seg) (hj : segs[j]? = some a) (hi : segs[i]? = some b) (hji : j < i)
    (hov : overlaps b a = true) (hfix : b.fixed = false ∨ a.fixed = false) (hfull : FullGap p a b) :
    finalPos true a (sol.x j) + (p.sepDist - 2 * p.tol) ≤ finalPos true b (sol.x i) := by
  have hsep := region_separation p segs sol h j i a b hj hi hji hov hfix hfull
  have close : ∀ k s, segs[k]? = some s → -p.tol ≤ finalPos true s (sol.x k) - sol.x k ∧
      finalPos true s (sol.x k) - sol.x k ≤ p.tol := by
    intro k s hk
    cases hfx : s.fixed with
    | true =>
      have := absR_le ((hs k s hk).1 hfx)
      simp only [finalPos, hfx, if_true]
      constructor <;> linarith [this.1, this.2]
    | false =>
      obtain ⟨h1, h2⟩ := region_limits p segs sol h hs k s hk hfx
      have hc := clamp_close s (sol.x k) p.tol ht (hlims k s hk) h1 h2
      simp only [finalPos, hfx, if_true, Bool.false_eq_true, if_false]
      exact ⟨hc.1, hc.2.1⟩
  have ca := close j a hj
  have cb := close i b hi
  linarith [ca.1, ca.2, cb.1, cb.2]

-- non-vacuity (joint) of `region_separation`, `region_limits`, `applied_in_limits`, `applied_separation`:
-- ALL their hypotheses hold together on the two-segment region above, and the theorems instantiate on it
example :
    let p : Params := ⟨10, true, fun _ _ => false, fun _ _ => false, 1/10000⟩
    let a : Seg := ⟨5, some 0, some 30, false, 1, 0, 100⟩
    let b : Seg := ⟨5, some 0, some 30, false, 2, 50, 150⟩
    let sol : Sol := ⟨fun i => if i = 0 then 0 else 10, fun _ => 0, fun _ => 30⟩
    AllHold p [a, b] sol ∧ Satisfied p [a, b] sol ∧ 0 ≤ p.tol ∧
    (∀ (i : Nat) (s : Seg), [a, b][i]? = some s → ∀ l u, s.minLim = some l → s.maxLim = some u → l ≤ u) ∧
    overlaps b a = true ∧ (b.fixed = false ∨ a.fixed = false) ∧ FullGap p a b ∧
    sol.x 0 + p.sepDist ≤ sol.x 1 ∧
    (∀ l, b.minLim = some l → l ≤ finalPos true b (sol.x 1)) ∧
    finalPos true a (sol.x 0) + (p.sepDist - 2 * p.tol) ≤ finalPos true b (sol.x 1) := by
  intro p a b sol
  have hA : AllHold p [a, b] sol := by
    intro c hc
    simp [p, a, b, genCons, genFrom, consFor, overlaps, leOpt, gapFor] at hc
    rcases hc with rfl | rfl | rfl | ⟨_, rfl⟩ | rfl <;> (simp [sol, Cons.holds]; try norm_num)
  have hS : Satisfied p [a, b] sol := by
    intro i s hi
    match i, hi with
    | 0, hi => simp at hi; subst hi; simp [a, sol, p, AdaptaVerif.Model.Nudge.absR]
    | 1, hi => simp at hi; subst hi; simp [b, sol, p, AdaptaVerif.Model.Nudge.absR]
    | (n + 2), hi => simp at hi
  have ht : 0 ≤ p.tol := by simp [p]
  have hl : ∀ (i : Nat) (s : Seg), [a, b][i]? = some s → ∀ l u, s.minLim = some l → s.maxLim = some u → l ≤ u := by
    intro i s hi l u h1 h2
    match i, hi with
    | 0, hi => simp at hi; subst hi; simp [a] at h1 h2; subst h1 h2; norm_num
    | 1, hi => simp at hi; subst hi; simp [b] at h1 h2; subst h1 h2; norm_num
    | (n + 2), hi => simp at hi
  have hov : overlaps b a = true := by decide
  have hfx : b.fixed = false ∨ a.fixed = false := Or.inl rfl
  have hfg : FullGap p a b := ⟨by decide, by simp [p]⟩
  exact ⟨hA, hS, ht, hl, hov, hfx, hfg,
    region_separation p [a, b] sol hA 0 1 a b rfl rfl (by decide) hov hfx hfg,
    (applied_in_limits p [a, b] sol hA hS ht 1 b rfl rfl (hl 1 b rfl)).1,
    applied_separation p [a, b] sol hA hS ht hl 0 1 a b rfl rfl (by decide) hov hfx hfg⟩

/-- (e) the separation distance tried after k ≤ 9 reductions (`sepDist -= baseSepDist/10`) is at
    least a tenth of the ideal nudging distance, hence positive (exact arithmetic; the C++ loop
    stops when `sepDist ≤ 0.0001`, i.e. after the 10th reduction) -/
theorem sepAfter_bounds (d : Rat) (hd : 0 < d) (k : Nat) (hk : k ≤ 9) :
    d / 10 ≤ sepAfter d k ∧ 0 < sepAfter d k := by
  unfold sepAfter
  have hk' : (k : Rat) ≤ 9 := by exact_mod_cast hk
  have h10 : 0 < d / 10 := by positivity
  have : (k : Rat) * (d / 10) ≤ 9 * (d / 10) := mul_le_mul_of_nonneg_right hk' (le_of_lt h10)
  constructor <;> linarith

/-! ### route checkers -/

/-- soundness of `collinearOverlap`: if the checker says yes, the two segments really have two
    distinct points in common -/
theorem collinearOverlap_sound (s t : P2 × P2) (h : collinearOverlap s t = true) :
    ∃ p q : P2, p ≠ q ∧ OnSeg s.1 s.2 p ∧ OnSeg s.1 s.2 q ∧ OnSeg t.1 t.2 p ∧ OnSeg t.1 t.2 q := by
  unfold collinearOverlap at h
  simp only [Bool.or_eq_true, Bool.and_eq_true, decide_eq_true_eq] at h
  rcases h with ⟨⟨⟨hs, ht⟩, hst⟩, hov⟩ | ⟨⟨⟨hs, ht⟩, hst⟩, hov⟩
  · -- horizontal: common x-interval [lo, hi], lo < hi
    unfold overlapLen at hov
    set lo := max (min s.1.x s.2.x) (min t.1.x t.2.x) with hlo
    set hi := min (max s.1.x s.2.x) (max t.1.x t.2.x) with hhi
    have hlt : lo < hi := by linarith
    have mk : ∀ v, lo ≤ v → v ≤ hi → OnSeg s.1 s.2 ⟨v, s.1.y⟩ ∧ OnSeg t.1 t.2 ⟨v, s.1.y⟩ := by
      intro v hv1 hv2
      have a1 : min s.1.x s.2.x ≤ v := le_trans (le_max_left _ _) hv1
      have a2 : v ≤ max s.1.x s.2.x := le_trans hv2 (min_le_left _ _)
      have b1 : min t.1.x t.2.x ≤ v := le_trans (le_max_right _ _) hv1
      have b2 : v ≤ max t.1.x t.2.x := le_trans hv2 (min_le_right _ _)
      obtain ⟨u, u0, u1, hu⟩ := between_param s.1.x s.2.x v a1 a2
      obtain ⟨w, w0, w1, hw⟩ := between_param t.1.x t.2.x v b1 b2
      exact ⟨⟨u, u0, u1, hu, by simp only [← hs]; ring⟩, ⟨w, w0, w1, hw, by simp only [← ht, hst]; ring⟩⟩
    refine ⟨⟨lo, s.1.y⟩, ⟨hi, s.1.y⟩, ?_, (mk lo (le_refl _) (le_of_lt hlt)).1, (mk hi (le_of_lt hlt) (le_refl _)).1,
      (mk lo (le_refl _) (le_of_lt hlt)).2, (mk hi (le_of_lt hlt) (le_refl _)).2⟩
    intro heq
    have : lo = hi := congrArg P2.x heq
    linarith
  · unfold overlapLen at hov
    set lo := max (min s.1.y s.2.y) (min t.1.y t.2.y) with hlo
    set hi := min (max s.1.y s.2.y) (max t.1.y t.2.y) with hhi
    have hlt : lo < hi := by linarith
    have mk : ∀ v, lo ≤ v → v ≤ hi → OnSeg s.1 s.2 ⟨s.1.x, v⟩ ∧ OnSeg t.1 t.2 ⟨s.1.x, v⟩ := by
      intro v hv1 hv2
      have a1 : min s.1.y s.2.y ≤ v := le_trans (le_max_left _ _) hv1
      have a2 : v ≤ max s.1.y s.2.y := le_trans hv2 (min_le_left _ _)
      have b1 : min t.1.y t.2.y ≤ v := le_trans (le_max_right _ _) hv1
      have b2 : v ≤ max t.1.y t.2.y := le_trans hv2 (min_le_right _ _)
      obtain ⟨u, u0, u1, hu⟩ := between_param s.1.y s.2.y v a1 a2
      obtain ⟨w, w0, w1, hw⟩ := between_param t.1.y t.2.y v b1 b2
      exact ⟨⟨u, u0, u1, by simp only [← hs]; ring, hu⟩, ⟨w, w0, w1, by simp only [← ht, hst]; ring, hw⟩⟩
    refine ⟨⟨s.1.x, lo⟩, ⟨s.1.x, hi⟩, ?_, (mk lo (le_refl _) (le_of_lt hlt)).1, (mk hi (le_of_lt hlt) (le_refl _)).1,
      (mk lo (le_refl _) (le_of_lt hlt)).2, (mk hi (le_of_lt hlt) (le_refl _)).2⟩
    intro heq
    have : lo = hi := congrArg P2.y heq
    linarith

/-- soundness of `sharedCollinearStretch` (the direction used for SPECFAIL) -/
theorem sharedCollinearStretch_sound (r1 r2 : List P2) (h : sharedCollinearStretch r1 r2 = true) :
    SharedStretch r1 r2 := by
  unfold sharedCollinearStretch at h
  simp only [List.any_eq_true] at h
  obtain ⟨s, hs, t, ht, hc⟩ := h
  obtain ⟨p, q, hpq, h1, h2, h3, h4⟩ := collinearOverlap_sound s t hc
  exact ⟨s, hs, t, ht, p, q, hpq, h1, h2, h3, h4⟩

example : sharedCollinearStretch [⟨0, 0⟩, ⟨10, 0⟩, ⟨10, 5⟩] [⟨4, 3⟩, ⟨4, 0⟩, ⟨20, 0⟩] = true := by
  simp [sharedCollinearStretch, segments, collinearOverlap, overlapLen]; norm_num

/-- soundness of `parallelOverlapDist`: the reported distance is realised by two points, one on
    each segment, that face each other across the gap -/
theorem parallelOverlapDist_sound (s t : P2 × P2) (dist : Rat) (h : parallelOverlapDist s t = some dist) :
    ∃ p q : P2, OnSeg s.1 s.2 p ∧ OnSeg t.1 t.2 q ∧
      ((p.x = q.x ∧ (dist = p.y - q.y ∨ dist = q.y - p.y)) ∨ (p.y = q.y ∧ (dist = p.x - q.x ∨ dist = q.x - p.x))) := by
  unfold parallelOverlapDist at h
  split_ifs at h with h1 h2
  · obtain ⟨hs, ht, hov⟩ := h1
    unfold overlapLen at hov
    set lo := max (min s.1.x s.2.x) (min t.1.x t.2.x) with hlo
    have hhi : lo ≤ min (max s.1.x s.2.x) (max t.1.x t.2.x) := by linarith
    have a1 : min s.1.x s.2.x ≤ lo := le_max_left _ _
    have a2 : lo ≤ max s.1.x s.2.x := le_trans hhi (min_le_left _ _)
    have b1 : min t.1.x t.2.x ≤ lo := le_max_right _ _
    have b2 : lo ≤ max t.1.x t.2.x := le_trans hhi (min_le_right _ _)
    obtain ⟨u, u0, u1, hu⟩ := between_param s.1.x s.2.x lo a1 a2
    obtain ⟨w, w0, w1, hw⟩ := between_param t.1.x t.2.x lo b1 b2
    refine ⟨⟨lo, s.1.y⟩, ⟨lo, t.1.y⟩, ⟨u, u0, u1, hu, by simp only [← hs]; ring⟩,
      ⟨w, w0, w1, hw, by simp only [← ht]; ring⟩, Or.inl ⟨rfl, ?_⟩⟩
    simp only [Option.some.injEq] at h
    unfold AdaptaVerif.Check.Nudge.absR at h
    split_ifs at h
    · right; simp only; linarith
    · left; simp only; linarith
  · obtain ⟨hs, ht, hov⟩ := h2
    unfold overlapLen at hov
    set lo := max (min s.1.y s.2.y) (min t.1.y t.2.y) with hlo
    have hhi : lo ≤ min (max s.1.y s.2.y) (max t.1.y t.2.y) := by linarith
    have a1 : min s.1.y s.2.y ≤ lo := le_max_left _ _
    have a2 : lo ≤ max s.1.y s.2.y := le_trans hhi (min_le_left _ _)
    have b1 : min t.1.y t.2.y ≤ lo := le_max_right _ _
    have b2 : lo ≤ max t.1.y t.2.y := le_trans hhi (min_le_right _ _)
    obtain ⟨u, u0, u1, hu⟩ := between_param s.1.y s.2.y lo a1 a2
    obtain ⟨w, w0, w1, hw⟩ := between_param t.1.y t.2.y lo b1 b2
    refine ⟨⟨s.1.x, lo⟩, ⟨t.1.x, lo⟩, ⟨u, u0, u1, by simp only [← hs]; ring, hu⟩,
      ⟨w, w0, w1, by simp only [← ht]; ring, hw⟩, Or.inr ⟨rfl, ?_⟩⟩
    simp only [Option.some.injEq] at h
    unfold AdaptaVerif.Check.Nudge.absR at h
    split_ifs at h
    · right; simp only; linarith
    · left; simp only; linarith

-- non-vacuity of `parallelOverlapDist_sound`: two horizontal segments 3 apart whose x-extents overlap on [4, 10]
example : parallelOverlapDist (⟨0, 0⟩, ⟨10, 0⟩) (⟨4, 3⟩, ⟨20, 3⟩) = some 3 := by decide +kernel

end AdaptaVerif.Props.C10
