/-
C04, segment penalty > 0 — the optimum of  length + penalty · bends  over libavoid's OWN search space.

The polyline A* of makepath.cpp runs on states (vertex, previous vertex); `Check.OwnGraph.Space` holds its moves
(enabled visibility edges dumped from the live router), the bend count of `cost()` and the admissibility
predicate `validateBendPoint`.  The theorems say that a certificate accepted by `checkOwn` encloses the optimum over
ALL admissible routes of that space (any number of vertices, any weights inside the enclosures, any ordered field).
The driver uses it to separate a failure of the SEARCH (route dearer than the certified optimum of the space the
search itself explores: kind `search-not-minimal`) from the known limitation that the visibility graph is pruned
for Euclidean shortest paths (route optimal in its own space, dearer than the geometric optimum).
-/
import AdaptaVerif.Lemmas.OwnGraph
namespace AdaptaVerif.Props.C04Own
open AdaptaVerif.Model.Geometry (Pt area2)
open AdaptaVerif.Check.Potential AdaptaVerif.Check.OwnGraph AdaptaVerif.Lemmas.OwnGraph

variable {K : Type} [Field K] [LinearOrder K] [IsStrictOrderedRing K]

/-- weak duality on the (vertex, previous vertex) state space, all spaces, all routes: a potential that is
    feasible on the moves out of the start state and on every admissible move, and at least `lo` on every arrival
    state of t, bounds the cost of every admissible route s → t from below (true lengths ≥ the lower ends). -/
theorem own_lower_bound (S : Space) (π : Nat → Nat → Rat) (s t : Nat) (lo : Rat) (hst : s ≠ t) (h0 : π s S.n = 0)
    (hS : feasStart S π s = true) (hI : feasInner S π = true) (hT : tarLo S π t lo = true)
    (tw : WEdge → K) (hw : ∀ e ∈ S.edges, (e.wlo : K) ≤ tw e) (c : K) (hr : Route S tw t none s c) :
    (lo : K) ≤ c := by
  have := route_lower S π s t lo hst hS hI hT tw hw none s c hr (fun _ => rfl) (by intro p hp; cases hp)
  simp only [code] at this
  rw [h0] at this
  simpa using this

/-- an accepted witness path is an admissible route of the space, and its true cost is at most the bound -/
theorem own_witness_upper_bound (S : Space) (tw : WEdge → K) (hw : ∀ e ∈ S.edges, tw e ≤ (e.whi : K))
    (s t : Nat) (path : List Nat) (hi : Rat) (hh : path.head? = some s) (hl : path.getLast? = some t)
    (hp : routeHi S none path = some hi) : ∃ c, Route S tw t none s c ∧ c ≤ (hi : K) :=
  routeHi_route S tw hw t path none s hi hh hl hp

/-- soundness of the certificate checker: if `checkOwn` returns [lo, hi] then, for every assignment of true
    lengths inside the enclosures, every admissible route s → t of the search space costs ≥ lo and some
    admissible route costs ≤ hi. -/
theorem checkOwn_sound (S : Space) (π : Nat → Nat → Rat) (s t : Nat) (path : List Nat) (lo hi : Rat)
    (h : checkOwn S π s t path = some (lo, hi))
    (tw : WEdge → K) (hw : ∀ e ∈ S.edges, (e.wlo : K) ≤ tw e ∧ tw e ≤ (e.whi : K)) :
    (∀ c, Route S tw t none s c → (lo : K) ≤ c) ∧ (∃ c, Route S tw t none s c ∧ c ≤ (hi : K)) :=
  checkOwn_sound_aux S π s t path lo hi h tw hw

/-- the `search-not-minimal` verdict is rigorous: a route whose cost exceeds the certified upper end is dearer
    than some admissible route of the search's own space. -/
theorem search_not_minimal_sound (S : Space) (π : Nat → Nat → Rat) (s t : Nat) (path : List Nat) (lo hi : Rat)
    (h : checkOwn S π s t path = some (lo, hi))
    (tw : WEdge → K) (hw : ∀ e ∈ S.edges, (e.wlo : K) ≤ tw e ∧ tw e ≤ (e.whi : K))
    (impl : K) (himpl : (hi : K) < impl) : ∃ c, Route S tw t none s c ∧ c < impl := by
  obtain ⟨c, hc, hle⟩ := (checkOwn_sound S π s t path lo hi h tw hw).2
  exact ⟨c, hc, lt_of_le_of_lt hle himpl⟩

-- non-vacuity: three vertices, the two-leg route (one bend, penalty 1/2) beats the direct edge of length 3;
-- the certificate is accepted with lo = hi = 5/2
example : checkOwn ⟨3, [⟨0, 1, 1, 1⟩, ⟨1, 2, 1, 1⟩, ⟨0, 2, 3, 3⟩], fun _ _ _ => 1, fun _ _ _ => true, 1 / 2⟩
    (fun v p => if v = 1 ∧ p = 0 then 1 else if v = 2 ∧ p = 1 then 5 / 2 else if v = 2 ∧ p = 0 then 3 else 0)
    0 2 [0, 1, 2] = some (5 / 2, 5 / 2) := by decide +kernel

-- non-vacuity of `checkOwn_sound`, `own_lower_bound`, `own_witness_upper_bound`, `search_not_minimal_sound`
-- (all hypotheses jointly, K = ℚ, true length = the common end of the degenerate enclosures): the optimum of the
-- three-vertex space above is exactly 5/2, and an implementation cost of 3 is refuted
example :
    let S : Space := ⟨3, [⟨0, 1, 1, 1⟩, ⟨1, 2, 1, 1⟩, ⟨0, 2, 3, 3⟩], fun _ _ _ => 1, fun _ _ _ => true, 1 / 2⟩
    (∃ c : Rat, Route S (fun e => e.wlo) 2 none 0 c ∧ (5 / 2 : Rat) ≤ c ∧ c ≤ (5 / 2 : Rat)) ∧
    (∃ c : Rat, Route S (fun e => e.whi) 2 none 0 c ∧ c ≤ (5 / 2 : Rat)) ∧
    (∃ c : Rat, Route S (fun e => e.wlo) 2 none 0 c ∧ c < 3) := by
  intro S
  let π : Nat → Nat → Rat :=
    fun v p => if v = 1 ∧ p = 0 then 1 else if v = 2 ∧ p = 1 then 5 / 2 else if v = 2 ∧ p = 0 then 3 else 0
  have hw : ∀ e ∈ S.edges, (e.wlo : Rat) ≤ e.wlo ∧ e.wlo ≤ (e.whi : Rat) := by
    intro e he
    simp only [S, List.mem_cons, List.not_mem_nil, or_false] at he
    rcases he with rfl | rfl | rfl <;> norm_num
  have hck : checkOwn S π 0 2 [0, 1, 2] = some (5 / 2, 5 / 2) := by decide +kernel
  have hs := checkOwn_sound (K := Rat) S π 0 2 [0, 1, 2] (5 / 2) (5 / 2) hck (fun e => e.wlo) hw
  refine ⟨?_, ?_, ?_⟩
  · obtain ⟨c, hr, hle⟩ := hs.2
    refine ⟨c, hr, ?_, hle⟩
    exact own_lower_bound (K := Rat) S π 0 2 (5 / 2) (by decide) (by decide +kernel) (by decide +kernel)
      (by decide +kernel) (by decide +kernel) (fun e => e.wlo) (fun e he => (hw e he).1) c hr
  · exact own_witness_upper_bound (K := Rat) S (fun e => e.whi) (fun _ _ => le_refl _) 0 2 [0, 1, 2] (5 / 2)
      rfl rfl (by decide +kernel)
  · exact search_not_minimal_sound (K := Rat) S π 0 2 [0, 1, 2] (5 / 2) (5 / 2) hck (fun e => e.wlo) hw 3 (by norm_num)

/-- `cost()` charges no bend exactly for a collinear triple passed straight on -/
theorem bendCount_eq_zero_iff (a b c : Pt) :
    bendCount a b c = 0 ↔ area2 a b c = 0 ∧ (b.x - a.x) * (c.x - b.x) + (b.y - a.y) * (c.y - b.y) > 0 := by
  unfold bendCount
  by_cases h1 : area2 a b c = 0
  · by_cases h2 : (b.x - a.x) * (c.x - b.x) + (b.y - a.y) * (c.y - b.y) > 0
    · simp [h1, h2]
    · simp [h1, h2]
  · simp [h1]

theorem bendCount_le_two (a b c : Pt) : bendCount a b c ≤ 2 := by
  unfold bendCount
  split
  · omega
  · split <;> omega

/-- `validateBendPoint` never rejects a collinear triple (so the straight leg through a corner is a move) -/
theorem validBend_collinear (a b c d e : Pt) (h : area2 a b c = 0) : validBend a b c d e = true := by
  unfold validBend sgn
  simp [h]

example : bendCount ⟨0, 0⟩ ⟨1, 1⟩ ⟨3, 3⟩ = 0 ∧ bendCount ⟨0, 0⟩ ⟨1, 1⟩ ⟨3, 2⟩ = 1 ∧ bendCount ⟨0, 0⟩ ⟨2, 2⟩ ⟨1, 1⟩ = 2 := by
  decide +kernel

end AdaptaVerif.Props.C04Own
