/-
C13, tie of Model/TopoCons.lean to the source: the decision tables of the constraint generation are
regenerated from the C++ on every run (`check/props/C13.py::_gen_cons_rules` → Gen/TopoConsRules.lean;
the statement skeleton of every modelled function is matched literally, a mismatch is a translator
error = broken tie) and proved equal to what the model uses.  A change of one of these tables in the
C++ changes the generated definition and breaks the corresponding theorem here.
-/
import AdaptaVerif.Gen.TopoConsRules
import AdaptaVerif.Lemmas.TopoConsGen
import AdaptaVerif.Lemmas.TopoConsBend
namespace AdaptaVerif.Props.C13ConsTie
open AdaptaVerif.Model.TopoCons
open AdaptaVerif.Gen

/-- The same-position rules of `CompareEvents` order the four kinds as the model's `Ev.rank`:
    NodeClose < SegmentOpen < SegmentClose < NodeOpen, and leave equal kinds unordered. -/
theorem gen_cmpSamePos_is_rank :
    ∀ a : Nat, a < 4 → ∀ b : Nat, b < 4 → TopoConsRules.cmpSamePos a b = decide (a < b) := by
  decide

theorem ev_rank_lt_four (a : Ev) : a.rank < 4 := by
  cases a <;> simp [Ev.rank]

/-- `CompareEvents::operator()` is the strict part of the model's event order: `evLe` (the order the
    model sorts by) is "less, or not greater and not later in the tie-break". -/
theorem gen_compareEvents_is_model (d : Nat) (tb : Ev → Nat) (a b : Ev) :
    evLe d tb a b = (TopoConsRules.evLt (a.pos d) (b.pos d) a.rank b.rank ||
      (!TopoConsRules.evLt (b.pos d) (a.pos d) b.rank a.rank && decide (tb a ≤ tb b))) := by
  unfold evLe TopoConsRules.evLt
  rw [gen_cmpSamePos_is_rank a.rank (ev_rank_lt_four a) b.rank (ev_rank_lt_four b),
      gen_cmpSamePos_is_rank b.rank (ev_rank_lt_four b) a.rank (ev_rank_lt_four a)]
  rcases lt_trichotomy (a.pos d) (b.pos d) with h | h | h
  · have h1 : ¬ b.pos d < a.pos d := not_lt.mpr (le_of_lt h)
    have h2 : ¬ b.pos d = a.pos d := fun e => absurd (e ▸ h) (lt_irrefl _)
    simp [h, h1, h2]
  · rcases Nat.lt_trichotomy a.rank b.rank with r | r | r
    · have r1 : ¬ b.rank < a.rank := by omega
      have r2 : ¬ a.rank = b.rank := by omega
      simp [h, r, r1, r2]
    · simp [h, r]
    · have r1 : ¬ a.rank < b.rank := by omega
      have r2 : ¬ a.rank = b.rank := by omega
      simp [h, r, r1, r2]
  · have h1 : ¬ a.pos d < b.pos d := not_lt.mpr (le_of_lt h)
    have h2 : ¬ a.pos d = b.pos d := fun e => absurd (e ▸ h) (lt_irrefl _)
    simp [h, h1, h2]

/-- the corner table of `Segment::createStraightConstraint` -/
theorem gen_corner_is_model (d : Nat) (n : Node) (pos : Rat) (nl : Bool) :
    TopoConsRules.corner d pos (n.r.centre 0) (n.r.centre 1) nl = cornerFor d n pos nl := by
  unfold TopoConsRules.corner cornerFor
  simp

/-- what `Segment::createStraightConstraint` puts into a StraightConstraint: `nodeLeft`, the corner
    and the `g` of the constructor, as regenerated, are the model's -/
theorem gen_createStraight_is_model (d : Nat) (sg : Seg) (n : Node) (pos : Rat) (c : SC)
    (h : createStraight d sg n pos = some c) :
    c.nodeLeft = TopoConsRules.nodeLeft (n.r.centre d) (sg.inter d pos) ∧
    c.ri = TopoConsRules.corner d pos (n.r.centre 0) (n.r.centre 1) c.nodeLeft ∧
    c.g = TopoConsRules.straightG (sg.s.offset d + c.p * (sg.e.offset d - sg.s.offset d))
            (n.r.len d / 2) c.nodeLeft := by
  obtain ⟨_, _, _, _, rfl⟩ := AdaptaVerif.Lemmas.TopoConsGen.createStraight_eq_some_iff.mp h
  refine ⟨rfl, ?_, ?_⟩
  · rw [gen_corner_is_model]; rfl
  · unfold AdaptaVerif.Lemmas.TopoConsGen.mkSC TopoConsRules.straightG straightG
    simp

/-- a scan-line neighbour as the visibility test reads it -/
def nbOf (d : Nat) (m : Node) : Rat × Rat × Rat := (m.r.centre d, m.r.lo (conj d), m.r.hi (conj d))

/-- the "not visible" test of `NodeEvent::createStraightConstraints` -/
theorem gen_hidden_is_model (d : Nat) (pos x : Rat) (L R : Option Node) :
    TopoConsRules.hidden x pos (L.map (nbOf d)) (R.map (nbOf d)) =
      (blocks d pos x true L || blocks d pos x false R) := by
  cases L <;> cases R <;> simp [TopoConsRules.hidden, blocks, nbOf]

/-- the `leftOf` table and the reference-segment choice of the BendConstraint constructor -/
theorem gen_bend_is_model (d idx : Nat) (u v w : EPt) (b : BC) (h : createBend d idx u v w = some b) :
    b.leftOf = TopoConsRules.bendLeft d v.ri ∧
    b.rev = !TopoConsRules.bendUsesIn (absQ (v.pos (conj d) - u.pos (conj d)))
                                      (absQ (w.pos (conj d) - v.pos (conj d))) := by
  rcases AdaptaVerif.Lemmas.TopoConsBend.createBend_eq_some_iff.mp h with ⟨hlt, rfl⟩ | ⟨_, hle, rfl⟩
  · refine ⟨rfl, ?_⟩
    simp [TopoConsRules.bendUsesIn, AdaptaVerif.Lemmas.TopoConsBend.fwdBC, hlt]
  · refine ⟨rfl, ?_⟩
    simp [TopoConsRules.bendUsesIn, AdaptaVerif.Lemmas.TopoConsBend.revBC, not_lt.mpr hle]

/-- `EdgePoint::pos` -/
theorem gen_pos_is_model (a : EPt) (d : Nat) :
    TopoConsRules.pos a.ri d a.node.r.minX a.node.r.maxX a.node.r.minY a.node.r.maxY = a.pos d := by
  unfold TopoConsRules.pos EPt.pos Rect.hi Rect.lo Rect.centre Rect.len Rect.hi Rect.lo
  repeat' split
  all_goals rfl

/-- `EdgePoint::offset` (for the two axes and the five `RectIntersect` values) -/
theorem gen_offset_is_model (a : EPt) (d : Nat) (hd : d < 2) (hri : a.ri ≤ 4) :
    a.offset d = if a.ri = 4 then 0
                 else if TopoConsRules.offsetNeg d a.ri then -(a.node.r.len d / 2) else a.node.r.len d / 2 := by
  unfold EPt.offset TopoConsRules.offsetNeg
  have hd' : d = 0 ∨ d = 1 := by omega
  rcases hd' with rfl | rfl <;> by_cases h4 : a.ri = 4
  · simp [h4]
  · have : ¬ a.ri ≥ 4 := by omega
    simp [h4, this]
  · simp [h4]
  · have : ¬ a.ri ≥ 4 := by omega
    simp [h4, this]

-- non-vacuity of the hypotheses of `gen_createStraight_is_model` and `gen_bend_is_model`: both constructors do return
-- `some` on ordinary inputs (control scene of Lemmas/TopoConsGen: node 1 at its opening scan line 21; a bend at the TR
-- corner of a node)
example :
    (createStraight 0 AdaptaVerif.Lemmas.TopoConsGen.wSg AdaptaVerif.Lemmas.TopoConsGen.w1' 21).isSome = true ∧
    (createBend 0 1 ⟨⟨0, ⟨0, 10, 0, 10⟩⟩, 4⟩ ⟨⟨1, ⟨20, 30, 40, 50⟩⟩, 0⟩ ⟨⟨2, ⟨50, 60, 20, 30⟩⟩, 4⟩).isSome = true := by
  decide +kernel

end AdaptaVerif.Props.C13ConsTie
