/-
C06 — libavoid: incremental transactions give what routing from scratch gives; no-op transactions
change nothing.  Property theorems (everything else is in Lemmas/ActionQueue*.lean, Lemmas/RouteRect.lean).

Proved here for ALL legal histories, about the model `Model.ActionQueue` (tied to router.cpp by the
per-call scene correspondence of Driver/C06.lean):
  the router's queue + de-duplication + sort + three-loop processing is a refinement of
  "apply every edit immediately to a plain map id ↦ geometry" (`Spec.Scene.applyOp`).
What the code's queue semantics is (and `applyOp` states): a later absolute move wins; a relative
move translates the geometry the object will have after the edits queued so far (queued move's
polygon if there is one, else — including the add-then-move fold — the shape's current polygon), so
relative moves compose additively; delete drops a queued move; the last endpoint value per end wins.
There is NO legal corner in which the queue differs from the immediate semantics on the final scene.
The one behavioural corner is `immediate_mode_fold_corner` below.

NOT proved (audited per history by the driver, level translation_validation): that the incremental
visibility-graph maintenance and the selective reroute produce routes as good as a fresh router's.
-/
import AdaptaVerif.Lemmas.ActionQueueRun
import AdaptaVerif.Lemmas.RouteRect
namespace AdaptaVerif.Props.C06
open AdaptaVerif.Model.ActionQueue AdaptaVerif.Spec.Scene AdaptaVerif.Lemmas.ActionQueue
open AdaptaVerif.Check.RouteRect (P Rect lerp StrictlyInside segHitsOpenRect routeValidRect)

/-- **queue_refines_scene.** For every history of API calls that is legal (documented preconditions,
    `legal`) from the initial router: after a final `processTransaction()` the router shows (`view`:
    active obstacles with polygon/position, connector end vertices) exactly the abstract scene obtained
    by applying every edit immediately, one by one; and nothing is left queued. -/
theorem queue_refines_scene (ops : List Op) (hl : LegalHistory ops) :
    view (processTransaction (run init ops)).scene = applyOps AScene.empty ops ∧
      (processTransaction (run init ops)).queue = [] := by
  obtain ⟨hi, he⟩ := run_spec init ops inv_init hl
  obtain ⟨_, hq, hv, _⟩ := processTransaction_spec (run init ops) hi
  exact ⟨by rw [hv, he, pending_init], hq⟩

/-- a legal history exercising every de-duplication rule: add-then-move fold, relative move on a
    queued absolute move, second absolute move overwriting, move erased by delete, endpoint
    overwritten, second transaction -/
def demoOps : List Op :=
  [ .addObst false 1 [⟨0, 0⟩, ⟨4, 0⟩, ⟨4, 4⟩, ⟨0, 4⟩],
    .moveRel false 1 10 0,                                            -- folded into the queued Add
    .addObst false 2 [⟨20, 0⟩, ⟨24, 0⟩, ⟨24, 4⟩, ⟨20, 4⟩],
    .addObst true 3 [⟨50, 50⟩],
    .newConn 4, .setEndpoint 4 .src (.pt ⟨-5, 2⟩), .setEndpoint 4 .tar (.pt ⟨40, 2⟩), .setEndpoint 4 .src (.pt ⟨-6, 2⟩),
    .processTransaction,
    .moveAbs false 1 [⟨0, 10⟩, ⟨4, 10⟩, ⟨4, 14⟩, ⟨0, 14⟩] true,       -- pushes a move (firstMove = true)
    .moveRel false 1 1 1,                                             -- uses the QUEUED polygon
    .moveAbs false 1 [⟨0, 20⟩, ⟨4, 20⟩, ⟨4, 24⟩, ⟨0, 24⟩] false,      -- overwrites it, keeps firstMove
    .moveRel false 2 0 7, .delete false 2,                            -- delete erases the queued move
    .moveRel true 3 1 1, .moveAbs true 3 [⟨60, 60⟩] false,
    .processTransaction, .processTransaction ]

example : LegalHistory demoOps := by decide

/-- the general form: from ANY state satisfying the queue invariant (in particular any state reached
    by legal calls, `run_spec`), for any legal continuation -/
theorem queue_refines_scene_from (st : State) (h : Inv st) (ops : List Op) (hl : legalRun st ops = true) :
    view (processTransaction (run st ops)).scene = applyOps (pending st) ops := by
  obtain ⟨hi, he⟩ := run_spec st ops h hl
  obtain ⟨_, _, hv, _⟩ := processTransaction_spec (run st ops) hi
  rw [hv, he]

example : Inv init := inv_init

/-- **queue invariant.** Along every legal history: at most one queued action per object, queued
    actions refer to existing objects, an obstacle is inactive only while its Add is queued, queued
    endpoint updates of one connector concern distinct ends. -/
theorem queue_invariant (ops : List Op) (hl : legalRun init ops = true) : Inv (run init ops) :=
  (run_spec init ops inv_init hl).1

/-- the scene "promised" by the queue (`pending`) tracks the immediate semantics after EVERY call,
    not only at transaction boundaries -/
theorem pending_tracks_immediate (ops : List Op) (hl : legalRun init ops = true) :
    pending (run init ops) = applyOps AScene.empty ops := by
  rw [(run_spec init ops inv_init hl).2, pending_init]

/-- **noop_txn.** `processTransaction()` with nothing queued leaves the whole model state (scene,
    queue, flags) unchanged — as an API call (`step`) and as the function itself. -/
theorem noop_txn (st : State) (hq : st.queue = []) :
    processTransaction st = st ∧ step st .processTransaction = st := by
  have : processTransaction st = st := by simp [processTransaction, hq]
  exact ⟨this, this⟩

example : (processTransaction (run init demoOps)).queue = [] := (queue_refines_scene demoOps (by decide)).2

/-- even without the early return of `processTransaction`, running the three loops of
    `processActions` over an empty list changes nothing -/
theorem noop_processActions (st : State) (hq : st.queue = []) : processActions st = st := by
  cases st with
  | mk scene queue useTxn =>
    simp only at hq
    subst hq
    simp [processActions, sortActions, runPasses, genPinMoves]

/-- **sort_irrelevant_for_scene.** On every reachable state the scene produced by the three loops of
    `processActions` does not depend on the order in which the queue is traversed: any permutation of
    the queue gives the same result as `actionList.sort()`. (So the (type, id) sort matters only for
    the order of the visibility-graph updates, which is not modelled; a mutant that drops the sort is
    not observable through the scene.) -/
theorem sort_irrelevant_for_scene (st : State) (h : Inv st) (l : List Action) (hp : l.Perm st.queue) :
    view (runPasses st.scene l) = view (processActions st).scene :=
  (runPasses_perm st.scene st.queue l hp h.uniq).trans (view_runPasses_genPinMoves st.scene h.connFind _).symm

example : Inv (run init (demoOps.take 16)) := queue_invariant _ (by decide)

/-- **immediate_mode.** With transactions off (`setTransactionUse(false)`) and nothing queued, every
    legal call is processed at once: afterwards nothing is queued and the router shows the previous
    scene edited by exactly that call. -/
theorem immediate_mode (st : State) (op : Op) (h : Inv st) (hq : st.queue = []) (hoff : st.useTxn = false)
    (hl : legal st op = true) :
    (step st op).queue = [] ∧ view (step st op).scene = applyOp (view st.scene) op := by
  have hq' := step_queue_immediate st op hq hoff
  obtain ⟨_, he⟩ := step_spec st op h hl
  refine ⟨hq', ?_⟩
  rw [← pending_of_empty _ hq', he, pending_of_empty st hq]

/-- … and therefore op by op along a whole history made with transactions off from the start -/
theorem immediate_mode_run (ops : List Op) (hl : legalRun init (.setTransactionUse false :: ops) = true)
    (hno : ∀ op ∈ ops, op ≠ .setTransactionUse true) :
    (run init (.setTransactionUse false :: ops)).queue = [] ∧
      view (run init (.setTransactionUse false :: ops)).scene = applyOps AScene.empty ops := by
  have key : ∀ (ops : List Op) (st : State), Inv st → st.queue = [] → st.useTxn = false →
      legalRun st ops = true → (∀ op ∈ ops, op ≠ .setTransactionUse true) →
      (run st ops).queue = [] ∧ view (run st ops).scene = applyOps (view st.scene) ops := by
    intro ops
    induction ops with
    | nil => intro st _ hq _ _ _; exact ⟨hq, rfl⟩
    | cons op ops ih =>
      intro st hi hq hoff hl hno
      simp only [legalRun, Bool.and_eq_true] at hl
      obtain ⟨h1, h2⟩ := immediate_mode st op hi hq hoff hl.1
      have hoff' : (step st op).useTxn = false := by
        by_cases hs : ∃ b, op = .setTransactionUse b
        · obtain ⟨b, rfl⟩ := hs
          cases b
          · simp [step, enqueue, processTransaction, hq]
          · exact absurd rfl (hno _ (List.mem_cons_self ..))
        · by_cases hp : op = .processTransaction
          · subst hp; simp [step, processTransaction, hq, hoff]
          · rw [step_eq st op hp]
            have hu := enqueue_useTxn st op (fun b e => hs ⟨b, e⟩)
            split
            · unfold processTransaction; split
              · rw [hu, hoff]
              · simp [processActions, hu, hoff]
            · rw [hu, hoff]
      have := ih (step st op) (step_spec st op hi hl.1).1 h1 hoff' hl.2
        (fun o ho => hno o (List.mem_cons_of_mem _ ho))
      simp only [run, applyOps, List.foldl_cons] at this ⊢
      rw [h2] at this
      exact this
  have h0 : step init (.setTransactionUse false) = { init with useTxn := false } := rfl
  simp only [legalRun, Bool.and_eq_true] at hl
  have hi0 : Inv (step init (.setTransactionUse false)) := (step_spec init _ inv_init hl.1).1
  have := key ops _ hi0 (by rw [h0]; rfl) (by rw [h0]) hl.2 hno
  simp only [run, List.foldl_cons] at this ⊢
  refine ⟨this.1, ?_⟩
  rw [this.2]
  rfl

example : legalRun init (.setTransactionUse false :: demoOps) = true := by decide

/-- **The corner of immediate mode** (checked against the C++ by the harness class
    `txn-off-pending`): if transactions are switched off while an Add is still queued, a move of that
    shape is folded into the Add and `moveShape` returns BEFORE its
    `if (!m_consolidate_actions) processTransaction()` tail (router.cpp:371-378) — so, although
    transactions are off, the call is not processed: the shape stays inactive and the Add queued.
    (The final scene is still the immediate one: `queue_refines_scene`.) -/
theorem immediate_mode_fold_corner :
    let ops : List Op := [ .addObst false 1 [⟨0, 0⟩, ⟨4, 0⟩, ⟨4, 4⟩, ⟨0, 4⟩], .setTransactionUse false,
                           .moveRel false 1 10 0 ]
    legalRun init ops = true ∧ (run init ops).useTxn = false ∧ (run init ops).queue.length = 1 ∧
      (run init ops).scene.obsts.map (·.active) = [false] := by
  decide

/-! ### connector ends attached to connection pins: the pin-move refresh inside `processActions` -/

/-- **pin_move_never_overwrites.** The consolidation rule of `ActionInfo::addConnEndUpdate`: with
    `isConnPinMoveUpdate = true` a list that already holds a change to that end is left EXACTLY as it is
    (whatever the update carries); with `false` (a user change) the end gets the new ConnEnd. -/
theorem pin_move_never_overwrites (us : List (End × CEnd)) (e : End) (p : CEnd) (h : ∃ u ∈ us, u.1 = e) :
    addConnEndUpdate us e p true = us := by
  unfold addConnEndUpdate
  have : us.any (·.1 == e) = true := by
    obtain ⟨u, hu, he⟩ := h
    exact List.any_eq_true.2 ⟨u, hu, by simp [he]⟩
  simp [this]

example : addConnEndUpdate [(End.src, CEnd.pin 2 1)] .src (CEnd.pin 1 1) true = [(End.src, CEnd.pin 2 1)] ∧
    addConnEndUpdate [(End.src, CEnd.pin 2 1)] .src (CEnd.pin 1 1) false = [(End.src, CEnd.pin 1 1)] := by decide

/-- … and a user change always ends up as the value applied to that end -/
theorem user_change_overwrites (us : List (End × CEnd)) (k : Conn) (e : End) (p : CEnd)
    (hd : us.Pairwise fun u v => u.1 ≠ v.1) :
    (k.applyUpdates (addConnEndUpdate us e p false)).getEnd e = some p := by
  rw [applyUpdates_addConnEndUpdate us k e p hd]
  cases e <;> rfl

/-- **pin_moves_preserve_view.** On every reachable state: the pin-move updates that the first loop of
    `processActions` queues (`ShapeRef::moveAttachedConns` / `JunctionRef::moveAttachedConns` for every connector
    end attached to a moved obstacle, merged into the list being traversed with `isConnPinMoveUpdate = true`)
    change NOTHING of what the transaction shows: same obstacles, same connector ends as the three loops
    over the user's queue alone — a user change of the same end queued in this transaction stays in force, and
    an end without one keeps the attachment it has. Hence the flush theorem: the router shows what the user's
    queue promised. -/
theorem pin_moves_preserve_view (st : State) (h : Inv st) :
    view (runPasses st.scene (genPinMoves st.scene (sortActions st.queue)))
        = view (runPasses st.scene (sortActions st.queue)) ∧
      (runPasses st.scene (genPinMoves st.scene (sortActions st.queue))).obsts
        = (runPasses st.scene (sortActions st.queue)).obsts ∧
      view (processActions st).scene = pending st :=
  ⟨view_runPasses_genPinMoves st.scene h.connFind _, obsts_runPasses_genPinMoves _ _, view_processActions st h⟩

/-- **pin_refresh_complete.** Every connector end attached to an obstacle that the transaction MOVES has an
    update in the list the last loop of `processActions` runs over (`genPinMoves` of the sorted queue): either the
    user's queued change of that end or the refresh appended by `moveAttachedConns`. So every end that
    `Obstacle::makeInactive` turned into a manual point in the first loop (the transient state this model does
    not represent) is set again by `updateEndPoint` in the last loop — and by `pin_moves_preserve_view` to the
    right thing. (A C++ change that drops such a refresh breaks the scene tie.) -/
theorem pin_refresh_complete (st : State) (a : Action) (ha : a ∈ st.queue) (hk : a.kind = .move)
    (t : Nat × End × CEnd) (ht : t ∈ attachedEnds st.scene a.id) :
    Covered (genPinMoves st.scene (sortActions st.queue)) t.1 t.2.1 :=
  genPinMoves_covers st.scene _ a (mem_sort.2 ha) hk t ht

/-- **pin_refresh_any_order.** The same for ANY sequence of pin-move updates each of which carries an end that
    a connector of the scene currently has — any visiting order of `Obstacle::m_following_conns` (a
    `std::set<ConnEnd *>`, i.e. heap-address order in the C++), any order of the moved obstacles, repetitions:
    merged into ANY action list `q` they leave what the three loops show unchanged. So the address-dependent
    order of the refresh cannot influence the result. -/
theorem pin_refresh_any_order (st : State) (h : Inv st) (ts : List (Nat × End × CEnd)) (hts : EndsOfScene st.scene ts)
    (q : List Action) :
    view (runPasses st.scene (ts.foldl (fun q t => modifyConnector q t.1 t.2.1 t.2.2 true) q))
      = view (runPasses st.scene q) :=
  view_runPasses_refresh st.scene h.connFind ts hts q

/-- **user_retarget_wins.** In every legal history: once the user has set end `e` of connector `c` to `p`
    (a free point, or a pin class of any obstacle) and does not set that same end again, then — whatever else
    the history does before and after, in the same transaction or in later ones, in either call order: moves
    / resizes of the obstacle the end WAS attached to, of the obstacle it is NOW attached to, deletions,
    other connectors' changes, transactions on or off — after every call the queue promises, and after
    `processTransaction()` the router shows, exactly `p` at that end. In particular the internal pin-move
    refresh of a moved shape never replaces the user's re-target by the old attachment. -/
theorem user_retarget_wins (ops1 ops2 : List Op) (c : Nat) (e : End) (p : CEnd)
    (hl : LegalHistory (ops1 ++ .setEndpoint c e p :: ops2))
    (hlast : ∀ op ∈ ops2, ∀ q, op ≠ .setEndpoint c e q) :
    (((pending (run init (ops1 ++ .setEndpoint c e p :: ops2))).conn c).map fun x => endOf x e) = some (some p) ∧
    (((view (processTransaction (run init (ops1 ++ .setEndpoint c e p :: ops2))).scene).conn c).map
        fun x => endOf x e) = some (some p) := by
  unfold LegalHistory at hl
  rw [legalRun_append, Bool.and_eq_true] at hl
  obtain ⟨hl1, hl2⟩ := hl
  simp only [legalRun, Bool.and_eq_true] at hl2
  have hi1 := (run_spec init ops1 inv_init hl1).1
  have hset := retarget_set (run init ops1) c e p hi1 hl2.1
  have hi2 := (step_spec (run init ops1) _ hi1 hl2.1).1
  have hrun := retarget_kept_run ops2 _ c e p hi2 hl2.2 hlast hset
  have e0 : run init (ops1 ++ .setEndpoint c e p :: ops2)
      = run (step (run init ops1) (.setEndpoint c e p)) ops2 := by
    rw [run_append]; rfl
  rw [e0]
  have hi3 := (run_spec _ ops2 hi2 hl2.2).1
  refine ⟨hrun, ?_⟩
  rw [(processTransaction_spec _ hi3).2.2.1]
  exact hrun

/-- two shapes with a pin of class 1 each, a connector from pin 1 of shape 1 to a free point, a second
    connector that stays attached to shape 1; then, in ONE transaction, shape 1 is moved and the first
    connector's source is re-targeted to shape 2 — `pinOpsA`: move first, `pinOpsB`: re-target first -/
def pinSetup : List Op :=
  [ .addObst false 1 [⟨0, 0⟩, ⟨4, 0⟩, ⟨4, 4⟩, ⟨0, 4⟩], .newPin 1 1 1 (1/2),
    .addObst false 2 [⟨20, 0⟩, ⟨24, 0⟩, ⟨24, 4⟩, ⟨20, 4⟩], .newPin 2 1 0 (1/2),
    .newConn 3, .setEndpoint 3 .src (.pin 1 1), .setEndpoint 3 .tar (.pt ⟨40, 2⟩),
    .newConn 4, .setEndpoint 4 .src (.pt ⟨-9, 9⟩), .setEndpoint 4 .tar (.pin 1 1),
    .processTransaction ]
def pinOpsA : List Op := pinSetup ++ [ .moveAbs false 1 [⟨0, 10⟩, ⟨4, 10⟩, ⟨4, 14⟩, ⟨0, 14⟩] false, .setEndpoint 3 .src (.pin 2 1) ]
def pinOpsB : List Op := pinSetup ++ [ .setEndpoint 3 .src (.pin 2 1), .moveAbs false 1 [⟨0, 10⟩, ⟨4, 10⟩, ⟨4, 14⟩, ⟨0, 14⟩] false ]

/-- non-vacuity of `pin_refresh_any_order`: ends that the connectors of that state have, in another order, one twice -/
example : ∀ t ∈ [((4 : Nat), End.tar, CEnd.pin 1 1), (3, .src, .pin 1 1), (4, .tar, .pin 1 1)],
    ∃ k ∈ (run init pinOpsA).scene.conns, k.id = t.1 ∧ k.getEnd t.2.1 = some t.2.2 := by
  decide +kernel

/-- non-vacuity of `pin_refresh_complete`: the queued move of shape 1 and an end attached to it -/
example : (∃ a ∈ (run init pinOpsA).queue, a.kind = .move ∧ a.id = 1) ∧
    ((4 : Nat), End.tar, CEnd.pin 1 1) ∈ attachedEnds (run init pinOpsA).scene 1 := by
  decide +kernel

example : LegalHistory (pinOpsA ++ [.processTransaction]) ∧ LegalHistory (pinOpsB ++ [.processTransaction]) := by decide +kernel

/-- the pin-move refresh really happens in these histories (the list the last loop runs over is not the
    user's queue: connector 4 gets an entry of its own, connector 3's entry is left alone), and the result is
    the user's re-target in both call orders; the second connector stays attached -/
example :
    genPinMoves (run init pinOpsA).scene (sortActions (run init pinOpsA).queue) ≠ sortActions (run init pinOpsA).queue ∧
    (findConn (processTransaction (run init pinOpsA)).scene 3).map (·.src) = some (some (.pin 2 1)) ∧
    (findConn (processTransaction (run init pinOpsB)).scene 3).map (·.src) = some (some (.pin 2 1)) ∧
    (findConn (processTransaction (run init pinOpsA)).scene 4).map (·.dst) = some (some (.pin 1 1)) := by decide +kernel

example : LegalHistory ((pinSetup ++ [.moveAbs false 1 [⟨0, 10⟩, ⟨4, 10⟩, ⟨4, 14⟩, ⟨0, 14⟩] false]) ++ .setEndpoint 3 .src (.pin 2 1) :: []) := by
  decide +kernel

example := (user_retarget_wins (pinSetup ++ [.moveAbs false 1 [⟨0, 10⟩, ⟨4, 10⟩, ⟨4, 14⟩, ⟨0, 14⟩] false]) [] 3 .src (.pin 2 1) (by decide +kernel) (by simp)).2

/-- a transaction that leaves a connector end attached to a deleted obstacle is outside the model's domain -/
example : ¬ LegalHistory (pinSetup ++ [.delete false 1, .processTransaction]) ∧
    LegalHistory (pinSetup ++ [.delete false 1, .setEndpoint 3 .src (.pin 2 1), .setEndpoint 4 .tar (.pt ⟨9, 9⟩),
                               .processTransaction]) := by decide +kernel

/-! ### the route validity checker used by the driver (rectangles, exact rationals) -/

/-- **route_check_sound.** If the checker accepts, the route has ≥ 2 points, starts at `src`, ends at
    `dst`, and no point of any leg lies strictly inside any of the rectangles. -/
theorem route_check_sound (rects : List Rect) (src dst : P) (route : List P)
    (h : routeValidRect rects src dst route = true) :
    route.length ≥ 2 ∧ route.head? = some src ∧ route.getLast? = some dst ∧
      ∀ (i : Nat) (hi : i + 1 < route.length), ∀ r ∈ rects, ∀ t : Rat, 0 ≤ t → t ≤ 1 →
        ¬ StrictlyInside r (lerp (route[i]'(Nat.lt_of_succ_lt hi)) (route[i + 1]'hi) t) :=
  AdaptaVerif.Lemmas.RouteRect.routeValidRect_sound rects src dst route h

/-- **seg_check_exact.** The segment test is exact (sound and complete): it answers `true` iff some
    point of the closed segment is strictly inside the open rectangle. -/
theorem seg_check_exact (r : Rect) (p q : P) :
    segHitsOpenRect r p q = true ↔ ∃ t : Rat, 0 ≤ t ∧ t ≤ 1 ∧ StrictlyInside r (lerp p q t) :=
  AdaptaVerif.Lemmas.RouteRect.segHitsOpenRect_iff r p q

/-! ### non-vacuity (fAudit): joint instances of the hypotheses of the theorems above -/

-- non-vacuity of `queue_refines_scene_from`: a reachable state with three actions queued, legal continuation
example := queue_refines_scene_from (run init (demoOps.take 16)) (queue_invariant _ (by decide)) (demoOps.drop 16) (by decide +kernel)
example : (run init (demoOps.take 16)).queue.length = 3 := by decide +kernel

-- non-vacuity of `sort_irrelevant_for_scene`: that state, the queue traversed backwards
example := sort_irrelevant_for_scene (run init (demoOps.take 16)) (queue_invariant _ (by decide))
  (run init (demoOps.take 16)).queue.reverse (List.reverse_perm _)

-- non-vacuity of `immediate_mode`: transactions off, nothing queued, a legal Add
example := immediate_mode (run init [.setTransactionUse false]) (.addObst false 1 [⟨0, 0⟩, ⟨4, 0⟩, ⟨4, 4⟩, ⟨0, 4⟩])
  (queue_invariant _ (by decide)) (by decide) (by decide) (by decide)

-- non-vacuity of `immediate_mode_run` (both hypotheses)
example := immediate_mode_run demoOps (by decide) (by decide)

-- non-vacuity of `user_change_overwrites`: an update of the other end is queued
example := user_change_overwrites [(End.tar, CEnd.pin 2 1)] { id := 3 } .src (.pt ⟨1, 2⟩) (by simp)

-- non-vacuity of `pin_moves_preserve_view`, `pin_refresh_complete`, `pin_refresh_any_order` (all hypotheses jointly) on
-- the state after `pinOpsA` (a move of shape 1 and a re-target of connector 3 queued)
example := pin_moves_preserve_view (run init pinOpsA) (queue_invariant _ (by decide +kernel))
example := pin_refresh_complete (run init pinOpsA) { kind := .move, id := 1, geom := [⟨0, 10⟩, ⟨4, 10⟩, ⟨4, 14⟩, ⟨0, 14⟩] }
  (List.mem_of_getElem? (i := 0) (by decide +kernel)) rfl (4, .tar, .pin 1 1) (by decide +kernel)
example := pin_refresh_any_order (run init pinOpsA) (queue_invariant _ (by decide +kernel))
  [(4, .tar, .pin 1 1), (3, .src, .pin 1 1), (4, .tar, .pin 1 1)] (by unfold EndsOfScene; decide +kernel) (run init pinOpsA).queue

-- non-vacuity of `route_check_sound`: a route around the box [0,2]×[0,2] is accepted, one through it is not
example : routeValidRect [⟨0, 0, 2, 2⟩] ⟨-1, 1⟩ ⟨3, 1⟩ [⟨-1, 1⟩, ⟨-1, 3⟩, ⟨3, 3⟩, ⟨3, 1⟩] = true ∧
    routeValidRect [⟨0, 0, 2, 2⟩] ⟨-1, 1⟩ ⟨3, 1⟩ [⟨-1, 1⟩, ⟨3, 1⟩] = false := by decide +kernel

end AdaptaVerif.Props.C06
