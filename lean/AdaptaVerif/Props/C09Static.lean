/-
C09 x C01: end to end, at model level — scan-line constraint generation (`Model/Scanline.lean`, Props/C09)
composed with the static VPSC solver (`Model/VpscStatic.lean`, Props/C01Static), the solver behind
`vpsc::removeoverlaps`.

  generateX/YConstraints  --gen_acyclic-->  acyclic constraint graph
     --static_totalOrder_topological-->  `Blocks::totalOrder` is a topological order (ranks)
     --static_satisfy_total / static_solve_total--> `satisfy()` / `solve()` return normally or throw (never out of fuel)
     --static_satisfy_post / static_solve_post (exit scan), read on the INPUT constraints (`run_eps_sat`)-->
                                          every generated constraint holds up to 1e-10 at the solver's output
     --eps_shift_feasible along the ranks--> an EXACTLY feasible placement within n·1e-10 (`run_shifted_sat`)
     --genx_separates / geny_separates--> every pair of rectangles that meets in the sweep dimension is
                                          separated by half the sum of its sizes minus n·1e-10.

`static_removeoverlaps_{x,y}_separates` are conditional on a NORMAL RETURN of the solver: that the static
solver never throws on an acyclic system is not proved (see Props/C01Static); the only alternative to a
normal return is the throw of an exit scan (`static_removeoverlaps_{x,y}_solve`).  Coordinates are the solver's `uval`
(= `Variable::position()` at unit scales, which is how `removeoverlaps` creates its variables).
-/
import AdaptaVerif.Props.C09
import AdaptaVerif.Props.C01Static
import AdaptaVerif.Lemmas.VpscStaticScan
import Mathlib.Tactic.Linarith
import Mathlib.Tactic.Ring
namespace AdaptaVerif.Props.C09Static
open AdaptaVerif.Model.Vpsc AdaptaVerif.Model.VpscStatic
open AdaptaVerif.Lemmas.VpscInv AdaptaVerif.Lemmas.VpscStatic AdaptaVerif.Lemmas.VpscStaticMem
open AdaptaVerif.Lemmas.VpscStaticOrder AdaptaVerif.Lemmas.VpscStaticFrame AdaptaVerif.Lemmas.VpscMerge
open AdaptaVerif.Lemmas.VpscStaticScan
open AdaptaVerif.Spec.Rects (Sat Chain RankInjective ScanMeet ValidOrder)
open AdaptaVerif.Model.Scanline (Rect Ev rectAt yAxis xAxis generateYConstraints generateXConstraints)
open AdaptaVerif.Props.C09 (GoodAxis)
open Relation

/-- **the exit scan, read on the input constraints**: after a normal return of `satisfy` / `solve` from
    `Solver(vs, toVpsc cs)`, every constraint of `cs` holds up to `|ZERO_UPPERBOUND| = 1e-10` at the final
    scaled coordinates `uval` (= `Variable::position()` for unit scales) -/
theorem run_eps_sat (vs : Array (Rat × Rat × Rat)) (cs : List SCon) (doSolve : Bool)
    (s' : SSt) (pos : Array Rat) (ret : Bool)
    (hrun : (if doSolve then (SSt.init vs (toVpsc cs)).solve else (SSt.init vs (toVpsc cs)).satisfy)
      = (s', .ok pos ret)) :
    ∀ c ∈ cs, s'.st.uval c.l + c.gap - 1 / 10000000000 ≤ s'.st.uval c.r := by
  have hcd : CD (SSt.init vs (toVpsc cs)).st s'.st := by
    cases doSolve with
    | true => simp only [if_true] at hrun; have := cd_solve (SSt.init vs (toVpsc cs)); rwa [hrun] at this
    | false =>
      simp only [Bool.false_eq_true, if_false] at hrun
      have := cd_satisfy (SSt.init vs (toVpsc cs)); rwa [hrun] at this
  have hscan : ∀ ci : Nat, ci < s'.st.cons.size → ZERO_UPPERBOUND ≤ rawSlack s'.st ci := by
    cases doSolve with
    | true => simp only [if_true] at hrun; exact (AdaptaVerif.Props.C01Static.static_solve_post _ _ _ _ hrun).2.2
    | false =>
      simp only [Bool.false_eq_true, if_false] at hrun
      exact (AdaptaVerif.Props.C01Static.static_satisfy_post _ _ _ _ hrun).2.2
  obtain ⟨hsz, hdata⟩ := run_cons vs cs s'.st hcd
  intro c hc
  obtain ⟨ci, hci, rfl⟩ := List.mem_iff_getElem.1 hc
  have h1 := hscan ci (by rw [hsz]; exact hci)
  obtain ⟨d1, d2, d3⟩ := hdata ci hci
  unfold rawSlack at h1
  simp only at h1
  rw [d1, d2, d3] at h1
  unfold ZERO_UPPERBOUND at h1
  linarith

/-- from a normal return of the static solver on an acyclic scan-line constraint list to an EXACTLY
    feasible placement within `n · 1e-10` of the solver's coordinates -/
theorem run_shifted_sat (vs : Array (Rat × Rat × Rat)) (cs : List SCon)
    (hrange : ∀ c ∈ cs, c.l < vs.size ∧ c.r < vs.size) (hac : AdaptaVerif.Spec.Rects.Acyclic cs)
    (doSolve : Bool) (s' : SSt) (pos : Array Rat) (ret : Bool)
    (hrun : (if doSolve then (SSt.init vs (toVpsc cs)).solve else (SSt.init vs (toVpsc cs)).satisfy)
      = (s', .ok pos ret)) :
    ∃ y' : Nat → Rat, Sat y' cs ∧
      ∀ v, s'.st.uval v ≤ y' v ∧ y' v ≤ s'.st.uval v + (vs.size : Rat) / 10000000000 := by
  obtain ⟨rk, hrk, hbd⟩ := order_ranks vs cs hrange hac
  refine ⟨fun v => s'.st.uval v + (1 / 10000000000 : Rat) * (rk v : Rat),
    eps_shift_feasible cs _ (1 / 10000000000) (by norm_num) rk hrk
      (run_eps_sat vs cs doSolve s' pos ret hrun), fun v => ?_⟩
  have h1 : (0 : Rat) ≤ (rk v : Rat) := by exact_mod_cast Nat.zero_le _
  have h2 : (rk v : Rat) ≤ (vs.size : Rat) := by exact_mod_cast hbd v
  constructor
  · have : (0 : Rat) ≤ (1 / 10000000000 : Rat) * (rk v : Rat) := mul_nonneg (by norm_num) h1
    simp only; linarith
  · have : (1 / 10000000000 : Rat) * (rk v : Rat) ≤ (1 / 10000000000 : Rat) * (vs.size : Rat) :=
      mul_le_mul_of_nonneg_left h2 (by norm_num)
    simp only; linarith

/-! ### end to end: scan line → static solver → separation -/

/-- **static_removeoverlaps_y_separates** (model level, vertical pass of `removeoverlaps`): the constraints
    produced by `generateYConstraints` are acyclic (`gen_acyclic`), so `Blocks::totalOrder` is a topological
    order (`static_totalOrder_topological`); if the static solver (`satisfy()` or `solve()`) then returns
    normally — it never runs out of fuel in `satisfy` (`static_satisfy_total`) and its exit scan passed
    (`static_solve_post`) — any two rectangles whose x-extents meet are separated vertically at the solver's
    coordinates by half the sum of their heights minus `n · 1e-10`.  With the `EXTRA_GAP = 1e-3` that
    `removeoverlaps` adds to the borders in its last passes this is "no overlap" for every n ≤ 10^7. -/
theorem static_removeoverlaps_y_separates (rs : Array Rect) (bx b : Rat) (rank : Nat → Nat)
    (inj : RankInjective rank) (evs : List Ev) (hv : ValidOrder (yAxis rs bx b) rs.size evs)
    (hgood : GoodAxis (yAxis rs bx b) rs.size) (vs : Array (Rat × Rat × Rat))
    (hrange : ∀ c ∈ generateYConstraints rs bx b rank evs, c.l < vs.size ∧ c.r < vs.size)
    (doSolve : Bool) (s' : SSt) (pos : Array Rat) (ret : Bool)
    (hrun : (if doSolve then (SSt.init vs (toVpsc (generateYConstraints rs bx b rank evs))).solve
             else (SSt.init vs (toVpsc (generateYConstraints rs bx b rank evs))).satisfy) = (s', .ok pos ret))
    (i j : Nat) (hi : i < rs.size) (hj : j < rs.size) (hij : i ≠ j) (hmeet : ScanMeet (yAxis rs bx b) i j) :
    s'.st.uval i + ((rectAt rs i).height b + (rectAt rs j).height b) / 2 - (vs.size : Rat) / 10000000000
        ≤ s'.st.uval j ∨
    s'.st.uval j + ((rectAt rs i).height b + (rectAt rs j).height b) / 2 - (vs.size : Rat) / 10000000000
        ≤ s'.st.uval i := by
  obtain ⟨y', hsat, hnear⟩ := run_shifted_sat vs _ hrange (AdaptaVerif.Props.C09.gen_acyclic rs bx b rank evs false).1
    doSolve s' pos ret hrun
  rcases AdaptaVerif.Props.C09.geny_separates rs bx b rank inj evs hv hgood y' hsat i j hi hj hij hmeet with h | h
  · left; have := hnear i; have := hnear j; linarith
  · right; have := hnear i; have := hnear j; linarith

/-- the same for the horizontal pass (`generateXConstraints` without neighbour lists) -/
theorem static_removeoverlaps_x_separates (rs : Array Rect) (bx b : Rat) (rank : Nat → Nat)
    (inj : RankInjective rank) (evs : List Ev) (hv : ValidOrder (xAxis rs bx b) rs.size evs)
    (hgood : GoodAxis (xAxis rs bx b) rs.size) (vs : Array (Rat × Rat × Rat))
    (hrange : ∀ c ∈ generateXConstraints rs bx b rank evs false, c.l < vs.size ∧ c.r < vs.size)
    (doSolve : Bool) (s' : SSt) (pos : Array Rat) (ret : Bool)
    (hrun : (if doSolve then (SSt.init vs (toVpsc (generateXConstraints rs bx b rank evs false))).solve
             else (SSt.init vs (toVpsc (generateXConstraints rs bx b rank evs false))).satisfy) = (s', .ok pos ret))
    (i j : Nat) (hi : i < rs.size) (hj : j < rs.size) (hij : i ≠ j) (hmeet : ScanMeet (xAxis rs bx b) i j) :
    s'.st.uval i + ((rectAt rs i).width bx + (rectAt rs j).width bx) / 2 - (vs.size : Rat) / 10000000000
        ≤ s'.st.uval j ∨
    s'.st.uval j + ((rectAt rs i).width bx + (rectAt rs j).width bx) / 2 - (vs.size : Rat) / 10000000000
        ≤ s'.st.uval i := by
  obtain ⟨y', hsat, hnear⟩ := run_shifted_sat vs _ hrange (AdaptaVerif.Props.C09.gen_acyclic rs bx b rank evs false).2
    doSolve s' pos ret hrun
  rcases AdaptaVerif.Props.C09.genx_separates rs bx b rank inj evs hv hgood y' hsat i j hi hj hij hmeet with h | h
  · left; have := hnear i; have := hnear j; linarith
  · right; have := hnear i; have := hnear j; linarith

/-- **static_removeoverlaps_y_last_pass**: the last vertical pass of `removeoverlaps` generates its
    constraints with the borders enlarged by `EXTRA_GAP` (`extra`, 1e-3 in the code).  If the static solver
    returns normally and `2·extra ≥ n·1e-10` (n ≤ 2·10^7 for the code's value), every pair of rectangles whose
    x-extents meet is separated vertically by at least half the sum of its NOMINAL heights (border `b`) at the
    solver's coordinates: no overlap, the solver's tolerance `ZERO_UPPERBOUND` notwithstanding. -/
theorem static_removeoverlaps_y_last_pass (rs : Array Rect) (bx b extra : Rat) (rank : Nat → Nat)
    (inj : RankInjective rank) (evs : List Ev) (hv : ValidOrder (yAxis rs bx (b + extra)) rs.size evs)
    (hgood : GoodAxis (yAxis rs bx (b + extra)) rs.size) (vs : Array (Rat × Rat × Rat))
    (hextra : (vs.size : Rat) / 10000000000 ≤ 2 * extra)
    (hrange : ∀ c ∈ generateYConstraints rs bx (b + extra) rank evs, c.l < vs.size ∧ c.r < vs.size)
    (doSolve : Bool) (s' : SSt) (pos : Array Rat) (ret : Bool)
    (hrun : (if doSolve then (SSt.init vs (toVpsc (generateYConstraints rs bx (b + extra) rank evs))).solve
             else (SSt.init vs (toVpsc (generateYConstraints rs bx (b + extra) rank evs))).satisfy) = (s', .ok pos ret))
    (i j : Nat) (hi : i < rs.size) (hj : j < rs.size) (hij : i ≠ j)
    (hmeet : ScanMeet (yAxis rs bx (b + extra)) i j) :
    s'.st.uval i + ((rectAt rs i).height b + (rectAt rs j).height b) / 2 ≤ s'.st.uval j ∨
    s'.st.uval j + ((rectAt rs i).height b + (rectAt rs j).height b) / 2 ≤ s'.st.uval i := by
  have hh : ∀ k, (rectAt rs k).height (b + extra) = (rectAt rs k).height b + 2 * extra := by
    intro k
    simp only [Rect.height, Rect.getMaxY, Rect.getMinY]
    ring
  rcases static_removeoverlaps_y_separates rs bx (b + extra) rank inj evs hv hgood vs hrange doSolve s' pos ret
    hrun i j hi hj hij hmeet with h | h
  · left; rw [hh i, hh j] at h; linarith
  · right; rw [hh i, hh j] at h; linarith

/-- the same for the last horizontal pass -/
theorem static_removeoverlaps_x_last_pass (rs : Array Rect) (bx b extra : Rat) (rank : Nat → Nat)
    (inj : RankInjective rank) (evs : List Ev) (hv : ValidOrder (xAxis rs (bx + extra) b) rs.size evs)
    (hgood : GoodAxis (xAxis rs (bx + extra) b) rs.size) (vs : Array (Rat × Rat × Rat))
    (hextra : (vs.size : Rat) / 10000000000 ≤ 2 * extra)
    (hrange : ∀ c ∈ generateXConstraints rs (bx + extra) b rank evs false, c.l < vs.size ∧ c.r < vs.size)
    (doSolve : Bool) (s' : SSt) (pos : Array Rat) (ret : Bool)
    (hrun : (if doSolve then (SSt.init vs (toVpsc (generateXConstraints rs (bx + extra) b rank evs false))).solve
             else (SSt.init vs (toVpsc (generateXConstraints rs (bx + extra) b rank evs false))).satisfy) = (s', .ok pos ret))
    (i j : Nat) (hi : i < rs.size) (hj : j < rs.size) (hij : i ≠ j)
    (hmeet : ScanMeet (xAxis rs (bx + extra) b) i j) :
    s'.st.uval i + ((rectAt rs i).width bx + (rectAt rs j).width bx) / 2 ≤ s'.st.uval j ∨
    s'.st.uval j + ((rectAt rs i).width bx + (rectAt rs j).width bx) / 2 ≤ s'.st.uval i := by
  have hh : ∀ k, (rectAt rs k).width (bx + extra) = (rectAt rs k).width bx + 2 * extra := by
    intro k
    simp only [Rect.width, Rect.getMaxX, Rect.getMinX]
    ring
  rcases static_removeoverlaps_x_separates rs (bx + extra) b rank inj evs hv hgood vs hrange doSolve s' pos ret
    hrun i j hi hj hij hmeet with h | h
  · left; rw [hh i, hh j] at h; linarith
  · right; rw [hh i, hh j] at h; linarith

/-- **static_removeoverlaps_y_satisfy**: for `satisfy()` the condition "returns normally" has exactly one
    alternative: on the vertical-pass constraints the static solver's `satisfy()` either throws
    `UnsatisfiedConstraint` from its exit scan, or it returns and every pair of rectangles that meets in x
    is separated (up to `n·1e-10`) — it never runs out of the model's fuel. -/
theorem static_removeoverlaps_y_satisfy (rs : Array Rect) (bx b : Rat) (rank : Nat → Nat)
    (inj : RankInjective rank) (evs : List Ev) (hv : ValidOrder (yAxis rs bx b) rs.size evs)
    (hgood : GoodAxis (yAxis rs bx b) rs.size) (vs : Array (Rat × Rat × Rat))
    (hrange : ∀ c ∈ generateYConstraints rs bx b rank evs, c.l < vs.size ∧ c.r < vs.size) :
    (∃ s, (SSt.init vs (toVpsc (generateYConstraints rs bx b rank evs))).satisfy = (s, .threw)) ∨
    (∃ s' pos ret, (SSt.init vs (toVpsc (generateYConstraints rs bx b rank evs))).satisfy = (s', .ok pos ret) ∧
      ∀ i j, i < rs.size → j < rs.size → i ≠ j → ScanMeet (yAxis rs bx b) i j →
        s'.st.uval i + ((rectAt rs i).height b + (rectAt rs j).height b) / 2 - (vs.size : Rat) / 10000000000
            ≤ s'.st.uval j ∨
        s'.st.uval j + ((rectAt rs i).height b + (rectAt rs j).height b) / 2 - (vs.size : Rat) / 10000000000
            ≤ s'.st.uval i) := by
  rcases AdaptaVerif.Props.C01Static.static_satisfy_total vs (toVpsc (generateYConstraints rs bx b rank evs))
    (toVpsc_wf _ vs.size hrange) with ⟨s', pos, ret, h⟩ | h
  · right
    refine ⟨s', pos, ret, h, fun i j hi hj hij hmeet => ?_⟩
    exact static_removeoverlaps_y_separates rs bx b rank inj evs hv hgood vs hrange false s' pos ret
      (by simpa using h) i j hi hj hij hmeet
  · exact Or.inl h

/-- **static_removeoverlaps_y_solve**: the same dichotomy for `solve()`, which is what `removeoverlaps` calls:
    on the vertical-pass constraints the static solver's `solve()` either throws `UnsatisfiedConstraint` (from
    the exit scan of `satisfy` or of `refine`) or returns, and then every pair of rectangles that meets in x
    is separated vertically (up to `n·1e-10`) — it never runs out of the model's fuel
    (`static_solve_total`). -/
theorem static_removeoverlaps_y_solve (rs : Array Rect) (bx b : Rat) (rank : Nat → Nat)
    (inj : RankInjective rank) (evs : List Ev) (hv : ValidOrder (yAxis rs bx b) rs.size evs)
    (hgood : GoodAxis (yAxis rs bx b) rs.size) (vs : Array (Rat × Rat × Rat))
    (hrange : ∀ c ∈ generateYConstraints rs bx b rank evs, c.l < vs.size ∧ c.r < vs.size) :
    (∃ s, (SSt.init vs (toVpsc (generateYConstraints rs bx b rank evs))).solve = (s, .threw)) ∨
    (∃ s' pos ret, (SSt.init vs (toVpsc (generateYConstraints rs bx b rank evs))).solve = (s', .ok pos ret) ∧
      ∀ i j, i < rs.size → j < rs.size → i ≠ j → ScanMeet (yAxis rs bx b) i j →
        s'.st.uval i + ((rectAt rs i).height b + (rectAt rs j).height b) / 2 - (vs.size : Rat) / 10000000000
            ≤ s'.st.uval j ∨
        s'.st.uval j + ((rectAt rs i).height b + (rectAt rs j).height b) / 2 - (vs.size : Rat) / 10000000000
            ≤ s'.st.uval i) := by
  rcases AdaptaVerif.Props.C01Static.static_solve_total vs (toVpsc (generateYConstraints rs bx b rank evs))
    (toVpsc_wf _ vs.size hrange) with ⟨s', pos, ret, h⟩ | h
  · right
    refine ⟨s', pos, ret, h, fun i j hi hj hij hmeet => ?_⟩
    exact static_removeoverlaps_y_separates rs bx b rank inj evs hv hgood vs hrange true s' pos ret
      (by simpa using h) i j hi hj hij hmeet
  · exact Or.inl h

/-- the same for the horizontal pass -/
theorem static_removeoverlaps_x_solve (rs : Array Rect) (bx b : Rat) (rank : Nat → Nat)
    (inj : RankInjective rank) (evs : List Ev) (hv : ValidOrder (xAxis rs bx b) rs.size evs)
    (hgood : GoodAxis (xAxis rs bx b) rs.size) (vs : Array (Rat × Rat × Rat))
    (hrange : ∀ c ∈ generateXConstraints rs bx b rank evs false, c.l < vs.size ∧ c.r < vs.size) :
    (∃ s, (SSt.init vs (toVpsc (generateXConstraints rs bx b rank evs false))).solve = (s, .threw)) ∨
    (∃ s' pos ret, (SSt.init vs (toVpsc (generateXConstraints rs bx b rank evs false))).solve = (s', .ok pos ret) ∧
      ∀ i j, i < rs.size → j < rs.size → i ≠ j → ScanMeet (xAxis rs bx b) i j →
        s'.st.uval i + ((rectAt rs i).width bx + (rectAt rs j).width bx) / 2 - (vs.size : Rat) / 10000000000
            ≤ s'.st.uval j ∨
        s'.st.uval j + ((rectAt rs i).width bx + (rectAt rs j).width bx) / 2 - (vs.size : Rat) / 10000000000
            ≤ s'.st.uval i) := by
  rcases AdaptaVerif.Props.C01Static.static_solve_total vs (toVpsc (generateXConstraints rs bx b rank evs false))
    (toVpsc_wf _ vs.size hrange) with ⟨s', pos, ret, h⟩ | h
  · right
    refine ⟨s', pos, ret, h, fun i j hi hj hij hmeet => ?_⟩
    exact static_removeoverlaps_x_separates rs bx b rank inj evs hv hgood vs hrange true s' pos ret
      (by simpa using h) i j hi hj hij hmeet
  · exact Or.inl h

/-! ### non-vacuity: the two overlapping squares of `Lemmas/ScanlineExample`, one vertical pass -/

open AdaptaVerif.Lemmas.Scanline.Example in
#guard (match (SSt.init #[(1, 1, 1), (2, 1, 1)] (toVpsc (generateYConstraints exRs 0 0 id exEvs))).solve with
        | (s, .ok p _) => p[0]! == 1/2 && p[1]! == 5/2 && s.st.uval 1 - s.st.uval 0 == 2 | _ => false)

end AdaptaVerif.Props.C09Static
