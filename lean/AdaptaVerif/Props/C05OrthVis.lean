/-
C05 / C03 — the static orthogonal visibility graph builder (`Model/OrthVis.lean`, tied to libavoid's
`generateStaticOrthogonalVisGraph` by exact edge-set equality on every scene of the C05 run).
Property theorems for ALL scenes of axis-parallel rectangles and connector end points (any sizes, any
overlaps, any direction flags).  Helper lemmas: `Lemmas/OrthVis*.lean`.
-/
import AdaptaVerif.Lemmas.OrthVisLines

namespace AdaptaVerif.Props.C05OrthVis
open AdaptaVerif.Model.OrthVis AdaptaVerif.Lemmas.OrthVis

/-- `t` strictly between `a` and `b` (either order) -/
def Between (a b t : Rat) : Prop := (a < t ∧ t < b) ∨ (b < t ∧ t < a)

/-- **Soundness of the graph.**  Every edge of the model graph is axis-parallel, and its open segment
    meets the interior of a rectangle (routing box) only if some connector end point lies strictly
    inside that rectangle (an end point inside a shape has to get out of it). -/
theorem graph_edge_sound (s : Scene) : ∀ e ∈ s.graph,
    (e.1.y = e.2.y ∧ ∀ R ∈ s.rects, ∀ t, Between e.1.x e.2.x t → StrictIn R t e.1.y → HasConnIn s.conns R) ∨
    (e.1.x = e.2.x ∧ ∀ R ∈ s.rects, ∀ t, Between e.1.y e.2.y t → StrictIn R e.1.x t → HasConnIn s.conns R) := by
  intro e he
  unfold Scene.graph Lines.edges at he
  rcases List.mem_append.mp he with he | he
  · left
    obtain ⟨⟨h, vs⟩, hp, he⟩ := List.mem_flatMap.mp he
    obtain ⟨⟨a, b⟩, hab, rfl⟩ := List.mem_map.mp he
    obtain ⟨g, hr⟩ := hLines_good s (h, vs) hp
    obtain ⟨ha, hb⟩ := mem_lineEdges hab
    obtain ⟨qa, hqa, ea, _⟩ := mem_toBPs ha
    obtain ⟨qb, hqb, eb, _⟩ := mem_toBPs hb
    have ra := hr qa hqa
    have rb := hr qb hqb
    refine ⟨rfl, ?_⟩
    intro R hR t hbt hin
    simp only at hbt hin ra rb
    apply g.clear R hR t ?_ ?_ hin
    · rcases hbt with ⟨h1, _⟩ | ⟨h1, _⟩
      · rw [ea] at h1; exact lt_of_le_of_lt ra.1 h1
      · rw [eb] at h1; exact lt_of_le_of_lt rb.1 h1
    · rcases hbt with ⟨_, h2⟩ | ⟨_, h2⟩
      · rw [eb] at h2; exact lt_of_lt_of_le h2 rb.2
      · rw [ea] at h2; exact lt_of_lt_of_le h2 ra.2
  · right
    obtain ⟨⟨v, vs⟩, hp, he⟩ := List.mem_flatMap.mp he
    obtain ⟨⟨a, b⟩, hab, rfl⟩ := List.mem_map.mp he
    obtain ⟨g, hr⟩ := vLines_good s (v, vs) hp
    obtain ⟨ha, hb⟩ := mem_lineEdges hab
    obtain ⟨qa, hqa, ea, _⟩ := mem_toBPs ha
    obtain ⟨qb, hqb, eb, _⟩ := mem_toBPs hb
    have ra := hr qa hqa
    have rb := hr qb hqb
    refine ⟨rfl, ?_⟩
    intro R hR t hbt hin
    simp only at hbt hin ra rb
    have hcl := g.clear R.tr (List.mem_map.mpr ⟨R, hR, rfl⟩) t ?_ ?_ ((StrictIn_tr R t v.p).mpr hin)
    · obtain ⟨c, hc, hcin⟩ := hcl
      obtain ⟨c', hc', rfl⟩ := List.mem_map.mp hc
      exact ⟨c', hc', (StrictIn_tr R c'.y c'.x).mp hcin⟩
    · rcases hbt with ⟨h1, _⟩ | ⟨h1, _⟩
      · rw [ea] at h1; exact lt_of_le_of_lt ra.1 h1
      · rw [eb] at h1; exact lt_of_le_of_lt rb.1 h1
    · rcases hbt with ⟨_, h2⟩ | ⟨_, h2⟩
      · rw [eb] at h2; exact lt_of_lt_of_le h2 rb.2
      · rw [ea] at h2; exact lt_of_lt_of_le h2 ra.2

/-- With every end point in free space (none strictly inside a rectangle) no edge of the graph enters any
    rectangle interior. -/
theorem graph_edge_clear (s : Scene) (hfree : ∀ R ∈ s.rects, ¬ HasConnIn s.conns R) : ∀ e ∈ s.graph,
    (e.1.y = e.2.y ∧ ∀ R ∈ s.rects, ∀ t, Between e.1.x e.2.x t → ¬ StrictIn R t e.1.y) ∨
    (e.1.x = e.2.x ∧ ∀ R ∈ s.rects, ∀ t, Between e.1.y e.2.y t → ¬ StrictIn R e.1.x t) := by
  intro e he
  rcases graph_edge_sound s e he with ⟨h1, h2⟩ | ⟨h1, h2⟩
  · exact Or.inl ⟨h1, fun R hR t hb hin => hfree R hR (h2 R hR t hb hin)⟩
  · exact Or.inr ⟨h1, fun R hR t hb hin => hfree R hR (h2 R hR t hb hin)⟩

/-- The driver's executable test on libavoid's dumped edges decides exactly the clause of
    `graph_edge_sound`: horizontal case. -/
theorem hitsH_iff (R : Rect) (y a b : Rat) :
    hitsH R y a b = true ↔ ∃ t, Between a b t ∧ StrictIn R t y := by
  unfold hitsH Between StrictIn
  simp only [Bool.and_eq_true, decide_eq_true_eq]
  constructor
  · rintro ⟨⟨h0, h1⟩, hm⟩
    rcases le_total a b with hab | hab
    · rw [min_eq_left hab, max_eq_right hab] at hm
      have a1 := le_max_left a R.x0
      have a2 := le_max_right a R.x0
      have b1 := min_le_left b R.x1
      have b2 := min_le_right b R.x1
      exact ⟨(max a R.x0 + min b R.x1) / 2, Or.inl ⟨by linarith, by linarith⟩, by linarith, by linarith, h0, h1⟩
    · rw [min_eq_right hab, max_eq_left hab] at hm
      have a1 := le_max_left b R.x0
      have a2 := le_max_right b R.x0
      have b1 := min_le_left a R.x1
      have b2 := min_le_right a R.x1
      exact ⟨(max b R.x0 + min a R.x1) / 2, Or.inr ⟨by linarith, by linarith⟩, by linarith, by linarith, h0, h1⟩
  · rintro ⟨t, hb, hx0, hx1, h0, h1⟩
    refine ⟨⟨h0, h1⟩, ?_⟩
    have : max (min a b) R.x0 < t := by
      apply max_lt _ hx0
      rcases hb with ⟨h, _⟩ | ⟨h, _⟩
      · exact lt_of_le_of_lt (min_le_left _ _) h
      · exact lt_of_le_of_lt (min_le_right _ _) h
    have : t < min (max a b) R.x1 := by
      apply lt_min _ hx1
      rcases hb with ⟨_, h⟩ | ⟨_, h⟩
      · exact lt_of_lt_of_le h (le_max_right _ _)
      · exact lt_of_lt_of_le h (le_max_left _ _)
    linarith

/-- `edgeAvoids` accepts an edge iff it is axis-parallel and its open segment misses the open rectangle -/
theorem edgeAvoids_iff (R : Rect) (x1 y1 x2 y2 : Rat) :
    edgeAvoids R x1 y1 x2 y2 = true ↔
      (y1 = y2 ∧ ¬ ∃ t, Between x1 x2 t ∧ StrictIn R t y1) ∨
      (y1 ≠ y2 ∧ x1 = x2 ∧ ¬ ∃ t, Between y1 y2 t ∧ StrictIn R x1 t) := by
  unfold edgeAvoids
  by_cases hy : y1 = y2
  · simp only [hy, beq_self_eq_true, if_true, Bool.not_eq_true', ne_eq, not_true_eq_false, false_and, or_false, true_and]
    rw [← hitsH_iff, Bool.not_eq_true]
  · have : (y1 == y2) = false := by simpa using hy
    simp only [this, Bool.false_eq_true, if_false, hy, false_and, false_or, ne_eq, not_false_eq_true, true_and]
    by_cases hx : x1 = x2
    · simp only [hx, beq_self_eq_true, if_true, Bool.not_eq_true', true_and]
      rw [← Bool.not_eq_true, hitsH_iff]
      constructor
      · rintro h ⟨t, hb, hin⟩; exact h ⟨t, hb, (StrictIn_tr R t x2).mpr hin⟩
      · rintro h ⟨t, hb, hin⟩; exact h ⟨t, hb, (StrictIn_tr R t x2).mp hin⟩
    · have : (x1 == x2) = false := by simpa using hx
      simp [this, hx]

theorem hasConnIn_iff (conns : List Conn) (R : Rect) : hasConnIn conns R = true ↔ HasConnIn conns R := by
  unfold hasConnIn HasConnIn StrictIn
  simp only [List.any_eq_true, Bool.and_eq_true, decide_eq_true_eq]
  constructor
  · rintro ⟨c, hc, ⟨⟨h1, h2⟩, h3⟩, h4⟩; exact ⟨c, hc, h1, h2, h3, h4⟩
  · rintro ⟨c, hc, h1, h2, h3, h4⟩; exact ⟨c, hc, ⟨⟨h1, h2⟩, h3⟩, h4⟩

end AdaptaVerif.Props.C05OrthVis
