/-
C05 / C03 — the static orthogonal visibility graph builder (`Model/OrthVis.lean`, tied to libavoid's
`generateStaticOrthogonalVisGraph` by exact edge-set equality on every scene of the C05 run).
Property theorems for ALL scenes of axis-parallel rectangles and connector end points (any sizes, any
overlaps, any direction flags).  Helper lemmas: `Lemmas/OrthVis*.lean`.
-/
import AdaptaVerif.Lemmas.OrthVisLines
import AdaptaVerif.Lemmas.OrthVisOrder
import AdaptaVerif.Lemmas.OrthVisCover
import AdaptaVerif.Lemmas.OrthVisPath
import AdaptaVerif.Lemmas.OrthVisSweep

namespace AdaptaVerif.Props.C05OrthVis
open AdaptaVerif.Model.OrthVis AdaptaVerif.Lemmas.OrthVis

/-- `t` strictly between `a` and `b` (either order) -/
def Between (a b t : Rat) : Prop := (a < t ∧ t < b) ∨ (b < t ∧ t < a)

/-- **Soundness of the graph.**  Every edge of the model graph is axis-parallel, and its open segment
    meets the interior of a rectangle (routing box) only if some connector end point lies strictly
    inside that rectangle (an end point inside a shape has to get out of it). -/
theorem graph_edge_sound (s : Scene) : ∀ e ∈ s.graph,
    (e.1.y = e.2.y ∧ ∀ R ∈ s.rects, ∀ t, Between e.1.x e.2.x t → StrictIn R t e.1.y → HasConnIn s.conns R) ∨
    (e.1.x = e.2.x ∧ ∀ R ∈ s.rects, ∀ t, Between e.1.y e.2.y t → StrictIn R e.1.x t → HasConnIn s.conns R) := by
  intro e he
  unfold Scene.graph Lines.edges at he
  rcases List.mem_append.mp he with he | he
  · left
    obtain ⟨⟨h, vs⟩, hp, he⟩ := List.mem_flatMap.mp he
    obtain ⟨⟨a, b⟩, hab, rfl⟩ := List.mem_map.mp he
    obtain ⟨g, hr⟩ := hLines_good s (h, vs) hp
    obtain ⟨ha, hb⟩ := mem_lineEdges hab
    obtain ⟨qa, hqa, ea, _⟩ := mem_toBPs ha
    obtain ⟨qb, hqb, eb, _⟩ := mem_toBPs hb
    have ra := hr qa hqa
    have rb := hr qb hqb
    refine ⟨rfl, ?_⟩
    intro R hR t hbt hin
    simp only at hbt hin ra rb
    apply g.clear R hR t ?_ ?_ hin
    · rcases hbt with ⟨h1, _⟩ | ⟨h1, _⟩
      · rw [ea] at h1; exact lt_of_le_of_lt ra.1 h1
      · rw [eb] at h1; exact lt_of_le_of_lt rb.1 h1
    · rcases hbt with ⟨_, h2⟩ | ⟨_, h2⟩
      · rw [eb] at h2; exact lt_of_lt_of_le h2 rb.2
      · rw [ea] at h2; exact lt_of_lt_of_le h2 ra.2
  · right
    obtain ⟨⟨v, vs⟩, hp, he⟩ := List.mem_flatMap.mp he
    obtain ⟨⟨a, b⟩, hab, rfl⟩ := List.mem_map.mp he
    obtain ⟨g, hr⟩ := vLines_good s (v, vs) hp
    obtain ⟨ha, hb⟩ := mem_lineEdges hab
    obtain ⟨qa, hqa, ea, _⟩ := mem_toBPs ha
    obtain ⟨qb, hqb, eb, _⟩ := mem_toBPs hb
    have ra := hr qa hqa
    have rb := hr qb hqb
    refine ⟨rfl, ?_⟩
    intro R hR t hbt hin
    simp only at hbt hin ra rb
    have hcl := g.clear R.tr (List.mem_map.mpr ⟨R, hR, rfl⟩) t ?_ ?_ ((StrictIn_tr R t v.p).mpr hin)
    · obtain ⟨c, hc, hcin⟩ := hcl
      obtain ⟨c', hc', rfl⟩ := List.mem_map.mp hc
      exact ⟨c', hc', (StrictIn_tr R c'.y c'.x).mp hcin⟩
    · rcases hbt with ⟨h1, _⟩ | ⟨h1, _⟩
      · rw [ea] at h1; exact lt_of_le_of_lt ra.1 h1
      · rw [eb] at h1; exact lt_of_le_of_lt rb.1 h1
    · rcases hbt with ⟨_, h2⟩ | ⟨_, h2⟩
      · rw [eb] at h2; exact lt_of_lt_of_le h2 rb.2
      · rw [ea] at h2; exact lt_of_lt_of_le h2 ra.2

/-- With every end point in free space (none strictly inside a rectangle) no edge of the graph enters any
    rectangle interior. -/
theorem graph_edge_clear (s : Scene) (hfree : ∀ R ∈ s.rects, ¬ HasConnIn s.conns R) : ∀ e ∈ s.graph,
    (e.1.y = e.2.y ∧ ∀ R ∈ s.rects, ∀ t, Between e.1.x e.2.x t → ¬ StrictIn R t e.1.y) ∨
    (e.1.x = e.2.x ∧ ∀ R ∈ s.rects, ∀ t, Between e.1.y e.2.y t → ¬ StrictIn R e.1.x t) := by
  intro e he
  rcases graph_edge_sound s e he with ⟨h1, h2⟩ | ⟨h1, h2⟩
  · exact Or.inl ⟨h1, fun R hR t hb hin => hfree R hR (h2 R hR t hb hin)⟩
  · exact Or.inr ⟨h1, fun R hR t hb hin => hfree R hR (h2 R hR t hb hin)⟩

/-- The driver's executable test on libavoid's dumped edges decides exactly the clause of
    `graph_edge_sound`: horizontal case. -/
theorem hitsH_iff (R : Rect) (y a b : Rat) :
    hitsH R y a b = true ↔ ∃ t, Between a b t ∧ StrictIn R t y := by
  unfold hitsH Between StrictIn
  simp only [Bool.and_eq_true, decide_eq_true_eq]
  constructor
  · rintro ⟨⟨h0, h1⟩, hm⟩
    rcases le_total a b with hab | hab
    · rw [min_eq_left hab, max_eq_right hab] at hm
      have a1 := le_max_left a R.x0
      have a2 := le_max_right a R.x0
      have b1 := min_le_left b R.x1
      have b2 := min_le_right b R.x1
      exact ⟨(max a R.x0 + min b R.x1) / 2, Or.inl ⟨by linarith, by linarith⟩, by linarith, by linarith, h0, h1⟩
    · rw [min_eq_right hab, max_eq_left hab] at hm
      have a1 := le_max_left b R.x0
      have a2 := le_max_right b R.x0
      have b1 := min_le_left a R.x1
      have b2 := min_le_right a R.x1
      exact ⟨(max b R.x0 + min a R.x1) / 2, Or.inr ⟨by linarith, by linarith⟩, by linarith, by linarith, h0, h1⟩
  · rintro ⟨t, hb, hx0, hx1, h0, h1⟩
    refine ⟨⟨h0, h1⟩, ?_⟩
    have : max (min a b) R.x0 < t := by
      apply max_lt _ hx0
      rcases hb with ⟨h, _⟩ | ⟨h, _⟩
      · exact lt_of_le_of_lt (min_le_left _ _) h
      · exact lt_of_le_of_lt (min_le_right _ _) h
    have : t < min (max a b) R.x1 := by
      apply lt_min _ hx1
      rcases hb with ⟨_, h⟩ | ⟨_, h⟩
      · exact lt_of_lt_of_le h (le_max_right _ _)
      · exact lt_of_lt_of_le h (le_max_left _ _)
    linarith

/-- `edgeAvoids` accepts an edge iff it is axis-parallel and its open segment misses the open rectangle -/
theorem edgeAvoids_iff (R : Rect) (x1 y1 x2 y2 : Rat) :
    edgeAvoids R x1 y1 x2 y2 = true ↔
      (y1 = y2 ∧ ¬ ∃ t, Between x1 x2 t ∧ StrictIn R t y1) ∨
      (y1 ≠ y2 ∧ x1 = x2 ∧ ¬ ∃ t, Between y1 y2 t ∧ StrictIn R x1 t) := by
  unfold edgeAvoids
  by_cases hy : y1 = y2
  · simp only [hy, beq_self_eq_true, if_true, Bool.not_eq_true', ne_eq, not_true_eq_false, false_and, or_false, true_and]
    rw [← hitsH_iff, Bool.not_eq_true]
  · have : (y1 == y2) = false := by simpa using hy
    simp only [this, Bool.false_eq_true, if_false, hy, false_and, false_or, ne_eq, not_false_eq_true, true_and]
    by_cases hx : x1 = x2
    · simp only [hx, beq_self_eq_true, if_true, Bool.not_eq_true', true_and]
      rw [← Bool.not_eq_true, hitsH_iff]
      constructor
      · rintro h ⟨t, hb, hin⟩; exact h ⟨t, hb, (StrictIn_tr R t x2).mpr hin⟩
      · rintro h ⟨t, hb, hin⟩; exact h ⟨t, hb, (StrictIn_tr R t x2).mp hin⟩
    · have : (x1 == x2) = false := by simpa using hx
      simp [this, hx]

theorem hasConnIn_iff (conns : List Conn) (R : Rect) : hasConnIn conns R = true ↔ HasConnIn conns R := by
  unfold hasConnIn HasConnIn StrictIn
  simp only [List.any_eq_true, Bool.and_eq_true, decide_eq_true_eq]
  constructor
  · rintro ⟨c, hc, ⟨⟨h1, h2⟩, h3⟩, h4⟩; exact ⟨c, hc, h1, h2, h3, h4⟩
  · rintro ⟨c, hc, h1, h2, h3, h4⟩; exact ⟨c, hc, ⟨⟨h1, h2⟩, h3⟩, h4⟩

/-- the effective flags (after the outside rule) of connector end point `i` allow `f` -/
def Allows (s : Scene) (i : Nat) (f : Dirs → Bool) : Prop := ∃ c, s.fixDirs[i]? = some c ∧ f c.d = true

/-- **Orientation and direction restrictions.**  Every edge of the model graph runs from its first to its
    second vertex towards a strictly larger x (horizontal) or y (vertical) coordinate — in particular no
    edge is degenerate —, it leaves a connector end point only in a direction the end point's effective
    flags allow and reaches one only against such a direction. -/
theorem graph_edge_directed (s : Scene) : ∀ e ∈ s.graph,
    (e.1.y = e.2.y ∧ e.1.x < e.2.x ∧
      (∀ i, e.1.k = .conn i → Allows s i (·.right)) ∧ (∀ i, e.2.k = .conn i → Allows s i (·.left))) ∨
    (e.1.x = e.2.x ∧ e.1.y < e.2.y ∧
      (∀ i, e.1.k = .conn i → Allows s i (·.down)) ∧ (∀ i, e.2.k = .conn i → Allows s i (·.up))) := by
  intro e he
  unfold Scene.graph Lines.edges at he
  rw [lines_conns] at he
  rcases List.mem_append.mp he with he | he
  · left
    obtain ⟨⟨h, vs⟩, _, he⟩ := List.mem_flatMap.mp he
    obtain ⟨⟨a, b⟩, hab, rfl⟩ := List.mem_map.mp he
    have hlt := lineEdges_lt (toBPs_sorted _ vs) _ hab
    obtain ⟨d1, d2⟩ := lineEdges_dirs _ _ hab
    obtain ⟨ha, hb⟩ := mem_lineEdges hab
    refine ⟨rfl, hlt, ?_, ?_⟩
    · intro i hi
      simp only at hi d1
      have := d1 (by rw [hi]; rfl)
      rw [(toBPs_flags ha).2, hi] at this
      exact dirsX_up this
    · intro i hi
      simp only at hi d2
      have := d2 (by rw [hi]; rfl)
      rw [(toBPs_flags hb).1, hi] at this
      exact dirsX_dn this
  · right
    obtain ⟨⟨v, vs⟩, _, he⟩ := List.mem_flatMap.mp he
    obtain ⟨⟨a, b⟩, hab, rfl⟩ := List.mem_map.mp he
    have hlt := lineEdges_lt (toBPs_sorted _ vs) _ hab
    obtain ⟨d1, d2⟩ := lineEdges_dirs _ _ hab
    obtain ⟨ha, hb⟩ := mem_lineEdges hab
    refine ⟨rfl, hlt, ?_, ?_⟩
    · intro i hi
      simp only at hi d1
      have := d1 (by rw [hi]; rfl)
      rw [(toBPs_flags ha).2, hi] at this
      exact dirsY_up this
    · intro i hi
      simp only at hi d2
      have := d2 (by rw [hi]; rfl)
      rw [(toBPs_flags hb).1, hi] at this
      exact dirsY_dn this

/-- **Completeness along a line.**  On every line of the model (horizontal shown; `…_v` vertical) two
    breakpoints at different positions with no breakpoint of that line strictly between them are joined by
    an edge of the graph, unless the lower one is a connector end point that may not be left towards higher
    coordinates or the higher one a connector end point that may not be left towards lower ones. -/
theorem line_adjacent_joined_h (s : Scene) (h : Seg) (vs : List LV) (hl : (h, vs) ∈ s.lines.hs)
    (a b : BP) (ha : a ∈ toBPs (dirsX s.fixDirs) vs) (hb : b ∈ toBPs (dirsX s.fixDirs) vs)
    (hab : a.t < b.t) (hno : ∀ c ∈ toBPs (dirsX s.fixDirs) vs, ¬ (a.t < c.t ∧ c.t < b.t))
    (h1 : a.k.isConn = true → a.up = true) (h2 : b.k.isConn = true → b.dn = true) :
    ((⟨a.t, h.p, a.k⟩, ⟨b.t, h.p, b.k⟩) : GV × GV) ∈ s.graph := by
  unfold Scene.graph Lines.edges
  rw [lines_conns]
  apply List.mem_append_left
  refine List.mem_flatMap.mpr ⟨(h, vs), hl, ?_⟩
  exact List.mem_map.mpr ⟨(a, b), lineEdges_adjacent (toBPs_sorted _ vs) ha hb hab hno h1 h2, rfl⟩

theorem line_adjacent_joined_v (s : Scene) (v : Seg) (vs : List LV) (hl : (v, vs) ∈ s.lines.vs)
    (a b : BP) (ha : a ∈ toBPs (dirsY s.fixDirs) vs) (hb : b ∈ toBPs (dirsY s.fixDirs) vs)
    (hab : a.t < b.t) (hno : ∀ c ∈ toBPs (dirsY s.fixDirs) vs, ¬ (a.t < c.t ∧ c.t < b.t))
    (h1 : a.k.isConn = true → a.up = true) (h2 : b.k.isConn = true → b.dn = true) :
    ((⟨v.p, a.t, a.k⟩, ⟨v.p, b.t, b.k⟩) : GV × GV) ∈ s.graph := by
  unfold Scene.graph Lines.edges
  rw [lines_conns]
  apply List.mem_append_right
  refine List.mem_flatMap.mpr ⟨(v, vs), hl, ?_⟩
  exact List.mem_map.mpr ⟨(a, b), lineEdges_adjacent (toBPs_sorted _ vs) ha hb hab hno h1 h2, rfl⟩

/-- every live connector end point lies, with its own vertex, on a horizontal line of the model that
    reaches at least to the first blocking rectangle side in each direction its flags allow -/
theorem endpoint_on_hline (s : Scene) (i : Nat) (c : Conn) (hc : s.fixDirs[i]? = some c) (hl : c.d.none = false) :
    ∃ p ∈ s.lines.hs, p.1.p = c.y ∧ (⟨c.x, .conn i⟩ : LV) ∈ p.2 ∧ p.1.b ≤ c.x ∧ c.x ≤ p.1.f ∧
      (c.d.left = true → p.1.b ≤ firstAbove s.lo (activeAt s.rects c.y) c.x c.y) ∧
      (c.d.right = true → firstBelow s.hi (activeAt s.rects c.y) c.x c.y ≤ p.1.f) := by
  have hraw : connSegH s.lo s.hi s.rects i c ∈ rawH s.lo s.hi s.rects s.fixDirs := by
    unfold rawH
    apply List.mem_append_right
    refine List.mem_map.mpr ⟨(c, i), ?_, rfl⟩
    refine List.mem_filter.mpr ⟨List.mem_zipIdx_iff_getElem?.mpr hc, by simp [hl]⟩
  obtain ⟨m, hm, hp, hb, hf, hvs⟩ := mergeAll_covers _ _ hraw
  refine ⟨_, mem_lines_hs s m hm, ?_, ?_, ?_, ?_, ?_, ?_⟩
  · exact hp
  · apply mem_hVerts_of_mem
    apply hvs
    simp [connSegH]
  · have : (connSegH s.lo s.hi s.rects i c).b ≤ c.x := by
      simp only [connSegH]; split
      · rename_i h; simp only [Bool.and_eq_true, decide_eq_true_eq] at h; grind
      · exact Rat.le_refl
    simp only at hb ⊢; grind
  · have : c.x ≤ (connSegH s.lo s.hi s.rects i c).f := by
      simp only [connSegH]; split
      · rename_i h; simp only [Bool.and_eq_true, decide_eq_true_eq] at h; grind
      · exact Rat.le_refl
    simp only at hf ⊢; grind
  · intro hleft
    have : (connSegH s.lo s.hi s.rects i c).b ≤ firstAbove s.lo (activeAt s.rects c.y) c.x c.y := by
      simp only [connSegH]; split
      · exact Rat.le_refl
      · rename_i h; simp only [hleft, Bool.true_and, decide_eq_true_eq] at h; grind
    simp only at hb ⊢; grind
  · intro hright
    have : firstBelow s.hi (activeAt s.rects c.y) c.x c.y ≤ (connSegH s.lo s.hi s.rects i c).f := by
      simp only [connSegH]; split
      · exact Rat.le_refl
      · rename_i h; simp only [hright, Bool.true_and, decide_eq_true_eq] at h; grind
    simp only at hf ⊢; grind

/-- … and, when it may be left upwards (downwards) and there is room, on a vertical line through it that
    reaches at least to the first blocking side above (below) -/
theorem endpoint_on_vline (s : Scene) (i : Nat) (c : Conn) (hc : s.fixDirs[i]? = some c) :
    (c.d.up = true → firstAbove s.lo (activeAt (s.rects.map Rect.tr) c.x) c.y c.x < c.y →
      ∃ p ∈ s.lines.vs, p.1.p = c.x ∧ (⟨c.y, .conn i⟩ : LV) ∈ p.2 ∧
        p.1.b ≤ firstAbove s.lo (activeAt (s.rects.map Rect.tr) c.x) c.y c.x ∧ c.y ≤ p.1.f) ∧
    (c.d.down = true → c.y < firstBelow s.hi (activeAt (s.rects.map Rect.tr) c.x) c.y c.x →
      ∃ p ∈ s.lines.vs, p.1.p = c.x ∧ (⟨c.y, .conn i⟩ : LV) ∈ p.2 ∧
        p.1.b ≤ c.y ∧ firstBelow s.hi (activeAt (s.rects.map Rect.tr) c.x) c.y c.x ≤ p.1.f) := by
  have hcm : c ∈ s.fixDirs := List.mem_of_getElem? hc
  -- common part: a candidate vertical segment `r` through the end point is covered by a vertical line
  -- which receives the end point's vertex from the horizontal line through it
  have key : ∀ r : Seg, r ∈ connSegsV s.lo s.hi (s.rects.map Rect.tr) c.tr → c.d.none = false →
      r.p = c.x → r.b ≤ c.y → c.y ≤ r.f →
      ∃ p ∈ s.lines.vs, p.1.p = c.x ∧ (⟨c.y, .conn i⟩ : LV) ∈ p.2 ∧ p.1.b ≤ r.b ∧ r.f ≤ p.1.f := by
    intro r hr hl hrp hrb hrf
    have hraw : r ∈ rawV s.lo s.hi (s.rects.map Rect.tr) (s.fixDirs.map Conn.tr) := by
      unfold rawV
      apply List.mem_append_right
      refine List.mem_flatMap.mpr ⟨c.tr, ?_, hr⟩
      refine List.mem_filter.mpr ⟨List.mem_map.mpr ⟨c, hcm, rfl⟩, ?_⟩
      simp [Conn.tr, Dirs.tr_none, hl]
    obtain ⟨m, hm, hp, hb, hf, _⟩ := mergeAll_covers _ _ hraw
    obtain ⟨ph, hph, hy, hvx, hb', hf', _, _⟩ := endpoint_on_hline s i c hc hl
    refine ⟨_, mem_lines_vs s m hm, by simp only; rw [hp, hrp], ?_, hb, hf⟩
    apply mem_vVerts_of_from _ _ _ _ ph hph
    unfold vFrom
    have hcr : crosses ph.1 m = true := by
      unfold crosses
      simp only [Bool.and_eq_true, decide_eq_true_eq]
      rw [hy, hp, hrp]
      grind
    rw [if_pos hcr]
    refine List.mem_map.mpr ⟨⟨c.x, .conn i⟩, List.mem_filter.mpr ⟨hvx, ?_⟩, by simp [hy]⟩
    simp [hp, hrp]
  constructor
  · intro hup hroom
    have hl : c.d.none = false := by simp [Dirs.none, hup]
    obtain ⟨p, hp, h1, h2, h3, h4⟩ := key
      ⟨firstAbove s.lo (activeAt (s.rects.map Rect.tr) c.x) c.y c.x, c.y, c.x, []⟩
      (by
        unfold connSegsV
        apply List.mem_append_left
        simp [Conn.tr, Dirs.tr, hup, hroom]) hl rfl (by simp only; grind) (by simp only; exact Rat.le_refl)
    exact ⟨p, hp, h1, h2, h3, h4⟩
  · intro hdn hroom
    have hl : c.d.none = false := by simp [Dirs.none, hdn]
    obtain ⟨p, hp, h1, h2, h3, h4⟩ := key
      ⟨c.y, firstBelow s.hi (activeAt (s.rects.map Rect.tr) c.x) c.y c.x, c.x, []⟩
      (by
        unfold connSegsV
        apply List.mem_append_right
        simp [Conn.tr, Dirs.tr, hdn, hroom]) hl rfl (by simp only; exact Rat.le_refl) (by simp only; grind)
    exact ⟨p, hp, h1, h2, h3, h4⟩


/-- What "the first blocking side" is: `firstBelow` (towards larger x; `firstAbove` symmetric, and the same
    two functions on the transposed scene for y) is at most the near side of every rectangle that the line
    `y = py` crosses strictly and that lies beyond `px`, and it is the sentinel (+∞) or attained by such a
    rectangle of the scan line. -/
theorem firstBelow_is_first_blocking_side (hi : Rat) (rects : List Rect) (px py : Rat) :
    (∀ R ∈ rects, R.y0 < py → py < R.y1 → R.x0 ≥ px → firstBelow hi (activeAt rects py) px py ≤ R.x0) ∧
    (firstBelow hi (activeAt rects py) px py = hi ∨
      ∃ R ∈ rects, R.y0 < py ∧ py < R.y1 ∧ R.x0 ≥ px ∧ firstBelow hi (activeAt rects py) px py = R.x0) := by
  constructor
  · intro R hR h0 h1 hx
    exact (first_block hi hi (activeAt rects py) px py R (mem_activeAt hR h0 h1) h0 h1).2 hx
  · unfold firstBelow
    rcases minL_mem hi (((activeAt rects py).filter fun c => offEdge py c && decide (c.x0 ≥ px)).map (·.x0)) with h | h
    · exact Or.inl h
    · right
      obtain ⟨R, hR, hv⟩ := List.mem_map.mp h
      obtain ⟨hact, hcond⟩ := List.mem_filter.mp hR
      simp only [Bool.and_eq_true, decide_eq_true_eq] at hcond
      unfold activeAt at hact
      obtain ⟨hmem, hy⟩ := List.mem_filter.mp hact
      simp only [decide_eq_true_eq] at hy
      have hoff := hcond.1
      unfold offEdge at hoff
      simp only [Bool.not_eq_true', Bool.or_eq_false_iff, beq_eq_false_iff_ne, ne_eq] at hoff
      refine ⟨R, hmem, lt_of_le_of_ne hy.1 (Ne.symm hoff.1), lt_of_le_of_ne hy.2 hoff.2, hcond.2, hv.symm⟩

theorem firstAbove_is_first_blocking_side (lo : Rat) (rects : List Rect) (px py : Rat) :
    (∀ R ∈ rects, R.y0 < py → py < R.y1 → R.x1 ≤ px → R.x1 ≤ firstAbove lo (activeAt rects py) px py) ∧
    (firstAbove lo (activeAt rects py) px py = lo ∨
      ∃ R ∈ rects, R.y0 < py ∧ py < R.y1 ∧ R.x1 ≤ px ∧ firstAbove lo (activeAt rects py) px py = R.x1) := by
  constructor
  · intro R hR h0 h1 hx
    exact (first_block lo lo (activeAt rects py) px py R (mem_activeAt hR h0 h1) h0 h1).1 hx
  · unfold firstAbove
    rcases maxL_mem lo (((activeAt rects py).filter fun c => offEdge py c && decide (c.x1 ≤ px)).map (·.x1)) with h | h
    · exact Or.inl h
    · right
      obtain ⟨R, hR, hv⟩ := List.mem_map.mp h
      obtain ⟨hact, hcond⟩ := List.mem_filter.mp hR
      simp only [Bool.and_eq_true, decide_eq_true_eq] at hcond
      unfold activeAt at hact
      obtain ⟨hmem, hy⟩ := List.mem_filter.mp hact
      simp only [decide_eq_true_eq] at hy
      have hoff := hcond.1
      unfold offEdge at hoff
      simp only [Bool.not_eq_true', Bool.or_eq_false_iff, beq_eq_false_iff_ne, ne_eq] at hoff
      refine ⟨R, hmem, lt_of_le_of_ne hy.1 (Ne.symm hoff.1), lt_of_le_of_ne hy.2 hoff.2, hcond.2, hv.symm⟩

/-- where a horizontal and a vertical line of the model meet, they share a vertex (same point, same
    kind): the graph can be left from one line onto the other there -/
theorem crossing_shared (s : Scene) (ph pv : Seg × List LV) (hh : ph ∈ s.lines.hs) (hv : pv ∈ s.lines.vs)
    (hc : crosses ph.1 pv.1 = true) :
    ∃ k, (⟨pv.1.p, k⟩ : LV) ∈ ph.2 ∧ (⟨ph.1.p, k⟩ : LV) ∈ pv.2 := by
  obtain ⟨_, e1⟩ := lines_hs_form s ph hh
  obtain ⟨hvm, e2⟩ := lines_vs_form s pv hv
  have : ∃ q ∈ ph.2, q.t = pv.1.p := by
    rw [e1]
    unfold hVerts
    apply exists_at_foldl_ensure
    exact List.mem_map.mpr ⟨pv.1, List.mem_filter.mpr ⟨hvm, hc⟩, rfl⟩
  obtain ⟨q, hq, hqt⟩ := this
  refine ⟨q.k, ?_, ?_⟩
  · rw [← hqt]; exact hq
  · rw [e2]
    apply mem_vVerts_of_from _ _ _ _ ph hh
    unfold vFrom
    rw [if_pos hc]
    exact List.mem_map.mpr ⟨q, List.mem_filter.mpr ⟨hq, by simp [hqt]⟩, rfl⟩

/-- every rectangle side (without other boxes overlapping it) lies, with both corner vertices, on a
    horizontal line of the model that extends to the nearest box side to the left and to the right -/
theorem side_on_hline (s : Scene) (i : Nat) (v : Rect) (hv : s.rects[i]? = some v) (y : Rat) (hy : y = v.y0 ∨ y = v.y1)
    (hn : (findLimits s.lo s.hi (activeAt (s.rects.eraseIdx i) y) v y).minLimitMax ≥
          (findLimits s.lo s.hi (activeAt (s.rects.eraseIdx i) y) v y).maxLimitMin) :
    ∃ p ∈ s.lines.hs, p.1.p = y ∧ (⟨v.x0, .node⟩ : LV) ∈ p.2 ∧ (⟨v.x1, .node⟩ : LV) ∈ p.2 ∧
      p.1.b ≤ (findLimits s.lo s.hi (activeAt (s.rects.eraseIdx i) y) v y).minLimit ∧
      (findLimits s.lo s.hi (activeAt (s.rects.eraseIdx i) y) v y).maxLimit ≤ p.1.f := by
  have hraw : (⟨(findLimits s.lo s.hi (activeAt (s.rects.eraseIdx i) y) v y).minLimit,
      (findLimits s.lo s.hi (activeAt (s.rects.eraseIdx i) y) v y).maxLimit, y,
      [⟨v.x0, .node⟩, ⟨v.x1, .node⟩]⟩ : Seg) ∈ rawH s.lo s.hi s.rects s.fixDirs := by
    unfold rawH
    apply List.mem_append_left
    refine List.mem_flatMap.mpr ⟨(v, i), List.mem_zipIdx_iff_getElem?.mpr hv, ?_⟩
    simp only
    rcases hy with rfl | rfl
    · apply List.mem_append_left
      unfold sideSegsH
      simp only [if_pos hn, List.mem_singleton]
    · apply List.mem_append_right
      unfold sideSegsH
      simp only [if_pos hn, List.mem_singleton]
  obtain ⟨m, hm, hp, hb, hf, hvs⟩ := mergeAll_covers _ _ hraw
  exact ⟨_, mem_lines_hs s m hm, hp, mem_hVerts_of_mem _ _ _ _ (hvs _ (by simp)),
    mem_hVerts_of_mem _ _ _ _ (hvs _ (by simp)), hb, hf⟩


/-- For pairwise separated routing boxes (the scenes the C05 property quantifies over) the sweep never
    stops early at a box side: each of the four sides of every box lies, with both corner vertices, on a line
    of the model that extends on either side to the nearest box side in the scan line (`findLimits`:
    `minLimit` = the largest right side ≤ the box's left side among the boxes meeting that line, `maxLimit`
    symmetric), or to infinity.  (Horizontal sides; the vertical sides are the same statement about the
    transposed scene, whose lines are `s.lines.vs`.) -/
theorem side_on_hline_separated (s : Scene) (i : Nat) (v : Rect) (hv : s.rects[i]? = some v)
    (hsep : ∀ (j k : Nat) (a b : Rect), j ≠ k → s.rects[j]? = some a → s.rects[k]? = some b → Sep a b)
    (hw : v.x0 ≤ v.x1) (hh : v.y0 ≤ v.y1) (y : Rat) (hy : y = v.y0 ∨ y = v.y1) :
    ∃ p ∈ s.lines.hs, p.1.p = y ∧ (⟨v.x0, .node⟩ : LV) ∈ p.2 ∧ (⟨v.x1, .node⟩ : LV) ∈ p.2 ∧
      p.1.b ≤ (findLimits s.lo s.hi (activeAt (s.rects.eraseIdx i) y) v y).minLimit ∧
      (findLimits s.lo s.hi (activeAt (s.rects.eraseIdx i) y) v y).maxLimit ≤ p.1.f :=
  side_on_hline s i v hv y hy (separated_normal s.lo s.hi s.rects i v hv hsep hw hh y hy)

/-- **A path along a line.**  Take a line of the model (horizontal shown), its breakpoints in set order
    split into position groups, and any run `mid` of consecutive groups each of which carries a dummy vertex
    (every breakpoint position does, except a connector end point inside a shape or without room): the
    chosen dummy vertices `ns`, in order, form a path of graph edges along the line. -/
theorem line_nodes_chain_h (s : Scene) (h : Seg) (vs : List LV) (hl : (h, vs) ∈ s.lines.hs)
    (pre mid post : List (List BP)) (hg : groupsOf (toBPs (dirsX s.fixDirs) vs) = pre ++ mid ++ post)
    (ns : List BP) (hp : Picks mid ns) :
    ∀ e ∈ pairs ns, ((⟨e.1.t, h.p, e.1.k⟩, ⟨e.2.t, h.p, e.2.k⟩) : GV × GV) ∈ s.graph := by
  intro e he
  unfold Scene.graph Lines.edges
  rw [lines_conns]
  apply List.mem_append_left
  refine List.mem_flatMap.mpr ⟨(h, vs), hl, ?_⟩
  refine List.mem_map.mpr ⟨e, ?_, rfl⟩
  unfold lineEdges
  rw [hg]
  exact groupEdges_node_chain [] pre mid post ns hp e he

theorem line_nodes_chain_v (s : Scene) (v : Seg) (vs : List LV) (hl : (v, vs) ∈ s.lines.vs)
    (pre mid post : List (List BP)) (hg : groupsOf (toBPs (dirsY s.fixDirs) vs) = pre ++ mid ++ post)
    (ns : List BP) (hp : Picks mid ns) :
    ∀ e ∈ pairs ns, ((⟨v.p, e.1.t, e.1.k⟩, ⟨v.p, e.2.t, e.2.k⟩) : GV × GV) ∈ s.graph := by
  intro e he
  unfold Scene.graph Lines.edges
  rw [lines_conns]
  apply List.mem_append_right
  refine List.mem_flatMap.mpr ⟨(v, vs), hl, ?_⟩
  refine List.mem_map.mpr ⟨e, ?_, rfl⟩
  unfold lineEdges
  rw [hg]
  exact groupEdges_node_chain [] pre mid post ns hp e he

/-- a live connector end point that is not inside a shape and has room to the left or to the right (in a
    direction its flags allow) is accompanied, on its horizontal line, by a dummy vertex at the same point —
    the vertex through which other routes may pass ("paths won't route through connector end point
    vertices") and from which its line continues -/
theorem endpoint_dummy_on_hline (s : Scene) (i : Nat) (c : Conn) (hc : s.fixDirs[i]? = some c) (hl : c.d.none = false)
    (hfree : insideShape (activeAt s.rects c.y) c.x = false)
    (hroom : (c.d.left = true ∧ firstAbove s.lo (activeAt s.rects c.y) c.x c.y < c.x) ∨
             (c.d.right = true ∧ c.x < firstBelow s.hi (activeAt s.rects c.y) c.x c.y)) :
    ∃ p ∈ s.lines.hs, p.1.p = c.y ∧ (⟨c.x, .conn i⟩ : LV) ∈ p.2 ∧ (⟨c.x, .node⟩ : LV) ∈ p.2 := by
  have hraw : connSegH s.lo s.hi s.rects i c ∈ rawH s.lo s.hi s.rects s.fixDirs := by
    unfold rawH
    apply List.mem_append_right
    refine List.mem_map.mpr ⟨(c, i), ?_, rfl⟩
    refine List.mem_filter.mpr ⟨List.mem_zipIdx_iff_getElem?.mpr hc, by simp [hl]⟩
  obtain ⟨m, hm, hp, _, _, hvs⟩ := mergeAll_covers _ _ hraw
  refine ⟨_, mem_lines_hs s m hm, hp, ?_, ?_⟩
  · apply mem_hVerts_of_mem; apply hvs; simp [connSegH]
  · apply mem_hVerts_of_mem; apply hvs
    simp only [connSegH, hfree, Bool.not_false, Bool.true_and]
    rcases hroom with ⟨h1, h2⟩ | ⟨h1, h2⟩
    · simp [h1, h2]
    · simp [h1, h2]

/-- **Meaning of one pass of `setLongRangeVisibilityFlags`.**  The `i`-th breakpoint of a line (in the order
    of the breakpoint set) gets the CONN bit iff a connector end point, and the EDGE bit iff a shape-corner
    vertex, is among the breakpoints strictly before it (`sc`/`se`: already seen before the list starts). -/
theorem scanMask_spec (eb cb : Nat) (sc se : Bool) (l : List (Bool × Bool)) (i : Nat) (h : i < l.length) :
    (scanMask eb cb sc se l)[i]? =
      some ((if sc || (l.take i).any (·.1) then cb else 0) + (if se || (l.take i).any (·.2) then eb else 0)) := by
  induction l generalizing sc se i with
  | nil => simp at h
  | cons a r ih =>
    obtain ⟨c, e⟩ := a
    cases i with
    | zero => simp [scanMask]
    | succ j =>
      have hj : j < r.length := by simpa using h
      simp only [scanMask, List.getElem?_cons_succ, List.take_succ_cons, List.any_cons]
      rw [ih (sc || c) (se || e) j hj]
      simp [Bool.or_assoc]

/-- **The lines of the model are the connected components** of the candidate segments: any two different
    horizontal lines (and any two different vertical lines) of the model are well formed and do not meet —
    a point of the plane lies on at most one horizontal and one vertical line.  (`SegmentListWrapper::insert`
    keeps its list pairwise non-overlapping, whatever the insertion order.) -/
theorem lines_disjoint (s : Scene) :
    Disjoint (s.lines.hs.map (·.1)) ∧ Disjoint (s.lines.vs.map (·.1)) := by
  have e1 : s.lines.hs.map (·.1) = mergeAll (rawH s.lo s.hi s.rects s.fixDirs) := by
    simp [Scene.lines, List.map_map, Function.comp_def]
  have e2 : s.lines.vs.map (·.1) = mergeAll (rawV s.lo s.hi (s.rects.map Rect.tr) (s.fixDirs.map Conn.tr)) := by
    simp [Scene.lines, List.map_map, Function.comp_def]
  rw [e1, e2]
  constructor
  · exact mergeAll_disjoint _ (fun r hr => (rawH_good _ _ _ _ (fun v hv => (rect_bounds s v hv).1) r hr).wf)
  · apply mergeAll_disjoint
    intro r hr
    refine (rawV_good _ _ _ _ ?_ r hr).wf
    intro v hv
    obtain ⟨v', hv', rfl⟩ := List.mem_map.mp hv
    exact (rect_bounds s v' hv').2

/-- **The declarative scan line is what the sweep maintains.**  Run the event loop of
    `generateStaticOrthogonalVisGraph` (`sweepLines`: positions in increasing order; pass 1 inserts the
    rectangles opening at the position, pass 2 looks at the scan line, pass 3 removes those closing there) over
    any strictly increasing list of positions that contains every rectangle's `y0` and `y1`: at every position
    `p` pass 2 sees exactly the rectangles with `y0 ≤ p ≤ y1`, i.e. `activeAt rects p` — for every list of
    rectangles with `y0 ≤ y1`, whatever the order of the events at one position.  (The horizontal sweep is the
    same statement about the transposed rectangles.) -/
theorem sweep_scanline_is_activeAt (rects : List Rect) (hwf : ∀ r ∈ rects, r.y0 ≤ r.y1) (ps : List Rat)
    (hsort : ps.Pairwise (· < ·)) (hcov : ∀ r ∈ rects, r.y0 ∈ ps ∧ r.y1 ∈ ps) :
    ∀ x ∈ sweepLines rects ps [],
      (∀ i, i ∈ x.2 ↔ ∃ r, rects[i]? = some r ∧ r.y0 ≤ x.1 ∧ x.1 ≤ r.y1) ∧
      (∀ r, r ∈ activeAt rects x.1 ↔ ∃ i ∈ x.2, rects[i]? = some r) := by
  intro x hx
  have hinv : SweepInv rects ps [] := by
    intro i
    constructor
    · intro h; simp at h
    · rintro ⟨r, hr, h0, _⟩
      exact absurd (h0 _ (hcov r (List.mem_of_getElem? hr)).1) (by grind)
  have h1 := sweepLines_spec rects hwf ps [] hsort
    (fun r hr => ⟨Or.inl (hcov r hr).1, Or.inl (hcov r hr).2⟩) hinv x hx
  refine ⟨h1, ?_⟩
  intro r
  unfold activeAt
  simp only [List.mem_filter, decide_eq_true_eq]
  constructor
  · rintro ⟨hr, h0, h1'⟩
    obtain ⟨i, hi⟩ := List.getElem?_of_mem hr
    exact ⟨i, (h1 i).mpr ⟨r, hi, h0, h1'⟩, hi⟩
  · rintro ⟨i, hi, hget⟩
    obtain ⟨r', hr', h0, h1'⟩ := (h1 i).mp hi
    rw [hget] at hr'
    injection hr' with e
    subst e
    exact ⟨List.mem_of_getElem? hget, h0, h1'⟩

/-- **Hanan-type statement, collinear case (`hanan_path_exists_partial`).**  Two live connector end points
    `A` (number `i`) and `B` (number `j`) on one horizontal line `y`, `A` left of `B`, `A` may be left to the
    Right and `B` to the Left (effective flags), boxes of positive width, no box crossed by the open segment
    between them (every box that the line `y` crosses strictly lies left of `A` or right of `B`), and no
    other live end point on the line strictly between them.  Then the model graph contains a path from `A`'s
    vertex to `B`'s vertex running entirely along the line `y` — by `graph_edge_directed` every step goes
    towards larger x, so its length is `B.x − A.x` and it has no bend: a minimum of length + penalty·bends
    over ALL orthogonal paths.  (The vertical case is the same statement about the transposed scene.)
    Missing for the full Hanan statement: paths with bends (an exchange argument pushing an optimal path onto
    the lines of the model). -/
theorem hanan_path_exists_partial (s : Scene) (i j : Nat) (A B : Conn)
    (hA : s.fixDirs[i]? = some A) (hB : s.fixDirs[j]? = some B)
    (hy : A.y = B.y) (hx : A.x < B.x) (hAr : A.d.right = true) (hBl : B.d.left = true)
    (hwf : ∀ R ∈ s.rects, R.x0 < R.x1)
    (hclear : ∀ R ∈ s.rects, R.y0 < A.y → A.y < R.y1 → R.x1 ≤ A.x ∨ B.x ≤ R.x0)
    (hothers : ∀ (k : Nat) (c : Conn), s.fixDirs[k]? = some c → c.y = A.y → A.x < c.x → c.x < B.x → False) :
    HPath s.graph A.y ⟨A.x, A.y, .conn i⟩ ⟨B.x, A.y, .conn j⟩ := by
  have hlA : A.d.none = false := by simp [Dirs.none, hAr]
  have hlB : B.d.none = false := by simp [Dirs.none, hBl]
  -- A's line reaches B
  obtain ⟨pA, hpA, yA, vA, bA, _, _, rA⟩ := endpoint_on_hline s i A hA hlA
  obtain ⟨pB, hpB, yB, vB, bB, fB, _, _⟩ := endpoint_on_hline s j B hB hlB
  have hBxhi : B.x ≤ s.hi := by
    obtain ⟨c', hc', e1, _⟩ := fixDirs_pos s B (List.mem_of_getElem? hB)
    have : c'.x ∈ s.coords := by
      unfold Scene.coords
      exact List.mem_append_right _ (List.mem_flatMap.mpr ⟨c', hc', by simp⟩)
    rw [← e1]; exact (lo_hi_bound s _ this).2
  have hreach : B.x ≤ firstBelow s.hi (activeAt s.rects A.y) A.x A.y := by
    rcases (firstBelow_is_first_blocking_side s.hi s.rects A.x A.y).2 with h | ⟨R, hR, h0, h1, hge, h⟩
    · rw [h]; exact hBxhi
    · rw [h]
      rcases hclear R hR h0 h1 with hc | hc
      · have := hwf R hR; linarith
      · exact hc
  have hfA : B.x ≤ pA.1.f := le_trans hreach (rA hAr)
  -- both lines contain the point (B.x, y): they are the same line
  have hmeet : Meets pA.1 pB.1 := ⟨by rw [yA, yB, hy], B.x, by linarith, hfA, bB, fB⟩
  have hsame : pA.1 = pB.1 := by
    by_contra hne
    have hd := (lines_disjoint s).1
    exact pairwise_ne (fun a b hab hba => hab (meets_symm hba)) hd.2
      (List.mem_map.mpr ⟨pA, hpA, rfl⟩) (List.mem_map.mpr ⟨pB, hpB, rfl⟩) hne hmeet
  have hpair : pA = pB := by
    obtain ⟨_, eA⟩ := lines_hs_form s pA hpA
    obtain ⟨_, eB⟩ := lines_hs_form s pB hpB
    apply Prod.ext hsame
    rw [eA, eB, hsame]
  rw [← hpair] at vB
  -- the two breakpoints and what lies between them
  have ha := mem_toBPs_of_mem (dirs := dirsX s.fixDirs) vA
  have hb := mem_toBPs_of_mem (dirs := dirsX s.fixDirs) vB
  have fa : (dirsX s.fixDirs (.conn i)).2 = true := by simp [dirsX, hA, hAr]
  have fb : (dirsX s.fixDirs (.conn j)).1 = true := by simp [dirsX, hB, hBl]
  have hmid : ∀ c ∈ toBPs (dirsX s.fixDirs) pA.2, A.x < c.t → c.t < B.x → c.k.isConn = false := by
    intro c hc h1 h2
    obtain ⟨q, hq, et, ek⟩ := mem_toBPs hc
    cases hk : c.k with
    | node => rfl
    | conn k =>
      exfalso
      have hq' : (⟨c.t, .conn k⟩ : LV) ∈ pA.2 := by
        have : q = ⟨c.t, .conn k⟩ := by
          rcases q with ⟨qt, qk⟩
          simp only at et ek
          rw [et, ← ek, hk]
        rw [← this]; exact hq
      obtain ⟨c', hc', ex, ey⟩ := conn_vertex_provenance s pA hpA c.t k hq'
      exact hothers k c' hc' (by rw [ey, yA]) (by rw [ex]; exact h1) (by rw [ex]; exact h2)
  have hr := line_reach (toBPs_sorted (dirsX s.fixDirs) pA.2) _ _ _ ha hb hx
    (fun _ => fa) (fun _ => fb) hmid (Nat.le_refl _)
  have := HPath_of_reach s pA.1 pA.2 hpA hr
  simpa [yA] using this

/-- **A path along a line, general form.**  On every line of the model (horizontal; `line_path_v`
    vertical): from a breakpoint `a` one reaches every breakpoint `b` at a higher position by graph edges
    along that line, provided all breakpoints strictly between them are dummy vertices (routes do not pass
    through connector end point vertices) and, if `a` / `b` are connector end points, their flags allow
    leaving `a` towards higher and `b` towards lower coordinates. -/
theorem line_path_h (s : Scene) (h : Seg) (vs : List LV) (hl : (h, vs) ∈ s.lines.hs) (a b : BP)
    (ha : a ∈ toBPs (dirsX s.fixDirs) vs) (hb : b ∈ toBPs (dirsX s.fixDirs) vs) (hab : a.t < b.t)
    (h1 : a.k.isConn = true → a.up = true) (h2 : b.k.isConn = true → b.dn = true)
    (hmid : ∀ c ∈ toBPs (dirsX s.fixDirs) vs, a.t < c.t → c.t < b.t → c.k.isConn = false) :
    HPath s.graph h.p ⟨a.t, h.p, a.k⟩ ⟨b.t, h.p, b.k⟩ :=
  HPath_of_reach s h vs hl (line_reach (toBPs_sorted _ vs) _ a b ha hb hab h1 h2 hmid (Nat.le_refl _))

theorem line_path_v (s : Scene) (v : Seg) (vs : List LV) (hl : (v, vs) ∈ s.lines.vs) (a b : BP)
    (ha : a ∈ toBPs (dirsY s.fixDirs) vs) (hb : b ∈ toBPs (dirsY s.fixDirs) vs) (hab : a.t < b.t)
    (h1 : a.k.isConn = true → a.up = true) (h2 : b.k.isConn = true → b.dn = true)
    (hmid : ∀ c ∈ toBPs (dirsY s.fixDirs) vs, a.t < c.t → c.t < b.t → c.k.isConn = false) :
    VPath s.graph v.p ⟨v.p, a.t, a.k⟩ ⟨v.p, b.t, b.k⟩ :=
  VPath_of_reach s v vs hl (line_reach (toBPs_sorted _ vs) _ a b ha hb hab h1 h2 hmid (Nat.le_refl _))

/-- **Hanan-type statement, one bend (`hanan_path_exists_L_partial`).**  End points `A` (number `i`) and `B`
    (number `j`), `B` to the right of and below `A` (larger x, larger y); `A` may be left to the Right, `B`
    upwards; boxes of positive size; the two legs of the L over the corner `(B.x, A.y)` cross no box (every
    box the row `A.y` crosses strictly lies left of `A` or right of the corner, every box the column `B.x`
    crosses strictly lies above the corner or below `B`) and carry no other live end point (corner
    included).  Then the model graph contains the L-shaped path: along the row `A.y` from `A`'s vertex to a
    DUMMY vertex at the corner, and along the column `B.x` from that vertex to `B`'s vertex.  Every step goes
    towards larger x resp. y (`graph_edge_directed`), so its length is the Manhattan distance and it has one
    bend — the minimum of length + penalty·bends over all orthogonal paths between two points that are not
    on a common row or column.  (The other three orientations and the corner `(A.x, B.y)` are mirror images;
    missing for the full Hanan statement: two and more bends.) -/
theorem hanan_path_exists_L_partial (s : Scene) (i j : Nat) (A B : Conn)
    (hA : s.fixDirs[i]? = some A) (hB : s.fixDirs[j]? = some B)
    (hx : A.x < B.x) (hy : A.y < B.y) (hAr : A.d.right = true) (hBu : B.d.up = true)
    (hwf : ∀ R ∈ s.rects, R.x0 < R.x1 ∧ R.y0 < R.y1)
    (hrow : ∀ R ∈ s.rects, R.y0 < A.y → A.y < R.y1 → R.x1 ≤ A.x ∨ B.x ≤ R.x0)
    (hcol : ∀ R ∈ s.rects, R.x0 < B.x → B.x < R.x1 → R.y1 ≤ A.y ∨ B.y ≤ R.y0)
    (hothersRow : ∀ (k : Nat) (c : Conn), s.fixDirs[k]? = some c → c.y = A.y → A.x < c.x → c.x ≤ B.x → False)
    (hothersCol : ∀ (k : Nat) (c : Conn), s.fixDirs[k]? = some c → c.x = B.x → A.y ≤ c.y → c.y < B.y → False) :
    HPath s.graph A.y ⟨A.x, A.y, .conn i⟩ ⟨B.x, A.y, .node⟩ ∧
    VPath s.graph B.x ⟨B.x, A.y, .node⟩ ⟨B.x, B.y, .conn j⟩ := by
  have hlA : A.d.none = false := by simp [Dirs.none, hAr]
  -- the row of A reaches the corner
  obtain ⟨pA, hpA, yA, vA, bA, _, _, rA⟩ := endpoint_on_hline s i A hA hlA
  have hcoord : ∀ c ∈ s.fixDirs, s.lo ≤ c.y ∧ c.x ≤ s.hi := by
    intro c hc
    obtain ⟨c', hc', e1, e2⟩ := fixDirs_pos s c hc
    have hm : ∀ z ∈ [c'.x, c'.y], z ∈ s.coords := by
      intro z hz
      unfold Scene.coords
      exact List.mem_append_right _ (List.mem_flatMap.mpr ⟨c', hc', hz⟩)
    rw [← e1, ← e2]
    exact ⟨(lo_hi_bound s _ (hm _ (by simp))).1, (lo_hi_bound s _ (hm _ (by simp))).2⟩
  have hreach : B.x ≤ firstBelow s.hi (activeAt s.rects A.y) A.x A.y := by
    rcases (firstBelow_is_first_blocking_side s.hi s.rects A.x A.y).2 with h | ⟨R, hR, h0, h1, hge, h⟩
    · rw [h]; exact (hcoord B (List.mem_of_getElem? hB)).2
    · rw [h]
      rcases hrow R hR h0 h1 with hc | hc
      · have := (hwf R hR).1; linarith
      · exact hc
  have hfA : B.x ≤ pA.1.f := le_trans hreach (rA hAr)
  -- the column of B reaches the corner
  have hroomB : firstAbove s.lo (activeAt (s.rects.map Rect.tr) B.x) B.y B.x ≤ A.y := by
    rcases (firstAbove_is_first_blocking_side s.lo (s.rects.map Rect.tr) B.y B.x).2 with h | ⟨R', hR', h0, h1, hle, h⟩
    · rw [h]; exact (hcoord A (List.mem_of_getElem? hA)).1
    · rw [h]
      obtain ⟨R, hR, rfl⟩ := List.mem_map.mp hR'
      simp only [Rect.tr] at h0 h1 hle ⊢
      rcases hcol R hR h0 h1 with hc | hc
      · exact hc
      · have := (hwf R hR).2; linarith
  obtain ⟨pv, hpv, xv, vBv, bv, fv⟩ := (endpoint_on_vline s j B hB).1 hBu (lt_of_le_of_lt hroomB hy)
  have hbv : pv.1.b ≤ A.y := le_trans bv hroomB
  -- the corner vertex is shared and is a dummy vertex
  have hcr : crosses pA.1 pv.1 = true := by
    unfold crosses
    simp only [Bool.and_eq_true, decide_eq_true_eq]
    rw [yA, xv]
    exact ⟨⟨⟨hbv, le_trans (le_of_lt hy) fv⟩, by linarith⟩, hfA⟩
  obtain ⟨k, hk1, hk2⟩ := crossing_shared s pA pv hpA hpv hcr
  rw [xv] at hk1
  rw [yA] at hk2
  have hknode : k = .node := by
    cases k with
    | node => rfl
    | conn k' =>
      exfalso
      obtain ⟨c', hc', ex, ey⟩ := conn_vertex_provenance s pA hpA B.x k' hk1
      exact hothersRow k' c' hc' (by rw [ey, yA]) (by rw [ex]; exact hx) (by rw [ex])
  subst hknode
  constructor
  · -- along the row
    have ha := mem_toBPs_of_mem (dirs := dirsX s.fixDirs) vA
    have hb := mem_toBPs_of_mem (dirs := dirsX s.fixDirs) hk1
    have fa : (dirsX s.fixDirs (.conn i)).2 = true := by simp [dirsX, hA, hAr]
    have hmid : ∀ c ∈ toBPs (dirsX s.fixDirs) pA.2, A.x < c.t → c.t < B.x → c.k.isConn = false := by
      intro c hc h1 h2
      obtain ⟨q, hq, et, ek⟩ := mem_toBPs hc
      cases hk : c.k with
      | node => rfl
      | conn k' =>
        exfalso
        have hq' : (⟨c.t, .conn k'⟩ : LV) ∈ pA.2 := by
          have : q = ⟨c.t, .conn k'⟩ := by
            rcases q with ⟨qt, qk⟩
            simp only at et ek
            rw [et, ← ek, hk]
          rw [← this]; exact hq
        obtain ⟨c', hc', ex, ey⟩ := conn_vertex_provenance s pA hpA c.t k' hq'
        exact hothersRow k' c' hc' (by rw [ey, yA]) (by rw [ex]; exact h1) (by rw [ex]; exact le_of_lt h2)
    have hr := line_reach (toBPs_sorted (dirsX s.fixDirs) pA.2) _ _ _ ha hb hx
      (fun _ => fa) (fun h => by simp [VK.isConn] at h) hmid (Nat.le_refl _)
    have := HPath_of_reach s pA.1 pA.2 hpA hr
    simpa [yA] using this
  · -- along the column
    have ha := mem_toBPs_of_mem (dirs := dirsY s.fixDirs) hk2
    have hb := mem_toBPs_of_mem (dirs := dirsY s.fixDirs) vBv
    have fb : (dirsY s.fixDirs (.conn j)).1 = true := by simp [dirsY, hB, hBu]
    have hmid : ∀ c ∈ toBPs (dirsY s.fixDirs) pv.2, A.y < c.t → c.t < B.y → c.k.isConn = false := by
      intro c hc h1 h2
      obtain ⟨q, hq, et, ek⟩ := mem_toBPs hc
      cases hk : c.k with
      | node => rfl
      | conn k' =>
        exfalso
        have hq' : (⟨c.t, .conn k'⟩ : LV) ∈ pv.2 := by
          have : q = ⟨c.t, .conn k'⟩ := by
            rcases q with ⟨qt, qk⟩
            simp only at et ek
            rw [et, ← ek, hk]
          rw [← this]; exact hq
        obtain ⟨c', hc', ex, ey⟩ := conn_vertex_provenance_v s pv hpv c.t k' hq'
        exact hothersCol k' c' hc' (by rw [ex, xv]) (by rw [ey]; exact le_of_lt h1) (by rw [ey]; exact h2)
    have hr := line_reach (toBPs_sorted (dirsY s.fixDirs) pv.2) _ _ _ ha hb hy
      (fun h => by simp [VK.isConn] at h) (fun _ => fb) hmid (Nat.le_refl _)
    have := VPath_of_reach s pv.1 pv.2 hpv hr
    simpa [xv] using this

/-- one leg: between two breakpoints of a horizontal line, in either order -/
theorem leg_h (s : Scene) (p : Seg × List LV) (hl : p ∈ s.lines.hs) (a b : BP)
    (ha : a ∈ toBPs (dirsX s.fixDirs) p.2) (hb : b ∈ toBPs (dirsX s.fixDirs) p.2) (hne : a.t ≠ b.t)
    (fa : a.k.isConn = true → (if a.t < b.t then a.up else a.dn) = true)
    (fb : b.k.isConn = true → (if a.t < b.t then b.dn else b.up) = true)
    (hmid : ∀ c ∈ toBPs (dirsX s.fixDirs) p.2, (a.t < c.t ∧ c.t < b.t) ∨ (b.t < c.t ∧ c.t < a.t) → c.k.isConn = false) :
    UPath s.graph ⟨a.t, p.1.p, a.k⟩ ⟨b.t, p.1.p, b.k⟩ := by
  by_cases hlt : a.t < b.t
  · simp only [hlt, if_true] at fa fb
    exact UPath.of_HPath (line_path_h s p.1 p.2 hl a b ha hb hlt fa fb (fun c hc h1 h2 => hmid c hc (Or.inl ⟨h1, h2⟩)))
  · have hgt : b.t < a.t := by grind
    simp only [hlt, if_false] at fa fb
    exact (UPath.of_HPath (line_path_h s p.1 p.2 hl b a hb ha hgt fb fa
      (fun c hc h1 h2 => hmid c hc (Or.inr ⟨h1, h2⟩)))).symm

theorem leg_v (s : Scene) (p : Seg × List LV) (hl : p ∈ s.lines.vs) (a b : BP)
    (ha : a ∈ toBPs (dirsY s.fixDirs) p.2) (hb : b ∈ toBPs (dirsY s.fixDirs) p.2) (hne : a.t ≠ b.t)
    (fa : a.k.isConn = true → (if a.t < b.t then a.up else a.dn) = true)
    (fb : b.k.isConn = true → (if a.t < b.t then b.dn else b.up) = true)
    (hmid : ∀ c ∈ toBPs (dirsY s.fixDirs) p.2, (a.t < c.t ∧ c.t < b.t) ∨ (b.t < c.t ∧ c.t < a.t) → c.k.isConn = false) :
    UPath s.graph ⟨p.1.p, a.t, a.k⟩ ⟨p.1.p, b.t, b.k⟩ := by
  by_cases hlt : a.t < b.t
  · simp only [hlt, if_true] at fa fb
    exact UPath.of_VPath (line_path_v s p.1 p.2 hl a b ha hb hlt fa fb (fun c hc h1 h2 => hmid c hc (Or.inl ⟨h1, h2⟩)))
  · have hgt : b.t < a.t := by grind
    simp only [hlt, if_false] at fa fb
    exact (UPath.of_VPath (line_path_v s p.1 p.2 hl b a hb ha hgt fb fa
      (fun c hc h1 h2 => hmid c hc (Or.inr ⟨h1, h2⟩)))).symm

/-- **One bend, general form.**  A horizontal line `ph` and a vertical line `pv` of the model that cross; `a`
    a breakpoint of `ph`, `b` a breakpoint of `pv`, both away from the crossing point; the vertex the two
    lines share at the crossing is a dummy vertex; on both legs only dummy vertices lie strictly between the
    end of the leg and the crossing; a connector end point at the end of a leg may be left towards the
    crossing.  Then the graph contains the route `a` — crossing — `b` (edges walked in either direction):
    every orthogonal two-leg polyline along lines of the model, bending where they cross, is a route in the
    graph, in all four orientations.  Together with `line_path_*` (no bend) this reduces the Hanan statement
    to plane geometry: that some optimal path consists of such legs. -/
theorem bend_path (s : Scene) (ph pv : Seg × List LV) (hh : ph ∈ s.lines.hs) (hv : pv ∈ s.lines.vs)
    (hc : crosses ph.1 pv.1 = true)
    (hnode : ∀ k, (⟨pv.1.p, .conn k⟩ : LV) ∉ ph.2)
    (a b : BP) (ha : a ∈ toBPs (dirsX s.fixDirs) ph.2) (hb : b ∈ toBPs (dirsY s.fixDirs) pv.2)
    (hane : a.t ≠ pv.1.p) (hbne : b.t ≠ ph.1.p)
    (fa : a.k.isConn = true → (if a.t < pv.1.p then a.up else a.dn) = true)
    (fb : b.k.isConn = true → (if ph.1.p < b.t then b.dn else b.up) = true)
    (hmidh : ∀ c ∈ toBPs (dirsX s.fixDirs) ph.2,
      (a.t < c.t ∧ c.t < pv.1.p) ∨ (pv.1.p < c.t ∧ c.t < a.t) → c.k.isConn = false)
    (hmidv : ∀ c ∈ toBPs (dirsY s.fixDirs) pv.2,
      (ph.1.p < c.t ∧ c.t < b.t) ∨ (b.t < c.t ∧ c.t < ph.1.p) → c.k.isConn = false) :
    UPath s.graph ⟨a.t, ph.1.p, a.k⟩ ⟨pv.1.p, b.t, b.k⟩ := by
  obtain ⟨k, hk1, hk2⟩ := crossing_shared s ph pv hh hv hc
  have hkn : k = .node := by
    cases k with
    | node => rfl
    | conn k' => exact absurd hk1 (hnode k')
  subst hkn
  have hcx := mem_toBPs_of_mem (dirs := dirsX s.fixDirs) hk1
  have hcy := mem_toBPs_of_mem (dirs := dirsY s.fixDirs) hk2
  have l1 := leg_h s ph hh a _ ha hcx hane fa (fun h => by simp [VK.isConn] at h) hmidh
  have l2 := leg_v s pv hv _ b hcy hb (fun e => hbne e.symm) (fun h => by simp [VK.isConn] at h) fb hmidv
  exact l1.trans l2

/-- strictly between, either order -/
def Btw (a b t : Rat) : Prop := (a < t ∧ t < b) ∨ (b < t ∧ t < a)

/-- **Hanan-type statement, one bend, all orientations (`hanan_one_bend_partial`).**  End points `A`
    (number `i`) and `B` (number `j`) on different rows and different columns; corner `(B.x, A.y)` (for the
    other corner exchange `A` and `B`); `A` may be left horizontally towards the corner and `B` vertically
    towards it (effective flags); boxes of positive size; the row `A.y` between `A` and the corner and the
    column `B.x` between the corner and `B` cross no box and carry no other live end point (corner included).
    Then the model graph contains the route `A` — corner — `B` (`UPath`: edges walked in either direction),
    which has Manhattan length and one bend: a minimum of length + penalty·bends over all orthogonal paths
    between two points in general position. -/
theorem hanan_one_bend_partial (s : Scene) (i j : Nat) (A B : Conn)
    (hA : s.fixDirs[i]? = some A) (hB : s.fixDirs[j]? = some B)
    (hxne : A.x ≠ B.x) (hyne : A.y ≠ B.y)
    (hAf : (A.x < B.x → A.d.right = true) ∧ (B.x < A.x → A.d.left = true))
    (hBf : (A.y < B.y → B.d.up = true) ∧ (B.y < A.y → B.d.down = true))
    (hwf : ∀ R ∈ s.rects, R.x0 < R.x1 ∧ R.y0 < R.y1)
    (hrow : ∀ R ∈ s.rects, R.y0 < A.y → A.y < R.y1 → (R.x1 ≤ A.x ∧ R.x1 ≤ B.x) ∨ (A.x ≤ R.x0 ∧ B.x ≤ R.x0))
    (hcol : ∀ R ∈ s.rects, R.x0 < B.x → B.x < R.x1 → (R.y1 ≤ A.y ∧ R.y1 ≤ B.y) ∨ (A.y ≤ R.y0 ∧ B.y ≤ R.y0))
    (hothersRow : ∀ (k : Nat) (c : Conn), s.fixDirs[k]? = some c → c.y = A.y → Btw A.x B.x c.x ∨ c.x = B.x → False)
    (hothersCol : ∀ (k : Nat) (c : Conn), s.fixDirs[k]? = some c → c.x = B.x → Btw A.y B.y c.y ∨ c.y = A.y → False) :
    UPath s.graph ⟨A.x, A.y, .conn i⟩ ⟨B.x, B.y, .conn j⟩ := by
  have hlA : A.d.none = false := by
    rcases lt_or_gt_of_ne hxne with h | h
    · simp [Dirs.none, hAf.1 h]
    · simp [Dirs.none, hAf.2 h]
  have hcoord : ∀ c ∈ s.fixDirs, (s.lo ≤ c.x ∧ c.x ≤ s.hi) ∧ (s.lo ≤ c.y ∧ c.y ≤ s.hi) := by
    intro c hc
    obtain ⟨c', hc', e1, e2⟩ := fixDirs_pos s c hc
    have hm : ∀ z ∈ [c'.x, c'.y], z ∈ s.coords := by
      intro z hz
      unfold Scene.coords
      exact List.mem_append_right _ (List.mem_flatMap.mpr ⟨c', hc', hz⟩)
    rw [← e1, ← e2]
    exact ⟨lo_hi_bound s _ (hm _ (by simp)), lo_hi_bound s _ (hm _ (by simp))⟩
  have hAm := List.mem_of_getElem? hA
  have hBm := List.mem_of_getElem? hB
  -- the row of A contains the corner
  obtain ⟨pA, hpA, yA, vA, bA, fA, lA, rA⟩ := endpoint_on_hline s i A hA hlA
  have hrowreach : pA.1.b ≤ B.x ∧ B.x ≤ pA.1.f := by
    rcases lt_or_gt_of_ne hxne with h | h
    · refine ⟨by linarith, le_trans ?_ (rA (hAf.1 h))⟩
      rcases (firstBelow_is_first_blocking_side s.hi s.rects A.x A.y).2 with e | ⟨R, hR, h0, h1, hge, e⟩
      · rw [e]; exact (hcoord B hBm).1.2
      · rw [e]
        rcases hrow R hR h0 h1 with hc | hc
        · have := (hwf R hR).1; linarith
        · exact hc.2
    · refine ⟨le_trans (lA (hAf.2 h)) ?_, by linarith⟩
      rcases (firstAbove_is_first_blocking_side s.lo s.rects A.x A.y).2 with e | ⟨R, hR, h0, h1, hle, e⟩
      · rw [e]; exact (hcoord B hBm).1.1
      · rw [e]
        rcases hrow R hR h0 h1 with hc | hc
        · exact hc.2
        · have := (hwf R hR).1; linarith
  -- the column of B contains the corner
  have hcolline : ∃ pv ∈ s.lines.vs, pv.1.p = B.x ∧ (⟨B.y, .conn j⟩ : LV) ∈ pv.2 ∧ pv.1.b ≤ A.y ∧ A.y ≤ pv.1.f := by
    rcases lt_or_gt_of_ne hyne with h | h
    · have hroom : firstAbove s.lo (activeAt (s.rects.map Rect.tr) B.x) B.y B.x ≤ A.y := by
        rcases (firstAbove_is_first_blocking_side s.lo (s.rects.map Rect.tr) B.y B.x).2 with e | ⟨R', hR', h0, h1, hle, e⟩
        · rw [e]; exact (hcoord A hAm).2.1
        · rw [e]
          obtain ⟨R, hR, rfl⟩ := List.mem_map.mp hR'
          simp only [Rect.tr] at h0 h1 hle ⊢
          rcases hcol R hR h0 h1 with hc | hc
          · exact hc.1
          · have := (hwf R hR).2; linarith
      obtain ⟨pv, hpv, xv, vB, bv, fv⟩ := (endpoint_on_vline s j B hB).1 (hBf.1 h) (lt_of_le_of_lt hroom h)
      exact ⟨pv, hpv, xv, vB, le_trans bv hroom, le_trans (le_of_lt h) fv⟩
    · have hroom : A.y ≤ firstBelow s.hi (activeAt (s.rects.map Rect.tr) B.x) B.y B.x := by
        rcases (firstBelow_is_first_blocking_side s.hi (s.rects.map Rect.tr) B.y B.x).2 with e | ⟨R', hR', h0, h1, hge, e⟩
        · rw [e]; exact (hcoord A hAm).2.2
        · rw [e]
          obtain ⟨R, hR, rfl⟩ := List.mem_map.mp hR'
          simp only [Rect.tr] at h0 h1 hge ⊢
          rcases hcol R hR h0 h1 with hc | hc
          · have := (hwf R hR).2; linarith
          · exact hc.1
      obtain ⟨pv, hpv, xv, vB, bv, fv⟩ := (endpoint_on_vline s j B hB).2 (hBf.2 h) (lt_of_lt_of_le h hroom)
      exact ⟨pv, hpv, xv, vB, le_trans bv (le_of_lt h), le_trans hroom fv⟩
  obtain ⟨pv, hpv, xv, vB, bv, fv⟩ := hcolline
  have hcr : crosses pA.1 pv.1 = true := by
    unfold crosses
    simp only [Bool.and_eq_true, decide_eq_true_eq]
    rw [yA, xv]
    exact ⟨⟨⟨bv, fv⟩, hrowreach.1⟩, hrowreach.2⟩
  -- no end point vertex at the corner, none strictly inside the legs
  have hnode : ∀ k, (⟨pv.1.p, .conn k⟩ : LV) ∉ pA.2 := by
    intro k hk
    rw [xv] at hk
    obtain ⟨c', hc', ex, ey⟩ := conn_vertex_provenance s pA hpA B.x k hk
    exact hothersRow k c' hc' (by rw [ey, yA]) (Or.inr ex)
  have ha := mem_toBPs_of_mem (dirs := dirsX s.fixDirs) vA
  have hb := mem_toBPs_of_mem (dirs := dirsY s.fixDirs) vB
  have hmidh : ∀ c ∈ toBPs (dirsX s.fixDirs) pA.2,
      (A.x < c.t ∧ c.t < pv.1.p) ∨ (pv.1.p < c.t ∧ c.t < A.x) → c.k.isConn = false := by
    intro c hc hb'
    obtain ⟨q, hq, et, ek⟩ := mem_toBPs hc
    cases hk : c.k with
    | node => rfl
    | conn k' =>
      exfalso
      have hq' : (⟨c.t, .conn k'⟩ : LV) ∈ pA.2 := by
        have : q = ⟨c.t, .conn k'⟩ := by
          rcases q with ⟨qt, qk⟩
          simp only at et ek
          rw [et, ← ek, hk]
        rw [← this]; exact hq
      obtain ⟨c', hc', ex, ey⟩ := conn_vertex_provenance s pA hpA c.t k' hq'
      rw [xv] at hb'
      exact hothersRow k' c' hc' (by rw [ey, yA]) (Or.inl (by rw [ex]; exact hb'))
  have hmidv : ∀ c ∈ toBPs (dirsY s.fixDirs) pv.2,
      (pA.1.p < c.t ∧ c.t < B.y) ∨ (B.y < c.t ∧ c.t < pA.1.p) → c.k.isConn = false := by
    intro c hc hb'
    obtain ⟨q, hq, et, ek⟩ := mem_toBPs hc
    cases hk : c.k with
    | node => rfl
    | conn k' =>
      exfalso
      have hq' : (⟨c.t, .conn k'⟩ : LV) ∈ pv.2 := by
        have : q = ⟨c.t, .conn k'⟩ := by
          rcases q with ⟨qt, qk⟩
          simp only at et ek
          rw [et, ← ek, hk]
        rw [← this]; exact hq
      obtain ⟨c', hc', ex, ey⟩ := conn_vertex_provenance_v s pv hpv c.t k' hq'
      rw [yA] at hb'
      exact hothersCol k' c' hc' (by rw [ex, xv]) (Or.inl (by rw [ey]; exact hb'))
  have fa : (VK.conn i).isConn = true → (if A.x < pv.1.p then (dirsX s.fixDirs (.conn i)).2 else (dirsX s.fixDirs (.conn i)).1) = true := by
    intro _
    rw [xv]
    rcases lt_or_gt_of_ne hxne with h | h
    · simp [h, dirsX, hA, hAf.1 h]
    · have : ¬ A.x < B.x := not_lt.mpr (le_of_lt h)
      simp [this, dirsX, hA, hAf.2 h]
  have fb : (VK.conn j).isConn = true → (if pA.1.p < B.y then (dirsY s.fixDirs (.conn j)).1 else (dirsY s.fixDirs (.conn j)).2) = true := by
    intro _
    rw [yA]
    rcases lt_or_gt_of_ne hyne with h | h
    · simp [h, dirsY, hB, hBf.1 h]
    · have : ¬ A.y < B.y := not_lt.mpr (le_of_lt h)
      simp [this, dirsY, hB, hBf.2 h]
  have := bend_path s pA pv hpA hpv hcr hnode _ _ ha hb (by simp only; rw [xv]; exact hxne)
    (by simp only; rw [yA]; exact fun e => hyne e.symm) fa fb hmidh hmidv
  simpa [yA, xv] using this

/-! ### non-vacuity: a closed scene (one routing box, one connector with a restricted source) -/

/-- box [2,4]×[2,4]; source (0,3) may only be left to the Right, target (6,3) in all directions -/
def demoScene : Scene :=
  ⟨[⟨2, 2, 4, 4⟩], [⟨0, 3, ⟨false, false, false, true⟩⟩, ⟨6, 3, ⟨true, true, true, true⟩⟩]⟩

-- the outside rule gives the source (on the first position of the horizontal sweep) Up|Down as well
#guard demoScene.fixDirs.map (·.d) == [⟨true, true, false, true⟩, ⟨true, true, true, true⟩]
-- the source's horizontal line stops at the box, it is joined to the dummy vertex there
#guard demoScene.graph.contains (⟨0, 3, .conn 0⟩, ⟨2, 3, .node⟩)
-- and, by the outside rule, to the top and bottom lines of the box
#guard demoScene.graph.contains (⟨0, 2, .node⟩, ⟨0, 3, .conn 0⟩) && demoScene.graph.contains (⟨0, 3, .conn 0⟩, ⟨0, 4, .node⟩)
-- nothing crosses the box
#guard demoScene.graph.all fun e => edgeAvoids ⟨2, 2, 4, 4⟩ e.1.x e.1.y e.2.x e.2.y
#guard !demoScene.graph.isEmpty

/-- non-vacuity of `hanan_path_exists_partial`: box [2,4]×[5,7] beside the line y = 3, end points (0,3) and
    (6,3) with all directions; the hypotheses hold and the straight path is there -/
def demoScene2 : Scene :=
  ⟨[⟨2, 5, 4, 7⟩], [⟨0, 3, ⟨true, true, true, true⟩⟩, ⟨6, 3, ⟨true, true, true, true⟩⟩]⟩

#guard demoScene2.fixDirs[0]? == some ⟨0, 3, ⟨true, true, true, true⟩⟩ &&
       demoScene2.fixDirs[1]? == some ⟨6, 3, ⟨true, true, true, true⟩⟩
#guard demoScene2.rects.all fun R => decide (R.x0 < R.x1) && (!(decide (R.y0 < 3) && decide (3 < R.y1)) || decide (R.x1 ≤ 0) || decide (6 ≤ R.x0))
#guard demoScene2.graph.contains (⟨0, 3, .conn 0⟩, ⟨2, 3, .node⟩) && demoScene2.graph.contains (⟨2, 3, .node⟩, ⟨4, 3, .node⟩) &&
       demoScene2.graph.contains (⟨4, 3, .node⟩, ⟨6, 3, .conn 1⟩)

/-- non-vacuity of `hanan_path_exists_L_partial`: box [2,4]×[5,7], `A` = (0,3), `B` = (6,9): the row y = 3 and
    the column x = 6 miss the box; the hypotheses hold and the L-shaped path over (6,3) is there -/
def demoScene3 : Scene :=
  ⟨[⟨2, 5, 4, 7⟩], [⟨0, 3, ⟨true, true, true, true⟩⟩, ⟨6, 9, ⟨true, true, true, true⟩⟩]⟩

#guard demoScene3.fixDirs[0]? == some ⟨0, 3, ⟨true, true, true, true⟩⟩ &&
       demoScene3.fixDirs[1]? == some ⟨6, 9, ⟨true, true, true, true⟩⟩
#guard demoScene3.rects.all fun R => decide (R.x0 < R.x1) && decide (R.y0 < R.y1) &&
       (!(decide (R.y0 < 3) && decide (3 < R.y1)) || decide (R.x1 ≤ 0) || decide (6 ≤ R.x0)) &&
       (!(decide (R.x0 < 6) && decide (6 < R.x1)) || decide (R.y1 ≤ 3) || decide (9 ≤ R.y0))
#guard demoScene3.graph.contains (⟨0, 3, .conn 0⟩, ⟨2, 3, .node⟩) && demoScene3.graph.contains (⟨4, 3, .node⟩, ⟨6, 3, .node⟩) &&
       demoScene3.graph.contains (⟨6, 3, .node⟩, ⟨6, 5, .node⟩) && demoScene3.graph.contains (⟨6, 7, .node⟩, ⟨6, 9, .conn 1⟩)

-- non-vacuity of `sweep_scanline_is_activeAt`: two boxes sharing a side line; the scan line at the three positions
#guard (sweepLines [⟨0, 0, 1, 2⟩, ⟨3, 2, 4, 5⟩] [0, 2, 5] []).map (·.2) == [[0], [0, 1], [1]]

-- non-vacuity of `hanan_one_bend_partial` in another orientation: `demoScene3` with the roles exchanged,
-- A = (6,9) (number 1), B = (0,3) (number 0), corner (0,9): the route B — (0,9) — A is in the graph
#guard demoScene3.graph.contains (⟨0, 3, .conn 0⟩, ⟨0, 5, .node⟩) && demoScene3.graph.contains (⟨0, 7, .node⟩, ⟨0, 9, .node⟩) &&
       demoScene3.graph.contains (⟨0, 9, .node⟩, ⟨2, 9, .node⟩) && demoScene3.graph.contains (⟨4, 9, .node⟩, ⟨6, 9, .conn 1⟩)

/-- witness for the crossing rule "horizontal line finishes on a vertical line" (case ovis-overlap 3499 of
    seed 1): boxes [3,7]×[3,5], [0,4]×[5,7], [3,6]×[4,8]; an end point at (3,5) that may not be left to the
    Left.  The row y = 5 ends at x = 3 with only the end point's vertex there; the column x = 3 has its own end
    vertex (a box corner) at (3,5).  Repaired order: that vertex is a break point of the row too, so the row's
    dummy vertices (0,5) and (3,5) are joined.  As found: the row had no dummy vertex at (3,5) and the edge
    was missing (and on the level of vertex objects the column's vertex was cut off from the row). -/
def demoSceneFinish : Scene :=
  ⟨[⟨3, 3, 7, 5⟩, ⟨0, 5, 4, 7⟩, ⟨3, 4, 6, 8⟩],
   [⟨3, 5, ⟨true, true, false, true⟩⟩, ⟨-1/2, 3, ⟨true, true, true, true⟩⟩]⟩

#guard demoSceneFinish.graph.contains (⟨0, 5, .node⟩, ⟨3, 5, .node⟩)
#guard !demoSceneFinish.graphAsFound.contains (⟨0, 5, .node⟩, ⟨3, 5, .node⟩)
-- the repair only adds edges here, and what it adds enters no box
#guard demoSceneFinish.graphAsFound.all demoSceneFinish.graph.contains
#guard demoSceneFinish.graph.all fun e => demoSceneFinish.rects.all fun R =>
  hasConnIn demoSceneFinish.conns R || edgeAvoids R e.1.x e.1.y e.2.x e.2.y

/-! ### non-vacuity (fAudit): the hypotheses of the theorems above hold JOINTLY on closed scenes, and the theorems
    are instantiated there.  `hanan_one_bend_partial` runs through `bend_path`, `leg_h/v`, `line_path_h/v`,
    `crossing_shared`, `endpoint_on_hline/vline`, `lines_disjoint`, so its instances witness those as well. -/

abbrev allD : Dirs := ⟨true, true, true, true⟩
-- non-vacuity of `hanan_path_exists_partial`
example : HPath demoScene2.graph 3 ⟨0, 3, .conn 0⟩ ⟨6, 3, .conn 1⟩ :=
  hanan_path_exists_partial demoScene2 0 1 ⟨0, 3, allD⟩ ⟨6, 3, allD⟩
    (by decide +kernel) (by decide +kernel) rfl (by decide +kernel) rfl rfl
    (by decide +kernel) (by decide +kernel)
    (by
      intro k c hk
      have e : demoScene2.fixDirs = [⟨0, 3, allD⟩, ⟨6, 3, allD⟩] := by decide +kernel
      rw [e] at hk
      rcases k with _ | _ | k <;> simp at hk <;> subst hk <;> intro _ h1 h2 <;> revert h1 h2 <;> decide +kernel)



-- non-vacuity of `hanan_path_exists_L_partial`
example : HPath demoScene3.graph 3 ⟨0, 3, .conn 0⟩ ⟨6, 3, .node⟩ ∧ VPath demoScene3.graph 6 ⟨6, 3, .node⟩ ⟨6, 9, .conn 1⟩ :=
  hanan_path_exists_L_partial demoScene3 0 1 ⟨0, 3, allD⟩ ⟨6, 9, allD⟩
    (by decide +kernel) (by decide +kernel) (by decide +kernel) (by decide +kernel) rfl rfl
    (by decide +kernel) (by decide +kernel) (by decide +kernel)
    (by
      intro k c hk
      have e : demoScene3.fixDirs = [⟨0, 3, allD⟩, ⟨6, 9, allD⟩] := by decide +kernel
      rw [e] at hk
      rcases k with _ | _ | k <;> simp at hk <;> subst hk <;> decide +kernel)
    (by
      intro k c hk
      have e : demoScene3.fixDirs = [⟨0, 3, allD⟩, ⟨6, 9, allD⟩] := by decide +kernel
      rw [e] at hk
      rcases k with _ | _ | k <;> simp at hk <;> subst hk <;> decide +kernel)

-- non-vacuity of `hanan_one_bend_partial`, two orientations
example : UPath demoScene3.graph ⟨0, 3, .conn 0⟩ ⟨6, 9, .conn 1⟩ :=
  hanan_one_bend_partial demoScene3 0 1 ⟨0, 3, allD⟩ ⟨6, 9, allD⟩
    (by decide +kernel) (by decide +kernel) (by decide +kernel) (by decide +kernel)
    ⟨fun _ => rfl, fun _ => rfl⟩ ⟨fun _ => rfl, fun _ => rfl⟩
    (by decide +kernel) (by decide +kernel) (by decide +kernel)
    (by
      intro k c hk
      have e : demoScene3.fixDirs = [⟨0, 3, allD⟩, ⟨6, 9, allD⟩] := by decide +kernel
      rw [e] at hk
      rcases k with _ | _ | k <;> simp at hk <;> subst hk <;> unfold Btw <;> decide +kernel)
    (by
      intro k c hk
      have e : demoScene3.fixDirs = [⟨0, 3, allD⟩, ⟨6, 9, allD⟩] := by decide +kernel
      rw [e] at hk
      rcases k with _ | _ | k <;> simp at hk <;> subst hk <;> unfold Btw <;> decide +kernel)

example : UPath demoScene3.graph ⟨6, 9, .conn 1⟩ ⟨0, 3, .conn 0⟩ :=
  hanan_one_bend_partial demoScene3 1 0 ⟨6, 9, allD⟩ ⟨0, 3, allD⟩
    (by decide +kernel) (by decide +kernel) (by decide +kernel) (by decide +kernel)
    ⟨fun _ => rfl, fun _ => rfl⟩ ⟨fun _ => rfl, fun _ => rfl⟩
    (by decide +kernel) (by decide +kernel) (by decide +kernel)
    (by
      intro k c hk
      have e : demoScene3.fixDirs = [⟨0, 3, allD⟩, ⟨6, 9, allD⟩] := by decide +kernel
      rw [e] at hk
      rcases k with _ | _ | k <;> simp at hk <;> subst hk <;> unfold Btw <;> decide +kernel)
    (by
      intro k c hk
      have e : demoScene3.fixDirs = [⟨0, 3, allD⟩, ⟨6, 9, allD⟩] := by decide +kernel
      rw [e] at hk
      rcases k with _ | _ | k <;> simp at hk <;> subst hk <;> unfold Btw <;> decide +kernel)
/-- two separated boxes sharing the side line y = 2 -/
def demoScene4 : Scene := ⟨[⟨0, 0, 1, 2⟩, ⟨3, 2, 4, 5⟩], []⟩

-- non-vacuity of `side_on_hline_separated` (and of `side_on_hline`, which it instantiates)
example : ∃ p ∈ demoScene4.lines.hs, p.1.p = 2 ∧ (⟨0, .node⟩ : LV) ∈ p.2 ∧ (⟨1, .node⟩ : LV) ∈ p.2 ∧
    p.1.b ≤ (findLimits demoScene4.lo demoScene4.hi (activeAt (demoScene4.rects.eraseIdx 0) 2) ⟨0, 0, 1, 2⟩ 2).minLimit ∧
    (findLimits demoScene4.lo demoScene4.hi (activeAt (demoScene4.rects.eraseIdx 0) 2) ⟨0, 0, 1, 2⟩ 2).maxLimit ≤ p.1.f :=
  side_on_hline_separated demoScene4 0 ⟨0, 0, 1, 2⟩ rfl
    (by
      intro j k a b hne hj hk
      have e : demoScene4.rects = [⟨0, 0, 1, 2⟩, ⟨3, 2, 4, 5⟩] := rfl
      rw [e] at hj hk
      rcases j with _ | _ | j <;> rcases k with _ | _ | k <;> simp at hj hk hne <;> subst hj <;> subst hk <;>
        unfold AdaptaVerif.Lemmas.OrthVis.Sep <;> decide +kernel)
    (by decide +kernel) (by decide +kernel) 2 (Or.inr rfl)
-- the right limit there is the other box's left side (3), not the sentinel
#guard (findLimits demoScene4.lo demoScene4.hi (activeAt (demoScene4.rects.eraseIdx 0) 2) ⟨0, 0, 1, 2⟩ 2).maxLimit == 3

-- non-vacuity of `line_adjacent_joined_h`: row y = 3 of `demoScene3`, the end point (0,3) and the dummy vertex (2,3)
example : ((⟨0, 3, .conn 0⟩, ⟨2, 3, .node⟩) : GV × GV) ∈ demoScene3.graph :=
  line_adjacent_joined_h demoScene3 ⟨-1, 10, 3, [⟨0, .conn 0⟩, ⟨0, .node⟩]⟩
    [⟨0, .conn 0⟩, ⟨0, .node⟩, ⟨2, .node⟩, ⟨4, .node⟩, ⟨6, .node⟩] (List.mem_of_getElem? (i := 2) (by decide +kernel))
    ⟨0, .conn 0, true, true⟩ ⟨2, .node, true, true⟩ (List.mem_of_getElem? (i := 1) (by decide +kernel)) (List.mem_of_getElem? (i := 2) (by decide +kernel)) (by decide +kernel)
    (by decide +kernel) (fun _ => rfl) (fun _ => rfl)

-- non-vacuity of `line_adjacent_joined_v`: column x = 6 of `demoScene3`, the dummy vertex (6,7) and the end point (6,9)
example : ((⟨6, 7, .node⟩, ⟨6, 9, .conn 1⟩) : GV × GV) ∈ demoScene3.graph :=
  line_adjacent_joined_v demoScene3 ⟨-1, 10, 6, []⟩
    [⟨5, .node⟩, ⟨7, .node⟩, ⟨3, .node⟩, ⟨9, .conn 1⟩, ⟨9, .node⟩] (List.mem_of_getElem? (i := 3) (by decide +kernel))
    ⟨7, .node, true, true⟩ ⟨9, .conn 1, true, true⟩ (List.mem_of_getElem? (i := 2) (by decide +kernel)) (List.mem_of_getElem? (i := 4) (by decide +kernel)) (by decide +kernel)
    (by decide +kernel) (fun _ => rfl) (fun _ => rfl)

-- non-vacuity of `line_nodes_chain_h`: the four dummy vertices of row y = 3 of `demoScene3` (three edges)
example : ∀ e ∈ pairs [(⟨0, .node, true, true⟩ : BP), ⟨2, .node, true, true⟩, ⟨4, .node, true, true⟩, ⟨6, .node, true, true⟩],
    ((⟨e.1.t, 3, e.1.k⟩, ⟨e.2.t, 3, e.2.k⟩) : GV × GV) ∈ demoScene3.graph :=
  line_nodes_chain_h demoScene3 ⟨-1, 10, 3, [⟨0, .conn 0⟩, ⟨0, .node⟩]⟩
    [⟨0, .conn 0⟩, ⟨0, .node⟩, ⟨2, .node⟩, ⟨4, .node⟩, ⟨6, .node⟩] (List.mem_of_getElem? (i := 2) (by decide +kernel))
    [] [[⟨0, .node, true, true⟩, ⟨0, .conn 0, true, true⟩], [⟨2, .node, true, true⟩], [⟨4, .node, true, true⟩],
        [⟨6, .node, true, true⟩]] [] (by decide +kernel) _
    (.cons (by simp) rfl (.cons (by simp) rfl (.cons (by simp) rfl (.cons (by simp) rfl .nil))))

-- non-vacuity of `line_nodes_chain_v`: column x = 6 of `demoScene3`, a proper middle run (groups 5, 7)
example : ∀ e ∈ pairs [(⟨5, .node, true, true⟩ : BP), ⟨7, .node, true, true⟩],
    ((⟨6, e.1.t, e.1.k⟩, ⟨6, e.2.t, e.2.k⟩) : GV × GV) ∈ demoScene3.graph :=
  line_nodes_chain_v demoScene3 ⟨-1, 10, 6, []⟩
    [⟨5, .node⟩, ⟨7, .node⟩, ⟨3, .node⟩, ⟨9, .conn 1⟩, ⟨9, .node⟩] (List.mem_of_getElem? (i := 3) (by decide +kernel))
    [[⟨3, .node, true, true⟩]] [[⟨5, .node, true, true⟩], [⟨7, .node, true, true⟩]]
    [[⟨9, .node, true, true⟩, ⟨9, .conn 1, true, true⟩]] (by decide +kernel) _
    (.cons (by simp) rfl (.cons (by simp) rfl .nil))

-- non-vacuity of `endpoint_on_hline`, `endpoint_on_vline` (premises of the first implication hold), `endpoint_dummy_on_hline`
example := endpoint_on_hline demoScene3 0 ⟨0, 3, allD⟩ (by decide +kernel) rfl
example := (endpoint_on_vline demoScene3 1 ⟨6, 9, allD⟩ (by decide +kernel)).1 rfl (by decide +kernel)
example := (endpoint_on_vline demoScene3 0 ⟨0, 3, allD⟩ (by decide +kernel)).2 rfl (by decide +kernel)
example := endpoint_dummy_on_hline demoScene3 0 ⟨0, 3, allD⟩ (by decide +kernel) rfl (by decide +kernel)
  (Or.inr ⟨rfl, by decide +kernel⟩)

-- non-vacuity of `crossing_shared`: row y = 3 and column x = 6 of `demoScene3`
example := crossing_shared demoScene3 (⟨-1, 10, 3, [⟨0, .conn 0⟩, ⟨0, .node⟩]⟩, [⟨0, .conn 0⟩, ⟨0, .node⟩, ⟨2, .node⟩, ⟨4, .node⟩, ⟨6, .node⟩])
  (⟨-1, 10, 6, []⟩, [⟨5, .node⟩, ⟨7, .node⟩, ⟨3, .node⟩, ⟨9, .conn 1⟩, ⟨9, .node⟩])
  (List.mem_of_getElem? (i := 2) (by decide +kernel)) (List.mem_of_getElem? (i := 3) (by decide +kernel)) (by decide +kernel)

-- non-vacuity of `graph_edge_clear`: no end point of `demoScene2` is inside its box (and the graph is not empty)
example := graph_edge_clear demoScene2 (by
  intro R hR h
  rw [← hasConnIn_iff] at h
  revert R; decide +kernel)
#guard !demoScene2.graph.isEmpty

end AdaptaVerif.Props.C05OrthVis
