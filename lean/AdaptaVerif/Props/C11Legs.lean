/-
C11 — the visibility-direction protocol of `ConnRef::generateCheckpointsPath`
(Model/CheckpointLegs.lean): for ALL graphs, checkpoint lists, arrival / departure masks and ALL
behaviours of the path search (any pattern of reached and skipped checkpoints)

* after the function returns no edge is disabled, no vertex is left restricted, the graph is the
  graph it was entered with (`…_restores`, `…_graph_unchanged`, `no_vertex_left_restricted`);
* hence over any history of edge creation / removal / vertex moves / searches with and without
  checkpoints the graph between two searches never contains a disabled edge (`history_never_restricted`)
  — this is what the harness reads through the public API after every transaction and at every
  progress callback inside a transaction (`visall`, `viscb`, `cpv` lines) and the driver compares;
* every loop iteration performs its search with in-range vector accesses (`every_leg_searched`,
  `indices_in_range`), and the graph a leg's search sees is exactly: arrival mask of the checkpoint
  the leg goes to on the edges of that vertex, departure mask of the last reached checkpoint on the
  remaining edges of the start vertex, everything else enabled (`search_sees_*`).
-/
import AdaptaVerif.Lemmas.CheckpointLegs
namespace AdaptaVerif.Props.C11Legs
open AdaptaVerif.Model.CheckpointLegs AdaptaVerif.Lemmas.CheckpointLegs

variable {V : Type} [DecidableEq V]

/-- `setVisibleDirections(ConnDirAll)` leaves no edge of the vertex disabled -/
theorem setVisible_all_enables (v : V) (g : Graph V) (e : Edge V)
    (he : e ∈ setVisibleDirections v connDirAll g) (hv : e.a = v ∨ e.b = v) : e.disabled = false := by
  simp only [setVisibleDirections, List.mem_map] at he
  obtain ⟨e0, _, rfl⟩ := he
  rw [setVisible_a, setVisible_b] at hv
  by_cases ha : e0.a = v
  · simp [Edge.setVisible, ha, disabledFor_all]
  · have hb : e0.b = v := hv.resolve_left ha
    simp [Edge.setVisible, ha, hb, disabledFor_all]

/-- `setVisibleDirections(dirs)`, `dirs ≠ ConnDirAll`: an edge of the vertex is disabled iff the
    other end's direction has no bit in common with `dirs`; other edges are not touched -/
theorem setVisible_spec (v : V) (dirs : Nat) (hd : dirs ≠ connDirAll) (e : Edge V) :
    (e.a = v → (Edge.setVisible v dirs e).disabled = decide (e.dirAB &&& dirs = 0)) ∧
    (e.a ≠ v → e.b = v → (Edge.setVisible v dirs e).disabled = decide (e.dirBA &&& dirs = 0)) ∧
    (e.a ≠ v → e.b ≠ v → Edge.setVisible v dirs e = e) := by
  refine ⟨fun ha => ?_, fun ha hb => ?_, fun ha hb => setVisible_frame v dirs e ha hb⟩
  · simp [Edge.setVisible, ha, disabledFor, hd]
  · simp [Edge.setVisible, ha, hb, disabledFor, hd]

/-- **Invariant.** Entered with no disabled edge, `generateCheckpointsPath` returns with no disabled edge. -/
theorem generateCheckpointsPath_restores (search : Graph V → V → V → Bool) (src dst : V) (cps : List (Cp V))
    (g : Graph V) (hg : allEnabled g = true) :
    allEnabled (generateCheckpointsPath search src dst cps g).g = true := by
  rw [(generate_inv search src dst cps g hg).graph]; exact hg

/-- … and the graph is literally the one it was entered with. -/
theorem generateCheckpointsPath_graph_unchanged (search : Graph V → V → V → Bool) (src dst : V)
    (cps : List (Cp V)) (g : Graph V) (hg : allEnabled g = true) :
    (generateCheckpointsPath search src dst cps g).g = g :=
  (generate_inv search src dst cps g hg).graph

/-- "after generateCheckpointsPath returns, no vertex is left restricted" -/
theorem no_vertex_left_restricted (search : Graph V → V → V → Bool) (src dst : V) (cps : List (Cp V))
    (g : Graph V) (hg : allEnabled g = true) :
    restrictedVertices (generateCheckpointsPath search src dst cps g).g = [] := by
  rw [generateCheckpointsPath_graph_unchanged search src dst cps g hg]
  unfold restrictedVertices
  have : g.filter (·.disabled) = [] := by
    rw [List.filter_eq_nil_iff]
    intro e he
    unfold allEnabled at hg
    rw [List.all_eq_true] at hg
    have := hg e he
    simpa using this
  rw [this]; rfl

/-- the `allEnabled` invariant is also kept from an arbitrary state at the vertices the function
    handles: without any assumption on `g`, edges that are not at `src`, `dst` or a checkpoint vertex
    keep their flag (frame property), so a restriction can never leak to another connector's vertices -/
theorem generateCheckpointsPath_skeleton (search : Graph V → V → V → Bool) (src dst : V) (cps : List (Cp V))
    (g : Graph V) : (generateCheckpointsPath search src dst cps g).g.map clear = g.map clear := by
  have : ∀ (l : List Nat) (s : LoopState V),
      (l.foldl (iteration search (legVertices src dst cps) cps) s).g.map clear = s.g.map clear := by
    intro l
    induction l with
    | nil => intro s; rfl
    | cons i l ih => intro s; rw [List.foldl_cons, ih, iteration_skeleton]
  exact this _ ⟨g, 0, []⟩

/-- **Histories.** Whatever edges are created, removed, re-directed, and whatever connectors are
    searched (with any checkpoint lists, masks, search outcomes), between two operations the graph
    has no disabled edge. -/
theorem history_never_restricted (g : Graph V) (hg : allEnabled g = true) (ops : List (Op V)) :
    allEnabled (runOps g ops) = true := by
  unfold runOps
  induction ops generalizing g with
  | nil => exact hg
  | cons op ops ih =>
    rw [List.foldl_cons]
    apply ih
    cases op with
    | addEdge a b d1 d2 => simpa [applyOp, allEnabled] using hg
    | removeEdges keep =>
      unfold allEnabled at hg ⊢
      rw [List.all_eq_true] at hg ⊢
      intro e he
      exact hg e (List.mem_filter.mp he).1
    | redirect f =>
      unfold allEnabled at hg ⊢
      rw [List.all_eq_true] at hg ⊢
      intro e he
      simp only [applyOp, List.mem_map] at he
      obtain ⟨e0, he0, rfl⟩ := he
      exact hg e0 he0
    | route search src dst cps => exact generateCheckpointsPath_restores search src dst cps g hg
    | routePlain => exact hg

/-- from the empty router -/
theorem history_from_empty (ops : List (Op V)) : allEnabled (runOps ([] : Graph V) ops) = true :=
  history_never_restricted [] rfl ops

/-- every iteration of the loop reaches its `aStar.search` (the totalised "index out of range"
    branch of the model is never taken): one search per checkpoint plus the leg to `dst` -/
theorem every_leg_searched (search : Graph V → V → V → Bool) (src dst : V) (cps : List (Cp V))
    (g : Graph V) (hg : allEnabled g = true) :
    (generateCheckpointsPath search src dst cps g).legs.length = cps.length + 1 := by
  have := (generate_inv search src dst cps g hg).count
  omega

/-- all four vector accesses of an iteration are in range:
    `checkpoints[lastSuccessfulIndex]`, `checkpoints[i]`, and where they are evaluated
    `m_checkpoints[lastSuccessfulIndex - 1]`, `m_checkpoints[i - 1]` -/
theorem indices_in_range (search : Graph V → V → V → Bool) (src dst : V) (cps : List (Cp V))
    (g : Graph V) (hg : allEnabled g = true) (r : LegRecord V)
    (hr : r ∈ (generateCheckpointsPath search src dst cps g).legs) :
    (legVertices src dst cps)[r.lastOk]? = some r.start ∧ (legVertices src dst cps)[r.index]? = some r.stop ∧
    (r.lastOk > 0 → (cps[r.lastOk - 1]?).isSome) ∧
    (r.index + 1 < (legVertices src dst cps).length → (cps[r.index - 1]?).isSome) := by
  obtain ⟨h1, h2, h3, h4, _⟩ := (generate_inv search src dst cps g hg).legs r hr
  rw [legVertices_length] at h2
  refine ⟨h3, h4, fun h => ?_, fun h => ?_⟩
  · exact isSome_getElem?_of_lt _ _ (by omega)
  · rw [legVertices_length] at h; exact isSome_getElem?_of_lt _ _ (by omega)

/-- the graph a leg's search sees is the entry graph with the two conditional restrictions applied -/
theorem search_sees (search : Graph V → V → V → Bool) (src dst : V) (cps : List (Cp V))
    (g : Graph V) (hg : allEnabled g = true) (r : LegRecord V)
    (hr : r ∈ (generateCheckpointsPath search src dst cps g).legs) :
    r.seen = g.map (legEdge (legVertices src dst cps) cps r.lastOk r.index r.start r.stop) := by
  obtain ⟨_, _, _, _, h5⟩ := (generate_inv search src dst cps g hg).legs r hr
  rw [h5, legGraph_eq_map]

/-- **Arrival restriction is exact.** On a leg towards checkpoint `c` (`c = m_checkpoints[i-1]`,
    `i ≤ n`) with `c.arr ≠ ConnDirAll`, an edge of the checkpoint's vertex is disabled during the
    search iff the other end does not lie in one of the arrival directions. -/
theorem search_sees_arrival (search : Graph V → V → V → Bool) (src dst : V) (cps : List (Cp V))
    (g : Graph V) (hg : allEnabled g = true) (r : LegRecord V)
    (hr : r ∈ (generateCheckpointsPath search src dst cps g).legs)
    (hi : r.index ≤ cps.length) (c : Cp V) (hc : cps[r.index - 1]? = some c) (harr : c.arr ≠ connDirAll)
    (e : Edge V) (he : e ∈ r.seen) :
    (e.a = r.stop → e.disabled = disabledFor c.arr e.dirAB) ∧
    (e.a ≠ r.stop → e.b = r.stop → e.disabled = disabledFor c.arr e.dirBA) := by
  rw [search_sees search src dst cps g hg r hr, List.mem_map] at he
  obtain ⟨e0, _, rfl⟩ := he
  have hlen : r.index + 1 < (legVertices src dst cps).length := by rw [legVertices_length]; omega
  unfold legEdge
  simp only [hlen, if_true, hc, Option.map_some]
  constructor
  · intro ha
    rw [edgeRestrictBy_a] at ha
    rw [edgeRestrictBy_at_a _ _ harr _ ha, edgeRestrictBy_dirAB]
  · intro ha hb
    rw [edgeRestrictBy_a] at ha
    rw [edgeRestrictBy_b] at hb
    rw [edgeRestrictBy_at_b _ _ harr _ ha hb, edgeRestrictBy_dirBA]

/-- **Everything else stays enabled** during a leg's search: a disabled edge is an edge of the
    leg's start or end vertex. -/
theorem search_sees_elsewhere_enabled (search : Graph V → V → V → Bool) (src dst : V) (cps : List (Cp V))
    (g : Graph V) (hg : allEnabled g = true) (r : LegRecord V)
    (hr : r ∈ (generateCheckpointsPath search src dst cps g).legs)
    (e : Edge V) (he : e ∈ r.seen)
    (h1 : e.a ≠ r.start) (h2 : e.b ≠ r.start) (h3 : e.a ≠ r.stop) (h4 : e.b ≠ r.stop) : e.disabled = false := by
  rw [search_sees search src dst cps g hg r hr, List.mem_map] at he
  obtain ⟨e0, he0, rfl⟩ := he
  have en : e0.disabled = false := by
    unfold allEnabled at hg; rw [List.all_eq_true] at hg; simpa using hg e0 he0
  rw [legEdge_a] at h1 h3
  rw [legEdge_b] at h2 h4
  rw [legEdge_frame _ _ _ _ _ _ e0 h1 h2 h3 h4]; exact en

/-- **Departure restriction**: on a leg that starts from a reached checkpoint `c`
    (`c = m_checkpoints[lastSuccessfulIndex-1]`) with `c.dep ≠ ConnDirAll`, an edge of the start vertex
    that is not also an edge of the leg's end vertex is disabled during the search iff the other end
    does not lie in one of the departure directions. (For the edge that joins start and end see
    `departure_mask_overridden_on_shared_edge`.) -/
theorem search_sees_departure (search : Graph V → V → V → Bool) (src dst : V) (cps : List (Cp V))
    (g : Graph V) (hg : allEnabled g = true) (r : LegRecord V)
    (hr : r ∈ (generateCheckpointsPath search src dst cps g).legs)
    (hl : r.lastOk > 0) (c : Cp V) (hc : cps[r.lastOk - 1]? = some c) (hdep : c.dep ≠ connDirAll)
    (e : Edge V) (he : e ∈ r.seen) (h3 : e.a ≠ r.stop) (h4 : e.b ≠ r.stop) :
    (e.a = r.start → e.disabled = disabledFor c.dep e.dirAB) ∧
    (e.a ≠ r.start → e.b = r.start → e.disabled = disabledFor c.dep e.dirBA) := by
  rw [search_sees search src dst cps g hg r hr, List.mem_map] at he
  obtain ⟨e0, _, rfl⟩ := he
  rw [legEdge_a] at h3 ⊢
  rw [legEdge_b] at h4 ⊢
  have hframe : ∀ m, edgeRestrictBy r.stop m (edgeRestrictBy r.start (some c.dep) e0) = edgeRestrictBy r.start (some c.dep) e0 :=
    fun m => edgeRestrictBy_frame _ _ _ (by rw [edgeRestrictBy_a]; exact h3) (by rw [edgeRestrictBy_b]; exact h4)
  have hval : legEdge (legVertices src dst cps) cps r.lastOk r.index r.start r.stop e0 = edgeRestrictBy r.start (some c.dep) e0 := by
    unfold legEdge
    simp only [hl, if_true, hc, Option.map_some]
    split
    · exact hframe _
    · rfl
  rw [hval, edgeRestrictBy_dirAB, edgeRestrictBy_dirBA]
  exact ⟨fun ha => edgeRestrictBy_at_a _ _ hdep _ ha, fun ha hb => edgeRestrictBy_at_b _ _ hdep _ ha hb⟩

/-! ### concrete instances (non-vacuity, and a property of the real code worth knowing) -/

/-- checkpoint 1 at vertex 1 may be left only upwards (mask 1), checkpoint 2 at vertex 2; the one
    edge joins them, vertex 2 lies to the Right (8) of vertex 1 -/
def exGraph : Graph Nat := [⟨1, 2, 8, 4, false⟩, ⟨1, 5, 1, 2, false⟩, ⟨0, 1, 8, 4, false⟩]

/-- the protocol really restricts: leg 2 (from checkpoint 1, departure Up only) sees the edges
    1–2 and 0–1 disabled and 1–5 (upwards) enabled; and the function returns the graph unrestricted -/
theorem example_restricts_and_restores :
    let r := generateCheckpointsPath (fun _ _ _ => true) 0 3 [⟨1, 15, 1⟩, ⟨2, 15, 15⟩] exGraph
    r.legs.map (fun l => l.seen.map (·.disabled)) = [[false, false, false], [true, false, true], [false, false, false]]
      ∧ allEnabled r.g = true ∧ r.last = 3 := by decide

/-- the same with a skipped checkpoint (no path found on leg 2): the start vertex of leg 3 is still
    checkpoint 1, restricted again by its departure mask, and restored again -/
theorem example_skipped_checkpoint :
    let r := generateCheckpointsPath (fun _ a b => !(a == 1 && b == 2)) 0 3 [⟨1, 15, 1⟩, ⟨2, 15, 15⟩] exGraph
    r.legs.map (fun l => (l.lastOk, l.index, l.start, l.stop, l.seen.map (·.disabled))) =
        [(0, 1, 0, 1, [false, false, false]), (1, 2, 1, 2, [true, false, true]), (1, 3, 1, 3, [true, false, true])]
      ∧ allEnabled r.g = true ∧ r.last = 3 := by decide

/-- **The departure mask of a checkpoint is overridden on the edge to the next checkpoint when that
    one has a restricted arrival mask**: `end->setVisibleDirections(arrival)` is called after
    `start->setVisibleDirections(departure)` and rewrites the flag of the shared edge. Here the route
    may leave checkpoint 1 only upwards, checkpoint 2 (to the right of it) may be entered from the
    left: the search of leg 2 sees the edge 1–2 enabled. (Not a clause of C11; reported.) -/
theorem departure_mask_overridden_on_shared_edge :
    let r := generateCheckpointsPath (fun _ _ _ => true) 0 3 [⟨1, 15, 1⟩, ⟨2, 4, 15⟩] exGraph
    r.legs.map (fun l => l.seen.map (·.disabled)) = [[false, false, false], [false, false, true], [false, false, false]]
      ∧ disabledFor 1 8 = true := by decide

end AdaptaVerif.Props.C11Legs
