/-
C06 — which connectors a transaction looks at again.  Property theorems about `Model/Reroute.lean`
(the reroute decision of `Router::processActions` / `rerouteAndCallbackConnectors` as coded; tied to
router.cpp by Driver/C06.lean: per transaction the model's rerouted set = `ConnRef::needsRepaint()`,
and — with the guarded hook — flags, `m_route_dist` and the static-graph flag at the start of routing).

* noop:        `noop_flags_nothing`, `settings_only_transaction_keeps_flags`, `txnOf_spec` (the decision runs exactly
               at the processing points of the queue model)
* safety:      `skip_sound_registration` (a connector that is NOT flagged: none of its registered edges has an
               end at a removed/moved obstacle, none is reported blocked by an added/moved shape, its ends
               did not change; positive form `touched_or_blocked_edge_flags`), `skip_sound_leg` (… hence, for strictly convex counter-clockwise shapes in
               general position, the edge does not enter the shape), `covered_after_routing`,
               `covered_preserved` (the invariant "every leg of the route is registered"),
               `skip_sound_route_valid(_rect)` (the old route is valid for the new scene), `new_scene_obstacle_cases`
               (what the new scene consists of, from Model/ActionQueue.runPasses), `skip_sound_scene` (assembled:
               `RouteValid` for the shapes of `runPasses sc acts`), `skip_unsound_through_corners_witness`
* flags stick: `flag_persists` (never routed / no path found / end changed earlier), `endpoint_change_flags`,
               `orthogonal_always_rerouted`
* contains:    `contains_incremental_eq_scratch` (Router::contains maintained by the three loops = its from-scratch
               meaning; the driver compares the real map with the from-scratch set after every processing point)
* removal:     `removal_estimate_min_horizontal/_vertical` (start and end not both on the side's line: the as-coded
               point minimises the detour over the side, for EVERY norm-like length, wherever they lie),
               `removal_flag_complete`, `removal_complete_shorter_path` (the API promise: the as-coded test flags
               whenever a path through a point of a side of the removed obstacle would be shorter),
               `removal_witness_flagged` (the scene that defeated the estimate before it took |b|, |d|),
               `estLess_sound` (the driver's three-valued comparison never contradicts an exact one)
-/
import AdaptaVerif.Lemmas.Reroute
import AdaptaVerif.Lemmas.RerouteGeom
import AdaptaVerif.Lemmas.RerouteEstimateModel
import AdaptaVerif.Lemmas.RerouteScene
import AdaptaVerif.Lemmas.RerouteContains
import AdaptaVerif.Lemmas.Sqrt
import AdaptaVerif.Props.C06
import AdaptaVerif.Props.C03
import Mathlib.Data.Rat.Cast.Order
namespace AdaptaVerif.Props.C06Reroute
open AdaptaVerif.Model.Geometry (Pt)
open AdaptaVerif.Model.Reroute
open AdaptaVerif.Model.ActionQueue (Action Kind End State Op)
open AdaptaVerif.Check.Route (lerp Poly polyEdges segHitsOriented segHitsInterior legs)
open AdaptaVerif.Spec.Route (InsideOriented)
open AdaptaVerif.Lemmas.Reroute AdaptaVerif.Lemmas.RerouteGeom AdaptaVerif.Lemmas.RerouteEstimate
open AdaptaVerif.Lemmas.VisSound (ConvexCycle)

/-! ### a closed scene (used for non-vacuity and for the incompleteness witness) -/

namespace Witness
def O : List Pt := [⟨14, 0⟩, ⟨14, 14⟩, ⟨0, 14⟩, ⟨0, 0⟩]          -- obstacle 1 = [0,14]², to be removed
def B : List Pt := [⟨-4, 6⟩, ⟨-4, 12⟩, ⟨-5, 12⟩, ⟨-5, 6⟩]       -- obstacle 2 = [−5,−4]×[6,12]
def s : Pt := ⟨-12, 3⟩
def t : Pt := ⟨16, 22⟩
def oldRoute : List Pt := [s, ⟨-5, 12⟩, t]                       -- shortest route while O is there: bends at B only
def newRoute : List Pt := [s, ⟨-4, 6⟩, t]                        -- obstacle-free once O is gone, strictly shorter
def rp : Polys := fun id => if id = 1 then O else if id = 2 then B else []
/-- connector 3 routed along `oldRoute` (path vertices: its source, corner 2 of obstacle 2, its target) -/
def rst0 : RState :=
  routedOne 3 [(s, VKey.ofEnd 3 .src), (⟨-5, 12⟩, ⟨2, 2, false⟩), (t, VKey.ofEnd 3 .tar)] (addConn true 3 {})
def acts : List Action := [{ kind := .remove, id := 1 }]
end Witness

/-! ### no-op -/

/-- **noop_flags_nothing.** A `processTransaction()` with nothing queued processes nothing: the model state
    is unchanged (`noop_txn` of Props/C06) and no connector is looked at (`decide? = none`). -/
theorem noop_flags_nothing (lt3 : Lt3) (rpOld rpNew : Polys) (st : State) (rst : RState) (hq : st.queue = []) :
    decide? lt3 rpOld rpNew st .processTransaction rst = none ∧
      AdaptaVerif.Model.ActionQueue.step st .processTransaction = st := by
  refine ⟨?_, (AdaptaVerif.Props.C06.noop_txn st hq).2⟩
  simp [decide?, txnOf, hq]

/-- **txnOf_spec.** The reroute decision runs exactly at the processing points of the queue model: if
    `txnOf st op = some pre` the call performs `processActions pre` (and `pre` has something queued), and if it
    is `none` the call leaves the scene as the queueing part left it — nothing is processed, no connector is
    looked at. -/
theorem txnOf_spec (st : State) (op : Op) :
    (∀ pre, txnOf st op = some pre →
        AdaptaVerif.Model.ActionQueue.step st op = AdaptaVerif.Model.ActionQueue.processActions pre ∧ pre.queue ≠ []) ∧
    (txnOf st op = none →
        (AdaptaVerif.Model.ActionQueue.step st op).scene = (AdaptaVerif.Model.ActionQueue.enqueue st op).1.scene) := by
  have hne : ∀ q : List Action, q.isEmpty = false → q ≠ [] := by intro q h e; rw [e] at h; simp at h
  cases op
  case processTransaction =>
    simp only [txnOf, AdaptaVerif.Model.ActionQueue.step, AdaptaVerif.Model.ActionQueue.processTransaction,
      AdaptaVerif.Model.ActionQueue.enqueue]
    cases hq : st.queue.isEmpty <;> simp [hq, hne]
  all_goals
    simp only [txnOf, AdaptaVerif.Model.ActionQueue.step, AdaptaVerif.Model.ActionQueue.processTransaction]
    generalize AdaptaVerif.Model.ActionQueue.enqueue st _ = r
    cases h1 : r.1.useTxn <;> cases h2 : r.2 <;> cases h3 : r.1.queue.isEmpty <;> simp [h1, h2, h3, hne]

/-- a transaction with an empty action list (only `m_settings_changes`) raises no flag -/
theorem settings_only_transaction_keeps_flags (lt3 : Lt3) (rpOld rpNew : Polys) (rst : RState)
    (h : ∀ c ∈ rst.conns, c.alerted = false) : flagTxn lt3 rpOld rpNew [] rst = rst := by
  unfold flagTxn deliver
  simp only [List.foldl_nil]
  have : rst.conns.map (fun c => if c.alerted then { c with alerted := false, needsReroute := true } else c) = rst.conns := by
    conv_rhs => rw [← List.map_id rst.conns]
    apply List.map_congr_left
    intro c hc
    simp [h c hc]
  rw [this]

example : ∀ c ∈ (addConn true 7 {}).conns, c.alerted = false := by decide

/-! ### soundness of skipping -/

/-- **skip_sound_registration.** Let connector `cid` exist and NOT be flagged when routing starts (no entry
    with that id has `needsReroute`).  Then for every registration `r` of `cid` (an edge its path was
    registered on) and every action of the transaction:
    (a) no end of the edge is a corner of a removed or moved obstacle;
    (b) the as-coded `newBlockingShape` test does not report the edge blocked by any added or moved shape;
    (c) no end point of `cid` was changed, and no end of the edge is a changed connector end;
    and the registration is still there afterwards. -/
theorem skip_sound_registration (cid : Nat) (lt3 : Lt3) (rpOld rpNew : Polys) (acts : List Action) (rst : RState)
    (r : Reg) (hex : ∃ c ∈ rst.conns, c.id = cid) (hr : r ∈ rst.regs) (hc : r.conn = cid)
    (hquiet : ∀ c ∈ (flagTxn lt3 rpOld rpNew acts rst).conns, c.id = cid → c.needsReroute = false) :
    (∀ a ∈ acts, (a.kind = .remove ∨ a.kind = .move) → r.touchesObst a.id = false) ∧
    (∀ a ∈ acts, (a.kind = .add ∨ a.kind = .move) → edgeBlocked (rpNew a.id) r = false) ∧
    (∀ a ∈ acts, a.kind = .connChange → ∀ u ∈ a.conns, a.id ≠ cid ∧ r.touchesKey (VKey.ofEnd a.id u.1) = false) ∧
    r ∈ (flagTxn lt3 rpOld rpNew acts rst).regs := by
  rcases flagTxn_reg cid lt3 rpOld rpNew acts rst r hex hr hc with ⟨c, hcm, hid, hn⟩ | ⟨h1, h2, h3, h4⟩
  · rw [hquiet c hcm hid] at hn; exact absurd hn (by simp)
  refine ⟨?_, ?_, ?_, h4⟩
  · intro a ha hk
    have := h1 a ha
    unfold bad1 at this
    rcases hk with hk | hk <;> simpa [hk] using this
  · intro a ha hk
    have := h2 a ha
    unfold bad2 at this
    rcases hk with hk | hk <;> simpa [hk] using this
  · intro a ha hk u hu
    have hn := h3 a ha
    unfold bad3 at hn
    constructor
    · intro he; exact hn ⟨hk, u, hu, Or.inr he⟩
    · cases ht : r.touchesKey (VKey.ofEnd a.id u.1)
      · rfl
      · exact absurd ⟨hk, u, hu, Or.inl ht⟩ hn

/-- **touched_or_blocked_edge_flags** (positive form of (a) and (b)): if an edge on which `cid` is registered has
    an end at a corner of a removed / moved obstacle, or is reported blocked by an added / moved shape, then
    `cid` is flagged when routing starts. -/
theorem touched_or_blocked_edge_flags (cid : Nat) (lt3 : Lt3) (rpOld rpNew : Polys) (acts : List Action) (rst : RState)
    (r : Reg) (hex : ∃ c ∈ rst.conns, c.id = cid) (hr : r ∈ rst.regs) (hc : r.conn = cid) (a : Action) (ha : a ∈ acts)
    (h : ((a.kind = .remove ∨ a.kind = .move) ∧ r.touchesObst a.id = true) ∨
         ((a.kind = .add ∨ a.kind = .move) ∧ edgeBlocked (rpNew a.id) r = true)) :
    ∃ c ∈ (flagTxn lt3 rpOld rpNew acts rst).conns, c.id = cid ∧ c.needsReroute = true := by
  rcases flagTxn_reg cid lt3 rpOld rpNew acts rst r hex hr hc with hf | ⟨h1, h2, _, _⟩
  · exact hf
  · exfalso
    rcases h with ⟨hk, ht⟩ | ⟨hk, hb⟩
    · have := h1 a ha
      unfold bad1 at this
      rcases hk with hk | hk <;> simp [hk, ht] at this
    · have := h2 a ha
      unfold bad2 at this
      rcases hk with hk | hk <;> simp [hk, hb] at this

/-- **skip_sound_leg.** … and therefore, if the added / moved shape is a strictly convex counter-clockwise
    polygon, no vertex of it lies in the open edge and the ends of the edge are not strictly inside it (the
    known weakness of the `segmentShapeIntersect` loop, finding C06-block-diagonal, is exactly the excluded
    case), no point of the edge is strictly inside the shape. -/
theorem skip_sound_leg (poly : Poly) (r : Reg) (hlen : 3 ≤ poly.length) (hC : ConvexCycle (polyEdges poly))
    (hb : edgeBlocked poly r = false)
    (ha : ¬ InsideOriented 1 0 poly r.pu) (hb' : ¬ InsideOriented 1 0 poly r.pv)
    (hnov : ∀ v ∈ poly, ∀ t : Rat, 0 < t → t < 1 → lerp r.pu r.pv t ≠ v) :
    ∀ t : Rat, 0 ≤ t → t ≤ 1 → ¬ InsideOriented 1 0 poly (lerp r.pu r.pv t) := by
  intro t h0 h1 hin
  have := edgeBlocked_false_sound poly r hlen hC hb ha hb' hnov
  rw [(AdaptaVerif.Lemmas.Route.segHitsOriented_iff 1 0 poly r.pu r.pv).mpr ⟨t, h0, h1, hin⟩] at this
  exact Bool.noConfusion this

/-- **skip_unsound_through_corners_witness.** The hypothesis "no vertex of the shape in the open edge" cannot be
    dropped: an edge running exactly through two opposite corners of a square is NOT reported blocked by the
    as-coded `newBlockingShape` test although it crosses the interior (known finding C06-block-diagonal; the
    same weakness as `visible_unsound_witness` of Props/C03). -/
theorem skip_unsound_through_corners_witness :
    edgeBlocked [⟨2, 1⟩, ⟨2, 2⟩, ⟨1, 2⟩, ⟨1, 1⟩]
      { conn := 1, u := VKey.ofEnd 1 .src, v := VKey.ofEnd 1 .tar, pu := ⟨0, 0⟩, pv := ⟨3, 3⟩ } = false ∧
    segHitsInterior [⟨2, 1⟩, ⟨2, 2⟩, ⟨1, 2⟩, ⟨1, 1⟩] (⟨0, 0⟩ : Pt) ⟨3, 3⟩ = true := by
  constructor <;> decide +kernel

/-- **covered_after_routing.** `generatePath` of a polyline connector establishes the invariant -/
theorem covered_after_routing (cid : Nat) (path : List (Pt × VKey)) (rst : RState)
    (hp : (rst.conns.find? (·.id == cid)).any (·.poly) = true) :
    Covered (routedOne cid path rst).regs cid (path.map (·.1)) := by
  intro l hl
  obtain ⟨r, hr, h⟩ := regsOfPath_covers cid path l hl
  refine ⟨r, ?_, h⟩
  unfold routedOne
  simp only [hp, if_true]
  exact List.mem_append_right _ hr

/-- **covered_preserved.** … and a transaction that does not flag the connector keeps it -/
theorem covered_preserved (cid : Nat) (route : List Pt) (lt3 : Lt3) (rpOld rpNew : Polys) (acts : List Action)
    (rst : RState) (hex : ∃ c ∈ rst.conns, c.id = cid) (hcov : Covered rst.regs cid route)
    (hquiet : ∀ c ∈ (flagTxn lt3 rpOld rpNew acts rst).conns, c.id = cid → c.needsReroute = false) :
    Covered (flagTxn lt3 rpOld rpNew acts rst).regs cid route := by
  intro l hl
  obtain ⟨r, hr, hc, h⟩ := hcov l hl
  exact ⟨r, (skip_sound_registration cid lt3 rpOld rpNew acts rst r hex hr hc hquiet).2.2.2, hc, h⟩

/-- **skip_sound_route_valid** (the safety half of C06 for the reroute decision).  Connector `cid` has the
    route `route`, every leg of which is registered (`Covered`), and is not flagged by the transaction.  The
    shapes of the new scene are each either a shape of the old scene or an added / moved obstacle with its new
    routing polygon, all strictly convex counter-clockwise, and the route is in general position w.r.t. them
    (no leg end strictly inside, no vertex in an open leg).  If the route was valid for the old scene — no leg
    enters a shape's interior — it is valid for the new scene. -/
theorem skip_sound_route_valid (cid : Nat) (route : List Pt) (lt3 : Lt3) (rpOld rpNew : Polys)
    (acts : List Action) (rst : RState) (hex : ∃ c ∈ rst.conns, c.id = cid) (hcov : Covered rst.regs cid route)
    (hquiet : ∀ c ∈ (flagTxn lt3 rpOld rpNew acts rst).conns, c.id = cid → c.needsReroute = false)
    (oldShapes newShapes : List Poly)
    (hold : ∀ l ∈ legs route, ∀ s ∈ oldShapes, segHitsOriented 1 0 s l.1 l.2 = false)
    (hnew : ∀ s ∈ newShapes, s ∈ oldShapes ∨ ∃ a ∈ acts, (a.kind = .add ∨ a.kind = .move) ∧ rpNew a.id = s)
    (hconv : ∀ s ∈ newShapes, 3 ≤ s.length ∧ ConvexCycle (polyEdges s))
    (hgen : ∀ l ∈ legs route, ∀ s ∈ newShapes, ¬ InsideOriented 1 0 s l.1 ∧ ¬ InsideOriented 1 0 s l.2 ∧
      ∀ v ∈ s, ∀ t : Rat, 0 < t → t < 1 → lerp l.1 l.2 t ≠ v) :
    ∀ l ∈ legs route, ∀ s ∈ newShapes, segHitsOriented 1 0 s l.1 l.2 = false := by
  intro l hl s hs
  rcases hnew s hs with ho | ⟨a, ha, hk, hp⟩
  · exact hold l hl s ho
  · obtain ⟨r, hr, hc, hu, hv⟩ := hcov l hl
    have hb := (skip_sound_registration cid lt3 rpOld rpNew acts rst r hex hr hc hquiet).2.1 a ha hk
    rw [hp] at hb
    obtain ⟨g1, g2, g3⟩ := hgen l hl s hs
    rw [← hu] at g1 g3
    rw [← hv] at g2 g3
    rw [← hu, ← hv]
    exact edgeBlocked_false_sound s r (hconv s hs).1 (hconv s hs).2 hb g1 g2 g3

open AdaptaVerif.Lemmas.Route (rectPoly) in
open AdaptaVerif.Spec.Route (RouteValid StrictlyInside SegHits) in
/-- **skip_sound_route_valid_rect** (rectangles — the shapes of the correspondence harness; conclusion in terms of
    the C03 specification, so `routeValid_complete` of Props/C03 applies).  If the route of a connector that the
    transaction does not flag was `RouteValid` for the old scene, every leg of it is registered, the new scene
    consists of old shapes and added / moved rectangles, and the route is in general position w.r.t. them, then
    it is `RouteValid` for the new scene. -/
theorem skip_sound_route_valid_rect (cid : Nat) (route : List Pt) (lt3 : Lt3) (rpOld rpNew : Polys)
    (acts : List Action) (rst : RState) (hex : ∃ c ∈ rst.conns, c.id = cid) (hcov : Covered rst.regs cid route)
    (hquiet : ∀ c ∈ (flagTxn lt3 rpOld rpNew acts rst).conns, c.id = cid → c.needsReroute = false)
    (oldShapes newShapes : List Poly) (src dst : Pt)
    (hold : RouteValid oldShapes [] src dst route)
    (hnew : ∀ s ∈ newShapes, s ∈ oldShapes ∨ ∃ a ∈ acts, (a.kind = .add ∨ a.kind = .move) ∧ rpNew a.id = s)
    (hrect : ∀ s ∈ newShapes, ∃ x0 y0 x1 y1 : Rat, x0 < x1 ∧ y0 < y1 ∧ s = rectPoly x0 y0 x1 y1)
    (hgen : ∀ l ∈ legs route, ∀ s ∈ newShapes, ¬ StrictlyInside s l.1 ∧ ¬ StrictlyInside s l.2 ∧
      ∀ v ∈ s, ∀ t : Rat, 0 < t → t < 1 → lerp l.1 l.2 t ≠ v) :
    RouteValid newShapes [] src dst route := by
  obtain ⟨h1, h2, h3, h4⟩ := hold
  refine ⟨h1, h2, h3, ?_⟩
  intro l hl i hi _ hhit
  have hs : newShapes[i] ∈ newShapes := List.getElem_mem hi
  rcases hnew _ hs with ho | ⟨a, ha, hk, hp⟩
  · obtain ⟨j, hj, he⟩ := List.getElem_of_mem ho
    exact h4 l hl j hj (by simp) (by rw [he]; exact hhit)
  · obtain ⟨r, hr, hc, hu, hv⟩ := hcov l hl
    have hb := (skip_sound_registration cid lt3 rpOld rpNew acts rst r hex hr hc hquiet).2.1 a ha hk
    rw [hp] at hb
    obtain ⟨x0, y0, x1, y1, hx, hy, hsr⟩ := hrect _ hs
    obtain ⟨g1, g2, g3⟩ := hgen l hl _ hs
    rw [hsr] at hb g1 g2 g3 hhit
    rw [← hu] at g1 g3 hhit
    rw [← hv] at g2 g3 hhit
    exact edgeBlocked_false_sound_rect x0 y0 x1 y1 hx hy r hb g1 g2 g3 hhit

open AdaptaVerif.Lemmas.RerouteScene in
/-- **new_scene_obstacle_cases** (discharges `hnew` above from the scene model of Model/ActionQueue): every
    obstacle object the scene holds after `processActions` is either an obstacle of the old scene at which no
    action of the transaction was aimed — unchanged, same geometry — or the target of an Add or Move action
    (a removed one is gone). -/
theorem new_scene_obstacle_cases (sc : AdaptaVerif.Model.ActionQueue.Scene) (acts : List Action)
    (o : AdaptaVerif.Model.ActionQueue.Obst) (ho : o ∈ (AdaptaVerif.Model.ActionQueue.runPasses sc acts).obsts) :
    (o ∈ sc.obsts ∧ ∀ a ∈ acts, ¬ Targets a o.id) ∨
      (∃ a ∈ acts, (a.kind = .add ∨ a.kind = .move) ∧ a.id = o.id) := by
  by_cases h : ∀ a ∈ acts, ¬ Targets a o.id
  · exact Or.inl ⟨(runPasses_untouched sc acts o h).mp ho, h⟩
  · right
    have : ∃ a ∈ acts, Targets a o.id := by
      by_contra hn
      exact h (fun a ha ht => hn ⟨a, ha, ht⟩)
    obtain ⟨a, ha, hk, hid⟩ := this
    cases hkk : a.kind
    · exact ⟨a, ha, Or.inr hkk, hid⟩
    · exact ⟨a, ha, Or.inl hkk, hid⟩
    · exact absurd rfl (runPasses_removed sc acts o.id ⟨a, ha, hkk, hid⟩ o ho)
    · exact absurd hkk hk

/-- the shapes of a scene of Model/ActionQueue as polygons: active, non-junction obstacles (shapeBufferDistance 0:
    the routing polygon is the polygon) -/
def shapePolys (sc : AdaptaVerif.Model.ActionQueue.Scene) : List Poly :=
  (sc.obsts.filter fun o => o.active && !o.isJ).map fun o => o.geom.map fun p => (⟨p.x, p.y⟩ : Pt)

/-- routing polygon by obstacle id, read off a scene -/
def rpOf (sc : AdaptaVerif.Model.ActionQueue.Scene) : Polys := fun id =>
  match AdaptaVerif.Model.ActionQueue.findObst sc id with
  | some o => o.geom.map fun p => (⟨p.x, p.y⟩ : Pt)
  | none => []

open AdaptaVerif.Lemmas.Route (rectPoly) in
open AdaptaVerif.Spec.Route (RouteValid StrictlyInside) in
/-- **skip_sound_scene** (assembled on the scene model of Model/ActionQueue; `acts` = the sorted queue, so that
    `runPasses sc acts` is the scene after `processActions`).  A connector that the transaction does not flag,
    every leg of whose route is registered, and whose route was valid for the shapes of the old scene `sc`, has a
    valid route for the shapes of the new scene — obstacle ids unique, shapes rectangles, route in general
    position w.r.t. the new shapes. -/
theorem skip_sound_scene (cid : Nat) (route : List Pt) (lt3 : Lt3) (rpOld : Polys) (acts : List Action)
    (rst : RState) (sc : AdaptaVerif.Model.ActionQueue.Scene)
    (hex : ∃ c ∈ rst.conns, c.id = cid) (hcov : Covered rst.regs cid route)
    (hquiet : ∀ c ∈ (flagTxn lt3 rpOld (rpOf (AdaptaVerif.Model.ActionQueue.runPasses sc acts)) acts rst).conns,
      c.id = cid → c.needsReroute = false)
    (huniq : ∀ o ∈ (AdaptaVerif.Model.ActionQueue.runPasses sc acts).obsts,
      ∀ o' ∈ (AdaptaVerif.Model.ActionQueue.runPasses sc acts).obsts, o.id = o'.id → o = o')
    (src dst : Pt) (hold : RouteValid (shapePolys sc) [] src dst route)
    (hrect : ∀ s ∈ shapePolys (AdaptaVerif.Model.ActionQueue.runPasses sc acts),
      ∃ x0 y0 x1 y1 : Rat, x0 < x1 ∧ y0 < y1 ∧ s = rectPoly x0 y0 x1 y1)
    (hgen : ∀ l ∈ legs route, ∀ s ∈ shapePolys (AdaptaVerif.Model.ActionQueue.runPasses sc acts),
      ¬ StrictlyInside s l.1 ∧ ¬ StrictlyInside s l.2 ∧ ∀ v ∈ s, ∀ t : Rat, 0 < t → t < 1 → lerp l.1 l.2 t ≠ v) :
    RouteValid (shapePolys (AdaptaVerif.Model.ActionQueue.runPasses sc acts)) [] src dst route := by
  refine skip_sound_route_valid_rect cid route lt3 rpOld _ acts rst hex hcov hquiet (shapePolys sc) _ src dst hold
    ?_ hrect hgen
  intro s hs
  unfold shapePolys at hs
  obtain ⟨o, ho, rfl⟩ := List.mem_map.mp hs
  obtain ⟨homem, hoact⟩ := List.mem_filter.mp ho
  rcases new_scene_obstacle_cases sc acts o homem with ⟨hin, _⟩ | ⟨a, ha, hk, hid⟩
  · left
    unfold shapePolys
    exact List.mem_map.mpr ⟨o, List.mem_filter.mpr ⟨hin, hoact⟩, rfl⟩
  · right
    refine ⟨a, ha, hk, ?_⟩
    unfold rpOf AdaptaVerif.Model.ActionQueue.findObst
    have hsome : ((AdaptaVerif.Model.ActionQueue.runPasses sc acts).obsts.find? (·.id == a.id)).isSome = true := by
      rw [List.find?_isSome]
      exact ⟨o, homem, by simp [hid]⟩
    obtain ⟨o', ho'⟩ := Option.isSome_iff_exists.mp hsome
    rw [ho']
    have hm := List.mem_of_find?_eq_some ho'
    have hp := List.find?_some ho'
    simp only [beq_iff_eq] at hp
    have : o' = o := huniq o' hm o homem (by rw [hp, hid])
    rw [this]

-- non-vacuity of `skip_sound_scene`: a square is moved far away from a straight two-point route
namespace NV
def sc : AdaptaVerif.Model.ActionQueue.Scene := { obsts := [{ id := 1, isJ := false, geom := [⟨12, 10⟩, ⟨12, 12⟩, ⟨10, 12⟩, ⟨10, 10⟩], active := true }] }
def acts : List Action := [{ kind := .move, id := 1, geom := [⟨22, 20⟩, ⟨22, 22⟩, ⟨20, 22⟩, ⟨20, 20⟩] }]
def route : List Pt := [⟨0, 0⟩, ⟨5, 0⟩]
def rst : RState := routedOne 3 [(⟨0, 0⟩, VKey.ofEnd 3 .src), (⟨5, 0⟩, VKey.ofEnd 3 .tar)] (addConn true 3 {})
end NV

open NV in
open AdaptaVerif.Lemmas.Route (rectPoly strictlyInside_rect_iff) in
open AdaptaVerif.Spec.Route (RouteValid StrictlyInside) in
example : RouteValid (shapePolys (AdaptaVerif.Model.ActionQueue.runPasses sc acts)) [] ⟨0, 0⟩ ⟨5, 0⟩ route := by
  refine skip_sound_scene 3 route (estLess 30 0) (rpOf sc) acts rst sc (by decide) ?_ (by decide +kernel) (by decide +kernel)
    ⟨0, 0⟩ ⟨5, 0⟩ (AdaptaVerif.Props.C03.routeValid_sound _ _ _ _ _ (by decide +kernel)) ?_ ?_
  · exact covered_after_routing 3 _ (addConn true 3 {}) (by decide)
  · intro s hs
    have : s = rectPoly 20 20 22 22 := by
      have h : shapePolys (AdaptaVerif.Model.ActionQueue.runPasses sc acts) = [rectPoly 20 20 22 22] := by decide +kernel
      rw [h] at hs; simpa using hs
    exact ⟨20, 20, 22, 22, by norm_num, by norm_num, this⟩
  · intro l hl s hs
    have hsr : s = rectPoly 20 20 22 22 := by
      have h : shapePolys (AdaptaVerif.Model.ActionQueue.runPasses sc acts) = [rectPoly 20 20 22 22] := by decide +kernel
      rw [h] at hs; simpa using hs
    have hl' : l = (⟨0, 0⟩, ⟨5, 0⟩) := by simpa [route, legs] using hl
    subst hsr; subst hl'
    refine ⟨?_, ?_, ?_⟩
    · rw [strictlyInside_rect_iff 20 20 22 22 (by norm_num) (by norm_num)]; norm_num
    · rw [strictlyInside_rect_iff 20 20 22 22 (by norm_num) (by norm_num)]; norm_num
    · intro v hv t _ _ h
      have hy : (lerp (⟨0, 0⟩ : Pt) ⟨5, 0⟩ t).y = v.y := congrArg Pt.y h
      simp only [lerp, sub_self, mul_zero, add_zero] at hy
      simp only [rectPoly, List.mem_cons, List.not_mem_nil, or_false] at hv
      rcases hv with rfl | rfl | rfl | rfl <;> simp at hy

-- non-vacuity: the closed scene of `Witness` below satisfies `Covered` and the "not flagged" hypothesis
example : Covered Witness.rst0.regs 3 Witness.oldRoute :=
  covered_after_routing 3 _ (addConn true 3 {}) (by decide)
example : ∀ c ∈ (flagTxn (estLess 30 0) Witness.rp Witness.rp [] Witness.rst0).conns,
    c.id = 3 → c.needsReroute = false := by decide +kernel

/-! ### flags stick -/

/-- **flag_persists.** A connector whose flag is up when a transaction starts (never routed: the constructor
    sets it; no path found; makePathInvalid earlier) is flagged when routing starts. -/
theorem flag_persists (cid : Nat) (lt3 : Lt3) (rpOld rpNew : Polys) (acts : List Action) (rst : RState)
    (h : ∃ c ∈ rst.conns, c.id = cid ∧ c.needsReroute = true) :
    ∃ c ∈ (flagTxn lt3 rpOld rpNew acts rst).conns, c.id = cid ∧ c.flagged = true := by
  obtain ⟨c, hc, hid, hn⟩ := h
  obtain ⟨c', hc', hid', hn'⟩ := flagTxn_Up cid lt3 rpOld rpNew acts rst ⟨c, hc, hid, Or.inl hn⟩
  exact ⟨c', hc', hid', by simp [ConnSt.flagged, hn']⟩

-- a new connector is flagged
example : ∃ c ∈ (addConn true 7 {}).conns, c.id = 7 ∧ c.needsReroute = true := by decide

/-- **endpoint_change_flags.** (a) A queued end-point update of connector `cid` flags it. -/
theorem endpoint_change_flags (cid : Nat) (lt3 : Lt3) (rpOld rpNew : Polys) (acts : List Action) (rst : RState)
    (hex : ∃ c ∈ rst.conns, c.id = cid) (a : Action) (ha : a ∈ acts) (hk : a.kind = .connChange) (hid : a.id = cid)
    (hne : a.conns ≠ []) (r : Reg) (hr : r ∈ rst.regs) (hc : r.conn = cid) :
    ∃ c ∈ (flagTxn lt3 rpOld rpNew acts rst).conns, c.id = cid ∧ c.needsReroute = true := by
  rcases flagTxn_reg cid lt3 rpOld rpNew acts rst r hex hr hc with h | ⟨_, _, h3, _⟩
  · exact h
  · exfalso
    obtain ⟨u, hu⟩ := List.exists_mem_of_ne_nil _ hne
    exact h3 a ha ⟨hk, u, hu, Or.inr hid⟩

/-- **orthogonal_always_rerouted.** `m_false_path` (set by `generatePath` for every orthogonal connector) is
    never reset by `processActions`: such a connector is flagged in every processed transaction. -/
theorem orthogonal_always_rerouted (cid : Nat) (lt3 : Lt3) (rpOld rpNew : Polys) (acts : List Action) (rst : RState)
    (h : ∃ c ∈ rst.conns, c.id = cid ∧ c.falsePath = true) :
    ∃ c ∈ (flagTxn lt3 rpOld rpNew acts rst).conns, c.id = cid ∧ c.flagged = true := by
  obtain ⟨c, hc, hid, hf⟩ := flagTxn_FalseP cid lt3 rpOld rpNew acts rst h
  exact ⟨c, hc, hid, by simp [ConnSt.flagged, hf]⟩

-- an orthogonal connector has `falsePath` after its first routing
example : ∃ c ∈ (routedOne 7 [(⟨0, 0⟩, VKey.ofEnd 7 .src), (⟨3, 0⟩, VKey.ofEnd 7 .tar)] (addConn false 7 {})).conns,
    c.id = 7 ∧ c.falsePath = true := by decide

/-! ### `Router::contains`: incremental = from scratch -/

open AdaptaVerif.Lemmas.RerouteContains in
/-- **contains_incremental_eq_scratch.** If before the transaction every entry of `Router::contains` has its
    from-scratch meaning for the old scene (ids = the active obstacles whose routing polygon strictly contains
    the end point), then after `processActions` — erase per removed / moved obstacle, conditional insert per
    added / moved obstacle with its NEW polygon, regeneration per updated end point — every entry has its
    from-scratch meaning for the new scene.  Hypotheses on the scene transition (what the three loops of
    Model/ActionQueue do to the active set): an obstacle is active afterwards iff it was active and is not the
    target of a Remove / Move, or it is the target of an Add / Move; a freshly added obstacle was not active;
    an obstacle at which no action is aimed keeps its routing polygon. -/
theorem contains_incremental_eq_scratch (activeOld activeNew : List Nat) (rpOld rpNew : Polys)
    (acts : List Action) (cs : List CEntry)
    (hA : ∀ o, o ∈ activeNew ↔ ((o ∈ activeOld ∧ ∀ a ∈ acts, ¬ (isRM a = true ∧ a.id = o)) ∨
                                 ∃ a ∈ acts, isAM a = true ∧ a.id = o))
    (hC : ∀ o, (∃ a ∈ acts, isAM a = true ∧ a.id = o) → (∀ a ∈ acts, ¬ (isRM a = true ∧ a.id = o)) → o ∉ activeOld)
    (hB : ∀ o, (∀ a ∈ acts, ¬ (isRM a = true ∧ a.id = o)) → (¬ ∃ a ∈ acts, isAM a = true ∧ a.id = o) → rpNew o = rpOld o)
    (hold : ∀ e ∈ cs, e.scratch activeOld rpOld) :
    ∀ e ∈ cTxn activeNew rpNew acts cs, e.scratch activeNew rpNew := by
  intro e he
  rw [cTxn_eq] at he
  obtain ⟨e0, he0, rfl⟩ := List.mem_map.mp he
  apply fold3_scratch
  obtain ⟨_, p1, m1⟩ := fold1_spec acts e0
  obtain ⟨_, p2, m2⟩ := fold2_spec rpNew acts (acts.foldl ePass1 e0)
  have h0 := hold e0 he0
  intro o
  rw [m2, m1, p2, p1, h0 o]
  constructor
  · rintro (⟨⟨hact, hin⟩, hrm⟩ | ⟨a, ha, ham, hid, hin⟩)
    · by_cases hamx : ∃ a ∈ acts, isAM a = true ∧ a.id = o
      · exact absurd hact (hC o hamx hrm)
      · rw [hB o hrm hamx]
        exact ⟨(hA o).mpr (Or.inl ⟨hact, hrm⟩), hin⟩
    · exact ⟨(hA o).mpr (Or.inr ⟨a, ha, ham, hid⟩), hin⟩
  · rintro ⟨hnew, hin⟩
    by_cases hamx : ∃ a ∈ acts, isAM a = true ∧ a.id = o
    · obtain ⟨a, ha, ham, hid⟩ := hamx
      exact Or.inr ⟨a, ha, ham, hid, hin⟩
    · rcases (hA o).mp hnew with ⟨hact, hrm⟩ | h
      · rw [hB o hrm hamx] at hin
        exact Or.inl ⟨⟨hact, hin⟩, hrm⟩
      · exact absurd h hamx

-- non-vacuity: obstacle 1 (a square around the end point) is moved away, obstacle 2 is added around it
example :
    (cTxn [2, 1] (fun o => if o = 2 then [⟨3, -3⟩, ⟨3, 3⟩, ⟨-3, 3⟩, ⟨-3, -3⟩] else [⟨13, -3⟩, ⟨13, 3⟩, ⟨7, 3⟩, ⟨7, -3⟩])
      [{ kind := .move, id := 1 }, { kind := .add, id := 2 }]
      [{ key := VKey.ofEnd 9 .src, pt := ⟨0, 0⟩, ids := [1] }]).map (·.ids) = [[2]] := by decide +kernel

/-! ### completeness for removal: the "could be shorter" estimate -/

section Removal
variable {K : Type} [Field K] [LinearOrder K] [IsStrictOrderedRing K]

/-- **removal_estimate_min_horizontal.** Horizontal side (p1, p2), start `s` and end `t` not both on its line:
    the point the code picks minimises |s − q| + |q − t| over all points q of the side — for every length `N`
    with the properties `IsNorm` (in particular the Euclidean one over ℝ), wherever `s` and `t` lie. -/
theorem removal_estimate_min_horizontal (N : K → K → K) (hN : IsNorm N) (s t p1 p2 : Pt)
    (hy : p1.y = p2.y) (hx : p1.x ≠ p2.x) (hs : 0 < |s.y - p1.y| + |t.y - p1.y|) :
    ∃ xp, sidePoint s t p1 p2 = .at xp ∧
      ∀ q : Pt, q.y = p1.y → rmin p1.x p2.x ≤ q.x → q.x ≤ rmax p1.x p2.x →
        D N s xp + D N xp t ≤ D N s q + D N q t := by
  refine ⟨⟨clamp (rmin p1.x p2.x) (rmax p1.x p2.x)
    ((|s.y - p1.y| * t.x + s.x * |t.y - p1.y|) / (|s.y - p1.y| + |t.y - p1.y|)), p1.y⟩, ?_, ?_⟩
  · unfold sidePoint
    rw [if_pos hy, sideX_off_line _ _ _ _ _ _ (ne_of_gt hs)]
    simp only [hx, if_false]
  · intro q hqy h0 h1
    have hq : q = ⟨q.x, p1.y⟩ := by cases q; simp_all
    rw [hq, D_detour_h N hN s t _ p1.y, D_detour_h N hN s t q.x p1.y]
    have := detour_model_min_abs N hN s.x (s.y - p1.y) t.x (t.y - p1.y) _ _ hs (rmin_le_rmax _ _) q.x h0 h1
    simp only [Rat.cast_sub] at this
    exact this

/-- **removal_estimate_min_vertical.** The same for a vertical side. -/
theorem removal_estimate_min_vertical (N : K → K → K) (hN : IsNorm N) (s t p1 p2 : Pt)
    (hy : p1.y ≠ p2.y) (hx : p1.x = p2.x) (hs : 0 < |s.x - p1.x| + |t.x - p1.x|) :
    ∃ xp, sidePoint s t p1 p2 = .at xp ∧
      ∀ q : Pt, q.x = p1.x → rmin p1.y p2.y ≤ q.y → q.y ≤ rmax p1.y p2.y →
        D N s xp + D N xp t ≤ D N s q + D N q t := by
  refine ⟨⟨p1.x, clamp (rmin p1.y p2.y) (rmax p1.y p2.y)
    ((|s.x - p1.x| * t.y + s.y * |t.x - p1.x|) / (|s.x - p1.x| + |t.x - p1.x|))⟩, ?_, ?_⟩
  · unfold sidePoint
    rw [if_neg hy, if_pos hx, sideX_off_line _ _ _ _ _ _ (ne_of_gt hs)]
  · intro q hqx h0 h1
    have hq : q = ⟨p1.x, q.y⟩ := by cases q; simp_all
    rw [hq, D_detour_v N hN s t _ p1.x, D_detour_v N hN s t q.y p1.x]
    have := detour_model_min_abs N hN s.y (s.x - p1.x) t.y (t.x - p1.x) _ _ hs (rmin_le_rmax _ _) q.y h0 h1
    simp only [Rat.cast_sub] at this
    exact this

-- non-vacuity of `IsNorm` without real numbers: the 1-norm on ℚ
example : IsNorm (fun u v : Rat => |u| + |v|) where
  tri := by intro u1 u2 v1 v2; have h1 := abs_add_le u1 v1; have h2 := abs_add_le u2 v2; show _ ≤ _; linarith
  homog := by intro k u1 u2 hk; show |k * u1| + |k * u2| = k * (|u1| + |u2|); rw [abs_mul, abs_mul, abs_of_nonneg hk]; ring
  reflX := by intro u1 u2; show |-u1| + |u2| = |u1| + |u2|; rw [abs_neg]
  reflY := by intro u1 u2; show |u1| + |-u2| = |u1| + |u2|; rw [abs_neg]
  swap := by intro u1 u2; show |u1| + |u2| = |u2| + |u1|; rw [add_comm]


/-- **removal_flag_complete** (the API promise).
    `poly` = routing polygon of the removed / moved-away obstacle, all sides axis-parallel; `route` the current
    route from `s` to `t` of length `L`; the comparison oracle answers "shorter" whenever the detour really is
    shorter than `L`.  If some point `q` of a side `e` (on whose line `s` and `t` do not both lie) satisfies
    |s − q| + |q − t| < L — which, by the triangle inequality, every path from `s` to `t` through `q` that is
    shorter than the current route implies — then test (c) flags the connector. -/
theorem removal_flag_complete (N : K → K → K) (hN : IsNorm N) (lt3 : Lt3) (poly route : List Pt)
    (s t : Pt) (hh : route.head? = some s) (hl : route.getLast? = some t) (L : K)
    (horacle : ∀ xp, D N s xp + D N xp t < L → lt3 s t xp route = some true)
    (hR : Rectilinear (polyEdges poly)) (e : Pt × Pt) (he : e ∈ polyEdges poly) (q : Pt)
    (hside : (e.1.y = e.2.y ∧ e.1.x ≠ e.2.x ∧ 0 < |s.y - e.1.y| + |t.y - e.1.y| ∧
                q.y = e.1.y ∧ rmin e.1.x e.2.x ≤ q.x ∧ q.x ≤ rmax e.1.x e.2.x) ∨
             (e.1.y ≠ e.2.y ∧ e.1.x = e.2.x ∧ 0 < |s.x - e.1.x| + |t.x - e.1.x| ∧
                q.x = e.1.x ∧ rmin e.1.y e.2.y ≤ q.y ∧ q.y ≤ rmax e.1.y e.2.y))
    (hshort : D N s q + D N q t < L) :
    couldBeShorter lt3 poly route = some true := by
  unfold couldBeShorter
  rw [hh, hl]
  simp only
  rcases hside with ⟨hy, hx, hs, q1, q2, q3⟩ | ⟨hy, hx, hs, q1, q2, q3⟩
  · obtain ⟨xp, hsp, hmin⟩ := removal_estimate_min_horizontal N hN s t e.1 e.2 hy hx hs
    exact sideFlags_complete lt3 route s t _ hR e he xp hsp (horacle xp (lt_of_le_of_lt (hmin q q1 q2 q3) hshort))
  · obtain ⟨xp, hsp, hmin⟩ := removal_estimate_min_vertical N hN s t e.1 e.2 hy hx hs
    exact sideFlags_complete lt3 route s t _ hR e he xp hsp (horacle xp (lt_of_le_of_lt (hmin q q1 q2 q3) hshort))

/-- **removal_complete_shorter_path.** … in the words of the property: if ANY path from `s` to `t`
    (a polyline `p1 ++ q :: p2`) that is shorter than the current route passes through a point `q` of a side of
    the removed obstacle (on whose line `s` and `t` do not both lie), the connector is flagged. -/
theorem removal_complete_shorter_path (N : K → K → K) (hN : IsNorm N) (lt3 : Lt3) (poly route : List Pt)
    (s t : Pt) (hh : route.head? = some s) (hl : route.getLast? = some t) (L : K)
    (horacle : ∀ xp, D N s xp + D N xp t < L → lt3 s t xp route = some true)
    (hR : Rectilinear (polyEdges poly)) (e : Pt × Pt) (he : e ∈ polyEdges poly) (q : Pt)
    (hside : (e.1.y = e.2.y ∧ e.1.x ≠ e.2.x ∧ 0 < |s.y - e.1.y| + |t.y - e.1.y| ∧
                q.y = e.1.y ∧ rmin e.1.x e.2.x ≤ q.x ∧ q.x ≤ rmax e.1.x e.2.x) ∨
             (e.1.y ≠ e.2.y ∧ e.1.x = e.2.x ∧ 0 < |s.x - e.1.x| + |t.x - e.1.x| ∧
                q.x = e.1.x ∧ rmin e.1.y e.2.y ≤ q.y ∧ q.y ≤ rmax e.1.y e.2.y))
    (p1 p2 : List Pt) (hs : (p1 ++ [q]).head? = some s) (ht : (q :: p2).getLast? = some t)
    (hshorter : polyLen N (p1 ++ q :: p2) < L) :
    couldBeShorter lt3 poly route = some true :=
  removal_flag_complete N hN lt3 poly route s t hh hl L horacle hR e he q hside
    (lt_of_le_of_lt (through_point_lower_bound N hN s t q p1 p2 hs ht) hshorter)

/-- **estLess_sound.** The driver's three-valued comparison (rational enclosures of the square roots) never
    contradicts the exact one: for every Euclidean length function `len` on an ordered field (K = ℝ), if it
    answers `some b` then `|s − xp| + |xp − t| < Σ legs` holds iff `b`. -/
theorem estLess_sound (len : Pt → Pt → K) (hE : IsEuclid len) (k : Nat) (m : Rat) (hm : 0 ≤ m) (s t xp : Pt)
    (route : List Pt) (b : Bool) (h : estLess k m s t xp route = some b) :
    (len s xp + len xp t < routeLen len route) ↔ b = true := by
  unfold estLess at h
  by_cases hr : route = [s, xp, t]
  · simp only [hr, if_true, Option.some.injEq] at h
    subst h; subst hr
    simp [routeLen, legs]
  · simp only [hr, if_false] at h
    obtain ⟨l1, u1⟩ := seg_encl len hE k s xp
    obtain ⟨l2, u2⟩ := seg_encl len hE k xp t
    obtain ⟨rl, ru⟩ := route_encl len hE k route
    have hm' : (0 : K) ≤ (m : K) := by exact_mod_cast hm
    by_cases c1 : segHi k s xp + segHi k xp t + m < routeLo k route
    · simp only [c1, if_true, Option.some.injEq] at h
      subst h
      have : ((segHi k s xp + segHi k xp t + m : Rat) : K) < ((routeLo k route : Rat) : K) := Rat.cast_lt.mpr c1
      push_cast at this
      simp only [iff_true]
      linarith
    · simp only [c1, if_false] at h
      by_cases c2 : routeHi k route + m ≤ segLo k s xp + segLo k xp t
      · simp only [c2, if_true, Option.some.injEq] at h
        subst h
        have : ((routeHi k route + m : Rat) : K) ≤ ((segLo k s xp + segLo k xp t : Rat) : K) := Rat.cast_le.mpr c2
        push_cast at this
        simp only [Bool.false_eq_true, iff_false, not_lt]
        linarith
      · simp only [c2, if_false] at h
        exact absurd h (by simp)

end Removal

/-! ### the estimate is only a heuristic: closed witness (replayed against the C++: harness case 1000002) -/


open Witness in
/-- **removal_witness_flagged.** The scene that defeated the estimate before it took the offsets in absolute
    value (the route bends at B only; deleting O opens a strictly shorter route through sides of O whose lines
    separate `s` from `t`): test (c) now flags the connector, certainly (enclosures, margin 0). -/
theorem removal_witness_flagged :
    ((legs oldRoute).all fun l => !segHitsInterior O l.1 l.2 && !segHitsInterior B l.1 l.2) = true ∧
    ((flagTxn (estLess 30 0) rp rp acts rst0).conns.map fun c => (c.id, c.needsReroute, c.alerted, c.unsure))
      = [(3, true, false, false)] ∧
    ((legs newRoute).all fun l => !segHitsInterior B l.1 l.2) = true ∧
    routeHi 30 newRoute < routeLo 30 oldRoute := by
  refine ⟨by decide +kernel, by decide +kernel, by decide +kernel, by decide +kernel⟩

/-! ### non-vacuity (fAudit): joint instances of the hypotheses of the theorems above -/

section NonVacuity
open AdaptaVerif.Model.Geometry (inPoly)
open AdaptaVerif.Lemmas.Route (rectPoly)
open AdaptaVerif.Lemmas.RerouteContains

-- non-vacuity of `txnOf_spec` (both branches occur)
example : (txnOf (AdaptaVerif.Model.ActionQueue.run AdaptaVerif.Model.ActionQueue.init [.addObst false 1 [⟨0, 0⟩, ⟨4, 0⟩, ⟨4, 4⟩, ⟨0, 4⟩]])
    .processTransaction).isSome = true ∧
    txnOf AdaptaVerif.Model.ActionQueue.init (.addObst false 1 [⟨0, 0⟩, ⟨4, 0⟩, ⟨4, 4⟩, ⟨0, 4⟩]) = none := by decide +kernel

-- non-vacuity of `touched_or_blocked_edge_flags`, first disjunct: in the `Witness` state the first registered edge of
-- connector 3 ends at a corner of obstacle 2, which is removed
example := touched_or_blocked_edge_flags 3 (estLess 30 0) Witness.rp Witness.rp [{ kind := .remove, id := 2 }] Witness.rst0
  (Witness.rst0.regs[0]'(by decide +kernel)) (by decide +kernel) (List.getElem_mem _) (by decide +kernel)
  { kind := .remove, id := 2 } (by simp) (Or.inl ⟨Or.inl rfl, by decide +kernel⟩)
-- … second disjunct: a square [-9,-7]×[5,8] added across that edge
example := touched_or_blocked_edge_flags 3 (estLess 30 0) Witness.rp
  (fun id => if id = 5 then rectPoly (-9) 5 (-7) 8 else Witness.rp id) [{ kind := .add, id := 5 }] Witness.rst0
  (Witness.rst0.regs[0]'(by decide +kernel)) (by decide +kernel) (List.getElem_mem _) (by decide +kernel)
  { kind := .add, id := 5 } (by simp) (Or.inr ⟨Or.inl rfl, by decide +kernel⟩)

-- non-vacuity of `endpoint_change_flags`
example := endpoint_change_flags 3 (estLess 30 0) Witness.rp Witness.rp
  [{ kind := .connChange, id := 3, conns := [(.src, .pt ⟨0, 0⟩)] }] Witness.rst0 (by decide +kernel)
  { kind := .connChange, id := 3, conns := [(.src, .pt ⟨0, 0⟩)] } (by simp) rfl rfl (by simp)
  (Witness.rst0.regs[0]'(by decide +kernel)) (List.getElem_mem _) (by decide +kernel)

-- non-vacuity of `covered_preserved` and `skip_sound_registration` (all hypotheses; one Move action): the scene `NV`
example := covered_preserved 3 NV.route (estLess 30 0) (rpOf NV.sc) (rpOf (AdaptaVerif.Model.ActionQueue.runPasses NV.sc NV.acts))
  NV.acts NV.rst (by decide) (covered_after_routing 3 _ (addConn true 3 {}) (by decide)) (by decide +kernel)
example := skip_sound_registration 3 (estLess 30 0) (rpOf NV.sc) (rpOf (AdaptaVerif.Model.ActionQueue.runPasses NV.sc NV.acts))
  NV.acts NV.rst (NV.rst.regs[0]'(by decide +kernel)) (by decide) (List.getElem_mem _) (by decide +kernel) (by decide +kernel)

-- non-vacuity of `skip_sound_leg` and `skip_sound_route_valid` (strictly convex counter-clockwise shapes): the scene `NV`,
-- old shape the square [10,12]², new shape the square [20,22]² (the Move action of `NV.acts`)
example : ∀ l ∈ legs NV.route, ∀ s ∈ [rectPoly 20 20 22 22], segHitsOriented 1 0 s l.1 l.2 = false := by
  have hC : ConvexCycle (polyEdges (rectPoly 20 20 22 22)) := ⟨by decide +kernel, by decide +kernel, by decide +kernel⟩
  have hnov : ∀ v ∈ rectPoly 20 20 22 22, ∀ t : Rat, 0 < t → t < 1 → lerp (⟨0, 0⟩ : Pt) ⟨5, 0⟩ t ≠ v := by
    intro v hv t _ _ h
    have hy : (lerp (⟨0, 0⟩ : Pt) ⟨5, 0⟩ t).y = v.y := congrArg Pt.y h
    simp only [lerp, sub_self, mul_zero, add_zero] at hy
    simp only [rectPoly, List.mem_cons, List.not_mem_nil, or_false] at hv
    rcases hv with rfl | rfl | rfl | rfl <;> simp at hy
  have hleg := skip_sound_leg (rectPoly 20 20 22 22) (NV.rst.regs[0]'(by decide +kernel)) (by decide) hC (by decide +kernel)
    (by unfold InsideOriented; decide +kernel) (by unfold InsideOriented; decide +kernel) hnov
  refine skip_sound_route_valid 3 NV.route (estLess 30 0) (rpOf NV.sc)
    (rpOf (AdaptaVerif.Model.ActionQueue.runPasses NV.sc NV.acts)) NV.acts NV.rst (by decide)
    (covered_after_routing 3 _ (addConn true 3 {}) (by decide)) (by decide +kernel)
    [rectPoly 10 10 12 12] [rectPoly 20 20 22 22] (by decide +kernel) ?_ ?_ ?_
  · intro s hs
    rw [List.mem_singleton] at hs; subst hs
    exact Or.inr ⟨_, List.mem_singleton.mpr rfl, Or.inr rfl, by decide +kernel⟩
  · intro s hs
    rw [List.mem_singleton] at hs; subst hs
    exact ⟨by decide, hC⟩
  · intro l hl s hs
    rw [List.mem_singleton] at hs; subst hs
    have hl' : l = (⟨0, 0⟩, ⟨5, 0⟩) := by simpa [NV.route, legs] using hl
    subst hl'
    exact ⟨by unfold InsideOriented; decide +kernel, by unfold InsideOriented; decide +kernel, hnov⟩

namespace NVC
def sq0 : List Pt := [⟨3, -3⟩, ⟨3, 3⟩, ⟨-3, 3⟩, ⟨-3, -3⟩]          -- around the end point (0,0)
def sq1 : List Pt := [⟨13, -3⟩, ⟨13, 3⟩, ⟨7, 3⟩, ⟨7, -3⟩]          -- away from it
def rpOld : Polys := fun o => if o = 1 then sq0 else sq1
def rpNew : Polys := fun o => if o = 2 then sq0 else sq1
def acts : List Action := [{ kind := .move, id := 1 }, { kind := .add, id := 2 }]
def cs : List CEntry := [{ key := VKey.ofEnd 9 .src, pt := ⟨0, 0⟩, ids := [1] }]
end NVC

open NVC in
-- non-vacuity of `contains_incremental_eq_scratch` (all four hypotheses): obstacle 1 (around the end point) is moved
-- away, obstacle 2 is added around it; old active set [1], new active set [2, 1]
example : ∀ e ∈ cTxn [2, 1] rpNew acts cs, e.scratch [2, 1] rpNew := by
  refine contains_incremental_eq_scratch [1] [2, 1] rpOld rpNew acts cs ?_ ?_ ?_ ?_
  · intro o
    simp only [acts, isRM, isAM, List.mem_cons, List.not_mem_nil, or_false, forall_eq_or_imp, forall_eq, exists_eq_or_imp,
      exists_eq_left]
    constructor
    · rintro (rfl | rfl)
      · exact Or.inr (Or.inr ⟨by decide, rfl⟩)
      · exact Or.inr (Or.inl ⟨by decide, rfl⟩)
    · rintro (⟨rfl, _⟩ | ⟨_, rfl⟩ | ⟨_, rfl⟩) <;> simp
  · intro o _ h2 ho
    simp only [List.mem_singleton] at ho
    subst ho
    exact h2 { kind := .move, id := 1 } (by simp [acts]) ⟨by decide, rfl⟩
  · intro o h1 h2
    have n1 : o ≠ 1 := fun e => h1 { kind := .move, id := 1 } (by simp [acts]) ⟨by decide, e.symm⟩
    have n2 : o ≠ 2 := fun e => h2 ⟨{ kind := .add, id := 2 }, by simp [acts], by decide, e.symm⟩
    simp [rpNew, rpOld, n1, n2]
  · intro e he
    simp only [cs, List.mem_singleton] at he
    subst he
    intro o
    simp only [List.mem_singleton]
    constructor
    · rintro rfl; exact ⟨rfl, by decide +kernel⟩
    · rintro ⟨h, _⟩; exact h

-- non-vacuity of `removal_flag_complete` / `removal_complete_shorter_path` (hence of `removal_estimate_min_horizontal`) over
-- K = ℚ with the 1-norm and an oracle that always answers "shorter": removed box [4,6]×[0,4], current route
-- (0,5) → (5,20) → (10,5) of length L = 40, the path (0,5) → (5,4) → (10,5) through the top side has length 12
example : couldBeShorter (fun _ _ _ _ => some true) (rectPoly 4 0 6 4) [⟨0, 5⟩, ⟨5, 20⟩, ⟨10, 5⟩] = some true := by
  have hN : IsNorm (fun u v : Rat => |u| + |v|) :=
    { tri := by intro u1 u2 v1 v2; have h1 := abs_add_le u1 v1; have h2 := abs_add_le u2 v2; show _ ≤ _; linarith
      homog := by
        intro k u1 u2 hk; show |k * u1| + |k * u2| = k * (|u1| + |u2|); rw [abs_mul, abs_mul, abs_of_nonneg hk]; ring
      reflX := by intro u1 u2; show |-u1| + |u2| = |u1| + |u2|; rw [abs_neg]
      reflY := by intro u1 u2; show |u1| + |-u2| = |u1| + |u2|; rw [abs_neg]
      swap := by intro u1 u2; show |u1| + |u2| = |u2| + |u1|; rw [add_comm] }
  refine removal_complete_shorter_path (fun u v : Rat => |u| + |v|) hN (fun _ _ _ _ => some true) (rectPoly 4 0 6 4)
    [⟨0, 5⟩, ⟨5, 20⟩, ⟨10, 5⟩] ⟨0, 5⟩ ⟨10, 5⟩ rfl rfl 40 (fun _ _ => rfl) (by unfold Rectilinear; decide +kernel)
    (⟨6, 4⟩, ⟨4, 4⟩) (by simp [rectPoly, polyEdges]) ⟨5, 4⟩ (Or.inl ⟨rfl, by decide +kernel, ?_, rfl, by decide +kernel, by decide +kernel⟩)
    [⟨0, 5⟩] [⟨10, 5⟩] rfl rfl ?_
  · norm_num
  · simp only [List.cons_append, List.nil_append, polyLen, D]
    norm_num [abs_of_nonneg, abs_of_nonpos]

-- … and through a vertical side (`removal_estimate_min_vertical`): the same box, start (8,0) and end (8,4) right of the
-- side x = 6, the path via (6,2) has length 8 < 40
example : couldBeShorter (fun _ _ _ _ => some true) (rectPoly 4 0 6 4) [⟨8, 0⟩, ⟨30, 2⟩, ⟨8, 4⟩] = some true := by
  have hN : IsNorm (fun u v : Rat => |u| + |v|) :=
    { tri := by intro u1 u2 v1 v2; have h1 := abs_add_le u1 v1; have h2 := abs_add_le u2 v2; show _ ≤ _; linarith
      homog := by
        intro k u1 u2 hk; show |k * u1| + |k * u2| = k * (|u1| + |u2|); rw [abs_mul, abs_mul, abs_of_nonneg hk]; ring
      reflX := by intro u1 u2; show |-u1| + |u2| = |u1| + |u2|; rw [abs_neg]
      reflY := by intro u1 u2; show |u1| + |-u2| = |u1| + |u2|; rw [abs_neg]
      swap := by intro u1 u2; show |u1| + |u2| = |u2| + |u1|; rw [add_comm] }
  refine removal_flag_complete (fun u v : Rat => |u| + |v|) hN (fun _ _ _ _ => some true) (rectPoly 4 0 6 4)
    [⟨8, 0⟩, ⟨30, 2⟩, ⟨8, 4⟩] ⟨8, 0⟩ ⟨8, 4⟩ rfl rfl 40 (fun _ _ => rfl) (by unfold Rectilinear; decide +kernel)
    (⟨6, 0⟩, ⟨6, 4⟩) (by simp [rectPoly, polyEdges]) ⟨6, 2⟩ (Or.inr ⟨by decide +kernel, rfl, ?_, rfl, by decide +kernel, by decide +kernel⟩) ?_
  · norm_num
  · simp only [D]
    norm_num [abs_of_nonneg, abs_of_nonpos]

-- non-vacuity of `estLess_sound`: the hypothesis `estLess … = some b` occurs with both answers (`IsEuclid` holds for
-- K = ℝ, `len p q = √dist2`; checked in scratch only — `Real.sqrt` is not imported here)
example : estLess 30 0 ⟨0, 0⟩ ⟨10, 0⟩ ⟨5, 1⟩ [⟨0, 0⟩, ⟨5, 20⟩, ⟨10, 0⟩] = some true ∧
    estLess 30 0 ⟨0, 0⟩ ⟨10, 0⟩ ⟨5, 30⟩ [⟨0, 0⟩, ⟨5, 20⟩, ⟨10, 0⟩] = some false := by decide +kernel

end NonVacuity

end AdaptaVerif.Props.C06Reroute
