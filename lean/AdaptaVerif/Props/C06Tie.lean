/-
C06 — tie theorem: `ActionInfo::operator<` (the order `actionList.sort()` of
Router::processActions uses) and the numeric values of `enum ActionType`, both regenerated from
/repo's libavoid/actioninfo.{h,cpp} on every run, are what Model/ActionQueue.lean sorts by.
-/
import AdaptaVerif.Gen.Comparators
import AdaptaVerif.Lemmas.StrictWeakOrder
import AdaptaVerif.Model.ActionQueue
namespace AdaptaVerif.Props.C06Tie
open AdaptaVerif.Gen.Comparators AdaptaVerif.Model.CmpKeys AdaptaVerif.Lemmas.SWO
open AdaptaVerif.Model.ActionQueue

/-- `a < b` in argument order (the generated function takes `rhs` first) -/
abbrev actionLess (a b : ActKey) : Bool := actionLt b a

/-- the second sort key: which id the comparator reads depends on the (common) type -/
def actSubKey (a : ActKey) : Nat :=
  if a.type = k_ConnChange then a.connId else if a.type = k_ConnectionPinChange then a.ptr else a.obstId

theorem gen_actionLt_is_lex : actionLess = cmpBy ActKey.type (cmpBy actSubKey (fun _ _ => false)) := by
  funext a b
  have k6 : k_ConnChange = 6 := rfl
  have k7 : k_ConnectionPinChange = 7 := rfl
  have e6 : ∀ n : Nat, ((n : Int) = ((6 : Nat) : Int)) ↔ n = 6 := by intro n; omega
  have e7 : ∀ n : Nat, ((n : Int) = ((7 : Nat) : Int)) ↔ n = 7 := by intro n; omega
  simp only [actionLess, actionLt, cmpBy, actSubKey, k6, k7, Int.ofNat_lt, Int.natCast_inj, ne_eq, e6, e7]
  grind

theorem actionLt_strict_weak_order : IsSWO actionLess := by
  rw [gen_actionLt_is_lex]; exact swo_cmpBy _ (swo_cmpBy _ swo_false)

/-- the order of two queued actions can depend on a heap address only when both are
    ConnectionPinChange actions (as the comment in actioninfo.cpp claims) -/
theorem actionLt_address_only_for_pin_changes (a b : ActKey) (pa pb : Nat)
    (h : a.type ≠ k_ConnectionPinChange ∨ b.type ≠ k_ConnectionPinChange) :
    actionLess { a with ptr := pa } { b with ptr := pb } = actionLess a b := by
  have k7 : k_ConnectionPinChange = 7 := rfl
  have e6 : ∀ n : Nat, ((n : Int) = ((6 : Nat) : Int)) ↔ n = 6 := by intro n; omega
  have e7 : ∀ n : Nat, ((n : Int) = ((7 : Nat) : Int)) ↔ n = 7 := by intro n; omega
  rw [k7] at h
  simp only [actionLess, actionLt, Int.ofNat_lt, Int.natCast_inj, ne_eq, e6, e7]
  grind

/-- what the comparator reads of a model action: its type's enum position and the id of its object -/
def actKey (a : Action) : ActKey := { type := a.rank, ptr := 0, connId := a.id, obstId := a.id }

/-- the model's ranks ARE the positions in `enum ActionType` read from actioninfo.h -/
theorem gen_action_ranks_are_model :
    (∀ id, (Action.rank { kind := .move, isJ := false, id := id }) = k_ShapeMove) ∧
    (∀ id, (Action.rank { kind := .add, isJ := false, id := id }) = k_ShapeAdd) ∧
    (∀ id, (Action.rank { kind := .remove, isJ := false, id := id }) = k_ShapeRemove) ∧
    (∀ id, (Action.rank { kind := .move, isJ := true, id := id }) = k_JunctionMove) ∧
    (∀ id, (Action.rank { kind := .add, isJ := true, id := id }) = k_JunctionAdd) ∧
    (∀ id, (Action.rank { kind := .remove, isJ := true, id := id }) = k_JunctionRemove) ∧
    (∀ id, (Action.rank { kind := .connChange, id := id }) = k_ConnChange) := by
  refine ⟨?_, ?_, ?_, ?_, ?_, ?_, ?_⟩ <;> intro id <;> rfl

/-- the model's total preorder `Action.le` (what its stable insertion sort uses) is the negation of
    the generated `operator<` with the arguments swapped: `a ≤ b ↔ ¬ (b < a)` -/
theorem gen_actionLt_is_model (a b : Action) : Action.le a b = !actionLess (actKey b) (actKey a) := by
  have hr : ∀ x : Action, x.rank ≤ 6 := by
    intro x; unfold Action.rank; cases x.kind <;> cases x.isJ <;> simp
  have ha := hr a; have hb := hr b
  have e6 : ∀ n : Nat, ((n : Int) = ((6 : Nat) : Int)) ↔ n = 6 := by intro n; omega
  have e7 : ∀ n : Nat, ((n : Int) = ((7 : Nat) : Int)) ↔ n = 7 := by intro n; omega
  simp only [Action.le, actionLess, actionLt, actKey, Int.ofNat_lt, Int.natCast_inj, ne_eq, e6, e7]
  grind

example : actionLess ⟨1, 0, 0, 5⟩ ⟨6, 0, 2, 0⟩ = true ∧ actionLess ⟨6, 0, 3, 0⟩ ⟨6, 0, 2, 0⟩ = false := by decide

end AdaptaVerif.Props.C06Tie
