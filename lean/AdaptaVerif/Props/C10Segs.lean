/-
C10 / C11 — segment construction for nudging: property theorems about `Model/NudgeSegs.lean`, the executable model of
`buildOrthogonalNudgingSegments` (cola/libavoid/orthogonal.cpp) and of the sweep of `buildOrthogonalChannelInfo`
(cola/libavoid/scanline.cpp).  The model is tied to the C++ on every run: the driver recomputes, from the state read at the
start of every nudging pass, the segment list and compares it with the regions the hook dumps (Driver/C10.lean, `checkPassSegs`).

All theorems quantify over ALL routes (any number of points, any coordinates), checkpoint caches, obstacle lists and options.
(a) first / last segments; (b) checkpoints; (c) limits contain the position; (d) symmetries (reversing a connector,
transposition); (e) the channel sweep.  Proof work: Lemmas/NudgeSegs{,Spec,Rev,Swap,Channel}.lean.
The rule for first / last segments is fixer fC14's `Model/FinalSegLimits.lean` (imported by the model, not copied): the theorems
of Props/C14Limits.lean (`finalLimits_within`, `finalLimits_end_stays_inside`, …) apply to this model verbatim.
-/
import AdaptaVerif.Lemmas.NudgeSegsSpec
import AdaptaVerif.Lemmas.NudgeSegsRev
import AdaptaVerif.Lemmas.NudgeSegsSwap
import AdaptaVerif.Lemmas.NudgeSegsChannel
namespace AdaptaVerif.Props.C10Segs
open AdaptaVerif.Model AdaptaVerif.Model.NudgeSegs AdaptaVerif.Model.NudgeRegion AdaptaVerif.Model.FinalSegLimits
open AdaptaVerif.Lemmas

/-! ### (a) first and last segments -/

/-- option nudgeOrthogonalSegmentsConnectedToShapes OFF: the first and the last segment of every connector are fixed
    (no room: limits = position), whatever the obstacles -/
theorem end_segment_fixed_without_option (lims : List Rect) (dim : Nat) (c : Conn) (i : Nat) (s : MSeg)
    (hend : i = 1 ∨ i + 1 = c.ps.length) (h : segAt false lims dim c i = some s) :
    s.seg.fixed = true ∧ s.seg.minLim = s.seg.pos ∧ s.seg.maxLim = s.seg.pos :=
  NudgeSegsSpec.end_segment_fixed_without_option lims dim c i s hend h

/-- option ON: a first / last segment (`a`, `b` its two route points, in route order) is either fixed, or a final segment
    limited to the extent of EVERY shape rectangle that contains one of its two ends and, when no rectangle contains an end,
    to ±15 around its position; `endsInShape` says whether some rectangle contains an end.  Junctions are degenerate
    rectangles (position twice): an end on a junction gives limits = position, i.e. the fixed alternative. -/
theorem end_segment_rule (lims : List Rect) (dim : Nat) (c : Conn) (i : Nat) (s : MSeg) (a b : Pt)
    (hend : i = 1 ∨ i + 1 = c.ps.length) (ha : c.ps[i - 1]? = some a) (hb : c.ps[i]? = some b)
    (h : segAt true lims dim c i = some s) :
    (s.seg.fixed = true ∧ s.seg.minLim = s.seg.pos ∧ s.seg.maxLim = s.seg.pos) ∨
    (s.seg.fixed = false ∧ s.seg.finalSeg = true ∧ s.seg.sBend = false ∧ s.seg.zBend = false ∧
      s.seg.minLim = (finalLimits (decide (dim = 0)) a b lims).lo ∧ s.seg.maxLim = (finalLimits (decide (dim = 0)) a b lims).hi ∧
      s.seg.endsInShape = (lims.any (insideBounds a) || lims.any (insideBounds b)) ∧
      (∀ r ∈ lims, insideBounds a r = true ∨ insideBounds b r = true →
        Rect.lo r (decide (dim = 0)) ≤ s.seg.minLim ∧ s.seg.maxLim ≤ Rect.hi r (decide (dim = 0))) ∧
      (lims.any (insideBounds a) = false ∧ lims.any (insideBounds b) = false →
        s.seg.pos - 15 ≤ s.seg.minLim ∧ s.seg.maxLim ≤ s.seg.pos + 15)) :=
  NudgeSegsSpec.end_segment_rule lims dim c i s a b hend ha hb h

/-- BOTH ends symmetrically: the last segment of a connector gets exactly what the first segment of the reversed connector
    gets (indexes mirrored).  (Seeds C14-5 — `ps[i-1]` tested twice — and C12-4 break exactly this in the C++.) -/
theorem last_segment_is_first_of_reversed (nf : Bool) (lims : List Rect) (dim : Nat) (c : Conn) (hc : NudgeSegsRev.CacheOk c)
    (hn : 2 ≤ c.ps.length) :
    segAt nf lims dim c.rev 1 = (segAt nf lims dim c (c.ps.length - 1)).map (MSeg.mirror c.ps.length) := by
  have h := NudgeSegsRev.segAt_rev nf lims dim c hc (c.ps.length - 1) (by omega) (by omega)
  have e : c.ps.length - (c.ps.length - 1) = 1 := by omega
  rwa [e] at h

/-! ### (b) checkpoints -/

/-- option off: a route segment with a checkpoint on it (ends included) becomes a fixed shift segment: no room, and no
    checkpoints recorded on it (seed C10-4 copies them) -/
theorem checkpoint_segment_is_fixed (lims : List Rect) (dim : Nat) (c : Conn) (i : Nat) (s : MSeg)
    (h : segAt false lims dim c i = some s) (hcp : cpsOnSegment c.cache (i - 1) 0 ≠ []) :
    s.seg.fixed = true ∧ s.seg.minLim = s.seg.pos ∧ s.seg.maxLim = s.seg.pos ∧ s.seg.cps = [] :=
  NudgeSegsSpec.checkpoint_segment_fixed lims dim c i s h hcp

/-- a shiftable middle segment: every checkpoint on the FOLLOWING segment (corner at this segment excluded) and on the
    PRECEDING one bounds the limit on its own side: a smaller coordinate bounds `minLim` from below, a larger one bounds
    `maxLim` from above — so the segment cannot be shifted past the checkpoint (seeds C10 / C11-4 write `max` for `min`) -/
theorem adjacent_checkpoint_bounds (nf : Bool) (lims : List Rect) (dim : Nat) (c : Conn) (i : Nat) (s : MSeg)
    (h : segAt nf lims dim c i = some s) (hmid : ¬ (i = 1 ∨ i + 1 = c.ps.length)) (hfree : s.seg.fixed = false)
    (cp : Pt) (hcp : cp ∈ cpsOnSegment c.cache i 1 ∨ cp ∈ cpsOnSegment c.cache (i - 2) 2) :
    (cp.c dim < s.seg.pos → cp.c dim ≤ s.seg.minLim) ∧ (s.seg.pos < cp.c dim → s.seg.maxLim ≤ cp.c dim) :=
  NudgeSegsSpec.adjacent_checkpoint_bounds nf lims dim c i s h hmid hfree cp hcp

/-- Cache entries whose index lies beyond the route (`> 2·(n−1)`) are never selected for any segment of the route: they protect
    nothing.  Such entries EXIST in the C++: `simplifyOrthogonalRoutes` replaces the display route by `displayRoute().simplify()`
    through `ConnRef::set_route`, which copies the points only, so after a simplification that removed points (the unifying pass
    aligned two segments) the cache keeps the indexes of the longer route (counted by the driver: `segtie.cache-stale`;
    reports/bN1.md, finding 4). -/
theorem stale_cache_entries_protect_nothing (cache : List (Nat × Pt)) (n s mode : Nat) (hs : s + 2 ≤ n) :
    cpsOnSegment cache s mode = cpsOnSegment (cache.filter (fun e => decide (e.1 ≤ 2 * (n - 1)))) s mode := by
  unfold cpsOnSegment
  simp only [List.filter_filter]
  congr 1
  apply List.filter_congr
  intro e _
  by_cases h1 : mode = 1 <;> by_cases h2 : mode = 2 <;> simp [h1, h2] <;> omega

/-! ### (c) consistency of the limits; bends -/

/-- every generated segment (positions within ±CHANNEL_MAX): minLim ≤ pos ≤ maxLim -/
theorem limits_contain_pos (nf : Bool) (lims : List Rect) (dim : Nat) (c : Conn) (i : Nat) (s : MSeg)
    (h : segAt nf lims dim c i = some s) (h1 : -NudgeRegion.channelMax ≤ s.seg.pos) (h2 : s.seg.pos ≤ NudgeRegion.channelMax) :
    s.seg.minLim ≤ s.seg.pos ∧ s.seg.pos ≤ s.seg.maxLim :=
  NudgeSegsSpec.limits_contain_pos nf lims dim c i s h h1 h2

/-- … also after the channel sweep, for every segment handed to `nudgeOrthogonalRoutes` -/
theorem pass_limits_contain_pos (tie pz nf : Bool) (obs : List Obs) (dim : Nat) (conns : List Conn) (s : MSeg)
    (hs : s ∈ passSegs tie pz nf obs dim conns) (h1 : -NudgeRegion.channelMax ≤ s.seg.pos) (h2 : s.seg.pos ≤ NudgeRegion.channelMax) :
    s.seg.minLim ≤ s.seg.pos ∧ s.seg.pos ≤ s.seg.maxLim := by
  simp only [passSegs, List.mem_map] at hs
  obtain ⟨s0, hs0, rfl⟩ := hs
  apply NudgeSegsChannel.withChannel_contains_pos
  simp only [buildSegs] at hs0
  split at hs0
  · simp at hs0
  · simp only [List.mem_flatMap, connSegs, List.mem_filterMap] at hs0
    obtain ⟨c, _, i, _, hi⟩ := hs0
    exact NudgeSegsSpec.limits_contain_pos _ _ _ _ _ _ hi h1 h2

/-- s-bend / z-bend: only shiftable middle segments are zigzags, never both; the limits lie between the positions of the two
    adjoining segments and the flags say on which side each of them lies -/
theorem zigzag_limits (nf : Bool) (lims : List Rect) (dim : Nat) (c : Conn) (i : Nat) (s : MSeg) (pv nx : Pt)
    (h : segAt nf lims dim c i = some s) (hz : s.seg.sBend = true ∨ s.seg.zBend = true)
    (hpv : c.ps[i - 2]? = some pv) (hnx : c.ps[i + 1]? = some nx) :
    s.seg.fixed = false ∧ s.seg.finalSeg = false ∧ ¬ (s.seg.sBend = true ∧ s.seg.zBend = true) ∧
    min (pv.c dim) (nx.c dim) ≤ s.seg.minLim ∧ s.seg.maxLim ≤ max (pv.c dim) (nx.c dim) ∧
    (s.seg.zBend = true → pv.c dim < s.seg.pos ∧ s.seg.pos < nx.c dim) ∧
    (s.seg.sBend = true → nx.c dim < s.seg.pos ∧ s.seg.pos < pv.c dim) :=
  NudgeSegsSpec.zigzag_limits nf lims dim c i s pv nx h hz hpv hnx

/-- what a shift segment is: a route segment of positive length running in the processed dimension -/
theorem segment_geometry (nf : Bool) (lims : List Rect) (dim : Nat) (c : Conn) (i : Nat) (s : MSeg)
    (h : segAt nf lims dim c i = some s) :
    ∃ a b, 1 ≤ i ∧ c.ps[i - 1]? = some a ∧ c.ps[i]? = some b ∧ a.c dim = b.c dim ∧ s.seg.pos = a.c dim ∧ s.seg.conn = c.id ∧
      s.seg.lo = min (a.c (alt dim)) (b.c (alt dim)) ∧ s.seg.hi = max (a.c (alt dim)) (b.c (alt dim)) ∧ s.seg.lo < s.seg.hi ∧
      ((s.idxLow = i - 1 ∧ s.idxHigh = i) ∨ (s.idxLow = i ∧ s.idxHigh = i - 1)) :=
  NudgeSegsSpec.segAt_basic nf lims dim c i s h

/-! ### (d) symmetries -/

/-- reversing a connector (points in the opposite order, checkpoint cache re-indexed): the same segments in the opposite
    order, indexes mirrored, s-bend ↔ z-bend, everything else — limits, fixed, final, endsInShape, single — equal -/
theorem segs_reverse_symmetry (nf : Bool) (lims : List Rect) (dim : Nat) (c : Conn) (hc : NudgeSegsRev.CacheOk c) :
    connSegs nf lims dim c.rev = ((connSegs nf lims dim c).map (MSeg.mirror c.ps.length)).reverse :=
  NudgeSegsRev.connSegs_rev nf lims dim c hc

/-- transposition (x ↔ y in every point and rectangle, other dimension processed): the same segment list, limits after the
    sweep included; for every `dim` (`alt 0 = 1`, `alt 1 = 0`) -/
theorem segs_transpose_invariant (tie pz nf : Bool) (obs : List Obs) (dim : Nat) (conns : List Conn) :
    passSegs tie pz nf (obs.map Obs.swap) (alt dim) (conns.map Conn.swap) = passSegs tie pz nf obs dim conns :=
  NudgeSegsSwap.passSegs_swap tie pz nf obs dim conns

/-! ### (e) the channel sweep -/

/-- the sweep only tightens the limits it is given -/
theorem channel_only_tightens (tie : Bool) (so : List SO) (s : MSeg) :
    s.seg.minLim ≤ (withChannel tie so s).seg.minLim ∧ (withChannel tie so s).seg.maxLim ≤ s.seg.maxLim :=
  NudgeSegsChannel.withChannel_tightens tie so s

/-- a fixed segment keeps `[pos, pos]` -/
theorem channel_keeps_fixed (tie : Bool) (so : List SO) (s : MSeg) (h : s.seg.minLim = s.seg.pos ∧ s.seg.maxLim = s.seg.pos) :
    (withChannel tie so s).seg.minLim = s.seg.pos ∧ (withChannel tie so s).seg.maxLim = s.seg.pos :=
  NudgeSegsChannel.withChannel_fixed tie so s h

/-- every lower (upper) bound the sweep applies is the far (near) side of an obstacle of the scan line that lies at or before
    (after) the segment and whose extent meets the segment's extent — whatever the address order of equal scan-line nodes -/
theorem channel_bounds_are_facing_obstacle_sides (tie : Bool) (so : List SO) (p lo hi : Rat) (hlh : lo ≤ hi)
    (hwf : ∀ o ∈ so, o.amin ≤ o.amax) :
    (∀ x ∈ scanMinBounds tie so p lo hi, ∃ o ∈ so, x = o.mx ∧ o.mx ≤ p ∧ o.amin ≤ hi ∧ lo ≤ o.amax) ∧
    (∀ x ∈ scanMaxBounds tie so p lo hi, ∃ o ∈ so, x = o.mn ∧ p ≤ o.mn ∧ o.amin ≤ hi ∧ lo ≤ o.amax) :=
  ⟨NudgeSegsChannel.scanMinBounds_sound tie so p lo hi hlh hwf, NudgeSegsChannel.scanMaxBounds_sound tie so p lo hi hlh hwf⟩

/-- As coded, `firstObstacleAbove` walks the scan line in the order of the obstacles' MID coordinates and stops at the first one
    lying completely before the segment; with overlapping obstacles that is not the nearest side.  Closed witness: a segment
    at 10 with extent [0,10]; obstacle A = [4,6] (mid 5) and obstacle B = [0,8] (mid 4), both spanning [-5,15] in the other
    dimension (their Open / Close events lie outside the segment's extent, so `markShiftSegments…` never sees the segment):
    the sweep's only lower bound is A's side 6 although B reaches up to 8 — the segment may be shifted into B.
    (Not a clause of the property text; overlapping shapes only.) -/
theorem sweep_orders_by_mid_witness :
    let a : SO := ⟨5, 4, 6, -5, 15⟩
    let b : SO := ⟨4, 0, 8, -5, 15⟩
    scanMinBounds false [a, b] 10 0 10 = [6, 6] ∧ scanMinBounds true [a, b] 10 0 10 = [6, 6] ∧ b.mx ≤ 10 ∧ 6 < b.mx := by
  decide +kernel

/-! ### (f) `linesort` merging two aligned segments of one connector (`mergeWith`) -/

/-- the merged segment may move only where BOTH could; when that interval is not empty its new position lies in it, and
    between the two old positions if those were inside it; flags and checkpoints are the survivor's -/
theorem merge_respects_limits (a b : RSeg) :
    (mergeSeg a b).minLim = max a.minLim b.minLim ∧ (mergeSeg a b).maxLim = min a.maxLim b.maxLim ∧
    (a.minLim ≤ (mergeSeg a b).minLim ∧ b.minLim ≤ (mergeSeg a b).minLim ∧ (mergeSeg a b).maxLim ≤ a.maxLim ∧ (mergeSeg a b).maxLim ≤ b.maxLim) ∧
    ((mergeSeg a b).minLim ≤ (mergeSeg a b).maxLim → (mergeSeg a b).minLim ≤ (mergeSeg a b).pos ∧ (mergeSeg a b).pos ≤ (mergeSeg a b).maxLim) ∧
    ((mergeSeg a b).minLim ≤ min a.pos b.pos → max a.pos b.pos ≤ (mergeSeg a b).maxLim →
      min a.pos b.pos ≤ (mergeSeg a b).pos ∧ (mergeSeg a b).pos ≤ max a.pos b.pos) ∧
    (mergeSeg a b).fixed = a.fixed ∧ (mergeSeg a b).finalSeg = a.finalSeg ∧ (mergeSeg a b).cps = a.cps ∧ (mergeSeg a b).conn = a.conn := by
  simp only [mergeSeg]
  refine ⟨trivial, trivial, ⟨by grind, by grind, by grind, by grind⟩, ?_, ?_, trivial, trivial, trivial, trivial⟩
  · intro h; constructor <;> grind
  · intro h1 h2
    split
    · constructor <;> grind
    · split
      · constructor <;> grind
      · constructor <;> grind

/-! ### non-vacuity: closed witnesses, evaluated by the kernel -/

/-- a Z-shaped connector with a checkpoint strictly inside its first segment -/
def zc : Conn := { id := 7, fixedRoute := false, ps := [⟨0, 0⟩, ⟨0, 10⟩, ⟨20, 10⟩, ⟨20, 30⟩], cache := [(1, ⟨0, 5⟩)] }

-- the middle segment is a z-bend limited by the checkpoint (5) below and the last segment (30) above
example : (segAt false [] 1 zc 2).map (fun s => (s.seg.zBend, s.seg.sBend, s.seg.minLim, s.seg.maxLim, s.seg.fixed)) = some (true, false, 5, 30, false) := by
  decide +kernel
-- travelled the other way round it is an s-bend with the same limits
example : (segAt false [] 1 zc.rev 2).map (fun s => (s.seg.zBend, s.seg.sBend, s.seg.minLim, s.seg.maxLim, s.seg.fixed)) = some (false, true, 5, 30, false) := by
  decide +kernel
-- the first segment carries the checkpoint: fixed
example : (segAt false [] 0 zc 1).map (fun s => (s.seg.fixed, s.seg.minLim, s.seg.maxLim)) = some (true, 0, 0) := by decide +kernel
example : cpsOnSegment zc.cache 0 0 ≠ [] := by decide +kernel
example : NudgeSegsRev.CacheOk zc := by intro e he; simp [zc] at he; subst he; decide
-- option on, source inside a shape [-5,5]×[-8,8]: final segment limited to the shape's extent
example : (segAt true [⟨-5, -8, 5, 8⟩] 0 zc 1).map (fun s => (s.seg.fixed, s.seg.finalSeg, s.seg.endsInShape, s.seg.minLim, s.seg.maxLim)) =
    some (false, true, true, -5, 5) := by decide +kernel
-- option on, free target: ±15; an obstacle [8,12]×[12,20] facing the last segment (x = 20, y ∈ [10,30]) tightens 5 to 12
example : (passSegs false false true [⟨.shape, ⟨-5, -8, 5, 8⟩, ⟨-5, -8, 5, 8⟩, true⟩, ⟨.shape, ⟨8, 12, 12, 20⟩, ⟨8, 12, 12, 20⟩, true⟩] 0 [{ zc with cache := [] }]).map
      (fun s => (s.seg.minLim, s.seg.maxLim)) = [(-5, 5), (12, 35)] := by decide +kernel

/-! ### joint non-vacuity: ALL hypotheses of a theorem on one instance, and the theorem instantiated on it -/

/-- the middle (z-bend) segment of `zc` in dimension 1 -/
def zcMid : MSeg := ⟨1, 2, ⟨7, 0, 20, 10, 5, 30, false, false, false, false, false, true, []⟩⟩
/-- the first segment of `zc` in dimension 0, option off (fixed: end segment, and it carries the checkpoint) -/
def zcFirstOff : MSeg := ⟨0, 1, ⟨7, 0, 10, 0, 0, 0, true, false, false, false, false, false, []⟩⟩
/-- the first segment of `zc` in dimension 0, option on, source inside the shape [-5,5]×[-8,8] -/
def zcFirstOn : MSeg := ⟨0, 1, ⟨7, 0, 10, 0, -5, 5, false, true, true, false, false, false, []⟩⟩

-- non-vacuity (joint) of `end_segment_fixed_without_option`, `checkpoint_segment_is_fixed`
example : segAt false [] 0 zc 1 = some zcFirstOff ∧ (1 = 1 ∨ 1 + 1 = zc.ps.length) ∧ cpsOnSegment zc.cache (1 - 1) 0 ≠ [] ∧
    zcFirstOff.seg.fixed = true ∧ zcFirstOff.seg.cps = [] :=
  have h : segAt false [] 0 zc 1 = some zcFirstOff := by decide +kernel
  have hc : cpsOnSegment zc.cache (1 - 1) 0 ≠ [] := by decide +kernel
  ⟨h, Or.inl rfl, hc, (end_segment_fixed_without_option [] 0 zc 1 _ (Or.inl rfl) h).1,
    (checkpoint_segment_is_fixed [] 0 zc 1 _ h hc).2.2.2⟩

-- non-vacuity (joint) of `end_segment_rule` (the second alternative: a final segment limited to the shape)
example : segAt true [⟨-5, -8, 5, 8⟩] 0 zc 1 = some zcFirstOn ∧ zc.ps[1 - 1]? = some ⟨0, 0⟩ ∧ zc.ps[1]? = some ⟨0, 10⟩ ∧
    zcFirstOn.seg.fixed = false ∧ -5 ≤ zcFirstOn.seg.minLim ∧ zcFirstOn.seg.maxLim ≤ 5 := by
  have h : segAt true [⟨-5, -8, 5, 8⟩] 0 zc 1 = some zcFirstOn := by decide +kernel
  refine ⟨h, rfl, rfl, rfl, ?_⟩
  rcases end_segment_rule [⟨-5, -8, 5, 8⟩] 0 zc 1 _ ⟨0, 0⟩ ⟨0, 10⟩ (Or.inl rfl) rfl rfl h with hf | hr
  · exact absurd hf.1 (by decide)
  · exact hr.2.2.2.2.2.2.2.1 ⟨-5, -8, 5, 8⟩ (List.mem_singleton.mpr rfl) (Or.inl (by decide +kernel))

-- non-vacuity (joint) of `adjacent_checkpoint_bounds`, `zigzag_limits`, `limits_contain_pos`, `segment_geometry`:
-- the middle segment of `zc`, the checkpoint (0,5) on the preceding segment
example : segAt false [] 1 zc 2 = some zcMid ∧ ¬ (2 = 1 ∨ 2 + 1 = zc.ps.length) ∧ zcMid.seg.fixed = false ∧
    (⟨0, 5⟩ : Pt) ∈ cpsOnSegment zc.cache (2 - 2) 2 ∧ Pt.c ⟨0, 5⟩ 1 < zcMid.seg.pos ∧ Pt.c ⟨0, 5⟩ 1 ≤ zcMid.seg.minLim ∧
    zcMid.seg.zBend = true ∧ zc.ps[2 - 2]? = some ⟨0, 0⟩ ∧ zc.ps[2 + 1]? = some ⟨20, 30⟩ ∧
    Pt.c ⟨0, 0⟩ 1 < zcMid.seg.pos ∧ zcMid.seg.minLim ≤ zcMid.seg.pos := by
  have h : segAt false [] 1 zc 2 = some zcMid := by decide +kernel
  have hm : ¬ (2 = 1 ∨ 2 + 1 = zc.ps.length) := by decide
  have hcp : (⟨0, 5⟩ : Pt) ∈ cpsOnSegment zc.cache (2 - 2) 2 := by decide +kernel
  have hlt : Pt.c ⟨0, 5⟩ 1 < zcMid.seg.pos := by decide +kernel
  exact ⟨h, hm, rfl, hcp, hlt, (adjacent_checkpoint_bounds false [] 1 zc 2 _ h hm rfl _ (Or.inr hcp)).1 hlt, rfl, rfl, rfl,
    ((zigzag_limits false [] 1 zc 2 _ ⟨0, 0⟩ ⟨20, 30⟩ h (Or.inr rfl) rfl rfl).2.2.2.2.2.1 rfl).1,
    (limits_contain_pos false [] 1 zc 2 _ h (by decide +kernel) (by decide +kernel)).1⟩

-- non-vacuity of `last_segment_is_first_of_reversed` (both sides are `some`)
example : segAt false [] 0 zc.rev 1 = (segAt false [] 0 zc (zc.ps.length - 1)).map (MSeg.mirror zc.ps.length) ∧
    (segAt false [] 0 zc.rev 1).isSome = true :=
  ⟨last_segment_is_first_of_reversed false [] 0 zc (by intro e he; simp [zc] at he; subst he; decide) (by decide),
    by decide +kernel⟩

-- non-vacuity of `pass_limits_contain_pos`: a segment of a pass after the sweep (limit tightened to 12 by the obstacle)
example : ∃ s ∈ passSegs false false true [⟨.shape, ⟨-5, -8, 5, 8⟩, ⟨-5, -8, 5, 8⟩, true⟩, ⟨.shape, ⟨8, 12, 12, 20⟩, ⟨8, 12, 12, 20⟩, true⟩] 0
      [{ zc with cache := [] }], s.seg.minLim = 12 ∧ s.seg.pos = 20 ∧ s.seg.minLim ≤ s.seg.pos :=
  have hm : (⟨2, 3, ⟨7, 10, 30, 20, 12, 35, false, true, false, false, false, false, []⟩⟩ : MSeg) ∈
      passSegs false false true [⟨.shape, ⟨-5, -8, 5, 8⟩, ⟨-5, -8, 5, 8⟩, true⟩, ⟨.shape, ⟨8, 12, 12, 20⟩, ⟨8, 12, 12, 20⟩, true⟩] 0
        [{ zc with cache := [] }] := by decide +kernel
  ⟨_, hm, rfl, rfl, (pass_limits_contain_pos false false true _ 0 _ _ hm (by decide +kernel) (by decide +kernel)).1⟩

-- non-vacuity of `channel_bounds_are_facing_obstacle_sides`: hypotheses hold on the witness below, a bound exists
example : (∀ o ∈ [(⟨5, 4, 6, -5, 15⟩ : SO), ⟨4, 0, 8, -5, 15⟩], o.amin ≤ o.amax) ∧
    (6 : Rat) ∈ scanMinBounds false [⟨5, 4, 6, -5, 15⟩, ⟨4, 0, 8, -5, 15⟩] 10 0 10 := by
  refine ⟨?_, by decide +kernel⟩
  intro o ho; simp at ho; rcases ho with rfl | rfl <;> decide +kernel

end AdaptaVerif.Props.C10Segs
