/-
C13, part 4: which constraints a `TopologyConstraints` instance creates, and what the two `satisfy()`
rewrites do (Model/TopoCons.lean; proofs in Lemmas/TopoConsScan, TopoConsGen, TopoConsRewrite,
TopoConsBend).  Everything is quantified over ALL scenes (node lists, paths, axis `d`) and over every order
`std::sort` may give to events that `CompareEvents` leaves unordered (`tb` / `bO` / `bC`).

  scan_*            the plane-scan state machine (`scan`: sorted events, open node map, open segment list)
                    creates exactly the constraints of the closed form `consClosed`; both open lists are
                    empty at the end (the constructor's two final asserts)
  generated_sound   a generated StraightConstraint joins a segment and a node one of whose sides lies on a
                    scan line meeting the segment's span, with `nodeLeft` = the side the node centre is on
  straight_complete every visible (segment, node side) pair gets its constraint - with the as-coded
                    exceptions as explicit hypotheses; `endnode_blind_spot*` and `parallel_segment_*` are
                    those exceptions as theorems (= the registered findings C13-endnode-visibility and
                    C13-parallel-segment-bend), each with a closed witness scene
  slack_is_gap, solve_step_*   the TriConstraint of a generated constraint measures the gap between the
                    segment's line and the node's facing side on the scan line; composed with
                    `solve_move_safe`: a `solve()` move phase keeps every such gap ≥ 0, hence a node with
                    constraints on both of its scan lines stays wholly on its side of the segment
  bend_*            every interior EdgePoint has its BendConstraint unless both incident segments are
                    parallel to the scan line; its slack is the offset of the far end from the extension
                    of the reference segment
  nonOverlap_*      the separation constraints the scan creates at NodeClose events are sound and - the scan-line
                    chain lemma - transitively separate every pair of nodes sharing a scan line
  bendSatisfy_*, straightSatisfy_*, *_preserves_sides   the two rewrites keep the path's end points, remove
                    exactly the straightened bend / insert exactly the corner the segment touched, rebuild
                    the StraightConstraints of the new segments with `createStraight` (nothing transferable
                    is lost, every other constraint goes to exactly the half `destIsLeft` chooses), and -
                    applied in the tight configuration - replace every scan-line crossing by one crossing at
                    the same place (the side of every node w.r.t. the edge is unchanged)
-/
import AdaptaVerif.Lemmas.TopoConsScan
import AdaptaVerif.Lemmas.TopoConsScanNO
import AdaptaVerif.Lemmas.TopoConsGen
import AdaptaVerif.Lemmas.TopoConsStep
import AdaptaVerif.Lemmas.TopoConsRewrite
import AdaptaVerif.Lemmas.TopoConsTight
import AdaptaVerif.Lemmas.TopoConsBend
import AdaptaVerif.Lemmas.TopoConsNonOverlap
namespace AdaptaVerif.Props.C13Cons
open AdaptaVerif.Model.TopoCons AdaptaVerif.Model.TopoTransfer AdaptaVerif.Check.Topo
open AdaptaVerif.Lemmas.TopoConsScan (bOof bCof)
open AdaptaVerif.Lemmas.TopoConsGen (triOf w0 w1 w2 w1' wSg pA pB pC pSg idLt ctlIni ctlFin)
open AdaptaVerif.Lemmas.TopoConsRewrite (SplitKeeps toFirstHalf exNode exSt)
open AdaptaVerif.Lemmas.TopoConsTight (exPos)
open AdaptaVerif.Lemmas.TopoConsBend (offLine)
open AdaptaVerif.Model.Tri (TriConstraint minAlpha moveStep)
open AdaptaVerif.Spec.Tri (Feasible)
open AdaptaVerif.Lemmas.TopoConsNonOverlap (OpenAtClose Sep e0 e1 e2 ePos)

/-! ### the scan -/

/-- **The state machine is its closed form.** For every order of the events that `CompareEvents` leaves unordered (`tb`, injective on the NodeOpen resp. NodeClose events), the scan over the sorted event list creates exactly the constraints `consClosed` lists per node event. `hkeys` = the constructor's `COLA_ASSERT(r.second)`: two nodes open at the same time never have the same centre. -/
theorem scan_mem_iff (d : Nat) (tb : Ev → Nat) (nodes : List Node) (segs : List Seg)
    (hids : nodes.Pairwise (fun a b => a.id ≠ b.id))
    (hsegs : segs.Pairwise (fun a b => ¬ (a.edge = b.edge ∧ a.idx = b.idx)))
    (hpos : ∀ n ∈ nodes, n.r.lo (conj d) < n.r.hi (conj d))
    (htbO : ∀ m ∈ nodes, ∀ n ∈ nodes, m.id ≠ n.id → tb (.nodeOpen m) ≠ tb (.nodeOpen n))
    (htbC : ∀ m ∈ nodes, ∀ n ∈ nodes, m.id ≠ n.id → tb (.nodeClose m) ≠ tb (.nodeClose n))
    (hkeys : ∀ m ∈ nodes, ∀ n ∈ nodes, m.id ≠ n.id →
      m.r.lo (conj d) < n.r.hi (conj d) → n.r.lo (conj d) < m.r.hi (conj d) →
      m.r.centre d ≠ n.r.centre d)
    (x : Seg × SC) :
    x ∈ (scan d tb nodes segs).out ↔ x ∈ consClosed d (bOof tb) (bCof tb) nodes segs :=
  AdaptaVerif.Lemmas.TopoConsScan.scan_mem_iff d tb nodes segs hids hsegs hpos htbO htbC hkeys x

-- non-vacuity of the hypotheses of `scan_mem_iff` (the control scene of the harness; stable tie order) and what the
-- closed form gives there: the two StraightConstraints between the edge and node 1 (BL corner at y=21, TL corner at y=34)
private def tbId : Ev → Nat
  | .nodeOpen n => n.id | .nodeClose n => n.id | .segOpen _ => 0 | .segClose _ => 0
example :
    [w0, w1', w2].Pairwise (fun a b => a.id ≠ b.id) ∧
    [wSg].Pairwise (fun a b => ¬ (a.edge = b.edge ∧ a.idx = b.idx)) ∧
    (∀ n ∈ [w0, w1', w2], n.r.lo (conj 0) < n.r.hi (conj 0)) ∧
    (∀ m ∈ [w0, w1', w2], ∀ n ∈ [w0, w1', w2], m.id ≠ n.id → tbId (.nodeOpen m) ≠ tbId (.nodeOpen n)) ∧
    (∀ m ∈ [w0, w1', w2], ∀ n ∈ [w0, w1', w2], m.id ≠ n.id → tbId (.nodeClose m) ≠ tbId (.nodeClose n)) ∧
    (∀ m ∈ [w0, w1', w2], ∀ n ∈ [w0, w1', w2], m.id ≠ n.id →
      m.r.lo (conj 0) < n.r.hi (conj 0) → n.r.lo (conj 0) < m.r.hi (conj 0) → m.r.centre 0 ≠ n.r.centre 0) ∧
    ((consClosed 0 (bOof tbId) (bCof tbId) [w0, w1', w2] [wSg]).map fun x => (x.2.node.id, x.2.pos, x.2.ri, x.2.nodeLeft)) =
      [(1, 21, 2, false), (1, 34, 3, false)] := by
  decide +kernel

/-- The same with `hkeys` replaced by "the duplicate-key assertion of `NodeOpen::process` did not fire". -/
theorem scan_mem_iff_of_not_dupKey (d : Nat) (tb : Ev → Nat) (nodes : List Node) (segs : List Seg)
    (hids : nodes.Pairwise (fun a b => a.id ≠ b.id))
    (hsegs : segs.Pairwise (fun a b => ¬ (a.edge = b.edge ∧ a.idx = b.idx)))
    (hpos : ∀ n ∈ nodes, n.r.lo (conj d) < n.r.hi (conj d))
    (htbO : ∀ m ∈ nodes, ∀ n ∈ nodes, m.id ≠ n.id → tb (.nodeOpen m) ≠ tb (.nodeOpen n))
    (htbC : ∀ m ∈ nodes, ∀ n ∈ nodes, m.id ≠ n.id → tb (.nodeClose m) ≠ tb (.nodeClose n))
    (hdup : (scan d tb nodes segs).dupKey = false)
    (x : Seg × SC) :
    x ∈ (scan d tb nodes segs).out ↔ x ∈ consClosed d (bOof tb) (bCof tb) nodes segs :=
  AdaptaVerif.Lemmas.TopoConsScan.scan_mem_iff_of_not_dupKey d tb nodes segs hids hsegs hpos htbO htbC hdup x

/-- `COLA_ASSERT(openNodes.empty())` at the end of the constructor holds for every scene. -/
theorem scan_openNodes_empty (d : Nat) (tb : Ev → Nat) (nodes : List Node) (segs : List Seg)
    (hids : nodes.Pairwise (fun a b => a.id ≠ b.id))
    (hsegs : segs.Pairwise (fun a b => ¬ (a.edge = b.edge ∧ a.idx = b.idx)))
    (hpos : ∀ n ∈ nodes, n.r.lo (conj d) < n.r.hi (conj d)) :
    (scan d tb nodes segs).openNodes = [] :=
  AdaptaVerif.Lemmas.TopoConsScan.scan_openNodes_empty d tb nodes segs hids hsegs hpos

/-- `COLA_ASSERT(openSegments.empty())` at the end of the constructor holds for every scene. -/
theorem scan_openSegs_empty (d : Nat) (tb : Ev → Nat) (nodes : List Node) (segs : List Seg)
    (hids : nodes.Pairwise (fun a b => a.id ≠ b.id))
    (hsegs : segs.Pairwise (fun a b => ¬ (a.edge = b.edge ∧ a.idx = b.idx)))
    (hpos : ∀ n ∈ nodes, n.r.lo (conj d) < n.r.hi (conj d)) :
    (scan d tb nodes segs).openSegs = [] :=
  AdaptaVerif.Lemmas.TopoConsScan.scan_openSegs_empty d tb nodes segs hids hsegs hpos

-- non-vacuity of `scan_mem_iff_of_not_dupKey`, `scan_openNodes_empty`, `scan_openSegs_empty` (and the state-machine side
-- of `scan_mem_iff`): in the control scene above (whose `hids`/`hsegs`/`hpos`/`htbO`/`htbC` are shown there) the
-- duplicate-key flag stays false, the state machine emits the two constraints of the closed form, and both open lists
-- end empty.  (`scan` sorts with `List.mergeSort`, which `decide` cannot unfold - evaluated by `#guard`.)
#guard (scan 0 tbId [w0, w1', w2] [wSg]).dupKey = false ∧
    ((scan 0 tbId [w0, w1', w2] [wSg]).out.map fun x => (x.2.node.id, x.2.pos, x.2.ri, x.2.nodeLeft)) =
      [(1, 21, 2, false), (1, 34, 3, false)] ∧
    (scan 0 tbId [w0, w1', w2] [wSg]).openNodes = [] ∧ (scan 0 tbId [w0, w1', w2] [wSg]).openSegs = []

/-- `scanNO` is `scan` with the `cs.push_back` of `NodeClose::process` recorded. -/
theorem scanNO_fst (d : Nat) (tb : Ev → Nat) (nodes : List Node) (segs : List Seg) :
    (scanNO d tb nodes segs).1 = scan d tb nodes segs :=
  AdaptaVerif.Lemmas.TopoConsScanNO.scanNO_fst d tb nodes segs

/-- The state machine pushes exactly the non-overlap constraints of the closed form `nonOverlapClosed` (for every event order `std::sort` may produce). -/
theorem scanNO_mem_iff (d : Nat) (tb : Ev → Nat) (nodes : List Node) (segs : List Seg)
    (hids : nodes.Pairwise (fun a b => a.id ≠ b.id))
    (hsegs : segs.Pairwise (fun a b => ¬ (a.edge = b.edge ∧ a.idx = b.idx)))
    (hpos : ∀ n ∈ nodes, n.r.lo (conj d) < n.r.hi (conj d))
    (htbO : ∀ m ∈ nodes, ∀ n ∈ nodes, m.id ≠ n.id → tb (.nodeOpen m) ≠ tb (.nodeOpen n))
    (htbC : ∀ m ∈ nodes, ∀ n ∈ nodes, m.id ≠ n.id → tb (.nodeClose m) ≠ tb (.nodeClose n))
    (hkeys : ∀ m ∈ nodes, ∀ n ∈ nodes, m.id ≠ n.id →
      m.r.lo (conj d) < n.r.hi (conj d) → n.r.lo (conj d) < m.r.hi (conj d) →
      m.r.centre d ≠ n.r.centre d)
    (c : NOC) :
    c ∈ (scanNO d tb nodes segs).2 ↔ c ∈ nonOverlapClosed d (bCof tb) nodes :=
  AdaptaVerif.Lemmas.TopoConsScanNO.scanNO_mem_iff d tb nodes segs hids hsegs hpos htbO htbC hkeys c

-- non-vacuity of `scanNO_mem_iff`: three nodes in a row sharing the scan lines 0 < y < 2 (no segments): all hypotheses
-- hold and both sides are the two neighbour constraints (e0,e1), (e1,e2)
example :
    [e0, e1, e2].Pairwise (fun a b => a.id ≠ b.id) ∧
    ([] : List Seg).Pairwise (fun a b => ¬ (a.edge = b.edge ∧ a.idx = b.idx)) ∧
    (∀ n ∈ [e0, e1, e2], n.r.lo (conj 0) < n.r.hi (conj 0)) ∧
    (∀ m ∈ [e0, e1, e2], ∀ n ∈ [e0, e1, e2], m.id ≠ n.id → tbId (.nodeOpen m) ≠ tbId (.nodeOpen n)) ∧
    (∀ m ∈ [e0, e1, e2], ∀ n ∈ [e0, e1, e2], m.id ≠ n.id → tbId (.nodeClose m) ≠ tbId (.nodeClose n)) ∧
    (∀ m ∈ [e0, e1, e2], ∀ n ∈ [e0, e1, e2], m.id ≠ n.id →
      m.r.lo (conj 0) < n.r.hi (conj 0) → n.r.lo (conj 0) < m.r.hi (conj 0) → m.r.centre 0 ≠ n.r.centre 0) ∧
    nonOverlapClosed 0 (bCof tbId) [e0, e1, e2] = [mkNOC 0 e0 e1, mkNOC 0 e1 e2] := by
  decide +kernel
#guard (scanNO 0 tbId [e0, e1, e2] []).2 = [mkNOC 0 e0 e1, mkNOC 0 e1 e2]

/-! ### what is generated -/

/-- **Soundness of the generation.** Every generated StraightConstraint is between a segment of the scene (not parallel to the scan line, not attached to the node's centre) and a node of the scene, at a scan position that is the node's low or high side and lies within the segment's span (so the node's extent and the segment's span overlap in the scan direction); `nodeLeft` says on which side of the segment's line the node centre is at construction, `ri` is the node corner on that scan line facing the segment, `p`, `g` are the TriConstraint members of the C++. -/
theorem generated_sound (d : Nat) (bO bC : Node → Node → Bool) (nodes : List Node) (segs : List Seg)
    (x : Seg × SC) (hx : x ∈ consClosed d bO bC nodes segs) :
    x.1 ∈ segs ∧ x.2.node ∈ nodes ∧ x.1.parallel d = false ∧ x.1.connected x.2.node = false ∧
    (x.2.pos = x.2.node.r.lo (conj d) ∨ x.2.pos = x.2.node.r.hi (conj d)) ∧
    x.1.lo d ≤ x.2.pos ∧ x.2.pos ≤ x.1.hi d ∧
    (x.2.nodeLeft = true ↔ x.2.node.r.centre d < x.1.inter d x.2.pos) ∧
    x.2.ri = cornerFor d x.2.node x.2.pos x.2.nodeLeft ∧ x.2.ri < 4 ∧
    x.2.p = x.1.param d x.2.pos ∧
    x.2.g = straightG d x.1 x.2.node x.2.p x.2.nodeLeft ∧
    createStraight d x.1 x.2.node x.2.pos = some x.2 :=
  AdaptaVerif.Lemmas.TopoConsGen.generated_sound d bO bC nodes segs x hx

/-- **Completeness at NodeOpen events** (relative to visibility, the as-coded exceptions are the
    hypotheses `hvis`, `hcorner`). -/
theorem straight_complete_open (d : Nat) (bO : Node → Node → Bool) (nodes : List Node)
    (segs : List Seg) (n : Node) (sg : Seg) (hn : n ∈ nodes) (hsg : sg ∈ segs)
    (hspan : sg.lo d ≤ n.r.lo (conj d) ∧ n.r.lo (conj d) < sg.hi d)
    (hnc : sg.connected n = false)
    (hvis : ∀ m ∈ nodes, m.id ≠ n.id → m.r.lo (conj d) < n.r.lo (conj d) →
      n.r.lo (conj d) < m.r.hi (conj d) →
      ¬ ((sg.inter d (n.r.lo (conj d)) < m.r.centre d ∧ m.r.centre d < n.r.centre d) ∨
         (n.r.centre d < m.r.centre d ∧ m.r.centre d < sg.inter d (n.r.lo (conj d)))))
    (hcorner :
      ¬ (n.id = sg.s.node.id ∧
          cornerFor d n (n.r.lo (conj d)) (decide (n.r.centre d < sg.inter d (n.r.lo (conj d))))
            = sg.s.ri) ∧
      ¬ (n.id = sg.e.node.id ∧
          cornerFor d n (n.r.lo (conj d)) (decide (n.r.centre d < sg.inter d (n.r.lo (conj d))))
            = sg.e.ri)) :
    ∃ c, (sg, c) ∈ consAtOpen d bO nodes segs n ∧ c.node = n ∧ c.pos = n.r.lo (conj d) ∧
      (c.nodeLeft = true ↔ n.r.centre d < sg.inter d (n.r.lo (conj d))) :=
  AdaptaVerif.Lemmas.TopoConsGen.straight_complete_open d bO nodes segs n sg hn hsg hspan hnc hvis hcorner

/-- **Completeness at NodeClose events.** -/
theorem straight_complete_close (d : Nat) (bC : Node → Node → Bool) (nodes : List Node)
    (segs : List Seg) (n : Node) (sg : Seg) (hn : n ∈ nodes) (hsg : sg ∈ segs)
    (hspan : sg.lo d < n.r.hi (conj d) ∧ n.r.hi (conj d) ≤ sg.hi d)
    (hnc : sg.connected n = false)
    (hvis : ∀ m ∈ nodes, m.id ≠ n.id → m.r.lo (conj d) < n.r.hi (conj d) →
      n.r.hi (conj d) < m.r.hi (conj d) →
      ¬ ((sg.inter d (n.r.hi (conj d)) < m.r.centre d ∧ m.r.centre d < n.r.centre d) ∨
         (n.r.centre d < m.r.centre d ∧ m.r.centre d < sg.inter d (n.r.hi (conj d)))))
    (hcorner :
      ¬ (n.id = sg.s.node.id ∧
          cornerFor d n (n.r.hi (conj d)) (decide (n.r.centre d < sg.inter d (n.r.hi (conj d))))
            = sg.s.ri) ∧
      ¬ (n.id = sg.e.node.id ∧
          cornerFor d n (n.r.hi (conj d)) (decide (n.r.centre d < sg.inter d (n.r.hi (conj d))))
            = sg.e.ri)) :
    ∃ c, (sg, c) ∈ consAtClose d bC nodes segs n ∧ c.node = n ∧ c.pos = n.r.hi (conj d) ∧
      (c.nodeLeft = true ↔ n.r.centre d < sg.inter d (n.r.hi (conj d))) :=
  AdaptaVerif.Lemmas.TopoConsGen.straight_complete_close d bC nodes segs n sg hn hsg hspan hnc hvis hcorner

/-- **Completeness relative to the property.** If the scan line along a side of node `n` meets the span of segment `sg` (`hpos`), `sg` is not attached to `n`'s centre, no other node whose extent strictly contains the scan line has its centre strictly between the segment and `n` (`hvis`: visible), and the facing corner is not already the segment's own end bend (`hcorner`), then the constraint (sg, n, pos) exists, on the side the node is on. Non-vacuity: `endnode_blind_spot_control`. -/
theorem straight_complete (d : Nat) (bO bC : Node → Node → Bool) (nodes : List Node)
    (segs : List Seg) (n : Node) (sg : Seg) (hn : n ∈ nodes) (hsg : sg ∈ segs)
    (hnc : sg.connected n = false) (pos : Rat)
    (hpos : (pos = n.r.lo (conj d) ∧ sg.lo d ≤ pos ∧ pos < sg.hi d) ∨
            (pos = n.r.hi (conj d) ∧ sg.lo d < pos ∧ pos ≤ sg.hi d))
    (hvis : ∀ m ∈ nodes, m.id ≠ n.id → m.r.lo (conj d) < pos → pos < m.r.hi (conj d) →
      ¬ ((sg.inter d pos < m.r.centre d ∧ m.r.centre d < n.r.centre d) ∨
         (n.r.centre d < m.r.centre d ∧ m.r.centre d < sg.inter d pos)))
    (hcorner :
      ¬ (n.id = sg.s.node.id ∧
          cornerFor d n pos (decide (n.r.centre d < sg.inter d pos)) = sg.s.ri) ∧
      ¬ (n.id = sg.e.node.id ∧
          cornerFor d n pos (decide (n.r.centre d < sg.inter d pos)) = sg.e.ri)) :
    ∃ c, (sg, c) ∈ consClosed d bO bC nodes segs ∧ c.node = n ∧ c.pos = pos ∧
      (c.nodeLeft = true ↔ n.r.centre d < sg.inter d pos) :=
  AdaptaVerif.Lemmas.TopoConsGen.straight_complete d bO bC nodes segs n sg hn hsg hnc pos hpos hvis hcorner

-- non-vacuity of `straight_complete` (the `_open` / `_close` forms are instantiated the same way inside
-- `endnode_blind_spot_control`): the theorem applied in the control scene to node 1 at its closing scan line 34
example : ∃ c, (wSg, c) ∈ consClosed 0 idLt idLt [w0, w1', w2] [wSg] ∧ c.node = w1' ∧ c.pos = 34 ∧
    (c.nodeLeft = true ↔ w1'.r.centre 0 < wSg.inter 0 34) :=
  straight_complete 0 idLt idLt [w0, w1', w2] [wSg] w1' wSg (by simp) (by simp) (by decide +kernel) 34
    (Or.inr (by decide +kernel))
    (by
      intro m hm
      simp only [List.mem_cons, List.not_mem_nil, or_false] at hm
      rcases hm with rfl | rfl | rfl <;> decide +kernel)
    (by decide +kernel)

/-- **As-coded exception 1 (finding C13-endnode-visibility).** If the scan-line neighbour `m` of `n` has its centre beyond the segment's crossing point and the scan line strictly inside its extent, NO constraint between `sg` and `n` is created at this event - whatever `m` is, in particular when `m` is the segment's own end node, inside which the segment runs and which hides nothing. -/
theorem endnode_blind_spot (d : Nat) (bO : Node → Node → Bool) (nodes : List Node) (segs : List Seg)
    (n m : Node) (sg : Seg)
    (hL : leftNb d n (openNodesAtOpen d bO n nodes) = some m)
    (hx : sg.inter d (n.r.lo (conj d)) < m.r.centre d)
    (hm : m.r.lo (conj d) < n.r.lo (conj d) ∧ n.r.lo (conj d) < m.r.hi (conj d)) :
    ∀ c, (sg, c) ∉ consAtOpen d bO nodes segs n :=
  AdaptaVerif.Lemmas.TopoConsGen.endnode_blind_spot d bO nodes segs n m sg hL hx hm

-- non-vacuity of `endnode_blind_spot` (NodeOpen / left neighbour): the witness scene mirrored in y; the segment is open
-- at the event and not attached to the node, so the conclusion is not empty for a trivial reason
example :
    let m0 : Node := ⟨0, ⟨0, 20, 0, 20⟩⟩
    let m1 : Node := ⟨1, ⟨22, 35, 2, 15⟩⟩
    let m2 : Node := ⟨2, ⟨-40, -20, -60, -40⟩⟩
    let sg : Seg := ⟨0, 0, ⟨m0, 4⟩, ⟨m2, 4⟩⟩
    leftNb 0 m1 (openNodesAtOpen 0 idLt m1 [m0, m1, m2]) = some m0 ∧
    sg.inter 0 (m1.r.lo (conj 0)) < m0.r.centre 0 ∧
    (m0.r.lo (conj 0) < m1.r.lo (conj 0) ∧ m1.r.lo (conj 0) < m0.r.hi (conj 0)) ∧
    sg ∈ openSegsAtOpen 0 (m1.r.lo (conj 0)) [sg] ∧ sg.connected m1 = false := by
  decide +kernel

theorem endnode_blind_spot_right (d : Nat) (bO : Node → Node → Bool) (nodes : List Node)
    (segs : List Seg) (n m : Node) (sg : Seg)
    (hR : rightNb d n (openNodesAtOpen d bO n nodes) = some m)
    (hx : m.r.centre d < sg.inter d (n.r.lo (conj d)))
    (hm : m.r.lo (conj d) < n.r.lo (conj d) ∧ n.r.lo (conj d) < m.r.hi (conj d)) :
    ∀ c, (sg, c) ∉ consAtOpen d bO nodes segs n :=
  AdaptaVerif.Lemmas.TopoConsGen.endnode_blind_spot_right d bO nodes segs n m sg hR hx hm

-- non-vacuity of `endnode_blind_spot_right` (NodeOpen / right neighbour): the same scene mirrored in x
example :
    let m0 : Node := ⟨0, ⟨-20, 0, 0, 20⟩⟩
    let m1 : Node := ⟨1, ⟨-35, -22, 2, 15⟩⟩
    let m2 : Node := ⟨2, ⟨20, 40, -60, -40⟩⟩
    let sg : Seg := ⟨0, 0, ⟨m0, 4⟩, ⟨m2, 4⟩⟩
    rightNb 0 m1 (openNodesAtOpen 0 idLt m1 [m0, m1, m2]) = some m0 ∧
    m0.r.centre 0 < sg.inter 0 (m1.r.lo (conj 0)) ∧
    (m0.r.lo (conj 0) < m1.r.lo (conj 0) ∧ m1.r.lo (conj 0) < m0.r.hi (conj 0)) ∧
    sg ∈ openSegsAtOpen 0 (m1.r.lo (conj 0)) [sg] ∧ sg.connected m1 = false ∧
    consAtOpen 0 idLt [m0, m1, m2] [sg] m1 = [] := by
  decide +kernel

theorem endnode_blind_spot_close (d : Nat) (bC : Node → Node → Bool) (nodes : List Node)
    (segs : List Seg) (n m : Node) (sg : Seg)
    (hL : leftNb d n (openNodesAtClose d bC n nodes) = some m)
    (hx : sg.inter d (n.r.hi (conj d)) < m.r.centre d)
    (hm : m.r.lo (conj d) < n.r.hi (conj d) ∧ n.r.hi (conj d) < m.r.hi (conj d)) :
    ∀ c, (sg, c) ∉ consAtClose d bC nodes segs n :=
  AdaptaVerif.Lemmas.TopoConsGen.endnode_blind_spot_close d bC nodes segs n m sg hL hx hm

-- non-vacuity of `endnode_blind_spot_close` (NodeClose / left neighbour): the witness scene itself
example :
    leftNb 0 w1 (openNodesAtClose 0 idLt w1 [w0, w1, w2]) = some w0 ∧
    wSg.inter 0 (w1.r.hi (conj 0)) < w0.r.centre 0 ∧
    (w0.r.lo (conj 0) < w1.r.hi (conj 0) ∧ w1.r.hi (conj 0) < w0.r.hi (conj 0)) ∧
    wSg ∈ openSegsAtClose 0 (w1.r.hi (conj 0)) [wSg] ∧ wSg.connected w1 = false := by
  decide +kernel

theorem endnode_blind_spot_close_right (d : Nat) (bC : Node → Node → Bool) (nodes : List Node)
    (segs : List Seg) (n m : Node) (sg : Seg)
    (hR : rightNb d n (openNodesAtClose d bC n nodes) = some m)
    (hx : m.r.centre d < sg.inter d (n.r.hi (conj d)))
    (hm : m.r.lo (conj d) < n.r.hi (conj d) ∧ n.r.hi (conj d) < m.r.hi (conj d)) :
    ∀ c, (sg, c) ∉ consAtClose d bC nodes segs n :=
  AdaptaVerif.Lemmas.TopoConsGen.endnode_blind_spot_close_right d bC nodes segs n m sg hR hx hm

-- non-vacuity of `endnode_blind_spot_close_right` (NodeClose / right neighbour): the witness scene mirrored in x
example :
    let m0 : Node := ⟨0, ⟨-20, 0, 0, 20⟩⟩
    let m1 : Node := ⟨1, ⟨-35, -22, 5, 18⟩⟩
    let m2 : Node := ⟨2, ⟨20, 40, 40, 60⟩⟩
    let sg : Seg := ⟨0, 0, ⟨m0, 4⟩, ⟨m2, 4⟩⟩
    rightNb 0 m1 (openNodesAtClose 0 idLt m1 [m0, m1, m2]) = some m0 ∧
    m0.r.centre 0 < sg.inter 0 (m1.r.hi (conj 0)) ∧
    (m0.r.lo (conj 0) < m1.r.hi (conj 0) ∧ m1.r.hi (conj 0) < m0.r.hi (conj 0)) ∧
    sg ∈ openSegsAtClose 0 (m1.r.hi (conj 0)) [sg] ∧ sg.connected m1 = false ∧
    consAtClose 0 idLt [m0, m1, m2] [sg] m1 = [] := by
  decide +kernel

/-- Closed witness (the scene of harness case `witness-endnode-visibility`, nodes [0,20]², [22,35]x[5,18], [-40,-20]x[40,60], edge 0→2, XDIM): node 1 and the segment satisfy every hypothesis of `straight_complete` at node 1's closing scan line except that the segment's own start node 0 lies between - and the constructor creates no constraint at all, for every tie order. -/
theorem endnode_blind_spot_witness (bO bC : Node → Node → Bool) :
    -- node 1 faces the segment at its closing scan line 18 ...
    (wSg.lo 0 < w1.r.hi (conj 0) ∧ w1.r.hi (conj 0) ≤ wSg.hi 0) ∧
    wSg.connected w1 = false ∧
    (¬ (w1.id = wSg.s.node.id ∧
        cornerFor 0 w1 (w1.r.hi (conj 0)) (decide (w1.r.centre 0 < wSg.inter 0 (w1.r.hi (conj 0)))) = wSg.s.ri) ∧
     ¬ (w1.id = wSg.e.node.id ∧
        cornerFor 0 w1 (w1.r.hi (conj 0)) (decide (w1.r.centre 0 < wSg.inter 0 (w1.r.hi (conj 0)))) = wSg.e.ri)) ∧
    -- ... the only node between them on that scan line is the segment's own start node ...
    (∀ m ∈ [w0, w1, w2], m ≠ wSg.s.node → m.id ≠ w1.id → m.r.lo (conj 0) < w1.r.hi (conj 0) →
      w1.r.hi (conj 0) < m.r.hi (conj 0) →
      ¬ ((wSg.inter 0 (w1.r.hi (conj 0)) < m.r.centre 0 ∧ m.r.centre 0 < w1.r.centre 0) ∨
         (w1.r.centre 0 < m.r.centre 0 ∧ m.r.centre 0 < wSg.inter 0 (w1.r.hi (conj 0))))) ∧
    wSg.s = ⟨w0, 4⟩ ∧
    -- ... at the opening scan line 5 the segment is not yet open
    ¬ (wSg.lo 0 ≤ w1.r.lo (conj 0)) ∧
    -- yet no constraint at all is generated
    consClosed 0 bO bC [w0, w1, w2] [wSg] = [] :=
  AdaptaVerif.Lemmas.TopoConsGen.endnode_blind_spot_witness bO bC

/-- Control (harness case `control-shared-scanline`): with node 1 moved off node 0's scan lines both constraints exist. -/
theorem endnode_blind_spot_control (bO bC : Node → Node → Bool) :
    (∃ c, (wSg, c) ∈ consClosed 0 bO bC [w0, w1', w2] [wSg] ∧ c.node = w1' ∧ c.pos = 21 ∧
      c.nodeLeft = false) ∧
    (∃ c, (wSg, c) ∈ consClosed 0 bO bC [w0, w1', w2] [wSg] ∧ c.node = w1' ∧ c.pos = 34 ∧
      c.nodeLeft = false) ∧
    (∃ x ∈ consClosed 0 bO bC [w0, w1', w2] [wSg], x.2.node.id = 1) :=
  AdaptaVerif.Lemmas.TopoConsGen.endnode_blind_spot_control bO bC

/-- **As-coded exception 2 (finding C13-parallel-segment-bend).** A segment parallel to the scan line gets no StraightConstraint at all. -/
theorem parallel_segment_no_constraint (d : Nat) (bO bC : Node → Node → Bool) (nodes : List Node)
    (segs : List Seg) (sg : Seg) (hp : sg.parallel d = true) :
    ∀ x ∈ consClosed d bO bC nodes segs, x.1 ≠ sg :=
  AdaptaVerif.Lemmas.TopoConsGen.parallel_segment_no_constraint d bO bC nodes segs sg hp

/-- Closed witness: a horizontal segment from (10,10) to (40,10), node [20,30]x[12,22] two units above it, XDIM: nothing is generated. -/
theorem parallel_segment_witness (bO bC : Node → Node → Bool) :
    consClosed 0 bO bC [pA, pB, pC] [pSg] = [] ∧
    pSg.s.pos 0 = 10 ∧ pSg.e.pos 0 = 40 ∧ pSg.s.pos 1 = 10 ∧ pSg.e.pos 1 = 10 ∧
    pSg.connected pC = false ∧ pC.r.lo 0 = 20 ∧ pC.r.hi 0 = 30 ∧ pC.r.lo 1 = 12 :=
  AdaptaVerif.Lemmas.TopoConsGen.parallel_segment_witness bO bC

/-! ### what the constraints mean, and the step-level safety theorem -/

/-- The slack of the TriConstraint of a StraightConstraint, at ANY node positions `x`, is the signed distance on the scan line between the moved segment's line and the facing side of the moved node. -/
theorem slack_is_gap (d : Nat) (sg : Seg) (n : Node) (pos : Rat) (c : SC)
    (h : createStraight d sg n pos = some c) (x : Pos) :
    (triOf sg c).slackAt x = gap d (sg.movedTo d x) (n.movedTo d x) pos c.nodeLeft :=
  AdaptaVerif.Lemmas.TopoConsGen.slack_is_gap d sg n pos c h x

/-- **Generation composed with `solve_move_safe`.** If all constraints (the generated straight ones and any others, e.g. the bend constraints) are feasible, then after the move phase of `solve()` every generated (segment, node, scan line) still has the node's facing side on its side of the segment's line. -/
theorem solve_step_keeps_generated_sides (d : Nat) (bO bC : Node → Node → Bool) (nodes : List Node)
    (segs : List Seg) (extra : List AdaptaVerif.Model.Tri.TriConstraint)
    (ini fin : AdaptaVerif.Model.Tri.Pos)
    (hini : AdaptaVerif.Spec.Tri.Feasible
      ((consClosed d bO bC nodes segs).map (fun x => triOf x.1 x.2) ++ extra) ini) :
    ∀ x ∈ consClosed d bO bC nodes segs,
      0 ≤ gap d
        (x.1.movedTo d (AdaptaVerif.Model.Tri.moveStep
          ((consClosed d bO bC nodes segs).map (fun x => triOf x.1 x.2) ++ extra) ini fin))
        (x.2.node.movedTo d (AdaptaVerif.Model.Tri.moveStep
          ((consClosed d bO bC nodes segs).map (fun x => triOf x.1 x.2) ++ extra) ini fin))
        x.2.pos x.2.nodeLeft :=
  AdaptaVerif.Lemmas.TopoConsGen.solve_step_keeps_generated_sides d bO bC nodes segs extra ini fin hini

/-- The gap is affine along the node's side: non-negative on both of the node's scan lines ⇒ non-negative on every scan line in between. -/
theorem node_stays_off_segment (d : Nat) (sg : Seg) (n : Node) (b : Bool) (x : Pos)
    (hlo : 0 ≤ gap d (sg.movedTo d x) (n.movedTo d x) (n.r.lo (conj d)) b)
    (hhi : 0 ≤ gap d (sg.movedTo d x) (n.movedTo d x) (n.r.hi (conj d)) b) :
    ∀ q, (n.movedTo d x).r.lo (conj d) ≤ q → q ≤ (n.movedTo d x).r.hi (conj d) →
      0 ≤ gap d (sg.movedTo d x) (n.movedTo d x) q b :=
  AdaptaVerif.Lemmas.TopoConsGen.node_stays_off_segment d sg n b x hlo hhi

/-- **Step-level safety.** A node that has StraightConstraints with a segment on both of its scan lines (same side) is, after the move phase of `solve()`, still wholly on that side of the segment's line: the move takes no node across a segment. (Non-vacuity: the examples at the end of Lemmas/TopoConsGen - control scene, node 2 dragged to x = 100, the step is cut at α = 6/13.) -/
theorem solve_step_node_stays_off_segment (d : Nat) (bO bC : Node → Node → Bool)
    (nodes : List Node) (segs : List Seg) (extra : List AdaptaVerif.Model.Tri.TriConstraint)
    (ini fin : AdaptaVerif.Model.Tri.Pos)
    (hini : AdaptaVerif.Spec.Tri.Feasible
      ((consClosed d bO bC nodes segs).map (fun x => triOf x.1 x.2) ++ extra) ini)
    (n : Node) (sg : Seg) (c1 c2 : SC) (b : Bool)
    (h1 : (sg, c1) ∈ consClosed d bO bC nodes segs) (h2 : (sg, c2) ∈ consClosed d bO bC nodes segs)
    (hn1 : c1.node = n) (hn2 : c2.node = n)
    (hp1 : c1.pos = n.r.lo (conj d)) (hp2 : c2.pos = n.r.hi (conj d))
    (hb1 : c1.nodeLeft = b) (hb2 : c2.nodeLeft = b) :
    let x' := AdaptaVerif.Model.Tri.moveStep
      ((consClosed d bO bC nodes segs).map (fun x => triOf x.1 x.2) ++ extra) ini fin
    ∀ q, (n.movedTo d x').r.lo (conj d) ≤ q → q ≤ (n.movedTo d x').r.hi (conj d) →
      0 ≤ gap d (sg.movedTo d x') (n.movedTo d x') q b :=
  AdaptaVerif.Lemmas.TopoConsGen.solve_step_node_stays_off_segment d bO bC nodes segs extra ini fin hini n sg c1 c2 b h1 h2 hn1 hn2 hp1 hp2 hb1 hb2

/-- **Generation + move, end to end.** If a segment's span covers a node's extent across the scan direction, the node is visible from the segment on both of its scan lines (no other node strictly straddling the scan line has its centre between them), the facing corners are not the segment's own end bends and the node centre is on the same side `b` on both scan lines, then - for every order of equal events, any further constraints `extra` and any solver result `fin` - after the move phase of `solve()` the whole facing side of the node is still on side `b` of the segment's line. (Non-vacuity: the example after the theorem in Lemmas/TopoConsStep, the harness's control scene.) -/
theorem solve_step_visible_pair_safe (d : Nat) (bO bC : Node → Node → Bool)
    (nodes : List Node) (segs : List Seg) (extra : List AdaptaVerif.Model.Tri.TriConstraint)
    (ini fin : AdaptaVerif.Model.Tri.Pos)
    (hini : AdaptaVerif.Spec.Tri.Feasible
      ((consClosed d bO bC nodes segs).map (fun x => triOf x.1 x.2) ++ extra) ini)
    (n : Node) (sg : Seg) (hn : n ∈ nodes) (hsg : sg ∈ segs) (hnc : sg.connected n = false)
    -- the segment's span covers the node's extent across the scan direction
    (hspanLo : sg.lo d ≤ n.r.lo (conj d) ∧ n.r.lo (conj d) < sg.hi d)
    (hspanHi : sg.lo d < n.r.hi (conj d) ∧ n.r.hi (conj d) ≤ sg.hi d)
    -- visible on both scan lines of the node
    (hvisLo : ∀ m ∈ nodes, m.id ≠ n.id → m.r.lo (conj d) < n.r.lo (conj d) → n.r.lo (conj d) < m.r.hi (conj d) →
      ¬ ((sg.inter d (n.r.lo (conj d)) < m.r.centre d ∧ m.r.centre d < n.r.centre d) ∨
         (n.r.centre d < m.r.centre d ∧ m.r.centre d < sg.inter d (n.r.lo (conj d)))))
    (hvisHi : ∀ m ∈ nodes, m.id ≠ n.id → m.r.lo (conj d) < n.r.hi (conj d) → n.r.hi (conj d) < m.r.hi (conj d) →
      ¬ ((sg.inter d (n.r.hi (conj d)) < m.r.centre d ∧ m.r.centre d < n.r.centre d) ∨
         (n.r.centre d < m.r.centre d ∧ m.r.centre d < sg.inter d (n.r.hi (conj d)))))
    -- the facing corners are not the segment's own end bends
    (hcornerLo :
      ¬ (n.id = sg.s.node.id ∧
          cornerFor d n (n.r.lo (conj d)) (decide (n.r.centre d < sg.inter d (n.r.lo (conj d)))) = sg.s.ri) ∧
      ¬ (n.id = sg.e.node.id ∧
          cornerFor d n (n.r.lo (conj d)) (decide (n.r.centre d < sg.inter d (n.r.lo (conj d)))) = sg.e.ri))
    (hcornerHi :
      ¬ (n.id = sg.s.node.id ∧
          cornerFor d n (n.r.hi (conj d)) (decide (n.r.centre d < sg.inter d (n.r.hi (conj d)))) = sg.s.ri) ∧
      ¬ (n.id = sg.e.node.id ∧
          cornerFor d n (n.r.hi (conj d)) (decide (n.r.centre d < sg.inter d (n.r.hi (conj d)))) = sg.e.ri))
    -- the node centre is on the same side `b` of the segment's line on both scan lines
    (b : Bool) (hbLo : b = decide (n.r.centre d < sg.inter d (n.r.lo (conj d))))
    (hbHi : b = decide (n.r.centre d < sg.inter d (n.r.hi (conj d)))) :
    let x' := AdaptaVerif.Model.Tri.moveStep
      ((consClosed d bO bC nodes segs).map (fun x => triOf x.1 x.2) ++ extra) ini fin
    ∀ q, (n.movedTo d x').r.lo (conj d) ≤ q → q ≤ (n.movedTo d x').r.hi (conj d) →
      0 ≤ gap d (sg.movedTo d x') (n.movedTo d x') q b :=
  AdaptaVerif.Lemmas.TopoConsStep.solve_step_visible_pair_safe d bO bC nodes segs extra ini fin hini n sg hn hsg hnc hspanLo hspanHi hvisLo hvisHi hcornerLo hcornerHi b hbLo hbHi

-- non-vacuity of `solve_step_visible_pair_safe` (its hypotheses contain those of `solve_step_keeps_generated_sides`,
-- and its proof goes through `solve_step_node_stays_off_segment` / `node_stays_off_segment`): the theorem applied to the
-- control scene, node 2 dragged to x = 100 (the step is cut at α = 6/13), node 1 stays right (b = false) of the edge
example :
    let x' := moveStep ((consClosed 0 idLt idLt [w0, w1', w2] [wSg]).map (fun x => triOf x.1 x.2) ++ []) ctlIni ctlFin
    ∀ q, (w1'.movedTo 0 x').r.lo (conj 0) ≤ q → q ≤ (w1'.movedTo 0 x').r.hi (conj 0) →
      0 ≤ gap 0 (wSg.movedTo 0 x') (w1'.movedTo 0 x') q false :=
  solve_step_visible_pair_safe 0 idLt idLt [w0, w1', w2] [wSg] [] ctlIni ctlFin
    (by unfold Feasible; decide +kernel) w1' wSg (by simp) (by simp) (by decide +kernel)
    (by decide +kernel) (by decide +kernel)
    (by
      intro m hm
      simp only [List.mem_cons, List.not_mem_nil, or_false] at hm
      rcases hm with rfl | rfl | rfl <;> decide +kernel)
    (by
      intro m hm
      simp only [List.mem_cons, List.not_mem_nil, or_false] at hm
      rcases hm with rfl | rfl | rfl <;> decide +kernel)
    (by decide +kernel) (by decide +kernel) false (by decide +kernel) (by decide +kernel)

/-! ### bend constraints -/

/-- Every interior EdgePoint whose two incident segments are not both parallel to the scan line has its BendConstraint (`createBend_none_iff` says when `createBend` gives none). -/
theorem bend_complete (d : Nat) (pts : List EPt) (i : Nat) (u v w : EPt) (b : BC)
    (hu : pts[i]? = some u) (hv : pts[i + 1]? = some v) (hw : pts[i + 2]? = some w)
    (hb : createBend d (i + 1) u v w = some b) : b ∈ bendCons d pts :=
  AdaptaVerif.Lemmas.TopoConsBend.bend_complete d pts i u v w b hu hv hw hb

/-- ... and every BendConstraint of a path is the one `createBend` makes for an interior point. -/
theorem bend_sound (d : Nat) (pts : List EPt) (b : BC) (hb : b ∈ bendCons d pts) :
    ∃ i u v w, pts[i]? = some u ∧ pts[i + 1]? = some v ∧ pts[i + 2]? = some w ∧
      createBend d (i + 1) u v w = some b ∧ b.idx = i + 1 :=
  AdaptaVerif.Lemmas.TopoConsBend.bend_sound d pts b hb

/-- No BendConstraint exactly when both incident segments are parallel to the scan line (`EdgePoint::createBendConstraint`). -/
theorem createBend_none_iff (d idx : Nat) (u v w : EPt) :
    createBend d idx u v w = none ↔
      (v.pos (conj d) = u.pos (conj d) ∧ w.pos (conj d) = v.pos (conj d)) :=
  AdaptaVerif.Lemmas.TopoConsBend.createBend_none_iff d idx u v w

/-- The slack of a BendConstraint at ANY node positions is the offset, in the scan axis, of the far end point from the extension of the reference segment to that point's scan line. -/
theorem bend_slack_is_offset (d idx : Nat) (u v w : EPt) (b : BC)
    (h : createBend d idx u v w = some b) (x : Pos) :
    AdaptaVerif.Model.Tri.slack b.p b.g b.leftOf (x b.u) (x b.v) (x b.w) =
      if b.rev = false then
        offLine d b.p b.leftOf (u.movedTo d x) (v.movedTo d x) (w.movedTo d x)
      else
        offLine d b.p b.leftOf (w.movedTo d x) (v.movedTo d x) (u.movedTo d x) :=
  AdaptaVerif.Lemmas.TopoConsBend.bend_slack_is_offset d idx u v w b h x

/-- ... so it is zero exactly when the three points are collinear (the bend has become straight). -/
theorem bend_slack_zero_iff_collinear (d idx : Nat) (u v w : EPt) (b : BC)
    (h : createBend d idx u v w = some b) (hr : b.rev = false) (x : Pos) :
    AdaptaVerif.Model.Tri.slack b.p b.g b.leftOf (x b.u) (x b.v) (x b.w) = 0 ↔
      ((v.movedTo d x).pos d - (u.movedTo d x).pos d) *
          ((w.movedTo d x).pos (conj d) - (u.movedTo d x).pos (conj d)) -
        ((w.movedTo d x).pos d - (u.movedTo d x).pos d) *
          ((v.movedTo d x).pos (conj d) - (u.movedTo d x).pos (conj d)) = 0 :=
  AdaptaVerif.Lemmas.TopoConsBend.bend_slack_zero_iff_collinear d idx u v w b h hr x

-- joint non-vacuity of the hypotheses of `bend_complete`, `bend_sound`, `bend_slack_is_offset`,
-- `bend_slack_zero_iff_collinear`: a path centre(n0) -> TR corner of n1 -> centre(n2) whose in-segment is the longer one in
-- the scan direction (`rev = false`); its only BendConstraint is the one `createBend` makes at index 1
example :
    let n0 : Node := ⟨0, ⟨0, 10, 0, 10⟩⟩
    let n1 : Node := ⟨1, ⟨20, 30, 40, 50⟩⟩
    let n2 : Node := ⟨2, ⟨50, 60, 20, 30⟩⟩
    let pts : List EPt := [⟨n0, 4⟩, ⟨n1, 0⟩, ⟨n2, 4⟩]
    let b : BC := { idx := 1, leftOf := true, rev := false, u := 0, v := 1, w := 2, p := 4 / 9, g := 20 / 9 }
    pts[0]? = some ⟨n0, 4⟩ ∧ pts[0 + 1]? = some ⟨n1, 0⟩ ∧ pts[0 + 2]? = some ⟨n2, 4⟩ ∧
    createBend 0 (0 + 1) ⟨n0, 4⟩ ⟨n1, 0⟩ ⟨n2, 4⟩ = some b ∧ b.rev = false ∧ bendCons 0 pts = [b] := by
  decide +kernel

/-! ### the two rewrites -/

/-- `BendConstraint::satisfy` removes the point at index `i`, an interior point. -/
theorem bendSatisfy_pts {d : Nat} {st st' : EdgeSt} {i : Nat} (h : bendSatisfy d st i = some st') :
    0 < i ∧ i + 1 < st.pts.length ∧ st'.pts = st.pts.eraseIdx i ∧ st'.id = st.id :=
  AdaptaVerif.Lemmas.TopoConsRewrite.bendSatisfy_pts h

/-- ... keeps both end points of the path, -/
theorem bendSatisfy_ends {d : Nat} {st st' : EdgeSt} {i : Nat} (h : bendSatisfy d st i = some st') :
    st'.pts.head? = st.pts.head? ∧ st'.pts.getLast? = st.pts.getLast? :=
  AdaptaVerif.Lemmas.TopoConsRewrite.bendSatisfy_ends h

/-- ... and removes exactly the straightened bend: every other point stays pinned to the same (node, corner). -/
theorem bendSatisfy_removes_exactly {d : Nat} {st st' : EdgeSt} {i : Nat}
    (h : bendSatisfy d st i = some st') :
    st'.pts.length + 1 = st.pts.length ∧
      ∀ k, st'.pts[k]? = if k < i then st.pts[k]? else st.pts[k + 1]? :=
  AdaptaVerif.Lemmas.TopoConsRewrite.bendSatisfy_removes_exactly h

/-- Constraint bookkeeping of the merge: other segments untouched; every constraint of the merged segment is `createStraight` on the merged segment (hence sound as in `generated_sound`); the node the bend turned around gets its StraightConstraint at the bend's scan position; nothing transferable is lost; one list per segment. -/
theorem bendSatisfy_scs {d : Nat} {st st' : EdgeSt} {i : Nat} {u v w : EPt}
    (h : bendSatisfy d st i = some st')
    (hu : st.pts[i - 1]? = some u) (hv : st.pts[i]? = some v) (hw : st.pts[i + 1]? = some w) :
    (i - 1 ≤ st.scs.length → st'.scs.take (i - 1) = st.scs.take (i - 1)) ∧
    st'.scs.drop i = st.scs.drop (i + 1) ∧
    (∀ c ∈ st'.scs.getD (i - 1) [], createStraight d ⟨st.id, i - 1, u, w⟩ c.node c.pos = some c) ∧
    (i - 1 ≤ st.scs.length →
      ∀ c, createStraight d ⟨st.id, i - 1, u, w⟩ v.node (v.pos (conj d)) = some c →
        c ∈ st'.scs.getD (i - 1) []) ∧
    (i - 1 ≤ st.scs.length →
      ∀ c ∈ st.scs.getD (i - 1) [] ++ st.scs.getD i [], ∀ c',
        transfer d ⟨st.id, i - 1, u, w⟩ c = some c' → c' ∈ st'.scs.getD (i - 1) []) ∧
    (st.scs.length + 1 = st.pts.length → st'.scs.length + 1 = st'.pts.length) :=
  AdaptaVerif.Lemmas.TopoConsRewrite.bendSatisfy_scs h hu hv hw

/-- `StraightConstraint::satisfy` inserts the constraint's (node, corner) between the ends of segment `j`. -/
theorem straightSatisfy_pts {d : Nat} {st st' : EdgeSt} {j k : Nat}
    (h : straightSatisfy d st j k = some st') :
    j + 1 < st.pts.length ∧ ∃ c, (st.scs.getD j [])[k]? = some c ∧
      st'.pts = st.pts.take (j + 1) ++ [⟨c.node, c.ri⟩] ++ st.pts.drop (j + 1) ∧ st'.id = st.id :=
  AdaptaVerif.Lemmas.TopoConsRewrite.straightSatisfy_pts h

theorem straightSatisfy_ends {d : Nat} {st st' : EdgeSt} {j k : Nat}
    (h : straightSatisfy d st j k = some st') :
    st'.pts.head? = st.pts.head? ∧ st'.pts.getLast? = st.pts.getLast? :=
  AdaptaVerif.Lemmas.TopoConsRewrite.straightSatisfy_ends h

theorem straightSatisfy_keeps_points {d : Nat} {st st' : EdgeSt} {j k : Nat}
    (h : straightSatisfy d st j k = some st') :
    st'.pts.eraseIdx (j + 1) = st.pts ∧ st'.pts.length = st.pts.length + 1 :=
  AdaptaVerif.Lemmas.TopoConsRewrite.straightSatisfy_keeps_points h

/-- The inserted bend is a corner (never CENTRE) of the constraint's node: the corner on the constraint's scan line on the side facing the segment. -/
theorem straightSatisfy_bend_at_corner {d : Nat} {st st' : EdgeSt} {j k : Nat}
    (h : straightSatisfy d st j k = some st') :
    ∃ a b c, st.pts[j]? = some a ∧ st.pts[j + 1]? = some b ∧ (st.scs.getD j [])[k]? = some c ∧
      st'.pts[j]? = some a ∧ st'.pts[j + 1]? = some ⟨c.node, c.ri⟩ ∧ st'.pts[j + 2]? = some b ∧
      (createStraight d ⟨st.id, j, a, b⟩ c.node c.pos = some c →
        c.ri < 4 ∧
        (⟨c.node, c.ri⟩ : EPt).pos d = (if c.nodeLeft then c.node.r.hi d else c.node.r.lo d) ∧
        ((c.pos = c.node.r.lo (conj d) ∨ c.pos = c.node.r.hi (conj d)) →
          c.node.r.lo (conj d) < c.node.r.hi (conj d) →
          (⟨c.node, c.ri⟩ : EPt).pos (conj d) = c.pos)) :=
  AdaptaVerif.Lemmas.TopoConsRewrite.straightSatisfy_bend_at_corner h

/-- When the constraint is tight (gap 0), the new bend lies on the old segment. -/
theorem straightSatisfy_bend_on_segment {d : Nat} {st st' : EdgeSt} {j k : Nat} {a b : EPt} {c : SC}
    (_h : straightSatisfy d st j k = some st')
    (_ha : st.pts[j]? = some a) (_hb : st.pts[j + 1]? = some b) (_hc : (st.scs.getD j [])[k]? = some c)
    (hcr : createStraight d ⟨st.id, j, a, b⟩ c.node c.pos = some c)
    (htight : gap d ⟨st.id, j, a, b⟩ c.node c.pos c.nodeLeft = 0) :
    (⟨c.node, c.ri⟩ : EPt).pos d = (⟨st.id, j, a, b⟩ : Seg).inter d c.pos :=
  AdaptaVerif.Lemmas.TopoConsRewrite.straightSatisfy_bend_on_segment _h _ha _hb _hc hcr htight

/-- Constraint bookkeeping of the split: other segments untouched; the constraints of the halves are `createStraight` on the halves; every other constraint of the split segment is offered to exactly the half `destIsLeft` (Model/TopoTransfer, regenerated from the C++) chooses, the satisfied one to none. -/
theorem straightSatisfy_scs {d : Nat} {st st' : EdgeSt} {j k : Nat} {a b : EPt} {c : SC}
    (h : straightSatisfy d st j k = some st')
    (ha : st.pts[j]? = some a) (hb : st.pts[j + 1]? = some b) (hc : (st.scs.getD j [])[k]? = some c) :
    st'.scs.take j = st.scs.take j ∧
    st'.scs.drop (j + 2) = st.scs.drop (j + 1) ∧
    (∀ c' ∈ st'.scs.getD j [],
      createStraight d ⟨st.id, j, a, ⟨c.node, c.ri⟩⟩ c'.node c'.pos = some c') ∧
    (∀ c' ∈ st'.scs.getD (j + 1) [],
      createStraight d ⟨st.id, j + 1, ⟨c.node, c.ri⟩, b⟩ c'.node c'.pos = some c') ∧
    (∀ c'', c'' ∈ st'.scs.getD j [] ↔
      ∃ k' c', k' ≠ k ∧ (st.scs.getD j [])[k']? = some c' ∧
        toFirstHalf d ⟨st.id, j, a, ⟨c.node, c.ri⟩⟩ ⟨st.id, j + 1, ⟨c.node, c.ri⟩, b⟩ c' = true ∧
        transfer d ⟨st.id, j, a, ⟨c.node, c.ri⟩⟩ c' = some c'') ∧
    (∀ c'', c'' ∈ st'.scs.getD (j + 1) [] ↔
      ∃ k' c', k' ≠ k ∧ (st.scs.getD j [])[k']? = some c' ∧
        toFirstHalf d ⟨st.id, j, a, ⟨c.node, c.ri⟩⟩ ⟨st.id, j + 1, ⟨c.node, c.ri⟩, b⟩ c' = false ∧
        transfer d ⟨st.id, j + 1, ⟨c.node, c.ri⟩, b⟩ c' = some c'') ∧
    (st.scs.length + 1 = st.pts.length → st'.scs.length + 1 = st'.pts.length) :=
  AdaptaVerif.Lemmas.TopoConsRewrite.straightSatisfy_scs h ha hb hc

/-- Inserting or deleting a vertex that lies ON a leg replaces one crossing of any scan line by exactly one crossing at the same place. -/
theorem split_preserves_crossings (as ac bs bc t c : Rat) (h0 : 0 ≤ t) (h1 : t ≤ 1) (hne : ac ≠ bc) :
    (crossesLine ac bc c = true ↔
      (crossesLine ac (ac + t * (bc - ac)) c = true ∨ crossesLine (ac + t * (bc - ac)) bc c = true)) ∧
    ¬ (crossesLine ac (ac + t * (bc - ac)) c = true ∧ crossesLine (ac + t * (bc - ac)) bc c = true) ∧
    (crossesLine ac (ac + t * (bc - ac)) c = true →
      crossingAt as ac (as + t * (bs - as)) (ac + t * (bc - ac)) c = crossingAt as ac bs bc c) ∧
    (crossesLine (ac + t * (bc - ac)) bc c = true →
      crossingAt (as + t * (bs - as)) (ac + t * (bc - ac)) bs bc c = crossingAt as ac bs bc c) :=
  AdaptaVerif.Lemmas.TopoConsRewrite.split_preserves_crossings as ac bs bc t c h0 h1 hne

/-- **Sides are preserved by the split**: applied to a tight constraint, the legs (a, bend), (bend, b) cross every scan line `c0` exactly where (a, b) did. -/
theorem straightSatisfy_preserves_sides {d : Nat} {st st' : EdgeSt} {j k : Nat} {a b : EPt} {c : SC}
    (_h : straightSatisfy d st j k = some st')
    (_ha : st.pts[j]? = some a) (_hb : st.pts[j + 1]? = some b) (_hc : (st.scs.getD j [])[k]? = some c)
    (hcr : createStraight d ⟨st.id, j, a, b⟩ c.node c.pos = some c)
    (htight : gap d ⟨st.id, j, a, b⟩ c.node c.pos c.nodeLeft = 0)
    (hev : c.pos = c.node.r.lo (conj d) ∨ c.pos = c.node.r.hi (conj d))
    (hrect : c.node.r.lo (conj d) < c.node.r.hi (conj d))
    (hlo : (⟨st.id, j, a, b⟩ : Seg).lo d ≤ c.pos) (hhi : c.pos ≤ (⟨st.id, j, a, b⟩ : Seg).hi d)
    (c0 : Rat) :
    SplitKeeps (a.pos d) (a.pos (conj d)) (b.pos d) (b.pos (conj d))
      ((⟨c.node, c.ri⟩ : EPt).pos d) ((⟨c.node, c.ri⟩ : EPt).pos (conj d)) c0 :=
  AdaptaVerif.Lemmas.TopoConsRewrite.straightSatisfy_preserves_sides _h _ha _hb _hc hcr htight hev hrect hlo hhi c0

/-- **Sides are preserved by the merge**: if the removed bend lies on the leg from `u` to `w`. -/
theorem bendSatisfy_preserves_sides {d : Nat} {st st' : EdgeSt} {i : Nat} {u v w : EPt} {t : Rat}
    (_h : bendSatisfy d st i = some st')
    (_hu : st.pts[i - 1]? = some u) (_hv : st.pts[i]? = some v) (_hw : st.pts[i + 1]? = some w)
    (h0 : 0 ≤ t) (h1 : t ≤ 1) (hne : u.pos (conj d) ≠ w.pos (conj d))
    (hvs : v.pos d = u.pos d + t * (w.pos d - u.pos d))
    (hvc : v.pos (conj d) = u.pos (conj d) + t * (w.pos (conj d) - u.pos (conj d))) (c0 : Rat) :
    SplitKeeps (u.pos d) (u.pos (conj d)) (w.pos d) (w.pos (conj d)) (v.pos d) (v.pos (conj d)) c0 :=
  AdaptaVerif.Lemmas.TopoConsRewrite.bendSatisfy_preserves_sides _h _hu _hv _hw h0 h1 hne hvs hvc c0

-- joint non-vacuity of the hypotheses of `straightSatisfy_*` (in particular `straightSatisfy_scs`,
-- `straightSatisfy_bend_on_segment`, `straightSatisfy_preserves_sides`) and of `slack_is_gap`, `tight_*` below: node 1
-- touches the only segment centre(node 0) -> centre(node 2) of `exSt` with its bottom right corner; the stored constraint
-- is the one `createStraight` makes, it is tight (gap 0 = slack 0 at the construction centres `exPos`), the event position
-- is the node's low side, inside the segment's span; the state is well formed (one constraint list per segment)
example :
    let a : EPt := ⟨exNode 0 0 0, 4⟩
    let b : EPt := ⟨exNode 2 20 20, 4⟩
    let c : SC := ⟨exNode 1 8 10, 1, 10, true, 9 / 20, -1⟩
    straightSatisfy 0 exSt 0 0 = some ⟨7, [a, ⟨exNode 1 8 10, 1⟩, b], [[], []]⟩ ∧
    exSt.pts[0]? = some a ∧ exSt.pts[0 + 1]? = some b ∧ (exSt.scs.getD 0 [])[0]? = some c ∧
    createStraight 0 ⟨exSt.id, 0, a, b⟩ c.node c.pos = some c ∧
    gap 0 ⟨exSt.id, 0, a, b⟩ c.node c.pos c.nodeLeft = 0 ∧
    (c.pos = c.node.r.lo (conj 0) ∨ c.pos = c.node.r.hi (conj 0)) ∧
    c.node.r.lo (conj 0) < c.node.r.hi (conj 0) ∧
    (⟨exSt.id, 0, a, b⟩ : Seg).lo 0 ≤ c.pos ∧ c.pos ≤ (⟨exSt.id, 0, a, b⟩ : Seg).hi 0 ∧
    (triOf ⟨exSt.id, 0, a, b⟩ c).slackAt exPos = 0 ∧
    exSt.scs.length + 1 = exSt.pts.length := by
  decide +kernel

-- joint non-vacuity of the hypotheses of `bendSatisfy_*` (in particular `bendSatisfy_scs`, `bendSatisfy_preserves_sides`):
-- the inverse rewrite - the bend at node 1's bottom right corner (10,10) lies on the leg (1,1) -> (21,21) at t = 9/20;
-- the merged segment gets node 1's StraightConstraint back
example :
    let u : EPt := ⟨exNode 0 0 0, 4⟩
    let v : EPt := ⟨exNode 1 8 10, 1⟩
    let w : EPt := ⟨exNode 2 20 20, 4⟩
    let st : EdgeSt := ⟨7, [u, v, w], [[], []]⟩
    bendSatisfy 0 st 1 = some ⟨7, [u, w], [[⟨exNode 1 8 10, 1, 10, true, 9 / 20, -1⟩]]⟩ ∧
    st.pts[1 - 1]? = some u ∧ st.pts[1]? = some v ∧ st.pts[1 + 1]? = some w ∧
    (0 : Rat) ≤ 9 / 20 ∧ (9 / 20 : Rat) ≤ 1 ∧ u.pos (conj 0) ≠ w.pos (conj 0) ∧
    v.pos 0 = u.pos 0 + 9 / 20 * (w.pos 0 - u.pos 0) ∧
    v.pos (conj 0) = u.pos (conj 0) + 9 / 20 * (w.pos (conj 0) - u.pos (conj 0)) ∧
    st.scs.length + 1 = st.pts.length := by
  decide +kernel

/-! ### the whole `solve()` step: the satisfied constraint is tight -/

/-- When the move is cut short (minTAlpha < 1) a constraint attaining the minimum - the `minT` that `solve()` then satisfies - has slack exactly 0 at the positions reached. -/
theorem solve_step_satisfied_is_tight (d : Nat) (bO bC : Node → Node → Bool) (nodes : List Node)
    (segs : List Seg) (extra : List TriConstraint) (ini fin : AdaptaVerif.Model.Tri.Pos)
    (hini : Feasible ((consClosed d bO bC nodes segs).map (fun x => triOf x.1 x.2) ++ extra) ini)
    (hlt : minAlpha ((consClosed d bO bC nodes segs).map (fun x => triOf x.1 x.2) ++ extra)
      ini fin < 1) :
    ∃ t ∈ (consClosed d bO bC nodes segs).map (fun x => triOf x.1 x.2) ++ extra,
      t.msa ini fin =
        minAlpha ((consClosed d bO bC nodes segs).map (fun x => triOf x.1 x.2) ++ extra) ini fin ∧
      t.slackAt
        (moveStep ((consClosed d bO bC nodes segs).map (fun x => triOf x.1 x.2) ++ extra) ini fin)
        = 0 :=
  AdaptaVerif.Lemmas.TopoConsTight.solve_step_satisfied_is_tight d bO bC nodes segs extra ini fin hini hlt

/-- If that constraint is a StraightConstraint, the corner `StraightConstraint::satisfy` inserts lies on the moved segment's line ... -/
theorem tight_bend_on_moved_segment {d : Nat} {sg : Seg} {n : Node} {pos : Rat} {c : SC}
    (h : createStraight d sg n pos = some c) (x : Pos) (htight : (triOf sg c).slackAt x = 0) :
    (⟨c.node.movedTo d x, c.ri⟩ : EPt).pos d = (sg.movedTo d x).inter d pos :=
  AdaptaVerif.Lemmas.TopoConsTight.tight_bend_on_moved_segment h x htight

/-- ... on the constraint's scan line, -/
theorem tight_bend_on_scanline {d : Nat} {sg : Seg} {n : Node} {pos : Rat} {c : SC}
    (h : createStraight d sg n pos = some c) (x : Pos)
    (hev : pos = n.r.lo (conj d) ∨ pos = n.r.hi (conj d))
    (hrect : n.r.lo (conj d) < n.r.hi (conj d)) :
    (⟨c.node.movedTo d x, c.ri⟩ : EPt).pos (conj d) = pos :=
  AdaptaVerif.Lemmas.TopoConsTight.tight_bend_on_scanline h x hev hrect

/-- ... so the split replaces every scan-line crossing of the moved leg by one crossing at the same place. -/
theorem tight_split_preserves_sides {d : Nat} {sg : Seg} {n : Node} {pos : Rat} {c : SC}
    (h : createStraight d sg n pos = some c) (x : Pos) (htight : (triOf sg c).slackAt x = 0)
    (hev : pos = n.r.lo (conj d) ∨ pos = n.r.hi (conj d))
    (hrect : n.r.lo (conj d) < n.r.hi (conj d))
    (hlo : sg.lo d ≤ pos) (hhi : pos ≤ sg.hi d) (c0 : Rat) :
    SplitKeeps ((sg.movedTo d x).s.pos d) ((sg.movedTo d x).s.pos (conj d))
      ((sg.movedTo d x).e.pos d) ((sg.movedTo d x).e.pos (conj d))
      ((⟨c.node.movedTo d x, c.ri⟩ : EPt).pos d) ((⟨c.node.movedTo d x, c.ri⟩ : EPt).pos (conj d))
      c0 :=
  AdaptaVerif.Lemmas.TopoConsTight.tight_split_preserves_sides h x htight hev hrect hlo hhi c0

/-- The three facts for a generated constraint that is tight after the move phase of `solve()`. -/
theorem solve_step_straight_satisfy_preserves_sides (d : Nat) (bO bC : Node → Node → Bool)
    (nodes : List Node) (segs : List Seg) (extra : List TriConstraint)
    (ini fin : AdaptaVerif.Model.Tri.Pos)
    (hpos : ∀ n ∈ nodes, n.r.lo (conj d) < n.r.hi (conj d))
    (y : Seg × SC) (hy : y ∈ consClosed d bO bC nodes segs)
    (htight : (triOf y.1 y.2).slackAt
      (moveStep ((consClosed d bO bC nodes segs).map (fun x => triOf x.1 x.2) ++ extra) ini fin) = 0) :
    let x' := moveStep ((consClosed d bO bC nodes segs).map (fun x => triOf x.1 x.2) ++ extra) ini fin
    (⟨y.2.node.movedTo d x', y.2.ri⟩ : EPt).pos d = (y.1.movedTo d x').inter d y.2.pos ∧
    (⟨y.2.node.movedTo d x', y.2.ri⟩ : EPt).pos (conj d) = y.2.pos ∧
    ∀ c0 : Rat,
      SplitKeeps ((y.1.movedTo d x').s.pos d) ((y.1.movedTo d x').s.pos (conj d))
        ((y.1.movedTo d x').e.pos d) ((y.1.movedTo d x').e.pos (conj d))
        ((⟨y.2.node.movedTo d x', y.2.ri⟩ : EPt).pos d)
        ((⟨y.2.node.movedTo d x', y.2.ri⟩ : EPt).pos (conj d)) c0 :=
  AdaptaVerif.Lemmas.TopoConsTight.solve_step_straight_satisfy_preserves_sides d bO bC nodes segs extra ini fin hpos y hy htight

/-- **One `solve()` step, end to end**: from a feasible state with minTAlpha < 1 some constraint attains the minimum and is tight after the move; it is one of the other (bend / caller's) constraints or a generated StraightConstraint, and in the latter case satisfying it inserts a bend ON the moved segment and preserves the side of every node. -/
theorem solve_step_tight_generated_or_extra (d : Nat) (bO bC : Node → Node → Bool)
    (nodes : List Node) (segs : List Seg) (extra : List TriConstraint)
    (ini fin : AdaptaVerif.Model.Tri.Pos)
    (hpos : ∀ n ∈ nodes, n.r.lo (conj d) < n.r.hi (conj d))
    (hini : Feasible ((consClosed d bO bC nodes segs).map (fun x => triOf x.1 x.2) ++ extra) ini)
    (hlt : minAlpha ((consClosed d bO bC nodes segs).map (fun x => triOf x.1 x.2) ++ extra)
      ini fin < 1) :
    let cs := (consClosed d bO bC nodes segs).map (fun x => triOf x.1 x.2) ++ extra
    let x' := moveStep cs ini fin
    ∃ t ∈ cs, t.msa ini fin = minAlpha cs ini fin ∧ t.slackAt x' = 0 ∧
      (t ∈ extra ∨ ∃ y ∈ consClosed d bO bC nodes segs, t = triOf y.1 y.2 ∧
        (⟨y.2.node.movedTo d x', y.2.ri⟩ : EPt).pos d = (y.1.movedTo d x').inter d y.2.pos ∧
        (⟨y.2.node.movedTo d x', y.2.ri⟩ : EPt).pos (conj d) = y.2.pos ∧
        ∀ c0 : Rat,
          SplitKeeps ((y.1.movedTo d x').s.pos d) ((y.1.movedTo d x').s.pos (conj d))
            ((y.1.movedTo d x').e.pos d) ((y.1.movedTo d x').e.pos (conj d))
            ((⟨y.2.node.movedTo d x', y.2.ri⟩ : EPt).pos d)
            ((⟨y.2.node.movedTo d x', y.2.ri⟩ : EPt).pos (conj d)) c0) :=
  AdaptaVerif.Lemmas.TopoConsTight.solve_step_tight_generated_or_extra d bO bC nodes segs extra ini fin hpos hini hlt

-- non-vacuity of `solve_step_satisfied_is_tight`, `solve_step_tight_generated_or_extra` (and, through the latter, of
-- `solve_step_straight_satisfy_preserves_sides`): the control scene with node 2 dragged to x = 100 is feasible at the
-- initial centres, the move is cut short (minTAlpha = 6/13), all nodes have positive height; with `extra = []` the theorem
-- then yields a GENERATED constraint that is tight after the move
example :
    Feasible ((consClosed 0 idLt idLt [w0, w1', w2] [wSg]).map (fun x => triOf x.1 x.2) ++ []) ctlIni ∧
    minAlpha ((consClosed 0 idLt idLt [w0, w1', w2] [wSg]).map (fun x => triOf x.1 x.2) ++ [])
      ctlIni ctlFin = 6 / 13 ∧
    (∀ n ∈ [w0, w1', w2], n.r.lo (conj 0) < n.r.hi (conj 0)) := by
  refine ⟨?_, by decide +kernel, by decide +kernel⟩
  unfold Feasible
  decide +kernel

example : ∃ y ∈ consClosed 0 idLt idLt [w0, w1', w2] [wSg],
    (triOf y.1 y.2).slackAt
      (moveStep ((consClosed 0 idLt idLt [w0, w1', w2] [wSg]).map (fun x => triOf x.1 x.2) ++ []) ctlIni ctlFin) = 0 := by
  obtain ⟨t, _, _, ht, hex | ⟨y, hy, rfl, _⟩⟩ :=
    solve_step_tight_generated_or_extra 0 idLt idLt [w0, w1', w2] [wSg] [] ctlIni ctlFin (by decide +kernel)
      (by unfold Feasible; decide +kernel) (by decide +kernel)
  · exact absurd hex (List.not_mem_nil)
  · exact ⟨y, hy, ht⟩

/-! ### the non-overlap constraints of the scan -/

/-- Every separation constraint `NodeClose::createNonOverlapConstraint` creates is between two nodes of the scene, the left one having the smaller centre, one of them still open when the other closes, with gap = half the two lengths + 1e-7. -/
theorem nonOverlap_sound (d : Nat) (bC : Node → Node → Bool) (nodes : List Node) (c : NOC)
    (hc : c ∈ nonOverlapClosed d bC nodes) :
    c.left ∈ nodes ∧ c.right ∈ nodes ∧ c.left.id ≠ c.right.id ∧
    c.left.r.centre d < c.right.r.centre d ∧
    c.gap = (c.left.r.len d + c.right.r.len d) / 2 + noGapEps ∧
    (OpenAtClose d bC c.right c.left ∨ OpenAtClose d bC c.left c.right) :=
  AdaptaVerif.Lemmas.TopoConsNonOverlap.nonOverlap_sound d bC nodes c hc

/-- ... so (nodes of positive height) their extents across the scan direction overlap strictly: only nodes that share a scan line are kept apart. -/
theorem nonOverlap_sound_overlap (d : Nat) (bC : Node → Node → Bool) (nodes : List Node)
    (hpos : ∀ n ∈ nodes, n.r.lo (conj d) < n.r.hi (conj d)) (c : NOC)
    (hc : c ∈ nonOverlapClosed d bC nodes) :
    c.left.r.lo (conj d) < c.right.r.hi (conj d) ∧ c.right.r.lo (conj d) < c.left.r.hi (conj d) ∧
    max (c.left.r.lo (conj d)) (c.right.r.lo (conj d)) <
      min (c.left.r.hi (conj d)) (c.right.r.hi (conj d)) :=
  AdaptaVerif.Lemmas.TopoConsNonOverlap.nonOverlap_sound_overlap d bC nodes hpos c hc

/-- A constraint holds at node positions `x` iff the two moved rectangles are at least 1e-7 apart in the scan axis. -/
theorem noc_holds_iff_sep (d : Nat) (l r : Node) (x : Pos) : (mkNOC d l r).holds x ↔ Sep d x l r :=
  AdaptaVerif.Lemmas.TopoConsNonOverlap.noc_holds_iff_sep d l r x

/-- **The scan-line chain lemma.** The constraints between scan-line neighbours at NodeClose events transitively separate EVERY pair of nodes that share a scan line: if all generated constraints hold at `x` then any two nodes whose extents across the scan direction overlap strictly are at least 1e-7 apart in the scan axis (`hkeys` = the constructor's unique-key assertion, `hbC` = equal-position NodeClose events are processed in some order, `hw` = non-negative widths). -/
theorem nonOverlap_complete (d : Nat) (bC : Node → Node → Bool) (nodes : List Node)
    (hids : nodes.Pairwise (fun a b => a.id ≠ b.id))
    (hw : ∀ n ∈ nodes, 0 ≤ n.r.len d)
    (hkeys : ∀ m ∈ nodes, ∀ n ∈ nodes, m.id ≠ n.id → m.r.lo (conj d) < n.r.hi (conj d) →
      n.r.lo (conj d) < m.r.hi (conj d) → m.r.centre d ≠ n.r.centre d)
    (hbC : ∀ m ∈ nodes, ∀ n ∈ nodes, m.id ≠ n.id → m.r.hi (conj d) = n.r.hi (conj d) →
      bC m n = true ∨ bC n m = true)
    (x : Pos) (hx : ∀ c ∈ nonOverlapClosed d bC nodes, c.holds x)
    (m n : Node) (hm : m ∈ nodes) (hn : n ∈ nodes) (hid : m.id ≠ n.id)
    (hov : m.r.lo (conj d) < n.r.hi (conj d) ∧ n.r.lo (conj d) < m.r.hi (conj d))
    (hc : m.r.centre d < n.r.centre d) :
    (m.movedTo d x).r.hi d + noGapEps ≤ (n.movedTo d x).r.lo d :=
  AdaptaVerif.Lemmas.TopoConsNonOverlap.nonOverlap_complete d bC nodes hids hw hkeys hbC x hx m n hm hn hid hov hc

/-- The constraints are linear: satisfied at the initial positions and at the VPSC solution, they are satisfied at every point `solve()` may move to. -/
theorem solve_move_keeps_nonOverlap (d : Nat) (bC : Node → Node → Bool) (nodes : List Node)
    (ini fin : Pos) (α : Rat)
    (hini : ∀ c ∈ nonOverlapClosed d bC nodes, c.holds ini)
    (hfin : ∀ c ∈ nonOverlapClosed d bC nodes, c.holds fin) (h0 : 0 ≤ α) (h1 : α ≤ 1) :
    ∀ c ∈ nonOverlapClosed d bC nodes, c.holds (AdaptaVerif.Model.Tri.posOnLine ini fin α) :=
  AdaptaVerif.Lemmas.TopoConsNonOverlap.solve_move_keeps_nonOverlap d bC nodes ini fin α hini hfin h0 h1

-- non-vacuity of `nonOverlap_sound`, `nonOverlap_sound_overlap`, `solve_move_keeps_nonOverlap` (for `nonOverlap_complete`
-- see the instantiated example at the end of Lemmas/TopoConsNonOverlap): the row scene has two constraints, and they hold
-- at two different position vectors
example :
    nonOverlapClosed 0 idLt [e0, e1, e2] = [mkNOC 0 e0 e1, mkNOC 0 e1 e2] ∧
    (∀ n ∈ [e0, e1, e2], n.r.lo (conj 0) < n.r.hi (conj 0)) ∧
    (∀ c ∈ nonOverlapClosed 0 idLt [e0, e1, e2], c.holds ePos) ∧
    (∀ c ∈ nonOverlapClosed 0 idLt [e0, e1, e2], c.holds (fun i => 10 * ePos i)) := by
  have hE : nonOverlapClosed 0 idLt [e0, e1, e2] = [mkNOC 0 e0 e1, mkNOC 0 e1 e2] := by decide +kernel
  refine ⟨hE, by decide +kernel, ?_, ?_⟩ <;>
  · intro c hc
    rw [hE] at hc
    simp only [List.mem_cons, List.not_mem_nil, or_false] at hc
    rcases hc with rfl | rfl <;> (unfold NOC.holds; decide +kernel)

end AdaptaVerif.Props.C13Cons
