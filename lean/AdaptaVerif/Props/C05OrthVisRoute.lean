/-
C05 / C03 — connection of the orthogonal visibility graph model (`Props/C05OrthVis.lean`) with the route
validity specification of C03 (`Spec/Route.lean`, `Props/C03.lean`): with every connector end point in free
space, every edge of the model graph is spec-unblocked (no point of the CLOSED segment strictly inside a
routing box), hence every polyline along edges of the graph is a valid route (`RouteValid`) and is
orthogonal.
-/
import AdaptaVerif.Props.C05OrthVis
import AdaptaVerif.Props.C03

namespace AdaptaVerif.Props.C05OrthVis
open AdaptaVerif.Model.OrthVis AdaptaVerif.Lemmas.OrthVis
open AdaptaVerif.Model.Geometry (Pt)
open AdaptaVerif.Check.Route AdaptaVerif.Spec.Route AdaptaVerif.Lemmas.Route

/-- a routing box as a C03 polygon -/
def polyOf (R : Rect) : Poly := rectPoly R.x0 R.y0 R.x1 R.y1

def ptOf (v : GV) : Pt := ⟨v.x, v.y⟩

/-- the model graph as a list of point pairs -/
def graphPts (s : Scene) : List (Pt × Pt) := s.graph.map fun e => (ptOf e.1, ptOf e.2)

/-- **Every edge of the model graph is spec-unblocked** in the sense of C03 (closed segment, all routing
    boxes, nothing excluded), for scenes whose boxes have positive size and whose connector end points are
    in free space. -/
theorem graph_edge_unblocked (s : Scene) (hwf : ∀ R ∈ s.rects, R.x0 < R.x1 ∧ R.y0 < R.y1)
    (hfree : ∀ R ∈ s.rects, ¬ HasConnIn s.conns R) :
    ∀ l ∈ graphPts s, Unblocked (s.rects.map polyOf) [] l.1 l.2 := by
  intro l hl
  obtain ⟨e, he, rfl⟩ := List.mem_map.mp hl
  intro i hi _ hhit
  obtain ⟨t, h0, h1, hin⟩ := hhit
  have hi' : i < s.rects.length := by simpa using hi
  have hR : s.rects[i] ∈ s.rects := List.getElem_mem hi'
  obtain ⟨wx, wy⟩ := hwf _ hR
  have hget : (s.rects.map polyOf)[i] = polyOf s.rects[i] := by simp
  rw [hget] at hin
  unfold polyOf at hin
  rw [strictlyInside_rect_iff _ _ _ _ wx wy] at hin
  simp only [lerp, ptOf] at hin
  obtain ⟨hx0, hx1, hy0, hy1⟩ := hin
  have hclear := graph_edge_clear s hfree e he
  have hdir := graph_edge_directed s e he
  rcases hdir with ⟨hyy, hlt, _, _⟩ | ⟨hxx, hlt, _, _⟩
  · rcases hclear with ⟨_, hc⟩ | ⟨hxe, _⟩
    · rw [hyy] at hy0 hy1
      have hy : e.2.y + t * (e.2.y - e.2.y) = e.2.y := by ring
      rw [hy] at hy0 hy1
      obtain ⟨m, m1, m2, m3, m4⟩ := open_point_near hlt h0 h1 hx0 hx1
      exact hc _ hR m (Or.inl ⟨m1, m2⟩) ⟨m3, m4, by rw [hyy]; exact hy0, by rw [hyy]; exact hy1⟩
    · exact absurd hxe (ne_of_lt hlt)
  · rcases hclear with ⟨hye, _⟩ | ⟨_, hc⟩
    · exact absurd hye (ne_of_lt hlt)
    · rw [hxx] at hx0 hx1
      have hx : e.2.x + t * (e.2.x - e.2.x) = e.2.x := by ring
      rw [hx] at hx0 hx1
      obtain ⟨m, m1, m2, m3, m4⟩ := open_point_near hlt h0 h1 hy0 hy1
      exact hc _ hR m (Or.inl ⟨m1, m2⟩) ⟨by rw [hxx]; exact hx0, by rw [hxx]; exact hx1, m3, m4⟩

/-- **Any path in the graph is a valid orthogonal route**: a polyline from `src` to `dst` all of whose legs
    are edges of the model graph (in either direction) satisfies C03's `RouteValid` for the routing boxes
    (nothing excluded) and every leg is axis-parallel. -/
theorem graph_path_valid (s : Scene) (hwf : ∀ R ∈ s.rects, R.x0 < R.x1 ∧ R.y0 < R.y1)
    (hfree : ∀ R ∈ s.rects, ¬ HasConnIn s.conns R) (src dst : Pt) (route : List Pt)
    (hlen : 2 ≤ route.length) (hsrc : route.head? = some src) (hdst : route.getLast? = some dst)
    (hlegs : ∀ l ∈ legs route, l ∈ graphPts s ∨ (l.2, l.1) ∈ graphPts s) :
    RouteValid (s.rects.map polyOf) [] src dst route ∧ routeOrthogonal route = true := by
  refine ⟨AdaptaVerif.Props.C03.path_of_visible_edges_valid _ _ (graphPts s)
    (graph_edge_unblocked s hwf hfree) src dst route hlen hsrc hdst hlegs, ?_⟩
  unfold routeOrthogonal
  rw [List.all_eq_true]
  intro l hl
  have hax : ∀ l' ∈ graphPts s, l'.1.x = l'.2.x ∨ l'.1.y = l'.2.y := by
    intro l' hl'
    obtain ⟨e, he, rfl⟩ := List.mem_map.mp hl'
    rcases graph_edge_directed s e he with ⟨h, _⟩ | ⟨h, _⟩
    · exact Or.inr h
    · exact Or.inl h
  unfold axisParallel
  simp only [Bool.or_eq_true, decide_eq_true_eq]
  rcases hlegs l hl with h | h
  · exact hax l h
  · rcases hax _ h with h' | h'
    · exact Or.inl h'.symm
    · exact Or.inr h'.symm

-- non-vacuity of `graph_edge_unblocked` / `graph_path_valid`: `demoScene2` (box of positive size, both end points in
-- free space, graph not empty); the route (6,3) → (4,3) → (4,5) walks one edge backwards and one forwards
example : RouteValid (demoScene2.rects.map polyOf) [] ⟨6, 3⟩ ⟨4, 5⟩ [⟨6, 3⟩, ⟨4, 3⟩, ⟨4, 5⟩] ∧
    routeOrthogonal [⟨6, 3⟩, ⟨4, 3⟩, ⟨4, 5⟩] = true :=
  graph_path_valid demoScene2 (by decide +kernel)
    (by intro R hR h; rw [← hasConnIn_iff] at h; revert R; decide +kernel)
    ⟨6, 3⟩ ⟨4, 5⟩ [⟨6, 3⟩, ⟨4, 3⟩, ⟨4, 5⟩] (by decide) rfl rfl
    (by
      intro l hl
      have e : legs [(⟨6, 3⟩ : Pt), ⟨4, 3⟩, ⟨4, 5⟩] = [(⟨6, 3⟩, ⟨4, 3⟩), (⟨4, 3⟩, ⟨4, 5⟩)] := rfl
      rw [e] at hl
      simp only [List.mem_cons, List.not_mem_nil, or_false] at hl
      rcases hl with rfl | rfl
      · exact Or.inr (List.mem_of_find?_eq_some
          (by decide +kernel : (graphPts demoScene2).find? (fun l => decide (l = (⟨4, 3⟩, ⟨6, 3⟩))) = some (⟨4, 3⟩, ⟨6, 3⟩)))
      · exact Or.inl (List.mem_of_find?_eq_some
          (by decide +kernel : (graphPts demoScene2).find? (fun l => decide (l = (⟨4, 3⟩, ⟨4, 5⟩))) = some (⟨4, 3⟩, ⟨4, 5⟩))))
example : ∀ l ∈ graphPts demoScene2, Unblocked (demoScene2.rects.map polyOf) [] l.1 l.2 :=
  graph_edge_unblocked demoScene2 (by decide +kernel)
    (by intro R hR h; rw [← hasConnIn_iff] at h; revert R; decide +kernel)
#guard !(graphPts demoScene2).isEmpty

end AdaptaVerif.Props.C05OrthVis
