/-
C11, the A* search of pin-attached connectors: the end-point list of the orthogonal turn pruning
(`endPoints = lineRef->possibleDstPinPoints()`, makepath.cpp) as a function of the pin bookkeeping
(`Model/AStarPins.possiblePinPoints` over the state machine of `Model/Pins`), and what the pruning rule as
coded (`Model/AStar.prunedAsCoded`) guarantees for it.  All statements are for ALL pin states / operation
histories / graphs / vertices.
-/
import AdaptaVerif.Model.AStarPins
import AdaptaVerif.Lemmas.AStarPinsNoPath
namespace AdaptaVerif.Props.C11Search
open AdaptaVerif.Model AdaptaVerif.Model.Pins AdaptaVerif.Model.AStar AdaptaVerif.Model.AStarPins
open AdaptaVerif.Model.Geometry (Pt)

/-- The two places that decide which pins an end may use agree: every pin to which
    `ConnEnd::assignPinVisibilityTo` gives the dummy end vertex an edge is in the end-point list
    `Obstacle::possiblePinPoints` of the turn pruning. -/
theorem offered_pin_is_end_point (s : State) (pos : Nat → Option Pt) (sh cls : Nat) (p : PinState) (q : Pt)
    (hp : p ∈ offeredPins s sh cls) (hq : pos p.id = some q) :
    q ∈ possiblePinPoints s pos sh cls := by
  unfold possiblePinPoints freePins
  unfold offeredPins at hp
  rw [List.mem_filterMap]
  refine ⟨p, ?_, hq⟩
  rw [List.mem_filter] at hp ⊢
  refine ⟨hp.1, ?_⟩
  simpa [isFree] using hp.2

/-- … and conversely: the end-point list contains nothing else. -/
theorem end_point_is_offered_pin (s : State) (pos : Nat → Option Pt) (sh cls : Nat) (q : Pt)
    (hq : q ∈ possiblePinPoints s pos sh cls) :
    ∃ p ∈ offeredPins s sh cls, pos p.id = some q := by
  unfold possiblePinPoints freePins at hq
  rw [List.mem_filterMap] at hq
  obtain ⟨p, hp, hpq⟩ := hq
  refine ⟨p, ?_, hpq⟩
  unfold offeredPins
  rw [List.mem_filter] at hp ⊢
  refine ⟨hp.1, ?_⟩
  simpa [isFree] using hp.2

/-- A SHARED pin is an end point whatever users it has: after any history of operations, a non-exclusive pin of
    the class that is present is in the list (its users do not matter). -/
theorem shared_pin_is_end_point (s : State) (ops : List Op) (pos : Nat → Option Pt) (p : PinState) (q : Pt)
    (hp : p ∈ run s ops) (hs : p.exclusive = false) (hq : pos p.id = some q) :
    q ∈ possiblePinPoints (run s ops) pos p.shape p.classId := by
  unfold possiblePinPoints freePins
  rw [List.mem_filterMap]
  refine ⟨p, ?_, hq⟩
  rw [List.mem_filter]
  exact ⟨hp, by simp [isFree, hs]⟩

/-- non-vacuity: a shared pin with two users -/
example : possiblePinPoints
    (run [] [.addPin 0 1 7 false, .route 10 none (some 0), .route 11 none (some 0)]) (fun _ => some ⟨3, 4⟩) 1 7 = [⟨3, 4⟩] := by decide

/-- An exclusive pin stops being an end point as soon as it has a user. -/
theorem used_exclusive_pin_is_no_end_point :
    possiblePinPoints (run [] [.addPin 0 1 7 true, .route 10 none (some 0)]) (fun _ => some ⟨3, 4⟩) 1 7 = [] := by decide

/-- The turn pruning as coded never skips a vertical hop at a vertex in the column of an end point … -/
theorem turn_in_end_point_column_not_pruned (g : Graph) (prev : Option Nat) (best next : Nat) (q : Pt)
    (hq : q ∈ g.pinPts) (hx : (g.pt best).x = q.x) (hy : (g.pt next).y ≠ (g.pt best).y) :
    prunedAsCoded g prev best next = false := by
  have hal : alignedWithOneOf (g.pt best) (g.pinPts ++ [g.pt g.tar]) true = true := by
    unfold alignedWithOneOf
    rw [List.any_eq_true]
    exact ⟨q, List.mem_append_left _ hq, by simp [hx]⟩
  have hne : ¬ (g.pt best).y = (g.pt next).y := fun h => hy h.symm
  unfold prunedAsCoded
  simp [hal, hne]

/-- … nor a horizontal hop at a vertex in the row of an end point. -/
theorem turn_in_end_point_row_not_pruned (g : Graph) (prev : Option Nat) (best next : Nat) (q : Pt)
    (hq : q ∈ g.pinPts) (hy : (g.pt best).y = q.y) (hx : (g.pt next).x ≠ (g.pt best).x) :
    prunedAsCoded g prev best next = false := by
  have hal : alignedWithOneOf (g.pt best) (g.pinPts ++ [g.pt g.tar]) false = true := by
    unfold alignedWithOneOf
    rw [List.any_eq_true]
    exact ⟨q, List.mem_append_left _ hq, by simp [hy]⟩
  have hne : ¬ (g.pt best).x = (g.pt next).x := fun h => hx h.symm
  unfold prunedAsCoded
  simp [hal, hne]

/-- Together — the guarantee a change of the candidate filter breaks: in the search of a connector whose
    destination is attached to (shape, class), with the end-point list the pin state yields, a route may bend
    onto the column / row of every shared pin of that class, used or not, at any vertex. -/
theorem bend_onto_shared_pin_line_allowed (s : State) (ops : List Op) (pos : Nat → Option Pt) (p : PinState) (q : Pt)
    (g : PGraph) (prev : Option Nat) (best next : Nat)
    (hp : p ∈ run s ops) (hs : p.exclusive = false) (hq : pos p.id = some q)
    (hg : g.endPts = possiblePinPoints (run s ops) pos p.shape p.classId) :
    ((g.pt best).x = q.x → (g.pt next).y ≠ (g.pt best).y → prunedAsCoded g.base prev best next = false) ∧
    ((g.pt best).y = q.y → (g.pt next).x ≠ (g.pt best).x → prunedAsCoded g.base prev best next = false) := by
  have hmem : q ∈ g.base.pinPts := by
    show q ∈ g.endPts
    rw [hg]; exact shared_pin_is_end_point s ops pos p q hp hs hq
  exact ⟨fun hx hy => turn_in_end_point_column_not_pruned g.base prev best next q hmem hx hy,
         fun hy hx => turn_in_end_point_row_not_pruned g.base prev best next q hmem hy hx⟩

/-! ### searches that fail before they start (driver: `sisolated` lines, for which no graph is dumped) -/

open AdaptaVerif.Lemmas.AStarPinsNoPath in
/-- If no enabled edge of the graph leads to the target vertex — the dummy vertex of an end whose pin class has no
    candidate pin gets no edge from `assignPinVisibilityTo` — the search as coded returns no route, for every graph,
    every fuel-independent detail of costs and order. -/
theorem no_enabled_edge_into_target_no_route (g : PGraph) (hne : g.src ≠ g.tar)
    (h : ∀ v, ∀ e ∈ g.edges v, e.disabled = false → e.to ≠ g.tar) : g.route = none := by
  have hrun : ∀ b d, g.run ≠ .found b d := by
    intro b d
    unfold PGraph.run
    apply search_never_finds
    · intro pv v s hs
      obtain ⟨e, he, hd, hw⟩ := succs_edge g g.base g.costTargets pv v s hs
      rw [← hw]; exact h v e he hd
    · intro n hn
      unfold PGraph.initSt at hn
      cases hp : g.prevOfStart with
      | none => rw [hp] at hn; simp [init] at hn; rw [hn]; exact hne
      | some pn => rw [hp] at hn; simp at hn; rw [hn]; exact hne
  unfold PGraph.route
  cases hr : g.run with
  | found b d => exact absurd hr (hrun b d)
  | noPath => rfl
  | outOfFuel => rfl

/-- If the source vertex has no enabled edge the search returns no route. -/
theorem isolated_source_no_route (g : PGraph) (hne : g.src ≠ g.tar)
    (h : ∀ e ∈ g.edges g.src, e.disabled = true) : g.route = none := by
  have hf : (g.edges g.src).filter (fun e => !e.disabled) = [] := by
    rw [List.filter_eq_nil_iff]; intro e he; simp [h e he]
  have hsucc : ∀ pv, g.problem.succs pv g.src = [] := by
    intro pv
    show g.succs g.base g.costTargets pv g.src = []
    unfold PGraph.succs
    rw [hf]; rfl
  have hone : ∀ (n : Node) (done : List Node) (t k : Nat), n.v = g.src →
      search g.problem (k + 2) { pending := [n], done := done, time := t } = .noPath := by
    intro n done t k hv
    have hnt : ¬ g.src = g.problem.tar := hne
    unfold search
    simp only [extractBest, hnt, if_false, hv, hsucc, List.foldl_nil]
    unfold search
    simp [extractBest]
  have hrun : g.run = .noPath := by
    unfold PGraph.run PGraph.initSt PGraph.fuel
    cases hp : g.prevOfStart with
    | none => exact hone _ _ _ _ rfl
    | some pn => exact hone _ _ _ _ rfl
  unfold PGraph.route
  rw [hrun]

end AdaptaVerif.Props.C11Search
