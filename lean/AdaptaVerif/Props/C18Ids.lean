import AdaptaVerif.Model.TglfIds
import AdaptaVerif.Lemmas.TglfIds
/-!
C18 — property theorems about the node ids `Graph::writeTglf` writes (Model/TglfIds.lean, tied to
graphs.cpp by exact comparison of the ids in the written text on every generated graph).

"Writing a graph … to TGLF and reading it back yields an equivalent graph" needs, before anything else,
that two nodes are never written under one id.
-/
namespace AdaptaVerif.Props.C18Ids
open AdaptaVerif.Model.TglfIds AdaptaVerif.Lemmas.TglfIds

/-- **Distinct nodes are written under distinct ids**, for every node list in map order, whichever
    nodes carry external ids (all, none, or any subset), with `useExternalIds` on or off. -/
theorem written_ids_injective (useExt : Bool) (ns : List NodeId) (hw : WellFormed ns) :
    (writtenIds useExt ns).Nodup := by
  obtain ⟨hs, hr, hd⟩ := hw
  unfold writtenIds
  cases useExt with
  | false =>
    simp only [Bool.false_eq_true, if_false]
    rw [List.nodup_iff_pairwise_ne, List.pairwise_map]
    exact hs.imp (fun h => by omega)
  | true =>
    simp only [if_true]
    rw [List.nodup_iff_pairwise_ne, List.pairwise_map]
    -- walk the two pairwise facts together
    have key : ∀ a ∈ ns, ∀ b ∈ ns, a.id < b.id → (a.ext = -1 ∨ b.ext = -1 ∨ a.ext ≠ b.ext) →
        writtenId ns a ≠ writtenId ns b := by
      intro a ha b hb hab hext
      have hma := ext_le_maxExt ns a ha
      have hmb := ext_le_maxExt ns b hb
      have hm1 := maxExt_ge_neg_one ns
      unfold writtenId baseId
      rcases hr a ha with ea | ea <;> rcases hr b hb with eb | eb
      · -- both lack an external id
        have : a.ext < 0 := by omega
        have : b.ext < 0 := by omega
        simp only [*]; split <;> omega
      · -- a lacks, b has
        have h1 : a.ext < 0 := by omega
        have h2 : ¬ b.ext < 0 := by omega
        have hfl := firstLacking_le ns hs a ha ea
        simp only [h1, h2, if_true, if_false]; split <;> omega
      · have h1 : ¬ a.ext < 0 := by omega
        have h2 : b.ext < 0 := by omega
        have hfl := firstLacking_le ns hs b hb eb
        simp only [h1, h2, if_true, if_false]; split <;> omega
      · have h1 : ¬ a.ext < 0 := by omega
        have h2 : ¬ b.ext < 0 := by omega
        simp only [h1, h2, if_false]
        rcases hext with h | h | h <;> omega
    -- combine
    have hboth : ns.Pairwise (fun a b => a.id < b.id ∧ (a.ext = -1 ∨ b.ext = -1 ∨ a.ext ≠ b.ext)) :=
      hs.and hd
    exact hboth.imp_of_mem (fun ha hb h => key _ ha _ hb h.1 h.2)

/-- external ids are written unchanged -/
theorem external_id_kept (ns : List NodeId) (n : NodeId) (h : 0 ≤ n.ext) : writtenId ns n = n.ext := by
  unfold writtenId; have : ¬ n.ext < 0 := by omega
  simp [this]

/-- internal ids are not shifted when that cannot collide ("to make debugging easier") -/
theorem no_shift_when_safe (ns : List NodeId) (n : NodeId) (hn : n.ext = -1)
    (h : firstLacking ns > maxExt ns) : writtenId ns n = n.id := by
  unfold writtenId baseId; simp [hn, h]

-- non-vacuity of no_shift_when_safe (and external_id_kept): a well-formed graph whose first node lacking an external id has an
-- internal id above every external id; nothing is shifted
example : (⟨5, -1⟩ : NodeId).ext = -1 ∧ firstLacking [⟨0, 0⟩, ⟨1, 3⟩, ⟨5, -1⟩] > maxExt [⟨0, 0⟩, ⟨1, 3⟩, ⟨5, -1⟩] ∧
    WellFormed [⟨0, 0⟩, ⟨1, 3⟩, ⟨5, -1⟩] ∧ writtenIds true [⟨0, 0⟩, ⟨1, 3⟩, ⟨5, -1⟩] = [0, 3, 5] := by
  refine ⟨by decide, by decide, ⟨by decide, by decide, by decide⟩, by decide⟩

/-- Non-vacuity: a mixed graph (external ids 0, 1, 3 and an added node with internal id 3) is well formed -/
def mixed : List NodeId := [⟨0, 0⟩, ⟨1, 1⟩, ⟨2, 3⟩, ⟨3, -1⟩]
example : WellFormed mixed ∧ writtenIds true mixed = [0, 1, 3, 7] := by
  refine ⟨⟨by decide, by decide, by decide⟩, by decide⟩

/-- Why the comparison must be strict: with `≥` (first internal id lacking an external id EQUAL to the
    largest external id counts as "no shift needed") the same graph writes two nodes under id 3. -/
theorem ge_variant_collides :
    WellFormed mixed ∧ ¬ (mixed.map (fun n => if n.ext < 0 then baseIdGe mixed + n.id else n.ext)).Nodup := by
  refine ⟨⟨by decide, by decide, by decide⟩, by decide⟩

end AdaptaVerif.Props.C18Ids
