/-
C11 — libavoid: pins, junctions and checkpoints are honoured by routes.
Property theorems only (helpers: Lemmas/Pins.lean, Lemmas/PinsAttach.lean).

* about the model of `ShapeConnectionPin::position()` (Model/Pins.lean `pinPosition`), for all
  pin descriptors, boxes and translations: translation equivariance, containment in the bounding
  box, distance `insideOffset` from the chosen side, proportional place under resize;
* about the pin-assignment state machine, for all operation histories: an exclusive pin never
  has two users (guards explicit in `runOk`);
* soundness of the executable checkers the driver runs on the real routes.
-/
import AdaptaVerif.Lemmas.Pins
import AdaptaVerif.Lemmas.PinsAttach
namespace AdaptaVerif.Props.C11
open AdaptaVerif.Model.Pins AdaptaVerif.Spec.Pins AdaptaVerif.Check.Attach
open AdaptaVerif.Lemmas.Pins AdaptaVerif.Lemmas.PinsAttach

/-! ### pin positions -/

/-- shape (bounding box) translated by `t` ⇒ pin position translated by `t`; every kind of pin
    (proportional / absolute, sentinels, inside offset) -/
theorem pin_translation_equivariant (s : PinSpec) (b : Box) (t : P2) :
    pinPosition s (b.translate t) = (pinPosition s b).translate t := by
  simp only [pinPosition, Box.translate, P2.translate, axisPos_translate]

/-- offsets in range ⇒ the pin lies inside or on the shape's bounding box -/
theorem pin_in_box (s : PinSpec) (b : Box) (h : InRange s b) : InBox b (pinPosition s b) := by
  obtain ⟨hx, hy⟩ := h
  have h1 := axisPos_in_range _ _ _ _ _ hx
  have h2 := axisPos_in_range _ _ _ _ _ hy
  exact ⟨h1.1, h1.2, h2.1, h2.2⟩

example : InRange ⟨1, 1, 1/4, true, 5/2, 0⟩ ⟨0, 0, 40, 20⟩ := by
  unfold InRange AxisInRange; norm_num

example : InRange ⟨1, -1, 7, false, 1, 0⟩ ⟨10, 10, 50, 30⟩ := by
  unfold InRange AxisInRange; norm_num

/-- a pin placed with a side sentinel sits exactly `insideOffset` inside that side
    (x axis; proportional LEFT/RIGHT = 0/1, absolute MIN/MAX = 0/−1 or offset = width) -/
theorem pin_inside_offset_x (s : PinSpec) (b : Box) :
    (s.xOff = 0 → (pinPosition s b).x - b.minX = s.inside) ∧
    ((s.proportional = true ∧ s.xOff = 1) ∨ (s.proportional = false ∧ s.xOff ≠ 0 ∧ (s.xOff = -1 ∨ s.xOff = b.width)) →
      b.maxX - (pinPosition s b).x = s.inside) := by
  constructor
  · intro h0
    simp only [pinPosition, axisPos, h0, if_true]
    split_ifs <;> ring
  · rintro (⟨hp, h1⟩ | ⟨hp, h0, h1⟩)
    · simp only [pinPosition, axisPos, hp, h1, if_true]
      norm_num
    · have h1' : s.xOff = -1 ∨ s.xOff = b.maxX - b.minX := h1
      simp only [pinPosition, axisPos, hp, h0, h1', Bool.false_eq_true, if_false, if_true]
      ring

/-- the same for the y axis (TOP/BOTTOM) -/
theorem pin_inside_offset_y (s : PinSpec) (b : Box) :
    (s.yOff = 0 → (pinPosition s b).y - b.minY = s.inside) ∧
    ((s.proportional = true ∧ s.yOff = 1) ∨ (s.proportional = false ∧ s.yOff ≠ 0 ∧ (s.yOff = -1 ∨ s.yOff = b.height)) →
      b.maxY - (pinPosition s b).y = s.inside) := by
  constructor
  · intro h0
    simp only [pinPosition, axisPos, h0, if_true]
    split_ifs <;> ring
  · rintro (⟨hp, h1⟩ | ⟨hp, h0, h1⟩)
    · simp only [pinPosition, axisPos, hp, h1, if_true]
      norm_num
    · have h1' : s.yOff = -1 ∨ s.yOff = b.maxY - b.minY := h1
      simp only [pinPosition, axisPos, hp, h0, h1', Bool.false_eq_true, if_false, if_true]
      ring

/-- a proportional pin (not a side sentinel) keeps its relative place under every resize: its
    offset from the min corner is `xOff·width`, `yOff·height` for *every* box -/
theorem pin_resize_proportional (s : PinSpec) (hp : s.proportional = true) (b : Box) :
    (s.xOff ≠ 0 → s.xOff ≠ 1 → (pinPosition s b).x - b.minX = s.xOff * b.width) ∧
    (s.yOff ≠ 0 → s.yOff ≠ 1 → (pinPosition s b).y - b.minY = s.yOff * b.height) := by
  constructor
  · intro h0 h1
    simp only [pinPosition, hp, Box.width]
    exact axisPos_proportional _ _ _ _ h0 h1
  · intro h0 h1
    simp only [pinPosition, hp, Box.height]
    exact axisPos_proportional _ _ _ _ h0 h1

/-- … hence the same ratio in any two boxes of non-zero width -/
theorem pin_resize_proportional_ratio (s : PinSpec) (hp : s.proportional = true)
    (h0 : s.xOff ≠ 0) (h1 : s.xOff ≠ 1) (b1 b2 : Box) (hw1 : b1.width ≠ 0) (hw2 : b2.width ≠ 0) :
    ((pinPosition s b1).x - b1.minX) / b1.width = ((pinPosition s b2).x - b2.minX) / b2.width := by
  rw [(pin_resize_proportional s hp b1).1 h0 h1, (pin_resize_proportional s hp b2).1 h0 h1]
  rw [mul_div_assoc, div_self hw1, mul_div_assoc, div_self hw2]

example : (pinPosition ⟨1, 1/4, 3/4, true, 5, 0⟩ ⟨0, 0, 40, 20⟩) = ⟨10, 15⟩ := by
  simp only [pinPosition, axisPos]; norm_num
example : (pinPosition ⟨1, 1/4, 3/4, true, 5, 0⟩ ⟨100, 100, 180, 120⟩) = ⟨120, 115⟩ := by
  simp only [pinPosition, axisPos]; norm_num

/-! ### assignment state machine -/

/-- ∀ operation histories (pins added / deleted, shapes deleted, exclusivity toggled, connectors
    routed / released, transactions freeing all pins) that respect the two explicit guards of
    `runOk`: an exclusive pin never has two users. -/
theorem exclusive_inv (ops : List Op) (h : runOk [] ops) : ExclInv (run [] ops) :=
  inv_run ops [] (by intro p hp; cases hp) h

example : runOk [] [.addPin 0 0 1 true, .addPin 1 0 1 true, .route 7 (some 0) none, .route 8 (some 0) (some 1),
    .freeAll, .route 8 (some 0) none, .deletePin 0, .setExclusive 1 true] := by
  simp [runOk, Op.ok, step, connUses, routePin, isFree]

/-- the invariant is preserved from any state that has it -/
theorem exclusive_inv_from (s : State) (ops : List Op) (hs : ExclInv s) (h : runOk s ops) :
    ExclInv (run s ops) := inv_run ops s hs h

/-- whatever the state was (even with the invariant broken by `setExclusive(true)` on a shared
    pin): after the start of a transaction (`freeAll`) and any guarded history it holds -/
theorem exclusive_after_transaction (s : State) (ops : List Op) (h : runOk (step s .freeAll) ops) :
    ExclInv (run s (.freeAll :: ops)) := by
  simp only [run, List.foldl_cons]
  exact inv_run ops _ (inv_freeAll s) h

/-- the first guard is necessary: a connector whose two ends are attached to the same pin class
    of one shape gets the same exclusive pin offered to both ends (the offers are computed
    before either end is recorded) — mirrored from `ConnRef::generatePath`. -/
theorem exclusive_inv_needs_distinct_ends :
    ¬ ExclInv (run [] [.addPin 0 0 1 true, .route 7 (some 0) (some 0)]) := by
  rw [← invB_iff]; decide

/-- the second guard is necessary: `setExclusive(true)` on a pin shared by two connectors -/
theorem exclusive_inv_needs_setExclusive_guard :
    ¬ ExclInv (run [] [.addPin 0 0 1 false, .route 7 (some 0) none, .route 8 (some 0) none, .setExclusive 0 true]) := by
  rw [← invB_iff]; decide

/-- the executable invariant test used by the driver decides `ExclInv` -/
theorem invB_correct (s : State) : invB s = true ↔ ExclInv s := invB_iff s

/-! ### checker soundness -/

/-- `pointOnSegment` is exact: it decides membership in the closed segment -/
theorem pointOnSegment_correct (a b c : P2) : pointOnSegment a b c = true ↔ OnSeg a b c :=
  ⟨pointOnSegment_sound a b c, pointOnSegment_complete a b c⟩

example : pointOnSegment ⟨0, 0⟩ ⟨4, 2⟩ ⟨2, 1⟩ = true := by
  simp [pointOnSegment, cross]; norm_num
example : pointOnSegment ⟨0, 0⟩ ⟨4, 2⟩ ⟨6, 3⟩ = false := by
  simp [pointOnSegment, cross]; norm_num

/-- if the checker accepts, the route visits the checkpoints in the given order (inductive
    reading `Visits`), and in particular every checkpoint lies on a segment of the route -/
theorem checkpointsInOrder_correct (route cps : List P2) (h : checkpointsInOrder route cps = true) :
    Visits route cps ∧ ∀ p ∈ cps, OnRoute route p :=
  ⟨checkpointsInOrder_sound route cps h, visits_onRoute (checkpointsInOrder_sound route cps h)⟩

example : checkpointsInOrder [⟨0, 0⟩, ⟨10, 0⟩, ⟨10, 10⟩] [⟨4, 0⟩, ⟨7, 0⟩, ⟨10, 5⟩] = true := by
  simp [checkpointsInOrder, pointOnSegment, cross]; norm_num
example : checkpointsInOrder [⟨0, 0⟩, ⟨10, 0⟩, ⟨10, 10⟩] [⟨7, 0⟩, ⟨4, 0⟩] = false := by
  simp [checkpointsInOrder, pointOnSegment, cross]; norm_num

/-- if the checker accepts, the leg runs (with positive length) in a direction of the mask -/
theorem dirAllowed_correct (a b : P2) (mask : Nat) (h : dirAllowed a b mask = true) :
    LeavesIn a b mask := dirAllowed_sound a b mask h

example : dirAllowed ⟨0, 0⟩ ⟨0, -3⟩ 1 = true := by decide
example : dirAllowed ⟨0, 0⟩ ⟨0, 3⟩ 1 = false := by decide

/-- `leavesAllowed`: the first leg of non-zero length of the route leaves its start in a
    permitted direction -/
theorem leavesAllowed_correct (route : List P2) (mask : Nat) (h : leavesAllowed route mask = true) :
    ∃ a rest b, route = a :: rest ∧ b ∈ rest ∧ b ≠ a ∧ LeavesIn a b mask := by
  unfold leavesAllowed at h
  match route, h with
  | a :: rest, h =>
    simp only [firstLegEnd] at h
    cases hf : rest.find? (fun q => decide (q ≠ a)) with
    | none => rw [hf] at h; cases h
    | some b =>
      rw [hf] at h
      refine ⟨a, rest, b, rfl, List.mem_of_find?_eq_some hf, ?_, dirAllowed_sound a b mask h⟩
      have := List.find?_some hf
      simpa using this

end AdaptaVerif.Props.C11
