/-
C14 (final routing of doHOLA) — properties of the rule (`Model/FinalSegLimits.lean`) by which libavoid
decides how far the first / last segment of an orthogonal connector may be shifted by the nudging stage.
-/
import AdaptaVerif.Lemmas.FinalSegLimits

namespace AdaptaVerif.Props.C14Limits
open AdaptaVerif.Check.RouteRect AdaptaVerif.Model.FinalSegLimits
open AdaptaVerif.Lemmas.FinalSegLimits

/-- the limits computed by the loop lie inside the extent of EVERY shape that contains either end of the
    segment -/
theorem shapeLimits_within (dimX : Bool) (a z : P) (shapes : List Rect) (s : Rect) (hs : s ∈ shapes)
    (hin : insideBounds a s = true ∨ insideBounds z s = true) :
    Rect.lo s dimX ≤ (shapeLimits dimX a z shapes).lo ∧
      (shapeLimits dimX a z shapes).hi ≤ Rect.hi s dimX :=
  ⟨((lo_le_iff dimX a z shapes _).1 (le_refl _)).2 s hs hin,
   ((le_hi_iff dimX a z shapes _).1 (le_refl _)).2 s hs hin⟩

/-- the two `endsInShapes` bits say exactly whether the respective end lies in some shape -/
theorem shapeLimits_flags (dimX : Bool) (a z : P) (shapes : List Rect) :
    (shapeLimits dimX a z shapes).first = shapes.any (insideBounds a) ∧
    (shapeLimits dimX a z shapes).last = shapes.any (insideBounds z) :=
  ⟨first_eq dimX a z shapes, last_eq dimX a z shapes⟩

/-- the final limits lie inside the extent of every shape that contains either end of the segment -/
theorem finalLimits_within (dimX : Bool) (a z : P) (shapes : List Rect) (s : Rect) (hs : s ∈ shapes)
    (hin : insideBounds a s = true ∨ insideBounds z s = true) :
    Rect.lo s dimX ≤ (finalLimits dimX a z shapes).lo ∧
      (finalLimits dimX a z shapes).hi ≤ Rect.hi s dimX := by
  have hfl : ((shapeLimits dimX a z shapes).first || (shapeLimits dimX a z shapes).last) = true := by
    rw [first_eq, last_eq, Bool.or_eq_true, List.any_eq_true, List.any_eq_true]
    rcases hin with h | h
    · exact Or.inl ⟨s, hs, h⟩
    · exact Or.inr ⟨s, hs, h⟩
  have h := shapeLimits_within dimX a z shapes s hs hin
  unfold finalLimits
  simpa [hfl] using h

/-- any position within the final limits keeps the LAST point of the segment inside the shape it lies in -/
theorem finalLimits_end_stays_inside (dimX : Bool) (a z : P) (shapes : List Rect) (s : Rect)
    (hs : s ∈ shapes) (hz : insideBounds z s = true) (x : Rat)
    (hlo : (finalLimits dimX a z shapes).lo ≤ x) (hhi : x ≤ (finalLimits dimX a z shapes).hi) :
    insideBounds (P.setCo z dimX x) s = true := by
  have h := finalLimits_within dimX a z shapes s hs (Or.inr hz)
  exact insideBounds_setCo dimX z s x hz (le_trans h.1 hlo) (le_trans hhi h.2)

/-- any position within the final limits keeps the FIRST point of the segment inside the shape it lies in -/
theorem finalLimits_start_stays_inside (dimX : Bool) (a z : P) (shapes : List Rect) (s : Rect)
    (hs : s ∈ shapes) (ha : insideBounds a s = true) (x : Rat)
    (hlo : (finalLimits dimX a z shapes).lo ≤ x) (hhi : x ≤ (finalLimits dimX a z shapes).hi) :
    insideBounds (P.setCo a dimX x) s = true := by
  have h := finalLimits_within dimX a z shapes s hs (Or.inl ha)
  exact insideBounds_setCo dimX a s x ha (le_trans h.1 hlo) (le_trans hhi h.2)

/-- a segment neither end of which lies in a shape may move by at most `freeConnBuffer` either way -/
theorem finalLimits_free (dimX : Bool) (a z : P) (shapes : List Rect)
    (hfree : shapes.any (insideBounds a) = false ∧ shapes.any (insideBounds z) = false) :
    P.co a dimX - freeConnBuffer ≤ (finalLimits dimX a z shapes).lo ∧
      (finalLimits dimX a z shapes).hi ≤ P.co a dimX + freeConnBuffer := by
  have hfl : ((shapeLimits dimX a z shapes).first || (shapeLimits dimX a z shapes).last) = false := by
    rw [first_eq, last_eq, hfree.1, hfree.2]; rfl
  unfold finalLimits
  simp only [hfl]
  exact ⟨le_rmax_right _ _, rmin_le_right _ _⟩

/-- the loop does not depend on the direction in which the connector was declared -/
theorem shapeLimits_symm (dimX : Bool) (a z : P) (shapes : List Rect) :
    (shapeLimits dimX a z shapes).lo = (shapeLimits dimX z a shapes).lo ∧
    (shapeLimits dimX a z shapes).hi = (shapeLimits dimX z a shapes).hi ∧
    (shapeLimits dimX a z shapes).first = (shapeLimits dimX z a shapes).last ∧
    (shapeLimits dimX a z shapes).last = (shapeLimits dimX z a shapes).first := by
  have h1 : ∀ r ∈ shapes, hit a z r → r ∈ shapes ∧ hit z a r :=
    fun r hr hh => ⟨hr, (hit_comm a z r).1 hh⟩
  have h2 : ∀ r ∈ shapes, hit z a r → r ∈ shapes ∧ hit a z r :=
    fun r hr hh => ⟨hr, (hit_comm z a r).1 hh⟩
  refine ⟨le_antisymm (lo_mono dimX a z z a shapes shapes h1) (lo_mono dimX z a a z shapes shapes h2),
    le_antisymm (hi_mono dimX z a a z shapes shapes h2) (hi_mono dimX a z z a shapes shapes h1), ?_, ?_⟩
  · rw [first_eq, last_eq]
  · rw [first_eq, last_eq]

/-- the final limits do not depend on the direction of the connector (both ends of the segment have the
    same coordinate in the shift dimension) -/
theorem finalLimits_symm (dimX : Bool) (a z : P) (shapes : List Rect)
    (hpos : P.co a dimX = P.co z dimX) :
    (finalLimits dimX a z shapes).lo = (finalLimits dimX z a shapes).lo ∧
    (finalLimits dimX a z shapes).hi = (finalLimits dimX z a shapes).hi := by
  obtain ⟨hlo, hhi, hf, hl⟩ := shapeLimits_symm dimX a z shapes
  have hb : ((shapeLimits dimX a z shapes).first || (shapeLimits dimX a z shapes).last)
      = ((shapeLimits dimX z a shapes).first || (shapeLimits dimX z a shapes).last) := by
    rw [hf, hl, Bool.or_comm]
  unfold finalLimits
  cases hc : ((shapeLimits dimX z a shapes).first || (shapeLimits dimX z a shapes).last)
  · simp only [hb, hc, hlo, hhi, hpos, Bool.false_eq_true, if_false, and_self]
  · simp only [hb, hc, if_true]
    exact ⟨hlo, hhi⟩

/-- knowing only some of the obstacles gives limits that are at least as wide -/
theorem shapeLimits_mono_subset (dimX : Bool) (a z : P) (l₁ l₂ : List Rect) (h : ∀ r ∈ l₁, r ∈ l₂) :
    (shapeLimits dimX a z l₁).lo ≤ (shapeLimits dimX a z l₂).lo ∧
      (shapeLimits dimX a z l₂).hi ≤ (shapeLimits dimX a z l₁).hi :=
  ⟨lo_mono dimX a z a z l₁ l₂ (fun r hr hh => ⟨h r hr, hh⟩),
   hi_mono dimX a z a z l₁ l₂ (fun r hr hh => ⟨h r hr, hh⟩)⟩

theorem shapeLimits_mono_sublist (dimX : Bool) (a z : P) (l₁ l₂ : List Rect) (h : l₁.Sublist l₂) :
    (shapeLimits dimX a z l₁).lo ≤ (shapeLimits dimX a z l₂).lo ∧
      (shapeLimits dimX a z l₂).hi ≤ (shapeLimits dimX a z l₁).hi :=
  shapeLimits_mono_subset dimX a z l₁ l₂ (fun _ hr => h.subset hr)

/-! ### non-vacuity: a vertical last segment from the free bend (10,50) to the point (10,5) inside the
shape [7,13]×[2,8]; a second shape does not contain either end -/

example : finalLimits true ⟨10, 50⟩ ⟨10, 5⟩ [⟨7, 2, 13, 8⟩, ⟨20, 0, 30, 10⟩] = ⟨7, 13, false, true⟩ := by
  decide +kernel

example : (finalLimits true ⟨10, 50⟩ ⟨10, 5⟩ [⟨7, 2, 13, 8⟩, ⟨20, 0, 30, 10⟩]).isFixed = false := by
  decide +kernel

/-- the "forgot the last point" variant is different: neither bit is set and the free buffer applies -/
example : (shapeLimits true ⟨10, 50⟩ ⟨10, 50⟩ [⟨7, 2, 13, 8⟩, ⟨20, 0, 30, 10⟩]).first = false := by
  decide +kernel

example : (finalLimits true ⟨10, 50⟩ ⟨10, 50⟩ [⟨7, 2, 13, 8⟩, ⟨20, 0, 30, 10⟩]).hi = 25 := by
  decide +kernel

example : (finalLimits true ⟨10, 50⟩ ⟨10, 50⟩ [⟨7, 2, 13, 8⟩, ⟨20, 0, 30, 10⟩]).lo = -5 := by
  decide +kernel

/-- the hypotheses of `finalLimits_end_stays_inside` are satisfiable: x = 12 is within the limits -/
example : insideBounds (P.setCo ⟨10, 5⟩ true 12) ⟨7, 2, 13, 8⟩ = true :=
  finalLimits_end_stays_inside true ⟨10, 50⟩ ⟨10, 5⟩ [⟨7, 2, 13, 8⟩, ⟨20, 0, 30, 10⟩] ⟨7, 2, 13, 8⟩
    (by decide +kernel) (by decide +kernel) 12 (by decide +kernel) (by decide +kernel)

-- non-vacuity of finalLimits_start_stays_inside: the same segment declared the other way round, x = 8
example : insideBounds (P.setCo ⟨10, 5⟩ true 8) ⟨7, 2, 13, 8⟩ = true :=
  finalLimits_start_stays_inside true ⟨10, 5⟩ ⟨10, 50⟩ [⟨7, 2, 13, 8⟩, ⟨20, 0, 30, 10⟩] ⟨7, 2, 13, 8⟩
    (by decide +kernel) (by decide +kernel) 8 (by decide +kernel) (by decide +kernel)

-- non-vacuity of finalLimits_free: neither end of (10,50)-(10,40) lies in a shape
example : P.co (⟨10, 50⟩ : P) true - freeConnBuffer ≤ (finalLimits true ⟨10, 50⟩ ⟨10, 40⟩ [⟨7, 2, 13, 8⟩, ⟨20, 0, 30, 10⟩]).lo ∧
    (finalLimits true ⟨10, 50⟩ ⟨10, 40⟩ [⟨7, 2, 13, 8⟩, ⟨20, 0, 30, 10⟩]).hi ≤ P.co (⟨10, 50⟩ : P) true + freeConnBuffer :=
  finalLimits_free true ⟨10, 50⟩ ⟨10, 40⟩ [⟨7, 2, 13, 8⟩, ⟨20, 0, 30, 10⟩] (by decide +kernel)

end AdaptaVerif.Props.C14Limits
