/-
C18 — tie theorems: the SepDir kernels generated from /repo's libdialect/constraints.cpp by cpp2lean
on every run (`switch` statements over `enum class SepDir`) are the hand model of Model/Sep.lean that
the C18 theorems are about, and none of their assertions (the `default: COLA_ASSERT(false)` arm of
negateSepDir) is reachable.
-/
import AdaptaVerif.Gen.SepDir
import AdaptaVerif.Model.Sep
namespace AdaptaVerif.Props.C18Tie
open AdaptaVerif.Model.Sep

theorem gen_sepdir_kernels_are_model (sd : SepDir) :
    AdaptaVerif.Gen.SepDir.negateSepDir sd = negateSepDir sd ∧
    AdaptaVerif.Gen.SepDir.sepDirIsCardinal sd = sepDirIsCardinal sd ∧
    AdaptaVerif.Gen.SepDir.lateralWeakening sd = lateralWeakening sd ∧
    AdaptaVerif.Gen.SepDir.cardinalStrengthening sd = cardinalStrengthening sd := by
  cases sd <;> exact ⟨rfl, rfl, rfl, rfl⟩

theorem gen_sepdir_assertions_hold (sd : SepDir) :
    AdaptaVerif.Gen.SepDir.negateSepDir_pre sd = true ∧
    AdaptaVerif.Gen.SepDir.sepDirIsCardinal_pre sd = true ∧
    AdaptaVerif.Gen.SepDir.lateralWeakening_pre sd = true ∧
    AdaptaVerif.Gen.SepDir.cardinalStrengthening_pre sd = true := by
  cases sd <;> exact ⟨rfl, rfl, rfl, rfl⟩

end AdaptaVerif.Props.C18Tie
