/-
C20 (and C09, C15) — comparators regenerated from /repo's C++ by cpp2lean on every run
(Gen/Comparators.lean) and proved to be strict weak orders with an explicit equivalence; where a
comparator reads a heap address the theorems say exactly when the address can influence the order.

A comparator that is not a strict weak order makes `std::set` / `std::sort` undefined behaviour
(C15); one whose ties are broken by addresses makes iteration order — and whatever is computed
from it — depend on the allocator (C20).  The pin comparator is in Props/C11Tie, the action
comparator in Props/C06Tie.
-/
import AdaptaVerif.Gen.Comparators
import AdaptaVerif.Lemmas.StrictWeakOrder
import AdaptaVerif.Model.Scanline
import AdaptaVerif.Gen.Makepath
import AdaptaVerif.Model.RouteCost
import AdaptaVerif.Lemmas.FrameCost
namespace AdaptaVerif.Props.C20Tie
open AdaptaVerif.Gen.Comparators AdaptaVerif.Model.CmpKeys AdaptaVerif.Lemmas.SWO
open AdaptaVerif.Model.Geometry (Pt)

/-! ### `Avoid::Point::operator<` (geomtypes.cpp) — `std::set<Point>` -/

/-- `a < b` in argument order (the generated function takes `rhs` first) -/
abbrev pointLess (a b : Pt) : Bool := pointLt b a

theorem gen_pointLt_is_lex : pointLess = cmpBy Pt.x (cmpBy Pt.y (fun _ _ => false)) := by
  funext a b; simp only [pointLess, pointLt, cmpBy]; grind

theorem pointLt_strict_weak_order : IsSWO pointLess := by
  rw [gen_pointLt_is_lex]; exact swo_cmpBy _ (swo_cmpBy _ swo_false)

theorem pointLt_equiv_iff_equal (a b : Pt) : Incomp pointLess a b ↔ a = b := by
  rw [gen_pointLt_is_lex, incomp_cmpBy, incomp_cmpBy]
  cases a; cases b; simp [incomp_false]

/-! ### `Avoid::VertID::operator<` (vertices.cpp) -/

abbrev vertIdLess (a b : VertIdKey) : Bool := vertIdLt b a

theorem gen_vertIdLt_is_lex : vertIdLess = cmpBy VertIdKey.objID (cmpBy VertIdKey.vn (fun _ _ => false)) := by
  funext a b; simp only [vertIdLess, vertIdLt, cmpBy]; grind

theorem vertIdLt_strict_weak_order : IsSWO vertIdLess := by
  rw [gen_vertIdLt_is_lex]; exact swo_cmpBy _ (swo_cmpBy _ swo_false)

/-- two vertex ids are the same key iff object id and vertex number agree (`props` is not compared) -/
theorem vertIdLt_equiv_iff (a b : VertIdKey) : Incomp vertIdLess a b ↔ a = b := by
  rw [gen_vertIdLt_is_lex, incomp_cmpBy, incomp_cmpBy]
  cases a; cases b; simp [incomp_false]

/-! ### `Avoid::LineSegment::operator<` (orthogonal.cpp) — the scan-line segment lists -/

abbrev lineSegLess (a b : LineSegKey) : Bool := lineSegmentLt b a

theorem gen_lineSegmentLt_is_lex :
    lineSegLess = cmpBy LineSegKey.begin_ (cmpBy LineSegKey.pos (cmpBy LineSegKey.finish (fun _ _ => false))) := by
  funext a b; simp [lineSegLess, lineSegmentLt, cmpBy]

theorem lineSegmentLt_strict_weak_order : IsSWO lineSegLess := by
  rw [gen_lineSegmentLt_is_lex]; exact swo_cmpBy _ (swo_cmpBy _ (swo_cmpBy _ swo_false))

/-- the `COLA_ASSERT(shapeSide == rhs.shapeSide)` is reached exactly for equivalent segments and
    demands that they agree on `shapeSide` -/
theorem lineSegmentLt_assertion_iff (a b : LineSegKey) :
    lineSegmentLt_pre b a = true ↔ (Incomp lineSegLess a b → a.shapeSide = b.shapeSide) := by
  rw [gen_lineSegmentLt_is_lex, incomp_cmpBy, incomp_cmpBy, incomp_cmpBy]
  simp only [lineSegmentLt_pre, incomp_false, and_true]
  cases ha : a.shapeSide <;> cases hb : b.shapeSide <;>
    by_cases h1 : a.begin_ = b.begin_ <;> by_cases h2 : a.pos = b.pos <;> by_cases h3 : a.finish = b.finish <;>
    simp [h1, h2, h3]

/-! ### `Avoid::CmpVertInf` (orthogonal.cpp) — `std::set<VertInf*>`; last resort: the address -/

theorem gen_cmpVertInf_is_lex :
    cmpVertInf = cmpBy VertInfKey.px (cmpBy VertInfKey.py (cmpBy VertInfKey.addr (fun _ _ => false))) := by
  funext a b; simp only [cmpVertInf, cmpBy]; grind

theorem cmpVertInf_strict_weak_order : IsSWO cmpVertInf := by
  rw [gen_cmpVertInf_is_lex]; exact swo_cmpBy _ (swo_cmpBy _ (swo_cmpBy _ swo_false))

/-- vertices at different points are ordered by their points alone; only vertices at the SAME point
    are ordered by where they were allocated -/
theorem cmpVertInf_address_only_at_equal_points (u v : VertInfKey) (au av : Nat)
    (h : u.px ≠ v.px ∨ u.py ≠ v.py) :
    cmpVertInf { u with addr := au } { v with addr := av } = cmpVertInf u v := by
  simp only [cmpVertInf]; grind

/-- and there the address decides: the set's order of two co-located vertices is the allocation order -/
theorem cmpVertInf_depends_on_address_at_equal_points (u v : VertInfKey)
    (h : u.px = v.px ∧ u.py = v.py) : cmpVertInf u v = decide (u.addr < v.addr) := by
  simp [cmpVertInf, h.1, h.2]

/-! ### `vpsc::CmpNodePos` (libvpsc/rectangle.cpp) — the scan line of `generateX/YConstraints` -/

theorem gen_cmpNodePos_is_lex :
    cmpNodePos = cmpBy NodeKey.pos (cmpBy NodeKey.id (cmpBy NodeKey.addr (fun _ _ => false))) := by
  funext a b; simp only [cmpNodePos, cmpBy]; grind

theorem cmpNodePos_strict_weak_order : IsSWO cmpNodePos := by
  rw [gen_cmpNodePos_is_lex]; exact swo_cmpBy _ (swo_cmpBy _ (swo_cmpBy _ swo_false))

theorem cmpNodePos_no_assertion (u v : NodeKey) : cmpNodePos_pre u v = true := by
  simp [cmpNodePos_pre]

/-- since fix 5eb2448 ties between coincident centres are broken by the variable id: nodes of
    different variables are ordered without looking at any address.  (Reverting the fix, i.e.
    falling back to `u < v` directly, breaks this proof.) -/
theorem cmpNodePos_address_free (u v : NodeKey) (au av : Nat) (h : u.id ≠ v.id) :
    cmpNodePos { u with addr := au } { v with addr := av } = cmpNodePos u v := by
  simp only [cmpNodePos]; grind

/-- …and total on them: exactly one of `u<v`, `v<u` -/
theorem cmpNodePos_total_on_distinct_ids (u v : NodeKey) (h : u.id ≠ v.id) :
    cmpNodePos u v = !cmpNodePos v u := by
  simp only [cmpNodePos]; grind

/-- the comparator the C09 scan-line model runs with (`Model.Scanline.keyLt ax rank`, rank :=
    variable id) IS the generated `CmpNodePos` on nodes of different variables, whatever their
    addresses -/
theorem gen_cmpNodePos_is_scanline_keyLt (ax : AdaptaVerif.Model.Scanline.Axis) (rank : Nat → Nat) (i j : Nat)
    (ai aj : Nat) (h : rank i ≠ rank j) :
    cmpNodePos ⟨ax.ctr i, rank i, ai⟩ ⟨ax.ctr j, rank j, aj⟩ = AdaptaVerif.Model.Scanline.keyLt ax rank i j := by
  simp only [cmpNodePos, AdaptaVerif.Model.Scanline.keyLt]; grind

/-! ### `vpsc::CompareConstraints` (libvpsc/constraint.cpp) — the pairing heaps of in/out constraints -/

/-- the key the comparator sorts by: −DBL_MAX for a stale or internal constraint, else its slack -/
def conSortKey (c : ConKey) : Rat :=
  if c.blockTs > c.ts ∨ c.lblock = c.rblock then
    -(179769313486231570814527423731704356798070567525844996598917476803157260780028538760589558632766878171540458953514382464234321326889464182768467546703537516986049910576551282076245490090389328944075868508455133942304583236903222948165808559332123348274797826204144723168738177180919299881250404026184124858368 : Rat)
  else c.slack

theorem gen_compareConstraints_is_lex :
    compareConstraints = cmpBy conSortKey (cmpBy ConKey.lid (cmpBy ConKey.rid (fun _ _ => false))) := by
  funext a b
  simp only [compareConstraints, cmpBy, conSortKey, Bool.or_eq_true, decide_eq_true_eq]
  grind

theorem compareConstraints_strict_weak_order : IsSWO compareConstraints := by
  rw [gen_compareConstraints_is_lex]; exact swo_cmpBy _ (swo_cmpBy _ (swo_cmpBy _ swo_false))

/-- block addresses enter only through the test `left->block == right->block`; the heap order
    never depends on WHERE blocks live: constraints between different pairs of variable ids are
    totally ordered by (key, left id, right id) -/
theorem compareConstraints_equiv_iff (a b : ConKey) :
    Incomp compareConstraints a b ↔ conSortKey a = conSortKey b ∧ a.lid = b.lid ∧ a.rid = b.rid := by
  rw [gen_compareConstraints_is_lex, incomp_cmpBy, incomp_cmpBy, incomp_cmpBy]; simp [incomp_false]

/-! ### `cola::ShapePair::operator<` (libcola/shapepair.cpp) — the set of exempt pairs -/

abbrev shapePairLess (a b : ShapePairKey) : Bool := shapePairLt b a

theorem gen_shapePairLt_is_lex : shapePairLess = cmpBy ShapePairKey.i1 (cmpBy ShapePairKey.i2 (fun _ _ => false)) := by
  funext a b; simp only [shapePairLess, shapePairLt, cmpBy]
  by_cases h1 : a.i1 = b.i1 <;> by_cases h2 : a.i2 = b.i2 <;> simp [h1, h2] <;> omega

theorem shapePairLt_strict_weak_order : IsSWO shapePairLess := by
  rw [gen_shapePairLt_is_lex]; exact swo_cmpBy _ (swo_cmpBy _ swo_false)

theorem shapePairLt_equiv_iff_equal (a b : ShapePairKey) : Incomp shapePairLess a b ↔ a = b := by
  rw [gen_shapePairLt_is_lex, incomp_cmpBy, incomp_cmpBy]
  cases a; cases b; simp [incomp_false]

/-! ### `dimDirection` (makepath.cpp) — the sign function of the reverse-direction rule of `cost()` -/

/-- the `dimDir` of the Lean model of the reverse-direction rule (Model/RouteCost.lean, proved frame-invariant in
    Props/C20.lean) is the `dimDirection` regenerated from the source -/
theorem gen_dimDirection_is_dimDir (d : Rat) :
    AdaptaVerif.Gen.Makepath.dimDirection d = AdaptaVerif.Model.RouteCost.dimDir d := by
  simp only [AdaptaVerif.Gen.Makepath.dimDirection, AdaptaVerif.Model.RouteCost.dimDir, gt_iff_lt, decide_eq_true_eq]

/-! ### `CmpVisEdgeRotation` (makepath.cpp, after fix 992d05a) — hand model `Model.RouteCost.cmpVisEdge` -/

open AdaptaVerif.Model.RouteCost in
/-- the model's `ptLt` is the regenerated `Point::operator<` -/
theorem ptLt_is_gen_pointLt (p q : Pt) : ptLt p q = pointLess p q := by
  simp only [ptLt, pointLess, pointLt]; grind

open AdaptaVerif.Model.RouteCost in
/-- among dummy pin edges the order is lexicographic in (lower endpoint, upper endpoint, address) -/
theorem dummyLt_is_lex :
    dummyLt = cmpBy (fun e => e.lo.x) (cmpBy (fun e => e.lo.y) (cmpBy (fun e => e.hi.x) (cmpBy (fun e => e.hi.y)
      (cmpBy EdgeKey.addr (fun _ _ => false))))) := by
  funext u v
  simp only [dummyLt, cmpBy]
  exact AdaptaVerif.Lemmas.FrameCost.dummyLt_aux u.lo u.hi v.lo v.hi u.addr v.addr

open AdaptaVerif.Model.RouteCost in
/-- … hence a strict weak order (what `list::sort` needs) -/
theorem dummyLt_strict_weak_order : IsSWO dummyLt := by
  rw [dummyLt_is_lex]
  exact swo_cmpBy _ (swo_cmpBy _ (swo_cmpBy _ (swo_cmpBy _ (swo_cmpBy _ swo_false))))

open AdaptaVerif.Model.RouteCost in
/-- the heap address decides ONLY between two dummy edges with the same pair of endpoints: otherwise the comparator's
    answer is the same for every assignment of addresses -/
theorem cmpVisEdge_address_only_at_equal_endpoints (rot : EdgeKey → EdgeKey → Bool) (u v : EdgeKey)
    (hrot : ∀ a b, rot { u with addr := a } { v with addr := b } = rot u v)
    (h : u.orth = true ∨ v.orth = true ∨ u.lo ≠ v.lo ∨ u.hi ≠ v.hi) (a b : Nat) :
    cmpVisEdge rot { u with addr := a } { v with addr := b } = cmpVisEdge rot u v := by
  simp only [cmpVisEdge, dummyLt, EdgeKey.lo, EdgeKey.hi] at h ⊢
  rw [hrot]
  grind

open AdaptaVerif.Model.RouteCost in
/-- a dummy pin edge is explored before an orthogonal edge, whatever the addresses -/
theorem cmpVisEdge_dummy_first (rot : EdgeKey → EdgeKey → Bool) (u v : EdgeKey) (hu : u.orth = false) (hv : v.orth = true) :
    cmpVisEdge rot u v = true ∧ cmpVisEdge rot v u = false := by
  simp [cmpVisEdge, hu, hv]

/-! ### non-vacuity -/
example : cmpNodePos ⟨1, 2, 100⟩ ⟨1, 3, 50⟩ = true ∧ cmpNodePos ⟨1, 2, 10⟩ ⟨1, 3, 500⟩ = true := by decide
example : cmpVertInf ⟨0, 0, 5⟩ ⟨0, 0, 7⟩ = true ∧ cmpVertInf ⟨0, 0, 7⟩ ⟨0, 0, 5⟩ = false := by decide

open AdaptaVerif.Model.RouteCost in
-- non-vacuity of cmpVisEdge_address_only_at_equal_endpoints: a rotation comparator that reads no address (hrot), two dummy
-- edges with different lower endpoints (h); the theorem instantiated for exchanged addresses
example : cmpVisEdge (fun e f => ptLt e.a f.a) ⟨false, ⟨0, 0⟩, ⟨1, 0⟩, 7⟩ ⟨false, ⟨0, 1⟩, ⟨1, 0⟩, 3⟩ =
    cmpVisEdge (fun e f => ptLt e.a f.a) ⟨false, ⟨0, 0⟩, ⟨1, 0⟩, 3⟩ ⟨false, ⟨0, 1⟩, ⟨1, 0⟩, 7⟩ :=
  cmpVisEdge_address_only_at_equal_endpoints (fun e f => ptLt e.a f.a) ⟨false, ⟨0, 0⟩, ⟨1, 0⟩, 3⟩ ⟨false, ⟨0, 1⟩, ⟨1, 0⟩, 7⟩
    (fun _ _ => rfl) (Or.inr (Or.inr (Or.inl (by decide)))) 7 3

-- the Incomp characterisations are not between constantly false sides
example : Incomp pointLess ⟨1, 2⟩ ⟨1, 2⟩ ∧ ¬ Incomp pointLess ⟨1, 2⟩ ⟨1, 3⟩ := by
  rw [pointLt_equiv_iff_equal, pointLt_equiv_iff_equal]; exact ⟨rfl, by decide⟩

end AdaptaVerif.Props.C20Tie
