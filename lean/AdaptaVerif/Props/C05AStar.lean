/-
C05 — the A* search of libavoid (`AStarPathPrivate::search`, makepath.cpp) inside the model.

`Model/AStar.lean` is the search as coded (part 1: the loop on an abstract state graph whose states are
(vertex, previous vertex); part 2: the orthogonal router's instance on a dumped visibility graph).
The correspondence of driver mode c05 runs that model on libavoid's own graph for every routed scene
and requires the C++ `route()` to be vertex-for-vertex the model's route.

Theorems here, for ALL problems (all finite graphs, all step costs — also negative ones —, all fuel):
soundness of the loop, optimality under consistency (closed list, no re-opening) with the as-coded
zero-cost last hop accounted for as a `bonus`, the soundness of the per-graph consistency check, and
the witnesses showing that the hypotheses are necessary and that libavoid's estimator violates them.
-/
import AdaptaVerif.Lemmas.AStarGraph
import AdaptaVerif.Lemmas.AStarWitness
import AdaptaVerif.Lemmas.AStarBridge
import AdaptaVerif.Lemmas.AStarEstimate
import AdaptaVerif.Lemmas.AStarRoute
import AdaptaVerif.Lemmas.AStarTotal
import AdaptaVerif.Lemmas.AStarCost
namespace AdaptaVerif.Props.C05AStar
open AdaptaVerif.Model.AStar AdaptaVerif.Lemmas.AStarSpec
open AdaptaVerif.Lemmas.AStarOpt (bonusOf)
open AdaptaVerif.Model.Geometry (Pt)

/-- **Soundness.** Whatever the problem and the fuel: if the search returns node `b`, then `b` sits at
    the target vertex, it is the last DONE entry, and its `prevNode` chain is a path of the state graph
    from the source to it whose accumulated step cost is exactly the returned `g`. -/
theorem search_sound (P : Problem) (fuel : Nat) (b : Node) (done : List Node)
    (h : search P fuel (init P) = .found b done) :
    b.v = P.tar ∧ done.getLast? = some b ∧ Reach P b.v b.pv b.g (pathOf done done.length b) :=
  Lemmas.AStarSound.search_sound P fuel b done h

example : (search Lemmas.AStarWitness.closedList 10 (init Lemmas.AStarWitness.closedList)).chain = [0, 1, 3, 4] := by
  decide +kernel

/-- **Termination / the fuel is no restriction.**  PENDING ∪ DONE hold every key (vertex, previous vertex)
    at most once and every iteration moves one key to DONE for good; so for any finite universe `K` of
    states closed under the successor relation, fuel > |K| is never exhausted: the search ends with
    `found` or `noPath` (so `search_sound` / `search_optimal` are not vacuous for lack of fuel). -/
theorem search_total (P : Problem) (K : List (Option Nat × Nat))
    (hK0 : (none, P.src) ∈ K)
    (hKs : ∀ pv v s, (pv, v) ∈ K → some s ∈ P.succs pv v → (some v, s.w) ∈ K)
    (fuel : Nat) (hf : K.length < fuel) :
    search P fuel (init P) ≠ .outOfFuel :=
  Lemmas.AStarTotal.search_total P K hK0 hKs fuel hf

/-- … in particular the orthogonal router's search on ANY dumped graph, with the fuel the driver gives it
    (number of directed edges + 2), never runs out of fuel. -/
theorem graph_run_total (g : Graph) : g.run ≠ .outOfFuel :=
  Lemmas.AStarTotal.graph_run_total g

/-- **What libavoid reads back is the loop-erased chain.**  `search` stores its result in ONE `pathNext`
    pointer per vertex, so when the returned node chain visits a vertex twice (DONE is keyed on (vertex,
    previous vertex); harness case `c05 --seed 1 --tier quick --mode dirs2 --only 2378` does) the route is
    not the chain.  For every chain (target first): the route read back starts at the target, ends at the
    source, visits no vertex twice, contains only vertices of the chain, and each of its hops is a hop of
    the chain (hence an edge the search walked). -/
theorem route_is_loop_erased_chain (chain : List Nat) :
    (∀ x ∈ routeOfChain chain.length chain, x ∈ chain) ∧
    (routeOfChain chain.length chain).Nodup ∧
    (routeOfChain chain.length chain).head? = chain.head? ∧
    (routeOfChain chain.length chain).getLast? = chain.getLast? ∧
    (∀ a b, Lemmas.AStarRoute.Hop a b (routeOfChain chain.length chain) → Lemmas.AStarRoute.Hop a b chain) :=
  Lemmas.AStarRoute.route_props chain.length chain.length chain (Nat.le_refl _) (Nat.le_refl _)

example : routeOfChain 6 [0, 3, 2, 1, 3, 9] = [0, 3, 9] := by decide

/-- The variant `searchSt` the driver uses to read PENDING's size and the time-stamp counter at the goal
    (compared with the optional library hook) is the same search: what it returns is what `search` finds. -/
theorem searchSt_is_search (P : Problem) (fuel : Nat) (st : St) (b : Node) (st' : St)
    (h : searchSt P fuel st = some (b, st')) : search P fuel st = .found b st'.done :=
  Lemmas.AStarSound.searchSt_found P fuel st b st' h

-- non-vacuity of `searchSt_is_search` (and, through the `found` it yields, of `search_sound`): `closedList`
example : ∃ b done, search Lemmas.AStarWitness.closedList 10 (init Lemmas.AStarWitness.closedList) = .found b done ∧
    b.v = 4 ∧ b.g = 6 := by
  have hs : (searchSt Lemmas.AStarWitness.closedList 10 (init Lemmas.AStarWitness.closedList)).isSome = true := by
    decide +kernel
  obtain ⟨⟨b, st'⟩, h⟩ := Option.isSome_iff_exists.mp hs
  have hf := searchSt_is_search _ _ _ b st' h
  have hc : (search Lemmas.AStarWitness.closedList 10 (init Lemmas.AStarWitness.closedList)).cost = some 6 := by
    decide +kernel
  rw [hf] at hc
  exact ⟨b, st'.done, hf, (search_sound _ _ b _ hf).1, Option.some.inj hc⟩

/-- **Optimality under consistency** (exact comparator, eps = 0).  `H` = the heuristic as a function
    of the state; `Legit` = any set of states closed under the successor relation that contains the
    start state (hypotheses are only needed there); `bonus v ≥ 0` = what the last hop out of `v` into
    the target is under-charged by (libavoid charges nothing for the hop from a cost target to the
    target, although its heuristic counts the hop's length).  If `H` is consistent on every edge into a
    non-target state, `H ≤ step + bonus` on the edges into the target, with equality wherever the
    bonus is non-zero, then the returned node minimises g + bonus over ALL source→target paths of the
    state graph that meet the target only at their end.  Step costs may be negative. -/
theorem search_optimal (P : Problem) (H : Nat → Option Nat → Rat) (bonus : Nat → Rat)
    (Legit : Option Nat → Nat → Prop)
    (heps : P.eps = 0) (hst : P.src ≠ P.tar)
    (hL0 : Legit none P.src)
    (hLs : ∀ pv v s, Legit pv v → some s ∈ P.succs pv v → Legit (some v) s.w)
    (hH0 : P.h0 = H P.src none)
    (hH : ∀ pv v s, Legit pv v → some s ∈ P.succs pv v → s.h = H s.w (some v))
    (hgoal : ∀ pv, H P.tar pv = 0)
    (hbonus : ∀ v, 0 ≤ bonus v)
    (hcons : ∀ pv v s, Legit pv v → some s ∈ P.succs pv v → s.w ≠ P.tar → H v pv ≤ s.c + H s.w (some v))
    (hcg : ∀ pv v s, Legit pv v → some s ∈ P.succs pv v → s.w = P.tar →
        H v pv ≤ s.c + bonus v ∧ (bonus v = 0 ∨ H v pv = s.c + bonus v))
    (fuel : Nat) (b : Node) (done : List Node)
    (h : search P fuel (init P) = .found b done) :
    ∀ u c path, Reach P P.tar (some u) c path → P.tar ∉ path.tail →
      b.g + bonusOf bonus b.pv ≤ c + bonus u :=
  Lemmas.AStarOpt.search_optimal P H bonus Legit heps hst hL0 hLs hH0 hH hgoal hbonus hcons hcg fuel b done h

/-- **Textbook form**: consistent heuristic, every hop charged — the returned g is the minimum. -/
theorem search_optimal_textbook (P : Problem) (H : Nat → Option Nat → Rat)
    (heps : P.eps = 0) (hst : P.src ≠ P.tar)
    (hH0 : P.h0 = H P.src none)
    (hH : ∀ pv v s, some s ∈ P.succs pv v → s.h = H s.w (some v))
    (hgoal : ∀ pv, H P.tar pv = 0)
    (hcons : ∀ pv v s, some s ∈ P.succs pv v → H v pv ≤ s.c + H s.w (some v))
    (fuel : Nat) (b : Node) (done : List Node)
    (h : search P fuel (init P) = .found b done) :
    ∀ u c path, Reach P P.tar (some u) c path → P.tar ∉ path.tail → b.g ≤ c :=
  Lemmas.AStarOpt.search_optimal_textbook P H heps hst hH0 hH hgoal hcons fuel b done h

/-- **Consistency is necessary** (the DONE list is never re-opened): on `closedList` the heuristic is
    admissible (0 everywhere except 3 = the exact remaining cost at A entered from B) but not
    consistent, and the search returns cost 6 although the path S→B→A→C→T costs 5. -/
theorem closed_list_needs_consistency :
    (search Lemmas.AStarWitness.closedList 10 (init Lemmas.AStarWitness.closedList)).cost = some 6 ∧
    Reach Lemmas.AStarWitness.closedList 4 (some 3) 5 [4, 3, 1, 2, 0] := by
  refine ⟨by decide +kernel, ?_⟩
  exact walk_start_sound Lemmas.AStarWitness.closedList [2, 1, 3, 4] (some 3) 4 5 [4, 3, 1, 2, 0] (by decide +kernel)

/-- **Soundness of the per-graph check** `Graph.consistent` (run by the driver on libavoid's dumped
    graphs): where it succeeds, the model search on that graph (exact comparator) returns a node that
    minimises g + (length of the uncharged last hop) over all source→target paths of the state graph
    the orthogonal router searches (skip rules and turn pruning as coded). -/
theorem graph_search_optimal (g : Graph) (hc : g.consistent = true) (heps : g.eps = 0)
    (fuel : Nat) (b : Node) (done : List Node)
    (h : search g.problem fuel (init g.problem) = .found b done) :
    ∀ u c path, Reach g.problem g.tar (some u) c path → g.tar ∉ path.tail →
      b.g + bonusOf g.bonus b.pv ≤ c + g.bonus u :=
  Lemmas.AStarGraph.graph_search_optimal g hc heps fuel b done h

example : Lemmas.AStarWitness.lineGraph.consistent = true ∧ Lemmas.AStarWitness.lineGraph.eps = 0 ∧
    (search Lemmas.AStarWitness.lineGraph.problem 5 (init Lemmas.AStarWitness.lineGraph.problem)).cost = some 1 := by
  decide +kernel

-- non-vacuity of `graph_search_optimal` (hence of `search_optimal`, which it instantiates): on `lineGraph` all
-- hypotheses hold jointly, the search is `found`, and every route costs at least the returned g + bonus
example : ∃ b done, search Lemmas.AStarWitness.lineGraph.problem 5 (init Lemmas.AStarWitness.lineGraph.problem) = .found b done ∧
    ∀ u c path, Reach Lemmas.AStarWitness.lineGraph.problem Lemmas.AStarWitness.lineGraph.tar (some u) c path →
      Lemmas.AStarWitness.lineGraph.tar ∉ path.tail →
      b.g + bonusOf Lemmas.AStarWitness.lineGraph.bonus b.pv ≤ c + Lemmas.AStarWitness.lineGraph.bonus u := by
  have hc : (search Lemmas.AStarWitness.lineGraph.problem 5 (init Lemmas.AStarWitness.lineGraph.problem)).cost = some 1 := by
    decide +kernel
  cases h : search Lemmas.AStarWitness.lineGraph.problem 5 (init Lemmas.AStarWitness.lineGraph.problem) with
  | found b done =>
    exact ⟨b, done, rfl, graph_search_optimal _ (by decide +kernel) (by decide +kernel) 5 b done h⟩
  | noPath => rw [h] at hc; cases hc
  | outOfFuel => rw [h] at hc; cases hc

/-- **The model's `cost()` is the measure the property speaks of**: for all rational points, a hop p2 → p3
    with a single heading taken after a hop p1 → p2 with a single heading costs its length plus
    segmentPenalty × (0 straight | 1 quarter turn | 2 doubling back) — `cost()`'s classification of
    `M_PI - angleBetween(p1,p2,p3)` (`bendClass`: cross and dot product of the two hop vectors; tied to the
    C++ by the direct `cost()` calls of class astar-kernels) is exactly the relation of the headings; the first
    hop of a route costs its length.  (reverseDirectionPenalty = 0, segmentPenalty > 0.) -/
theorem cost_is_length_plus_bends (g : Graph) (hpen : 0 < g.segPen) (hrev : g.revPen = 0) (dist : Rat)
    (p1 p2 p3 : Pt) (d1 d2 : AdaptaVerif.Spec.OrthPath.Dir)
    (h1 : AdaptaVerif.Model.Bends.orthogonalDirection p1 p2 = d1.mask)
    (h2 : AdaptaVerif.Model.Bends.orthogonalDirection p2 p3 = d2.mask) :
    costPts g dist (some p1) p2 p3 =
      dist + (if d2 = d1 then 0 else if d2 = d1.rev then 2 * g.segPen else g.segPen) ∧
    costPts g dist none p2 p3 = dist :=
  Lemmas.AStarCost.cost_axis_parallel g hpen hrev dist p1 p2 p3 d1 d2 h1 h2

-- non-vacuity of `cost_is_length_plus_bends`: hop (0,0) → (1,0) heading E, then (1,0) → (1,2) heading S: one bend
example : costPts { (default : Graph) with segPen := 10 } 2 (some ⟨0, 0⟩) ⟨1, 0⟩ ⟨1, 2⟩ = 2 + 10 := by
  have := (cost_is_length_plus_bends { (default : Graph) with segPen := 10 } (by decide +kernel) rfl 2
    ⟨0, 0⟩ ⟨1, 0⟩ ⟨1, 2⟩ .E .S (by decide +kernel) (by decide +kernel)).1
  rw [this]; decide +kernel

/-- **libavoid's estimator is not consistent with `cost()`, kind 1: the edge into a cost target.**
    Penalty 10, cost target (0,0) to be entered heading East (`costTarDirs = 2`).  At (0,1), heading
    North, the estimate is 1 + 1 bend = 11; one straight step of cost 1 further, at the cost target
    itself, it is 0 (`dist == 0` leaves `bendCount = 0` whatever the heading): 11 > 1 + 0. -/
theorem estimator_inconsistent_into_cost_target :
    AdaptaVerif.Model.Bends.estimatedCostSpecific (some ⟨0, 2⟩) ⟨0, 1⟩ ⟨0, 0⟩ 2 10 = some 11 ∧
    AdaptaVerif.Model.Bends.estimatedCostSpecific (some ⟨0, 1⟩) ⟨0, 0⟩ ⟨0, 0⟩ 2 10 = some 0 ∧
    costPts { (default : Graph) with segPen := 10 } 1 (some ⟨0, 2⟩) ⟨0, 1⟩ ⟨0, 0⟩ = 1 := by
  decide +kernel

/-- **kind 2: doubling back.**  `cost()` charges 2 penalties for reversing on the spot, `bends()` needs
    4 bends for the U-turn: at (1,0) heading East with the cost target (-5,0) to be entered heading
    West the estimate is 6 + 4·10 = 46; the reversing step to (-1,0) costs 2 + 2·10 = 22 and leaves an
    estimate of 4: 46 > 22 + 4. -/
theorem estimator_inconsistent_doubling_back :
    AdaptaVerif.Model.Bends.estimatedCostSpecific (some ⟨0, 0⟩) ⟨1, 0⟩ ⟨-5, 0⟩ 8 10 = some 46 ∧
    AdaptaVerif.Model.Bends.estimatedCostSpecific (some ⟨1, 0⟩) ⟨-1, 0⟩ ⟨-5, 0⟩ 8 10 = some 4 ∧
    costPts { (default : Graph) with segPen := 10 } 2 (some ⟨0, 0⟩) ⟨1, 0⟩ ⟨-1, 0⟩ = 22 := by
  decide +kernel

/-- **The turn-pruning rule as coded loses the optimum — unrestricted target** (known finding
    C05-dirs-src-pruning, harness case `c05 --seed 4 --tier thorough --mode dirs2 --only 10213`: source
    (22,4) restricted, target (23.5,27) visible in all four directions).  On libavoid's own graph of that
    scene the model search — which the correspondence shows to be vertex-for-vertex the C++ route —
    returns a route of full cost (every hop's length + bend penalties) 61.5, although the graph contains
    the path `p` of full cost 60.5; `p` makes a turn the rule skips, and it is what the same search
    returns once the rule is switched off. -/
theorem pruning_loses_optimum_unrestricted_target :
    let g := Lemmas.AStarWitness.lossyGraph
    let p := [1, 148, 6, 124, 125, 136, 126, 127, 137, 128, 134, 129, 130, 143, 0]
    g.run.chain = [1, 148, 168, 158, 11, 15, 159, 160, 167, 161, 165, 162, 163, 0] ∧
    fullCost g none g.run.chain = 123 / 2 ∧
    isGraphPath g p = true ∧ p.head? = some g.src ∧ p.getLast? = some g.tar ∧
    fullCost g none p = 121 / 2 ∧ usesPrunedTurn g none p = true ∧
    ({ g with prune := false }).run.chain = p := by
  intro g p
  have h1 : g.run.chain = [1, 148, 168, 158, 11, 15, 159, 160, 167, 161, 165, 162, 163, 0] := by decide +kernel
  refine ⟨h1, ?_, by decide +kernel, by decide +kernel, by decide +kernel, by decide +kernel, by decide +kernel,
    by decide +kernel⟩
  rw [h1]; decide +kernel

/-- **… and with a direction-restricted target** (known finding C05-dirs-dst-search, harness case
    `c05 --seed 1 --tier quick --mode dirs2 --only 2401`) even in the search's own cost: with the rule the
    search returns g = 612, the path 1→26→13→32→33→0 of the un-pruned state graph costs 412, both
    entering the target from the same cost target (same uncharged last hop). -/
theorem pruning_loses_optimum_restricted_target :
    let g := Lemmas.AStarWitness.dstGraph
    g.run.cost = some 612 ∧ g.run.chain = [1, 26, 13, 14, 33, 0] ∧
    ({ g with prune := false }).run.cost = some 412 ∧
    ({ g with prune := false }).run.chain = [1, 26, 13, 32, 33, 0] ∧
    isGraphPath g [1, 26, 13, 32, 33, 0] = true ∧ usesPrunedTurn g none [1, 26, 13, 32, 33, 0] = true := by
  decide +kernel

/-- **The real search does not minimise its own cost, on a real graph** (same scene as above, turn
    pruning switched off so that only the estimator is at work): the search returns g = 59 through cost
    target 143, while the state graph contains the path 1→148→168→…→163→0 (the route the pruned search
    returns) of g = 50 through cost target 163; both last hops have the same uncharged length 3/2.  The estimator
    over-estimates the search's own cost along that path by one penalty until it reaches its cost target (the
    bend there is counted by `bends()` but never charged by `search`), so the dearer node is popped
    first, and DONE is never re-opened.  (In full cost, last hop and last bend included, the returned
    route is the better one: 60.5 against 61.5 — the g-value is not the quantity the property speaks of.) -/
theorem search_not_optimal_for_own_cost_on_real_graph :
    let g := { Lemmas.AStarWitness.lossyGraph with prune := false }
    (g.run.cost, g.run.chain.reverse.take 2) = (some 59, [g.tar, 143]) ∧
    g.bonus 143 = 3 / 2 ∧ g.bonus 163 = 3 / 2 ∧
    ∃ path, Reach g.problem g.tar (some 163) 50 path ∧ g.tar ∉ path.tail := by
  refine ⟨by decide +kernel, by decide +kernel, by decide +kernel, ?_⟩
  have hw : walk ({ Lemmas.AStarWitness.lossyGraph with prune := false }).problem none
      ({ Lemmas.AStarWitness.lossyGraph with prune := false }).problem.src 0
      [({ Lemmas.AStarWitness.lossyGraph with prune := false }).problem.src]
      [148, 168, 158, 11, 15, 159, 160, 167, 161, 165, 162, 163, 0] =
      some (some 163, 0, 50, [0, 163, 162, 165, 161, 167, 160, 159, 15, 11, 158, 168, 148, 1]) := by decide +kernel
  exact ⟨_, walk_start_sound _ _ _ _ _ _ hw, by decide⟩

/-- **Where the estimator IS consistent with `cost()`**: on every hop curr → next with a single heading
    `nd` (axis-parallel, positive length), taken after arriving at `curr` with heading `cd`, that does not
    double back and does not end at the cost target, the estimate at `curr` is at most hop length +
    bend penalty of the hop + the estimate at `next` — for all rational points, all direction sets of
    the cost target, all positive penalties.  Together with the two witnesses above this is the exact
    picture: the estimator (admissible w.r.t. geometric approach paths, `Props.C05.estimate_le`) is
    consistent with the search's own step cost except on edges into a cost target and on U-turns. -/
theorem estimator_consistent_off_cost_target (last curr next tar : Pt)
    (cd nd : AdaptaVerif.Spec.OrthPath.Dir) (dirs : Nat) (pen : Rat) (hpen : 0 < pen)
    (hcd : AdaptaVerif.Model.Bends.orthogonalDirection last curr = cd.mask)
    (hnd : AdaptaVerif.Model.Bends.orthogonalDirection curr next = nd.mask)
    (hnr : nd ≠ cd.rev) (hnt : next ≠ tar) :
    ∃ e1 e2, AdaptaVerif.Model.Bends.estimatedCostSpecific (some last) curr tar dirs pen = some e1 ∧
      AdaptaVerif.Model.Bends.estimatedCostSpecific (some curr) next tar dirs pen = some e2 ∧
      e1 ≤ AdaptaVerif.Model.Bends.manhattanDist curr next + (if nd = cd then 0 else pen) + e2 :=
  Lemmas.AStarEstimate.estimate_consistent last curr next tar cd nd dirs pen hpen hcd hnd hnr hnt

example : AdaptaVerif.Model.Bends.orthogonalDirection ⟨0, 0⟩ ⟨1, 0⟩ = AdaptaVerif.Spec.OrthPath.Dir.E.mask ∧
    AdaptaVerif.Model.Bends.orthogonalDirection ⟨1, 0⟩ ⟨1, 2⟩ = AdaptaVerif.Spec.OrthPath.Dir.S.mask ∧
    AdaptaVerif.Spec.OrthPath.Dir.S ≠ AdaptaVerif.Spec.OrthPath.Dir.E.rev ∧ (⟨1, 2⟩ : Pt) ≠ ⟨3, 4⟩ := by
  decide +kernel

/-- The same for the heuristic the search actually uses, `AStarPathPrivate::estimatedCost` = minimum over
    ALL cost targets of (`estimatedCostSpecific` + displacement), on every graph and every hop with a
    single heading that neither doubles back nor ends at the point of a cost target.  (The driver
    evaluates the remaining cases on libavoid's real graphs: `astar.estimator-consistent-off-known-kinds`.) -/
theorem heuristic_consistent_off_cost_targets (g : Graph) (hpen : 0 < g.segPen) (last curr next : Pt)
    (cd nd : AdaptaVerif.Spec.OrthPath.Dir)
    (hcd : AdaptaVerif.Model.Bends.orthogonalDirection last curr = cd.mask)
    (hnd : AdaptaVerif.Model.Bends.orthogonalDirection curr next = nd.mask)
    (hnr : nd ≠ cd.rev) (hnt : ∀ ct ∈ costTargets g, next ≠ g.pt ct.1) :
    ∃ e1 e2, estimatedCost g (some last) curr = some e1 ∧ estimatedCost g (some curr) next = some e2 ∧
      e1 ≤ AdaptaVerif.Model.Bends.manhattanDist curr next + (if nd = cd then 0 else g.segPen) + e2 :=
  Lemmas.AStarEstimate.estimatedCost_consistent g hpen last curr next cd nd hcd hnd hnr hnt

-- non-vacuity of `heuristic_consistent_off_cost_targets` on a graph WITH a cost target (`lineGraph`: target (2,0),
-- cost target (1,0)): the hop (-1,0) → (-1,3) heading S taken after (-2,0) → (-1,0) heading E
example : ∃ e1 e2, estimatedCost Lemmas.AStarWitness.lineGraph (some ⟨-2, 0⟩) ⟨-1, 0⟩ = some e1 ∧
    estimatedCost Lemmas.AStarWitness.lineGraph (some ⟨-1, 0⟩) ⟨-1, 3⟩ = some e2 ∧
    e1 ≤ AdaptaVerif.Model.Bends.manhattanDist ⟨-1, 0⟩ ⟨-1, 3⟩ +
      (if AdaptaVerif.Spec.OrthPath.Dir.S = AdaptaVerif.Spec.OrthPath.Dir.E then 0
        else Lemmas.AStarWitness.lineGraph.segPen) + e2 :=
  heuristic_consistent_off_cost_targets Lemmas.AStarWitness.lineGraph (by decide +kernel)
    ⟨-2, 0⟩ ⟨-1, 0⟩ ⟨-1, 3⟩ .E .S (by decide +kernel) (by decide +kernel) (by decide) (by decide +kernel)

/-! ### tie to the source: kernels regenerated from makepath.cpp / graph.cpp on every run -/

/-- `ANodeCmp::operator()` as generated from makepath.cpp (job `astar`) is the model's `worse` with the
    threshold the compiler makes of the literal 0.0000001 (`epsDouble`, read from the AST — the value
    `Graph.eps` defaults to), on the (f, timeStamp) keys of the model's nodes; it contains no assertion. -/
theorem gen_aNodeCmp_is_model (a b : Node) :
    AdaptaVerif.Gen.AStarK.aNodeCmp (Lemmas.AStarBridge.key a) (Lemmas.AStarBridge.key b) = worse epsDouble a b ∧
    AdaptaVerif.Gen.AStarK.aNodeCmp_pre (Lemmas.AStarBridge.key a) (Lemmas.AStarBridge.key b) = true :=
  ⟨Lemmas.AStarBridge.aNodeCmp_eq a b, Lemmas.AStarBridge.aNodeCmp_pre _ _⟩

/-- `orthogTurnOrder` (graph.cpp), the key by which `CmpVisEdgeRotation` sorts a vertex's edges before
    they are examined (behind 0, left 1, right 2, ahead 3, not orthogonal 4), and `Dot` / `CrossLength`
    of `cost()`'s bend classification, as generated, are the model's; the assertion inside `vecDir`
    (`maybeZero >= 0`) holds. -/
theorem gen_turnOrder_dot_cross_are_model :
    (∀ a b c : Pt, AdaptaVerif.Gen.AStarK.orthogTurnOrder a b c = (orthogTurnOrder a b c : Int) ∧
        AdaptaVerif.Gen.AStarK.orthogTurnOrder_pre a b c = true) ∧
    (∀ l r : Pt, AdaptaVerif.Gen.AStarK.Dot l r = dot l r) ∧
    (∀ l r : Pt, AdaptaVerif.Gen.AStarK.CrossLength l r = crossLength l r) :=
  ⟨fun a b c => ⟨Lemmas.AStarBridge.orthogTurnOrder_eq a b c, Lemmas.AStarBridge.orthogTurnOrder_pre a b c⟩,
   Lemmas.AStarBridge.dot_eq, Lemmas.AStarBridge.crossLength_eq⟩

end AdaptaVerif.Props.C05AStar
