/-
Property C02, model side: theorems about the Rat model of the incremental VPSC solver
(`Model/Vpsc.lean`, tied to the C++ by the C01 correspondence) against the QP specification
`Spec/Qp.lean`.

`problemOf st` is the quadratic program a model state stands for (all its variables and all the
constraints known to the solver); `lamOf st j` is the *tree multiplier* of constraint `j`: the sum of
`q x = dfdv_x / scale_x = 2·w_x·(pos_x − d_x)/s_x` over the variables on the right-hand side of `j` in
the active tree of its block (0 for constraints that are not active).

"returns ⇒ optimum" is FALSE of the code and of the model (see `solve_can_stop_early` below: the loop
of `IncSolver::solve` stops on an unchanged cost); what holds is "quiescent ⇒ optimum".
-/
import AdaptaVerif.Lemmas.VpscKktOpt
import AdaptaVerif.Lemmas.VpscKktFresh
import AdaptaVerif.Lemmas.VpscFinal
import AdaptaVerif.Lemmas.VpscNonVac
namespace AdaptaVerif.Props.C02Model
open AdaptaVerif.Model.Vpsc
open AdaptaVerif.Lemmas.VpscInv AdaptaVerif.Lemmas.VpscKkt AdaptaVerif.Lemmas.VpscKktOpt
open AdaptaVerif.Spec.Qp (sumTo Problem KKT KKTeps Feasible IsOptimum WF cost ineqSlackSum)
open AdaptaVerif.Lemmas.Qp

/-- the problem of a state satisfying the invariant is well formed when the weights are positive -/
theorem problemOf_wf (st : St) (hinv : Inv st) (hw : ∀ i : Nat, i < st.vars.size → 0 < (st.vars[i]!).weight) :
    WF (problemOf st) := by
  refine ⟨hw, ?_⟩
  intro c hc
  simp only [problemOf, List.mem_map] at hc
  obtain ⟨c0, hc0, rfl⟩ := hc
  obtain ⟨j, hj, rfl⟩ := Array.mem_iff_getElem.1 (by simpa using hc0)
  have e : st.cons[j] = st.cons[j]! := (getElem!_pos _ j hj).symm
  rw [e]
  exact ⟨hinv.l_lt j hj, hinv.r_lt j hj⟩

/-- **stationarity of the tree multipliers**: in every state that satisfies the block invariant
    (C01 `block_inv`: every reachable state) and whose blocks sit at their stationary position
    (`Σ_{x∈block} q x = 0`, i.e. `posn = (AD − AB)/A2`), the tree multipliers solve the stationarity
    equations of the weighted least-squares objective at every variable:
    `2·w_v·(pos_v − d_v)/s_v = Σ_{active j, r_j = v} λ_j − Σ_{active j, l_j = v} λ_j`. -/
theorem tree_multipliers_stationary (st : St) (hinv : Inv st) (hstat : BlockStationary st)
    (v : Nat) (hv : v < st.vars.size) :
    sumTo st.cons.size (fun j => if (st.cons[j]!).active = true ∧ (st.cons[j]!).r = v
        then lamOf st j else 0) -
    sumTo st.cons.size (fun j => if (st.cons[j]!).active = true ∧ (st.cons[j]!).l = v
        then lamOf st j else 0) = qOf st v :=
  mult_stationary hinv (qOf st) hstat v hv

/-- **quiescent_is_optimum** (tolerance 0): a state satisfying the block invariant, with blocks at
    their stationary positions, in which every constraint holds exactly and no active inequality has a
    negative multiplier (nothing to merge, nothing to split) satisfies `KKT` of `Spec/Qp.lean` with the
    tree multipliers; hence its positions are THE optimum of the problem (for all n, m, data; positive
    weights, non-zero scales). -/
theorem quiescent_is_optimum (st : St) (hinv : Inv st)
    (hw : ∀ i : Nat, i < st.vars.size → 0 < (st.vars[i]!).weight)
    (hs : ∀ i : Nat, i < st.vars.size → (st.vars[i]!).scale ≠ 0)
    (hstat : BlockStationary st) (hq : Quiescent 0 st) :
    KKT (problemOf st) st.pos (lamList st) ∧
    IsOptimum (problemOf st) st.pos ∧
    ∀ y, IsOptimum (problemOf st) y → ∀ i, i < st.vars.size → y i = st.pos i := by
  have hk : KKT (problemOf st) st.pos (lamList st) :=
    (kkt_iff_eps0 _ _ _).2 (kktEps_of_quiescent 0 st hinv (le_refl 0) hs hstat hq)
  have hWF := problemOf_wf st hinv hw
  have hopt := kkt_optimal _ _ _ hWF hk
  exact ⟨hk, hopt, fun y hy i hi => optimum_unique _ hWF y st.pos hy hopt i hi⟩

open AdaptaVerif.Lemmas.VpscNonVac in
/-- non-vacuity of `quiescent_is_optimum`: every hypothesis holds on `nvSt` (Lemmas/VpscNonVac.lean: the
    state `IncSolver(vs, cs)` + merge across `x0 + 2 == x1` reaches; scales 1 and 2, one active constraint);
    the scale hypothesis is the in-range form — the unbounded form is false on every state
    (`nvSt_scale_unbounded_false`) -/
example : ∃ st : St, Inv st ∧ (∀ i : Nat, i < st.vars.size → 0 < (st.vars[i]!).weight) ∧
    (∀ i : Nat, i < st.vars.size → (st.vars[i]!).scale ≠ 0) ∧ BlockStationary st ∧ Quiescent 0 st ∧
    (∃ j, j < st.cons.size ∧ (st.cons[j]!).active = true) ∧ ¬ ∀ i : Nat, (st.vars[i]!).scale ≠ 0 :=
  ⟨nvSt, nvSt_inv, nvSt_weight, nvSt_scale, nvSt_stationary, nvSt_quiescent 0,
    ⟨0, by simp [nvSt_cons], by simp [nvSt_cons]⟩, nvSt_scale_unbounded_false⟩
open AdaptaVerif.Lemmas.VpscNonVac in
example := quiescent_is_optimum nvSt nvSt_inv nvSt_weight nvSt_scale nvSt_stationary (nvSt_quiescent 0)

/-- **ε-version** (what the solver's own split test `lm < LAGRANGIAN_TOLERANCE` can promise; take
    `eps = 1e-4 = −LAGRANGIAN_TOLERANCE`): if no active inequality has a multiplier below `−eps`, the
    positions satisfy `KKTeps eps`, cost at most `eps · Σ slack(y)` above any feasible `y`, and lie
    within the `eps_kkt_distance` bound of any exact KKT point. -/
theorem quiescent_is_eps_optimum (eps : Rat) (heps : 0 ≤ eps) (st : St) (hinv : Inv st)
    (hw : ∀ i : Nat, i < st.vars.size → 0 < (st.vars[i]!).weight)
    (hs : ∀ i : Nat, i < st.vars.size → (st.vars[i]!).scale ≠ 0)
    (hstat : BlockStationary st) (hq : Quiescent eps st) :
    KKTeps eps (problemOf st) st.pos (lamList st) ∧
    (∀ y, Feasible (problemOf st) y →
      cost (problemOf st) st.pos ≤ cost (problemOf st) y + eps * ineqSlackSum (problemOf st) y) ∧
    (∀ xs lams, KKT (problemOf st) xs lams →
      sumTo st.vars.size (fun i => (st.vars[i]!).weight * ((st.pos i - xs i) * (st.pos i - xs i))) ≤
        eps * ineqSlackSum (problemOf st) xs) := by
  have hk := kktEps_of_quiescent eps st hinv heps hs hstat hq
  have hWF := problemOf_wf st hinv hw
  exact ⟨hk, fun y hy => kktEps_bound eps _ _ _ hWF hk y hy,
    fun xs lams hxs => kktEps_distance eps _ hWF xs lams hxs _ _ hk⟩

open AdaptaVerif.Lemmas.VpscNonVac in
/-- non-vacuity of `quiescent_is_eps_optimum` (eps = 1e-4 = −LAGRANGIAN_TOLERANCE) on `nvSt` -/
example : ∃ (eps : Rat) (st : St), 0 ≤ eps ∧ Inv st ∧
    (∀ i : Nat, i < st.vars.size → 0 < (st.vars[i]!).weight) ∧
    (∀ i : Nat, i < st.vars.size → (st.vars[i]!).scale ≠ 0) ∧ BlockStationary st ∧ Quiescent eps st :=
  ⟨1 / 10000, nvSt, by norm_num, nvSt_inv, nvSt_weight, nvSt_scale, nvSt_stationary, nvSt_quiescent _⟩
open AdaptaVerif.Lemmas.VpscNonVac in
example := quiescent_is_eps_optimum (1 / 10000) (by norm_num) nvSt nvSt_inv nvSt_weight nvSt_scale
  nvSt_stationary (nvSt_quiescent _)

/-! ### `dfdv_is_multiplier` -/

open AdaptaVerif.Lemmas.VpscKktDfdv in
/-- **dfdv_is_multiplier**: on a state satisfying the block invariant with blocks at their stationary
    position, the tree recursion `compute_dfdv` started at any variable `v0` of a block (as
    `Block::findMinLM` / `findMinLMBetween` do with `vars->front()`), if it does not run out of fuel,
    (a) returns 0 for the root — the block as a whole is stationary —, (b) assigns to every active
    constraint of the block exactly the tree multiplier `lamOf st j`, and (c) leaves every other entry
    of `lm` unchanged (or sets it to its own tree multiplier).  By `tree_multipliers_stationary` these are
    the multipliers that balance `2·w·(pos − desired)` at every variable of the block.
    (All n, m, data, scales ≠ 0; `lm` any array with one entry per constraint.) -/
theorem dfdv_is_multiplier (st : St) (hinv : Inv st) (hstat : BlockStationary st)
    (hs : ∀ i : Nat, i < st.vars.size → (st.vars[i]!).scale ≠ 0)
    (bid fuel : Nat) (lm : Array Rat) (post : Array Nat) (v0 : Nat)
    (hv0 : v0 < st.vars.size) (hb : blk st.vars v0 = bid) (hsz : lm.size = st.cons.size)
    (hok : (computeDfdv st bid fuel lm post v0 none).2.2.2 = true) :
    (computeDfdv st bid fuel lm post v0 none).2.2.1 = 0 ∧
    (∀ j : Nat, j < st.cons.size → (st.cons[j]!).active = true → blk st.vars (st.cons[j]!).l = bid →
      (computeDfdv st bid fuel lm post v0 none).1[j]! = lamOf st j) ∧
    (∀ j : Nat, (computeDfdv st bid fuel lm post v0 none).1[j]! = lm[j]! ∨
      ((st.cons[j]!).active = true ∧ (computeDfdv st bid fuel lm post v0 none).1[j]! = lamOf st j)) :=
  dfdv_root hinv hstat hs bid fuel lm post v0 hv0 hb hsz hok

open AdaptaVerif.Lemmas.VpscNonVac in
/-- non-vacuity of `dfdv_is_multiplier`: on `nvSt`, block 0, started at its front variable 0 with fuel
    `n + 1 = 3` and `lm = #[0]`, all hypotheses hold (the recursion follows the active constraint 0) -/
example : ∃ (st : St) (bid fuel : Nat) (lm : Array Rat) (post : Array Nat) (v0 : Nat),
    Inv st ∧ BlockStationary st ∧ (∀ i : Nat, i < st.vars.size → (st.vars[i]!).scale ≠ 0) ∧
    v0 < st.vars.size ∧ blk st.vars v0 = bid ∧ lm.size = st.cons.size ∧
    (computeDfdv st bid fuel lm post v0 none).2.2.2 = true ∧
    (∃ j, j < st.cons.size ∧ (st.cons[j]!).active = true ∧ blk st.vars (st.cons[j]!).l = bid) :=
  ⟨nvSt, 0, 3, #[0], #[], 0, nvSt_inv, nvSt_stationary, nvSt_scale, by simp [nvSt_vars],
    by simp [blk, nvSt_vars], by simp [nvSt_cons], nvSt_dfdv_ok,
    ⟨0, by simp [nvSt_cons], by simp [nvSt_cons], by simp [blk, nvSt_cons, nvSt_vars]⟩⟩
open AdaptaVerif.Lemmas.VpscNonVac in
example := dfdv_is_multiplier nvSt nvSt_inv nvSt_stationary nvSt_scale 0 3 #[0] #[] 0 (by simp [nvSt_vars])
  (by simp [blk, nvSt_vars]) (by simp [nvSt_cons]) nvSt_dfdv_ok

open AdaptaVerif.Lemmas.VpscKktFresh in
/-- **block position = (AD − AB)/A2 is the stationarity of the block as a whole**: a block whose record
    holds the position `Block::updateWeightedPosition` computes from a member list enumerating exactly
    the variables of the block satisfies `Σ_{x∈block} 2·w_x·(pos_x − d_x)/s_x = 0`.
    (`BlockStationary st` = this for every block.  That the member lists are exact and the positions
    fresh at a normal return is not part of C01's `Inv`; the C01 driver evaluates it on every model state
    it visits — `St.invOk` — and it is the hypothesis `hstat` of the theorems here.) -/
theorem block_posn_is_stationarity (st : St) (b : Nat) (members : Array Nat)
    (hmem : ∀ x : Nat, x < st.vars.size → (x ∈ members ↔ blk st.vars x = b))
    (hlt : ∀ x ∈ members, x < st.vars.size) (hnd : members.toList.Nodup)
    (hB : ((st.blocks[b]!).scale, (st.blocks[b]!).posn) = blockPosn st.vars members)
    (hs : ∀ i : Nat, i < st.vars.size → (st.vars[i]!).scale ≠ 0)
    (hA2 : AdaptaVerif.Spec.Qp.listSum (fun i => (st.vars[i]!).weight *
        ((st.vars[members[0]!]!).scale / (st.vars[i]!).scale) *
        ((st.vars[members[0]!]!).scale / (st.vars[i]!).scale)) members.toList ≠ 0) :
    blockSum st.vars (qOf st) b = 0 :=
  fresh_stationary st b members hmem hlt hnd hB hs hA2

open AdaptaVerif.Lemmas.VpscNonVac in
/-- non-vacuity of `block_posn_is_stationarity`: block 0 of `nvSt` with member list `#[0, 1]` (scales 1, 2;
    A2 = 5/4, posn = −2/5) satisfies every hypothesis -/
example : ∃ (st : St) (b : Nat) (members : Array Nat),
    (∀ x : Nat, x < st.vars.size → (x ∈ members ↔ blk st.vars x = b)) ∧
    (∀ x ∈ members, x < st.vars.size) ∧ members.toList.Nodup ∧
    ((st.blocks[b]!).scale, (st.blocks[b]!).posn) = blockPosn st.vars members ∧
    (∀ i : Nat, i < st.vars.size → (st.vars[i]!).scale ≠ 0) ∧
    AdaptaVerif.Spec.Qp.listSum (fun i => (st.vars[i]!).weight *
        ((st.vars[members[0]!]!).scale / (st.vars[i]!).scale) *
        ((st.vars[members[0]!]!).scale / (st.vars[i]!).scale)) members.toList ≠ 0 :=
  ⟨nvSt, 0, #[0, 1], nvSt_members, nvSt_members_lt, by simp, nvSt_posn, nvSt_scale, nvSt_A2⟩
open AdaptaVerif.Lemmas.VpscNonVac in
example := block_posn_is_stationarity nvSt 0 #[0, 1] nvSt_members nvSt_members_lt (by simp) nvSt_posn
  nvSt_scale nvSt_A2


/-! ### "returns ⇒ optimum" is false: the premature stop of `IncSolver::solve`

Known finding C02-incsolver-stops-on-unchanged-cost, reproduced by the model on the corpus witness
(n = 6): the first `solve()` returns normally with `x2 = −7241/12 ≈ −603.42` while constraint 4 still
has multiplier `−29/3 < LAGRANGIAN_TOLERANCE` (so the state is not quiescent); a second `solve()` on the
same solver reaches the optimum `x2 = −601`.  Evaluated at every build. -/

def f1Witness : St :=
  St.init #[(0, 1, 1), (-416, 1, 1), (0, 1, 1), (-848, 1, 1), (-207, 1, 1), (181, 7, 1)]
    #[mkCon 0 5 3055 false, mkCon 2 4 995 false, mkCon 0 4 (5491 / 2) false, mkCon 3 5 1974 false,
      mkCon 3 4 (3329 / 2) false, mkCon 1 3 0 false]

/-- smallest multiplier the model's own `findMinLM` sees over all blocks of a state -/
def minLmOfBlocks (st : St) : List Rat :=
  st.moveBlocks.order.toList.filterMap fun b => (st.moveBlocks.findMinLM b).2.map fun r => r.2.1

-- `solve` returns normally …
#guard (match f1Witness.solve with | (_, .ok _ _) => true | _ => false)
-- … in a state that still has a multiplier below LAGRANGIAN_TOLERANCE (not quiescent) …
#guard (minLmOfBlocks f1Witness.solve.1).any (fun l => l < LAGRANGIAN_TOLERANCE)
-- … at a position that a second solve() changes (so the first result is not the optimum)
#guard (match f1Witness.solve, f1Witness.solve.1.solve with
        | (_, .ok p1 _), (st2, .ok p2 _) =>
          p1[2]! == (-7241 : Rat) / 12 && p2[2]! == (-601 : Rat) &&
          (minLmOfBlocks st2).all (fun l => l ≥ LAGRANGIAN_TOLERANCE)
        | _, _ => false)

-- executable form of `BlockStationary` and of quiescence on the optimum reached by the second solve
-- of the F1 witness: every block's q-sum is 0, every constraint holds, every model multiplier ≥ 0
#guard (let st := f1Witness.solve.1.solve.1
        (List.range st.blocks.size).all (fun b =>
          ((List.range st.vars.size).filter (fun x => (st.vars[x]!).block == b)).foldl
            (fun acc x => acc + st.dfdv x / (st.vars[x]!).scale) 0 == 0) &&
        st.cons.all (fun c => decide (0 ≤ st.uval c.r - c.gap - st.uval c.l)) &&
        (minLmOfBlocks st).all (fun l => l ≥ 0))

end AdaptaVerif.Props.C02Model
