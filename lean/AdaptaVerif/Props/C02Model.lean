/-
Property C02, model side: theorems about the Rat model of the incremental VPSC solver
(`Model/Vpsc.lean`, tied to the C++ by the C01 correspondence) against the QP specification
`Spec/Qp.lean`.

`problemOf st` is the quadratic program a model state stands for (all its variables and all the
constraints known to the solver); `lamOf st j` is the *tree multiplier* of constraint `j`: the sum of
`q x = dfdv_x / scale_x = 2·w_x·(pos_x − d_x)/s_x` over the variables on the right-hand side of `j` in
the active tree of its block (0 for constraints that are not active).

"returns ⇒ optimum" is FALSE of the code and of the model (see `solve_can_stop_early` below: the loop
of `IncSolver::solve` stops on an unchanged cost); what holds is "quiescent ⇒ optimum".
-/
import AdaptaVerif.Lemmas.VpscKktOpt
import AdaptaVerif.Lemmas.VpscFinal
namespace AdaptaVerif.Props.C02Model
open AdaptaVerif.Model.Vpsc
open AdaptaVerif.Lemmas.VpscInv AdaptaVerif.Lemmas.VpscKkt AdaptaVerif.Lemmas.VpscKktOpt
open AdaptaVerif.Spec.Qp (sumTo Problem KKT KKTeps Feasible IsOptimum WF cost ineqSlackSum)
open AdaptaVerif.Lemmas.Qp

/-- the problem of a state satisfying the invariant is well formed when the weights are positive -/
theorem problemOf_wf (st : St) (hinv : Inv st) (hw : ∀ i : Nat, i < st.vars.size → 0 < (st.vars[i]!).weight) :
    WF (problemOf st) := by
  refine ⟨hw, ?_⟩
  intro c hc
  simp only [problemOf, List.mem_map] at hc
  obtain ⟨c0, hc0, rfl⟩ := hc
  obtain ⟨j, hj, rfl⟩ := Array.mem_iff_getElem.1 (by simpa using hc0)
  have e : st.cons[j] = st.cons[j]! := (getElem!_pos _ j hj).symm
  rw [e]
  exact ⟨hinv.l_lt j hj, hinv.r_lt j hj⟩

/-- **stationarity of the tree multipliers**: in every state that satisfies the block invariant
    (C01 `block_inv`: every reachable state) and whose blocks sit at their stationary position
    (`Σ_{x∈block} q x = 0`, i.e. `posn = (AD − AB)/A2`), the tree multipliers solve the stationarity
    equations of the weighted least-squares objective at every variable:
    `2·w_v·(pos_v − d_v)/s_v = Σ_{active j, r_j = v} λ_j − Σ_{active j, l_j = v} λ_j`. -/
theorem tree_multipliers_stationary (st : St) (hinv : Inv st) (hstat : BlockStationary st)
    (v : Nat) (hv : v < st.vars.size) :
    sumTo st.cons.size (fun j => if (st.cons[j]!).active = true ∧ (st.cons[j]!).r = v
        then lamOf st j else 0) -
    sumTo st.cons.size (fun j => if (st.cons[j]!).active = true ∧ (st.cons[j]!).l = v
        then lamOf st j else 0) = qOf st v :=
  mult_stationary hinv (qOf st) hstat v hv

/-- **quiescent_is_optimum** (tolerance 0): a state satisfying the block invariant, with blocks at
    their stationary positions, in which every constraint holds exactly and no active inequality has a
    negative multiplier (nothing to merge, nothing to split) satisfies `KKT` of `Spec/Qp.lean` with the
    tree multipliers; hence its positions are THE optimum of the problem (for all n, m, data; positive
    weights, non-zero scales). -/
theorem quiescent_is_optimum (st : St) (hinv : Inv st)
    (hw : ∀ i : Nat, i < st.vars.size → 0 < (st.vars[i]!).weight)
    (hs : ∀ i : Nat, (st.vars[i]!).scale ≠ 0)
    (hstat : BlockStationary st) (hq : Quiescent 0 st) :
    KKT (problemOf st) st.pos (lamList st) ∧
    IsOptimum (problemOf st) st.pos ∧
    ∀ y, IsOptimum (problemOf st) y → ∀ i, i < st.vars.size → y i = st.pos i := by
  have hk : KKT (problemOf st) st.pos (lamList st) :=
    (kkt_iff_eps0 _ _ _).2 (kktEps_of_quiescent 0 st hinv (le_refl 0) hs hstat hq)
  have hWF := problemOf_wf st hinv hw
  have hopt := kkt_optimal _ _ _ hWF hk
  exact ⟨hk, hopt, fun y hy i hi => optimum_unique _ hWF y st.pos hy hopt i hi⟩

/-- **ε-version** (what the solver's own split test `lm < LAGRANGIAN_TOLERANCE` can promise; take
    `eps = 1e-4 = −LAGRANGIAN_TOLERANCE`): if no active inequality has a multiplier below `−eps`, the
    positions satisfy `KKTeps eps`, cost at most `eps · Σ slack(y)` above any feasible `y`, and lie
    within the `eps_kkt_distance` bound of any exact KKT point. -/
theorem quiescent_is_eps_optimum (eps : Rat) (heps : 0 ≤ eps) (st : St) (hinv : Inv st)
    (hw : ∀ i : Nat, i < st.vars.size → 0 < (st.vars[i]!).weight)
    (hs : ∀ i : Nat, (st.vars[i]!).scale ≠ 0)
    (hstat : BlockStationary st) (hq : Quiescent eps st) :
    KKTeps eps (problemOf st) st.pos (lamList st) ∧
    (∀ y, Feasible (problemOf st) y →
      cost (problemOf st) st.pos ≤ cost (problemOf st) y + eps * ineqSlackSum (problemOf st) y) ∧
    (∀ xs lams, KKT (problemOf st) xs lams →
      sumTo st.vars.size (fun i => (st.vars[i]!).weight * ((st.pos i - xs i) * (st.pos i - xs i))) ≤
        eps * ineqSlackSum (problemOf st) xs) := by
  have hk := kktEps_of_quiescent eps st hinv heps hs hstat hq
  have hWF := problemOf_wf st hinv hw
  exact ⟨hk, fun y hy => kktEps_bound eps _ _ _ hWF hk y hy,
    fun xs lams hxs => kktEps_distance eps _ hWF xs lams hxs _ _ hk⟩

/-! ### "returns ⇒ optimum" is false: the premature stop of `IncSolver::solve`

Known finding C02-incsolver-stops-on-unchanged-cost, reproduced by the model on the corpus witness
(n = 6): the first `solve()` returns normally with `x2 = −7241/12 ≈ −603.42` while constraint 4 still
has multiplier `−29/3 < LAGRANGIAN_TOLERANCE` (so the state is not quiescent); a second `solve()` on the
same solver reaches the optimum `x2 = −601`.  Evaluated at every build. -/

def f1Witness : St :=
  St.init #[(0, 1, 1), (-416, 1, 1), (0, 1, 1), (-848, 1, 1), (-207, 1, 1), (181, 7, 1)]
    #[mkCon 0 5 3055 false, mkCon 2 4 995 false, mkCon 0 4 (5491 / 2) false, mkCon 3 5 1974 false,
      mkCon 3 4 (3329 / 2) false, mkCon 1 3 0 false]

/-- smallest multiplier the model's own `findMinLM` sees over all blocks of a state -/
def minLmOfBlocks (st : St) : List Rat :=
  st.moveBlocks.order.toList.filterMap fun b => (st.moveBlocks.findMinLM b).2.map fun r => r.2.1

-- `solve` returns normally …
#guard (match f1Witness.solve with | (_, .ok _ _) => true | _ => false)
-- … in a state that still has a multiplier below LAGRANGIAN_TOLERANCE (not quiescent) …
#guard (minLmOfBlocks f1Witness.solve.1).any (fun l => l < LAGRANGIAN_TOLERANCE)
-- … at a position that a second solve() changes (so the first result is not the optimum)
#guard (match f1Witness.solve, f1Witness.solve.1.solve with
        | (_, .ok p1 _), (st2, .ok p2 _) =>
          p1[2]! == (-7241 : Rat) / 12 && p2[2]! == (-601 : Rat) &&
          (minLmOfBlocks st2).all (fun l => l ≥ LAGRANGIAN_TOLERANCE)
        | _, _ => false)

end AdaptaVerif.Props.C02Model
