/-
C03 — libavoid: every route joins its endpoints and stays out of obstacles.
Property theorems (all inputs).  Spec: Spec/Route.lean; checkers: Check/Route.lean; model of the naive
visibility test: Model/Visibility.lean; helper lemmas: Lemmas/Route.lean, Lemmas/RouteGeom.lean.

Polygons are arbitrary vertex lists (any number of vertices, either orientation).  `StrictlyInside` is
the intersection of the open half-planes of the edges, which *is* the interior exactly when the
polygon is convex (`Spec.Route.Convex`); the clipping theorems need no convexity hypothesis.
-/
import AdaptaVerif.Lemmas.RouteGeom
import AdaptaVerif.Lemmas.VisSoundConvex
import AdaptaVerif.Model.Visibility
namespace AdaptaVerif.Props.C03
open AdaptaVerif.Model.Geometry (Pt area2)
open AdaptaVerif.Check.Route AdaptaVerif.Spec.Route AdaptaVerif.Lemmas.Route
open AdaptaVerif.Model.Visibility

/-- (1a) clipping is sound: a reported hit is a real point of the segment strictly inside the polygon -/
theorem segHitsInterior_sound (poly : Poly) (p q : Pt) (h : segHitsInterior poly p q = true) :
    ∃ t : Rat, 0 ≤ t ∧ t ≤ 1 ∧ StrictlyInside poly (lerp p q t) :=
  (segHitsInterior_iff poly p q).mp h

example : ∃ t : Rat, 0 ≤ t ∧ t ≤ 1 ∧ StrictlyInside (rectPoly 1 1 2 2) (lerp ⟨0, 0⟩ ⟨3, 3⟩ t) :=
  segHitsInterior_sound _ _ _ (by decide +kernel)

/-- (1b) clipping is complete: if any point of the closed segment is strictly inside, it is reported
    (all vertex lists, any number of vertices, either orientation) -/
theorem segHitsInterior_complete (poly : Poly) (p q : Pt)
    (h : ∃ t : Rat, 0 ≤ t ∧ t ≤ 1 ∧ StrictlyInside poly (lerp p q t)) : segHitsInterior poly p q = true :=
  (segHitsInterior_iff poly p q).mpr h

/-- (1c) the same with a margin: `segHitsInteriorTol tol` decides "some point of the segment is inside
    with every edge test exceeding tol·‖edge‖₁" -/
theorem segHitsInteriorTol_correct (tol : Rat) (poly : Poly) (p q : Pt) :
    segHitsInteriorTol tol poly p q = true ↔ ∃ t : Rat, 0 ≤ t ∧ t ≤ 1 ∧ InsideBy tol poly (lerp p q t) :=
  segHitsInteriorTol_iff tol poly p q

/-- meaning of `StrictlyInside` on axis-parallel rectangles: the open rectangle -/
theorem strictlyInside_rect (x0 y0 x1 y1 : Rat) (hx : x0 < x1) (hy : y0 < y1) (p : Pt) :
    StrictlyInside (rectPoly x0 y0 x1 y1) p ↔ x0 < p.x ∧ p.x < x1 ∧ y0 < p.y ∧ p.y < y1 :=
  strictlyInside_rect_iff x0 y0 x1 y1 hx hy p

example : StrictlyInside (rectPoly 0 0 2 2) ⟨1, 1⟩ :=
  (strictlyInside_rect 0 0 2 2 (by decide +kernel) (by decide +kernel) ⟨1, 1⟩).mpr (by decide +kernel)

/-- `strictlyInside` (used for the excluded-shape list) decides `StrictlyInside` -/
theorem strictlyInside_correct (poly : Poly) (p : Pt) :
    strictlyInside poly p = true ↔ StrictlyInside poly p :=
  strictlyInside_iff poly p

/-- (2a) the exact checker accepts exactly the valid routes -/
theorem routeValid_sound (shapes : List Poly) (excl : List Nat) (src dst : Pt) (route : List Pt)
    (h : routeValid shapes excl src dst route 0 = true) : RouteValid shapes excl src dst route :=
  (routeValidTol_zero _ _ _ _ _).mp ((routeValid_iff _ _ _ _ _ 0).mp h)

example : RouteValid [rectPoly 1 1 2 2] [] ⟨0, 0⟩ ⟨3, 3⟩ [⟨0, 0⟩, ⟨1, 2⟩, ⟨3, 3⟩] :=
  routeValid_sound _ _ _ _ _ (by decide +kernel)

theorem routeValid_complete (shapes : List Poly) (excl : List Nat) (src dst : Pt) (route : List Pt)
    (h : RouteValid shapes excl src dst route) : routeValid shapes excl src dst route 0 = true :=
  (routeValid_iff _ _ _ _ _ 0).mpr ((routeValidTol_zero _ _ _ _ _).mpr h)

/-- (2b) with a shrink tolerance the checker decides the tolerant spec … -/
theorem routeValid_tol_correct (tol : Rat) (shapes : List Poly) (excl : List Nat) (src dst : Pt) (route : List Pt) :
    routeValid shapes excl src dst route tol = true ↔ RouteValidTol tol shapes excl src dst route :=
  routeValid_iff _ _ _ _ _ tol

/-- (2c) … and a rejection with tolerance ≥ 0 (what the driver reports as SPECFAIL) is a violation of
    the exact property: some leg really contains a point strictly inside a non-excluded shape, or the
    endpoints / point count are wrong. -/
theorem routeValid_reject_sound (tol : Rat) (htol : 0 ≤ tol) (shapes : List Poly) (excl : List Nat)
    (src dst : Pt) (route : List Pt) (h : routeValid shapes excl src dst route tol = false) :
    ¬ RouteValid shapes excl src dst route := by
  intro hv
  have := (routeValid_iff _ _ _ _ _ tol).mpr (routeValid_routeValidTol tol htol _ _ _ _ _ hv)
  rw [h] at this
  exact Bool.false_ne_true this

example : ¬ RouteValid [rectPoly 1 1 2 2] [] ⟨0, 0⟩ ⟨3, 3⟩ [⟨0, 0⟩, ⟨3, 3⟩] :=
  routeValid_reject_sound (1 / 1000000) (by decide +kernel) _ _ _ _ _ (by decide +kernel)

/-- (3) a polyline all of whose legs are edges (in either direction) of a graph whose edges are
    spec-unblocked, and that starts at src and ends at dst, is a valid route -/
theorem path_of_visible_edges_valid (shapes : List Poly) (excl : List Nat) (E : List (Pt × Pt))
    (hE : ∀ e ∈ E, Unblocked shapes excl e.1 e.2) (src dst : Pt) (route : List Pt)
    (hlen : 2 ≤ route.length) (hsrc : route.head? = some src) (hdst : route.getLast? = some dst)
    (hlegs : ∀ l ∈ legs route, l ∈ E ∨ (l.2, l.1) ∈ E) : RouteValid shapes excl src dst route := by
  refine ⟨hlen, hsrc, hdst, fun l hl => ?_⟩
  rcases hlegs l hl with h | h
  · exact hE l h
  · exact unblocked_symm shapes excl l.2 l.1 (hE (l.2, l.1) h)

example : RouteValid [rectPoly 1 1 2 2] [] ⟨0, 0⟩ ⟨3, 3⟩ [⟨0, 0⟩, ⟨1, 2⟩, ⟨3, 3⟩] := by
  have hE : ∀ e ∈ [((⟨0, 0⟩ : Pt), (⟨1, 2⟩ : Pt)), (⟨3, 3⟩, ⟨1, 2⟩)], Unblocked [rectPoly 1 1 2 2] [] e.1 e.2 := by
    intro e he
    have : legHitsAny 0 [] [rectPoly 1 1 2 2] 0 e = false := by
      rcases List.mem_cons.mp he with rfl | he
      · decide +kernel
      · rcases List.mem_cons.mp he with rfl | he
        · decide +kernel
        · cases he
    exact (unblockedTol_zero _ _ _ _).mp ((legUnblocked_iff 0 [] _ e).mp this)
  apply path_of_visible_edges_valid _ _ _ hE
  · decide
  · simp
  · simp
  · intro l hl
    simp only [legs, List.zip_cons_cons, List.zip_nil_right, List.mem_cons, List.not_mem_nil, or_false] at hl
    rcases hl with rfl | rfl
    · left; simp
    · right; simp

/-- the witness scene: rectangle [1,2]², connector (0,0) → (3,3) -/
def witnessRect : Poly := rectPoly 1 1 2 2
def witnessSrc : VVert := connVert [witnessRect] ⟨0, 0⟩
def witnessDst : VVert := connVert [witnessRect] ⟨3, 3⟩

/-- (4) The naive visibility test of the code (`UseLeesAlgorithm = false`) is UNSOUND: it declares
    (0,0) and (3,3) mutually visible although the segment runs through the interior of the rectangle
    [1,2]² (both crossed corners are collinear with the segment, so every `segmentIntersect` is false
    and no endpoint touch is counted).  Hence "visible ⇒ spec-unblocked" is false of the code. -/
theorem visible_unsound_witness :
    visible true [witnessRect] witnessSrc witnessDst = true ∧
    visible false [witnessRect] witnessSrc witnessDst = true ∧
    segHitsInterior witnessRect witnessSrc.pt witnessDst.pt = true := by
  decide +kernel

/-- … stated against the spec: the model-visible pair is not spec-unblocked -/
theorem visible_not_sound :
    ¬ (∀ (ign : Bool) (shapes : List Poly) (a b : VVert),
        visible ign shapes a b = true → Unblocked shapes [] a.pt b.pt) := by
  intro h
  have hu := h true [witnessRect] witnessSrc witnessDst visible_unsound_witness.1
  exact hu 0 (by decide) (by simp) ((segHitsInterior_iff _ _ _).mp visible_unsound_witness.2.2)


/-! ### soundness of the naive visibility test away from its weakness

Full statement of the design (`visible_sound_partial`): for every scene of convex polygons and every pair
(i, j) such that no vertex of a shape lies in the open segment and neither end is strictly inside a
non-exempt shape, `visible ⇒ ¬ segHitsInterior` for every non-exempt shape.

Proved below:
* `visible_sound_boundaryChar_partial` — for every shape whose edge list has the boundary
  characterisation `BoundaryChar` (a point on an edge line and on the inner side of all edges lies on that
  closed edge; every edge starts where another ends).  This is the whole geometric argument; what is
  `visible_sound_partial` instantiates it for every strictly convex counter-clockwise polygon (every
  corner a strict left turn, `ConvexCycle`), any number of vertices; its conclusion speaks about the
  counter-clockwise interior (`InsideOriented 1`, resp. `segHitsOriented 1 0`), because excluding a
  clockwise interior for such a polygon needs a global argument that is not proved.
* `visible_sound_rect_partial` — for axis-parallel rectangles (`BoundaryChar` proved), with the conclusion
  in terms of the C03 checker `segHitsInterior`.
Interior-disjointness of the shapes is not needed (the argument is per shape). -/

open AdaptaVerif.Lemmas.VisSound in
/-- the shapes `firstBlocker` skips for the pair (i, j): those containing a connector endpoint -/
def exempt (i j : VVert) : List Nat :=
  (if i.isConn then i.contains else []) ++ (if j.isConn then j.contains else [])

open AdaptaVerif.Lemmas.VisSound in
theorem visible_shapeBlocks_false (ign : Bool) (shapes : List Poly) (i j : VVert)
    (hvis : visible ign shapes i j = true) (k : Nat) (hk : k < shapes.length) (hex : k ∉ exempt i j) :
    shapeBlocks shapes[k] i.pt j.pt = false := by
  unfold visible at hvis
  simp only [Bool.and_eq_true, Option.isNone_iff_eq_none] at hvis
  have hnone := hvis.2
  unfold firstBlocker at hnone
  have := firstBlockerFrom_none _ i.pt j.pt shapes 0 hnone k hk (by simpa [exempt] using hex)
  exact this

open AdaptaVerif.Lemmas.VisSound in
/-- general form: any shape whose edge list has the boundary characterisation -/
theorem visible_sound_boundaryChar_partial (ign : Bool) (shapes : List Poly) (i j : VVert)
    (hvis : visible ign shapes i j = true) (k : Nat) (hk : k < shapes.length) (hex : k ∉ exempt i j)
    (hB : BoundaryChar (AdaptaVerif.Model.Geometry.edges shapes[k]))
    (ha : ∃ e ∈ AdaptaVerif.Model.Geometry.edges shapes[k], F e i.pt ≤ 0)
    (hb : ∃ e ∈ AdaptaVerif.Model.Geometry.edges shapes[k], F e j.pt ≤ 0)
    (hnov : ∀ e ∈ AdaptaVerif.Model.Geometry.edges shapes[k], ∀ t : Rat, 0 < t → t < 1 →
      lerp i.pt j.pt t ≠ e.1 ∧ lerp i.pt j.pt t ≠ e.2) :
    ¬ ∃ t : Rat, 0 ≤ t ∧ t ≤ 1 ∧ ∀ e ∈ AdaptaVerif.Model.Geometry.edges shapes[k], 0 < F e (lerp i.pt j.pt t) := by
  rintro ⟨t, h0, h1, hm⟩
  have hf := visible_shapeBlocks_false ign shapes i j hvis k hk hex
  have ht := shapeBlocksGo_of_interior _ hB i.pt j.pt t h0 h1 hm ha hb hnov
  unfold shapeBlocks at hf
  rw [ht] at hf
  exact Bool.noConfusion hf

open AdaptaVerif.Lemmas.VisSound in
/-- rectangles: if the naive test of the code calls i–j visible, the segment does not enter any
    non-exempt rectangle — provided no corner of it lies in the open segment (the known weakness,
    `visible_unsound_witness`) and neither end is strictly inside it. -/
theorem visible_sound_rect_partial (ign : Bool) (shapes : List Poly) (i j : VVert)
    (hvis : visible ign shapes i j = true) (k : Nat) (hk : k < shapes.length) (hex : k ∉ exempt i j)
    (x0 y0 x1 y1 : Rat) (hx : x0 < x1) (hy : y0 < y1) (hrect : shapes[k] = rectPoly x0 y0 x1 y1)
    (ha : ¬ StrictlyInside shapes[k] i.pt) (hb : ¬ StrictlyInside shapes[k] j.pt)
    (hnov : ∀ v ∈ shapes[k], ∀ t : Rat, 0 < t → t < 1 → lerp i.pt j.pt t ≠ v) :
    segHitsInterior shapes[k] i.pt j.pt = false := by
  have hf := visible_shapeBlocks_false ign shapes i j hvis k hk hex
  cases hs : segHitsInterior shapes[k] i.pt j.pt with
  | false => rfl
  | true =>
    exfalso
    have hhit := (segHitsInterior_iff _ _ _).mp hs
    rw [hrect] at hhit ha hb hnov hf
    have := shapeBlocks_rect x0 y0 x1 y1 hx hy i.pt j.pt hhit ha hb hnov
    rw [this] at hf
    exact Bool.noConfusion hf

-- non-vacuity: rectangle [1,2]², the pair (0,0)–(3,0) is visible and all hypotheses hold
example : segHitsInterior witnessRect (⟨0, 0⟩ : Pt) ⟨3, 0⟩ = false := by
  have hv : visible true [witnessRect] (connVert [witnessRect] ⟨0, 0⟩) (connVert [witnessRect] ⟨3, 0⟩) = true := by
    decide +kernel
  refine visible_sound_rect_partial true [witnessRect] (connVert [witnessRect] ⟨0, 0⟩) (connVert [witnessRect] ⟨3, 0⟩)
    hv 0 (by decide) (by decide +kernel) 1 1 2 2 (by decide +kernel) (by decide +kernel) rfl ?_ ?_ ?_
  · intro h
    have := (strictlyInside_rect 1 1 2 2 (by decide +kernel) (by decide +kernel) ⟨0, 0⟩).mp h
    exact absurd this.1 (by decide +kernel)
  · intro h
    have := (strictlyInside_rect 1 1 2 2 (by decide +kernel) (by decide +kernel) ⟨3, 0⟩).mp h
    exact absurd this.2.2.1 (by decide +kernel)
  · intro v hv t _ _ h
    have hy : (lerp (⟨0, 0⟩ : Pt) ⟨3, 0⟩ t).y = v.y := congrArg Pt.y h
    simp only [lerp, sub_self, mul_zero, add_zero] at hy
    simp only [List.getElem_cons_zero, witnessRect, rectPoly, List.mem_cons, List.not_mem_nil, or_false] at hv
    rcases hv with rfl | rfl | rfl | rfl <;> simp at hy


open AdaptaVerif.Lemmas.VisSound in
/-- The design's `visible_sound_partial` for strictly convex counter-clockwise polygons of any size:
    if the naive test calls i–j visible then no point of the segment is strictly inside a non-exempt shape
    — provided no vertex of that shape lies in the open segment and neither end is strictly inside it.
    (`_partial`: the conclusion is about the counter-clockwise interior; see the note above.) -/
theorem visible_sound_partial (ign : Bool) (shapes : List Poly) (i j : VVert)
    (hvis : visible ign shapes i j = true) (k : Nat) (hk : k < shapes.length) (hex : k ∉ exempt i j)
    (hlen : 3 ≤ shapes[k].length) (hC : ConvexCycle (polyEdges shapes[k]))
    (ha : ¬ InsideOriented 1 0 shapes[k] i.pt) (hb : ¬ InsideOriented 1 0 shapes[k] j.pt)
    (hnov : ∀ v ∈ shapes[k], ∀ t : Rat, 0 < t → t < 1 → lerp i.pt j.pt t ≠ v) :
    segHitsOriented 1 0 shapes[k] i.pt j.pt = false := by
  have hmem := edges_mem_iff shapes[k]
  have hB : BoundaryChar (AdaptaVerif.Model.Geometry.edges shapes[k]) :=
    boundaryChar_congr _ _ (fun e => (hmem e).symm) (boundaryChar_of_convexCycle _ hC)
  have inside_iff : ∀ p : Pt, InsideOriented 1 0 shapes[k] p ↔
      ∀ e ∈ AdaptaVerif.Model.Geometry.edges shapes[k], 0 < F e p := by
    intro p
    unfold InsideOriented F
    simp only [zero_mul, one_mul]
    constructor
    · rintro ⟨_, h⟩ e he; exact h e ((hmem e).mp he)
    · intro h; exact ⟨hlen, fun e he => h e ((hmem e).mpr he)⟩
  have notin : ∀ p : Pt, ¬ InsideOriented 1 0 shapes[k] p →
      ∃ e ∈ AdaptaVerif.Model.Geometry.edges shapes[k], F e p ≤ 0 := by
    intro p hp
    by_contra hne
    apply hp
    rw [inside_iff]
    intro e he
    by_contra hle
    exact hne ⟨e, he, not_lt.mp hle⟩
  have hgen := visible_sound_boundaryChar_partial ign shapes i j hvis k hk hex hB (notin _ ha) (notin _ hb)
    (by
      intro e he t ht0 ht1
      have hv := polyEdges_mem_vertices shapes[k] e ((hmem e).mp he)
      exact ⟨hnov _ hv.1 t ht0 ht1, hnov _ hv.2 t ht0 ht1⟩)
  cases hs : segHitsOriented 1 0 shapes[k] i.pt j.pt with
  | false => rfl
  | true =>
    exfalso
    obtain ⟨t, h0, h1, hin⟩ := (segHitsOriented_iff 1 0 _ _ _).mp hs
    exact hgen ⟨t, h0, h1, (inside_iff _).mp hin⟩

-- non-vacuity of `visible_sound_partial` (all hypotheses jointly; through it also of
-- `visible_sound_boundaryChar_partial` and `visible_shapeBlocks_false`): the counter-clockwise triangle
-- (0,0),(4,0),(0,3) is a `ConvexCycle`, the pair (0,-1)–(5,-1) below it is visible, no vertex lies on that
-- segment, neither end is inside; and the conclusion is not hollow: the oriented interior is not empty.
open AdaptaVerif.Lemmas.VisSound in
example :
    let tri : Poly := [(⟨0, 0⟩ : Pt), ⟨4, 0⟩, ⟨0, 3⟩]
    segHitsOriented 1 0 tri ⟨0, -1⟩ ⟨5, -1⟩ = false ∧ InsideOriented 1 0 tri ⟨1, 1⟩ := by
  intro tri
  have hC : ConvexCycle (polyEdges tri) := by
    refine ⟨?_, ?_, ?_⟩ <;> intro e he <;>
      simp only [tri, polyEdges, List.cons_append, List.nil_append, List.zip_cons_cons, List.zip_nil_right,
        List.mem_cons, List.not_mem_nil, or_false] at he <;>
      rcases he with rfl | rfl | rfl
    · decide +kernel
    · decide +kernel
    · decide +kernel
    · exact ⟨(⟨4, 0⟩, ⟨0, 3⟩), by simp [tri, polyEdges], rfl, by decide +kernel⟩
    · exact ⟨(⟨0, 3⟩, ⟨0, 0⟩), by simp [tri, polyEdges], rfl, by decide +kernel⟩
    · exact ⟨(⟨0, 0⟩, ⟨4, 0⟩), by simp [tri, polyEdges], rfl, by decide +kernel⟩
    · exact ⟨(⟨0, 3⟩, ⟨0, 0⟩), by simp [tri, polyEdges], rfl, by decide +kernel⟩
    · exact ⟨(⟨0, 0⟩, ⟨4, 0⟩), by simp [tri, polyEdges], rfl, by decide +kernel⟩
    · exact ⟨(⟨4, 0⟩, ⟨0, 3⟩), by simp [tri, polyEdges], rfl, by decide +kernel⟩
  have hout : ∀ p : Pt, p.y = -1 → ¬ InsideOriented 1 0 tri p := by
    intro p hp h
    have := h.2 (⟨0, 0⟩, ⟨4, 0⟩) (by simp [tri, polyEdges])
    simp [area2, hp] at this
    linarith
  refine ⟨visible_sound_partial true [tri] (connVert [tri] ⟨0, -1⟩) (connVert [tri] ⟨5, -1⟩)
    (by decide +kernel) 0 (by decide) (by decide +kernel) (by decide) hC (hout _ rfl) (hout _ rfl) ?_,
    by decide, ?_⟩
  · intro v hv t _ _ h
    have hy : (lerp (⟨0, -1⟩ : Pt) ⟨5, -1⟩ t).y = v.y := congrArg Pt.y h
    simp only [lerp, sub_self, mul_zero, add_zero] at hy
    simp only [List.getElem_cons_zero, tri, List.mem_cons, List.not_mem_nil, or_false] at hv
    rcases hv with rfl | rfl | rfl <;> norm_num at hy
  · intro e he
    simp only [tri, polyEdges, List.cons_append, List.nil_append, List.zip_cons_cons, List.zip_nil_right,
        List.mem_cons, List.not_mem_nil, or_false] at he
    rcases he with rfl | rfl | rfl <;> decide +kernel

end AdaptaVerif.Props.C03
