/-
C17 — property theorems: all-pairs shortest paths are exact.

Spec (Spec/Apsp.lean): `Walk g i j c` (walks in the undirected multigraph given by the edge list),
`IsDist g i j d` (`d` = minimum walk weight, `none` iff no walk), `IsApsp g D`.
-/
import AdaptaVerif.Lemmas.ApspCheck
import AdaptaVerif.Lemmas.ApspFWInit
namespace AdaptaVerif.Props.C17
open AdaptaVerif.Model.ShortestPaths AdaptaVerif.Spec.Apsp AdaptaVerif.Check.Apsp AdaptaVerif.Lemmas.Apsp

/-- The spec is well defined: a pair of vertices has at most one distance value. -/
theorem isDist_unique (g : Graph) (i j : Nat) (a b : Dist) (ha : IsDist g i j a) (hb : IsDist g i j b) :
    a = b := IsDist.unique ha hb

/-- The inductive walks are exactly the vertex/edge step lists over the edge list. -/
theorem walk_iff_stepList (g : Graph) (hv : Valid g) (i j : Nat) (c : Rat) :
    Walk g i j c ↔ ∃ steps, IsStepList g i steps j ∧ stepWeight steps = c := by
  constructor
  · exact walk_isStepList hv
  · rintro ⟨steps, hs, rfl⟩; exact isStepList_walk hv steps i j hs

/-- (1) Soundness of the run-time certificate check, for ALL finite graphs and matrices:
    if `checkApsp g D` accepts, then the graph is valid (end points in range, weights ≥ 0) and for
    all vertices `i j`, `D i j` is the minimum weight over all walks from `i` to `j`, `none` (the
    "unreachable" sentinel) exactly when there is no walk; moreover `D` is symmetric with zero
    diagonal. -/
theorem checkApsp_sound (g : Graph) (D : Nat → Nat → Dist) (h : checkApsp g D = true) :
    Valid g ∧ IsApsp g D ∧ (∀ i j, i < g.n → j < g.n → D i j = D j i) ∧ (∀ i, i < g.n → D i i = some 0) := by
  unfold checkApsp at h
  simp only [Bool.and_eq_true] at h
  obtain ⟨⟨hvalid, hall⟩, hsym⟩ := h
  rw [List.all_eq_true] at hall
  refine ⟨validGraph_valid hvalid, ?_, fun i j hi hj => symmetric_spec hsym hi hj, ?_⟩
  · intro i j hi hj
    exact sourceOk_sound hi (hall i (List.mem_range.mpr hi)) hj
  · intro i hi
    have := hall i (List.mem_range.mpr hi)
    unfold sourceOk at this
    simp only [Bool.and_eq_true, decide_eq_true_eq] at this
    exact this.1.1

/-- non-vacuity: a disconnected multigraph with a self-loop, parallel edges and a zero-weight
    cycle, and its distance matrix, are accepted -/
example : checkApsp ⟨5, [(0, 1, 0), (1, 2, 0), (2, 0, 0), (2, 3, 3/8), (3, 2, 5), (3, 3, 1)]⟩
    (fun i j =>
      if i = 4 ∨ j = 4 then (if i = j then some 0 else none)
      else if i = j then some 0
      else if i = 3 ∨ j = 3 then some (3/8) else some 0) = true := by decide +kernel

/-- (2) `floyd_warshall` as coded (in-place triple loop, plain-assignment initialisation) computes
    exact shortest paths on every valid graph WITHOUT parallel edges and self-loops. -/
theorem fw_correct_simple (g : Graph) (hv : Valid g) (hs : Simple g) : IsApsp g (floydWarshall g).get := by
  obtain ⟨h1, h2, h3, h4⟩ := fwInit_simple hv hs
  exact fwLoop_correct hv h1 h2 h3 h4

/-- non-vacuity: a valid simple graph -/
example : Valid ⟨4, [(0, 1, 1), (1, 2, 0), (3, 0, 5/8)]⟩ ∧ Simple ⟨4, [(0, 1, 1), (1, 2, 0), (3, 0, 5/8)]⟩ := by
  refine ⟨?_, ?_, ?_⟩
  · intro e he; simp at he; rcases he with rfl | rfl | rfl <;> decide +kernel
  · intro e he; simp at he; rcases he with rfl | rfl | rfl <;> decide
  · simp [SameEnds]

/-- (2') With the repaired initialisation proposed for /repo (minimum over parallel edges,
    self-loops skipped) the same triple loop is exact on EVERY valid multigraph. -/
theorem fwFixed_correct (g : Graph) (hv : Valid g) : IsApsp g (floydWarshallFixed g).get := by
  obtain ⟨h1, h2, h3, h4⟩ := fwInitFixed_ok hv
  exact fwLoop_correct hv h1 h2 h3 h4

/-- (5a) Witness: two parallel edges 0–1 of weights 1 then 5 — the code's `D[u][v] = D[v][u] = w`
    keeps the LAST weight: `floyd_warshall` returns 5, the distance is 1. -/
theorem fw_parallel_witness :
    (floydWarshall ⟨2, [(0, 1, 1), (0, 1, 5)]⟩).get 0 1 = some 5 ∧
    ¬ IsApsp ⟨2, [(0, 1, 1), (0, 1, 5)]⟩ (floydWarshall ⟨2, [(0, 1, 1), (0, 1, 5)]⟩).get := by
  have h5 : (floydWarshall ⟨2, [(0, 1, 1), (0, 1, 5)]⟩).get 0 1 = some 5 := by decide +kernel
  refine ⟨h5, ?_⟩
  intro h
  have hd := h 0 1 (by decide) (by decide)
  rw [h5] at hd
  have hw : Walk ⟨2, [(0, 1, 1), (0, 1, 5)]⟩ 0 1 (0 + 1) :=
    Walk.snoc (Walk.nil (by decide)) (Or.inl (by simp))
  have := hd.2 _ hw
  norm_num at this

/-- (5b) Witness: a self-loop of weight 3 overwrites the zero diagonal. -/
theorem fw_selfloop_witness :
    (floydWarshall ⟨1, [(0, 0, 3)]⟩).get 0 0 = some 3 ∧
    ¬ IsApsp ⟨1, [(0, 0, 3)]⟩ (floydWarshall ⟨1, [(0, 0, 3)]⟩).get := by
  have h3 : (floydWarshall ⟨1, [(0, 0, 3)]⟩).get 0 0 = some 3 := by decide +kernel
  refine ⟨h3, ?_⟩
  intro h
  have hd := h 0 0 (by decide) (by decide)
  rw [h3] at hd
  have := hd.2 0 (Walk.nil (by decide))
  norm_num at this

/-- the repaired version on the two witnesses -/
theorem fwFixed_witnesses :
    (floydWarshallFixed ⟨2, [(0, 1, 1), (0, 1, 5)]⟩).get 0 1 = some 1 ∧
    (floydWarshallFixed ⟨1, [(0, 0, 3)]⟩).get 0 0 = some 0 := by
  constructor <;> decide +kernel

end AdaptaVerif.Props.C17
