/-
C17 — property theorems: all-pairs shortest paths and the layout distance matrix are exact.

Spec (Spec/Apsp.lean): `Walk g i j c` (walks in the undirected multigraph given by the edge list;
self-loops and parallel edges allowed), `IsDist g i j d` (`d` = minimum walk weight, `none` — the
DBL_MAX sentinel — iff there is no walk), `IsApsp g D`, `Valid g` (end points `< n`, weights `≥ 0`).
Models (Model/ShortestPaths.lean): `floydWarshall` (the code in /repo now), `floydWarshallOrig`
(the code before `fix: floyd_warshall keeps the lightest parallel edge and ignores self-loops`),
`dijkstra`/`johnsons` over an abstract min-selection, `layoutD`.
-/
import AdaptaVerif.Lemmas.ApspCheck
import AdaptaVerif.Lemmas.ApspComplete
import AdaptaVerif.Lemmas.ApspFWInit
import AdaptaVerif.Lemmas.ApspLayout
import AdaptaVerif.Lemmas.PairingHeap
import AdaptaVerif.Lemmas.ApspDijkstraHeap
namespace AdaptaVerif.Props.C17
open AdaptaVerif.Model.ShortestPaths AdaptaVerif.Spec.Apsp AdaptaVerif.Check.Apsp AdaptaVerif.Lemmas.Apsp

/-- The spec is well defined: a pair of vertices has at most one distance value. -/
theorem isDist_unique (g : Graph) (i j : Nat) (a b : Dist) (ha : IsDist g i j a) (hb : IsDist g i j b) :
    a = b := IsDist.unique ha hb

/-- The inductive walks are exactly the vertex/edge step lists over the edge list. -/
theorem walk_iff_stepList (g : Graph) (hv : Valid g) (i j : Nat) (c : Rat) :
    Walk g i j c ↔ ∃ steps, IsStepList g i steps j ∧ stepWeight steps = c := by
  constructor
  · exact walk_isStepList hv
  · rintro ⟨steps, hs, rfl⟩; exact isStepList_walk hv steps i j hs

/-- (1) Soundness of the run-time certificate check, for ALL finite graphs and matrices:
    if `checkApsp g D` accepts, then the graph is valid and for all vertices `i j`, `D i j` is the
    minimum weight over all walks from `i` to `j`, `none` (the "unreachable" sentinel) exactly
    when there is no walk; moreover `D` is symmetric with zero diagonal. -/
theorem checkApsp_sound (g : Graph) (D : Nat → Nat → Dist) (h : checkApsp g D = true) :
    Valid g ∧ IsApsp g D ∧ (∀ i j, i < g.n → j < g.n → D i j = D j i) ∧ (∀ i, i < g.n → D i i = some 0) := by
  unfold checkApsp at h
  simp only [Bool.and_eq_true] at h
  obtain ⟨⟨hvalid, hall⟩, hsym⟩ := h
  rw [List.all_eq_true] at hall
  refine ⟨validGraph_valid hvalid, ?_, fun i j hi hj => symmetric_spec hsym hi hj, ?_⟩
  · intro i j hi hj
    exact sourceOk_sound hi (hall i (List.mem_range.mpr hi)) hj
  · intro i hi
    have := hall i (List.mem_range.mpr hi)
    unfold sourceOk at this
    simp only [Bool.and_eq_true, decide_eq_true_eq] at this
    exact this.1.1

/-- non-vacuity: a disconnected multigraph with a self-loop, parallel edges and a zero-weight
    cycle, and its distance matrix, are accepted -/
example : checkApsp ⟨5, [(0, 1, 0), (1, 2, 0), (2, 0, 0), (2, 3, 3/8), (3, 2, 5), (3, 3, 1)]⟩
    (fun i j =>
      if i = 4 ∨ j = 4 then (if i = j then some 0 else none)
      else if i = j then some 0
      else if i = 3 ∨ j = 3 then some (3/8) else some 0) = true := by decide +kernel

/-- (1') Completeness of the check: the exact distance matrix of a valid graph is always
    accepted — so a rejection (driver verdict SPECFAIL) proves that the examined matrix is not the
    shortest-path matrix. -/
theorem checkApsp_complete (g : Graph) (D : Nat → Nat → Dist) (hv : Valid g) (h : IsApsp g D) :
    checkApsp g D = true := by
  unfold checkApsp
  simp only [Bool.and_eq_true]
  refine ⟨⟨valid_validGraph hv, ?_⟩, isApsp_symmetric hv h⟩
  rw [List.all_eq_true]
  intro i hi
  have hi' := List.mem_range.mp hi
  exact sourceOk_complete hv hi' (fun j hj => h i j hi' hj)

/-- the check decides the specification -/
theorem checkApsp_iff (g : Graph) (D : Nat → Nat → Dist) : checkApsp g D = true ↔ Valid g ∧ IsApsp g D :=
  ⟨fun h => ⟨(checkApsp_sound g D h).1, (checkApsp_sound g D h).2.1⟩, fun h => checkApsp_complete g D h.1 h.2⟩

/-- (2) `floyd_warshall` as it is coded now (in-place triple loop; initialisation
    `if (u != v && w < D[u][v]) D[u][v] = D[v][u] = w`) computes exact shortest paths on EVERY valid
    multigraph — parallel edges, self-loops, zero weights, disconnected graphs included. -/
theorem fw_correct (g : Graph) (hv : Valid g) : IsApsp g (floydWarshall g).get := by
  obtain ⟨h1, h2, h3, h4⟩ := fwInit_ok hv
  exact fwLoop_correct hv h1 h2 h3 h4

/-- non-vacuity: a valid multigraph with parallel edges and a self-loop -/
example : Valid ⟨4, [(0, 1, 1), (1, 0, 5), (2, 2, 3), (3, 0, 5/8)]⟩ := by
  intro e he; simp at he; rcases he with rfl | rfl | rfl | rfl <;> decide +kernel

/-- the multigraph of the example above, for the joint non-vacuity examples below -/
def exG : Graph := ⟨4, [(0, 1, 1), (1, 0, 5), (2, 2, 3), (3, 0, 5/8)]⟩
/-- proof term for `Valid exG` (a macro, not a theorem: every `theorem` of Props is counted as a property) -/
local macro "exG_valid" : term => `((by unfold Valid; decide +kernel : Valid exG))

-- applying a theorem to the closed term `exG` makes the elaborator evaluate `floydWarshall exG` once
set_option maxRecDepth 8000 in
-- non-vacuity of checkApsp_complete / checkApsp_iff (←): `Valid g ∧ IsApsp g D` jointly, by `fw_correct`
example : checkApsp exG (floydWarshall exG).get = true :=
  checkApsp_complete exG _ exG_valid (fw_correct exG exG_valid)
example : (floydWarshall exG).get 1 3 = some (13/8) ∧ (floydWarshall exG).get 1 2 = none := by decide +kernel

/-- (2') `floyd_warshall` as it was coded before the fix (plain assignment `D[u][v] = D[v][u] = w`)
    is exact on every valid graph WITHOUT parallel edges and self-loops … -/
theorem fwOrig_correct_simple (g : Graph) (hv : Valid g) (hs : Simple g) : IsApsp g (floydWarshallOrig g).get := by
  obtain ⟨h1, h2, h3, h4⟩ := fwInitOrig_simple hv hs
  exact fwLoop_correct hv h1 h2 h3 h4

/-- non-vacuity: a valid simple graph -/
example : Valid ⟨4, [(0, 1, 1), (1, 2, 0), (3, 0, 5/8)]⟩ ∧ Simple ⟨4, [(0, 1, 1), (1, 2, 0), (3, 0, 5/8)]⟩ := by
  refine ⟨?_, ?_, ?_⟩
  · intro e he; simp at he; rcases he with rfl | rfl | rfl <;> decide +kernel
  · intro e he; simp at he; rcases he with rfl | rfl | rfl <;> decide
  · simp [SameEnds]

/-- (5a) … but not beyond: two parallel edges 0–1 of weights 1 then 5 — the old assignment kept the
    LAST weight: the result was 5, the distance is 1. (Replayed on the C++ before the fix:
    harness case 0.) -/
theorem fwOrig_parallel_witness :
    (floydWarshallOrig ⟨2, [(0, 1, 1), (0, 1, 5)]⟩).get 0 1 = some 5 ∧
    ¬ IsApsp ⟨2, [(0, 1, 1), (0, 1, 5)]⟩ (floydWarshallOrig ⟨2, [(0, 1, 1), (0, 1, 5)]⟩).get := by
  have h5 : (floydWarshallOrig ⟨2, [(0, 1, 1), (0, 1, 5)]⟩).get 0 1 = some 5 := by decide +kernel
  refine ⟨h5, ?_⟩
  intro h
  have hd := h 0 1 (by decide) (by decide)
  rw [h5] at hd
  have hw : Walk ⟨2, [(0, 1, 1), (0, 1, 5)]⟩ 0 1 (0 + 1) :=
    Walk.snoc (Walk.nil (by decide)) (Or.inl (by simp))
  have := hd.2 _ hw
  norm_num at this

/-- (5b) a self-loop of weight 3 overwrote the zero diagonal (harness case 1). -/
theorem fwOrig_selfloop_witness :
    (floydWarshallOrig ⟨1, [(0, 0, 3)]⟩).get 0 0 = some 3 ∧
    ¬ IsApsp ⟨1, [(0, 0, 3)]⟩ (floydWarshallOrig ⟨1, [(0, 0, 3)]⟩).get := by
  have h3 : (floydWarshallOrig ⟨1, [(0, 0, 3)]⟩).get 0 0 = some 3 := by decide +kernel
  refine ⟨h3, ?_⟩
  intro h
  have hd := h 0 0 (by decide) (by decide)
  rw [h3] at hd
  have := hd.2 0 (Walk.nil (by decide))
  norm_num at this

/-- the current code on the two witnesses -/
theorem fw_witnesses_fixed :
    (floydWarshall ⟨2, [(0, 1, 1), (0, 1, 5)]⟩).get 0 1 = some 1 ∧
    (floydWarshall ⟨1, [(0, 0, 3)]⟩).get 0 0 = some 0 := by
  constructor <;> decide +kernel

/-- (3) `dijkstra` over ANY priority queue that hands out a minimum-key element (`SelSpec`: the
    abstraction of `PairingHeap::extractMin`/`decreaseKey`) returns the exact single-source
    distances, for every valid multigraph and every source. -/
theorem dijkstra_correct (sel : Selector) (hsel : SelSpec sel) (g : Graph) (hv : Valid g)
    (s j : Nat) (hs : s < g.n) (hj : j < g.n) : IsDist g s j (Vec.at (dijkstra sel g s) j) :=
  dijkstra_exact hsel hv hs hj

/-- non-vacuity: the selector used by the driver meets the specification -/
theorem selMin_meets_spec : SelSpec selMin := selMin_spec

/-- `johnsons` (Dijkstra from every source) returns the exact all-pairs matrix. -/
theorem johnsons_correct (sel : Selector) (hsel : SelSpec sel) (g : Graph) (hv : Valid g) :
    IsApsp g (johnsons sel g).get := by
  intro i j hi hj
  rw [johnsons_get sel g hi j]
  exact dijkstra_exact hsel hv hi hj

/-- all three algorithms agree (on the models) -/
theorem three_agree (sel : Selector) (hsel : SelSpec sel) (g : Graph) (hv : Valid g) (i j : Nat)
    (hi : i < g.n) (hj : j < g.n) :
    (floydWarshall g).get i j = (johnsons sel g).get i j ∧
    (johnsons sel g).get i j = Vec.at (dijkstra sel g i) j :=
  ⟨IsDist.unique (fw_correct g hv i j hi hj) (johnsons_correct sel hsel g hv i j hi hj),
   johnsons_get sel g hi j⟩

/-- The layout's ideal-distance matrix (`computePathLengths` → `readLinearD`): for `i ≠ j` it is
    `idealLength ×` the shortest-path distance in the graph whose edge lengths are the given ones
    with non-positive entries replaced by 1 (all 1 when no lengths are given); the sentinel stays
    for pairs in different components. -/
theorem layoutD_correct (sel : Selector) (hsel : SelSpec sel) (n : Nat) (es : List (Nat × Nat))
    (lens : Option (List Rat)) (ideal : Rat) (hes : ∀ e ∈ es, e.1 < n ∧ e.2 < n)
    (i j : Nat) (hi : i < n) (hj : j < n) (hij : i ≠ j) :
    ∃ d, IsDist (layoutGraph n es lens) i j d ∧
      (layoutD sel n es lens ideal).get i j = d.map (· * ideal) := by
  have hv := layoutGraph_valid n es lens hes
  have hn : (layoutGraph n es lens).n = n := by cases lens <;> rfl
  refine ⟨(johnsons sel (layoutGraph n es lens)).get i j,
    johnsons_correct sel hsel _ hv i j (by rw [hn]; exact hi) (by rw [hn]; exact hj), ?_⟩
  rw [layoutD_get]
  unfold scaleEntry
  rw [if_neg hij]
  cases (johnsons sel (layoutGraph n es lens)).get i j <;> rfl

set_option maxRecDepth 8000 in
-- non-vacuity of dijkstra_correct / johnsons_correct / three_agree: `SelSpec selMin ∧ Valid exG` jointly
example : (floydWarshall exG).get 1 3 = (johnsons selMin exG).get 1 3 ∧
    (johnsons selMin exG).get 1 3 = Vec.at (dijkstra selMin exG 1) 3 :=
  three_agree selMin selMin_meets_spec exG exG_valid 1 3 (by decide) (by decide)

-- non-vacuity of layoutD_correct: a path 0-1-2 plus the isolated vertex 3, raw lengths 2 and -1 (→ 1), ideal length 10
example : ∃ d, IsDist (layoutGraph 4 [(0, 1), (1, 2)] (some [2, -1])) 0 2 d ∧
    (layoutD selMin 4 [(0, 1), (1, 2)] (some [2, -1]) 10).get 0 2 = d.map (· * 10) :=
  layoutD_correct selMin selMin_meets_spec 4 [(0, 1), (1, 2)] (some [2, -1]) 10
    (by intro e he; simp at he; rcases he with rfl | rfl <;> decide) 0 2 (by decide) (by decide) (by decide)
example : (layoutD selMin 4 [(0, 1), (1, 2)] (some [2, -1]) 10).get 0 2 = some 30 ∧
    (layoutD selMin 4 [(0, 1), (1, 2)] (some [2, -1]) 10).get 0 3 = none := by decide +kernel

/-! ### (4) the pairing heap refines a multiset -/

section Heap
open AdaptaVerif.Model.PairingHeap AdaptaVerif.Lemmas.PairingHeap

/-- the two comparisons used (`std::less` on rational keys for the operation-sequence
    correspondence, `CompareNodes` on distances with DBL_MAX on top for Dijkstra) are strict weak
    orders -/
theorem heap_comparisons_lawful : LtLaws ltRat ∧ LtLaws ltDist := ⟨ltRat_laws, ltDist_laws⟩

/-- Over ALL legal operation sequences (insert / deleteMin / decreaseKey to a not-larger key /
    merge) starting from the empty heap, for any key type and lawful comparison, the model of
    `PairingHeap<T,TCompare>` stays a heap-ordered root, and `findMin` (= what `extractMin`
    returns) is an element of the heap with minimal key. -/
theorem pairingheap_findMin_is_minimum {κ : Type} [DecidableEq κ] (lt : κ → κ → Bool) (hl : LtLaws lt)
    (ops : List (Op κ)) (hlg : LegalSeq lt .nil ops) (k : κ) (i : Nat)
    (hf : findMin (ops.foldl (applyOp lt) .nil) = some (k, i)) :
    (k, i) ∈ elems (ops.foldl (applyOp lt) .nil) ∧ ∀ x ∈ elems (ops.foldl (applyOp lt) .nil), lt x.1 k = false := by
  have hg := good_run hl ops .nil good_nil hlg
  exact findMin_spec hl hg.1 hg.2 hf

/-- non-vacuity: a legal sequence with a merge, a decreaseKey and equal keys -/
example : LegalSeq ltRat .nil [.insert 3 0, .insert 1 1, .merge [(2, 2), (1, 3)], .decreaseKey 0 (1/2), .deleteMin] ∧
    findMin ([Op.insert 3 0, .insert 1 1, .merge [(2, 2), (1, 3)], .decreaseKey 0 (1/2), .deleteMin].foldl (applyOp ltRat) .nil)
      = some (1, 1) := by
  constructor
  · simp only [LegalSeq, Legal, and_true, true_and, le]
    decide +kernel
  · decide +kernel

/-- The stored multiset changes exactly as the multiset operations prescribe (`List.Perm` on the
    `(key, id)` pairs): insert adds, deleteMin removes the root pair, merge unites, decreaseKey
    replaces one pair `(old, id)` by `(new, id)` (or leaves the heap alone if `id` is absent). -/
theorem pairingheap_refines_multiset {κ : Type} [DecidableEq κ] (lt : κ → κ → Bool) (hl : LtLaws lt)
    (h : PTree κ) (hg : Good lt h) :
    (∀ k i, (elems (Model.PairingHeap.insert lt h k i)).Perm ((k, i) :: elems h)) ∧
    (∀ k i, findMin h = some (k, i) → (elems h).Perm ((k, i) :: elems (deleteMin lt h))) ∧
    (findMin h = none ↔ elems h = []) ∧
    (∀ items, (elems (merge lt h (build lt items))).Perm (elems h ++ elems (build lt items))) ∧
    (∀ i nk, (decreaseKey lt h i nk = h ∧ ∀ x ∈ elems h, x.2 ≠ i) ∨
      ∃ ok rest, (elems h).Perm ((ok, i) :: rest) ∧ (elems (decreaseKey lt h i nk)).Perm ((nk, i) :: rest)) := by
  refine ⟨fun k i => (insert_spec hl hg.1 hg.2 k i).1, ?_, findMin_none, ?_, ?_⟩
  · intro k i hf
    cases h with
    | nil => simp [findMin] at hf
    | node kh ih c s =>
      have hs : s = .nil := hg.1
      subst hs
      simp only [findMin, Option.some.injEq, Prod.mk.injEq] at hf
      obtain ⟨rfl, rfl⟩ := hf
      exact (deleteMin_spec hl hg.2).1
  · intro items
    exact (merge_spec hl hg.1 hg.2 (good_build hl items).1 (good_build hl items).2).1
  · intro i nk
    rcases decreaseKey_spec hl hg.1 hg.2 i nk with e | ⟨ok, rest, h1, h2, _, _⟩
    · exact Or.inl e
    · exact Or.inr ⟨ok, rest, h1, h2⟩

-- non-vacuity of pairingheap_refines_multiset: a `Good` heap with four elements, two of them with equal keys
example : Good ltRat (build ltRat [(3, 0), (1, 1), (2, 2), (1, 3)]) ∧
    (elems (build ltRat [(3, 0), (1, 1), (2, 2), (1, 3)])).length = 4 :=
  ⟨⟨(good_build ltRat_laws _).1, (good_build ltRat_laws _).2⟩, by decide +kernel⟩

end Heap

/-! ### (3') Dijkstra exactly as coded: driven by the pairing heap -/

/-- `dijkstraHeap` runs Dijkstra the way shortest_paths.h does — all nodes inserted into the
    pairing heap, repeated `extractMin`, relaxation of the neighbours with `decreaseKey` on the
    heap — and returns, for EVERY valid multigraph (weights ≥ 0) and source, the exact
    shortest-path vector.  (Proof: simulation of the abstract-queue run; the invariant "the heap
    holds exactly the pairs (d[v], v) of the unsettled nodes and is heap-ordered" is kept by
    extractMin and by every decreaseKey.) -/
theorem dijkstraHeap_correct (g : Graph) (hv : Valid g) (s j : Nat) (hs : s < g.n) (hj : j < g.n) :
    IsDist g s j (Vec.at (dijkstraHeap g s) j) :=
  dijkstraHeap_exact hv hs hj

theorem johnsonsHeap_get (g : Graph) {i : Nat} (hi : i < g.n) (j : Nat) :
    (johnsonsHeap g).get i j = Vec.at (dijkstraHeap g i) j := by
  unfold johnsonsHeap Mat.get Vec.at
  simp [hi]

/-- `johnsons` with the real queue discipline returns the exact all-pairs matrix. -/
theorem johnsonsHeap_correct (g : Graph) (hv : Valid g) : IsApsp g (johnsonsHeap g).get := by
  intro i j hi hj
  rw [johnsonsHeap_get g hi j]
  exact dijkstraHeap_exact hv hi hj

/-- concrete run (parallel edges, self-loop, zero weight, unreachable vertex): distances and the
    order in which nodes leave the heap -/
example : dijkstraHeap ⟨4, [(0, 1, 1), (0, 1, 5), (1, 1, 3), (1, 2, 0)]⟩ 0 = #[some 0, some 1, some 1, none] ∧
    dijkstraHeapOrder ⟨4, [(0, 1, 1), (0, 1, 5), (1, 1, 3), (1, 2, 0)]⟩ 0 = [0, 1, 2, 3] := by
  decide +kernel

set_option maxRecDepth 8000 in
-- non-vacuity of dijkstraHeap_correct (hence johnsonsHeap_correct) on `exG`
example : IsDist exG 1 3 (Vec.at (dijkstraHeap exG 1) 3) := dijkstraHeap_correct exG exG_valid 1 3 (by decide) (by decide)
example : Vec.at (dijkstraHeap exG 1) 3 = some (13/8) := by decide +kernel

end AdaptaVerif.Props.C17
