/-
C16 — tie theorems for the two geometry kernels that cpp2lean could not translate before:
`inPolyGen` (a local copy of the polygon is translated by the query point through element assignment
`P[i].x = P[i].x - q.x` behind a reference, then an indexed loop with early `return true` counts ray
crossings) and `segmentShapeIntersect` (in/out `bool& seenIntersectionAtEndpoint`).  As GENERATED from
/repo's cola/libavoid/geometry.cpp on every run they are the hand models of Model/Geometry.lean (the
models the exhaustive grid correspondence and Model/Visibility.lean use), and none of their obligations
(vector bounds, unsigned wrap-around in `(i + n - 1) % n`, callee assertions) can fail.
-/
import AdaptaVerif.Lemmas.InPolyGenBridge
namespace AdaptaVerif.Props.C16Tie
open AdaptaVerif.Model.Geometry AdaptaVerif.Lemmas.InPolyGenBridge

/-- for every polygon (any size, also empty) and query point: the generated loops are the list model
    (`any` vertex at the origin, else parities of `countP` over the cyclic edge list of the shifted polygon) -/
theorem gen_inPolyGen_is_model (poly : List Pt) (q : Pt) :
    AdaptaVerif.Gen.GeometryK2.inPolyGen poly q = inPolyGen poly q ∧
    AdaptaVerif.Gen.GeometryK2.inPolyGen_pre poly q = true :=
  ⟨inPolyGen_eq poly q, inPolyGen_pre_true poly q⟩

/-- `segmentShapeIntersect`: result and new value of the flag -/
theorem gen_segmentShapeIntersect_is_model (e1 e2 s1 s2 : Pt) (seen : Bool) :
    AdaptaVerif.Gen.GeometryK2.segmentShapeIntersect e1 e2 s1 s2 seen = segmentShapeIntersect e1 e2 s1 s2 seen ∧
    AdaptaVerif.Gen.GeometryK2.segmentShapeIntersect_pre e1 e2 s1 s2 seen = true :=
  ⟨segmentShapeIntersect_eq e1 e2 s1 s2 seen, segmentShapeIntersect_pre_true e1 e2 s1 s2 seen⟩

/-- the first loop of `inPolyGen` alone: the element-wise in-place update through the reference `P` is `map` -/
theorem gen_inPolyGen_shift_is_map (poly : List Pt) (q : Pt) :
    AdaptaVerif.Gen.forRange (AdaptaVerif.Gen.GeometryK2.inPolyGen_body1 q) (poly.length - 0) 0 poly =
      poly.map (fun p => ⟨p.x - q.x, p.y - q.y⟩) :=
  shift_loop q poly

end AdaptaVerif.Props.C16Tie
