/-
C11 — tie theorem: `ShapeConnectionPin::directions()` as generated from /repo's
libavoid/connectionpin.cpp by cpp2lean on every run is the hand model `pinDirections` of Model/Pins.lean.
-/
import AdaptaVerif.Gen.PinDirs
import AdaptaVerif.Model.Pins
namespace AdaptaVerif.Props.C11Tie
open AdaptaVerif.Model.Pins

theorem gen_directions_is_model (s : PinSpec) :
    AdaptaVerif.Gen.PinDirs.directions s.visDirs s.xOff s.yOff = pinDirections s := by
  simp only [AdaptaVerif.Gen.PinDirs.directions, pinDirections, dirLeft, dirRight, dirUp, dirDown, dirAll,
    decide_eq_true_eq]
  by_cases h0 : s.visDirs = 0
  · simp only [h0, if_true, ne_eq, not_true_eq_false, if_false]
    by_cases hx0 : s.xOff = 0 <;> by_cases hx1 : s.xOff = 1 <;> by_cases hy0 : s.yOff = 0 <;>
      by_cases hy1 : s.yOff = 1 <;> simp [hx0, hx1, hy0, hy1]
  · simp [h0]

theorem gen_directions_no_assertion (s : PinSpec) :
    AdaptaVerif.Gen.PinDirs.directions_pre s.visDirs s.xOff s.yOff = true := by
  simp only [AdaptaVerif.Gen.PinDirs.directions_pre]
  by_cases h0 : s.visDirs = 0 <;> by_cases hx0 : s.xOff = 0 <;> by_cases hx1 : s.xOff = 1 <;>
    by_cases hy0 : s.yOff = 0 <;> by_cases hy1 : s.yOff = 1 <;> simp [h0, hx0, hx1, hy0, hy1]

end AdaptaVerif.Props.C11Tie
