/-
C11 — tie theorem: `ShapeConnectionPin::directions()` as generated from /repo's
libavoid/connectionpin.cpp by cpp2lean on every run is the hand model `pinDirections` of Model/Pins.lean.
-/
import AdaptaVerif.Gen.PinDirs
import AdaptaVerif.Gen.Comparators
import AdaptaVerif.Lemmas.StrictWeakOrder
import AdaptaVerif.Model.Pins
namespace AdaptaVerif.Props.C11Tie
open AdaptaVerif.Model.Pins

theorem gen_directions_is_model (s : PinSpec) :
    AdaptaVerif.Gen.PinDirs.directions s.visDirs s.xOff s.yOff = pinDirections s := by
  simp only [AdaptaVerif.Gen.PinDirs.directions, pinDirections, dirLeft, dirRight, dirUp, dirDown, dirAll,
    decide_eq_true_eq]
  by_cases h0 : s.visDirs = 0
  · simp only [h0, if_true, ne_eq, not_true_eq_false, if_false]
    by_cases hx0 : s.xOff = 0 <;> by_cases hx1 : s.xOff = 1 <;> by_cases hy0 : s.yOff = 0 <;>
      by_cases hy1 : s.yOff = 1 <;> simp [hx0, hx1, hy0, hy1]
  · simp [h0]

theorem gen_directions_no_assertion (s : PinSpec) :
    AdaptaVerif.Gen.PinDirs.directions_pre s.visDirs s.xOff s.yOff = true := by
  simp only [AdaptaVerif.Gen.PinDirs.directions_pre]
  by_cases h0 : s.visDirs = 0 <;> by_cases hx0 : s.xOff = 0 <;> by_cases hx1 : s.xOff = 1 <;>
    by_cases hy0 : s.yOff = 0 <;> by_cases hy1 : s.yOff = 1 <;> simp [h0, hx0, hx1, hy0, hy1]

/-! ### `ShapeConnectionPin::operator<` — the order of `ShapeConnectionPinSet` (std::set) of every shape and junction

Regenerated from connectionpin.cpp on every run.  The set keeps one pin per equivalence class of
this order, and `ConnEnd::assignPinVisibilityTo` / `getPossiblePinPoints` iterate the set in this
order; a comparator that forgets a key silently drops a pin the user added (the pin is never in
the set, so connectors never attach to it). -/

open AdaptaVerif.Gen.Comparators AdaptaVerif.Model.CmpKeys AdaptaVerif.Lemmas.SWO

/-- `a < b` in argument order (the generated function takes `rhs` first) -/
abbrev pinLess (a b : PinKey) : Bool := pinLt b a

theorem gen_pinLt_is_lex :
    pinLess = cmpBy PinKey.objId (cmpBy PinKey.classId (cmpBy PinKey.visDirs (cmpBy PinKey.xOff
      (cmpBy PinKey.yOff (cmpBy PinKey.insideOff (fun _ _ => false)))))) := by
  funext a b; simp [pinLess, pinLt, cmpBy]

/-- the comparator satisfies the C++ `Compare` requirements (otherwise std::set is undefined behaviour) -/
theorem pinLt_strict_weak_order : IsSWO pinLess := by
  rw [gen_pinLt_is_lex]
  exact swo_cmpBy _ (swo_cmpBy _ (swo_cmpBy _ (swo_cmpBy _ (swo_cmpBy _ (swo_cmpBy _ swo_false)))))

/-- two pins are the same set element iff they agree on owner, class, direction flags, x offset,
    y offset and inside offset: pins that differ in ANY of these coexist on a shape -/
theorem pinLt_equiv_iff (a b : PinKey) :
    Incomp pinLess a b ↔ a.objId = b.objId ∧ a.classId = b.classId ∧ a.visDirs = b.visDirs ∧
      a.xOff = b.xOff ∧ a.yOff = b.yOff ∧ a.insideOff = b.insideOff := by
  rw [gen_pinLt_is_lex]; simp only [incomp_cmpBy, incomp_false, and_true]

/-- in particular two pins of one class on one shape that differ only in their y offset are both
    kept (the configuration of seeded change C11-1) -/
theorem pins_differing_in_y_coexist (a b : PinKey) (h : a.yOff ≠ b.yOff) : ¬ Incomp pinLess a b := by
  rw [pinLt_equiv_iff]; intro hh; exact h hh.2.2.2.2.1

/-- the `COLA_ASSERT(m_router == rhs.m_router)` is the only assertion -/
theorem pinLt_assertion_iff (a b : PinKey) : pinLt_pre b a = true ↔ a.router = b.router := by
  simp only [pinLt_pre]
  by_cases h : a.router = b.router <;> simp [h] <;> (repeat' split) <;> rfl

example : pinLess ⟨1, 1, 0, 0, 0, 0, 9⟩ ⟨1, 1, 0, 0, 1, 0, 9⟩ = true := by decide

end AdaptaVerif.Props.C11Tie
