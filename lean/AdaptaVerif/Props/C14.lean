/-
C14 — libdialect: doHOLA returns a clean orthogonal drawing of the same graph, and the returned
separation constraints are satisfied.

Assurance level: translation validation.  The HOLA pipeline itself is not modelled; each output of
the real `doHOLA()` is decided by the executable checkers of `Check/Drawing.lean`, and the theorems
below state — for ALL drawings, routes, constraint lists and parameters — that a checker answers
`true` exactly when the mathematical clause of `Spec/Drawing.lean` holds.
(Helper lemmas: `Lemmas/Drawing.lean`, `Lemmas/DrawingSep.lean`, `Lemmas/RouteRect.lean`.)
-/
import Mathlib.Tactic.Linarith
import Mathlib.Data.List.Nodup
import AdaptaVerif.Lemmas.DrawingSep

namespace AdaptaVerif.Props.C14
open AdaptaVerif.Check.RouteRect AdaptaVerif.Check.Drawing AdaptaVerif.Spec.Drawing
open AdaptaVerif.Lemmas.Drawing

/-- clause 1: the checker accepts iff node ids are distinct, the id set is unchanged and the
    multiset of (src,tgt) edges is unchanged -/
theorem sameGraph_correct (before after : Drawing) :
    sameGraph before after = true ↔ SameGraph before after := sameGraph_iff before after

/-- clause 2: the checker accepts iff every returned node equals an input node in id, w and h -/
theorem sizesKept_correct (before after : Drawing) :
    sizesKept before after = true ↔ SizesKept before after := sizesKept_iff before after

/-- clauses 1+2 together: the input node *with the same id* has exactly the returned size -/
theorem sizes_by_id (before after : Drawing)
    (hg : sameGraph before after = true) (hs : sizesKept before after = true) :
    ∀ n ∈ after.nodes, ∀ m ∈ before.nodes, m.id = n.id → m.w = n.w ∧ m.h = n.h := by
  intro n hn m hm hid
  obtain ⟨hnd, _, _⟩ := (sameGraph_iff before after).mp hg
  obtain ⟨m', hm', hid', hw, hh⟩ := (sizesKept_iff before after).mp hs n hn
  have : m = m' := List.inj_on_of_nodup_map hnd hm hm' (by rw [hid, hid'])
  subst this
  exact ⟨hw, hh⟩

/-- clause 3 (any tolerance): the checker accepts iff no two nodes at different list positions
    have a common point strictly inside both boxes shrunk by tol/2 -/
theorem noNodeOverlap_correct (tol : Rat) (d : Drawing) :
    noNodeOverlap tol d = true ↔ NoNodeOverlap tol d := noNodeOverlap_iff tol d

/-- clause 3 at tolerance 0, spelled out: the open boxes of distinct nodes are disjoint -/
theorem noNodeOverlap_zero_sound (d : Drawing) (h : noNodeOverlap 0 d = true) :
    ∀ (i j : Nat) (hi : i < d.nodes.length) (hj : j < d.nodes.length), i ≠ j →
      ∀ p : P, ¬ (StrictlyInside (d.nodes[i]).box p ∧ StrictlyInside (d.nodes[j]).box p) := by
  intro i j hi hj hne p hp
  refine (noNodeOverlap_iff 0 d).mp h i j hi hj hne ⟨p, ?_, ?_⟩
  · have := hp.1
    unfold StrictlyInside Rect.shrink at *
    simp only at this ⊢
    refine ⟨?_, ?_, ?_, ?_⟩ <;> linarith [this.1, this.2.1, this.2.2.1, this.2.2.2]
  · have := hp.2
    unfold StrictlyInside Rect.shrink at *
    simp only at this ⊢
    refine ⟨?_, ?_, ?_, ?_⟩ <;> linarith [this.1, this.2.1, this.2.2.1, this.2.2.2]

/-- clause 4: the checker accepts iff the route has ≥ 2 points and every leg is exactly
    horizontal or exactly vertical -/
theorem routeOrthogonal_correct (r : List P) :
    routeOrthogonal r = true ↔ RouteOrthogonal r := routeOrthogonal_iff r

/-- clause 5: the checker accepts iff the first point is within `e` of one end node's box and the
    last point within `e` of the other's -/
theorem routeEndsAt_correct (e : Rat) (s t : Node) (r : List P) :
    routeEndsAt e s t r = true ↔ RouteEndsAt e s t r := routeEndsAt_iff e s t r

/-- clause 6: the checker accepts iff no point of any leg is strictly inside the (shrunk) box of a
    node other than the edge's ends -/
theorem routeAvoidsOthers_correct (s : Rat) (d : Drawing) (e : Edge) :
    routeAvoidsOthers s d e = true ↔ RouteAvoidsOthers s d e := routeAvoidsOthers_iff s d e

/-- clause 7, one dimension: the transcription of `SepPair::generateSeparationConstraint`
    (left/right chosen by the sign bit, BDRY adds half extents + extra gap, `left+gap ≤/= right`)
    is equivalent to the directional reading `σ·(pt-ps) ≥ |gap| + …` of the constraint -/
theorem dimHolds_correct (tol extra : Rat) (c : SepDim) (ps pt ws wt : Rat) :
    dimHolds tol extra c ps pt ws wt = true ↔ DimSat tol extra c ps pt ws wt :=
  dimHolds_iff tol extra c ps pt ws wt

/-- clause 7: the checker accepts iff every SepPair refers to nodes of the drawing and holds in
    both dimensions -/
theorem sepSatisfied_correct (tol extra : Rat) (d : Drawing) (seps : List SepPair) :
    sepSatisfied tol extra d seps = true ↔ SepSatisfied tol extra d seps :=
  sepSatisfied_iff tol extra d seps

/-- the whole property: the driver's verdict function accepts iff all seven clauses hold -/
theorem cleanDrawing_correct (pr : Params) (before after : Drawing) (seps : List SepPair) :
    cleanDrawing pr before after seps = true ↔ CleanDrawing pr before after seps :=
  cleanDrawing_iff pr before after seps

/-! ### non-vacuity: a drawing that is accepted, and rejected variants -/

def exBefore : Drawing :=
  { nodes := [⟨1, 0, 0, 20, 10⟩, ⟨2, 5, 7, 20, 10⟩, ⟨3, 1, 1, 10, 10⟩],
    edges := [⟨0, 1, 2, []⟩, ⟨1, 3, 2, []⟩] }

/-- 1 at (0,0), 2 at (100,0) (east of 1, aligned), 3 at (100,60) (south of 2) -/
def exAfter : Drawing :=
  { nodes := [⟨1, 0, 0, 20, 10⟩, ⟨2, 100, 0, 20, 10⟩, ⟨3, 100, 60, 10, 10⟩],
    edges := [⟨0, 1, 2, [⟨0, 0⟩, ⟨100, 0⟩]⟩, ⟨1, 3, 2, [⟨100, 60⟩, ⟨100, 0⟩]⟩] }

def exSeps : List SepPair :=
  [ ⟨1, 2, ⟨.ineq, .bdry, false, 0⟩, ⟨.eq, .centre, false, 0⟩⟩,      -- 2 EAST of 1, boundary gap ≥ 0 (+extra)
    ⟨2, 3, ⟨.eq, .centre, false, 0⟩, ⟨.ineq, .centre, false, 50⟩⟩ ]  -- 3 SOUTH of 2, centre gap ≥ 50

def exParams : Params := ⟨0, 5, 1 / 1000000, 1 / 10000, 30⟩

example : cleanDrawing exParams exBefore exAfter exSeps = true := by decide +kernel

-- non-vacuity of sizes_by_id: both hypotheses hold jointly on exBefore / exAfter (node 2 moved, size kept)
example : exBefore.nodes[1].w = exAfter.nodes[1].w ∧ exBefore.nodes[1].h = exAfter.nodes[1].h :=
  sizes_by_id exBefore exAfter (by decide +kernel) (by decide +kernel)
    exAfter.nodes[1] (List.getElem_mem _) exBefore.nodes[1] (List.getElem_mem _) (by decide +kernel)

-- non-vacuity of noNodeOverlap_zero_sound: (5,0) is strictly inside node 1's box, hence not inside node 2's
example : ¬ (StrictlyInside (exAfter.nodes[0]).box ⟨5, 0⟩ ∧ StrictlyInside (exAfter.nodes[1]).box ⟨5, 0⟩) :=
  noNodeOverlap_zero_sound exAfter (by decide +kernel) 0 1 (by decide) (by decide) (by decide) ⟨5, 0⟩
example : StrictlyInside (exAfter.nodes[0]).box ⟨5, 0⟩ := by decide +kernel

/-- a diagonal leg is rejected -/
example : routeOrthogonal [⟨0, 0⟩, ⟨100, 1⟩] = false := by decide +kernel
/-- a route through a third node is rejected -/
example : routeAvoidsOthers (1 / 1000000)
    { exAfter with nodes := exAfter.nodes ++ [⟨4, 50, 0, 10, 10⟩] } ⟨0, 1, 2, [⟨0, 0⟩, ⟨100, 0⟩]⟩ = false := by
  decide +kernel
/-- overlapping nodes are rejected -/
example : noNodeOverlap 0 { exAfter with nodes := exAfter.nodes ++ [⟨4, 105, 3, 10, 10⟩] } = false := by
  decide +kernel
/-- the sign bit matters: `-0` (WEST of) is not satisfied where `+0` (EAST of) is -/
example : dimHolds 0 0 ⟨.ineq, .bdry, true, 0⟩ 0 100 20 20 = false ∧
          dimHolds 0 0 ⟨.ineq, .bdry, false, 0⟩ 0 100 20 20 = true := by decide +kernel
/-- a changed size is rejected -/
example : sizesKept exBefore { exAfter with nodes := [⟨1, 0, 0, 20 + 1 / 1000000000000, 10⟩] } = false := by
  decide +kernel

end AdaptaVerif.Props.C14
