/-
C18 — libdialect: separation-constraint transforms commute with geometry and compose like the
symmetry group of the square; storing under (a,b) vs the negation under (b,a); TGLF round trip.

All theorems are about the hand-written model `AdaptaVerif.Model.Sep` (tied to the C++ by the
exhaustive / random correspondence of driver mode c18) and hold for **all** inputs: every SepPair
(any gap types, relations, gaps of either sign including ±0, any flag / precision), every placement,
every extra boundary gap, every matrix state.

`Sat extra sp p` (Spec/Sep.lean) = the two `vpsc::Constraint`s generated for `sp` hold for the
placement `p` (centres and sizes of src and tgt); `sat_iff_vpsc` ties it to the id-level
`generateSeparationConstraint`.
-/
import AdaptaVerif.Lemmas.SepTransform
import AdaptaVerif.Lemmas.SepMatrix
import AdaptaVerif.Lemmas.SepTglf
import AdaptaVerif.Lemmas.SepTglfMatrix
import AdaptaVerif.Lemmas.SepReach
namespace AdaptaVerif.Props.C18
open AdaptaVerif.Num AdaptaVerif.Model.Sep AdaptaVerif.Spec.Sep AdaptaVerif.Lemmas.Sep
open AdaptaVerif.Model.Sep.SepMatrix

/-- `Sat` is exactly "the constraints produced by `SepPair::generateSeparationConstraint` in the two
    dimensions hold", for arbitrary node sizes and positions indexed by node id. -/
theorem sat_iff_vpsc (extra : Rat) (sp : SepPair) (size : Nat → Dim → Rat) (posX posY : Nat → Rat) :
    Sat extra sp { sx := posX sp.src, sy := posY sp.src, sw := size sp.src .x, sh := size sp.src .y,
                   tx := posX sp.tgt, ty := posY sp.tgt, tw := size sp.tgt .x, th := size sp.tgt .y } ↔
    (∀ c, sp.generateSeparationConstraint .x extra size = some c → VCon.holds c posX) ∧
    (∀ c, sp.generateSeparationConstraint .y extra size = some c → VCon.holds c posY) := by
  unfold Sat SepPair.generateSeparationConstraint
  apply and_congr
  · cases h : genCon sp.xst sp.xgt sp.xgap extra (size sp.src .x) (size sp.tgt .x) with
    | none => simp [conHolds]
    | some c => cases hl : c.leftIsSrc <;> cases he : c.equality <;> simp [conHolds, VCon.holds, hl, he]
  · cases h : genCon sp.yst sp.ygt sp.ygap extra (size sp.src .y) (size sp.tgt .y) with
    | none => simp [conHolds]
    | some c => cases hl : c.leftIsSrc <;> cases he : c.equality <;> simp [conHolds, VCon.holds, hl, he]

/-! ## (1) equivariance -/

/-- For every SepPair, each of the eight symmetries `tf`, every placement and extra boundary gap:
    the placement satisfies the pair iff the transformed placement (centres through the plane map,
    widths/heights exchanged by the axis-swapping symmetries) satisfies the transformed pair. -/
theorem transform_equivariant (extra : Rat) (sp : SepPair) (tf : SepTransform) (p : Placement) :
    Sat extra sp p ↔ Sat extra (sp.transform tf) (p.apply tf) :=
  transform_equivariant' extra sp tf p

/-- Matrix level: `SepMatrix::transform(tf)` commutes with the placement transform for the record of
    every id pair `k` (an absent record constrains nothing), in every matrix state. -/
theorem transform_equivariant_matrix (m : SepMatrix) (tf : SepTransform) (k : Nat × Nat) (pl : Placement) :
    SatOpt m.extraBdryGap (m.lookup k) pl ↔
      SatOpt (m.transform tf).extraBdryGap ((m.transform tf).lookup k) (pl.apply tf) :=
  transform_equivariant_matrix' m tf k pl

/-! ## (2) the transforms compose like the symmetry group of the square — with plain equality -/

/-- full 8×8 composition table: doing `b` and then `a` **equals** (all fields, including the sign
    bits of zero gaps, flag and precision) doing `a.comp b` -/
theorem transform_group (a b : SepTransform) (sp : SepPair) :
    (sp.transform b).transform a = sp.transform (a.comp b) :=
  transform_comp a b sp

/-- `comp` is the product of the dihedral group D4 realised on the plane: it is the composition of
    the eight plane maps, these are pairwise distinct, and `comp` is associative with identity
    `ident` and inverses. -/
theorem transform_group_is_D4 :
    (∀ a b x y, SepTransform.applyPt a (SepTransform.applyPt b x y).1 (SepTransform.applyPt b x y).2
        = SepTransform.applyPt (a.comp b) x y) ∧
    (∀ a b : SepTransform, a.applyPt 1 2 = b.applyPt 1 2 → a = b) ∧
    (∀ a b c : SepTransform, (a.comp b).comp c = a.comp (b.comp c)) ∧
    (∀ a : SepTransform, SepTransform.ident.comp a = a ∧ a.comp .ident = a) ∧
    (∀ a : SepTransform, ∃ b, a.comp b = .ident ∧ b.comp a = .ident) := by
  refine ⟨applyPt_comp, applyPt_injective, comp_assoc, ?_, ?_⟩
  · intro a; cases a <;> exact ⟨rfl, rfl⟩
  · intro a
    cases a
    · exact ⟨.ident, rfl, rfl⟩
    · exact ⟨.rotate90acw, rfl, rfl⟩
    · exact ⟨.rotate90cw, rfl, rfl⟩
    · exact ⟨.rotate180, rfl, rfl⟩
    · exact ⟨.flipv, rfl, rfl⟩
    · exact ⟨.fliph, rfl, rfl⟩
    · exact ⟨.flipmd, rfl, rfl⟩
    · exact ⟨.flipod, rfl, rfl⟩

/-- the action on placements is a group action too -/
theorem placement_action (a b : SepTransform) (p : Placement) :
    (p.apply b).apply a = p.apply (a.comp b) :=
  placement_apply_comp a b p

/-- four quarter turns (either sense) give back the original constraint -/
theorem four_quarter_turns (sp : SepPair) :
    (((sp.transform .rotate90cw).transform .rotate90cw).transform .rotate90cw).transform .rotate90cw = sp ∧
    (((sp.transform .rotate90acw).transform .rotate90acw).transform .rotate90acw).transform .rotate90acw = sp := by
  simp only [transform_comp]
  exact ⟨rfl, rfl⟩

/-- two equal flips (and two half turns) give back the original constraint -/
theorem equal_flips_cancel (sp : SepPair) :
    (sp.transform .flipv).transform .flipv = sp ∧ (sp.transform .fliph).transform .fliph = sp ∧
    (sp.transform .flipmd).transform .flipmd = sp ∧ (sp.transform .flipod).transform .flipod = sp ∧
    (sp.transform .rotate180).transform .rotate180 = sp := by
  simp only [transform_comp]
  exact ⟨rfl, rfl, rfl, rfl, rfl⟩

/-! ## (3) storing under (a,b) vs the negation under (b,a): fresh pair -/

/-- On any matrix that has no record for `{a,b}` yet (in particular a fresh matrix), with the flag
    semantics as coded **or** repaired: `addSep(a,b,gt,sd,st,gap)` and
    `addSep(b,a,gt,negateSepDir sd,st,gap)` both succeed and leave observationally equivalent
    matrices (every pair of ids is satisfied by the same placements). -/
theorem flip_storage_fresh (fixedFlag : Bool) (m : SepMatrix) (a b : Nat) (hab : a ≠ b)
    (hfresh : m.lookup (key a b) = none) (gt : GapType) (sd : SepDir) (st : SepType) (g : SZ) :
    ∃ m₁ m₂, m.addSep fixedFlag a b gt sd st g = some m₁ ∧
      m.addSep fixedFlag b a gt (negateSepDir sd) st g = some m₂ ∧ MatrixEquiv m₁ m₂ :=
  flip_storage_fresh' fixedFlag m a b hab hfresh gt sd st g

example : ∃ m₁ m₂, SepMatrix.empty.addSep false 4 17 .bdry .west .ineq ⟨false, 200⟩ = some m₁ ∧
    SepMatrix.empty.addSep false 17 4 .bdry .east .ineq ⟨false, 200⟩ = some m₂ ∧ MatrixEquiv m₁ m₂ :=
  flip_storage_fresh false .empty 4 17 (by decide) (by decide) .bdry .west .ineq ⟨false, 200⟩

/-! ## (4) … after a history

Full statement (`flip_storage_history`): for **every** matrix state `m` (so after any history of
operations), `a ≠ b`: `addSep(a,b,…,sd,…)` ≈ `addSep(b,a,…,negateSepDir sd,…)`.

It is FALSE of the code as it stands (`fixedFlag = false`: `getSepPair` writes `flippedRetrieval`
only when it creates the pair): see the witness below, replayed on the C++ by the harness
(class `flip-history`, first case). It is TRUE once the flag is written on every retrieval
(`fixedFlag = true`), which is the proposed repair. -/

/-- the state after the one-call history `addSep(1, 0, CENTRE, EAST, INEQ, 5)` -/
def witnessState : SepMatrix :=
  runOps false .empty [.addSep 1 0 .centre .east .ineq ⟨false, 5⟩]

/-- what the code as it stands stores for `addSep(0, 1, CENTRE, EAST, INEQ, 10)` in that state -/
def witnessAfter : SepMatrix :=
  runOps false witnessState [.addSep 0 1 .centre .east .ineq ⟨false, 10⟩]

/-- the stored pair is "tgt WEST of src by ≥ 10" (sign bit set), and `writeTglf` says `C W >=` -/
theorem flip_storage_history_witness_stored :
    witnessAfter.lookup (0, 1) = some
      { src := 0, tgt := 1, xgt := .centre, xst := .ineq, xgap := ⟨true, 10⟩,
        ygt := .centre, yst := .eq, ygap := ⟨false, 0⟩, flippedRetrieval := true } ∧
    (witnessAfter.writeTglf.map (·.map fun l => (l.src, l.tgt, l.gt, l.dir, l.isEq)))
      = some [(0, 1, .centre, .W, false)] := by
  decide

/-- what the code as it stands stores for the opposite request under (1, 0):
    `addSep(1, 0, CENTRE, WEST, INEQ, 10)` -/
def witnessAfterFlipped : SepMatrix :=
  runOps false witnessState [.addSep 1 0 .centre .west .ineq ⟨false, 10⟩]

/-- the requested constraint "1 is EAST of 0 by ≥ 10" is satisfied by 0 at (0,0), 1 at (10,0) —
    the stored one is not: the code as it stands violates the history version of flip storage -/
theorem flip_storage_history_witness :
    ∃ m₁ m₂, witnessState.addSep false 0 1 .centre .east .ineq ⟨false, 10⟩ = some m₁ ∧
      witnessState.addSep false 1 0 .centre .west .ineq ⟨false, 10⟩ = some m₂ ∧
      ¬ MatrixEquiv m₁ m₂ := by
  refine ⟨witnessAfter, witnessAfterFlipped, by decide, by decide, ?_⟩
  intro h
  have h1 := h (0, 1) ⟨0, 0, 1, 1, 10, 0, 1, 1⟩
  have l1 : witnessAfter.lookup (0, 1) = some
      { src := 0, tgt := 1, xgt := .centre, xst := .ineq, xgap := ⟨true, 10⟩,
        ygt := .centre, yst := .eq, ygap := ⟨false, 0⟩, flippedRetrieval := true } := by decide
  have l2 : witnessAfterFlipped.lookup (0, 1) = some
      { src := 0, tgt := 1, xgt := .centre, xst := .ineq, xgap := ⟨false, 10⟩,
        ygt := .centre, yst := .eq, ygap := ⟨false, 0⟩, flippedRetrieval := true } := by decide
  have x1 : witnessAfter.extraBdryGap = 0 := by decide
  have x2 : witnessAfterFlipped.extraBdryGap = 0 := by decide
  rw [l1, l2, x1, x2] at h1
  simp [SatOpt, Sat, conHolds, genCon, SZ.signbit, SZ.toRat, SZ.neg_def] at h1
  exact absurd h1 (by decide)

/-- Second trigger, confirmed on the C++ as well: `checkSepPair` (behind the read-only queries
    `getCardinalDir`, `areHAligned`, `areVAligned`) writes the flag into the *stored* pair. After
    `addSep(0,1,C,EAST,≥,5); getCardinalDir(1,0)` the request `addSep(0,1,C,EAST,≥,10)` — same
    orientation as the one that created the pair — is stored as `W ≥ 10`. -/
theorem flip_storage_query_witness :
    (runOps false .empty
      [.addSep 0 1 .centre .east .ineq ⟨false, 5⟩, .getCardinalDir 1 0,
       .addSep 0 1 .centre .east .ineq ⟨false, 10⟩]).lookup (0, 1) = some
      { src := 0, tgt := 1, xgt := .centre, xst := .ineq, xgap := ⟨true, 10⟩,
        ygt := .centre, yst := .eq, ygap := ⟨false, 0⟩, flippedRetrieval := true } ∧
    (runOps true .empty
      [.addSep 0 1 .centre .east .ineq ⟨false, 5⟩, .getCardinalDir 1 0,
       .addSep 0 1 .centre .east .ineq ⟨false, 10⟩]).lookup (0, 1) = some
      { src := 0, tgt := 1, xgt := .centre, xst := .ineq, xgap := ⟨false, 10⟩,
        ygt := .centre, yst := .eq, ygap := ⟨false, 0⟩, flippedRetrieval := false } := by
  decide

/-- hence the history statement is false for the flag semantics as coded -/
theorem flip_storage_history_false_as_coded :
    ¬ ∀ (m : SepMatrix) (a b : Nat), a ≠ b → ∀ (gt : GapType) (sd : SepDir) (st : SepType) (g : SZ),
      ∃ m₁ m₂, m.addSep false a b gt sd st g = some m₁ ∧
        m.addSep false b a gt (negateSepDir sd) st g = some m₂ ∧ MatrixEquiv m₁ m₂ := by
  intro h
  obtain ⟨m₁, m₂, h₁, h₂, he⟩ := h witnessState 0 1 (by decide) .centre .east .ineq ⟨false, 10⟩
  obtain ⟨n₁, n₂, k₁, k₂, hn⟩ := flip_storage_history_witness
  rw [h₁] at k₁
  have k₂' : witnessState.addSep false 1 0 .centre (negateSepDir .east) .ineq ⟨false, 10⟩ = some n₂ := k₂
  rw [h₂] at k₂'
  cases k₁; cases k₂'
  exact hn he

/-- (4) for the repaired `getSepPair` (flag written on every retrieval): in **every** matrix state,
    storing under (a,b) and storing the opposite direction under (b,a) are observationally
    equivalent. Ready for the day the fix lands (`IMPL_FLAG = "fixed"` in check/props/C18.py). -/
theorem flip_storage_history (m : SepMatrix) (a b : Nat) (hab : a ≠ b) (gt : GapType) (sd : SepDir)
    (st : SepType) (g : SZ) :
    ∃ m₁ m₂, m.addSep true a b gt sd st g = some m₁ ∧
      m.addSep true b a gt (negateSepDir sd) st g = some m₂ ∧ MatrixEquiv m₁ m₂ :=
  flip_storage_fixed m a b hab gt sd st g

/-- non-vacuity: the repaired semantics on the very state of the witness -/
example : ∃ m₁ m₂, witnessState.addSep true 0 1 .centre .east .ineq ⟨false, 10⟩ = some m₁ ∧
    witnessState.addSep true 1 0 .centre .west .ineq ⟨false, 10⟩ = some m₂ ∧ MatrixEquiv m₁ m₂ :=
  flip_storage_history witnessState 0 1 (by decide) .centre .east .ineq ⟨false, 10⟩

/-! ## (5) TGLF round trip -/

/-- For every stored pair (`src < tgt`, the SepMatrix invariant) whose gaps — and the matrix's extra
    boundary gap, which is non-negative — are multiples of `10^-tglfPrecision`: if `writeTglf`
    produces lines (it throws only for the "constrained to coincide" pair), the SEPCO reader applied
    to exactly these lines on a fresh graph (extra gap 0; either flag semantics) stores a pair that
    the same placements satisfy. Covers the `C X == 0` / `C Y == 0` forms, cardinal and lateral
    letters, BDRY gaps with the extra gap folded into the written number, and ±0 gaps. -/
theorem tglf_roundtrip (fixedFlag : Bool) (sp : SepPair) (extra : Rat) (ls : List TglfLine)
    (hlt : sp.src < sp.tgt)
    (hx : IsMultipleOfPrec sp.tglfPrecision sp.xgap) (hy : IsMultipleOfPrec sp.tglfPrecision sp.ygap)
    (he : RatMultiple sp.tglfPrecision extra)
    (hw : sp.writeTglf extra = some ls) :
    ∃ m, readSepcos fixedFlag ls = some m ∧ m.extraBdryGap = 0 ∧
      ∀ pl, SatOpt 0 (m.lookup (sp.src, sp.tgt)) pl ↔ Sat extra sp pl :=
  tglf_roundtrip' fixedFlag sp extra ls hlt hx hy he hw

/-- "17 lies WEST of 4 by at least 200.5 between boundaries" (with extra gap 1.5 in the matrix) -/
def roundtripExample : SepPair :=
  { src := 4, tgt := 17, xgt := .bdry, xst := .ineq, xgap := ⟨true, 401 / 2⟩,
    ygt := .centre, yst := .eq, ygap := ⟨true, 0⟩ }

/-- non-vacuity: the example is written (as one line) and all hypotheses hold -/
example : (∃ ls, roundtripExample.writeTglf (3 / 2) = some ls) ∧
    roundtripExample.src < roundtripExample.tgt ∧
    IsMultipleOfPrec 3 roundtripExample.xgap ∧ IsMultipleOfPrec 3 roundtripExample.ygap ∧
    RatMultiple 3 (3 / 2) := by
  refine ⟨?_, by decide, ?_, ?_, ?_⟩
  · simp [roundtripExample, SepPair.writeTglf, SZ.isZero, SZ.signbit]
  · exact ⟨200500, by norm_num [pow10, roundtripExample]⟩
  · exact ⟨0, by norm_num [pow10, roundtripExample]⟩
  · exact ⟨1500, by norm_num [pow10]⟩

-- the theorem instantiated on the example (written lines exist, are read back, and the stored pair is equivalent)
example : ∃ ls m, roundtripExample.writeTglf (3 / 2) = some ls ∧ readSepcos false ls = some m ∧
    ∀ pl, SatOpt 0 (m.lookup (4, 17)) pl ↔ Sat (3 / 2) roundtripExample pl := by
  have hw : ∃ ls, roundtripExample.writeTglf (3 / 2) = some ls := by
    simp [roundtripExample, SepPair.writeTglf, SZ.isZero, SZ.signbit]
  obtain ⟨ls, hls⟩ := hw
  obtain ⟨m, h1, _, h3⟩ := tglf_roundtrip false roundtripExample (3 / 2) ls (by decide)
    ⟨200500, by norm_num [pow10, roundtripExample]⟩ ⟨0, by norm_num [pow10, roundtripExample]⟩
    ⟨1500, by norm_num [pow10, roundtripExample]⟩ hls
  exact ⟨ls, m, hls, h1, h3⟩

/-- Matrix level. For every well-formed matrix (`MatrixOK`: no two records under one key, every
    record filed under `(src, tgt)` with `src < tgt`, gaps and the extra boundary gap multiples of
    `10^-tglfPrecision` of the record): if `SepMatrix::writeTglf` produces the SEPCO lines `ls`, then
    `readSepcos` on an empty matrix (a fresh graph, extra gap 0; either flag semantics) accepts them
    and the matrix read back is `MatrixEquiv` to the original: for every id pair the same placements
    satisfy both (records without any constraint are simply absent after the round trip).
    Every matrix reachable by an `Op` history satisfies the structural part of `MatrixOK`
    (`reachable_structOK`); the multiples part is a hypothesis on the values. -/
theorem tglf_roundtrip_matrix (fixedFlag : Bool) (m : SepMatrix) (hm : MatrixOK m) (ls : List TglfLine)
    (hw : m.writeTglf = some ls) :
    ∃ m', readSepcos fixedFlag ls = some m' ∧ m'.extraBdryGap = 0 ∧ MatrixEquiv m' m :=
  tglf_roundtrip_matrix' fixedFlag m hm ls hw

/-- Every state reachable from the empty matrix by any `Op` history (17 operation kinds, either flag
    semantics) is sorted by key and files each record under its own `(src, tgt)` with `src < tgt`. -/
theorem reachable_structOK (fixedFlag : Bool) (ops : List Op) : StructOK (runOps fixedFlag .empty ops) :=
  reachable_structOK' fixedFlag ops

/-- The matrix-level round trip for every reachable state whose stored values are multiples of
    `10^-precision` (`ValuesOK`). -/
theorem tglf_roundtrip_reachable (histFlag readFlag : Bool) (ops : List Op)
    (hv : ValuesOK (runOps histFlag .empty ops)) (ls : List TglfLine)
    (hw : (runOps histFlag .empty ops).writeTglf = some ls) :
    ∃ m', readSepcos readFlag ls = some m' ∧ m'.extraBdryGap = 0 ∧
      MatrixEquiv m' (runOps histFlag .empty ops) :=
  tglf_roundtrip_matrix readFlag _ (matrixOK_of_structOK _ (reachable_structOK histFlag ops) hv) ls hw

/-- a two-record history with extra gap 2: "1 WEST of 0, boundaries ≥ 200 apart" (addressed in
    reverse), "2 below-right of 0" -/
def roundtripHistory : List Op :=
  [.setExtraBdryGap 2, .addSep 1 0 .bdry .east .ineq ⟨false, 200⟩,
   .addSep 0 2 .centre .right .ineq ⟨false, 7⟩, .addSep 0 2 .bdry .down .eq ⟨true, 0⟩]

-- non-vacuity of tglf_roundtrip_reachable AND tglf_roundtrip_matrix: the history's state (two records) has the values
-- property, is `MatrixOK`, and is written
example : ValuesOK (runOps true .empty roundtripHistory) ∧ MatrixOK (runOps true .empty roundtripHistory) ∧
    (runOps true .empty roundtripHistory).pairs.length = 2 ∧
    ∃ ls, (runOps true .empty roundtripHistory).writeTglf = some ls := by
  have hp : (runOps true .empty roundtripHistory).pairs =
      [((0, 1), { src := 0, tgt := 1, xgt := .bdry, xst := .ineq, xgap := ⟨true, 200⟩, ygt := .centre,
                  yst := .eq, ygap := ⟨false, 0⟩, flippedRetrieval := true }),
       ((0, 2), { src := 0, tgt := 2, xgt := .centre, xst := .ineq, xgap := ⟨false, 7⟩, ygt := .bdry,
                  yst := .eq, ygap := ⟨true, 0⟩, flippedRetrieval := false })] := by decide
  have he : (runOps true .empty roundtripHistory).extraBdryGap = 2 := by decide
  have hv : ValuesOK (runOps true .empty roundtripHistory) := by
    intro e hmem
    rw [hp] at hmem
    rw [he]
    simp only [List.mem_cons, List.not_mem_nil, or_false] at hmem
    rcases hmem with rfl | rfl
    · exact ⟨⟨200000, by norm_num [pow10]⟩, ⟨0, by norm_num [pow10]⟩, ⟨2000, by norm_num [pow10]⟩⟩
    · exact ⟨⟨7000, by norm_num [pow10]⟩, ⟨0, by norm_num [pow10]⟩, ⟨2000, by norm_num [pow10]⟩⟩
  refine ⟨hv, matrixOK_of_structOK _ (reachable_structOK true roundtripHistory) hv, by rw [hp]; rfl, ?_⟩
  rw [writeTglf_eq_writeL, hp, he]
  simp [writeL, SepPair.writeTglf, SZ.isZero, SZ.signbit]

end AdaptaVerif.Props.C18
