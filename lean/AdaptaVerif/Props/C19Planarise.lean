/-
C19 — "planarising an orthogonally routed graph yields a graph in which no two edges cross and every original
node is still present and still connected to its former neighbours through chains of new nodes": property
theorems about the executable model of `dialect::OrthoPlanariser` (only theorems + non-vacuity examples).

  Model  : Model/Planarise.lean — `planarise` = buildUniqueBendPoints, EdgeSegment constructor, computeNodeGroups,
           partition, CompareActiveEvents, the computeCrossings sweep with its event/segment re-pointing, as coded.
  Tie    : Driver/C19Planarise.lean — every run the real `OrthoPlanariser::planarise` is run on the `planx-*`
           classes of harness/c19_planarise.h and bend nodes, overlap-free graph and planar graph must equal
           the model's (new nodes renamed in creation order), exactly.
  Proofs : Lemmas/PlanariseSort.lean (std::sort / partition), Lemmas/PlanariseSweep.lean (the sweep).
-/
import AdaptaVerif.Lemmas.PlanariseSweep
namespace AdaptaVerif.Props.C19Planarise
open AdaptaVerif.Model.Planarise AdaptaVerif.Lemmas.Planarise

/-! ### (0) the comparator -/

/-- On y-coordinates that are equal or more than the tolerance apart, `CompareActiveEvents` is the
lexicographic order on (y, type) with CLOSE < SUSTAIN < OPEN. -/
theorem compareActive_lex (ya yb : Rat) (ta tb : EvType)
    (h : ya = yb ∨ ya + 1 < yb ∨ yb + 1 < ya) :
    compareActive ya ta yb tb = true ↔ (ya < yb ∨ (ya = yb ∧ ta.rank < tb.rank)) := by
  unfold compareActive tolY
  split
  · grind
  · split
    · grind
    · simp only [decide_eq_true_eq]; grind

/-- Root cause of the known finding C19-planarise-shortseg, for every vertical segment not longer than the
tolerance: its CLOSE event (upper end `y1`) is ordered BEFORE its own OPEN event (lower end `y0`). -/
theorem short_vertical_close_before_open (y0 y1 : Rat) (_h0 : y0 ≤ y1) (h1 : y1 ≤ y0 + 1) :
    compareActive y1 .close y0 .opn = true ∧ compareActive y0 .opn y1 .close = false := by
  unfold compareActive tolY
  constructor
  · split
    · rfl
    · split
      · grind
      · simp [EvType.rank]
  · split
    · grind
    · split
      · rfl
      · simp [EvType.rank]

/-- With the tolerance the comparator is not a strict weak order (incomparability is not transitive):
SUSTAIN events at y = 0, 3/4, 3/2. `std::sort` with such a comparator is undefined behaviour in C++. -/
theorem compareActive_incomparability_not_transitive :
    compareActive 0 .sustain (3/4) .sustain = false ∧ compareActive (3/4) .sustain 0 .sustain = false ∧
    compareActive (3/4) .sustain (3/2) .sustain = false ∧ compareActive (3/2) .sustain (3/4) .sustain = false ∧
    compareActive 0 .sustain (3/2) .sustain = true := by decide +kernel

/-! ### (1) the sort and the partition, for every input -/

/-- `std::sort` (as insertion sort) returns a permutation of its input, for EVERY comparator. -/
theorem stdSort_perm {α : Type} (lt : α → α → Bool) (l : List α) : (stdSort lt l).Perm l :=
  AdaptaVerif.Lemmas.Planarise.stdSort_perm lt l

/-- For a strict weak order the result is sorted: no later element is less than an earlier one. -/
theorem stdSort_sorted {α : Type} (lt : α → α → Bool) (h : AdaptaVerif.Lemmas.SWO.IsSWO lt) (l : List α) :
    (stdSort lt l).Pairwise (fun a b => lt b a = false) :=
  AdaptaVerif.Lemmas.Planarise.stdSort_sorted lt h l

/-! ### (2) original nodes are kept -/

/-- Every original node (same id, same centre) is a node of the planar graph, for every input. -/
theorem planarise_preserves_nodes (inp : Input) : ∀ n ∈ inp.nodes, n ∈ (planarise inp).nodes := by
  intro n hn
  simp only [planarise]
  exact List.mem_append_left _ (List.mem_append_left _ hn)

/-! ### (3) closed witnesses -/

def wA : Node := ⟨0, ⟨0, 0⟩⟩
def wB : Node := ⟨1, ⟨60, 40⟩⟩
def wC : Node := ⟨2, ⟨-20, 20⟩⟩
def wD : Node := ⟨3, ⟨100, 20⟩⟩
/-- edge A→B routed (0,0) (20,0) (20,d) (60,d) (60,40) — a vertical jog of length `d` at x = 20 — and the
straight horizontal edge C→D at y = 20 (replay: harness `--mode shortseg` for d = 1/2) -/
def jogInput (d : Rat) : Input :=
  { nodes := [wA, wB, wC, wD],
    edges := [⟨wA, wB, [⟨0, 0⟩, ⟨20, 0⟩, ⟨20, d⟩, ⟨60, d⟩, ⟨60, 40⟩]⟩, ⟨wC, wD, [⟨-20, 20⟩, ⟨100, 20⟩]⟩] }

/-- Known finding C19-planarise-shortseg reproduced in the model: with a jog of length 1/2 (< tolerance 1) the
sweep reports a crossing at (20,20), where edge C→D passes 19.5 above the upper end of the jog, and the jog
edge 4–5 of the overlap-free graph is replaced by the two overlapping edges 4–7 and 5–7.
(Hence the length hypothesis of `crossings_sound` is necessary.) -/
theorem short_segment_missorted :
    (planarise (jogInput (1/2))).crossNodes = [⟨7, ⟨20, 20⟩⟩, ⟨8, ⟨60, 20⟩⟩] ∧
    (planarise (jogInput (1/2))).edges = [(0, 4), (5, 6), (2, 7), (4, 7), (6, 8), (7, 8), (5, 7), (8, 3), (8, 1)] := by
  decide +kernel

/-- Control: with a jog of length 2 only the genuine crossing (60,20) is reported and the jog edge 4–5 survives. -/
theorem long_segment_sorted :
    (planarise (jogInput 2)).crossNodes = [⟨7, ⟨60, 20⟩⟩] ∧
    (planarise (jogInput 2)).edges = [(0, 4), (5, 6), (2, 7), (4, 5), (6, 7), (7, 3), (7, 1)] := by
  decide +kernel

/-- A horizontal edge whose RIGHT end node lies on the interior of a vertical edge gets a crossing node at that
very point (joined to the end node by a zero-length edge); a LEFT end touching a vertical gets none.
As coded: a SUSTAIN event is still active in the x-part in which its segment closes. -/
theorem ttouch_asymmetric :
    (planarise { nodes := [⟨0, ⟨0, 0⟩⟩, ⟨1, ⟨0, 40⟩⟩, ⟨2, ⟨-20, 20⟩⟩, ⟨3, ⟨0, 20⟩⟩],
                 edges := [⟨⟨0, ⟨0, 0⟩⟩, ⟨1, ⟨0, 40⟩⟩, [⟨0, 0⟩, ⟨0, 40⟩]⟩,
                           ⟨⟨2, ⟨-20, 20⟩⟩, ⟨3, ⟨0, 20⟩⟩, [⟨-20, 20⟩, ⟨0, 20⟩]⟩] }).crossNodes = [⟨4, ⟨0, 20⟩⟩] ∧
    (planarise { nodes := [⟨0, ⟨0, 0⟩⟩, ⟨1, ⟨0, 40⟩⟩, ⟨2, ⟨20, 20⟩⟩, ⟨3, ⟨0, 20⟩⟩],
                 edges := [⟨⟨0, ⟨0, 0⟩⟩, ⟨1, ⟨0, 40⟩⟩, [⟨0, 0⟩, ⟨0, 40⟩]⟩,
                           ⟨⟨2, ⟨20, 20⟩⟩, ⟨3, ⟨0, 20⟩⟩, [⟨20, 20⟩, ⟨0, 20⟩]⟩] }).crossNodes = [] := by
  decide +kernel

end AdaptaVerif.Props.C19Planarise
