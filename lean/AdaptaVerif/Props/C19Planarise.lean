/-
C19 — "planarising an orthogonally routed graph yields a graph in which no two edges cross and every original
node is still present and still connected to its former neighbours through chains of new nodes": property
theorems about the executable model of `dialect::OrthoPlanariser` (only theorems + non-vacuity examples).

  Model  : Model/Planarise.lean — `planarise` = buildUniqueBendPoints, EdgeSegment constructor, computeNodeGroups,
           partition, CompareActiveEvents, the computeCrossings sweep with its event/segment re-pointing, as coded.
  Tie    : Driver/C19Planarise.lean — every run the real `OrthoPlanariser::planarise` is run on the `planx-*`
           classes of harness/c19_planarise.h and bend nodes, overlap-free graph and planar graph must equal
           the model's (new nodes renamed in creation order), exactly.
  Proofs : Lemmas/PlanariseSort.lean (std::sort, partition), PlanariseSweep.lean (tracking invariant, one event role by
           role, one x-part, the whole sweep), PlanariseGood.lean (decidable hypothesis), PlanariseConn(Sweep).lean (cuts preserve
           connections, tail tracking), PlanariseNoCross(Sweep).lean (piece geometry, no crossing node inside a piece).

What is proved about the code as modelled (section numbers below):
  (0)–(1) the comparator, `std::sort`, for all inputs;  (2) original nodes kept, all inputs;
  (3)–(5) the crossing sweep `computeCrossings` on ALL segment lists satisfying `Good`: reported crossings = the sweep
          condition (sound + complete), connections survive, no two result edges cross;
  (6)     the whole `planarise` from the route segments on, hypothesis `GoodA` (collinear route segments may overlap);
  (7)     the whole `planarise` on the raw input, hypothesis `SepInput ∧ NoCentreInside` (decidable `sepInputB`):
          no two edges cross; every node kept; every edge realised by a chain of bend / crossing nodes only
          (`…_partial`: "in route order" is not part of the statement);
  (8)     closed witnesses: the length hypothesis is necessary (known finding C19-planarise-shortseg, both faces), the
          asymmetric treatment of T-touches.
Every hypothesis has an executable form (`goodB`, `goodAB`, `sepInputB`) with a soundness theorem; the driver evaluates the
conclusions on the LIBRARY's output whenever the executable hypothesis holds.
-/
import AdaptaVerif.Lemmas.PlanariseSweep
import AdaptaVerif.Lemmas.PlanariseGood
import AdaptaVerif.Lemmas.PlanariseConnSweep
import AdaptaVerif.Lemmas.PlanariseNoCrossSweep
import AdaptaVerif.Lemmas.PlanarisePipeline
import AdaptaVerif.Lemmas.PlanariseInputB
namespace AdaptaVerif.Props.C19Planarise
open AdaptaVerif.Model.Planarise AdaptaVerif.Lemmas.Planarise AdaptaVerif.Check.Planarise

def wA : Node := ⟨0, ⟨0, 0⟩⟩
def wB : Node := ⟨1, ⟨60, 40⟩⟩
def wC : Node := ⟨2, ⟨-20, 20⟩⟩
def wD : Node := ⟨3, ⟨100, 20⟩⟩

/-! ### (0) the comparator -/

/-- On y-coordinates that are equal or more than the tolerance apart, `CompareActiveEvents` is the
lexicographic order on (y, type) with CLOSE < SUSTAIN < OPEN. -/
theorem compareActive_lex (ya yb : Rat) (ta tb : EvType)
    (h : ya = yb ∨ ya + 1 < yb ∨ yb + 1 < ya) :
    compareActive ya ta yb tb = true ↔ (ya < yb ∨ (ya = yb ∧ ta.rank < tb.rank)) := by
  unfold compareActive tolY
  split
  · grind
  · split
    · grind
    · simp only [decide_eq_true_eq]; grind

/-- Root cause of the known finding C19-planarise-shortseg, for every vertical segment not longer than the
tolerance: its CLOSE event (upper end `y1`) is ordered BEFORE its own OPEN event (lower end `y0`). -/
theorem short_vertical_close_before_open (y0 y1 : Rat) (_h0 : y0 ≤ y1) (h1 : y1 ≤ y0 + 1) :
    compareActive y1 .close y0 .opn = true ∧ compareActive y0 .opn y1 .close = false := by
  unfold compareActive tolY
  constructor
  · split
    · rfl
    · split
      · grind
      · simp [EvType.rank]
  · split
    · grind
    · split
      · rfl
      · simp [EvType.rank]

/-- With the tolerance the comparator is not a strict weak order (incomparability is not transitive):
SUSTAIN events at y = 0, 3/4, 3/2. `std::sort` with such a comparator is undefined behaviour in C++. -/
theorem compareActive_incomparability_not_transitive :
    compareActive 0 .sustain (3/4) .sustain = false ∧ compareActive (3/4) .sustain 0 .sustain = false ∧
    compareActive (3/4) .sustain (3/2) .sustain = false ∧ compareActive (3/2) .sustain (3/4) .sustain = false ∧
    compareActive 0 .sustain (3/2) .sustain = true := by decide +kernel

/-! ### (1) the sort and the partition, for every input -/

/-- `std::sort` (as insertion sort) returns a permutation of its input, for EVERY comparator. -/
theorem stdSort_perm {α : Type} (lt : α → α → Bool) (l : List α) : (stdSort lt l).Perm l :=
  AdaptaVerif.Lemmas.Planarise.stdSort_perm lt l

/-- For a strict weak order the result is sorted: no later element is less than an earlier one. -/
theorem stdSort_sorted {α : Type} (lt : α → α → Bool) (h : AdaptaVerif.Lemmas.SWO.IsSWO lt) (l : List α) :
    (stdSort lt l).Pairwise (fun a b => lt b a = false) :=
  AdaptaVerif.Lemmas.Planarise.stdSort_sorted lt h l

-- non-vacuity of stdSort_sorted: strict weak orders exist (`<` on Nat)
example : AdaptaVerif.Lemmas.SWO.IsSWO (fun a b : Nat => decide (a < b)) :=
  ⟨by simp, by simp; omega, by simp; omega⟩

/-! ### (2) original nodes are kept -/

/-- Every original node (same id, same centre) is a node of the planar graph, for every input. -/
theorem planarise_preserves_nodes (inp : Input) : ∀ n ∈ inp.nodes, n ∈ (planarise inp).nodes := by
  intro n hn
  simp only [planarise]
  exact List.mem_append_left _ (List.mem_append_left _ hn)


/-! ### (3) the sweep `computeCrossings` is sound and complete

Hypothesis `Good S` (Lemmas/PlanariseSweep.lean; decidable form `goodB`, evaluated by the driver on the segment list
the LIBRARY built from its overlap-free graph): every segment is axis-parallel, of positive length and stored as the
`EdgeSegment` constructor stores it; any two x-coordinates (any two y-coordinates) of segment ends are equal or MORE
THAN 1 APART (1 = the largest tolerance: in particular every segment is longer than the comparator's tolerance);
two segments on one line do not overlap (they may share an end).  All three parts are needed: `short_segment_missorted`
(length), and an overlap of verticals would overwrite the single `openV` pointer.

The condition the sweep implements is  h.lo < v.cc ≤ h.hi  ∧  v.lo < h.cc < v.hi : it is a proper crossing, OR the
right end of the horizontal lies on the interior of the vertical (`ttouch_asymmetric`: a SUSTAIN event is still active
in the x-part in which its segment closes). -/

/-- the condition under which the sweep reports a crossing of horizontal `h` and vertical `v` -/
def SweepCross (h v : Seg) : Prop :=
  h.ori = .H ∧ v.ori = .V ∧ h.lo < v.cc ∧ v.cc ≤ h.hi ∧ v.lo < h.cc ∧ h.cc < v.hi

/-- `h` and `v` properly cross (the open segments meet transversally) -/
def ProperCross (h v : Seg) : Prop :=
  h.ori = .H ∧ v.ori = .V ∧ h.lo < v.cc ∧ v.cc < h.hi ∧ v.lo < h.cc ∧ h.cc < v.hi

/-- **Soundness**, all segment lists: every crossing node lies at the meeting point of a horizontal and a vertical
segment of the input that satisfy the sweep condition. -/
theorem crossings_sound (S : List Seg) (nextId : Nat) (hG : Good S) :
    ∀ c ∈ (computeCrossings S nextId).cross, ∃ h ∈ S, ∃ v ∈ S, SweepCross h v ∧ c.p = ⟨v.cc, h.cc⟩ := by
  intro c hc
  obtain ⟨i, k, si, sk, a, b, h1, h2, h3, h4, h5, h6, h7⟩ :=
    (computeCrossings_spec hG nextId c.p).1 (List.mem_map.2 ⟨c, hc, rfl⟩)
  exact ⟨si, List.mem_of_getElem? a, sk, List.mem_of_getElem? b, ⟨h1, h2, h3, h4, h5, h6⟩, h7⟩

/-- **Completeness**, all segment lists: every pair satisfying the sweep condition gets a crossing node at its meeting point. -/
theorem crossings_complete (S : List Seg) (nextId : Nat) (hG : Good S) :
    ∀ h ∈ S, ∀ v ∈ S, SweepCross h v → ∃ c ∈ (computeCrossings S nextId).cross, c.p = ⟨v.cc, h.cc⟩ := by
  intro h hh v hv ⟨h1, h2, h3, h4, h5, h6⟩
  obtain ⟨i, hi⟩ := List.getElem?_of_mem hh
  obtain ⟨k, hk⟩ := List.getElem?_of_mem hv
  have := (computeCrossings_spec hG nextId ⟨v.cc, h.cc⟩).2 ⟨i, k, h, v, hi, hk, h1, h2, h3, h4, h5, h6, rfl⟩
  obtain ⟨c, hc, hcp⟩ := List.mem_map.1 this
  exact ⟨c, hc, hcp⟩

/-- If no horizontal segment ends (right end) on the interior of a vertical one, the reported points are exactly the
proper crossings. -/
theorem crossings_iff_proper (S : List Seg) (nextId : Nat) (hG : Good S)
    (hT : ∀ h ∈ S, ∀ v ∈ S, h.ori = .H → v.ori = .V → ¬ (h.hi = v.cc ∧ v.lo < h.cc ∧ h.cc < v.hi)) (p : Pt) :
    p ∈ (computeCrossings S nextId).cross.map (·.p) ↔ ∃ h ∈ S, ∃ v ∈ S, ProperCross h v ∧ p = ⟨v.cc, h.cc⟩ := by
  constructor
  · intro hp
    obtain ⟨c, hc, rfl⟩ := List.mem_map.1 hp
    obtain ⟨h, hh, v, hv, ⟨h1, h2, h3, h4, h5, h6⟩, hcp⟩ := crossings_sound S nextId hG c hc
    refine ⟨h, hh, v, hv, ⟨h1, h2, h3, ?_, h5, h6⟩, hcp⟩
    have := hT h hh v hv h1 h2
    grind
  · rintro ⟨h, hh, v, hv, ⟨h1, h2, h3, h4, h5, h6⟩, rfl⟩
    obtain ⟨c, hc, hcp⟩ := crossings_complete S nextId hG h hh v hv ⟨h1, h2, h3, Rat.le_of_lt h4, h5, h6⟩
    exact List.mem_map.2 ⟨c, hc, hcp⟩

/-- the executable test the driver applies is sound for the hypothesis -/
theorem goodB_sound (S : List Seg) (h : goodB S = true) : Good S := AdaptaVerif.Lemmas.Planarise.goodB_sound h

/-- non-vacuity: a 3×2 grid (three horizontals crossed by two verticals) satisfies the hypothesis, and the sweep
reports its six crossings -/
def gridSegs : List Seg :=
  [mkSeg ⟨0, ⟨0, 0⟩⟩ ⟨1, ⟨30, 0⟩⟩, mkSeg ⟨2, ⟨0, 10⟩⟩ ⟨3, ⟨30, 10⟩⟩, mkSeg ⟨4, ⟨0, 20⟩⟩ ⟨5, ⟨30, 20⟩⟩,
   mkSeg ⟨6, ⟨10, -5⟩⟩ ⟨7, ⟨10, 25⟩⟩, mkSeg ⟨8, ⟨20, -5⟩⟩ ⟨9, ⟨20, 25⟩⟩]
example : Good gridSegs := goodB_sound _ (by decide +kernel)
example : ((computeCrossings gridSegs 10).cross.map (·.p)).length = 6 := by decide +kernel
-- non-vacuity of crossings_iff_proper: the grid also satisfies the no-T-touch hypothesis `hT` (jointly with `Good`), and
-- the equivalence is not between two empty sides: (10, 0) is a reported point
example : ∀ h ∈ gridSegs, ∀ v ∈ gridSegs, h.ori = .H → v.ori = .V → ¬ (h.hi = v.cc ∧ v.lo < h.cc ∧ h.cc < v.hi) := by
  decide +kernel
example : (⟨10, 0⟩ : Pt) ∈ (computeCrossings gridSegs 10).cross.map (·.p) := by decide +kernel


/-! ### (4) connections survive the cuts

`Joined segs a b`: some segment of `segs` has end nodes `a` and `b`.  `ChainVia segs new a mids b`: the nodes
`a, mids…, b` are consecutively joined and every intermediate node is in `new`. -/

/-- One cut (the SUSTAIN arm of the sweep: `setNewClosingNode` on both segments + two continuation segments)
preserves every connection, for ALL states: if the two cut segments end at `c1`, `c2` and the continuation
segments are built from (cr, c1), (cr, c2), whatever was joined is still joined, directly or through `cr`. -/
theorem cut_preserves_connections (segs : List Seg) (a1 a2 : Nat) (t1 t2 : Seg) (cr : Node)
    (h1 : segs[a1]? = some t1) (h2 : segs[a2]? = some t2) (hne : a1 ≠ a2) (new : List Node) (a b : Node)
    (h : Reach segs new a b) :
    Reach (((segs.set a1 (t1.setNewClosing cr)).set a2 (t2.setNewClosing cr)) ++ [mkSeg cr t1.cn] ++ [mkSeg cr t2.cn])
      (cr :: new) a b :=
  reach_reroute (fun _ _ hj => joined_cross h1 h2 hne rfl rfl hj) h

-- non-vacuity of cut_preserves_connections: the hypotheses hold jointly on the grid (cut of horizontal 0 and vertical 3,
-- the connection 0–1 of the horizontal)
example : gridSegs[0]? = some (mkSeg ⟨0, ⟨0, 0⟩⟩ ⟨1, ⟨30, 0⟩⟩) ∧ gridSegs[3]? = some (mkSeg ⟨6, ⟨10, -5⟩⟩ ⟨7, ⟨10, 25⟩⟩) ∧
    (0 : Nat) ≠ 3 ∧ Reach gridSegs [] ⟨0, ⟨0, 0⟩⟩ ⟨1, ⟨30, 0⟩⟩ := by
  refine ⟨by decide +kernel, by decide +kernel, by decide,
    Reach.edge ⟨mkSeg ⟨0, ⟨0, 0⟩⟩ ⟨1, ⟨30, 0⟩⟩, by decide +kernel, ?_⟩⟩
  left; constructor <;> decide +kernel

/-- **Connections, crossing-removal stage, all segment lists.**  After `computeCrossings` every segment of the input
(= every edge of the overlap-free graph) is still connected end to end by a chain of final segments whose intermediate
nodes are all crossing nodes created by the sweep.  (Whole pipeline: section 7.) -/
theorem sweep_preserves_connections (S : List Seg) (nextId : Nat) (hG : Good S) :
    ∀ s ∈ S, ∃ mids : List Node, (∀ m ∈ mids, m ∈ (computeCrossings S nextId).cross) ∧
      Linked (computeCrossings S nextId).segs (s.on :: mids ++ [s.cn]) := by
  intro s hs
  obtain ⟨i, hi⟩ := List.getElem?_of_mem hs
  exact linked_of_reach (computeCrossings_reach hG nextId i s hi)

/-- input of `short_segment_disconnects`: the jog of `jogInput (1/2)` and two horizontal edges C→D (y = 20),
E→F (y = 30) that end at x = 40, left of the second vertical (replay: harness case `planx-jog-witness`) -/
def jogInput2 : Input :=
  { nodes := [wA, wB, ⟨2, ⟨-20, 20⟩⟩, ⟨3, ⟨40, 20⟩⟩, ⟨4, ⟨-20, 30⟩⟩, ⟨5, ⟨40, 30⟩⟩],
    edges := [⟨wA, wB, [⟨0, 0⟩, ⟨20, 0⟩, ⟨20, 1/2⟩, ⟨60, 1/2⟩, ⟨60, 40⟩]⟩,
              ⟨⟨2, ⟨-20, 20⟩⟩, ⟨3, ⟨40, 20⟩⟩, [⟨-20, 20⟩, ⟨40, 20⟩]⟩,
              ⟨⟨4, ⟨-20, 30⟩⟩, ⟨5, ⟨40, 30⟩⟩, [⟨-20, 30⟩, ⟨40, 30⟩]⟩] }

/-- The hypothesis is needed for the connections too (second face of the known finding): two spurious crossings on
the short jog re-close the REVERSED continuation segment, the jog edge 6–7 becomes 6–9, 7–10, 7–10, and the original
adjacency A–B is no longer realised by a chain of new nodes (`chainB` = the driver's check). -/
theorem short_segment_disconnects :
    (planarise jogInput2).edges = [(0, 6), (7, 8), (2, 9), (4, 10), (6, 9), (8, 1), (9, 3), (7, 10), (10, 5), (7, 10)] ∧
    chainB [0, 1, 2, 3, 4, 5] (planarise jogInput2).edges 0 1 = false := by
  decide +kernel


/-! ### (5) no two edges of the result cross -/

/-- **No crossing, crossing-removal stage, all segment lists**: after `computeCrossings` no horizontal piece `p` and
vertical piece `q` of the final segment list (one planar-graph edge each) cross transversally
(`PiecesCross p q`: the line of `q` strictly between the ends of `p` and the line of `p` strictly between the ends
of `q`).  Proof: every final piece lies inside one original segment (`piece_within`), a crossing of two pieces would
satisfy the sweep condition, so by completeness a crossing node sits there — but no crossing node lies strictly
inside a piece (invariant `Pc.ni`, kept by every cut).
This is the statement for `removeEdgeCrossings` on ANY segment list satisfying `Good`; the whole pipeline is
`planarise_no_crossing` (section 6) and `planarise_no_crossing_of_input` (section 7). -/
theorem sweep_no_crossing (S : List Seg) (nextId : Nat) (hG : Good S) :
    ∀ p ∈ (computeCrossings S nextId).segs, ∀ q ∈ (computeCrossings S nextId).segs, ¬ PiecesCross p q :=
  no_pieces_cross hG nextId

/-- every edge of the result is a sub-segment of one input segment (so parallel pieces can only touch or overlap
where the input segments did: never, by `Good`, except at shared ends) -/
theorem sweep_pieces_within (S : List Seg) (nextId : Nat) (hG : Good S) :
    ∀ t ∈ (computeCrossings S nextId).segs, ∃ s ∈ S,
      (s.ori = .H ∧ t.on.p.y = s.cc ∧ t.cn.p.y = s.cc ∧ s.lo ≤ t.on.p.x ∧ t.on.p.x ≤ s.hi ∧ s.lo ≤ t.cn.p.x ∧ t.cn.p.x ≤ s.hi) ∨
      (s.ori = .V ∧ t.on.p.x = s.cc ∧ t.cn.p.x = s.cc ∧ s.lo ≤ t.on.p.y ∧ t.on.p.y ≤ s.hi ∧ s.lo ≤ t.cn.p.y ∧ t.cn.p.y ≤ s.hi) := by
  intro t ht
  obtain ⟨j, sj, hsj, h⟩ := piece_within hG nextId t ht
  exact ⟨sj, List.mem_of_getElem? hsj, h⟩

/-- non-vacuity of `PiecesCross`: the two input segments of the grid do cross before the sweep -/
example : PiecesCross (mkSeg ⟨0, ⟨0, 0⟩⟩ ⟨1, ⟨30, 0⟩⟩) (mkSeg ⟨6, ⟨10, -5⟩⟩ ⟨7, ⟨10, 25⟩⟩) := by
  unfold PiecesCross; decide +kernel


/-! ### (6) the whole `planarise`, from the route segments on

`segsAOf inp` = the segments `buildSegments` makes from the routes after `buildUniqueBendPoints` (node centre to bend
node to … to node centre); `segsBOf inp` = the segments of the overlap-free graph handed to the sweep.
Hypothesis `GoodA (segsAOf inp)` (decidable form `goodAB`, evaluated by the driver): every route segment is axis-parallel
of positive length, end coordinates equal or more than 1 apart, and a node is identified by its position and by its id.
Collinear route segments MAY overlap, nest or abut — that is what `removeEdgeOverlaps` is for. -/

/-- `removeEdgeOverlaps` delivers what the sweep needs: the overlap-free graph is axis-parallel, separated and
overlap-free, for every input whose route segments satisfy `GoodA`. -/
theorem overlap_removal_good (inp : Input) (hA : GoodA (segsAOf inp)) : Good (segsBOf inp) := pipeline_good hA

/-- **Crossings of the whole pipeline**: the crossing nodes of `planarise inp` lie exactly at the points where a
horizontal and a vertical edge of the overlap-free graph satisfy the sweep condition. -/
theorem planarise_crossings (inp : Input) (hA : GoodA (segsAOf inp)) (p : Pt) :
    p ∈ (planarise inp).crossNodes.map (·.p) ↔
      ∃ h ∈ segsBOf inp, ∃ v ∈ segsBOf inp, SweepCross h v ∧ p = ⟨v.cc, h.cc⟩ := by
  obtain ⟨_, h2, _⟩ := planarise_segs inp
  rw [h2, List.map_reverse, List.mem_reverse]
  have hG := pipeline_good hA
  constructor
  · intro hp
    obtain ⟨c, hc, rfl⟩ := List.mem_map.1 hp
    exact crossings_sound _ _ hG c hc
  · rintro ⟨h, hh, v, hv, hs, rfl⟩
    obtain ⟨c, hc, hcp⟩ := crossings_complete _ _ hG h hh v hv hs
    exact List.mem_map.2 ⟨c, hc, hcp⟩

/-- **No two edges of `planarise inp` cross.** -/
theorem planarise_no_crossing (inp : Input) (hA : GoodA (segsAOf inp)) :
    ∀ p ∈ (planarise inp).segs, ∀ q ∈ (planarise inp).segs, ¬ PiecesCross p q := by
  rw [(planarise_segs inp).1]
  exact no_pieces_cross (pipeline_good hA) _

/-- **Every route segment of every edge is still connected end to end in `planarise inp`**, by a chain of planar-graph
edges whose intermediate nodes are crossing nodes or ends of route segments lying strictly inside this segment (on its
line, strictly between its ends).  Together with `planarise_preserves_nodes`, and since consecutive route segments of an
edge share their bend node, this is the clause "every original node is still present and still connected to its former
neighbours through chains of new nodes" — the intermediate segment ends are bend nodes, not original nodes, exactly when
no route passes through the centre of a third node (`NoCentreInside`; composed in section 7). -/
theorem planarise_preserves_connections (inp : Input) (hA : GoodA (segsAOf inp)) :
    ∀ s ∈ segsAOf inp, ∃ mids : List Node,
      (∀ m ∈ mids, m ∈ (planarise inp).crossNodes ∨
        ((∃ t ∈ segsAOf inp, m = t.on ∨ m = t.cn) ∧ ccOf s.ori m = s.cc ∧
          vcOf s.ori s.on < vcOf s.ori m ∧ vcOf s.ori m < vcOf s.ori s.cn)) ∧
      Linked (planarise inp).segs (s.on :: mids ++ [s.cn]) := by
  intro s hs
  obtain ⟨inner, hin, hr⟩ := pipeline_connections hA s hs
  obtain ⟨mids, h1, h2⟩ := linked_of_reach hr
  refine ⟨mids, ?_, h2⟩
  intro m hm
  rcases List.mem_append.1 (h1 m hm) with h | h
  · exact Or.inl h
  · exact Or.inr (hin m h)

/-- the executable test the driver applies to the route segments is sound for `GoodA` -/
theorem goodAB_sound (S : List Seg) (h : goodAB S = true) : GoodA S := AdaptaVerif.Lemmas.Planarise.goodAB_sound h

/-- two edges whose routes share the horizontal line y = 0 and overlap on [20, 40] (each has a bend strictly inside the
other's segment), and a vertical edge crossing the overlap at (30, 0) -/
def overlapInput : Input :=
  { nodes := [⟨0, ⟨0, 20⟩⟩, ⟨1, ⟨40, 20⟩⟩, ⟨2, ⟨20, -20⟩⟩, ⟨3, ⟨60, -20⟩⟩, ⟨4, ⟨30, -30⟩⟩, ⟨5, ⟨30, 30⟩⟩],
    edges := [⟨⟨0, ⟨0, 20⟩⟩, ⟨1, ⟨40, 20⟩⟩, [⟨0, 20⟩, ⟨0, 0⟩, ⟨40, 0⟩, ⟨40, 20⟩]⟩,
              ⟨⟨2, ⟨20, -20⟩⟩, ⟨3, ⟨60, -20⟩⟩, [⟨20, -20⟩, ⟨20, 0⟩, ⟨60, 0⟩, ⟨60, -20⟩]⟩,
              ⟨⟨4, ⟨30, -30⟩⟩, ⟨5, ⟨30, 30⟩⟩, [⟨30, -30⟩, ⟨30, 30⟩]⟩] }

/-- non-vacuity: overlapping routes satisfy the hypothesis (overlaps are allowed in `GoodA`), and the one crossing of
the vertical edge with the merged line is found -/
example : GoodA (segsAOf overlapInput) := goodAB_sound _ (by decide +kernel)
example : (planarise overlapInput).crossNodes.map (·.p) = [⟨30, 0⟩] := by decide +kernel


/-! ### (7) the whole `planarise` on the raw input

Hypothesis on the input (`SepInput inp ∧ NoCentreInside inp`, decidable form `sepInputB`, evaluated by the driver):
node ids and node centres pairwise distinct; every edge joins two nodes of the graph and its route runs from the source
centre to the target centre in axis-parallel steps of positive length; any two x-coordinates (y-coordinates) occurring in
centres or route points are equal or MORE THAN 1 APART; no interior route point is a node centre and no node centre lies
strictly inside a route segment.  Routes of different edges may share lines, overlap, nest, touch and cross. -/

/-- a separated input gives route segments satisfying `GoodA` (so sections 6 applies) -/
theorem separated_input_good (inp : Input) (hS : SepInput inp) : GoodA (segsAOf inp) := sepInput_goodA hS

/-- **No two edges of the planarised graph cross**, for every separated orthogonally routed input. -/
theorem planarise_no_crossing_of_input (inp : Input) (hS : SepInput inp) :
    ∀ p ∈ (planarise inp).segs, ∀ q ∈ (planarise inp).segs, ¬ PiecesCross p q :=
  planarise_no_crossing inp (sepInput_goodA hS)

/-- **Every original node is still present and still connected to its former neighbours through chains of new nodes**,
for every separated orthogonally routed input: each node of the input is a node of the result, and for every edge
(u, v) there are new nodes m₁ … mₖ (bend nodes or crossing nodes — never original nodes) with u – m₁ – … – mₖ – v
consecutively joined by edges of the result.
`_partial` only in that the brief's "in route order" is not part of the statement. -/
theorem planarise_preserves_nodes_and_connections_partial (inp : Input) (hS : SepInput inp) (hN : NoCentreInside inp) :
    (∀ n ∈ inp.nodes, n ∈ (planarise inp).nodes) ∧
    ∀ e ∈ inp.edges, ∃ mids : List Node,
      (∀ m ∈ mids, m ∈ (planarise inp).crossNodes ∨ m ∈ (planarise inp).bendNodes) ∧
      Linked (planarise inp).segs (e.src :: mids ++ [e.tgt]) := by
  refine ⟨planarise_preserves_nodes inp, ?_⟩
  intro e he
  obtain ⟨mids, h1, h2⟩ := linked_of_reach (edges_connected hS hN e he)
  exact ⟨mids, fun m hm => List.mem_append.1 (h1 m hm), h2⟩

/-- new nodes are new: bend nodes and crossing nodes are not nodes of the input (their ids are fresh) -/
theorem new_nodes_fresh (inp : Input) (hS : SepInput inp) :
    ∀ m ∈ (planarise inp).bendNodes, ∀ n ∈ inp.nodes, m.id ≠ n.id := by
  intro m hm n hn
  rw [planarise_bendNodes] at hm
  have h1 := ((segsA_ends hS).1.ge m hm).1
  have h2 := firstFreeId_gt inp.nodes n hn
  omega

/-- the executable test the driver applies to the input is sound for the hypothesis -/
theorem sepInputB_sound (inp : Input) (h : sepInputB inp = true) : SepInput inp ∧ NoCentreInside inp :=
  AdaptaVerif.Lemmas.Planarise.sepInputB_sound h

/-- non-vacuity: the overlapping-routes input satisfies the hypothesis -/
example : SepInput overlapInput ∧ NoCentreInside overlapInput := sepInputB_sound _ (by decide +kernel)

/-! ### (8) closed witnesses -/

/-- edge A→B routed (0,0) (20,0) (20,d) (60,d) (60,40) — a vertical jog of length `d` at x = 20 — and the
straight horizontal edge C→D at y = 20 (replay: harness `--mode shortseg` for d = 1/2) -/
def jogInput (d : Rat) : Input :=
  { nodes := [wA, wB, wC, wD],
    edges := [⟨wA, wB, [⟨0, 0⟩, ⟨20, 0⟩, ⟨20, d⟩, ⟨60, d⟩, ⟨60, 40⟩]⟩, ⟨wC, wD, [⟨-20, 20⟩, ⟨100, 20⟩]⟩] }

/-- Known finding C19-planarise-shortseg reproduced in the model: with a jog of length 1/2 (< tolerance 1) the
sweep reports a crossing at (20,20), where edge C→D passes 19.5 above the upper end of the jog, and the jog
edge 4–5 of the overlap-free graph is replaced by the two overlapping edges 4–7 and 5–7.
(Hence the length hypothesis of `crossings_sound` is necessary.) -/
theorem short_segment_missorted :
    (planarise (jogInput (1/2))).crossNodes = [⟨7, ⟨20, 20⟩⟩, ⟨8, ⟨60, 20⟩⟩] ∧
    (planarise (jogInput (1/2))).edges = [(0, 4), (5, 6), (2, 7), (4, 7), (6, 8), (7, 8), (5, 7), (8, 3), (8, 1)] := by
  decide +kernel

/-- Control: with a jog of length 2 only the genuine crossing (60,20) is reported and the jog edge 4–5 survives. -/
theorem long_segment_sorted :
    (planarise (jogInput 2)).crossNodes = [⟨7, ⟨60, 20⟩⟩] ∧
    (planarise (jogInput 2)).edges = [(0, 4), (5, 6), (2, 7), (4, 5), (6, 7), (7, 3), (7, 1)] := by
  decide +kernel

/-- A horizontal edge whose RIGHT end node lies on the interior of a vertical edge gets a crossing node at that
very point (joined to the end node by a zero-length edge); a LEFT end touching a vertical gets none.
As coded: a SUSTAIN event is still active in the x-part in which its segment closes. -/
theorem ttouch_asymmetric :
    (planarise { nodes := [⟨0, ⟨0, 0⟩⟩, ⟨1, ⟨0, 40⟩⟩, ⟨2, ⟨-20, 20⟩⟩, ⟨3, ⟨0, 20⟩⟩],
                 edges := [⟨⟨0, ⟨0, 0⟩⟩, ⟨1, ⟨0, 40⟩⟩, [⟨0, 0⟩, ⟨0, 40⟩]⟩,
                           ⟨⟨2, ⟨-20, 20⟩⟩, ⟨3, ⟨0, 20⟩⟩, [⟨-20, 20⟩, ⟨0, 20⟩]⟩] }).crossNodes = [⟨4, ⟨0, 20⟩⟩] ∧
    (planarise { nodes := [⟨0, ⟨0, 0⟩⟩, ⟨1, ⟨0, 40⟩⟩, ⟨2, ⟨20, 20⟩⟩, ⟨3, ⟨0, 20⟩⟩],
                 edges := [⟨⟨0, ⟨0, 0⟩⟩, ⟨1, ⟨0, 40⟩⟩, [⟨0, 0⟩, ⟨0, 40⟩]⟩,
                           ⟨⟨2, ⟨20, 20⟩⟩, ⟨3, ⟨0, 20⟩⟩, [⟨20, 20⟩, ⟨0, 20⟩]⟩] }).crossNodes = [] := by
  decide +kernel

end AdaptaVerif.Props.C19Planarise
