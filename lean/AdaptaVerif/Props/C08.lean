import AdaptaVerif.Lemmas.Compound
/-
C08 — libcola: overlap avoidance and rectangular-cluster containment hold in the result.

* `sep_no_overlap_1d`, `sep_no_overlap` : a satisfied separation constraint whose gap is the sum of
  the half sizes leaves no overlap in that dimension, hence no 2-D overlap;
* `overlap1_gt`, `pair_none_small_overlap`, `pair_some_separates`, `last_pass_no_overlap` : the
  decision rule of NonOverlapConstraints::generateSeparationConstraints (model `nonOverlapPair`):
  a shape pair either gets a full separation in this dimension or overlaps by at most 0.0005 in the
  other one — so after a projection that satisfies the generated set, no pair overlaps by more
  than the threshold in the other dimension *and* by a positive amount in this one;
* `containment_sound` : satisfied containment constraints put every child rectangle (plus padding)
  and every child cluster (plus margin and padding) between the cluster's two boundary variables;
* `sibling_disjoint` : sibling clusters separated through their boundary variables have disjoint members;
* `noOverlapBoth_iff`, `overlapsBoth_iff`, `bbox_contains`, `boxesDisjoint_sound`,
  `noForeignInside_sound` : the checkers run on the implementation's final rectangles are sound
  (and the overlap checker complete) for the specifications in Spec/Compound.lean.
-/
namespace AdaptaVerif.Props.C08
open AdaptaVerif.Model.Compound AdaptaVerif.Spec.Compound AdaptaVerif.Check.Layout
open AdaptaVerif.Lemmas.Compound

/-! ### separation ⇒ no overlap -/

theorem sep_no_overlap_1d (a : Asg) (u v : Nat) (hu hv tol : Rat) (htol : 0 ≤ tol)
    (h : Holds { left := u, right := v, gap := hu + hv, eq := false } a) :
    ¬ Overlap1D tol (a u - hu) (a u + hu) (a v - hv) (a v + hv) := by
  rintro ⟨lo, hi, hlen, _, h2, h3, _⟩
  simp only [Holds, Bool.false_eq_true, if_false] at h
  linarith

example : Holds { left := 0, right := 1, gap := 3 + 2, eq := false } (fun i => if i = 0 then 0 else 5) := by
  simp [Holds]; norm_num

/-- rectangles given by centres and half sizes: separated in x (or in y) ⇒ they do not overlap by
    more than `tol ≥ 0` in both dimensions -/
theorem sep_no_overlap (r s : Rect) (tol : Rat)
    (h : ¬ Overlap1D tol r.minX r.maxX s.minX s.maxX ∨ ¬ Overlap1D tol r.minY r.maxY s.minY s.maxY) :
    ¬ OverlapBoth tol r s := by
  rintro ⟨hx, hy⟩
  rcases h with h | h
  · exact h hx
  · exact h hy

/-! ### the decision rule of NonOverlapConstraints::generateSeparationConstraints -/

/-- whatever the centres, `Rectangle::overlapX/Y` is at least the true common length -/
theorem overlap1_gt (t uLo uHi uC vLo vHi vC : Rat) (ht : 0 ≤ t)
    (h : Overlap1D t uLo uHi vLo vHi) : overlap1 uLo uHi uC vLo vHi vC > t := by
  obtain ⟨lo, hi, hlen, h1, h2, h3, h4⟩ := h
  unfold overlap1
  by_cases hc : uC ≤ vC
  · have : vLo < uHi := by linarith
    rw [if_pos ⟨hc, this⟩]; linarith
  · have hc' : vC ≤ uC := le_of_lt (not_le.mp hc)
    have : uLo < vHi := by linarith
    rw [if_neg (fun hh => hc hh.1), if_pos ⟨hc', this⟩]; linarith

/-- `nonOverlapPair` on two plain shapes, unfolded -/
theorem nonOverlapPair_shape (bbs : Array Rect) (dim : Dim) (i j : Nat) (wi hi wj hj : Rat) :
    nonOverlapPair bbs dim (.shape i wi hi) (.shape j wj hj) =
      if (bbs.getD i default).overlapD (bbs.getD j default) dim.other > overlapThreshold then
        if (bbs.getD i default).centre dim < (bbs.getD j default).centre dim then
          some { left := i, right := j, gap := halfOf dim wi hi + halfOf dim wj hj, eq := false }
        else some { left := j, right := i, gap := halfOf dim wi hi + halfOf dim wj hj, eq := false }
      else none := by
  rfl

/-- no constraint generated for a shape pair ⇒ the rectangles overlap by at most the threshold in
    the other dimension -/
theorem pair_none_small_overlap (bbs : Array Rect) (dim : Dim) (i j : Nat) (wi hi wj hj : Rat)
    (h : nonOverlapPair bbs dim (.shape i wi hi) (.shape j wj hj) = none) :
    ¬ Overlap1D overlapThreshold ((bbs.getD i default).min dim.other) ((bbs.getD i default).max dim.other)
        ((bbs.getD j default).min dim.other) ((bbs.getD j default).max dim.other) := by
  intro hov
  have hgt : (bbs.getD i default).overlapD (bbs.getD j default) dim.other > overlapThreshold :=
    overlap1_gt overlapThreshold _ _ ((bbs.getD i default).centre dim.other) _ _
      ((bbs.getD j default).centre dim.other) (by unfold overlapThreshold; norm_num) hov
  rw [nonOverlapPair_shape, if_pos hgt] at h
  by_cases hc : (bbs.getD i default).centre dim < (bbs.getD j default).centre dim
  · rw [if_pos hc] at h; cases h
  · rw [if_neg hc] at h; cases h

/-- a generated constraint, once satisfied, separates the two shapes in this dimension (with the
    half sizes the shapes were registered with) -/
theorem pair_some_separates (bbs : Array Rect) (dim : Dim) (i j : Nat) (wi hi wj hj : Rat) (c : Sep) (a : Asg)
    (h : nonOverlapPair bbs dim (.shape i wi hi) (.shape j wj hj) = some c) (hc : Holds c a) (tol : Rat) (htol : 0 ≤ tol) :
    ¬ Overlap1D tol (a i - halfOf dim wi hi) (a i + halfOf dim wi hi) (a j - halfOf dim wj hj) (a j + halfOf dim wj hj) := by
  rw [nonOverlapPair_shape] at h
  by_cases hgt : (bbs.getD i default).overlapD (bbs.getD j default) dim.other > overlapThreshold
  · rw [if_pos hgt] at h
    by_cases hlt : (bbs.getD i default).centre dim < (bbs.getD j default).centre dim
    · rw [if_pos hlt] at h
      injection h with h; subst h
      exact sep_no_overlap_1d a i j _ _ tol htol hc
    · rw [if_neg hlt] at h
      injection h with h; subst h
      have hc' : Holds { left := j, right := i, gap := halfOf dim wj hj + halfOf dim wi hi, eq := false } a := by
        simp only [Holds, Bool.false_eq_true, if_false] at hc ⊢; linarith
      have := sep_no_overlap_1d a j i _ _ tol htol hc'
      rintro ⟨lo, hi2, hlen, h1, h2, h3, h4⟩
      exact this ⟨lo, hi2, hlen, h3, h4, h1, h2⟩
  · rw [if_neg hgt] at h; cases h

/-- Last pass: constraints for `dim` are generated from the current rectangles; the projection moves
    only `dim`-coordinates to `a` and satisfies what was generated. Then the pair does not overlap
    by more than 0.0005 in the other dimension *and* by a positive amount in `dim`. -/
theorem last_pass_no_overlap (bbs : Array Rect) (dim : Dim) (i j : Nat) (wi hi wj hj : Rat) (a : Asg)
    (hsat : ∀ c, nonOverlapPair bbs dim (.shape i wi hi) (.shape j wj hj) = some c → Holds c a) :
    ¬ (Overlap1D overlapThreshold ((bbs.getD i default).min dim.other) ((bbs.getD i default).max dim.other)
          ((bbs.getD j default).min dim.other) ((bbs.getD j default).max dim.other) ∧
       Overlap1D 0 (a i - halfOf dim wi hi) (a i + halfOf dim wi hi) (a j - halfOf dim wj hj) (a j + halfOf dim wj hj)) := by
  rintro ⟨h1, h2⟩
  cases hp : nonOverlapPair bbs dim (.shape i wi hi) (.shape j wj hj) with
  | none => exact pair_none_small_overlap bbs dim i j wi hi wj hj hp h1
  | some c => exact pair_some_separates bbs dim i j wi hi wj hj c a hp (hsat c hp) 0 (le_refl 0) h2

-- non-vacuity of pair_none_small_overlap: two in-range unit squares far apart, no constraint
example : nonOverlapPair #[⟨0, 1, 0, 1⟩, ⟨5, 6, 5, 6⟩] .x (.shape 0 (1/2) (1/2)) (.shape 1 (1/2) (1/2)) = none := by
  decide +kernel

-- non-vacuity of pair_some_separates / last_pass_no_overlap
example : ∃ c a, nonOverlapPair #[⟨0, 2, 0, 2⟩, ⟨1, 3, 1, 3⟩] .x (.shape 0 1 1) (.shape 1 1 1) = some c ∧ Holds c a :=
  ⟨{ left := 0, right := 1, gap := 1 + 1, eq := false }, fun i => if i = 0 then 0 else 2,
   by decide +kernel, by simp [Holds]; norm_num⟩

example : ¬ (Overlap1D overlapThreshold 0 2 1 3 ∧ Overlap1D 0 (0 - 1) (0 + 1) (2 - 1) (2 + 1)) :=
  last_pass_no_overlap #[⟨0, 2, 0, 2⟩, ⟨1, 3, 1, 3⟩] .x 0 1 1 1 1 1 (fun i => if i = 0 then 0 else 2)
    (by intro c hc
        have : nonOverlapPair #[⟨0, 2, 0, 2⟩, ⟨1, 3, 1, 3⟩] .x (.shape 0 1 1) (.shape 1 1 1)
            = some { left := 0, right := 1, gap := 1 + 1, eq := false } := by decide +kernel
        rw [this] at hc; injection hc with hc; subst hc
        simp [Holds]; norm_num)

/-! ### cluster containment -/

theorem containment_sound (v : Nat) (pMin pMax : Rat) (nodes : List (Nat × Rat)) (children : List (Nat × Rat × Rat))
    (a : Asg) (h : AllHold (containmentSeps v pMin pMax nodes children) a) :
    (∀ p ∈ nodes, a v + pMin ≤ a p.1 - p.2 ∧ a p.1 + p.2 + pMax ≤ a (v + 1)) ∧
    (∀ c ∈ children, a v + pMin + c.2.1 ≤ a c.1 ∧ a (c.1 + 1) + c.2.2 + pMax ≤ a (v + 1)) := by
  unfold containmentSeps at h
  rw [allHold_append, allHold_flatMap, allHold_flatMap] at h
  constructor
  · intro p hp
    have := h.1 p hp
    have h1 := this _ (List.mem_cons_self)
    have h2 := this _ (List.mem_cons_of_mem _ List.mem_cons_self)
    simp only [Holds, Bool.false_eq_true, if_false] at h1 h2
    constructor <;> linarith
  · intro c hc
    have := h.2 c hc
    have h1 := this _ (List.mem_cons_self)
    have h2 := this _ (List.mem_cons_of_mem _ List.mem_cons_self)
    simp only [Holds, Bool.false_eq_true, if_false] at h1 h2
    constructor <;> linarith

example : AllHold (containmentSeps 2 1 1 [(0, 1)] []) (fun i => if i = 0 then 5 else if i = 2 then 0 else 10) := by
  intro c hc; simp [containmentSeps] at hc; rcases hc with rfl | rfl <;> simp [Holds] <;> norm_num

-- non-vacuity of containment_sound with a child cluster (variables 4,5; margins 1,1) and a node
example : AllHold (containmentSeps 2 1 1 [(0, 1)] [(4, 1, 1)])
    (fun i => if i = 0 then 5 else if i = 2 then 0 else if i = 3 then 20 else if i = 4 then 8 else 12) := by
  intro c hc; simp [containmentSeps] at hc
  rcases hc with rfl | rfl | rfl | rfl <;> simp [Holds] <;> norm_num

/-- with non-negative padding, a contained node's interval lies inside the cluster's box -/
theorem containment_within (v : Nat) (pMin pMax : Rat) (nodes : List (Nat × Rat)) (children : List (Nat × Rat × Rat))
    (a : Asg) (hp0 : 0 ≤ pMin) (hp1 : 0 ≤ pMax) (h : AllHold (containmentSeps v pMin pMax nodes children) a) :
    ∀ p ∈ nodes, a v ≤ a p.1 - p.2 ∧ a p.1 + p.2 ≤ a (v + 1) := by
  intro p hp
  have := (containment_sound v pMin pMax nodes children a h).1 p hp
  constructor <;> linarith

/-- the cluster's boundary variables can always be placed around any placement of its child nodes
    (leaf cluster): containment never makes a placement infeasible -/
theorem containment_complete (v : Nat) (pMin pMax : Rat) (nodes : List (Nat × Rat)) (x : Asg)
    (hv : ∀ p ∈ nodes, p.1 ≠ v ∧ p.1 ≠ v + 1) :
    ∃ a : Asg, AgreeOff [v, v + 1] a x ∧ AllHold (containmentSeps v pMin pMax nodes []) a := by
  obtain ⟨lo, hlo⟩ := exists_lower (nodes.map fun p => x p.1 - p.2 - pMin) 0
  obtain ⟨hi, hhi, _⟩ := exists_between (nodes.map fun p => x p.1 + p.2 + pMax) [] 0 (by simp)
  have hne : v ≠ v + 1 := by omega
  let a : Asg := update (update x v lo) (v + 1) hi
  have av : a v = lo := by
    show update (update x v lo) (v + 1) hi v = lo
    rw [update_other _ _ _ _ hne, update_same]
  have av1 : a (v + 1) = hi := update_same _ _ _
  have anode : ∀ i, i ≠ v → i ≠ v + 1 → a i = x i := by
    intro i h1 h2
    show update (update x v lo) (v + 1) hi i = x i
    rw [update_other _ _ _ _ h2, update_other _ _ _ _ h1]
  refine ⟨a, ?_, ?_⟩
  · intro i hi'
    simp only [List.mem_cons, List.mem_nil_iff, or_false, not_or] at hi'
    exact anode i hi'.1 hi'.2
  · unfold containmentSeps
    rw [allHold_append, allHold_flatMap]
    refine ⟨fun p hp c hc => ?_, by simp [AllHold]⟩
    have hl := hlo (x p.1 - p.2 - pMin) (List.mem_map.mpr ⟨p, hp, rfl⟩)
    have hh := hhi (x p.1 + p.2 + pMax) (List.mem_map.mpr ⟨p, hp, rfl⟩)
    simp only [List.mem_cons, List.mem_nil_iff, or_false] at hc
    rcases hc with rfl | rfl
    · simp only [Holds, Bool.false_eq_true, if_false, av, anode p.1 (hv p hp).1 (hv p hp).2]; linarith
    · simp only [Holds, Bool.false_eq_true, if_false, av1, anode p.1 (hv p hp).1 (hv p hp).2]; linarith

/-- Sibling clusters `1` (variables `v1, v1+1`) and `2` (`v2, v2+1`) kept apart by the non-overlap
    constraint between their boundary variables (gap = margins ≥ 0), each containing its child nodes:
    every node of the first ends before every node of the second begins in that dimension. -/
theorem sibling_disjoint (v1 v2 : Nat) (p1Min p1Max p2Min p2Max gap : Rat)
    (nodes1 nodes2 : List (Nat × Rat)) (ch1 ch2 : List (Nat × Rat × Rat)) (a : Asg)
    (hp1 : 0 ≤ p1Max) (hp2 : 0 ≤ p2Min) (hgap : 0 ≤ gap)
    (hc1 : AllHold (containmentSeps v1 p1Min p1Max nodes1 ch1) a)
    (hc2 : AllHold (containmentSeps v2 p2Min p2Max nodes2 ch2) a)
    (hsep : Holds { left := v1 + 1, right := v2, gap := gap, eq := false } a) :
    ∀ p ∈ nodes1, ∀ q ∈ nodes2, a p.1 + p.2 ≤ a q.1 - q.2 := by
  intro p hp q hq
  have h1 := (containment_sound v1 p1Min p1Max nodes1 ch1 a hc1).1 p hp
  have h2 := (containment_sound v2 p2Min p2Max nodes2 ch2 a hc2).1 q hq
  simp only [Holds, Bool.false_eq_true, if_false] at hsep
  linarith

/-- …hence their member intervals share no sub-interval of positive length -/
theorem sibling_no_overlap (v1 v2 : Nat) (p1Min p1Max p2Min p2Max gap : Rat)
    (nodes1 nodes2 : List (Nat × Rat)) (ch1 ch2 : List (Nat × Rat × Rat)) (a : Asg)
    (hp1 : 0 ≤ p1Max) (hp2 : 0 ≤ p2Min) (hgap : 0 ≤ gap)
    (hc1 : AllHold (containmentSeps v1 p1Min p1Max nodes1 ch1) a)
    (hc2 : AllHold (containmentSeps v2 p2Min p2Max nodes2 ch2) a)
    (hsep : Holds { left := v1 + 1, right := v2, gap := gap, eq := false } a) :
    ∀ p ∈ nodes1, ∀ q ∈ nodes2, ¬ Overlap1D 0 (a p.1 - p.2) (a p.1 + p.2) (a q.1 - q.2) (a q.1 + q.2) := by
  intro p hp q hq
  have := sibling_disjoint v1 v2 p1Min p1Max p2Min p2Max gap nodes1 nodes2 ch1 ch2 a hp1 hp2 hgap hc1 hc2 hsep p hp q hq
  rintro ⟨lo, hi, hlen, _, h2, h3, _⟩
  linarith

-- non-vacuity of sibling_disjoint / sibling_no_overlap: cluster 1 = vars 2,3 with node 0, cluster 2 = vars 4,5 with node 1
example : ∃ a : Asg, AllHold (containmentSeps 2 1 1 [(0, 1)] []) a ∧ AllHold (containmentSeps 4 1 1 [(1, 1)] []) a ∧
    Holds { left := 2 + 1, right := 4, gap := 2, eq := false } a :=
  ⟨fun i => if i = 0 then 2 else if i = 1 then 12 else if i = 2 then 0 else if i = 3 then 4 else if i = 4 then 10 else 14,
   by intro c hc; simp [containmentSeps] at hc; rcases hc with rfl | rfl <;> simp [Holds] <;> norm_num,
   by intro c hc; simp [containmentSeps] at hc; rcases hc with rfl | rfl <;> simp [Holds] <;> norm_num,
   by simp [Holds]; norm_num⟩

/-! ### rectangle-based clusters (`RectangularCluster(rectIndex)`) -/

/-- the fixed-rectangle equalities pin the cluster's boundary variables to the two sides of the
    container rectangle: cluster box = container rectangle in that dimension -/
theorem fixedRect_sound (v rect : Nat) (half : Rat) (a : Asg) (h : AllHold (fixedRectSeps v rect half) a) :
    a v = a rect - half ∧ a (v + 1) = a rect + half := by
  have h1 := h _ (List.mem_cons_self)
  have h2 := h _ (List.mem_cons_of_mem _ List.mem_cons_self)
  simp only [Holds, if_true] at h1 h2
  constructor <;> linarith

theorem fixedRect_complete (v rect : Nat) (half : Rat) (a : Asg)
    (h : a v = a rect - half ∧ a (v + 1) = a rect + half) : AllHold (fixedRectSeps v rect half) a := by
  intro c hc
  simp only [fixedRectSeps, List.mem_cons, List.mem_nil_iff, or_false] at hc
  rcases hc with rfl | rfl <;> simp only [Holds, if_true] <;> linarith [h.1, h.2]

/-- …so with the containment constraints (padding 0 for such clusters) every child node's interval
    lies inside the container rectangle's interval -/
theorem fixedRect_members_inside (v rect : Nat) (half : Rat) (nodes : List (Nat × Rat)) (children : List (Nat × Rat × Rat))
    (a : Asg) (hf : AllHold (fixedRectSeps v rect half) a) (hc : AllHold (containmentSeps v 0 0 nodes children) a) :
    ∀ p ∈ nodes, a rect - half ≤ a p.1 - p.2 ∧ a p.1 + p.2 ≤ a rect + half := by
  intro p hp
  obtain ⟨e1, e2⟩ := fixedRect_sound v rect half a hf
  have := (containment_sound v 0 0 nodes children a hc).1 p hp
  constructor <;> linarith [this.1, this.2]

-- non-vacuity of fixedRect_sound / fixedRect_members_inside: container node 1 (half 5) at 10, cluster vars 2,3, member node 0
example : ∃ a : Asg, AllHold (fixedRectSeps 2 1 5) a ∧ AllHold (containmentSeps 2 0 0 [(0, 1)] []) a :=
  ⟨fun i => if i = 0 then 9 else if i = 1 then 10 else if i = 2 then 5 else 15,
   by intro c hc; simp [fixedRectSeps] at hc; rcases hc with rfl | rfl <;> simp [Holds] <;> norm_num,
   by intro c hc; simp [containmentSeps] at hc; rcases hc with rfl | rfl <;> simp [Holds] <;> norm_num⟩

theorem withinTol_iff (tol : Rat) (r b : Rect) : withinTol tol r b = true ↔ WithinTol tol r b := by
  unfold withinTol WithinTol
  simp only [Bool.and_eq_true, decide_eq_true_eq, and_assoc]

theorem membersWithin_iff (tol : Rat) (rs : Array Rect) (container : Nat) (members : List Nat) :
    membersWithin tol rs container members = true ↔
      ∀ i ∈ members, WithinTol tol (rs.getD i default) (rs.getD container default) := by
  unfold membersWithin
  simp only [List.all_eq_true, withinTol_iff]

/-! ### checkers on the final rectangles -/

theorem overlapLen_gt_iff (tol aLo aHi bLo bHi : Rat) :
    overlapLen aLo aHi bLo bHi > tol ↔ Overlap1D tol aLo aHi bLo bHi := by
  unfold overlapLen Overlap1D
  rw [minR_eq, maxR_eq]
  constructor
  · intro h
    exact ⟨max aLo bLo, min aHi bHi, h, le_max_left _ _, min_le_left _ _, le_max_right _ _, min_le_right _ _⟩
  · rintro ⟨lo, hi, hlen, h1, h2, h3, h4⟩
    have : hi ≤ min aHi bHi := le_min h2 h4
    have : max aLo bLo ≤ lo := max_le h1 h3
    linarith

theorem overlapsBoth_iff (tol : Rat) (a b : Rect) : overlapsBoth tol a b = true ↔ OverlapBoth tol a b := by
  unfold overlapsBoth OverlapBoth Rect.ovX Rect.ovY
  simp only [Bool.and_eq_true, decide_eq_true_eq, overlapLen_gt_iff]

theorem mem_pairsBelow (n i j : Nat) : (i, j) ∈ pairsBelow n ↔ i < j ∧ j < n := by
  unfold pairsBelow
  simp only [List.mem_flatMap, List.mem_range, List.mem_map, Prod.mk.injEq]
  constructor
  · rintro ⟨j', hj', i', hi', rfl, rfl⟩; exact ⟨hi', hj'⟩
  · rintro ⟨h1, h2⟩; exact ⟨j, h2, i, h1, rfl, rfl⟩

/-- the overlap checker decides the property: `true` iff no two non-exempt rectangles overlap by
    more than `tol` in both dimensions -/
theorem noOverlapBoth_iff (rs : Array Rect) (exempt : Nat → Nat → Bool) (tol : Rat) :
    noOverlapBoth rs exempt tol = true ↔
      ∀ i j, i < j → j < rs.size → exempt i j = false → ¬ OverlapBoth tol (rs.getD i default) (rs.getD j default) := by
  unfold noOverlapBoth
  simp only [List.all_eq_true, Bool.or_eq_true, Bool.not_eq_true', Prod.forall, mem_pairsBelow]
  constructor
  · intro h i j hij hj hex hov
    rcases h i j ⟨hij, hj⟩ with h' | h'
    · rw [h'] at hex; cases hex
    · rw [(overlapsBoth_iff tol _ _).mpr hov] at h'; cases h'
  · intro h i j ⟨hij, hj⟩
    cases hex : exempt i j
    · right
      cases hov : overlapsBoth tol (rs.getD i default) (rs.getD j default)
      · rfl
      · exact absurd ((overlapsBoth_iff tol _ _).mp hov) (h i j hij hj hex)
    · left; rfl

theorem union_within_left (a b : Rect) : Within a (Rect.union a b) := by
  unfold Within Rect.union
  simp only [minR_eq, maxR_eq]
  exact ⟨min_le_left _ _, le_max_left _ _, min_le_left _ _, le_max_left _ _⟩

theorem within_union_right (r a b : Rect) (h : Within r b) : Within r (Rect.union a b) := by
  unfold Within Rect.union at *
  simp only [minR_eq, maxR_eq]
  obtain ⟨h1, h2, h3, h4⟩ := h
  exact ⟨le_trans (min_le_right _ _) h1, le_trans h2 (le_max_right _ _),
         le_trans (min_le_right _ _) h3, le_trans h4 (le_max_right _ _)⟩

/-- the computed member box contains every member rectangle -/
theorem bbox_contains (rs : Array Rect) (m : List Nat) (b : Rect) (h : bbox rs m = some b) :
    ∀ i ∈ m, Within (rs.getD i default) b := by
  induction m generalizing b with
  | nil => simp
  | cons i t ih =>
    intro k hk
    simp only [bbox] at h
    cases hb : bbox rs t with
    | none =>
      rw [hb] at h; simp only [Option.some.injEq] at h; subst h
      cases t with
      | nil =>
        simp only [List.mem_cons, List.mem_nil_iff, or_false] at hk; subst hk
        exact ⟨le_refl _, le_refl _, le_refl _, le_refl _⟩
      | cons j t' =>
        simp only [bbox] at hb
        cases hb' : bbox rs t' <;> rw [hb'] at hb <;> cases hb
    | some b' =>
      rw [hb] at h; simp only [Option.some.injEq] at h; subst h
      rcases List.mem_cons.mp hk with rfl | hk'
      · exact union_within_left _ _
      · exact within_union_right _ _ _ (ih b' hb k hk')

theorem boxesDisjoint_sound (tol : Rat) (rs : Array Rect) (m1 m2 : List Nat) (b1 b2 : Rect)
    (h1 : bbox rs m1 = some b1) (h2 : bbox rs m2 = some b2) (h : boxesDisjoint tol rs m1 m2 = true) :
    ¬ OverlapBoth tol b1 b2 := by
  unfold boxesDisjoint at h
  rw [h1, h2] at h
  simp only [Bool.not_eq_true'] at h
  intro hov
  rw [(overlapsBoth_iff tol _ _).mpr hov] at h; cases h

theorem noForeignInside_sound (tol : Rat) (rs : Array Rect) (members : List Nat) (b : Rect)
    (hb : bbox rs members = some b) (h : noForeignInside tol rs members = true) :
    ∀ i, i < rs.size → i ∉ members →
      ¬ (b.minX + tol < (rs.getD i default).centre .x ∧ (rs.getD i default).centre .x + tol < b.maxX ∧
         b.minY + tol < (rs.getD i default).centre .y ∧ (rs.getD i default).centre .y + tol < b.maxY) := by
  unfold noForeignInside at h
  rw [hb] at h
  simp only [List.all_eq_true, List.mem_range, Bool.or_eq_true, Bool.not_eq_true'] at h
  intro i hi hnm hin
  rcases h i hi with h' | h'
  · exact hnm (by simpa using h')
  · unfold centreInside at h'
    simp only [Bool.and_eq_false_iff, decide_eq_false_iff_not] at h'
    obtain ⟨h1, h2, h3, h4⟩ := hin
    rcases h' with ((h' | h') | h') | h'
    · exact h' h1
    · exact h' h2
    · exact h' h3
    · exact h' h4

-- non-vacuity of bbox_contains / boxesDisjoint_sound / noForeignInside_sound (in-range members)
example : ∃ b1 b2, bbox #[⟨0, 1, 0, 1⟩, ⟨2, 3, 0, 1⟩, ⟨10, 11, 0, 1⟩] [0, 1] = some b1 ∧
    bbox #[⟨0, 1, 0, 1⟩, ⟨2, 3, 0, 1⟩, ⟨10, 11, 0, 1⟩] [2] = some b2 ∧
    boxesDisjoint 0 #[⟨0, 1, 0, 1⟩, ⟨2, 3, 0, 1⟩, ⟨10, 11, 0, 1⟩] [0, 1] [2] = true ∧
    noForeignInside 0 #[⟨0, 1, 0, 1⟩, ⟨2, 3, 0, 1⟩, ⟨10, 11, 0, 1⟩] [0, 1] = true :=
  ⟨⟨0, 3, 0, 1⟩, ⟨10, 11, 0, 1⟩, by decide +kernel, by decide +kernel, by decide +kernel, by decide +kernel⟩

end AdaptaVerif.Props.C08
