/-
C18 — tie theorem for the central kernel: `SepPair::transform` as generated from /repo's
libdialect/constraints.cpp by cpp2lean on every run (a `switch` with `break` arms that mutates the
members xst, yst, xgt, ygt, xgap, ygap through assignments and std::swap; `double` mapped to the
signed-zero type SZ) is the hand model `SepPair.transform` that `transform_equivariant`,
`transform_group` … in Props/C18.lean are about.
-/
import AdaptaVerif.Gen.SepPair
import AdaptaVerif.Model.Sep
namespace AdaptaVerif.Props.C18Tie2
open AdaptaVerif.Model.Sep

theorem gen_transform_is_model (tf : SepTransform) (sp : SepPair) :
    AdaptaVerif.Gen.SepPair.transform tf sp.xst sp.yst sp.xgt sp.ygt sp.xgap sp.ygap =
      ((sp.transform tf).xst, (sp.transform tf).yst, (sp.transform tf).xgt, (sp.transform tf).ygt,
       (sp.transform tf).xgap, (sp.transform tf).ygap) := by
  cases tf <;> rfl

/-- … and it touches nothing else: the model's transform leaves src, tgt, precision and flag alone -/
theorem model_transform_frame (tf : SepTransform) (sp : SepPair) :
    (sp.transform tf).src = sp.src ∧ (sp.transform tf).tgt = sp.tgt ∧
    (sp.transform tf).tglfPrecision = sp.tglfPrecision ∧ (sp.transform tf).flippedRetrieval = sp.flippedRetrieval := by
  cases tf <;> exact ⟨rfl, rfl, rfl, rfl⟩

theorem gen_transform_no_assertion (tf : SepTransform) (sp : SepPair) :
    AdaptaVerif.Gen.SepPair.transform_pre tf sp.xst sp.yst sp.xgt sp.ygt sp.xgap sp.ygap = true := by
  cases tf <;> rfl

end AdaptaVerif.Props.C18Tie2
