/-
C18 — tie theorem for the central kernel: `SepPair::transform` as generated from /repo's
libdialect/constraints.cpp by cpp2lean on every run (a `switch` with `break` arms that mutates the
members xst, yst, xgt, ygt, xgap, ygap through assignments and std::swap; `double` mapped to the
signed-zero type SZ) is the hand model `SepPair.transform` that `transform_equivariant`,
`transform_group` … in Props/C18.lean are about.
-/
import AdaptaVerif.Gen.SepPair
import AdaptaVerif.Model.Sep
namespace AdaptaVerif.Props.C18Tie2
open AdaptaVerif.Model.Sep

theorem gen_transform_is_model (tf : SepTransform) (sp : SepPair) :
    AdaptaVerif.Gen.SepPair.transform tf sp.xst sp.yst sp.xgt sp.ygt sp.xgap sp.ygap =
      ((sp.transform tf).xst, (sp.transform tf).yst, (sp.transform tf).xgt, (sp.transform tf).ygt,
       (sp.transform tf).xgap, (sp.transform tf).ygap) := by
  cases tf <;> rfl

/-- … and it touches nothing else: the model's transform leaves src, tgt, precision and flag alone -/
theorem model_transform_frame (tf : SepTransform) (sp : SepPair) :
    (sp.transform tf).src = sp.src ∧ (sp.transform tf).tgt = sp.tgt ∧
    (sp.transform tf).tglfPrecision = sp.tglfPrecision ∧ (sp.transform tf).flippedRetrieval = sp.flippedRetrieval := by
  cases tf <;> exact ⟨rfl, rfl, rfl, rfl⟩

theorem gen_transform_no_assertion (tf : SepTransform) (sp : SepPair) :
    AdaptaVerif.Gen.SepPair.transform_pre tf sp.xst sp.yst sp.xgt sp.ygt sp.xgap sp.ygap = true := by
  cases tf <;> rfl

/-! ### the other small `SepPair` methods, regenerated with `this` as the model's record -/

open AdaptaVerif.Num in
theorem eqVal_zero (x : SZ) : SZ.eqVal x (SZ.ofRat 0) = x.isZero := by
  have hz : SZ.ofRat 0 = ⟨false, 0⟩ := by
    have : ¬ ((0 : Rat) < 0) := by grind
    simp only [SZ.ofRat, this, if_false]
  rw [hz]
  cases x with
  | mk n m =>
    cases n
    · simp [SZ.eqVal, SZ.toRat, SZ.isZero]
    · simp only [SZ.eqVal, SZ.toRat, SZ.isZero, if_true, Bool.false_eq_true, if_false]
      by_cases h : m = 0
      · subst h; simp
      · have h2 : ¬ (-m = 0) := by intro e; apply h; grind
        have e1 : (-m == 0) = false := by simpa using h2
        have e2 : (m == 0) = false := by simpa using h
        rw [e1, e2]

/-- `SepPair::addSep(gt, sd, st, gap)`: a switch over the eight directions writing up to six members -/
theorem gen_addSep_is_model (sp : SepPair) (gt : GapType) (sd : SepDir) (st : SepType) (gap : AdaptaVerif.Num.SZ) :
    AdaptaVerif.Gen.SepPair.addSep gt sd st gap sp = sp.addSep gt sd st gap := by
  cases st <;> cases sd <;> rfl

theorem gen_roundGapsUpAbs_is_model (sp : SepPair) :
    AdaptaVerif.Gen.SepPair.roundGapsUpAbs sp = sp.roundGapsUpAbs := rfl

theorem gen_predicates_are_model (sp : SepPair) :
    AdaptaVerif.Gen.SepPair.isVAlign sp = sp.isVAlign ∧ AdaptaVerif.Gen.SepPair.isHAlign sp = sp.isHAlign ∧
    AdaptaVerif.Gen.SepPair.isVerticalCardinal sp = sp.isVerticalCardinal ∧
    AdaptaVerif.Gen.SepPair.isHorizontalCardinal sp = sp.isHorizontalCardinal ∧
    AdaptaVerif.Gen.SepPair.isCardinal sp = sp.isCardinal := by
  have hv : AdaptaVerif.Gen.SepPair.isVerticalCardinal sp = sp.isVerticalCardinal := by
    simp only [AdaptaVerif.Gen.SepPair.isVerticalCardinal, SepPair.isVerticalCardinal, eqVal_zero]
    cases sp.xgt <;> cases sp.xst <;> cases sp.yst <;> cases sp.ygt <;> simp <;>
      (have a : (SepType.eq != SepType.none) = true := by decide
       have b : (SepType.ineq != SepType.none) = true := by decide
       have c : (GapType.centre == GapType.bdry) = false := by decide
       simp [a, b, c])
  have hh : AdaptaVerif.Gen.SepPair.isHorizontalCardinal sp = sp.isHorizontalCardinal := by
    simp only [AdaptaVerif.Gen.SepPair.isHorizontalCardinal, SepPair.isHorizontalCardinal, eqVal_zero]
    cases sp.xgt <;> cases sp.xst <;> cases sp.yst <;> cases sp.ygt <;> simp <;>
      (have a : (SepType.eq != SepType.none) = true := by decide
       have b : (SepType.ineq != SepType.none) = true := by decide
       have c : (GapType.centre == GapType.bdry) = false := by decide
       simp [a, b, c])
  refine ⟨?_, ?_, hv, hh, ?_⟩
  · simp only [AdaptaVerif.Gen.SepPair.isVAlign, SepPair.isVAlign, eqVal_zero]
    cases sp.xgt <;> cases sp.xst <;> simp
  · simp only [AdaptaVerif.Gen.SepPair.isHAlign, SepPair.isHAlign, eqVal_zero]
    cases sp.ygt <;> cases sp.yst <;> simp
  · simp only [AdaptaVerif.Gen.SepPair.isCardinal, SepPair.isCardinal, hv, hh]

theorem gen_hasConstraintInDim_is_model (sp : SepPair) (d : Dim) :
    AdaptaVerif.Gen.SepPair.hasConstraintInDim d sp = sp.hasConstraintInDim d := by
  cases d <;> simp [AdaptaVerif.Gen.SepPair.hasConstraintInDim, SepPair.hasConstraintInDim] <;> cases sp.xst <;> cases sp.yst <;> simp

end AdaptaVerif.Props.C18Tie2
