/-
C05 — tie of `Model/OrthVis.lean` to the C++ by regeneration: `LineSegment::overlaps` (orthogonal.cpp), the
test by which `SegmentListWrapper::insert` decides which candidate segments are merged, is regenerated from
/repo's source on every run (`Gen/OrthVisK.lean`, job `orthvis` of tools/cpp2lean/jobs_orthvis.py) and proved
equal to the model's `Seg.overlaps`.
-/
import AdaptaVerif.Gen.OrthVisK
import AdaptaVerif.Model.OrthVis

namespace AdaptaVerif.Props.C05OrthVisTie
open AdaptaVerif.Model.OrthVis AdaptaVerif.Model.CmpKeys

/-- a model segment as the record the generated kernel reads (`shapeSide` is not read by `overlaps`) -/
def keyOf (s : Seg) : LineSegKey := ⟨s.b, s.p, s.f, false⟩

/-- the generated `LineSegment::overlaps` is the model's `Seg.overlaps` on every pair of segments whose
    receiver satisfies the class invariant `begin ≤ finish` (both constructors establish it; the first
    clause of the C++ — "lines are exactly equal" — is then subsumed by the second) -/
theorem gen_overlaps_is_model (a b : Seg) (wa : a.b ≤ a.f) :
    AdaptaVerif.Gen.OrthVisK.lineSegmentOverlaps (keyOf b) (keyOf a) = a.overlaps b := by
  unfold AdaptaVerif.Gen.OrthVisK.lineSegmentOverlaps Seg.overlaps keyOf AdaptaVerif.Gen.earlyExit
  simp only
  by_cases hp : a.p = b.p
  · by_cases h1 : a.b ≥ b.b ∧ a.b ≤ b.f
    · simp [hp, h1]
    · by_cases h2 : b.b ≥ a.b ∧ b.b ≤ a.f
      · simp [hp, h2]
      · have hne : ¬ (a.b = b.b ∧ a.f = b.f) := by
          rintro ⟨e1, e2⟩
          apply h1
          rw [e1, ← e2]
          exact ⟨Rat.le_refl, by rw [← e1]; exact wa⟩
        have e1 : (decide (a.b ≥ b.b) && decide (a.b ≤ b.f)) = false := by
          simpa using h1
        have e2 : (decide (b.b ≥ a.b) && decide (b.b ≤ a.f)) = false := by
          simpa using h2
        simp [hp, e1, e2]
        exact fun q1 q2 => hne ⟨q1, q2⟩
  · have hpb : (a.p == b.p) = false := by simpa using hp
    simp [hp, hpb]

/-- the kernel has no reachable assertion -/
theorem gen_overlaps_pre (a b : Seg) :
    AdaptaVerif.Gen.OrthVisK.lineSegmentOverlaps_pre (keyOf b) (keyOf a) = true := by
  unfold AdaptaVerif.Gen.OrthVisK.lineSegmentOverlaps_pre AdaptaVerif.Gen.earlyExitPre
  repeat' split
  all_goals first | rfl | simp

-- `gen_overlaps_is_model` is not an equation between constants: both answers occur (receiver well formed)
example : AdaptaVerif.Gen.OrthVisK.lineSegmentOverlaps (keyOf ⟨1, 3, 1, []⟩) (keyOf ⟨0, 2, 1, []⟩) = true ∧
    AdaptaVerif.Gen.OrthVisK.lineSegmentOverlaps (keyOf ⟨3, 4, 1, []⟩) (keyOf ⟨0, 2, 1, []⟩) = false := by decide +kernel

end AdaptaVerif.Props.C05OrthVisTie
