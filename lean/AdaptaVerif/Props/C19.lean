/-
C19 — libdialect graph decompositions: property theorems (only theorems + non-vacuity examples).

Statement (properties.jsonl): peeling a connected graph yields trees and a core such that every
node belongs to the core or to exactly one tree (roots being the only shared nodes), every tree
is acyclic and connected, every edge is in exactly one part, a non-empty core has no node of
degree one; connected-component extraction partitions nodes and edges the same way.
(Symmetric tree layout and planarisation are validated per run by the executable checkers of
Check/GraphParts.lean and have no theorem here.)

  Spec   : Spec/UGraph.lean (Reach, Connected, IsCycle, Acyclic, Simple, IsTree),
           Spec/GraphParts.lean (ExactlyOne, PeelSpec, CompsSpec)
  Model  : Model/Peel.lean (peel, getConnComps)     Checkers : Check/GraphParts.lean
  Proofs : Lemmas/Peel*.lean
All model theorems quantify over every finite simple graph; `peel`/`getConnComps` run on fuel and
are shown total (`peel_total`, `getConnComps_total`), so "= some out" is never vacuous.
-/
import AdaptaVerif.Lemmas.PeelCheck
import AdaptaVerif.Lemmas.PeelLeaf
import AdaptaVerif.Lemmas.PeelModel3
import AdaptaVerif.Lemmas.PeelComps2
import AdaptaVerif.Lemmas.PeelBuckets
namespace AdaptaVerif.Props.C19
open AdaptaVerif.Spec.UGraph AdaptaVerif.Spec.GraphParts
open AdaptaVerif.Model.Peel (peel peelB getConnComps PeelOut TreeOut Comp degree)
open AdaptaVerif.Check.GraphParts (isTree connectedB simpleB peelOk componentsOk)
open AdaptaVerif.Lemmas

/-! ### (1) the executable checkers decide the spec -/

/-- the tree checker is sound for every node/edge list -/
theorem isTree_sound {ns : List Nat} {es : List (Nat × Nat)} (h : isTree ns es = true) :
    IsTree ns es := PeelCheck.isTree_sound h

/-- … and complete on simple graphs: `isTree g = true ↔ Connected g ∧ Acyclic g` (∧ non-empty) -/
theorem isTree_iff {ns : List Nat} {es : List (Nat × Nat)} (hs : Simple ns es) :
    isTree ns es = true ↔ (ns ≠ [] ∧ Connected ns es ∧ Acyclic es) :=
  ⟨fun h => PeelCheck.isTree_sound h, fun h => PeelCheck.isTree_complete hs h⟩

example : IsTree [0, 1, 2] [(0, 1), (2, 1)] := isTree_sound (by decide)

theorem connectedB_iff {ns : List Nat} {es : List (Nat × Nat)} :
    connectedB ns es = true ↔ Connected ns es :=
  ⟨PeelCheck.connectedB_sound, PeelCheck.connectedB_complete⟩

theorem simpleB_iff {ns : List Nat} {es : List (Nat × Nat)} :
    simpleB ns es = true ↔ Simple ns es :=
  ⟨PeelCheck.simpleB_sound, PeelCheck.simpleB_complete⟩

-- the acyclicity clause of the spec is not hollow: a triangle is connected and simple but `Acyclic` fails for it
example : ¬ Acyclic [(0, 1), (1, 2), (2, 0)] := by
  intro h
  have := (isTree_iff (ns := [0, 1, 2]) (simpleB_iff.1 (by decide))).2
    ⟨by decide, connectedB_iff.1 (by decide), h⟩
  exact absurd this (by decide)

/-- Rank/parent witness ⇒ no simple cycle ("each removed leaf has exactly one neighbour, removed
    strictly later or never"): the core of both the tree checker and the peel proof. -/
theorem acyclic_of_rank (es : List (Nat × Nat)) (p : Nat → Nat) (r : Nat → Int)
    (h : ∀ a b, (a, b) ∈ es → (p a = b ∧ r a < r b) ∨ (p b = a ∧ r b < r a)) : Acyclic es :=
  PeelRank.acyclic_of_rank es p r h

example : Acyclic [(1, 0), (1, 2)] :=
  acyclic_of_rank _ (fun _ => 1) (fun v => if v = 1 then 1 else 0) (by
    intro a b h
    simp only [List.mem_cons, Prod.mk.injEq, List.mem_nil_iff, or_false] at h
    rcases h with ⟨rfl, rfl⟩ | ⟨rfl, rfl⟩ <;> decide)

/-- a finite tree with at least two nodes has a leaf (what makes peeling of a tree terminate in
    a single node / a single edge) -/
theorem tree_has_leaf {ns : List Nat} {es : List (Nat × Nat)} (hs : Simple ns es)
    (ht : IsTree ns es) (h2 : 2 ≤ ns.length) : ∃ v, v ∈ ns ∧ degree es v = 1 :=
  PeelLeaf.tree_has_leaf hs ht h2

-- non-vacuity of tree_has_leaf: the path 0–1–2–3 satisfies all three hypotheses
example : ∃ v, v ∈ [0, 1, 2, 3] ∧ degree [(0, 1), (1, 2), (2, 3)] v = 1 :=
  tree_has_leaf (simpleB_iff.1 (by decide)) (isTree_sound (by decide)) (by decide)

/-- the peel checker run on the C++ output is sound for the property text -/
theorem peelOk_sound {ns : List Nat} {es : List (Nat × Nat)} {trees : List TreeOut}
    {coreN : List Nat} {coreE : List (Nat × Nat)} (h : peelOk ns es trees coreN coreE = true) :
    PeelSpec ns es trees coreN coreE := PeelCheck.peelOk_sound h

example : PeelSpec [0, 1, 2, 3] [(0, 1), (1, 2), (2, 0), (2, 3)]
    [⟨[2, 3], [(2, 3)], 2⟩] [0, 1, 2] [(0, 1), (1, 2), (2, 0)] := peelOk_sound (by decide)

/-- the components checker run on the C++ output is sound for the property text -/
theorem componentsOk_sound {ns : List Nat} {es : List (Nat × Nat)} {cs : List Comp}
    (h : componentsOk ns es cs = true) : CompsSpec ns es cs := PeelCheck.componentsOk_sound h

example : CompsSpec [0, 1, 2] [(0, 1)] [⟨[0, 1], [(0, 1)]⟩, ⟨[2], []⟩] :=
  componentsOk_sound (by decide)

/-! ### (2) the peel model satisfies the property, for every connected finite simple graph -/

/-- the fuel given to the model always suffices -/
theorem peel_total (ns : List Nat) (es : List (Nat × Nat)) : ∃ out, peel ns es = some out :=
  PeelModel.peel_total ns es

/-- every clause of the peel property: node partition with roots as the only shared nodes, edge
    partition, every tree connected and acyclic, core without degree-one nodes -/
theorem peel_spec {ns : List Nat} {es : List (Nat × Nat)} {out : PeelOut} (hs : Simple ns es)
    (hc : Connected ns es) (h : peel ns es = some out) :
    PeelSpec ns es out.trees out.coreNodes out.coreEdges := PeelModel.peel_spec_full hs hc h

example : ∃ out, peel [0, 1, 2, 3] [(0, 1), (1, 2), (2, 0), (2, 3)] = some out ∧
    PeelSpec [0, 1, 2, 3] [(0, 1), (1, 2), (2, 0), (2, 3)] out.trees out.coreNodes out.coreEdges :=
  let ⟨out, h⟩ := peel_total _ _
  ⟨out, h, peel_spec (simpleB_iff.1 (by decide)) (connectedB_iff.1 (by decide)) h⟩

/-- the literal mirror of the C++ loop with explicit degree buckets (`NodeBuckets`: takeLeaves,
    moveNode(degree+1, degree), severNodes) computes exactly what the degree-based model does,
    for every node and edge list; so all theorems about `peel` hold for `peelB` -/
theorem peelB_eq_peel (ns : List Nat) (es : List (Nat × Nat)) : peelB ns es = peel ns es :=
  PeelBuckets.peelB_eq_peel' ns es

/-- the core clause needs no connectivity: the core is the induced subgraph on the surviving
    nodes and none of them has degree one -/
theorem peel_core {ns : List Nat} {es : List (Nat × Nat)} {out : PeelOut} (hs : Simple ns es)
    (h : peel ns es = some out) :
    out.coreNodes.Sublist ns ∧ out.coreNodes.Nodup ∧
    out.coreEdges = es.filter (fun e => out.coreNodes.contains e.1 && out.coreNodes.contains e.2) ∧
    NoDegreeOne out.coreNodes out.coreEdges := PeelModel.peel_core hs h

-- non-vacuity of peel_core: a simple graph that is NOT connected (triangle + a separate edge)
example : ∃ out, peel [0, 1, 2, 3, 4] [(0, 1), (1, 2), (2, 0), (3, 4)] = some out ∧
    NoDegreeOne out.coreNodes out.coreEdges :=
  let ⟨out, h⟩ := peel_total _ _
  ⟨out, h, (peel_core (simpleB_iff.1 (by decide)) h).2.2.2⟩

/-- a tree input peels away completely into one tree (core = its centre, or empty for a double
    centre) that contains every node and every edge -/
theorem peel_tree_input {ns : List Nat} {es : List (Nat × Nat)} {out : PeelOut} (hs : Simple ns es)
    (ht : IsTree ns es) (h2 : 2 ≤ ns.length) (h : peel ns es = some out) :
    out.coreNodes.length ≤ 1 ∧ out.coreEdges = [] ∧
    ∃ t, out.trees = [t] ∧ (∀ v, v ∈ ns → v ∈ t.nodes) ∧ (∀ e, e ∈ es → HasEdge t.edges e) :=
  PeelModel.peel_tree_input (fun _ _ => PeelLeaf.tree_noDegreeOne_small) hs ht h2 h

example : ∃ out, peel [0, 1, 2, 3] [(0, 1), (1, 2), (2, 3)] = some out ∧ out.coreNodes.length ≤ 1 :=
  let ⟨out, h⟩ := peel_total _ _
  ⟨out, h, (peel_tree_input (simpleB_iff.1 (by decide)) (isTree_sound (by decide)) (by decide) h).1⟩

/-! ### (3) the getConnComps model computes the connected components, for every finite graph -/

theorem getConnComps_total (ns : List Nat) (es : List (Nat × Nat)) :
    ∃ cs, getConnComps ns es = some cs := PeelComps.getConnComps_total ns es

/-- nodes and edges partitioned, each part connected by its own edges, no edge between parts -/
theorem getConnComps_spec {ns : List Nat} {es : List (Nat × Nat)} {cs : List Comp}
    (hE : ∀ e, e ∈ es → e.1 ∈ ns ∧ e.2 ∈ ns) (h : getConnComps ns es = some cs) :
    CompsSpec ns es cs := PeelComps.getConnComps_compsSpec h hE

/-- each part is exactly a reachability class -/
theorem getConnComps_classes {ns : List Nat} {es : List (Nat × Nat)} {cs : List Comp}
    (hE : ∀ e, e ∈ es → e.1 ∈ ns ∧ e.2 ∈ ns) (h : getConnComps ns es = some cs) :
    ∀ c, c ∈ cs → ∀ u, u ∈ c.nodes → ∀ x, x ∈ c.nodes ↔ Reach es u x :=
  PeelComps.comps_class h hE

example : ∃ cs, getConnComps [0, 1, 2] [(0, 1)] = some cs ∧ CompsSpec [0, 1, 2] [(0, 1)] cs :=
  let ⟨cs, h⟩ := getConnComps_total _ _
  ⟨cs, h, getConnComps_spec (by decide) h⟩

end AdaptaVerif.Props.C19
