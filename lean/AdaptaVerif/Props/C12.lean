/-
C12 — libavoid hyperedges stay spanning trees over the same terminals.

Property theorems about the executable checkers of `AdaptaVerif.Check.Tree`, for ALL finite
multigraphs (vertex list + edge list of vertex pairs, parallel edges and self-loops allowed):
the checkers decide exactly the specification of `AdaptaVerif.Spec.Tree`.
The driver (`Driver/C12.lean`) applies these checkers to the connector/junction structure the
real library produced after every transaction.
-/
import AdaptaVerif.Check.Tree
import AdaptaVerif.Spec.Tree
import AdaptaVerif.Lemmas.Tree
namespace AdaptaVerif.Props.C12
open AdaptaVerif.Check.Tree AdaptaVerif.Spec.Tree AdaptaVerif.Lemmas.Tree

/-- `isTree` is sound: acceptance implies no dangling edge end, connectedness and acyclicity. -/
theorem isTree_sound (V : List Nat) (E : List Edge) (h : isTree V E = true) : IsTree V E := by
  cases V with
  | nil => simp [isTree] at h
  | cons r V' =>
    simp only [isTree, Bool.and_eq_true] at h
    obtain ⟨hwf, hrest⟩ := h
    cases hu : unionAll id E with
    | none => simp [hu] at hrest
    | some lab =>
      simp only [hu] at hrest
      obtain ⟨hinv, hac⟩ := unionAll_some (P := []) inv_id acyclic_nil hu
      simp only [List.nil_append] at hinv hac
      refine ⟨?_, ⟨by simp, ?_⟩, hac⟩
      · intro e he
        have := List.all_eq_true.mp hwf e he
        simpa using this
      · intro a ha b hb
        have h1 := List.all_eq_true.mp hrest a ha
        have h2 := List.all_eq_true.mp hrest b hb
        simp only [beq_iff_eq] at h1 h2
        exact (hinv a b).mp (h1.trans h2.symm)

/-- `isTree` is complete: every connected acyclic well-formed multigraph is accepted. -/
theorem isTree_complete (V : List Nat) (E : List Edge) (h : IsTree V E) : isTree V E = true := by
  obtain ⟨hwf, ⟨hne, hconn⟩, hac⟩ := h
  cases V with
  | nil => exact absurd rfl hne
  | cons r V' =>
    simp only [isTree, Bool.and_eq_true]
    refine ⟨?_, ?_⟩
    · apply List.all_eq_true.mpr
      intro e he
      have := hwf e he
      simpa using this
    · cases hu : unionAll id E with
      | none =>
        have := unionAll_none (P := []) inv_id acyclic_nil hu
        simp only [List.nil_append] at this
        exact absurd hac this
      | some lab =>
        obtain ⟨hinv, _⟩ := unionAll_some (P := []) inv_id acyclic_nil hu
        simp only [List.nil_append] at hinv
        apply List.all_eq_true.mpr
        intro v hv
        simp only [beq_iff_eq]
        exact (hinv v r).mpr (hconn v hv r (List.mem_cons_self))

/-- the tree decision is exact -/
theorem isTree_iff (V : List Nat) (E : List Edge) : isTree V E = true ↔ IsTree V E :=
  ⟨isTree_sound V E, isTree_complete V E⟩

/-- the leaf/terminal comparison is exact: accepted iff every terminal is a vertex and the vertices
    of degree 1 are precisely the terminals -/
theorem leavesAre_iff (V : List Nat) (E : List Edge) (T : List Nat) :
    leavesAre V E T = true ↔ LeavesAre V E T := by
  simp only [leavesAre, LeavesAre, Bool.and_eq_true, List.all_eq_true]
  have key : ∀ v, ((deg E v == 1) == T.contains v) = true ↔ (deg E v = 1 ↔ v ∈ T) := by
    intro v
    by_cases hd : deg E v = 1 <;> by_cases ht : v ∈ T <;> simp [hd, ht]
  constructor
  · rintro ⟨h1, h2⟩
    exact ⟨fun t ht => by simpa using h1 t ht, fun v hv => (key v).mp (h2 v hv)⟩
  · rintro ⟨h1, h2⟩
    exact ⟨fun t ht => by simpa using h1 t ht, fun v hv => (key v).mpr (h2 v hv)⟩

/-- C12 structure check, soundness: if the checker accepts the connector/junction multigraph then
    it is connected, acyclic (every connector is a bridge), has no dangling connector end, and its
    leaves are exactly the given terminals. -/
theorem isTreeWithLeaves_sound (edges : List Edge) (verts terminals : List Nat)
    (h : isTreeWithLeaves edges verts terminals = true) :
    WellFormed verts edges ∧ Connected verts edges ∧ Acyclic edges ∧
      LeavesAre verts edges terminals := by
  simp only [isTreeWithLeaves, Bool.and_eq_true] at h
  obtain ⟨hw, hc, ha⟩ := isTree_sound verts edges h.1
  exact ⟨hw, hc, ha, (leavesAre_iff verts edges terminals).mp h.2⟩

/-- C12 structure check, completeness: nothing that satisfies the specification is rejected
    (so a SPECFAIL of the driver is a genuine violation of the specification). -/
theorem isTreeWithLeaves_complete (edges : List Edge) (verts terminals : List Nat)
    (h : IsTree verts edges) (hl : LeavesAre verts edges terminals) :
    isTreeWithLeaves edges verts terminals = true := by
  simp only [isTreeWithLeaves, Bool.and_eq_true]
  exact ⟨isTree_complete verts edges h, (leavesAre_iff verts edges terminals).mpr hl⟩

/-- `liveConsistent` decides `after = (before ∪ new) \ deleted` as an equality of id sets. -/
theorem liveConsistent_iff (before new deleted after : List Nat) :
    liveConsistent before new deleted after = true ↔ LiveConsistent before new deleted after := by
  simp only [liveConsistent, LiveConsistent, Bool.and_eq_true, List.all_eq_true]
  constructor
  · rintro ⟨h1, h2⟩ x
    constructor
    · intro hx
      have := h1 x hx
      simpa using this
    · rintro ⟨hx, hnd⟩
      have := h2 x (by simpa using hx)
      simp only [Bool.or_eq_true, List.contains_eq_mem, decide_eq_true_eq] at this
      rcases this with h | h
      · exact absurd h hnd
      · exact h
  · intro h
    constructor
    · intro x hx
      have := (h x).mp hx
      simpa using this
    · intro x hx
      have hx' : x ∈ before ∨ x ∈ new := by simpa using hx
      by_cases hd : x ∈ deleted
      · simp [hd]
      · have := (h x).mpr ⟨hx', hd⟩
        simp [this]

/-- `disjoint` decides disjointness of two id lists -/
theorem disjoint_iff (xs ys : List Nat) : disjoint xs ys = true ↔ ∀ x, x ∈ xs → x ∉ ys := by
  simp [disjoint]

/-! ### sanity / non-vacuity: what the specification means on small graphs -/

/-- a star with centre 0 and leaves 1,2,3 is accepted with terminals {1,2,3} … -/
example : isTreeWithLeaves [(0, 1), (2, 0), (0, 3)] [0, 1, 2, 3] [3, 1, 2] = true := by decide
/-- … a triangle hanging off the star is not (cycle) … -/
example : isTreeWithLeaves [(0, 1), (1, 2), (2, 0), (0, 3)] [0, 1, 2, 3] [3] = false := by decide
/-- … nor a doubled connector (parallel edge) … -/
example : isTree [0, 1] [(0, 1), (1, 0)] = false := by decide
/-- … nor a self-loop connector … -/
example : isTree [0, 1] [(0, 1), (1, 1)] = false := by decide
/-- … nor a hyperedge split in two components … -/
example : isTree [0, 1, 2, 3] [(0, 1), (2, 3)] = false := by decide
/-- … nor a dangling junction (leaf 4 is not a terminal) … -/
example : isTreeWithLeaves [(0, 1), (0, 2), (0, 3), (0, 4)] [0, 1, 2, 3, 4] [1, 2, 3] = false := by decide
/-- … nor a dropped terminal. -/
example : isTreeWithLeaves [(0, 1), (0, 2)] [0, 1, 2] [1, 2, 3] = false := by decide

/-- The bridge formulation of `Acyclic` excludes self-loops … -/
theorem acyclic_no_selfloop (E : List Edge) (h : Acyclic E) (a : Nat) : (a, a) ∉ E := by
  intro hm
  obtain ⟨i, hi, hget⟩ := List.getElem_of_mem hm
  have := h i hi
  rw [hget] at this
  exact this (Reach.refl a)

/-- … and closed walks through an edge that do not reuse it: if the ends of the `i`-th edge are
    joined by a walk in the remaining edges (i.e. the edge lies on a cycle), `E` is not acyclic. -/
theorem not_acyclic_of_cycle (E : List Edge) (i : Nat) (hi : i < E.length)
    (hwalk : Reach (E.eraseIdx i) (E[i]'hi).1 (E[i]'hi).2) : ¬ Acyclic E :=
  fun h => h i hi hwalk

example : IsTree [0, 1, 2, 3] [(0, 1), (2, 0), (0, 3)] :=
  isTree_sound _ _ (by decide)

-- non-vacuity (joint) of `isTreeWithLeaves_complete` / `isTree_complete` / `acyclic_no_selfloop`: the star
example : IsTree [0, 1, 2, 3] [(0, 1), (2, 0), (0, 3)] ∧ LeavesAre [0, 1, 2, 3] [(0, 1), (2, 0), (0, 3)] [3, 1, 2] ∧
    isTreeWithLeaves [(0, 1), (2, 0), (0, 3)] [0, 1, 2, 3] [3, 1, 2] = true ∧ (0, 0) ∉ [(0, 1), (2, 0), (0, 3)] :=
  have ht : IsTree [0, 1, 2, 3] [(0, 1), (2, 0), (0, 3)] := isTree_sound _ _ (by decide)
  have hl : LeavesAre [0, 1, 2, 3] [(0, 1), (2, 0), (0, 3)] [3, 1, 2] := (leavesAre_iff _ _ _).mp (by decide)
  ⟨ht, hl, isTreeWithLeaves_complete _ _ _ ht hl, acyclic_no_selfloop _ ht.2.2 0⟩

-- non-vacuity of `not_acyclic_of_cycle`: a doubled connector: the ends of edge 0 are joined by the other edge
example : ¬ Acyclic [(0, 1), (1, 0)] :=
  not_acyclic_of_cycle [(0, 1), (1, 0)] 0 (by decide) (Reach.step (Reach.refl 0) (Or.inr (List.Mem.head _)))

end AdaptaVerif.Props.C12
