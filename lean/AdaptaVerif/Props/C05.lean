/-
C05 — property theorems.

Sentence 3 of the property ("the bend-count estimate used to guide the search never exceeds the
true minimum number of bends") is proved for all inputs about the model `Model.Bends.bends` /
`Model.Bends.estimatedCostSpecific` (tied to makepath.cpp by the exhaustive + random
correspondence of driver mode c05) against the code-independent specification `Spec.OrthPath`.
Sentence 2 (optimal cost) is validated per scene by a certificate; the theorems here are the
soundness of that certificate check (potential argument).
-/
import AdaptaVerif.Lemmas.Bends
import AdaptaVerif.Lemmas.BendsTight
import AdaptaVerif.Lemmas.Hanan
import AdaptaVerif.Lemmas.OrthGraph
import Mathlib.Tactic.NormNum
namespace AdaptaVerif.Props.C05
open AdaptaVerif.Model.Bends AdaptaVerif.Spec.OrthPath
open AdaptaVerif.Model.Geometry (Pt)
open AdaptaVerif.Check.Hanan (Scene Cert checkCert mkGrid)

/-- **Admissible.** For all rational points `curr ≠ dest` and all single directions, every
    orthogonal approach path from (curr, heading cd) to (dest, arriving with heading dd) has at
    least `bends curr cd dest dd` bends (and `bends` does not hit an assertion). -/
theorem bends_admissible (curr dest : Pt) (hne : curr ≠ dest) (cd dd : Dir) (ls : List Leg)
    (h : IsApproach curr cd dest dd ls) :
    ∃ b, bends curr cd.mask dest dd.mask = some b ∧ b ≤ bendsOf ls :=
  Lemmas.Bends.admissible_exists curr dest hne cd dd ls h

example : IsApproach ⟨0, 0⟩ .N ⟨1, 1⟩ .E
    [⟨.N, 0⟩, ⟨.E, 1/2⟩, ⟨.S, 1⟩, ⟨.E, 1/2⟩] ∧ bends ⟨0, 0⟩ Dir.N.mask ⟨1, 1⟩ Dir.E.mask = some 3 := by
  refine ⟨⟨rfl, rfl, by simp [Chain, Perp, Dir.left, Dir.right], ?_, ?_, ?_, ?_⟩, ?_⟩
  · intro l hl; simp only [List.mem_cons, List.mem_nil_iff, or_false] at hl
    rcases hl with rfl | rfl | rfl | rfl <;> norm_num
  · intro l hl
    simp only [inner, List.tail_cons, List.dropLast_cons_cons, List.dropLast_singleton,
      List.mem_cons, List.mem_nil_iff, or_false] at hl
    rcases hl with rfl | rfl <;> norm_num
  · norm_num [dispX, Dir.ux]
  · norm_num [dispY, Dir.uy]
  · rw [Lemmas.Bends.bends_tbl]; norm_num [dimDirection]; decide

/-- **Tight.** The bound is attained: some approach path has exactly `bends …` bends, so the code's
    closed form is the exact minimum (under the leg-length conventions of `Spec.OrthPath`). -/
theorem bends_tight (curr dest : Pt) (hne : curr ≠ dest) (cd dd : Dir) :
    ∃ ls, IsApproach curr cd dest dd ls ∧ bends curr cd.mask dest dd.mask = some (bendsOf ls) :=
  Lemmas.BendsTight.tight curr dest hne cd dd

/-- **Total.** For single-bit directions no `COLA_ASSERT` inside `bends` can fire — in particular
    the trailing `COLA_ASSERT(false)` is unreachable — and the result is at most 4.
    (Holds for curr = dest as well.) -/
theorem bends_total (curr dest : Pt) (cd dd : Dir) :
    ∃ b, bends curr cd.mask dest dd.mask = some b ∧ b ≤ 4 :=
  Lemmas.Bends.leOpt_spec (Lemmas.Bends.bends_le4 curr dest cd dd)

/-- The precondition `curr ≠ dest` of `bends_admissible` cannot be dropped: at distance 0 the code
    answers 2 where 0 bends suffice.  (`estimatedCostSpecific` only calls `bends` when the
    Manhattan distance is positive.) -/
theorem bends_overestimates_at_zero_distance :
    IsApproach ⟨0, 0⟩ .E ⟨0, 0⟩ .E [⟨.E, 0⟩] ∧ bends ⟨0, 0⟩ Dir.E.mask ⟨0, 0⟩ Dir.E.mask = some 2 := by
  refine ⟨⟨rfl, rfl, by simp [Chain], ?_, ?_, ?_, ?_⟩, ?_⟩
  · intro l hl; simp only [List.mem_cons, List.mem_nil_iff, or_false] at hl
    rcases hl with rfl; norm_num
  · intro l hl; simp [inner] at hl
  · norm_num [dispX, Dir.ux]
  · norm_num [dispY, Dir.uy]
  · rw [Lemmas.Bends.bends_tbl]; norm_num [dimDirection]; decide

/-- **Estimate ≤ cost** inside the search: the node at `curr` was reached from `last` along an
    axis-parallel hop (heading `cd`); the cost target `tar` may be entered with any heading in the
    mask `dirs`.  Whatever approach path the search continues with, its length + penalty·bends is at
    least `estimatedCostSpecific` (which does not hit an assertion). No `curr ≠ tar` needed. -/
theorem estimate_le (last curr tar : Pt) (cd : Dir)
    (hdir : orthogonalDirection last curr = cd.mask) (dirs : Nat) (pen : Rat) (hpen : 0 < pen)
    (dd : Dir) (hdd : dirs &&& dd.mask ≠ 0) (ls : List Leg) (h : IsApproach curr cd tar dd ls) :
    ∃ e, estimatedCostSpecific (some last) curr tar dirs pen = some e ∧ e ≤ pathCost pen ls :=
  Lemmas.Bends.estimate_le_heading last curr tar cd hdir dirs pen hpen dd hdd ls h

example : orthogonalDirection ⟨0, 0⟩ ⟨1, 0⟩ = Dir.E.mask ∧ (15 &&& Dir.S.mask ≠ 0) ∧
    IsApproach ⟨1, 0⟩ .E ⟨3, 4⟩ .S [⟨.E, 2⟩, ⟨.S, 4⟩] := by
  refine ⟨?_, by decide, ⟨rfl, rfl, by simp [Chain, Perp, Dir.left, Dir.right], ?_, ?_, ?_, ?_⟩⟩
  · rw [Lemmas.Bends.od_signs]; norm_num [dimDirection]; decide
  · intro l hl; simp only [List.mem_cons, List.mem_nil_iff, or_false] at hl
    rcases hl with rfl | rfl <;> norm_num
  · intro l hl; simp [inner] at hl
  · norm_num [dispX, Dir.ux]
  · norm_num [dispY, Dir.uy]

/-- **Estimate ≤ cost** at the start node (`last == nullptr`, heading free). -/
theorem estimate_le_start (curr tar : Pt) (dirs : Nat) (pen : Rat) (hpen : 0 < pen)
    (ls : List Leg) (h : IsFreeStart curr tar ls) :
    ∃ e, estimatedCostSpecific none curr tar dirs pen = some e ∧ e ≤ pathCost pen ls :=
  Lemmas.Bends.estimate_le_start curr tar dirs pen hpen ls h

/-- **Estimate ≤ cost** when the previous hop gives no single heading (`last = curr`, or a
    non-axis-parallel dummy hop): only the Manhattan distance is charged. -/
theorem estimate_le_noheading (last curr tar : Pt) (dirs : Nat) (pen : Rat) (hpen : 0 < pen)
    (hno : ¬ (orthogonalDirection last curr > 0 ∧
      orthogonalDirectionsCount (orthogonalDirection last curr) = 1))
    (ls : List Leg) (h : IsFreeStart curr tar ls) :
    ∃ e, estimatedCostSpecific (some last) curr tar dirs pen = some e ∧ e ≤ pathCost pen ls :=
  Lemmas.Bends.estimate_le_noheading last curr tar dirs pen hpen hno ls h

-- non-vacuity of `estimate_le_start` and `estimate_le_noheading` (`last = curr`: no heading)
example : IsFreeStart ⟨1, 0⟩ ⟨3, 4⟩ [⟨.E, 2⟩, ⟨.S, 4⟩] ∧
    ¬ (orthogonalDirection ⟨1, 0⟩ ⟨1, 0⟩ > 0 ∧ orthogonalDirectionsCount (orthogonalDirection ⟨1, 0⟩ ⟨1, 0⟩) = 1) ∧
    (∃ e, estimatedCostSpecific none ⟨1, 0⟩ ⟨3, 4⟩ 15 1 = some e ∧ e ≤ pathCost 1 [⟨.E, 2⟩, ⟨.S, 4⟩]) ∧
    (∃ e, estimatedCostSpecific (some ⟨1, 0⟩) ⟨1, 0⟩ ⟨3, 4⟩ 15 1 = some e ∧ e ≤ pathCost 1 [⟨.E, 2⟩, ⟨.S, 4⟩]) := by
  have hA : IsApproach ⟨1, 0⟩ .E ⟨3, 4⟩ .S [⟨.E, 2⟩, ⟨.S, 4⟩] := by
    refine ⟨rfl, rfl, by simp [Chain, Perp, Dir.left, Dir.right], ?_, ?_, ?_, ?_⟩
    · intro l hl; simp only [List.mem_cons, List.mem_nil_iff, or_false] at hl
      rcases hl with rfl | rfl <;> norm_num
    · intro l hl; simp [inner] at hl
    · norm_num [dispX, Dir.ux]
    · norm_num [dispY, Dir.uy]
  have hF : IsFreeStart ⟨1, 0⟩ ⟨3, 4⟩ [⟨.E, 2⟩, ⟨.S, 4⟩] := ⟨.E, .S, hA⟩
  have hno : ¬ (orthogonalDirection ⟨1, 0⟩ ⟨1, 0⟩ > 0 ∧
      orthogonalDirectionsCount (orthogonalDirection ⟨1, 0⟩ ⟨1, 0⟩) = 1) := by
    decide +kernel
  exact ⟨hF, hno, estimate_le_start _ _ 15 1 (by norm_num) _ hF,
    estimate_le_noheading _ _ _ 15 1 (by norm_num) hno _ hF⟩

/-- **Potential argument** (all weighted digraphs, given by an edge relation): a potential that is
    feasible on every edge and non-positive on goals is a lower bound on the cost of every walk
    into a goal. -/
theorem potential_lower_bound {V : Type} (E : V → V → Rat → Prop) (π : V → Rat) (goal : V → Prop)
    (hfeas : ∀ u v w, E u v w → π u ≤ w + π v) (hgoal : ∀ t, goal t → π t ≤ 0)
    {u t : V} {c : Rat} (hw : Lemmas.Hanan.Walk E u t c) (ht : goal t) : π u ≤ c :=
  Lemmas.Hanan.potential_lower_bound E π goal hfeas hgoal hw ht

/-- **Certificate soundness.** If `checkCert` accepts an (untrusted) potential + witness and returns
    `opt`, then `opt` is the minimum cost over all routes of the scene's Hanan state graph:
    no route is cheaper and some route (the witness) costs exactly `opt`. -/
theorem hanan_cert_sound (sc : Scene) (c : Cert) (opt : Rat) (h : checkCert sc c = some opt) :
    (∀ r, Lemmas.Hanan.IsRouteCost sc (mkGrid sc) r → opt ≤ r) ∧
      Lemmas.Hanan.IsRouteCost sc (mkGrid sc) opt :=
  Lemmas.Hanan.checkCert_sound h

-- non-vacuity of `hanan_cert_sound`: box [1,2]×[-1,1] between the source (0,0) and the target (3,0), penalty 1;
-- the potential (distance to the goal in the state graph) and the witness N,E,E,E,S are accepted, optimum 7
example :
    let sc : Scene := { rects := [⟨1, -1, 2, 1⟩], sx := 0, sy := 0, tx := 3, ty := 0, smask := 15, tmask := 15, pen := 1 }
    (∀ r, Lemmas.Hanan.IsRouteCost sc (mkGrid sc) r → 7 ≤ r) ∧ Lemmas.Hanan.IsRouteCost sc (mkGrid sc) 7 := by
  intro sc
  exact hanan_cert_sound sc
    ⟨#[6, 5, 6, 7, 5, 4, 5, 6, 4, 3, 3, 4, 3, 2, 1, 2, 7, 8, 7, 8, 6, 7, 6, 7, 2, 1, 2, 3, 0, 0, 0, 0, 6, 5, 6, 7, 5,
       4, 5, 6, 3, 3, 4, 4, 1, 2, 3, 2],
     [⟨0, 0, 0⟩, ⟨1, 0, 1⟩, ⟨2, 0, 1⟩, ⟨3, 0, 1⟩, ⟨3, 1, 2⟩]⟩ 7 (by decide +kernel)

/-- **Certificate soundness, own-graph variant** (direction-restricted endpoints): if
    `Check.OrthGraph.checkCert` accepts a potential + witness for the visibility graph dumped from
    the router and returns `opt`, then `opt` is the minimum cost over all routes of that graph
    (first hop uncharged, quarter turn `pen`, doubling back `2·pen`, the source is never re-entered). -/
theorem vg_cert_sound (g : Check.OrthGraph.VG) (c : Check.OrthGraph.Cert) (opt : Rat)
    (h : Check.OrthGraph.checkCert g c = some opt) :
    (∀ r, Lemmas.OrthGraph.IsRouteCost g r → opt ≤ r) ∧ Lemmas.OrthGraph.IsRouteCost g opt :=
  Lemmas.OrthGraph.checkCert_sound h

-- non-vacuity of `vg_cert_sound`: the graph (0,0)–(2,0)–(2,3)–(0,3)–(0,0), source 0, target 2, penalty 1: optimum 6
example :
    let g : Check.OrthGraph.VG :=
      { xs := #[0, 2, 2, 0], ys := #[0, 0, 3, 3], adj := #[[1, 3], [0, 2], [1, 3], [0, 2]], src := 0, tar := 2, pen := 1 }
    (∀ r, Lemmas.OrthGraph.IsRouteCost g r → 6 ≤ r) ∧ Lemmas.OrthGraph.IsRouteCost g 6 := by
  intro g
  exact vg_cert_sound g ⟨#[7, 6, 6, 7, 5, 4, 3, 4, 0, 0, 0, 0, 3, 2, 3, 4], [⟨1, 1⟩, ⟨2, 2⟩]⟩ 6 (by decide +kernel)

end AdaptaVerif.Props.C05
