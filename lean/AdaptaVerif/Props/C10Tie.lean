/-
C10 — tie theorems: the scalar kernels of `NudgingShiftSegment` as regenerated from /repo's
cola/libavoid/orthogonal.cpp by cpp2lean on every run (Gen/NudgeK.lean, job `nudgek`) are the hand
models of Model/NudgeRegion.lean that the region model and the theorems of Props/C10Region.lean use.

`toK o dim s` (Lemmas/NudgeBridge.lean) builds the object the generated code reads (Model/NudgeKeys.SegK: a two-point display
route, index list {0, 1}, the router options as fields) from a model segment `s`, for nudging
dimension `dim` ∈ {0, 1}. Generated kernels compute in exact rationals; the model's rounding `rnd`
only occurs in `createVar` (zigzag centre) and the bridge for it is stated for `rnd = id`.
Not regenerated (translator limits; hand models tied through the hook dump only):
`CmpLineOrder::operator()` (map lookups, optional out-pointer), `updatePositionsFromSolver`, the body of
`nudgeOrthogonalRoutes` itself.
-/
import AdaptaVerif.Lemmas.NudgeBridge
namespace AdaptaVerif.Props.C10Tie
open AdaptaVerif.Model.Nudge AdaptaVerif.Model.NudgeRegion AdaptaVerif.Model.NudgeKeys
open AdaptaVerif.Gen AdaptaVerif.Lemmas.NudgeBridge

/-- constants read from orthogonal.cpp / scanline.h on every run = the model's constants -/
theorem gen_constants_are_model :
    NudgeK.k_freeSegmentID = (freeSegmentID : Int) ∧ NudgeK.k_fixedSegmentID = (fixedSegmentID : Int) ∧
    NudgeK.k_channelLeftID = (channelLeftID : Int) ∧ NudgeK.k_channelRightID = (channelRightID : Int) ∧
    NudgeK.k_freeWeight = freeWeight ∧ NudgeK.k_strongWeight = strongWeight ∧
    NudgeK.k_strongerWeight = strongerWeight ∧ NudgeK.k_fixedWeight = fixedWeight ∧
    NudgeK.k_CHANNEL_MAX = channelMax := by
  refine ⟨rfl, rfl, rfl, rfl, rfl, rfl, rfl, rfl, rfl⟩

/-- `lowPoint()[dim]`, `lowPoint()[altDim]`, `highPoint()[altDim]` of the object are `pos`, `lo`, `hi` -/
theorem gen_points_are_model (o : ROpts) (dim : Nat) (hd : dim < 2) (s : RSeg) :
    (NudgeK.lowPoint (toK o dim s)).getD dim default = s.pos ∧
    (NudgeK.highPoint (toK o dim s)).getD dim default = s.pos ∧
    (NudgeK.lowPoint (toK o dim s)).getD ((dim + 1) % 2) default = s.lo ∧
    (NudgeK.highPoint (toK o dim s)).getD ((dim + 1) % 2) default = s.hi ∧
    NudgeK.lowPoint_pre (toK o dim s) = true ∧ NudgeK.highPoint_pre (toK o dim s) = true := by
  rcases dim_cases hd with rfl | rfl <;> simp [NudgeK.lowPoint, NudgeK.highPoint, NudgeK.lowPoint_pre, NudgeK.highPoint_pre, toK, ptOf]

/-- `overlapsWith` -/
theorem gen_overlapsWith_is_model (o : ROpts) (dim : Nat) (hd : dim < 2) (a b : RSeg) :
    NudgeK.overlapsWith (toK o dim b) dim (toK o dim a) = overlapsWith o a b := by
  rcases dim_cases hd with rfl | rfl <;>
    simp only [NudgeK.overlapsWith, NudgeK.lowPoint, NudgeK.highPoint, toK, ptOf, overlapsWith, limitsMeet, earlyExit] <;>
    simp <;>
    by_cases h1 : a.lo < b.hi ∧ b.lo < a.hi <;> by_cases h2 : a.minLim ≤ b.maxLim ∧ b.minLim ≤ a.maxLim <;>
    by_cases h3 : a.lo = b.hi ∨ b.lo = a.hi <;> by_cases h4 : 0 < o.fsp <;>
    by_cases h5 : b.sBend = true ∧ a.sBend = true ∨ b.zBend = true ∧ a.zBend = true <;>
    by_cases h6 : (b.finalSeg = true ∧ a.finalSeg = true) ∧ b.conn = a.conn <;> simp [h1, h2, h3, h4, h5, h6] <;> grind

theorem gen_overlapsWith_no_assertion (o : ROpts) (dim : Nat) (hd : dim < 2) (a b : RSeg) :
    NudgeK.overlapsWith_pre (toK o dim b) dim (toK o dim a) = true := by
  rcases dim_cases hd with rfl | rfl <;>
    simp only [NudgeK.overlapsWith_pre, NudgeK.lowPoint, NudgeK.highPoint, NudgeK.lowPoint_pre, NudgeK.highPoint_pre, toK, ptOf, earlyExitPre] <;>
    simp <;> (repeat' split) <;> simp_all

/-- `canAlignWith` -/
theorem gen_canAlignWith_is_model (o : ROpts) (dim : Nat) (a b : RSeg) :
    NudgeK.canAlignWith (toK o dim b) dim (toK o dim a) = canAlignWith a b ∧
    NudgeK.canAlignWith_pre (toK o dim b) dim (toK o dim a) = true := by
  constructor
  · simp only [NudgeK.canAlignWith, canAlignWith, hasCps_toK]
    simp only [toK]
    by_cases hc : a.conn = b.conn <;> simp [hc]
  · simp only [NudgeK.canAlignWith_pre]
    (repeat' split) <;> rfl

/-- `fixedOrder(bool& isFixed)`: the returned order, and the flag is only ever SET
    (`CmpLineOrder` passes one flag to two consecutive calls and relies on this) -/
theorem gen_fixedOrder_is_model (o : ROpts) (dim : Nat) (hd : dim < 2) (s : RSeg) (isFixed : Bool) :
    NudgeK.fixedOrder isFixed (toK o dim s) = ((fixedOrder o.base s).1, isFixed || (fixedOrder o.base s).2) ∧
    NudgeK.fixedOrder_pre isFixed (toK o dim s) = true := by
  rcases dim_cases hd with rfl | rfl <;>
    simp only [NudgeK.fixedOrder, NudgeK.fixedOrder_pre, NudgeK.nudgeDistance, NudgeK.nudgeDistance_pre, NudgeK.lowPoint,
      NudgeK.lowPoint_pre, toK, ptOf, fixedOrder] <;>
    simp <;>
    by_cases hf : s.fixed = true <;> by_cases h1 : s.pos - s.minLim < o.base <;> by_cases h2 : s.maxLim - s.pos < o.base <;>
    simp [hf, h1, h2]

/-- `zigzag`, `immovable`, `lowC`, `highC`, `order` -/
theorem gen_order_is_model (o : ROpts) (dim : Nat) (hd : dim < 2) (s : RSeg) :
    NudgeK.zigzag (toK o dim s) = s.zigzag ∧ NudgeK.immovable (toK o dim s) = !s.zigzag ∧
    NudgeK.lowC (toK o dim s) = lowC s ∧ NudgeK.highC (toK o dim s) = highC s ∧
    NudgeK.order (toK o dim s) = order s ∧ NudgeK.order_pre (toK o dim s) = true := by
  have hz : NudgeK.zigzag (toK o dim s) = s.zigzag := by simp [NudgeK.zigzag, RSeg.zigzag, toK]
  have hl : NudgeK.lowC (toK o dim s) = lowC s := by
    rcases dim_cases hd with rfl | rfl <;>
      simp only [NudgeK.lowC, hz, lowC] <;> simp [NudgeK.lowPoint, toK, ptOf] <;>
      by_cases h : s.minLim = s.pos <;> simp [h]
  have hh : NudgeK.highC (toK o dim s) = highC s := by
    rcases dim_cases hd with rfl | rfl <;>
      simp only [NudgeK.highC, hz, highC] <;> simp [NudgeK.lowPoint, toK, ptOf] <;>
      by_cases h : s.maxLim = s.pos <;> simp [h]
  refine ⟨hz, by simp [NudgeK.immovable, hz], hl, hh, ?_, ?_⟩
  · simp only [NudgeK.order, hl, hh, order]
  · rcases dim_cases hd with rfl | rfl <;>
      simp [NudgeK.order_pre, NudgeK.lowC_pre, NudgeK.highC_pre, NudgeK.zigzag_pre, NudgeK.lowPoint_pre, NudgeK.lowPoint, toK, ptOf]

/-- `createSolverVariable(justUnifying)`: the variable the C++ creates (id, desired position, weight,
    scale 1) is the model's `createVar`, and its two assertions are `createVarPre`. The generated kernel
    computes the zigzag centre `min + (max − min) / 2` exactly, so the bridge is for `rnd = id`. -/
theorem gen_createSolverVariable_is_model (o : ROpts) (hr : ∀ r, o.rnd r = r) (dim : Nat) (hd : dim < 2) (s : RSeg) :
    (NudgeK.createSolverVariable o.justUnifying (toK o dim s)).var_ =
      some ⟨((createVar o s).id : Int), (createVar o s).desired, (createVar o s).weight, 1⟩ ∧
    NudgeK.createSolverVariable_pre o.justUnifying (toK o dim s) = createVarPre o s := by
  have hz : NudgeK.zigzag (toK o dim s) = s.zigzag := by simp [NudgeK.zigzag, RSeg.zigzag, toK]
  have hcp := hasCps_toK o dim s
  constructor
  · rcases dim_cases hd with rfl | rfl <;>
      simp only [NudgeK.createSolverVariable, hz, hcp, createVar, hr] <;>
      simp only [toK, NudgeK.lowPoint, ptOf] <;>
      by_cases h1 : (o.nudgeFinal && s.finalSeg) = true <;> by_cases h2 : s.hasCps = true <;> by_cases h3 : s.zigzag = true <;>
      by_cases h4 : s.fixed = true <;> by_cases h5 : s.finalSeg = true <;> by_cases h6 : (s.single && !o.justUnifying) = true <;>
      simp_all [freeSegmentID, fixedSegmentID, freeWeight, strongWeight, strongerWeight, fixedWeight]
  · rcases dim_cases hd with rfl | rfl <;>
      simp only [NudgeK.createSolverVariable_pre, hz, hcp, createVarPre, NudgeK.zigzag_pre] <;>
      simp only [toK, NudgeK.lowPoint, NudgeK.lowPoint_pre, ptOf] <;>
      by_cases h1 : (o.nudgeFinal && s.finalSeg) = true <;> by_cases h2 : s.hasCps = true <;> by_cases h3 : s.zigzag = true <;>
      by_cases h4 : s.fixed = true <;> by_cases h5 : s.finalSeg = true <;>
      simp_all [channelMax] <;> (try rfl)

/-- `hasCheckpointAtPosition(position, altDim)` -/
theorem gen_hasCheckpointAtPosition_is_model (o : ROpts) (dim : Nat) (hd : dim < 2) (s : RSeg) (position : Rat) :
    NudgeK.hasCheckpointAtPosition position ((dim + 1) % 2) (toK o dim s) = s.hasCpAt position := by
  have h := hasCp_loop position ((dim + 1) % 2) (toK o dim s) (toK o dim s).checkpoints.length
    (toK o dim s).checkpoints.length 0 (by omega)
  unfold NudgeK.hasCheckpointAtPosition loopExit
  simp only [Nat.sub_zero]
  have hany : ((toK o dim s).checkpoints.drop 0).any (fun c => decide (c.getD ((dim + 1) % 2) default = position)) =
      s.hasCpAt position := by
    rcases dim_cases hd with rfl | rfl <;>
      simp [toK, ptOf, RSeg.hasCpAt, List.any_map, Function.comp_def] <;>
      (congr 1)
  rw [hany] at h
  generalize NudgeK.hasCheckpointAtPosition_loop1 position ((dim + 1) % 2) (toK o dim s) (toK o dim s).checkpoints.length
    (toK o dim s).checkpoints.length 0 = r at h
  obtain ⟨r1, r2⟩ := r
  simp only at h
  subst h
  cases s.hasCpAt position <;> rfl

/-- … and its in-bounds obligations (`cp < checkpoints.size()`, coordinate index `< 2`) hold: the `getD` reads of the
    regenerated kernel never fall back to the default on the object of a model segment (fAudit: was missing) -/
theorem gen_hasCheckpointAtPosition_no_assertion (o : ROpts) (dim : Nat) (s : RSeg) (d : Nat) (hd : d < 2) (position : Rat) :
    NudgeK.hasCheckpointAtPosition_pre position d (toK o dim s) = true := by
  unfold NudgeK.hasCheckpointAtPosition_pre
  rw [hasCp_loop_pre position d (toK o dim s) _ (fun c hc => by rw [toK_cp_len o dim s c hc]; exact hd) _ 0 (by omega)]
  generalize NudgeK.hasCheckpointAtPosition_loop1 position d (toK o dim s) (toK o dim s).checkpoints.length
    ((toK o dim s).checkpoints.length - 0) 0 = r
  obtain ⟨r1, r2⟩ := r
  cases r1 <;> rfl

/-- `shouldAlignWith` (calls the regenerated `overlapsWith`, `lowPoint`, `highPoint`,
    `hasCheckpointAtPosition`) -/
theorem gen_shouldAlignWith_is_model (o : ROpts) (dim : Nat) (hd : dim < 2) (a b : RSeg) :
    NudgeK.shouldAlignWith (toK o dim b) dim (toK o dim a) = shouldAlignWith o a b := by
  have pa := gen_points_are_model o dim hd a
  have pb := gen_points_are_model o dim hd b
  simp only [NudgeK.shouldAlignWith, gen_overlapsWith_is_model o dim hd, gen_hasCheckpointAtPosition_is_model o dim hd,
    pa.1, pa.2.2.1, pa.2.2.2.1, pb.1, pb.2.2.1, pb.2.2.2.1, hasCps_toK, earlyExit, shouldAlignWith, AdaptaVerif.Gen.absR, absQ]
  simp only [toK]
  by_cases hc : a.conn = b.conn
  · by_cases hfa : a.finalSeg = true <;> by_cases hfb : b.finalSeg = true <;> by_cases hca : a.hasCps = true <;>
      by_cases hcb : b.hasCps = true <;> by_cases h1 : a.lo = b.hi <;> by_cases h2 : a.hi = b.lo <;>
      by_cases hov : overlapsWith o a b = true <;>
      simp [hc, hfa, hfb, hca, hcb, h1, h2, hov] <;> (repeat' split) <;> simp_all
  · simp [hc]

/-- … and all its in-bounds obligations hold (point reads, the two calls of `hasCheckpointAtPosition`, the call of
    `overlapsWith`) (fAudit: was missing) -/
theorem gen_shouldAlignWith_no_assertion (o : ROpts) (dim : Nat) (hd : dim < 2) (a b : RSeg) :
    NudgeK.shouldAlignWith_pre (toK o dim b) dim (toK o dim a) = true := by
  have hp : ∀ (x : RSeg) (t : Rat), NudgeK.hasCheckpointAtPosition_pre t ((dim + 1) % 2) (toK o dim x) = true :=
    fun x t => gen_hasCheckpointAtPosition_no_assertion o dim x _ (Nat.mod_lt _ (by decide)) t
  have hov := gen_overlapsWith_no_assertion o dim hd a b
  rcases dim_cases hd with rfl | rfl <;>
    simp only [NudgeK.shouldAlignWith_pre, hov, hp, NudgeK.lowPoint, NudgeK.highPoint, NudgeK.lowPoint_pre, NudgeK.highPoint_pre] <;>
    simp [toK, ptOf, earlyExitPre] <;> (repeat' split) <;> simp_all

-- non-vacuity of the hypothesis `hr` of `gen_createSolverVariable_is_model` (exact arithmetic: `rnd = id`), on a zigzag
-- segment (the only branch that rounds): the centre of [0, 30]
example : (NudgeK.createSolverVariable false (toK ⟨false, true, false, 0, fun _ _ => false, false, 10, id⟩ 0
      ⟨1, 0, 100, 5, 0, 30, false, false, false, false, true, false, []⟩)).var_ =
    some ⟨0, 15, freeWeight, 1⟩ := by
  rw [(gen_createSolverVariable_is_model ⟨false, true, false, 0, fun _ _ => false, false, 10, id⟩ (fun _ => rfl) 0 (by decide)
    ⟨1, 0, 100, 5, 0, 30, false, false, false, false, true, false, []⟩).1]
  decide +kernel

end AdaptaVerif.Props.C10Tie
