/-
C13 — `validTurn` and `PruneDegenerate::operator()` of
cola/libtopology/topology_constraints_constructor.cpp are regenerated from /repo's source on every
run (check/props/C13.py, `_gen_prune_rule` → `Gen/TopoPruneRule.lean`: the crossProduct arguments
and the sign tests of `validTurn`; the three prune conditions and the two COLA_ASSERTs of
`PruneDegenerate`).  The theorems below prove the regenerated functions equal to the hand model
Model/TopoPrune.lean, about which Props/C13Prune.lean states the guarantees (a point of a coincident
pair survives only if the turn from the point before the pair to the point after it goes round its
own node; the two zero-length branches are mirror images; end points are never pruned).
A change of an argument of one of the `validTurn` calls or of a condition breaks these proofs.
-/
import AdaptaVerif.Gen.TopoPruneRule
import AdaptaVerif.Model.TopoPrune
namespace AdaptaVerif.Props.C13PruneTie
open AdaptaVerif.Model.TopoPrune AdaptaVerif.Gen.TopoPruneRule

/-- the regenerated `validTurn` is the model -/
theorem gen_validTurn_is_model (u v w : BPt) : validTurnGen u v w = validTurn u v w := by
  unfold validTurnGen validTurn
  by_cases h : cross u.x u.y v.x v.y w.x w.y = 0 <;> simp [h]

/-- the regenerated decision of `PruneDegenerate::operator()` (is `p` put on the prune list?) is the model -/
theorem gen_pruned_is_model (dim : Nat) (n? : Option BPt) (o p q : BPt) (r? : Option BPt) :
    prunedGen dim n? o p q r? = pruned dim n? o p q r? := by
  unfold prunedGen pruned collinearRule inRule outRule
  cases n? <;> cases r? <;> cases samePos o p <;> cases samePos p q <;>
    simp [gen_validTurn_is_model]

/-- the regenerated `COLA_ASSERT`s of the two zero-length branches are the model's -/
theorem gen_asserts_is_model (n? : Option BPt) (o p q : BPt) (r? : Option BPt) :
    assertsGen n? o p q r? = assertsOk n? o p q r? := by
  unfold assertsGen assertsOk inRule outRule
  cases n? <;> cases r? <;> cases samePos o p <;> cases samePos p q <;>
    simp [gen_validTurn_is_model]

end AdaptaVerif.Props.C13PruneTie
