/-
C08 — tie theorem: `Rectangle::overlapX/overlapY` (libvpsc/rectangle.h), which
`NonOverlapConstraints::generateSeparationConstraints` compares with its 0.0005 threshold, as
regenerated from /repo by cpp2lean on every run and evaluated with zero borders, is the overlap
function `Rect.overlapD` of Model/Compound.lean that the C08 theorems (`pair_none_small_overlap`,
`pair_some_separates`, …) are about; likewise the centres the node variables are created from.
-/
import AdaptaVerif.Gen.RectK
import AdaptaVerif.Model.Compound
namespace AdaptaVerif.Props.C08Tie
open AdaptaVerif.Gen

/-- the same four numbers, as the rectangle type of the scan-line model (which Gen/RectK uses) -/
def toS (r : AdaptaVerif.Model.Compound.Rect) : AdaptaVerif.Model.Scanline.Rect := ⟨r.minX, r.maxX, r.minY, r.maxY⟩

theorem gen_centre_is_model (r : AdaptaVerif.Model.Compound.Rect) :
    RectK.getCentreX (toS r) 0 0 = r.centre .x ∧ RectK.getCentreY (toS r) 0 0 = r.centre .y := by
  constructor
  · simp only [RectK.getCentreX, RectK.getMinX, RectK.width, RectK.getMaxX, toS,
      AdaptaVerif.Model.Compound.Rect.centre, AdaptaVerif.Model.Compound.Rect.width]; grind
  · simp only [RectK.getCentreY, RectK.getMinY, RectK.height, RectK.getMaxY, toS,
      AdaptaVerif.Model.Compound.Rect.centre, AdaptaVerif.Model.Compound.Rect.height]; grind

theorem gen_overlap_is_model (u v : AdaptaVerif.Model.Compound.Rect) :
    RectK.overlapX (toS v) (toS u) 0 0 = u.overlapD v .x ∧ RectK.overlapY (toS v) (toS u) 0 0 = u.overlapD v .y := by
  have cx := fun r => (gen_centre_is_model r).1
  have cy := fun r => (gen_centre_is_model r).2
  have e2 : ∀ r, RectK.getMinX (toS r) 0 0 = r.min .x := fun r => by simp only [RectK.getMinX, toS, AdaptaVerif.Model.Compound.Rect.min]; grind
  have e3 : ∀ r, RectK.getMaxX (toS r) 0 0 = r.max .x := fun r => by simp only [RectK.getMaxX, toS, AdaptaVerif.Model.Compound.Rect.max]; grind
  have f2 : ∀ r, RectK.getMinY (toS r) 0 0 = r.min .y := fun r => by simp only [RectK.getMinY, toS, AdaptaVerif.Model.Compound.Rect.min]; grind
  have f3 : ∀ r, RectK.getMaxY (toS r) 0 0 = r.max .y := fun r => by simp only [RectK.getMaxY, toS, AdaptaVerif.Model.Compound.Rect.max]; grind
  constructor
  · simp only [RectK.overlapX, AdaptaVerif.Model.Compound.Rect.overlapD, AdaptaVerif.Model.Compound.overlap1, cx, e2, e3,
      Bool.and_eq_true, decide_eq_true_eq]
  · simp only [RectK.overlapY, AdaptaVerif.Model.Compound.Rect.overlapD, AdaptaVerif.Model.Compound.overlap1, cy, f2, f3,
      Bool.and_eq_true, decide_eq_true_eq]

end AdaptaVerif.Props.C08Tie
