/-
C10 — the region model of `nudgeOrthogonalRoutes` (Model/NudgeRegion.lean: what the code hands to the
VPSC solver for one region, tied to the C++ on every run through the hook dump and, for the scalar
kernels, through Props/C10Tie.lean). Property theorems only (helpers: Lemmas/NudgeRegion.lean).

The abstract theorems of Props/C10.lean are lifted, not restated: the constraint generator is generic
in the segment type (`genG`); `genCons_is_genG` shows the abstract model of Props/C10 is one instance,
`regionCons` (the real segment record with the real `overlapsWith` / `shouldAlignWith` /
`canAlignWith` / common-end rules) is the other, and both get their theorems from the same lemmas.

For ALL ordered segment lists, options, separation distances and solver outputs:
  `genG_constraint`            the constraint generated for an ordered, overlapping, not-both-fixed pair holds
                               in every assignment satisfying the generated list (equality or inequality);
  `region_separation_again`    Props/C10.region_separation re-derived from the generic theorem;
  `flat_holds_iff`             the numbered solver constraint means the structured one;
  `region_separation_R`        real region: overlapping, ordered, different connectors (no common-end
                               exemption) ⇒ x_j + sepDist ≤ x_i for the solver variables;
  `region_alignment_R`         pairs the code aligns (shouldAlignWith / common end point) get x_j = x_i;
  `retry_invariant`            every state of the retry loop has the constraints of the first attempt with
                               positive gaps ≥ the current distance (∀ solver answers, ∀ rounding that does
                               not increase the distance);
  `retry_separation`           hence in EVERY attempt a solver output satisfying the current constraints
                               separates such pairs by the current (reduced) distance;
  `retry_distance_threshold`   the loop only retries with a distance > 0.0001;
  `retry_distance_bounds`      exact arithmetic: the distance of every attempt is in [base/10, base];
  `retry_limits`               channel constraints survive the rewriting: within tol of its channel-edge
                               variables every free segment is within tol of its limits;
  `first_attempt_uses_base_distance`, `pass_regions_independent`, `pass_states_reachable`
                               the pass (`runPass`) carries nothing from one region to the next: every region's first
                               attempt uses the ideal nudging distance, its trace depends on the region alone, and
                               every solver call happens in a state the retry theorems cover;
  `satisfied_no_retry`         a satisfied round ends the loop with distance and constraints unchanged;
  `unify_only_free_equalities` the unifying pass only ever adds equalities (gap 0) between two different
                               variables of weight freeWeight (∀ solver answers);
  `region_formation_closed`, `regions_do_not_overlap`, `overlapsWith_symm`
                               the loop that grows a region (restart after every addition) ends closed, so no
                               segment of a later region overlaps one of an earlier region (soundness of the
                               cross-region check of the driver), ∀ overlap predicates and lists;
  `linesort_respects_rules`    the insertion sort `linesort`, with ANY comparator that agrees with the position /
                               fixedOrder / order rules of `CmpLineOrder`, never violates the order check the
                               driver applies to every dumped region (soundness of that check);
  `written_fixed`, `written_unsatisfied`, `written_in_limits`, `written_close`, `applied_separation_R`
                               the write-back rule: fixed segments and unsatisfied regions are never written,
                               written positions are inside [minSpaceLimit, maxSpaceLimit] and the
                               separation survives clamping up to 2·tol.
-/
import AdaptaVerif.Lemmas.NudgeRegion
import AdaptaVerif.Props.C10
namespace AdaptaVerif.Props.C10Region
open AdaptaVerif.Model.Nudge AdaptaVerif.Model.NudgeRegion AdaptaVerif.Lemmas.NudgeRegion
open AdaptaVerif.Spec.Nudge

/-- the abstract model of Model/Nudge.lean is an instance of the generic generator -/
theorem genCons_is_genG (p : Params) (segs : List Seg) : genCons p segs = genG (absP p) segs :=
  genFrom_eq_genFromG p segs [] 0

/-- generic: the constraint of an ordered overlapping pair (not both fixed) holds in every assignment
    that satisfies the generated list -/
theorem genG_constraint {α : Type} (g : GenP α) (segs : List α) (sol : Sol) (h : ∀ c ∈ genG g segs, c.holds sol)
    (j i : Nat) (a b : α) (hj : segs[j]? = some a) (hi : segs[i]? = some b) (hji : j < i)
    (hov : g.ov b a = true) (hfix : g.fixed b = false ∨ g.fixed a = false) :
    if (g.gap a b).2 then sol.x j + (g.gap a b).1 = sol.x i else sol.x j + (g.gap a b).1 ≤ sol.x i := by
  have := h _ (sep_mem_genG g segs j i a b hj hi hji hov hfix)
  simpa [Cons.holds] using this

/-- Props/C10.region_separation, obtained from the generic theorem through `genCons_is_genG` -/
theorem region_separation_again (p : Params) (segs : List Seg) (sol : Sol) (h : AllHold p segs sol)
    (j i : Nat) (a b : Seg) (hj : segs[j]? = some a) (hi : segs[i]? = some b) (hji : j < i)
    (hov : overlaps b a = true) (hfix : b.fixed = false ∨ a.fixed = false) (hfull : FullGap p a b) :
    sol.x j + p.sepDist ≤ sol.x i := by
  have h' : ∀ c ∈ genG (absP p) segs, c.holds sol := by
    rw [← genCons_is_genG]; exact h
  have := genG_constraint (absP p) segs sol h' j i a b hj hi hji hov hfix
  have hg : (absP p).gap a b = (p.sepDist, false) := AdaptaVerif.Lemmas.Nudge.gapFor_full p a b hfull
  rw [hg] at this
  simpa using this

/-- the numbered constraint handed to the solver means the structured one -/
theorem flat_holds_iff (segs : List RSeg) (pos : Nat → Rat) (c : Cons) :
    (flat segs c).holds pos ↔ c.holds (solOf segs pos) := by
  cases c with
  | sep j i gap eq => cases eq <;> simp [flat, FCon.holds, Cons.holds, solOf]
  | lower i l => simp [flat, FCon.holds, Cons.holds, solOf]
  | upper i u => simp [flat, FCon.holds, Cons.holds, solOf]

/-- real region, one attempt with distance `d`: ordered overlapping segments of different connectors
    (not exempted by the common-end-point rule) are at least `d` apart in every solver output that
    satisfies the constraints handed to the solver -/
theorem region_separation_R (o : ROpts) (d : Rat) (segs : List RSeg) (pos : Nat → Rat)
    (h : AllHoldF ((regionCons o d segs).map (flat segs)) pos)
    (j i : Nat) (a b : RSeg) (hj : segs[j]? = some a) (hi : segs[i]? = some b) (hji : j < i)
    (hov : overlapsWith o b a = true) (hfix : b.fixed = false ∨ a.fixed = false) (hfull : FullGapR o a b) :
    pos (varIdx segs j) + d ≤ pos (varIdx segs i) := by
  have hm := sep_mem_genG (regionP o d) segs j i a b hj hi hji hov hfix
  have hg : (regionP o d).gap a b = (d, false) := gapOf_full o d a b hfull
  rw [hg] at hm
  have := h _ (List.mem_map_of_mem hm)
  simpa [flat, FCon.holds] using this

/-- pairs the code aligns (`shouldAlignWith`, or a shared path with a common end point while
    nudgeSharedPathsWithCommonEndPoint is off) are held at the same position -/
theorem region_alignment_R (o : ROpts) (d : Rat) (segs : List RSeg) (pos : Nat → Rat)
    (h : AllHoldF ((regionCons o d segs).map (flat segs)) pos)
    (j i : Nat) (a b : RSeg) (hj : segs[j]? = some a) (hi : segs[i]? = some b) (hji : j < i)
    (hov : overlapsWith o b a = true) (hfix : b.fixed = false ∨ a.fixed = false)
    (halign : gapOf o d a b = (0, true)) :
    pos (varIdx segs j) = pos (varIdx segs i) := by
  have hm := sep_mem_genG (regionP o d) segs j i a b hj hi hji hov hfix
  have hg : (regionP o d).gap a b = (0, true) := halign
  rw [hg] at hm
  have := h _ (List.mem_map_of_mem hm)
  simpa [flat, FCon.holds] using this

/-- invariant of the retry loop, for every sequence of solver answers.
    `hmono` (the reduction does not increase the distance) is asked only for the distances that OCCUR, i.e. at the states
    of the loop (fAudit: it used to be `∀ s : Rat, nextSep o s ≤ s`, which is false for the rounding the driver passes —
    `roundDouble`, e.g. base 10, s = 2^60 − 1/4: see the `example` below — so the retry theorems said nothing for it;
    for exact arithmetic `reduction_nonincreasing_exact` gives it for all `s`) -/
theorem retry_invariant (o : ROpts) (segs : List RSeg) (vars : List Var)
    (hmono : ∀ s, Reach o vars (initState o segs) s → nextSep o s.sepDist ≤ s.sepDist)
    (st : NState) (hreach : Reach o vars (initState o segs) st) :
    StateInv (initState o segs).cons st := by
  induction hreach with
  | start => exact stateInv_init o segs
  | step fps hprev hstep _ ih => exact nudgeStep_inv o vars _ _ fps _ hstep (hmono _ hprev) ih

-- the old, unbounded form of `hmono` is NOT satisfiable with IEEE rounding (closed witness, kernel-evaluated)
example : ¬ (∀ s, nextSep ⟨false, true, false, 0, fun _ _ => false, false, 10, roundDouble⟩ s ≤ s) :=
  fun h => absurd (h ((2 ^ 60 : Rat) - 1 / 4)) (by decide +kernel)

/-- in every attempt of the retry loop: a solver output satisfying the constraints of that attempt
    separates ordered overlapping segments of different connectors by the distance of that attempt -/
theorem retry_separation (o : ROpts) (segs : List RSeg) (vars : List Var) (hb : 0 < o.base)
    (hmono : ∀ s, Reach o vars (initState o segs) s → nextSep o s.sepDist ≤ s.sepDist)
    (st : NState) (hreach : Reach o vars (initState o segs) st)
    (pos : Nat → Rat) (h : AllHoldF st.cons pos)
    (j i : Nat) (a b : RSeg) (hj : segs[j]? = some a) (hi : segs[i]? = some b) (hji : j < i)
    (hov : overlapsWith o b a = true) (hfix : b.fixed = false ∨ a.fixed = false) (hfull : FullGapR o a b) :
    pos (varIdx segs j) + st.sepDist ≤ pos (varIdx segs i) := by
  have hinv := retry_invariant o segs vars hmono st hreach
  have hm := sep_mem_genG (regionP o o.base) segs j i a b hj hi hji hov hfix
  have hg : (regionP o o.base).gap a b = (o.base, false) := gapOf_full o o.base a b hfull
  rw [hg] at hm
  have hm0 : flat segs (Cons.sep j i o.base false) ∈ (initState o segs).cons := List.mem_map_of_mem hm
  obtain ⟨c, hc, hl, hr, he, _, hp⟩ := forall2_mem_left hinv _ hm0
  have hh := h c hc
  simp only [flat] at hl hr he hp
  have hgap := hp hb
  unfold FCon.holds at hh
  rw [he] at hh
  simp only [Bool.false_eq_true, if_false, hl, hr] at hh
  linarith

/-- the loop only goes round again with a distance above the threshold 0.0001 -/
theorem retry_distance_threshold (o : ROpts) (segs : List RSeg) (vars : List Var)
    (st : NState) (hreach : Reach o vars (initState o segs) st) :
    st.sepDist = o.base ∨ tolD < st.sepDist := by
  cases hreach with
  | start => left; rfl
  | step fps _ hstep hr => right; exact (nudgeStep_retry o vars _ fps _ hstep hr).1

/-- exact arithmetic (`rnd = id`): every attempt is made with one of the distances
    base − k·base/10, k ≤ 9, hence with at least a tenth of the ideal nudging distance
    (lifts Props/C10.sepAfter_bounds to the loop of the model) -/
theorem retry_distance_bounds (o : ROpts) (hr : ∀ r, o.rnd r = r) (hb : 0 < o.base) (segs : List RSeg)
    (vars : List Var) (st : NState) (hreach : Reach o vars (initState o segs) st) :
    o.base / 10 ≤ st.sepDist ∧ st.sepDist ≤ o.base ∧ 0 < st.sepDist := by
  have key : ∃ k : Nat, st.sepDist = sepAfter o.base k ∧ (k = 0 ∨ tolD < st.sepDist) := by
    induction hreach with
    | start => exact ⟨0, by simp [initState, sepAfter], Or.inl rfl⟩
    | step fps _ hstep hret ih =>
      obtain ⟨k, hk, _⟩ := ih
      obtain ⟨h1, h2, _⟩ := nudgeStep_retry o vars _ fps _ hstep hret
      refine ⟨k + 1, ?_, Or.inr h1⟩
      rw [h2]
      unfold nextSep
      rw [hr, hr, hk]
      unfold sepAfter
      push_cast
      ring
  obtain ⟨k, hk, hpos⟩ := key
  have htol : (0 : Rat) < tolD := by unfold tolD; norm_num
  have hk9 : k ≤ 9 := by
    by_contra hcon
    have hk10 : (10 : Rat) ≤ (k : Rat) := by exact_mod_cast (Nat.lt_of_not_le hcon)
    rcases hpos with h0 | hgt
    · omega
    · rw [hk] at hgt
      unfold sepAfter at hgt
      have h10 : 0 < o.base / 10 := by positivity
      have : (10 : Rat) * (o.base / 10) ≤ (k : Rat) * (o.base / 10) := mul_le_mul_of_nonneg_right hk10 (le_of_lt h10)
      linarith
  obtain ⟨h1, h2⟩ := AdaptaVerif.Props.C10.sepAfter_bounds o.base hb k hk9
  rw [hk]
  refine ⟨h1, ?_, h2⟩
  unfold sepAfter
  have h10 : 0 ≤ o.base / 10 := by positivity
  have : 0 ≤ (k : Rat) * (o.base / 10) := mul_nonneg (by positivity) h10
  linarith

/-- the channel constraints survive the gap rewriting: in every attempt, a free segment whose
    channel-edge variables ended within `tol` of the limits is itself within `tol` of the limits -/
theorem retry_limits (o : ROpts) (segs : List RSeg) (vars : List Var)
    (hmono : ∀ s, Reach o vars (initState o segs) s → nextSep o s.sepDist ≤ s.sepDist)
    (st : NState) (hreach : Reach o vars (initState o segs) st)
    (pos : Nat → Rat) (h : AllHoldF st.cons pos) (tol : Rat)
    (i : Nat) (s : RSeg) (hi : segs[i]? = some s) (hf : s.fixed = false) :
    (∀ l, s.lower = some l → absQ (pos (clIdx segs i) - l) ≤ tol → l - tol ≤ pos (varIdx segs i)) ∧
    (∀ u, s.upper = some u → absQ (pos (crIdx segs i) - u) ≤ tol → pos (varIdx segs i) ≤ u + tol) := by
  have hinv := retry_invariant o segs vars hmono st hreach
  constructor
  · intro l hl habs
    have hm := lower_mem_genG (regionP o o.base) segs i s l hi hf hl
    have hm0 : flat segs (Cons.lower i l) ∈ (initState o segs).cons := List.mem_map_of_mem hm
    obtain ⟨c, hc, hcl, hcr, he, hz, _⟩ := forall2_mem_left hinv _ hm0
    have hh := h c hc
    simp only [flat] at hcl hcr he hz
    unfold FCon.holds at hh
    rw [he, hz (le_refl 0)] at hh
    simp only [Bool.false_eq_true, if_false, hcl, hcr] at hh
    have := absQ_le habs
    linarith [this.1]
  · intro u hu habs
    have hm := upper_mem_genG (regionP o o.base) segs i s u hi hf hu
    have hm0 : flat segs (Cons.upper i u) ∈ (initState o segs).cons := List.mem_map_of_mem hm
    obtain ⟨c, hc, hcl, hcr, he, hz, _⟩ := forall2_mem_left hinv _ hm0
    have hh := h c hc
    simp only [flat] at hcl hcr he hz
    unfold FCon.holds at hh
    rw [he, hz (le_refl 0)] at hh
    simp only [Bool.false_eq_true, if_false, hcl, hcr] at hh
    have := absQ_le habs
    linarith [this.2]

/-- a satisfied round ends the loop and leaves distance and constraints as they were solved -/
theorem satisfied_no_retry (o : ROpts) (vars : List Var) (st : NState) (fps : List Rat)
    (out : StepOut NState) (hstep : nudgeStep o vars st fps = some out) (hs : out.satisfied = true) :
    out.retry = false ∧ out.next.sepDist = st.sepDist ∧ out.next.cons = st.cons :=
  nudgeStep_satisfied o vars st fps out hstep hs

/-! ### the pass: no state is carried from one region to the next -/

/-- in a nudging pass (`runPass`: the loop over the regions of one dimension) the FIRST attempt of every region
    is made with the ideal nudging distance and the constraints generated with it — whatever the regions
    processed before it were, and whatever the solver answered for them (a region that had to reduce its
    distance, or gave up at ~0, does not hand that distance on; seeded change C10-5 moved the declaration
    of `sepDist` out of the per-region loop) -/
theorem first_attempt_uses_base_distance (o : ROpts) (before after : List (List RSeg × List (List Rat)))
    (segs : List RSeg) (answers : List (List Rat)) :
    ∃ tail, (runPass o (before ++ (segs, answers) :: after))[before.length]? = some (initState o segs :: tail) ∧
      (initState o segs).sepDist = o.base ∧
      (initState o segs).cons = (regionCons o o.base segs).map (flat segs) ∧ (initState o segs).ranges = [] := by
  have hlen : before.length < (before ++ (segs, answers) :: after).length := by simp
  have hget : (before ++ (segs, answers) :: after)[before.length]? = some (segs, answers) := by simp
  unfold runPass
  rw [List.getElem?_map, hget]
  cases answers with
  | nil => exact ⟨[], rfl, rfl, rfl, rfl⟩
  | cons fps rest => exact ⟨_, rfl, rfl, rfl, rfl⟩

/-- the whole trace of a region depends on that region alone -/
theorem pass_regions_independent (o : ROpts) (before before' after after' : List (List RSeg × List (List Rat)))
    (r : List RSeg × List (List Rat)) :
    (runPass o (before ++ r :: after))[before.length]? = (runPass o (before' ++ r :: after'))[before'.length]? := by
  unfold runPass
  simp [List.getElem?_map]

/-- every solver call of every region of a pass happens in a state covered by the retry theorems
    (`retry_separation`, `retry_limits`, … with the region's own start state) -/
theorem pass_states_reachable (o : ROpts) (regions : List (List RSeg × List (List Rat))) (k : Nat)
    (segs : List RSeg) (answers : List (List Rat)) (hk : regions[k]? = some (segs, answers)) (tr : List NState)
    (htr : (runPass o regions)[k]? = some tr) :
    ∀ s ∈ tr, Reach o (regionVars o segs) (initState o segs) s := by
  unfold runPass at htr
  rw [List.getElem?_map, hk] at htr
  simp only [Option.map_some, Option.some.injEq] at htr
  subst htr
  exact regionTrace_reach o _ _ answers _ Reach.start

/-- non-vacuity: a narrow region (two attempts: 10, then 9) followed by a wide one: the wide one starts at 10 -/
example :
    (runPass ⟨false, true, false, 0, fun _ _ => false, false, 10, id⟩
      [([⟨3, 0, 100, 5, 0, 5, false, false, false, false, false, false, []⟩,
         ⟨4, 50, 150, 5, 0, 5, false, false, false, false, false, false, []⟩], [[0, 0, 5, 10, 0, 10], [0, 0, 5, 9, 0, 9]]),
       ([⟨1, 0, 100, 5, 0, 30, false, false, false, false, false, false, []⟩,
         ⟨2, 50, 150, 5, 0, 30, false, false, false, false, false, false, []⟩], [[0, 0, 30, 10, 0, 30]])]).map
      (fun tr => tr.map (·.sepDist)) = [[10, 9, 8], [10]] := by
  decide +kernel

/-! ### write-back -/

/-- fixed segments are never written -/
theorem written_fixed (sat : Bool) (s : RSeg) (x : Rat) (hf : s.fixed = true) : written sat s x = s.pos := by
  unfold written; simp [hf]

/-- nothing is written when the region ended unsatisfied -/
theorem written_unsatisfied (s : RSeg) (x : Rat) : written false s x = s.pos := by
  unfold written; simp

/-- a written position is inside `[minSpaceLimit, maxSpaceLimit]` -/
theorem written_in_limits (s : RSeg) (x : Rat) (hf : s.fixed = false) (hlu : s.minLim ≤ s.maxLim) :
    s.minLim ≤ written true s x ∧ written true s x ≤ s.maxLim := by
  unfold written clampR
  simp only [hf, if_true, Bool.false_eq_true, if_false]
  exact ⟨le_min (le_max_right _ _) hlu, min_le_right _ _⟩

/-- clamping moves a position that is within `tol` of the limit range by at most `tol` -/
theorem written_close (s : RSeg) (x tol : Rat) (ht : 0 ≤ tol) (hf : s.fixed = false) (hlu : s.minLim ≤ s.maxLim)
    (h1 : s.minLim - tol ≤ x) (h2 : x ≤ s.maxLim + tol) :
    -tol ≤ written true s x - x ∧ written true s x - x ≤ tol := by
  unfold written clampR
  simp only [hf, if_true, Bool.false_eq_true, if_false]
  constructor
  · rcases max_cases x s.minLim with ⟨h, _⟩ | ⟨h, _⟩ <;> rcases min_cases (max x s.minLim) s.maxLim with ⟨h', _⟩ | ⟨h', _⟩ <;>
      rw [h'] <;> (try rw [h]) <;> linarith
  · rcases max_cases x s.minLim with ⟨h, _⟩ | ⟨h, _⟩ <;> rcases min_cases (max x s.minLim) s.maxLim with ⟨h', _⟩ | ⟨h', _⟩ <;>
      rw [h'] <;> (try rw [h]) <;> linarith

/-- after write-back the separation of the successful attempt survives up to 2·tol, for two segments
    whose written positions are within `tol` of the solver's (for free segments: `written_close` with
    `retry_limits`; for fixed ones: the `satisfied` test) -/
theorem applied_separation_R (o : ROpts) (segs : List RSeg) (vars : List Var) (hb : 0 < o.base)
    (hmono : ∀ s, Reach o vars (initState o segs) s → nextSep o s.sepDist ≤ s.sepDist)
    (st : NState) (hreach : Reach o vars (initState o segs) st)
    (pos : Nat → Rat) (h : AllHoldF st.cons pos) (tol : Rat)
    (j i : Nat) (a b : RSeg) (hj : segs[j]? = some a) (hi : segs[i]? = some b) (hji : j < i)
    (hov : overlapsWith o b a = true) (hfix : b.fixed = false ∨ a.fixed = false) (hfull : FullGapR o a b)
    (ha : -tol ≤ written true a (pos (varIdx segs j)) - pos (varIdx segs j) ∧
          written true a (pos (varIdx segs j)) - pos (varIdx segs j) ≤ tol)
    (hbb : -tol ≤ written true b (pos (varIdx segs i)) - pos (varIdx segs i) ∧
          written true b (pos (varIdx segs i)) - pos (varIdx segs i) ≤ tol) :
    written true a (pos (varIdx segs j)) + (st.sepDist - 2 * tol) ≤ written true b (pos (varIdx segs i)) := by
  have := retry_separation o segs vars hb hmono st hreach pos h j i a b hj hi hji hov hfix hfull
  linarith [ha.1, ha.2, hbb.1, hbb.2]

/-- the `satisfied` test: in a satisfied round every solver variable that is not a free segment (fixed
    segments, channel edges) ended within 0.0001 of its desired position.  (Stated over `vars.zip fps`: variables
    and solver answers are paired positionally, so "every variable" needs `fps.length = vars.length` — the driver
    passes one final position per variable; a shorter `fps` leaves the unpaired variables untested.) -/
theorem satisfied_close (o : ROpts) (vars : List Var) (st : NState) (fps : List Rat)
    (out : StepOut NState) (hstep : nudgeStep o vars st fps = some out) (hs : out.satisfied = true) :
    ∀ vf ∈ vars.zip fps, vf.1.id ≠ freeSegmentID → absQ (vf.2 - vf.1.desired) ≤ tolD :=
  nudgeStep_satisfied_close o vars st fps out hstep hs

/-- in exact arithmetic the hypothesis `hmono` of the retry theorems holds for every non-negative
    ideal nudging distance (the code asserts `baseSepDist >= 0`) -/
theorem reduction_nonincreasing_exact (o : ROpts) (hr : ∀ r, o.rnd r = r) (hb : 0 ≤ o.base) (s : Rat) :
    nextSep o s ≤ s := nextSep_le_exact o hr hb s

/-! ### the unifying pass -/

/-- the unifying pass, for every sequence of solver answers: every constraint it ever hands to the solver is
    an equality with gap 0 between two DIFFERENT variables that both carry the weight `freeWeight` (free,
    non-final, checkpoint-free segments and zigzag centres); fixed segments, strong-weight segments and
    checkpoint segments are never tied to anything in this pass -/
theorem unify_only_free_equalities (o : ROpts) (segs : List RSeg) (st : UState)
    (h : UReach o (unifyVars o segs) (unifyInit o segs) st) :
    ∀ c ∈ st.cons, c.eq = true ∧ c.gap = 0 ∧ c.left ≠ c.right ∧
      (∃ v, (unifyVars o segs)[c.left]? = some v ∧ v.weight = freeWeight) ∧
      (∃ v, (unifyVars o segs)[c.right]? = some v ∧ v.weight = freeWeight) := by
  have key : (∀ p ∈ st.pots, p ∈ (unifyInit o segs).pots) ∧
      (∀ c ∈ st.cons, c.eq = true ∧ c.gap = 0 ∧ c.left ≠ c.right ∧ (c.left, c.right) ∈ (unifyInit o segs).pots) := by
    induction h with
    | start => exact ⟨fun p hp => hp, fun c hc => by simp [unifyInit] at hc⟩
    | step fps _ hstep ih =>
      obtain ⟨hp, hc⟩ := unifyStep_shape o _ _ fps _ hstep
      refine ⟨fun p hpm => ih.1 p (hp p hpm), ?_⟩
      intro c hcm
      rcases hc c hcm with hold | ⟨he, hg, hne, hmem⟩
      · exact ih.2 c hold
      · exact ⟨he, hg, hne, ih.1 _ hmem⟩
  intro c hc
  obtain ⟨he, hg, hne, hmem⟩ := key.2 c hc
  obtain ⟨ha, hb⟩ := unifyInit_pots o segs c.left c.right hmem
  exact ⟨he, hg, hne, ha, hb⟩

/-- non-vacuity: a unifying round on three free zigzag segments adds the equality of the two closest ones -/
example :
    (unifyStep ⟨false, true, false, 0, fun _ _ => false, true, 10, id⟩
      (unifyVars ⟨false, true, false, 0, fun _ _ => false, true, 10, id⟩
        [⟨1, 0, 100, 5, 0, 30, false, false, false, false, true, false, []⟩,
         ⟨2, 50, 150, 5, 0, 34, false, false, false, false, true, false, []⟩,
         ⟨3, 60, 160, 5, 0, 50, false, false, false, false, false, true, []⟩])
      (unifyInit ⟨false, true, false, 0, fun _ _ => false, true, 10, id⟩
        [⟨1, 0, 100, 5, 0, 30, false, false, false, false, true, false, []⟩,
         ⟨2, 50, 150, 5, 0, 34, false, false, false, false, true, false, []⟩,
         ⟨3, 60, 160, 5, 0, 50, false, false, false, false, false, true, []⟩])
      [15, 17, 25]).map (fun out => (out.retry, out.next.cons, out.next.pots)) =
    some (true, [⟨0, 1, 0, true⟩], [(0, 1), (1, 2), (0, 2)]) := by
  decide +kernel

/-! ### region formation: soundness of the cross-region check the driver runs on every pass -/

/-- `overlapsWith` is symmetric -/
theorem overlapsWith_symm (o : ROpts) (a b : RSeg) : overlapsWith o a b = overlapsWith o b a := by
  unfold overlapsWith limitsMeet
  by_cases h1 : a.lo < b.hi <;> by_cases h2 : b.lo < a.hi <;> by_cases h3 : a.minLim ≤ b.maxLim <;>
    by_cases h4 : b.minLim ≤ a.maxLim <;> by_cases h5 : a.lo = b.hi <;> by_cases h6 : b.lo = a.hi <;>
    by_cases h7 : b.conn = a.conn <;> simp [h1, h2, h3, h4, h5, h6, h7] <;> grind

/-- the loop that grows `currentRegion` (restart after every addition), ∀ overlap predicates and lists:
    when it stops, no segment left in the list overlaps any segment of the region -/
theorem region_formation_closed {α : Type} (ov : α → α → Bool) (l : List α) :
    ∀ x ∈ (formRegion ov l).2, ∀ t ∈ (formRegion ov l).1, ov x t = false := by
  cases l with
  | nil => intro x hx; cases hx
  | cons y rest => exact formLoop_closed ov rest.length [y] rest (Nat.le_refl _)

/-- hence no segment of a later region of the pass overlaps a segment of an earlier one: the check the
    driver applies to the dumped regions of every pass cannot alarm on a correct implementation -/
theorem regions_do_not_overlap {α : Type} (ov : α → α → Bool) : ∀ (fuel : Nat) (l : List α),
    List.Pairwise (fun r1 r2 => ∀ x ∈ r2, ∀ t ∈ r1, ov x t = false) (formAll ov fuel l) := by
  intro fuel
  induction fuel with
  | zero => intro l; exact List.Pairwise.nil
  | succ n ih =>
    intro l
    cases l with
    | nil => exact List.Pairwise.nil
    | cons y rest =>
      unfold formAll
      refine List.Pairwise.cons ?_ (ih _)
      intro r2 hr2 x hx t ht
      exact region_formation_closed ov (y :: rest) x (formAll_mem ov n _ r2 hr2 x hx) t ht

/-- non-vacuity: three segments, the first and third overlap only through the second: one region of all three
    (the restart finds the third), a fourth far away forms its own -/
example : formAll (fun (a b : Nat × Nat) => decide (a.1 < b.2) && decide (b.1 < a.2)) 4 [(0, 10), (18, 30), (8, 20), (50, 60)] =
    [[(0, 10), (8, 20), (18, 30)], [(50, 60)]] := by
  decide +kernel

/-! ### linesort: soundness of the order check the driver runs on every dumped region -/

/-- `linesort` (insertion with a partial comparator, deferral of incomparable elements) with ANY
    comparator — in particular `CmpLineOrder` with point orders that are not modelled — that agrees with
    the position / fixedOrder / order rules wherever they decide, never leaves a segment directly
    before one that the rules put before it: the check `orderViolation` the driver applies to every
    dumped nudging region cannot alarm on a correct implementation (∀ comparators, list sizes,
    deferral histories) -/
theorem linesort_respects_rules (nd : Rat) (cmp : RSeg → RSeg → Bool × Bool)
    (hagree : ∀ x y r, ruleCmp nd x y = some r → cmp x y = (r, true))
    (fuel : Nat) (orig : List RSeg) (sz d : Nat) :
    orderViolation nd (linesortLoop cmp fuel orig [] sz d) = none := by
  apply orderViolation_none_of_adj
  apply adj_mono _ _ (adj_linesortLoop cmp fuel orig [] sz d trivial)
  intro x y hxy hr
  have hyx : cmp y x = (true, true) := hagree y x true hr
  rcases hxy with h | h
  · have := hagree x y false (ruleCmp_antisymm nd y x hr)
    rw [this] at h
    cases h
  · exact h hyx

/-- the rule of `fixedOrder`'s flag at the call site: the flag of the pair is the OR of the two
    (seeded change C10-2 made it the second one's only) -/
theorem ruleCmp_fixed_rule (nd : Rat) (x y : RSeg) (hp : x.pos = y.pos)
    (hf : (fixedOrder nd x).2 = true ∨ (fixedOrder nd y).2 = true) (hne : (fixedOrder nd x).1 ≠ (fixedOrder nd y).1) :
    ruleCmp nd x y = some (decide ((fixedOrder nd x).1 < (fixedOrder nd y).1)) := by
  unfold ruleCmp
  have n1 : ¬ (x.pos ≠ y.pos) := fun h => h hp
  rw [if_neg n1]
  have : (((fixedOrder nd x).2 || (fixedOrder nd y).2) && decide ((fixedOrder nd x).1 ≠ (fixedOrder nd y).1)) = true := by
    simp only [Bool.and_eq_true, Bool.or_eq_true, decide_eq_true_eq]
    exact ⟨hf, hne⟩
  simp only [this, if_true]

/-- non-vacuity: a comparator that agrees with the rules exists (the rules themselves, undecided pairs
    incomparable), and the check does alarm on a wrongly ordered pair -/
example : ∃ cmp : RSeg → RSeg → Bool × Bool, ∀ x y r, ruleCmp 10 x y = some r → cmp x y = (r, true) :=
  ⟨fun x y => match ruleCmp 10 x y with | some r => (r, true) | none => (false, false), by
    intro x y r h; simp [h]⟩

example : (orderViolation 10
    [⟨1, 0, 100, 7, 0, 30, false, false, false, false, false, false, []⟩,
     ⟨2, 50, 150, 5, 0, 30, false, false, false, false, false, false, []⟩]).isSome = true := by
  decide +kernel

/-! ### non-vacuity (closed witnesses, decided by the kernel) -/

/-- a wide channel [0,30], two free segments of connectors 1 and 2 whose extents overlap, distance 10:
    the start state is reachable, a solver output (x₀ = 0, x₁ = 10, channel edges at 0 / 30) satisfies all
    constraints handed to the solver, the pair overlaps and gets the full gap -/
example :
    AllHoldF (initState ⟨false, true, false, 0, fun _ _ => false, false, 10, id⟩
      [⟨1, 0, 100, 5, 0, 30, false, false, false, false, false, false, []⟩,
       ⟨2, 50, 150, 5, 0, 30, false, false, false, false, false, false, []⟩]).cons
      (fun k => if k = 3 then 10 else if k = 2 ∨ k = 5 then 30 else 0) := by
  unfold AllHoldF FCon.holds
  decide +kernel

example :
    overlapsWith ⟨false, true, false, 0, fun _ _ => false, false, 10, id⟩
      ⟨2, 50, 150, 5, 0, 30, false, false, false, false, false, false, []⟩
      ⟨1, 0, 100, 5, 0, 30, false, false, false, false, false, false, []⟩ = true ∧
    FullGapR ⟨false, true, false, 0, fun _ _ => false, false, 10, id⟩
      ⟨1, 0, 100, 5, 0, 30, false, false, false, false, false, false, []⟩
      ⟨2, 50, 150, 5, 0, 30, false, false, false, false, false, false, []⟩ := by
  unfold FullGapR
  decide +kernel

/-- a narrow channel [0,5]: the solver can only answer with a displaced channel edge (variable 5 at 10
    instead of 5); the round is unsatisfied, asks for a retry with distance 9 and rewrites exactly the
    one positive gap: the retry theorems are about states that do occur -/
example :
    (nudgeStep ⟨false, true, false, 0, fun _ _ => false, false, 10, id⟩
      (regionVars ⟨false, true, false, 0, fun _ _ => false, false, 10, id⟩
        [⟨1, 0, 100, 5, 0, 5, false, false, false, false, false, false, []⟩,
         ⟨2, 50, 150, 5, 0, 5, false, false, false, false, false, false, []⟩])
      (initState ⟨false, true, false, 0, fun _ _ => false, false, 10, id⟩
        [⟨1, 0, 100, 5, 0, 5, false, false, false, false, false, false, []⟩,
         ⟨2, 50, 150, 5, 0, 5, false, false, false, false, false, false, []⟩])
      [0, 0, 5, 10, 0, 10]).map (fun out => (out.satisfied, out.retry, out.next.sepDist, out.next.cons)) =
    some (false, true, 9, [⟨1, 0, 0, false⟩, ⟨0, 2, 0, false⟩, ⟨4, 3, 0, false⟩, ⟨0, 3, 9, false⟩, ⟨3, 5, 0, false⟩]) := by
  decide +kernel

/-- a satisfied round on the wide channel (every channel edge and nothing else is tested) -/
example :
    (nudgeStep ⟨false, true, false, 0, fun _ _ => false, false, 10, id⟩
      (regionVars ⟨false, true, false, 0, fun _ _ => false, false, 10, id⟩
        [⟨1, 0, 100, 5, 0, 30, false, false, false, false, false, false, []⟩,
         ⟨2, 50, 150, 5, 0, 30, false, false, false, false, false, false, []⟩])
      (initState ⟨false, true, false, 0, fun _ _ => false, false, 10, id⟩
        [⟨1, 0, 100, 5, 0, 30, false, false, false, false, false, false, []⟩,
         ⟨2, 50, 150, 5, 0, 30, false, false, false, false, false, false, []⟩])
      [0, 0, 30, 10, 0, 30]).map (fun out => (out.satisfied, out.retry)) = some (true, false) := by
  decide +kernel

/-- write-back clamps into the limits, leaves fixed segments alone -/
example : written true ⟨1, 0, 100, 5, 0, 30, false, false, false, false, false, false, []⟩ (-1 / 10000) = 0 ∧
    written true ⟨1, 0, 100, 5, 5, 5, true, true, false, false, false, false, []⟩ 7 = 5 := by
  decide +kernel

/-! ### joint non-vacuity: ALL hypotheses of a theorem on one instance, and the theorem instantiated on it -/

-- non-vacuity (joint) of `region_separation_R` (wide channel, first attempt)
example :
    let o : ROpts := ⟨false, true, false, 0, fun _ _ => false, false, 10, id⟩
    let a : RSeg := ⟨1, 0, 100, 5, 0, 30, false, false, false, false, false, false, []⟩
    let b : RSeg := ⟨2, 50, 150, 5, 0, 30, false, false, false, false, false, false, []⟩
    ∃ pos, AllHoldF ((regionCons o 10 [a, b]).map (flat [a, b])) pos ∧ overlapsWith o b a = true ∧ FullGapR o a b ∧
      pos (varIdx [a, b] 0) + 10 ≤ pos (varIdx [a, b] 1) := by
  intro o a b
  have hov : overlapsWith o b a = true := by decide +kernel
  have hfg : FullGapR o a b := by unfold FullGapR; decide +kernel
  have hA : AllHoldF ((regionCons o 10 [a, b]).map (flat [a, b]))
      (fun k => if k = 3 then 10 else if k = 2 ∨ k = 5 then 30 else 0) := by
    unfold AllHoldF FCon.holds; decide +kernel
  exact ⟨_, hA, hov, hfg, region_separation_R o 10 [a, b] _ hA 0 1 a b rfl rfl (by decide) hov (Or.inl rfl) hfg⟩

-- non-vacuity (joint) of `region_alignment_R`: shared path with a common end point, option off: equality
example :
    let o : ROpts := ⟨false, false, false, 0, fun _ _ => true, false, 10, id⟩
    let a : RSeg := ⟨1, 0, 100, 5, 0, 30, false, false, false, false, false, false, []⟩
    let b : RSeg := ⟨2, 50, 150, 5, 0, 30, false, false, false, false, false, false, []⟩
    ∃ pos, AllHoldF ((regionCons o 10 [a, b]).map (flat [a, b])) pos ∧ overlapsWith o b a = true ∧
      gapOf o 10 a b = (0, true) ∧ pos (varIdx [a, b] 0) = pos (varIdx [a, b] 1) := by
  intro o a b
  have hov : overlapsWith o b a = true := by decide +kernel
  have hg : gapOf o 10 a b = (0, true) := by decide +kernel
  have hA : AllHoldF ((regionCons o 10 [a, b]).map (flat [a, b]))
      (fun k => if k = 0 ∨ k = 3 then 5 else if k = 2 ∨ k = 5 then 30 else 0) := by
    unfold AllHoldF FCon.holds; decide +kernel
  exact ⟨_, hA, hov, hg, region_alignment_R o 10 [a, b] _ hA 0 1 a b rfl rfl (by decide) hov (Or.inl rfl) hg⟩

-- non-vacuity (joint) of `retry_invariant`, `retry_separation`, `retry_limits`, `applied_separation_R`,
-- `retry_distance_threshold`, `retry_distance_bounds`: the narrow channel, the state reached AFTER one retry
-- (distance 9, not the start state), a solver output satisfying its rewritten constraints
example :
    let o : ROpts := ⟨false, true, false, 0, fun _ _ => false, false, 10, id⟩
    let a : RSeg := ⟨1, 0, 100, 5, 0, 5, false, false, false, false, false, false, []⟩
    let b : RSeg := ⟨2, 50, 150, 5, 0, 5, false, false, false, false, false, false, []⟩
    ∃ st pos, Reach o (regionVars o [a, b]) (initState o [a, b]) st ∧ st.sepDist = 9 ∧ st ≠ initState o [a, b] ∧
    AllHoldF st.cons pos ∧ overlapsWith o b a = true ∧ FullGapR o a b ∧ (∀ s, nextSep o s ≤ s) ∧ 0 < o.base ∧
    (∀ r, o.rnd r = r) ∧ a.fixed = false ∧ a.lower = some 0 ∧
    pos (varIdx [a, b] 0) + st.sepDist ≤ pos (varIdx [a, b] 1) ∧
    (absQ (pos (clIdx [a, b] 0) - 0) ≤ 0 → 0 - 0 ≤ pos (varIdx [a, b] 0)) ∧
    written true a (pos (varIdx [a, b] 0)) + (st.sepDist - 2 * 4) ≤ written true b (pos (varIdx [a, b] 1)) := by
  intro o a b
  have hm : ∀ s, nextSep o s ≤ s := reduction_nonincreasing_exact o (fun _ => rfl) (by decide +kernel)
  have hb : 0 < o.base := by decide +kernel
  have hov : overlapsWith o b a = true := by decide +kernel
  have hfg : FullGapR o a b := by unfold FullGapR; decide +kernel
  have hd : (nudgeStep o (regionVars o [a, b]) (initState o [a, b]) [0, 0, 5, 10, 0, 10]).map
      (fun out => (out.retry, out.next.sepDist, out.next.cons)) =
      some (true, 9, [⟨1, 0, 0, false⟩, ⟨0, 2, 0, false⟩, ⟨4, 3, 0, false⟩, ⟨0, 3, 9, false⟩, ⟨3, 5, 0, false⟩]) := by
    decide +kernel
  match hs : nudgeStep o (regionVars o [a, b]) (initState o [a, b]) [0, 0, 5, 10, 0, 10] with
  | none => rw [hs] at hd; cases hd
  | some out =>
    rw [hs] at hd
    simp only [Option.map_some, Option.some.injEq, Prod.mk.injEq] at hd
    obtain ⟨h1, h2, h3⟩ := hd
    have hr := Reach.step (o := o) [0, 0, 5, 10, 0, 10] Reach.start hs h1
    have hm' : ∀ s, Reach o (regionVars o [a, b]) (initState o [a, b]) s → nextSep o s.sepDist ≤ s.sepDist :=
      fun s _ => hm s.sepDist
    have hA : AllHoldF out.next.cons (fun k => if k = 3 ∨ k = 2 ∨ k = 5 then 9 else 0) := by
      rw [h3]; unfold AllHoldF FCon.holds; decide +kernel
    refine ⟨out.next, _, hr, h2, ?_, hA, hov, hfg, hm, hb, fun _ => rfl, rfl, by decide +kernel,
      retry_separation o [a, b] _ hb hm' _ hr _ hA 0 1 a b rfl rfl (by decide) hov (Or.inl rfl) hfg,
      (retry_limits o [a, b] _ hm' _ hr _ hA 0 0 a rfl rfl).1 0 (by decide +kernel),
      applied_separation_R o [a, b] _ hb hm' _ hr _ hA 4 0 1 a b rfl rfl (by decide) hov (Or.inl rfl) hfg
        (by decide +kernel) (by decide +kernel)⟩
    intro he; rw [he] at h2; revert h2; decide +kernel

-- non-vacuity of `ruleCmp_fixed_rule`: a fixed segment and a free one limited from below, at the same position
example :
    let x : RSeg := ⟨1, 0, 100, 5, 5, 5, true, false, false, false, false, false, []⟩
    let y : RSeg := ⟨2, 50, 150, 5, 0, 30, false, false, false, false, false, false, []⟩
    ruleCmp 10 x y = some true := by
  intro x y
  have h := ruleCmp_fixed_rule 10 x y rfl (Or.inl (by decide +kernel)) (by decide +kernel)
  rw [h]; decide +kernel

-- non-vacuity of `unify_only_free_equalities`: a state reachable by one round that does hold a constraint
example :
    let o : ROpts := ⟨false, true, false, 0, fun _ _ => false, true, 10, id⟩
    let segs : List RSeg := [⟨1, 0, 100, 5, 0, 30, false, false, false, false, true, false, []⟩,
         ⟨2, 50, 150, 5, 0, 34, false, false, false, false, true, false, []⟩,
         ⟨3, 60, 160, 5, 0, 50, false, false, false, false, false, true, []⟩]
    ∃ st, UReach o (unifyVars o segs) (unifyInit o segs) st ∧ st.cons = [⟨0, 1, 0, true⟩] := by
  intro o segs
  have hd : (unifyStep o (unifyVars o segs) (unifyInit o segs) [15, 17, 25]).map (fun out => out.next.cons) =
      some [⟨0, 1, 0, true⟩] := by decide +kernel
  match hs : unifyStep o (unifyVars o segs) (unifyInit o segs) [15, 17, 25] with
  | none => rw [hs] at hd; cases hd
  | some out =>
    rw [hs] at hd
    simp only [Option.map_some, Option.some.injEq] at hd
    exact ⟨out.next, UReach.step [15, 17, 25] UReach.start hs, hd⟩

-- `linesort_respects_rules` is about non-trivial outputs: the rule comparator sorts the wrongly ordered pair
example :
    (linesortLoop (fun x y => match ruleCmp 10 x y with | some r => (r, true) | none => (false, false)) 4
      [⟨1, 0, 100, 7, 0, 30, false, false, false, false, false, false, []⟩,
       ⟨2, 50, 150, 5, 0, 30, false, false, false, false, false, false, []⟩] [] 2 0).map (·.conn) = [2, 1] := by
  decide +kernel

-- non-vacuity of the repaired `hmono` WITH IEEE rounding: for the ideal distance 10 and `rnd = roundDouble`, every
-- region, every variable list and every sequence of solver answers: the distances that occur are 10, 9, …, 1 and the
-- reduction never increases them
example (segs : List RSeg) (vars : List Var) :
    let o : ROpts := ⟨false, true, false, 0, fun _ _ => false, false, 10, roundDouble⟩
    ∀ s, Reach o vars (initState o segs) s → nextSep o s.sepDist ≤ s.sepDist := by
  intro o
  have key : ∀ s, Reach o vars (initState o segs) s → s.sepDist ∈ ([10, 9, 8, 7, 6, 5, 4, 3, 2, 1] : List Rat) := by
    intro s h
    induction h with
    | start => exact List.Mem.head _
    | step fps _ hstep hret ih =>
      obtain ⟨h1, h2, _⟩ := nudgeStep_retry o vars _ fps _ hstep hret
      rw [h2] at h1 ⊢
      simp only [List.mem_cons, List.not_mem_nil, or_false] at ih
      rcases ih with h | h | h | h | h | h | h | h | h | h <;> rw [h] at h1 ⊢ <;>
        first
          | exact absurd h1 (by decide +kernel)
          | (have e : nextSep o 10 = 9 := by decide +kernel); rw [e]; simp
          | (have e : nextSep o 9 = 8 := by decide +kernel); rw [e]; simp
          | (have e : nextSep o 8 = 7 := by decide +kernel); rw [e]; simp
          | (have e : nextSep o 7 = 6 := by decide +kernel); rw [e]; simp
          | (have e : nextSep o 6 = 5 := by decide +kernel); rw [e]; simp
          | (have e : nextSep o 5 = 4 := by decide +kernel); rw [e]; simp
          | (have e : nextSep o 4 = 3 := by decide +kernel); rw [e]; simp
          | (have e : nextSep o 3 = 2 := by decide +kernel); rw [e]; simp
          | (have e : nextSep o 2 = 1 := by decide +kernel); rw [e]; simp
  intro s h
  have hk := key s h
  simp only [List.mem_cons, List.not_mem_nil, or_false] at hk
  rcases hk with h | h | h | h | h | h | h | h | h | h <;> rw [h] <;> decide +kernel

end AdaptaVerif.Props.C10Region
