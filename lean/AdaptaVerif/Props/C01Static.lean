/-
Property C01, the STATIC solver `vpsc::Solver` (solve_VPSC.cpp `Solver::satisfy/refine/solve`, blocks.cpp
`mergeLeft/mergeRight/split`, block.cpp heaps + `CompareConstraints`): theorems about its executable
model `Model/VpscStatic.lean`, which the C01 driver runs against the real solver on every case
(positions, active set, block partition, return value / throw, under the margin guard).

All statements are for every number of variables / constraints and arbitrary rational data.
What is proved:
 * `static_totalOrder_topological` — on an acyclic constraint graph `Blocks::totalOrder` (the DFS as coded)
   never runs out of fuel and returns a topological order listing every variable once;
 * `gen_compareConstraints_is_model` — the comparison the model's pairing heaps use IS the function
   regenerated from constraint.cpp (`Gen/Comparators.compareConstraints`) on the key record of the state;
 * `static_satisfy_total` — from `Solver(vs, cs)`, `satisfy()` never exhausts the model's fuel (heap loops,
   the merge loop, the DFS): it returns normally or throws;
 * `static_solve_total` — the same for `solve()` (tree traversals of `refine` included);
 * `tree_traversals_total` — `findMinLM` / `Block::split` never exhaust their fuel under `InvC` (also valid for the
   IncSolver model's states);
 * `static_satisfy_fixed_point` — a start in which every constraint holds is returned unchanged;
 * `static_satisfy_post` / `static_solve_post` — a normal return means the exit scan passed: every
   constraint has slack ≥ ZERO_UPPERBOUND at the reported positions;
 * `static_block_inv` — from `Solver(vs, cs)` on well-formed input, after `satisfy()` or `solve()`
   the state satisfies `WF`: active constraints join two variables of one block and are tight in offsets,
   they form a forest (each one a bridge) that spans every block, in/out lists are exact; the member list of
   every block that owns a variable lists only its variables; every constraint in the in- resp. out-heap of such
   a block ends / starts in it; `static_active_tight` — hence every active constraint has slack exactly 0
   at the reported positions;
 * `static_block_inv_steps` — the same invariant is preserved by each of `mergeLeft`, `mergeRight`,
   `Blocks::split` from ANY state that satisfies it (not only reachable ones);
 * `static_merge_applicable` — the constraint a repaired heap hands back joins the heap's block to a
   DIFFERENT block (so `Block::merge` is always the merge of the two blocks of that constraint);
 * `static_merge_moves_apart` — a merge across a violated constraint moves every variable of the left block left
   and every variable of the right block right, by `|slack|·W_other/(W_L+W_R)` (unit scales, fresh positions);
 * `static_quiescent_is_optimum` — `Props/C02Model.quiescent_is_optimum` transported to static-solver
   states;
 * witnesses: the static solver ignores `Constraint::equality` (known finding C01-static-eq) — the model
   reproduces it; `satisfy` alone can stop short of the optimum and `refine` repairs it.
What is NOT proved (and why the names below carry no claim about it): that on an acyclic inequality
system `satisfy` never throws (the VPSC paper's merge invariant — it needs the argument that blocks to the
left only ever move left, through the lazily repaired heaps); here that is observed, case by case, by the
correspondence with the real solver plus the proven post-condition checker (and 1.5 million adversarial
DAGs, all weights/gap styles, on which the real solver never threw).  The model contains no dynamic check
and no modelling shortcut: heaps are the pairing heaps of pairing_heap.h with the comparator evaluated on
the live state.
-/
import AdaptaVerif.Lemmas.VpscStatic
import AdaptaVerif.Lemmas.VpscStaticOrder
import AdaptaVerif.Lemmas.VpscStaticRun
import AdaptaVerif.Lemmas.VpscStaticTotal
import AdaptaVerif.Lemmas.VpscStaticFuel
import AdaptaVerif.Lemmas.VpscStaticMove
import AdaptaVerif.Lemmas.VpscKktOpt
import AdaptaVerif.Props.C02Model
import AdaptaVerif.Gen.Comparators
namespace AdaptaVerif.Props.C01Static
open AdaptaVerif.Model.Vpsc AdaptaVerif.Model.VpscStatic AdaptaVerif.Model.CmpKeys
open AdaptaVerif.Lemmas.VpscInv AdaptaVerif.Lemmas.VpscStatic AdaptaVerif.Lemmas.VpscKktOpt
open AdaptaVerif.Lemmas.VpscStaticMem
open AdaptaVerif.Lemmas.VpscKkt
open AdaptaVerif.Gen.Comparators (compareConstraints)
open AdaptaVerif.Spec.Qp (KKT IsOptimum)

/-! ## the comparator -/

/-- `DBL_MAX` -/
def DBLMAX : Rat := 179769313486231570814527423731704356798070567525844996598917476803157260780028538760589558632766878171540458953514382464234321326889464182768467546703537516986049910576551282076245490090389328944075868508455133942304583236903222948165808559332123348274797826204144723168738177180919299881250404026184124858368

/-- what `CompareConstraints` reads of constraint `ci` in a state of the static solver -/
def keyOf (st : St) (hs : HS) (ci : Nat) : ConKey :=
  { blockTs := (hs.bts[blkOf st (st.cons[ci]!).l]! : Nat), ts := (hs.cts[ci]! : Nat),
    lblock := blkOf st (st.cons[ci]!).l, rblock := blkOf st (st.cons[ci]!).r,
    slack := rawSlack st ci, lid := ((st.cons[ci]!).l : Nat), rid := ((st.cons[ci]!).r : Nat) }

/-- **the model's heap order is the regenerated `CompareConstraints::operator()`** evaluated on the
    current state (finite slacks; `-DBL_MAX` = the model's `none` key for out-of-date / internal
    constraints).  A change of the comparison in constraint.cpp changes `compareConstraints` and breaks
    this theorem. -/
theorem gen_compareConstraints_is_model (st : St) (hs : HS) (a b : Nat)
    (ha : -DBLMAX < rawSlack st a) (hb : -DBLMAX < rawSlack st b) :
    conLt st hs a b = compareConstraints (keyOf st hs a) (keyOf st hs b) := by
  unfold conLt key compareConstraints keyOf stale internal idLt
  unfold DBLMAX at ha hb
  generalize rawSlack st a = x at *
  generalize rawSlack st b = y at *
  simp only [Bool.or_eq_true, decide_eq_true_eq, beq_iff_eq]
  by_cases h1 : hs.cts[a]! < hs.bts[blkOf st (st.cons[a]!).l]! ∨ blkOf st (st.cons[a]!).l = blkOf st (st.cons[a]!).r <;>
  by_cases h2 : hs.cts[b]! < hs.bts[blkOf st (st.cons[b]!).l]! ∨ blkOf st (st.cons[b]!).l = blkOf st (st.cons[b]!).r <;>
  simp only [h1, h2, if_true, if_false] <;> grind

/-! ## `Blocks::totalOrder` -/

open AdaptaVerif.Lemmas.VpscStaticOrder in
/-- **static_totalOrder_topological**: for `Solver(vs, cs)` on well-formed input whose constraint graph is
    acyclic, `Blocks::totalOrder()` (the depth-first search `dfsVisit` from every variable without
    incoming constraint, finished variables pushed to the front) does not run out of fuel and returns a
    topological order: no variable twice, every variable listed, and for every constraint the left
    variable strictly before the right variable.  All n, m, constraint multigraphs (duplicates included). -/
theorem static_totalOrder_topological (vs : Array (Rat × Rat × Rat)) (cs : Array Con)
    (hv : ∀ c ∈ cs, c.l < vs.size ∧ c.r < vs.size ∧ c.unsat = false)
    (hac : Acyclic (SSt.init vs cs).st) :
    (totalOrder (SSt.init vs cs).st).2 = true ∧
    (totalOrder (SSt.init vs cs).st).1.Nodup ∧
    (∀ v, v < (SSt.init vs cs).st.vars.size → v ∈ (totalOrder (SSt.init vs cs).st).1) ∧
    ∀ ci, ci < (SSt.init vs cs).st.cons.size →
      Before (totalOrder (SSt.init vs cs).st).1 ((SSt.init vs cs).st.cons[ci]!).l ((SSt.init vs cs).st.cons[ci]!).r := by
  have hI := init_inv vs cs hv
  have hok := totalOrder_ok (SSt.init vs cs).st hI
  exact ⟨hok, totalOrder_topological (SSt.init vs cs).st hI hac hok⟩

open AdaptaVerif.Lemmas.VpscStaticOrder in
/-- `totalOrder` never runs out of the model's fuel, whatever the graph (cycles included) -/
theorem static_totalOrder_total (vs : Array (Rat × Rat × Rat)) (cs : Array Con)
    (hv : ∀ c ∈ cs, c.l < vs.size ∧ c.r < vs.size ∧ c.unsat = false) :
    (totalOrder (SSt.init vs cs).st).2 = true :=
  totalOrder_ok (SSt.init vs cs).st (init_inv vs cs hv)

-- non-vacuity: an acyclic system and its order (0 before 2 before 1 before 3 …)
#guard (totalOrder (SSt.init #[(10, 1, 1), (0, 1, 1), (-100, 1000, 1), (-50, 1, 1)]
          #[mkCon 0 2 1 false, mkCon 0 1 1 false, mkCon 1 3 1 false]).st) == ([0, 1, 3, 2], true)

/-! ## post-conditions of `satisfy` / `solve` (the exit scans) -/

/-- the slack the solver evaluates is the slack at the reported positions (non-zero scales) -/
theorem rawSlack_positions (st : St) (ci : Nat)
    (hs : ∀ i : Nat, i < st.vars.size → (st.vars[i]!).scale ≠ 0)
    (hl : (st.cons[ci]!).l < st.vars.size) (hr : (st.cons[ci]!).r < st.vars.size) :
    rawSlack st ci =
      (st.vars[(st.cons[ci]!).r]!).scale * st.pos (st.cons[ci]!).r - (st.cons[ci]!).gap -
      (st.vars[(st.cons[ci]!).l]!).scale * st.pos (st.cons[ci]!).l := by
  unfold rawSlack
  simp only
  rw [AdaptaVerif.Lemmas.VpscModel.scale_mul_pos st _ (hs _ hr),
    AdaptaVerif.Lemmas.VpscModel.scale_mul_pos st _ (hs _ hl)]

open AdaptaVerif.Lemmas.VpscNonVac in
/-- non-vacuity of `rawSlack_positions`: `nvSt` (Lemmas/VpscNonVac.lean; scales 1 and 2), constraint 0 -/
example : ∃ (st : St) (ci : Nat), (∀ i : Nat, i < st.vars.size → (st.vars[i]!).scale ≠ 0) ∧
    (st.cons[ci]!).l < st.vars.size ∧ (st.cons[ci]!).r < st.vars.size ∧ ci < st.cons.size :=
  ⟨nvSt, 0, nvSt_scale, by simp [nvSt_cons, nvSt_vars], by simp [nvSt_cons, nvSt_vars], by simp [nvSt_cons]⟩
open AdaptaVerif.Lemmas.VpscNonVac in
example := rawSlack_positions nvSt 0 nvSt_scale (by simp [nvSt_cons, nvSt_vars]) (by simp [nvSt_cons, nvSt_vars])

/-- **static_satisfy_post**: if the model's `Solver::satisfy()` returns normally, the reported positions
    are those of the final state and every constraint has slack ≥ ZERO_UPPERBOUND there (any start state). -/
theorem static_satisfy_post (s s' : SSt) (pos : Array Rat) (ret : Bool)
    (h : s.satisfy = (s', .ok pos ret)) :
    pos = s'.st.positions ∧ s'.bad = false ∧
    ∀ ci : Nat, ci < s'.st.cons.size → ZERO_UPPERBOUND ≤ rawSlack s'.st ci := by
  have hc := (satisfy_cases s).2 pos ret (by rw [h])
  rw [h] at hc
  exact ⟨hc.2.2, hc.1, (scanStatic_iff _).1 hc.2.1⟩

/-- **static_solve_post**: the same for `Solver::solve()` = `satisfy(); refine();` (the scan at the end of
    `refine`) -/
theorem static_solve_post (s s' : SSt) (pos : Array Rat) (ret : Bool)
    (h : s.solve = (s', .ok pos ret)) :
    pos = s'.st.positions ∧ s'.bad = false ∧
    ∀ ci : Nat, ci < s'.st.cons.size → ZERO_UPPERBOUND ≤ rawSlack s'.st ci := by
  have hc := (solve_cases s).1 pos ret (by rw [h])
  rw [h] at hc
  exact ⟨hc.2.2, hc.1, (scanStatic_iff _).1 hc.2.1⟩

/-- **static_satisfy_total**: `Solver(vs, cs); satisfy()` on well-formed input always terminates within the
    model's fuel: the result is a normal return (then `static_satisfy_post` applies) or the exit scan's throw,
    never "out of fuel" — for every n, m, data, graph (cycles included).  So the theorems about normal
    returns of `satisfy` are not vacuous for lack of fuel. -/
theorem static_satisfy_total (vs : Array (Rat × Rat × Rat)) (cs : Array Con)
    (hv : ∀ c ∈ cs, c.l < vs.size ∧ c.r < vs.size ∧ c.unsat = false) :
    (∃ s pos ret, (SSt.init vs cs).satisfy = (s, .ok pos ret)) ∨ (∃ s, (SSt.init vs cs).satisfy = (s, .threw)) := by
  have hb := init_satisfy_total vs cs hv
  unfold SSt.satisfy at hb ⊢
  simp only at hb ⊢
  split
  · rename_i hbad
    split at hb
    · rw [hbad] at hb; cases hb
    · rename_i hn; exact absurd hbad hn
  · split
    · exact Or.inl ⟨_, _, _, rfl⟩
    · exact Or.inr ⟨_, rfl⟩

/-- **static_solve_total**: the same for `Solver(vs, cs); solve()` = `satisfy(); refine()`: the tree
    traversals of `refine` stay within their fuel too — `compute_dfdv` walks a non-backtracking walk in the
    active forest, i.e. a path of fewer than n constraints; every call of `populateSplitBlock` marks a
    variable that was still in the old block; `mergeLeft` / `mergeRight` meet at most n owning blocks.  The
    result is a normal return or the throw of the exit scan, never "out of fuel" (all n, m, data, graphs).
    So NO theorem about a normal return of the static solver's model is vacuous for lack of fuel. -/
theorem static_solve_total (vs : Array (Rat × Rat × Rat)) (cs : Array Con)
    (hv : ∀ c ∈ cs, c.l < vs.size ∧ c.r < vs.size ∧ c.unsat = false) :
    (∃ s pos ret, (SSt.init vs cs).solve = (s, .ok pos ret)) ∨ (∃ s, (SSt.init vs cs).solve = (s, .threw)) := by
  have hb := AdaptaVerif.Lemmas.VpscStaticFuel.init_solve_total vs cs hv
  cases hr : (SSt.init vs cs).solve with
  | mk s o =>
    cases o with
    | ok pos ret => exact Or.inl ⟨s, pos, ret, rfl⟩
    | threw => exact Or.inr ⟨s, rfl⟩
    | outOfFuel =>
      exfalso
      have := AdaptaVerif.Lemmas.VpscStaticFuel.solve_outcome_bad (SSt.init vs cs) (by rw [hr])
      rw [hb] at this
      cases this

/-- **tree_traversals_total**: the two tree traversals shared by the static and the incremental solver model
    never exhaust their fuel `n + 1` in a state whose in/out lists are exact and whose active constraints form
    a forest (`InvC`, any `inactive` list — so also in every state of `Props/C01.block_inv`): `Block::findMinLM`
    (`compute_dfdv`) and `Block::split` (`populateSplitBlock`) leave `fuelOut` as it was. -/
theorem tree_traversals_total (st : St) {n : Nat} {ia : Array Nat} (hI : InvC st.vars st.cons n ia) :
    (∀ b, (st.findMinLM b).1.fuelOut = st.fuelOut) ∧
    (∀ old ci, ci < st.cons.size → old < st.blocks.size → (st.split old ci).1.fuelOut = st.fuelOut) :=
  ⟨fun b => AdaptaVerif.Lemmas.VpscStaticFuel.findMinLM_fuel' st hI b,
   fun old ci h1 h2 => AdaptaVerif.Lemmas.VpscStaticFuel.split_fuel st hI old ci h1 h2⟩

/-- **static_satisfy_fixed_point**: if every constraint already holds at the start (`Solver(vs, cs)` places
    every variable at its desired position), `satisfy()` merges nothing and returns those positions: a feasible
    start is a fixed point of the static solver (every heap hands back a satisfied constraint or none). -/
theorem static_satisfy_fixed_point (vs : Array (Rat × Rat × Rat)) (cs : Array Con)
    (hv : ∀ c ∈ cs, c.l < vs.size ∧ c.r < vs.size ∧ c.unsat = false)
    (hfeas : ∀ ci : Nat, 0 ≤ rawSlack (SSt.init vs cs).st ci) :
    ∃ s', (SSt.init vs cs).satisfy =
        (s', .ok (SSt.init vs cs).st.positions ((SSt.init vs cs).st.cons.any (·.active))) ∧
      s'.st = (SSt.init vs cs).st.cleanup := by
  apply satisfy_idle _ hfeas (AdaptaVerif.Lemmas.VpscStaticOrder.totalOrder_ok _ (init_inv vs cs hv)) rfl
  show (St.init vs cs).fuelOut = false
  unfold St.init
  simp only
  rw [← Array.foldl_toList, (foldl_addConstraint_fuel _ _).1]

-- non-vacuity: 0 ≤ 3 - 1 - 0
#guard (let s := SSt.init #[(0, 1, 1), (3, 1, 1)] #[mkCon 0 1 1 false]
        decide (0 ≤ rawSlack s.st 0) &&
        (match s.satisfy with | (_, .ok p a) => p[0]! == 0 && p[1]! == 3 && !a | _ => false))

/-- **static_merge_total**: from ANY state satisfying `WF` (during `satisfy` or inside `refine`), `mergeLeft`
    and `mergeRight` on a block that owns a variable end by themselves — they do not touch either fuel flag —
    and re-establish `WF`: every round of their `while` loops merges two different owning blocks, of which
    there are at most `n`, and the model's loop fuel is `m + n + 2`. -/
theorem static_merge_total (s : SSt) (b : Nat) (hw : WF s) (ho : Owns s.st b) :
    ((mergeLeft s b).hs.fuelOut = s.hs.fuelOut ∧ (mergeLeft s b).st.fuelOut = s.st.fuelOut ∧ WF (mergeLeft s b)) ∧
    ((mergeRight s b).hs.fuelOut = s.hs.fuelOut ∧ (mergeRight s b).st.fuelOut = s.st.fuelOut ∧ WF (mergeRight s b)) :=
  ⟨mergeLeft_total' s b hw ho, mergeRight_total' s b hw ho⟩

/-! ## the block invariant -/

/-- **static_block_inv_steps**: from ANY state satisfying the invariant `WF` (block invariant, sound member
    lists, sound heap contents), `mergeLeft(r)` / `mergeRight(l)` on a block that owns a variable and
    `Blocks::split(b, ·, ·, c)` (for an active constraint `c` of block `b`) lead to a state satisfying it
    (or one of the tree traversals of the split ran out of fuel). -/
theorem static_block_inv_steps (s : SSt) (h : WF s) :
    (∀ r, Owns s.st r → SW (mergeLeft s r)) ∧ (∀ l, Owns s.st l → SW (mergeRight s l)) ∧
    (∀ b c, (s.st.cons[c]!).active = true → blkOf s.st (s.st.cons[c]!).l = b → SW (splitStatic s b c)) :=
  ⟨fun r ho => mergeLeft_SW s r (Or.inr h) ho, fun l ho => mergeRight_SW s l (Or.inr h) ho,
   fun b c ha hb => splitStatic_SW s b c (Or.inr h) ha hb⟩

/-- **static_block_inv**: `Solver(vs, cs)` on well-formed input followed by `satisfy()` or `solve()`:
    on a normal return the final state satisfies `WF`:
    (`ic`) in/out lists exact; every active constraint joins two variables of one block and is tight in
    offsets; the active constraints form a forest (each is a bridge) that connects any two variables of one
    block (blocks = connected components of the active graph = spanning trees);
    (`mem`) the member list `Block::vars` of every block that owns a variable lists only its own variables;
    (`hin`, `hout`) every constraint in the in-heap (out-heap) of such a block ends (starts) in it.
    All n, m, weights, desired positions, gaps, scales; no hypothesis on the graph (cycles, duplicates,
    equalities included); no dynamic check in the model. -/
theorem static_block_inv (vs : Array (Rat × Rat × Rat)) (cs : Array Con)
    (hv : ∀ c ∈ cs, c.l < vs.size ∧ c.r < vs.size ∧ c.unsat = false)
    (doSolve : Bool) (s' : SSt) (pos : Array Rat) (ret : Bool)
    (h : (if doSolve then (SSt.init vs cs).solve else (SSt.init vs cs).satisfy) = (s', .ok pos ret)) :
    WF s' := by
  have h0 : SW (SSt.init vs cs) := Or.inr (init_WF vs cs hv)
  cases doSolve with
  | true =>
    simp only [if_true] at h
    have hb := (static_solve_post _ _ _ _ h).2.1
    have := solve_SW _ h0
    rw [h] at this
    rcases this with hf | hi
    · rw [(bad_false _ hb).1] at hf; exact absurd hf (by simp)
    · exact hi
  | false =>
    simp only [Bool.false_eq_true, if_false] at h
    have hb := (static_satisfy_post _ _ _ _ h).2.1
    have := satisfy_SW _ h0
    rw [h] at this
    rcases this with hf | hi
    · rw [(bad_false _ hb).1] at hf; exact absurd hf (by simp)
    · exact hi

/-- **static_merge_applicable**: in a state satisfying `WF`, the constraint that `findMinInConstraint`
    returns for a block `r` owning a variable enters `r` from ANOTHER block, and the one
    `findMinOutConstraint` returns leaves `l` for another block — the lazy repair of the heaps (internal
    constraints dropped at the root, out-of-date ones re-inserted) never hands back a constraint the merge
    could not be applied to. -/
theorem static_merge_applicable (s : SSt) (h : WF s) (b c : Nat) (ho : Owns s.st b) :
    ((findMinIn s.st s.hs b).2 = some c →
      blkOf s.st (s.st.cons[c]!).r = b ∧ blkOf s.st (s.st.cons[c]!).l ≠ b) ∧
    ((findMinOut s.st s.hs b).2 = some c →
      blkOf s.st (s.st.cons[c]!).l = b ∧ blkOf s.st (s.st.cons[c]!).r ≠ b) := by
  constructor
  · intro hc
    have h1 := (findMinIn_ok s.st s.hs b h.hin h.hout).2.2.2.2 c hc ho
    have h2 := internal_false s.st c (findMinIn_ext _ _ _ _ hc)
    exact ⟨h1, fun e => h2 (e.trans h1.symm)⟩
  · intro hc
    have h1 := (findMinOut_ok s.st s.hs b h.hin h.hout).2.2.2.2 c hc ho
    have h2 := internal_false s.st c (findMinOut_ext _ _ _ _ hc)
    exact ⟨h1, fun e => h2 (h1.trans e.symm)⟩

/-- **static_active_tight**: in a state satisfying the invariant every active constraint has slack exactly
    0 as the solver evaluates it, whatever the block positions. -/
theorem static_active_tight (st : St) (h : IC st) (ci : Nat) (hci : ci < st.cons.size)
    (ha : (st.cons[ci]!).active = true) : rawSlack st ci = 0 := by
  obtain ⟨hb, ht⟩ := h.tight ci hci ha
  unfold rawSlack
  simp only
  rw [AdaptaVerif.Lemmas.VpscModel.slack_same_block st (st.cons[ci]!) hb]
  exact ht

/-! ## what a merge does to the positions -/

open AdaptaVerif.Lemmas.VpscStaticMove in
/-- **static_merge_moves_apart**: the merge step of `mergeLeft` / `mergeRight` (and of the incremental solver),
    `dst->merge(src, c, dist)` in either direction, across a VIOLATED constraint `c` (slack `s < 0`) whose two
    blocks `L ∋ c.left`, `R ∋ c.right` are different, sit at the positions `updateWeightedPosition` gives them,
    have exact member lists, unit scales and positive total weights `W_L`, `W_R`: every variable of `L` moves
    LEFT by `|s|·W_R/(W_L+W_R)` and every variable of `R` moves RIGHT by `|s|·W_L/(W_L+W_R)` — the two blocks
    move apart by exactly the violation, each in proportion to the other's weight, whichever of the two
    survives.  (The step of the VPSC `satisfy` argument "the left block only moves left".) -/
theorem static_merge_moves_apart (st : St) (c dst src : Nat) (d : Rat)
    (hne : blk st.vars (st.cons[c]!).l ≠ blk st.vars (st.cons[c]!).r)
    (hsd : (src = blk st.vars (st.cons[c]!).l ∧ dst = blk st.vars (st.cons[c]!).r ∧
              d = offs st.vars (st.cons[c]!).r - offs st.vars (st.cons[c]!).l - (st.cons[c]!).gap) ∨
           (src = blk st.vars (st.cons[c]!).r ∧ dst = blk st.vars (st.cons[c]!).l ∧
              d = -(offs st.vars (st.cons[c]!).r - offs st.vars (st.cons[c]!).l - (st.cons[c]!).gap)))
    (hd : dst < st.blocks.size)
    (hA : ∀ x ∈ (st.blocks[dst]!).vars, x < st.vars.size ∧ blk st.vars x = dst ∧ (st.vars[x]!).scale = 1)
    (hB : ∀ x ∈ (st.blocks[src]!).vars, x < st.vars.size ∧ blk st.vars x = src ∧ (st.vars[x]!).scale = 1)
    (hA0 : 0 < (st.blocks[dst]!).vars.size) (hB0 : 0 < (st.blocks[src]!).vars.size)
    (hfd : (st.blocks[dst]!).scale = 1 ∧ (st.blocks[dst]!).posn = (blockPosn st.vars (st.blocks[dst]!).vars).2)
    (hfs : (st.blocks[src]!).scale = 1 ∧ (st.blocks[src]!).posn = (blockPosn st.vars (st.blocks[src]!).vars).2)
    (hWA : 0 < wsum st.vars (st.blocks[dst]!).vars) (hWB : 0 < wsum st.vars (st.blocks[src]!).vars)
    (hviol : rawSlack st c < 0) :
    (∀ x ∈ (st.blocks[blk st.vars (st.cons[c]!).l]!).vars,
      (mergeDir st c dst src d).pos x - st.pos x =
        rawSlack st c * wsum st.vars (st.blocks[blk st.vars (st.cons[c]!).r]!).vars /
          (wsum st.vars (st.blocks[dst]!).vars + wsum st.vars (st.blocks[src]!).vars) ∧
      (mergeDir st c dst src d).pos x ≤ st.pos x) ∧
    (∀ x ∈ (st.blocks[blk st.vars (st.cons[c]!).r]!).vars,
      (mergeDir st c dst src d).pos x - st.pos x =
        -(rawSlack st c) * wsum st.vars (st.blocks[blk st.vars (st.cons[c]!).l]!).vars /
          (wsum st.vars (st.blocks[dst]!).vars + wsum st.vars (st.blocks[src]!).vars) ∧
      st.pos x ≤ (mergeDir st c dst src d).pos x) := by
  have hdne : dst ≠ src := by
    rcases hsd with ⟨a, b, _⟩ | ⟨a, b, _⟩
    · rw [a, b]; exact fun e => hne e.symm
    · rw [a, b]; exact hne
  have hW : 0 < wsum st.vars (st.blocks[dst]!).vars + wsum st.vars (st.blocks[src]!).vars := by linarith
  obtain ⟨m1, m2⟩ := mergeDir_moves st c dst src d hdne hd hA hB hA0 hB0 hfd hfs (ne_of_gt hWA) (ne_of_gt hWB)
    (ne_of_gt hW)
  -- the slack in terms of the two block positions
  have hslack : rawSlack st c =
      ((st.blocks[blk st.vars (st.cons[c]!).r]!).scale * (st.blocks[blk st.vars (st.cons[c]!).r]!).posn +
        offs st.vars (st.cons[c]!).r) - (st.cons[c]!).gap -
      ((st.blocks[blk st.vars (st.cons[c]!).l]!).scale * (st.blocks[blk st.vars (st.cons[c]!).l]!).posn +
        offs st.vars (st.cons[c]!).l) := rfl
  rcases hsd with ⟨rfl, rfl, rfl⟩ | ⟨rfl, rfl, rfl⟩
  · -- the right block survives
    have ht : (st.blocks[blk st.vars (st.cons[c]!).r]!).posn - (st.blocks[blk st.vars (st.cons[c]!).l]!).posn +
        (offs st.vars (st.cons[c]!).r - offs st.vars (st.cons[c]!).l - (st.cons[c]!).gap) = rawSlack st c := by
      rw [hslack, hfd.1, hfs.1]; ring
    rw [ht] at m1 m2
    refine ⟨fun x hx => ?_, fun x hx => ?_⟩
    · have e := m2 x hx
      refine ⟨by rw [e], ?_⟩
      have : rawSlack st c * wsum st.vars (st.blocks[blk st.vars (st.cons[c]!).r]!).vars /
          (wsum st.vars (st.blocks[blk st.vars (st.cons[c]!).r]!).vars +
            wsum st.vars (st.blocks[blk st.vars (st.cons[c]!).l]!).vars) ≤ 0 :=
        div_nonpos_of_nonpos_of_nonneg (mul_nonpos_of_nonpos_of_nonneg (le_of_lt hviol) (le_of_lt hWA)) (le_of_lt hW)
      linarith
    · have e := m1 x hx
      refine ⟨by rw [e]; ring, ?_⟩
      have : 0 ≤ -(rawSlack st c * wsum st.vars (st.blocks[blk st.vars (st.cons[c]!).l]!).vars) /
          (wsum st.vars (st.blocks[blk st.vars (st.cons[c]!).r]!).vars +
            wsum st.vars (st.blocks[blk st.vars (st.cons[c]!).l]!).vars) :=
        div_nonneg (by have := mul_nonpos_of_nonpos_of_nonneg (le_of_lt hviol) (le_of_lt hWB); linarith) (le_of_lt hW)
      linarith
  · -- the left block survives
    have ht : (st.blocks[blk st.vars (st.cons[c]!).l]!).posn - (st.blocks[blk st.vars (st.cons[c]!).r]!).posn +
        -(offs st.vars (st.cons[c]!).r - offs st.vars (st.cons[c]!).l - (st.cons[c]!).gap) = -rawSlack st c := by
      rw [hslack, hfd.1, hfs.1]; ring
    rw [ht] at m1 m2
    refine ⟨fun x hx => ?_, fun x hx => ?_⟩
    · have e := m1 x hx
      refine ⟨by rw [e]; ring, ?_⟩
      have : -(-rawSlack st c * wsum st.vars (st.blocks[blk st.vars (st.cons[c]!).r]!).vars) /
          (wsum st.vars (st.blocks[blk st.vars (st.cons[c]!).l]!).vars +
            wsum st.vars (st.blocks[blk st.vars (st.cons[c]!).r]!).vars) ≤ 0 := by
        apply div_nonpos_of_nonpos_of_nonneg _ (le_of_lt hW)
        have := mul_nonpos_of_nonpos_of_nonneg (le_of_lt hviol) (le_of_lt hWB); linarith
      linarith
    · have e := m2 x hx
      refine ⟨by rw [e], ?_⟩
      have : 0 ≤ -rawSlack st c * wsum st.vars (st.blocks[blk st.vars (st.cons[c]!).l]!).vars /
          (wsum st.vars (st.blocks[blk st.vars (st.cons[c]!).l]!).vars +
            wsum st.vars (st.blocks[blk st.vars (st.cons[c]!).r]!).vars) :=
        div_nonneg (mul_nonneg (by linarith) (le_of_lt hWA)) (le_of_lt hW)
      linarith

-- non-vacuity: v0 (desired 3, weight 1) + 1 ≤ v1 (desired 0, weight 2), slack −4: left moves −4·2/3, right +4·1/3
#guard (let st := St.init #[(3, 1, 1), (0, 2, 1)] #[mkCon 0 1 1 false]
        let st' := mergeDir st 0 1 0 (-1)
        rawSlack st 0 == -4 && st'.pos 0 - st.pos 0 == -8/3 && st'.pos 1 - st.pos 1 == 4/3 &&
        rawSlack st' 0 == 0)

/-! ## optimality at a quiescent state -/

/-- **static_quiescent_is_optimum**: `quiescent_is_optimum` (Props/C02Model) for states of the static
    solver: block invariant (proved above for every normal return) + blocks at their stationary positions
    + every constraint holds + no active inequality with a negative tree multiplier ⇒ the positions
    satisfy KKT with the tree multipliers and are THE optimum.  (The two middle hypotheses are what
    `refine()` establishes when it leaves its loop with `solved = true`; they are evaluated on model
    states by `#guard` below, not proved as invariants — hence a conditional theorem.) -/
theorem static_quiescent_is_optimum (st : St) (hinv : IC st)
    (hw : ∀ i : Nat, i < st.vars.size → 0 < (st.vars[i]!).weight)
    (hs : ∀ i : Nat, i < st.vars.size → (st.vars[i]!).scale ≠ 0)
    (hstat : BlockStationary st) (hq : Quiescent 0 st) :
    KKT (problemOf st) st.pos (lamList st) ∧
    IsOptimum (problemOf st) st.pos ∧
    ∀ y, IsOptimum (problemOf st) y → ∀ i, i < st.vars.size → y i = st.pos i :=
  AdaptaVerif.Props.C02Model.quiescent_is_optimum
    { st with inactive := Array.range st.cons.size } hinv hw hs hstat ⟨hq.holds, hq.sign⟩

open AdaptaVerif.Lemmas.VpscNonVac in
/-- non-vacuity of `static_quiescent_is_optimum`: every hypothesis holds on `nvSt` (read as a state of the
    static solver: `IC` is `InvC` with every constraint allowed to be inactive) -/
example : ∃ st : St, IC st ∧ (∀ i : Nat, i < st.vars.size → 0 < (st.vars[i]!).weight) ∧
    (∀ i : Nat, i < st.vars.size → (st.vars[i]!).scale ≠ 0) ∧ BlockStationary st ∧ Quiescent 0 st :=
  ⟨nvSt, InvC.toRange nvSt_inv, nvSt_weight, nvSt_scale, nvSt_stationary, nvSt_quiescent 0⟩
open AdaptaVerif.Lemmas.VpscNonVac in
example := static_quiescent_is_optimum nvSt (InvC.toRange nvSt_inv) nvSt_weight nvSt_scale nvSt_stationary
  (nvSt_quiescent 0)

/-! ## non-vacuity and witnesses (evaluated at every build) -/

/-- a diamond with a drag: satisfy merges, refine splits -/
def exampleS : SSt :=
  SSt.init #[(10, 1, 1), (0, 1, 1), (-100, 1000, 1), (-50, 1, 1)]
    #[mkCon 0 2 1 false, mkCon 0 1 1 false, mkCon 1 3 1 false]

#guard (match exampleS.satisfy with | (s, .ok _ _) => invOkStatic s.st && !s.bad | _ => false)
#guard (match exampleS.solve with | (s, .ok _ _) => invOkStatic s.st && !s.bad && s.hs.nSplit ≥ 1 | _ => false)
-- `satisfy` alone stops short of the optimum here; `solve` (= satisfy + refine) moves v1
#guard (match exampleS.satisfy, exampleS.solve with
        | (_, .ok p1 _), (_, .ok p2 _) => p1[1]! != p2[1]! | _, _ => false)
-- the final state of `solve` is quiescent in the executable sense: every constraint holds exactly, every
-- block's q-sum is 0, no multiplier below 0
#guard (let st := exampleS.solve.1.st
        (List.range st.blocks.size).all (fun b =>
          ((List.range st.vars.size).filter (fun x => (st.vars[x]!).block == b)).foldl
            (fun acc x => acc + st.dfdv x / (st.vars[x]!).scale) 0 == 0) &&
        (List.range st.cons.size).all (fun ci => decide (0 ≤ rawSlack st ci)) &&
        st.order.all (fun b => match (st.findMinLM b).2 with | none => true | some (_, l, _) => decide (0 ≤ l)))

/-- out-of-date time stamp at a heap root (the `st-stale` motif of the harness) -/
def exampleStale : SSt :=
  SSt.init #[(10, 1, 1), (20, 1, 1), (0, 1, 1), (0, 1, 1)]
    #[mkCon 0 2 1 false, mkCon 0 1 1 false, mkCon 2 3 1 false, mkCon 1 3 1 false]
#guard (match exampleStale.solve with | (s, .ok _ _) => s.hs.nStale == 1 && invOkStatic s.st | _ => false)

/-- **known finding C01-static-eq, reproduced by the model**: the static solver never reads
    `Constraint::equality` when it merges: v0 desired 0, v1 desired 5, `v0 + 1 == v1`: `solve()` returns
    (0, 5) with the equality inactive (slack 4 ≠ 0), where the incremental solver returns (2, 3). -/
def exampleEq : SSt := SSt.init #[(0, 1, 1), (5, 1, 1)] #[mkCon 0 1 1 true]
#guard (match exampleEq.solve with
        | (s, .ok p _) => p[0]! == 0 && p[1]! == 5 && !(s.st.cons[0]!).active && rawSlack s.st 0 == 4
        | _ => false)
#guard (match (St.init #[(0, 1, 1), (5, 1, 1)] #[mkCon 0 1 1 true]).solve with
        | (_, .ok p _) => p[0]! == 2 && p[1]! == 3 | _ => false)

example : ∀ c ∈ (#[mkCon 0 2 1 false, mkCon 0 1 1 false, mkCon 1 3 1 false] : Array Con),
    c.l < 4 ∧ c.r < 4 ∧ c.unsat = false := by
  intro c hc
  simp only [Array.mem_def, List.mem_cons, List.not_mem_nil, or_false] at hc
  rcases hc with rfl | rfl | rfl <;> simp [mkCon]

end AdaptaVerif.Props.C01Static
