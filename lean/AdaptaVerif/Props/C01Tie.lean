/-
C01 / C02 — tie theorem: the arithmetic kernels of libvpsc that the IncSolver model
(Model/Vpsc.lean) is built on — `Variable::position()`, `Variable::dfdv()`, `Constraint::slack()`
(both branches), `PositionStats::addVariable()` and hence `Block::updateWeightedPosition()` — as
regenerated from /repo's libvpsc/{variable.h, constraint.h, block.cpp} by cpp2lean on every run,
are the model's `posOf`, `St.dfdv`, `St.slack`, `blockPosn`.
-/
import AdaptaVerif.Gen.VpscK
import AdaptaVerif.Model.Vpsc
namespace AdaptaVerif.Props.C01Tie
open AdaptaVerif.Model.Vpsc AdaptaVerif.Model.VpscKeys
open AdaptaVerif.Gen

/-- what the kernels read of a model variable that sits in model block `b` -/
def toVarK (v : Var) (b : Block) : VarK := ⟨v.desired, v.weight, v.scale, v.offset, b.scale, b.posn⟩

theorem gen_position_is_model (v : Var) (b : Block) : VpscK.position (toVarK v b) = posOf v b := rfl

theorem gen_dfdv_is_model (st : St) (i : Nat) :
    VpscK.dfdv (toVarK st.vars[i]! st.blocks[(st.vars[i]!).block]!) = st.dfdv i := rfl

/-- the constraint record of model constraint `ci` in state `st` -/
def toConK (st : St) (ci : Nat) (needsScaling : Bool) : ConK :=
  let c := st.cons[ci]!
  let l := st.vars[c.l]!
  let r := st.vars[c.r]!
  ⟨toVarK l st.blocks[l.block]!, toVarK r st.blocks[r.block]!, c.gap, c.unsat, needsScaling⟩

/-- scaled branch (`needsScaling`): the model's slack, provided the scales are non-zero (they are
    positive by the solver's precondition) -/
theorem gen_slack_scaled_is_model (st : St) (ci : Nat)
    (hl : (st.vars[(st.cons[ci]!).l]!).scale ≠ 0) (hr : (st.vars[(st.cons[ci]!).r]!).scale ≠ 0) :
    st.slack ci = if (st.cons[ci]!).unsat then none else some (VpscK.slack (toConK st ci true)) := by
  simp only [St.slack, VpscK.slack, toConK, toVarK, VpscK.position, St.uval]
  split
  · rfl
  · simp only [if_true, Option.some.injEq]
    grind

/-- unscaled branch: when its assertions hold (all scales 1) it computes the same number, so
    the model's single formula covers both branches of the C++ -/
theorem gen_slack_unscaled_is_model (st : St) (ci : Nat)
    (hpre : VpscK.slack_pre (toConK st ci false) = true) :
    st.slack ci = if (st.cons[ci]!).unsat then none else some (VpscK.slack (toConK st ci false)) := by
  simp only [St.slack, VpscK.slack, toConK, toVarK, VpscK.unscaledPosition, St.uval] at *
  split
  · rfl
  · rename_i hu
    simp only [VpscK.slack_pre, VpscK.unscaledPosition_pre, hu, Bool.false_eq_true, if_false, Bool.and_true,
      Bool.and_eq_true, decide_eq_true_eq] at hpre
    simp only [Bool.false_eq_true, if_false, Option.some.injEq]
    grind

/-- `PositionStats::addVariable` is one step of the fold inside `blockPosn` -/
theorem gen_addVariable_is_fold_step (v : Var) (b : Block) (s ab ad a2 : Rat) :
    VpscK.addVariable (toVarK v b) ⟨s, ab, ad, a2⟩ =
      ⟨s, ab + v.weight * (s / v.scale) * (v.offset / v.scale),
          ad + v.weight * (s / v.scale) * v.desired,
          a2 + v.weight * (s / v.scale) * (s / v.scale)⟩ := rfl

/-- the loop of `Block::updateWeightedPosition()` with the generated `addVariable` -/
def psFold (vars : Array Var) (b : Block) (_s : Rat) (l : List Nat) (ps : PosStats) : PosStats :=
  l.foldl (fun ps i => VpscK.addVariable (toVarK vars[i]! b) ps) ps

theorem fold_agrees (vars : Array Var) (b : Block) (s : Rat) (l : List Nat) (ab ad a2 : Rat) :
    l.foldl (fun (x : Rat × Rat × Rat) i =>
        match x with
        | (ab, ad, a2) =>
          let v := vars[i]!
          let ai := s / v.scale
          let bi := v.offset / v.scale
          (ab + v.weight * ai * bi, ad + v.weight * ai * v.desired, a2 + v.weight * ai * ai)) (ab, ad, a2) =
      ((psFold vars b s l ⟨s, ab, ad, a2⟩).AB, (psFold vars b s l ⟨s, ab, ad, a2⟩).AD, (psFold vars b s l ⟨s, ab, ad, a2⟩).A2) := by
  induction l generalizing ab ad a2 with
  | nil => rfl
  | cons i l ih =>
    simp only [List.foldl_cons, psFold]
    rw [gen_addVariable_is_fold_step]
    exact ih _ _ _

/-- `Block::updateWeightedPosition()`: `ps.AB=ps.AD=ps.A2=0; for v in vars: ps.addVariable(v);
    posn=(ps.AD-ps.AB)/ps.A2` with the generated `addVariable` is the model's `blockPosn` -/
theorem gen_updateWeightedPosition_is_model (vars : Array Var) (members : Array Nat) (b : Block) :
    blockPosn vars members =
      ((vars[members[0]!]!).scale,
       ((psFold vars b (vars[members[0]!]!).scale members.toList ⟨(vars[members[0]!]!).scale, 0, 0, 0⟩).AD -
        (psFold vars b (vars[members[0]!]!).scale members.toList ⟨(vars[members[0]!]!).scale, 0, 0, 0⟩).AB) /
        (psFold vars b (vars[members[0]!]!).scale members.toList ⟨(vars[members[0]!]!).scale, 0, 0, 0⟩).A2) := by
  have h := fold_agrees vars b (vars[members[0]!]!).scale members.toList 0 0 0
  simp only [blockPosn, ← Array.foldl_toList]
  rw [h]

#guard VpscK.slack ⟨⟨0, 1, 2, 1, 2, 3⟩, ⟨0, 1, 1, 5, 1, 0⟩, 1, false, true⟩ = 5 - 1 - 7

end AdaptaVerif.Props.C01Tie
