/-
Certified rational enclosures of square roots and of Euclidean polyline lengths (core Lean only).

`sqrtLo x k ≤ √x ≤ sqrtHi x k`, stated without reals as
   0 ≤ sqrtLo x k,  (sqrtLo x k)² ≤ x ≤ (sqrtHi x k)²,  0 < sqrtHi x k          (for x ≥ 0)
with width 2^-k.  The candidate root comes from `Nat.sqrt ⌊x·4^k⌋`; both the floor and the integer root
are *re-checked* by decidable tests inside the definitions (falling back to the trivial enclosure
[0, x+1] if a test failed), so the enclosure theorem (Lemmas/Sqrt.lean) does not depend on any
property of `Rat.floor` or `Nat.sqrt`.
-/
namespace AdaptaVerif.Num

/-- scaled argument, its integer part, and the candidate integer root -/
def sqrtParts (x : Rat) (k : Nat) : Rat × Nat × Nat :=
  let s : Nat := 2 ^ k
  let y : Rat := x * ((s * s : Nat) : Rat)
  let n : Nat := y.floor.toNat
  (y, n, Nat.sqrt n)

def sqrtLo (x : Rat) (k : Nat) : Rat :=
  let (y, n, r) := sqrtParts x k
  if ((n : Nat) : Rat) ≤ y ∧ r * r ≤ n then ((r : Nat) : Rat) / ((2 ^ k : Nat) : Rat) else 0

def sqrtHi (x : Rat) (k : Nat) : Rat :=
  let (y, n, r) := sqrtParts x k
  if y < ((n + 1 : Nat) : Rat) ∧ n < (r + 1) * (r + 1) then ((r + 1 : Nat) : Rat) / ((2 ^ k : Nat) : Rat) else x + 1

/-- squared Euclidean distance -/
def dist2 (ax ay bx by_ : Rat) : Rat := (bx - ax) * (bx - ax) + (by_ - ay) * (by_ - ay)

/-- lower / upper bound of the Euclidean length of a polyline given as a list of (x, y) -/
def polylineLenLo (k : Nat) : List (Rat × Rat) → Rat
  | [] => 0
  | [_] => 0
  | a :: b :: rest => sqrtLo (dist2 a.1 a.2 b.1 b.2) k + polylineLenLo k (b :: rest)

def polylineLenHi (k : Nat) : List (Rat × Rat) → Rat
  | [] => 0
  | [_] => 0
  | a :: b :: rest => sqrtHi (dist2 a.1 a.2 b.1 b.2) k + polylineLenHi k (b :: rest)

end AdaptaVerif.Num
