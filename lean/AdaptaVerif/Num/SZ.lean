/-
Signed-zero rationals (DESIGN.md section 3): the model of a finite IEEE double in kernels where
the *sign bit* is observable (`std::signbit`), i.e. where `-0.0` and `+0.0` behave differently.

`SZ = { neg : Bool, mag : Rat }` = sign bit + magnitude. The magnitude is meant to be `≥ 0`
(`SZ.WF`); the operations below never leave that domain, and every constructor used by the drivers
(`ofRat`, `ofSignVal`) produces well-formed values. Theorems that need the invariant state it as an
explicit hypothesis (`WF`), the others hold for every bit pattern.

IEEE rules modelled (finite values only; rounding is *not* modelled — models compute exactly):
  * negation flips the sign bit and nothing else (so `-(+0) = -0`, `-(-0) = +0`);
  * `signbit` reads the sign bit;
  * comparisons (`== 0`, `< 0`, `> 0`, `<`, `≤`) are on the *value*, so `-0 == +0`, `¬(-0 < +0)`;
  * `fabs` clears the sign bit;
  * `floor`/`ceil` keep the sign of the argument when the result is zero
    (`ceil(-0.5) = -0`, `floor(-0) = -0`, `floor(+0.5) = +0`);
  * addition of a value `x` and a non-signed quantity `e` (a `Rat`, zero meaning `+0`): the sum is
    `-0` only if both operands are `-0`, hence never here; a zero sum is `+0` (round-to-nearest).
Core Lean only (linked into the compiled driver).
-/
namespace AdaptaVerif.Num

structure SZ where
  /-- sign bit (`std::signbit`) -/
  neg : Bool
  /-- magnitude `|x|` -/
  mag : Rat
  deriving DecidableEq, Repr, Inhabited

namespace SZ

/-- the invariant: magnitudes are non-negative -/
def WF (x : SZ) : Prop := 0 ≤ x.mag

instance (x : SZ) : Decidable x.WF := inferInstanceAs (Decidable (0 ≤ x.mag))

/-- `+0.0` -/
def zero : SZ := ⟨false, 0⟩
/-- `-0.0` -/
def negZero : SZ := ⟨true, 0⟩

/-- the real value -/
def toRat (x : SZ) : Rat := if x.neg then -x.mag else x.mag

/-- a rational as a double: zero becomes `+0` -/
def ofRat (r : Rat) : SZ := if r < 0 then ⟨true, -r⟩ else ⟨false, r⟩

/-- from an explicit sign bit and a *signed* value (as delivered by the hex-float import) -/
def ofSignVal (sign : Bool) (v : Rat) : SZ := ⟨sign, if v < 0 then -v else v⟩

/-- `std::signbit` -/
def signbit (x : SZ) : Bool := x.neg

/-- unary minus: flips the sign bit, also of a zero -/
protected def neg' (x : SZ) : SZ := ⟨!x.neg, x.mag⟩

instance : Neg SZ := ⟨SZ.neg'⟩

/-- `std::fabs` -/
def abs (x : SZ) : SZ := ⟨false, x.mag⟩

/-- `x == 0` -/
def isZero (x : SZ) : Bool := x.mag == 0
/-- `x < 0` (false for `-0`) -/
def ltZero (x : SZ) : Bool := x.neg && x.mag != 0
/-- `x > 0` -/
def gtZero (x : SZ) : Bool := !x.neg && x.mag != 0
/-- `x < y` on values -/
def lt (x y : SZ) : Bool := x.toRat < y.toRat
/-- `x <= y` on values -/
def le (x y : SZ) : Bool := x.toRat ≤ y.toRat
/-- `x == y` on values (`-0 == +0`) -/
def eqVal (x y : SZ) : Bool := x.toRat == y.toRat

/-- `std::floor`: the sign bit is kept (a zero result of a non-negative argument is `+0`,
    `floor(-0) = -0`; a negative argument has a negative floor) -/
def floor (x : SZ) : SZ :=
  if x.neg then ⟨true, ((x.mag.ceil : Int) : Rat)⟩ else ⟨false, ((x.mag.floor : Int) : Rat)⟩

/-- `std::ceil`: `ceil(-0.5) = -0`, `ceil(-0) = -0` -/
def ceil (x : SZ) : SZ :=
  if x.neg then ⟨true, ((x.mag.floor : Int) : Rat)⟩ else ⟨false, ((x.mag.ceil : Int) : Rat)⟩

/-- `x + e` for an unsigned-zero quantity `e` (see header) -/
def addRat (x : SZ) (e : Rat) : SZ := ofRat (x.toRat + e)

@[simp] theorem neg_neg (x : SZ) : - -x = x := by
  cases x with
  | mk n m => show SZ.mk (!(!n)) m = SZ.mk n m; simp

@[simp] theorem neg_neg' (x : SZ) : (-x).neg = !x.neg := rfl
@[simp] theorem neg_mag (x : SZ) : (-x).mag = x.mag := rfl
@[simp] theorem signbit_neg (x : SZ) : (-x).signbit = !x.signbit := rfl
@[simp] theorem signbit_mk (n : Bool) (m : Rat) : (SZ.mk n m).signbit = n := rfl

theorem neg_def (x : SZ) : -x = ⟨!x.neg, x.mag⟩ := rfl

theorem neg_WF {x : SZ} (h : x.WF) : (-x).WF := h

end SZ
end AdaptaVerif.Num
