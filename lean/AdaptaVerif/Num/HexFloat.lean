/-
Exact import of IEEE doubles printed by C's `%a` (hex float) as rationals.
A finite double is a dyadic rational, so nothing is lost. Core Lean only (no Mathlib),
so the driver links as a `lean_exe`.
-/
namespace AdaptaVerif.Num

/-- A double as printed by the harness: finite (with its sign bit, which matters for -0),
    infinite, or NaN. -/
inductive Dbl where
  | fin (sign : Bool) (v : Rat)
  | inf (sign : Bool)
  | nan
  deriving Repr, BEq, Inhabited

def Dbl.isFinite : Dbl → Bool
  | .fin _ _ => true
  | _ => false

def Dbl.toRat? : Dbl → Option Rat
  | .fin _ v => some v
  | _ => none

/-- value, with non-finite doubles mapped to 0; only to be used after `isFinite` was checked -/
def Dbl.val : Dbl → Rat
  | .fin _ v => v
  | _ => 0

def Dbl.signbit : Dbl → Bool
  | .fin s _ => s
  | .inf s => s
  | .nan => false

def hexDigit? (c : Char) : Option Nat :=
  if '0' ≤ c ∧ c ≤ '9' then some (c.toNat - '0'.toNat)
  else if 'a' ≤ c ∧ c ≤ 'f' then some (c.toNat - 'a'.toNat + 10)
  else if 'A' ≤ c ∧ c ≤ 'F' then some (c.toNat - 'A'.toNat + 10)
  else none

def pow2 (e : Int) : Rat :=
  if e ≥ 0 then ((2 ^ e.toNat : Nat) : Rat) else 1 / ((2 ^ (-e).toNat : Nat) : Rat)

/-- Parse the mantissa `h.hhhh` into (integer value of all digits, number of fractional digits). -/
def parseHexMant (cs : List Char) : Option (Nat × Nat) :=
  let rec go (cs : List Char) (acc : Nat) (frac : Nat) (seenDot : Bool) (any : Bool) : Option (Nat × Nat) :=
    match cs with
    | [] => if any then some (acc, frac) else none
    | c :: rest =>
      if c == '.' then (if seenDot then none else go rest acc frac true any)
      else match hexDigit? c with
        | some d => go rest (acc * 16 + d) (if seenDot then frac + 1 else frac) seenDot true
        | none => none
  go cs 0 0 false false

def parseDbl (s : String) : Option Dbl :=
  let cs := s.toList
  let (sign, cs) := match cs with
    | '-' :: r => (true, r)
    | '+' :: r => (false, r)
    | r => (false, r)
  let str := String.ofList cs
  if str == "inf" || str == "infinity" then some (.inf sign)
  else if str == "nan" || str == "-nan" then some .nan
  else match cs with
    | '0' :: x :: rest =>
      if x == 'x' || x == 'X' then
        let mant := rest.takeWhile (fun c => c != 'p' && c != 'P')
        let expo := (rest.dropWhile (fun c => c != 'p' && c != 'P')).drop 1
        let expo := match expo with
          | '+' :: r => r
          | r => r
        match parseHexMant mant, (String.ofList expo).toInt? with
        | some (m, f), some e =>
          let v : Rat := (m : Rat) * pow2 (e - 4 * (f : Int))
          some (.fin sign (if sign then -v else v))
        | _, _ => none
      else none
    | _ => none

/-- plain decimal integers / hex floats both accepted (`3`, `-2`, `0x1.8p+1`) -/
def parseNum (s : String) : Option Rat :=
  match s.toInt? with
  | some i => some (i : Rat)
  | none => (parseDbl s).bind Dbl.toRat?

/-- decimal rendering for messages (not for comparison) -/
def ratToString (r : Rat) : String :=
  if r.den == 1 then toString r.num else s!"{r.num}/{r.den}"

def absRat (r : Rat) : Rat := if r < 0 then -r else r

end AdaptaVerif.Num
