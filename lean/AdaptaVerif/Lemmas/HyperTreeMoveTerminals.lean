/-
The junction move (`moveJunctionAlongCommonEdge`) keeps the TERMINAL SET (the leaves) of the hyperedge
tree, under the geometric side condition `MoveSafe` on the junction node.
-/
import AdaptaVerif.Lemmas.HyperTreeMove
namespace AdaptaVerif.Lemmas.HyperTreeMoveTerminals
open AdaptaVerif.Model.HyperTree AdaptaVerif.Check.Tree AdaptaVerif.Spec.Tree
open AdaptaVerif.Lemmas.HyperTreeGraph AdaptaVerif.Lemmas.HyperTree AdaptaVerif.Lemmas.Tree
open AdaptaVerif.Lemmas.HyperTreeMove

/-! ## basics -/

theorem pt_eq_of_beq {p q : AdaptaVerif.Model.Geometry.Pt} (h : (p == q) = true) : p = q := by
  cases p; cases q
  simp only [BEq.beq] at h
  unfold AdaptaVerif.Model.Geometry.instBEqPt.beq at h
  simp_all

theorem length_filter_ne_of_nodup {l : List Nat} {a : Nat} (hnd : l.Nodup) (ha : a ∈ l) :
    (l.filter (fun j => j != a)).length + 1 = l.length := by
  induction l with
  | nil => cases ha
  | cons b l ih =>
    have hnd' := List.nodup_cons.mp hnd
    rcases List.mem_cons.mp ha with rfl | ha'
    · have : l.filter (fun j => j != a) = l :=
        List.filter_eq_self.mpr (fun x hx => by simpa using fun (hh : x = a) => hnd'.1 (hh ▸ hx))
      simp [this]
    · have hba : b ≠ a := fun hh => hnd'.1 (hh ▸ ha')
      have : (b != a) = true := by simpa using hba
      simp only [List.filter_cons, this, if_true, List.length_cons]
      have := ih hnd'.2 ha'
      omega

/-- degrees after an identification step (`x` = the end of the removed edge that is not `src`) -/
theorem identify_deg {t t' : HTree} {e : HEdge} {x tg src : Nat} (hs : IdentifySpec t e x tg src t')
    (hts : tg ≠ src) (hxs : x ≠ src) (v : Nat) :
    deg t'.graphE v =
      if v = src then 0
      else if v = tg then (deg t.graphE tg - (if x = tg then 1 else 0)) + (deg t.graphE src - 1)
      else deg t.graphE v - (if x = v then 1 else 0) := by
  have key : ∀ w, deg t.graphE w =
      deg (restE t e.id) w + (if x = w then 1 else 0) + (if src = w then 1 else 0) := by
    intro w
    rcases hs.perm with hp | hp
    · rw [deg_perm hp w, deg_cons]
    · rw [deg_perm hp w, deg_cons]; omega
  rw [hs.graphE, deg_map_ren (Ne.symm hts)]
  have k1 := key tg
  have k2 := key src
  have k3 := key v
  by_cases h1 : v = src
  · simp [h1]
  · by_cases h2 : v = tg
    · subst h2
      simp only [h1, if_false, if_true]
      have : ¬ src = v := fun h => h1 h.symm
      simp only [this, if_false, if_true] at k1 k2
      simp only [hxs, if_false] at k2
      by_cases hx : x = v
      · simp only [hx, if_true] at k1 ⊢
        omega
      · simp only [hx, if_false] at k1 ⊢
        omega
    · simp only [h1, h2, if_false]
      have : ¬ src = v := fun h => h1 h.symm
      simp only [this, if_false] at k3
      by_cases hx : x = v <;> simp only [hx, if_true, if_false] at k3 ⊢ <;> omega

theorem next_not_mem_graphV {t : HTree} (h : WF t) : t.next ∉ t.graphV := by
  intro hm
  obtain ⟨n, hn, hid⟩ := WF.node_of_mem_graphV hm
  have := h.fresh.1 n hn
  omega

/-- degrees after a split: the new node has degree 2, all other degrees are unchanged -/
theorem split_deg {t t' : HTree} (h : Tree t) {e : HEdge} (he : e ∈ t.edges) {source target : Nat}
    (hj : Joins e source target) {p : AdaptaVerif.Model.Geometry.Pt}
    (hs : SplitSpec t e source target p t') (w : Nat) :
    deg t'.graphE w = deg t.graphE w + (if t.next = w then 2 else 0) := by
  have hN := next_not_mem_graphV h.1
  have hsrc : source ≠ t.next := fun hh => hN (hh ▸ (joins_mem_graphV h.1 he hj).1)
  have htgt : target ≠ t.next := fun hh => hN (hh ▸ (joins_mem_graphV h.1 he hj).2)
  have key : deg t.graphE w =
      deg (restE t e.id) w + (if source = w then 1 else 0) + (if target = w then 1 else 0) := by
    rcases hj with ⟨a, b⟩ | ⟨a, b⟩
    · rw [deg_perm (graphE_perm h.1 he a b) w, deg_cons]
    · rw [deg_perm (graphE_perm h.1 he a b) w, deg_cons]; omega
  rw [deg_perm hs.graphE w, deg_cons, deg_cons, key]
  by_cases hw : t.next = w
  · subst hw
    simp [hsrc, htgt]
  · simp only [hw, if_false]; omega

theorem split_leaves {t t' : HTree} (h : Tree t) {e : HEdge} (he : e ∈ t.edges) {source target : Nat}
    (hj : Joins e source target) {p : AdaptaVerif.Model.Geometry.Pt}
    (hs : SplitSpec t e source target p t') {T : List Nat} (hT : LeavesAre t.graphV t.graphE T) :
    LeavesAre t'.graphV t'.graphE T := by
  have hN := next_not_mem_graphV h.1
  refine ⟨fun x hx => by rw [hs.graphV]; exact List.mem_append_left _ (hT.1 x hx), ?_⟩
  intro v hv
  rw [hs.graphV, List.mem_append, List.mem_singleton] at hv
  rw [split_deg h he hj hs v]
  rcases hv with hv | hv
  · have hne : ¬ t.next = v := fun hh => hN (hh ▸ hv)
    simp only [hne, if_false, Nat.add_zero]
    exact hT.2 v hv
  · subst hv
    have hnT : t.next ∉ T := fun hh => hN (hT.1 _ hh)
    simp only [if_true, hnT, iff_false]
    omega

/-! ## the side condition -/

/-- no leaf neighbour of the junction node shares its position with, or lies strictly inside the
    segment to, another neighbour (fixed-route edges aside) -/
def MoveSafe (t : HTree) (self : Nat) : Prop :=
  ∀ sn ∈ t.nodes, sn.id = self →
  ∀ e1 ∈ t.edges, ∀ e2 ∈ t.edges, e1.id ∈ sn.edges → e2.id ∈ sn.edges → e1.id ≠ e2.id →
    e1.hasFixedRoute = false → e2.hasFixedRoute = false →
  ∀ l ∈ t.nodes, ∀ o ∈ t.nodes, Joins e1 self l.id → Joins e2 self o.id → l.edges.length = 1 →
    l.junction = none →
    o.point ≠ l.point ∧ AdaptaVerif.Model.Geometry.pointOnLine sn.point o.point l.point = false

theorem joins_far_unique {e : HEdge} {a b b' : Nat} (h1 : Joins e a b) (h2 : Joins e a b')
    (_hab : a ≠ b) : b = b' := by
  rcases h1 with ⟨c1, c2⟩ | ⟨c1, c2⟩ <;> rcases h2 with ⟨d1, d2⟩ | ⟨d1, d2⟩
  · rw [c2] at d2; exact Option.some.inj d2
  · rw [c1] at d1; rw [c2] at d2
    have h1 := Option.some.inj d1
    have h2 := Option.some.inj d2
    omega
  · rw [c1] at d1; rw [c2] at d2
    have h1 := Option.some.inj d1
    have h2 := Option.some.inj d2
    omega
  · rw [c1] at d1; exact Option.some.inj d1

open AdaptaVerif.Model.Geometry in
/-- `MoveSafe` survives the split, at the position of the neighbour `c` (far end of `ce`), of another
    non-fixed edge `oe` of `self` whose far end `on` has `c` strictly inside the segment to it -/
theorem MoveSafe_split {t : HTree} (ht : Tree t) {self cnId onId : Nat} (hsafe : MoveSafe t self)
    {sn : HNode} (hsn : sn ∈ t.nodes) (hid : sn.id = self) {ce oe : HEdge} (hce : ce ∈ t.edges)
    (hcin : ce.id ∈ sn.edges) (hcf : ce.hasFixedRoute = false) (hjc : Joins ce self cnId)
    {c : HNode} (hc : c ∈ t.nodes) (hcid : c.id = cnId) (hoe : oe ∈ t.edges)
    (hoin : oe.id ∈ sn.edges) (hne : oe.id ≠ ce.id) (hof : oe.hasFixedRoute = false)
    (hjo : Joins oe self onId) {on : HNode} (hon : on ∈ t.nodes) (honid : on.id = onId)
    (hpl : pointOnLine sn.point on.point c.point = true) :
    MoveSafe (splitResult t oe self onId c.point) self := by
  have hso : self ≠ onId := ht.ne_of_joins hoe hjo
  have hW' : WF (splitResult t oe self onId c.point) := splitResult_WF ht.1 hoe hjo hso c.point
  have hN := next_not_mem_graphV ht.1
  have hsplitN : splitNode t oe.id c.point ∈ (splitResult t oe self onId c.point).nodes := by
    simp [splitResult]
  -- classification of the nodes of the result
  have nodeOld : ∀ n' ∈ (splitResult t oe self onId c.point).nodes, n'.id ≠ t.next →
      ∃ n ∈ t.nodes, n.id = n'.id ∧ n.point = n'.point ∧ n.junction = n'.junction ∧
        n.edges.length = n'.edges.length := by
    intro n' hn' hnid
    simp only [splitResult, List.mem_append, List.mem_map, List.mem_singleton] at hn'
    rcases hn' with ⟨n, hn, rfl⟩ | rfl
    · refine ⟨n, hn, ?_⟩
      by_cases hno : n.id = onId
      · have hb : (n.id == onId) = true := by simpa using hno
        rw [if_pos hb]
        refine ⟨rfl, rfl, rfl, ?_⟩
        have hin : oe.id ∈ n.edges := by
          rw [ht.1.mem_edges_iff hn hoe, hno]
          rcases hjo with ⟨_, h2⟩ | ⟨h1, _⟩
          · exact Or.inr h2
          · exact Or.inl h1
        have := length_filter_ne_of_nodup (ht.1.nodupL n hn) hin
        simp only [List.length_append, List.length_cons, List.length_nil]
        omega
      · have hb : ¬ (n.id == onId) = true := by simpa using hno
        rw [if_neg hb]
        exact ⟨rfl, rfl, rfl, rfl⟩
    · exact absurd rfl hnid
  -- classification of the edges of the result that hang off `self`
  have edgeCl : ∀ x' ∈ (splitResult t oe self onId c.point).edges, x'.id ∈ sn.edges →
      (x' ∈ t.edges ∧ x'.id ≠ oe.id) ∨
      (x'.id = oe.id ∧ x'.e1 = some self ∧ x'.e2 = some t.next) := by
    intro x' hx' hin
    simp only [splitResult, List.mem_append, List.mem_map, List.mem_singleton] at hx'
    rcases hx' with ⟨x, hx, rfl⟩ | rfl
    · by_cases hxo : x.id = oe.id
      · have hb : (x.id == oe.id) = true := by simpa using hxo
        rw [if_pos hb]
        exact Or.inr ⟨hxo, rfl, rfl⟩
      · have hb : ¬ (x.id == oe.id) = true := by simpa using hxo
        rw [if_neg hb]
        exact Or.inl ⟨hx, hxo⟩
    · exfalso
      obtain ⟨x, hx, hxi, _⟩ := (ht.1.inc sn hsn _).mp hin
      have := ht.1.fresh.2 x hx
      simp only [splitEdge] at hxi
      omega
  -- an old edge at `self` leads to an old node
  have oldFar : ∀ x ∈ t.edges, ∀ n' ∈ (splitResult t oe self onId c.point).nodes, Joins x self n'.id →
      ∃ n ∈ t.nodes, n.id = n'.id ∧ n.point = n'.point ∧ n.junction = n'.junction ∧
        n.edges.length = n'.edges.length := by
    intro x hx n' hn' hj
    apply nodeOld n' hn'
    intro hh
    exact hN (hh ▸ (joins_mem_graphV ht.1 hx hj).2)
  -- the split edge leads to the split node
  have splitFar : ∀ x' : HEdge, x'.e1 = some self → x'.e2 = some t.next →
      ∀ n' ∈ (splitResult t oe self onId c.point).nodes, Joins x' self n'.id →
      n' = splitNode t oe.id c.point := by
    intro x' h1 h2 n' hn' hj
    apply hW'.node_eq hn' hsplitN
    rcases hj with ⟨_, j2⟩ | ⟨_, j2⟩
    · rw [h2] at j2; exact (Option.some.inj j2).symm
    · exfalso
      rw [h2] at j2
      have : t.next = self := Option.some.inj j2
      exact hN (this ▸ hid ▸ List.mem_map.mpr ⟨sn, hsn, rfl⟩)
  intro sn' hsn' hsn'id e1' he1' e2' he2' hi1 hi2 hne12 hf1 hf2 l' hl' o' ho' hj1 hj2 hlen hlj
  have hsn'' : sn' = sn :=
    hW'.node_eq hsn' (splitResult_node_mem hsn (hid ▸ hso)) (hsn'id.trans hid.symm)
  subst hsn''
  rcases edgeCl e1' he1' hi1 with ⟨hx1, hx1o⟩ | ⟨_, a1, a2⟩
  · obtain ⟨l, hl, hlid, hlp, hljn, hll⟩ := oldFar e1' hx1 l' hl' hj1
    rcases edgeCl e2' he2' hi2 with ⟨hx2, _⟩ | ⟨_, b1, b2⟩
    · obtain ⟨o, ho, hoid, hop, _, _⟩ := oldFar e2' hx2 o' ho' hj2
      have := hsafe sn' hsn hid e1' hx1 e2' hx2 hi1 hi2 hne12 hf1 hf2 l hl o ho (hlid ▸ hj1)
        (hoid ▸ hj2) (hll.trans hlen) (hljn.trans hlj)
      rw [hop, hlp] at this
      exact this
    · have ho'' := splitFar e2' b1 b2 o' ho' hj2
      have hop : o'.point = c.point := by rw [ho'']; rfl
      rw [hop, ← hlp]
      by_cases h1c : e1'.id = ce.id
      · exfalso
        have hx1c : e1' = ce := ht.1.edge_eq hx1 hce h1c
        have hlc : l = c := by
          apply ht.1.node_eq hl hc
          rw [hcid, hlid]
          rw [hx1c] at hj1
          exact (joins_far_unique hjc hj1 (ht.ne_of_joins hce hjc)).symm
        subst hlc
        have := hsafe sn' hsn hid ce hce oe hoe hcin hoin (Ne.symm hne) hcf hof l hl on hon
          (hcid ▸ hjc) (honid ▸ hjo) (hll.trans hlen) (hljn.trans hlj)
        rw [hpl] at this
        exact absurd this.2 (by simp)
      · exact hsafe sn' hsn hid e1' hx1 ce hce hi1 hcin h1c hf1 hcf l hl c hc (hlid ▸ hj1)
          (hcid ▸ hjc) (hll.trans hlen) (hljn.trans hlj)
  · exfalso
    have := splitFar e1' a1 a2 l' hl' hj1
    rw [this] at hlen
    simp [splitNode] at hlen

/-! ## the scan keeps the leaves and the side condition -/

/-- the far end of edge `i`, seen from `self`, is a live node of degree ≥ 2 -/
def FarDeg (t : HTree) (self i : Nat) : Prop :=
  ∃ x ∈ t.edges, x.id = i ∧ ∃ o, x.followFrom self = some o ∧ o ∈ t.graphV ∧ 2 ≤ deg t.graphE o

theorem FarDeg.transport {curr : Nat} {S : List Nat} {t t' : HTree} (hle : HeapLe curr S t t')
    (hdeg : ∀ v ∈ t.graphV, deg t'.graphE v = deg t.graphE v) {self i : Nat} (hi : i ∉ S)
    (hf : FarDeg t self i) : FarDeg t' self i := by
  obtain ⟨x, hx, hxi, o, hfol, hoV, hd⟩ := hf
  exact ⟨x, hle.keepE x hx (Or.inr (hxi ▸ hi)), hxi, o, hfol, hle.graphV o hoV, by rw [hdeg o hoV]; exact hd⟩

theorem joins_end {e : HEdge} {a b : Nat} (h : Joins e a b) : e.e1 = some b ∨ e.e2 = some b := by
  rcases h with ⟨_, h2⟩ | ⟨h1, _⟩
  · exact Or.inr h2
  · exact Or.inl h1

theorem deg_ge_two_of {t : HTree} (ht : Tree t) {n : HNode} (hn : n ∈ t.nodes) {e : HEdge}
    (he : e ∈ t.edges) (hend : e.e1 = some n.id ∨ e.e2 = some n.id) (h1 : n.edges.length ≠ 1) :
    2 ≤ deg t.graphE n.id := by
  rw [← ht.length_edges_eq_deg hn]
  have : e.id ∈ n.edges := (ht.1.mem_edges_iff hn he).mpr hend
  have : 0 < n.edges.length := List.length_pos_of_mem this
  omega

/-- the fixed data of one iteration of `moveLoop`, as they hold in the current heap `t` -/
structure MoveCtx (t : HTree) (slf curr cnId : Nat) (sn : HNode) (ce : HEdge)
    (cnPt : AdaptaVerif.Model.Geometry.Pt) : Prop where
  tree : Tree t
  safe : MoveSafe t slf
  sn_mem : sn ∈ t.nodes
  sn_id : sn.id = slf
  ce_mem : ce ∈ t.edges
  ce_id : ce.id = curr
  ce_in : curr ∈ sn.edges
  ce_fixed : ce.hasFixedRoute = false
  ce_joins : Joins ce slf cnId
  cn : ∃ c ∈ t.nodes, c.id = cnId ∧ c.point = cnPt ∧ c.junction = none

/-- what the scan guarantees for the terminals -/
structure ScanT (slf curr cnId : Nat) (sn : HNode) (ce : HEdge) (cnPt : AdaptaVerif.Model.Geometry.Pt)
    (T : List Nat) (sc sc' : Scan) : Prop where
  ctx : MoveCtx sc'.t slf curr cnId sn ce cnPt
  leaves : LeavesAre sc'.t.graphV sc'.t.graphE T
  degOld : ∀ v ∈ sc.t.graphV, deg sc'.t.graphE v = deg sc.t.graphE v
  far : ∀ A, sc'.common = sc.common ++ A →
    (∀ i ∈ A, FarDeg sc'.t slf i) ∧ (A ≠ [] → 2 ≤ deg sc'.t.graphE cnId)

theorem ScanT.step_common {self curr cnId : Nat} {sn : HNode} {ce : HEdge}
    {cnPt : AdaptaVerif.Model.Geometry.Pt} {T : List Nat} {sc sc1 sc' : Scan} {e2 : Nat} {rest : List Nat}
    (hV : ∀ v ∈ sc.t.graphV, v ∈ sc1.t.graphV)
    (hD : ∀ v ∈ sc.t.graphV, deg sc1.t.graphE v = deg sc.t.graphE v)
    (hcm : sc1.common = sc.common ++ [e2]) (hfar : FarDeg sc1.t self e2)
    (hcn : 2 ≤ deg sc1.t.graphE cnId) (hcnV : cnId ∈ sc1.t.graphV)
    (hspec : ScanSpec curr sn rest sc1 sc') (hnr : e2 ∉ rest)
    (ih : ScanT self curr cnId sn ce cnPt T sc1 sc') : ScanT self curr cnId sn ce cnPt T sc sc' := by
  refine ⟨ih.ctx, ih.leaves, fun v hv => (ih.degOld v (hV v hv)).trans (hD v hv), ?_⟩
  intro A hA
  obtain ⟨A', B', hA', _⟩ := hspec.parts
  rw [hcm, List.append_assoc] at hA'
  have hAA : A = [e2] ++ A' := List.append_cancel_left (hA.symm.trans hA')
  have hih := ih.far A' (by rw [hcm, List.append_assoc]; exact hA')
  subst hAA
  refine ⟨?_, fun _ => by rw [ih.degOld cnId hcnV]; exact hcn⟩
  intro i hi
  rcases List.mem_append.mp hi with hi | hi
  · simp only [List.mem_singleton] at hi
    subst hi
    exact FarDeg.transport hspec.le ih.degOld hnr hfar
  · exact hih.1 i hi

open AdaptaVerif.Model.Geometry in
theorem scanOthers_T {self curr cnId : Nat} {sn : HNode} {ce : HEdge} {cnPt : Pt} {T : List Nat} :
    ∀ (l : List Nat) (sc sc' : Scan), l.Nodup → MoveCtx sc.t self curr cnId sn ce cnPt →
      LeavesAre sc.t.graphV sc.t.graphE T →
      scanOthers self sn.point cnPt curr l sc = some sc' → ScanT self curr cnId sn ce cnPt T sc sc' := by
  intro l
  induction l with
  | nil =>
    intro sc sc' _ ctx hT h
    simp only [scanOthers, Option.some.injEq] at h
    subst h
    refine ⟨ctx, hT, fun _ _ => rfl, ?_⟩
    intro A hA
    have : A = [] := by
      have := congrArg List.length hA
      simp only [List.length_append] at this
      exact List.eq_nil_of_length_eq_zero (by omega)
    subst this
    exact ⟨by simp, fun h => absurd rfl h⟩
  | cons e2 rest ih =>
    intro sc sc' hnd ctx hT h
    have hnd' := List.nodup_cons.mp hnd
    have ht := ctx.tree
    have hsn := ctx.sn_mem
    have hid := ctx.sn_id
    rw [scanOthers] at h
    split at h
    · exact ih sc sc' hnd'.2 ctx hT h
    · next hc =>
      have hother : ∀ {sc'}, scanOthers self sn.point cnPt curr rest { sc with other := sc.other ++ [e2] } = some sc' →
          ScanT self curr cnId sn ce cnPt T sc sc' := fun h =>
        have r := ih { sc with other := sc.other ++ [e2] } _ hnd'.2 ctx hT h
        ⟨r.ctx, r.leaves, r.degOld, r.far⟩
      split at h
      · next oe sn1 hoe hsn1 =>
        have : sn1 = sn := by
          have := node?_of_mem ht.1.nodupN hsn
          rw [hid, hsn1] at this
          exact Option.some.inj this
        subst this
        split at h
        · cases h
        · next hguard =>
          have hin : e2 ∈ sn1.edges := by simpa using hguard
          obtain ⟨hoem, hoeid⟩ := edge?_mem hoe
          split at h
          · exact hother h
          · next hofx =>
            have hof : oe.hasFixedRoute = false := by simpa using hofx
            split at h
            · cases h
            · next onId hfol =>
              split at h
              · cases h
              · next on hon =>
                obtain ⟨honm, honid⟩ := node?_mem hon
                obtain ⟨c, hcm, hcid, hcpt, hcj⟩ := ctx.cn
                have hjo : Joins oe self onId := by
                  rw [← hid]
                  exact joins_of_followFrom ht.1 hsn hoem (hoeid ▸ hin) (hid ▸ hfol)
                have hso : self ≠ onId := ht.ne_of_joins hoem hjo
                have hne : oe.id ≠ ce.id := by rw [hoeid, ctx.ce_id]; exact hc
                have hcnV : cnId ∈ sc.t.graphV := hcid ▸ List.mem_map.mpr ⟨c, hcm, rfl⟩
                have honV : onId ∈ sc.t.graphV := honid ▸ List.mem_map.mpr ⟨on, honm, rfl⟩
                split at h
                · next hpt =>
                  split at h
                  · exact hother h
                  · next hjn =>
                    have hjnone : on.junction = none := by
                      cases hh : on.junction with
                      | none => rfl
                      | some _ => rw [hh] at hjn; simp at hjn
                    have hpp : on.point = c.point := (pt_eq_of_beq hpt).trans hcpt.symm
                    have hdon : 2 ≤ deg sc.t.graphE onId := by
                      rw [← honid]
                      apply deg_ge_two_of ht honm hoem (honid ▸ joins_end hjo)
                      intro h1
                      exact (ctx.safe sn1 hsn hid oe hoem ce ctx.ce_mem (hoeid ▸ hin) (ctx.ce_id ▸ ctx.ce_in)
                        hne hof ctx.ce_fixed on honm c hcm (honid ▸ hjo) (hcid ▸ ctx.ce_joins) h1 hjnone).1
                        hpp.symm
                    have hdcn : 2 ≤ deg sc.t.graphE cnId := by
                      rw [← hcid]
                      apply deg_ge_two_of ht hcm ctx.ce_mem (hcid ▸ joins_end ctx.ce_joins)
                      intro h1
                      exact (ctx.safe sn1 hsn hid ce ctx.ce_mem oe hoem (ctx.ce_id ▸ ctx.ce_in) (hoeid ▸ hin)
                        (Ne.symm hne) ctx.ce_fixed hof c hcm on honm (hcid ▸ ctx.ce_joins) (honid ▸ hjo) h1 hcj).1
                        hpp
                    have hspec := scanOthers_spec hid rest { sc with common := sc.common ++ [e2] } sc'
                      hnd'.2 ht hsn h
                    exact ScanT.step_common (sc1 := { sc with common := sc.common ++ [e2] })
                      (fun _ hv => hv) (fun _ _ => rfl) rfl
                      ⟨oe, hoem, hoeid, onId, hid ▸ hfol, honV, hdon⟩ hdcn hcnV hspec hnd'.1
                      (ih _ _ hnd'.2 ctx hT h)
                · split at h
                  · next hpl =>
                    split at h
                    · cases h
                    · next t' a b hsplit =>
                      have hpl' : pointOnLine sn1.point on.point c.point = true := by rw [hcpt]; exact hpl
                      obtain ⟨t'', heq, ht'', hs⟩ := split_tree ht hoem hjo cnPt
                      obtain ⟨heq2, _⟩ := split_spec ht.1 hoem hjo hso cnPt
                      rw [hoeid] at heq heq2
                      rw [hsplit] at heq heq2
                      have e1 : t' = t'' := by injection heq with h'; injection h'
                      have e3 : t' = splitResult sc.t oe self onId cnPt := by
                        injection heq2 with h'; injection h'
                      subst e1
                      have hN := next_not_mem_graphV ht.1
                      have hdcn : 2 ≤ deg sc.t.graphE cnId := by
                        rw [← hcid]
                        apply deg_ge_two_of ht hcm ctx.ce_mem (hcid ▸ joins_end ctx.ce_joins)
                        intro h1
                        have := (ctx.safe sn1 hsn hid ce ctx.ce_mem oe hoem (ctx.ce_id ▸ ctx.ce_in) (hoeid ▸ hin)
                          (Ne.symm hne) ctx.ce_fixed hof c hcm on honm (hcid ▸ ctx.ce_joins) (honid ▸ hjo) h1 hcj).2
                        rw [hpl'] at this
                        cases this
                      have hsn' : sn1 ∈ t'.nodes := by
                        rw [e3]; exact splitResult_node_mem hsn (hid ▸ hso)
                      have hV : ∀ v ∈ sc.t.graphV, v ∈ t'.graphV := by
                        intro v hv; rw [hs.graphV]; exact List.mem_append_left _ hv
                      have hD : ∀ v ∈ sc.t.graphV, deg t'.graphE v = deg sc.t.graphE v := by
                        intro v hv
                        rw [split_deg ht hoem hjo hs v]
                        have : ¬ sc.t.next = v := fun hh => hN (hh ▸ hv)
                        simp [this]
                      have ctx' : MoveCtx t' self curr cnId sn1 ce cnPt := by
                        refine ⟨ht'', ?_, hsn', hid, ?_, ctx.ce_id, ctx.ce_in, ctx.ce_fixed, ctx.ce_joins, ?_⟩
                        · rw [e3, ← hcpt]
                          exact MoveSafe_split ht ctx.safe hsn hid ctx.ce_mem (ctx.ce_id ▸ ctx.ce_in)
                            ctx.ce_fixed ctx.ce_joins hcm hcid hoem (hoeid ▸ hin) hne hof hjo honm honid hpl'
                        · rw [e3]; exact splitResult_edge_mem ctx.ce_mem (Ne.symm hne)
                        · rw [e3]
                          obtain ⟨c', hc', k⟩ := splitResult_kept (ed := oe) (source := self)
                            (target := onId) (p := cnPt) hcm
                          exact ⟨c', hc', k.id.trans hcid, k.point.trans hcpt, k.junction.trans hcj⟩
                      have hfar : FarDeg t' self e2 := by
                        refine ⟨{ oe with e1 := some self, e2 := some sc.t.next }, ?_, hoeid, sc.t.next, ?_,
                          ?_, ?_⟩
                        · rw [e3]
                          refine List.mem_append_left _ (List.mem_map.mpr ⟨oe, hoem, ?_⟩)
                          simp
                        · simp [HEdge.followFrom]
                        · rw [hs.graphV]; simp
                        · rw [split_deg ht hoem hjo hs]; simp
                      have hspec := scanOthers_spec hid rest
                        { sc with t := t', common := sc.common ++ [e2] } sc' hnd'.2 ht'' hsn' h
                      exact ScanT.step_common (sc1 := { sc with t := t', common := sc.common ++ [e2] })
                        hV hD rfl hfar (by rw [hD cnId hcnV]; exact hdcn) (hV _ hcnV) hspec hnd'.1
                        (ih _ _ hnd'.2 ctx' (split_leaves ht hoem hjo hs hT) h)
                  · exact hother h
      · cases h

/-! ## counting the scan lists -/

theorem scanOthers_count {self curr : Nat} {selfPt currPt : AdaptaVerif.Model.Geometry.Pt} :
    ∀ (l : List Nat) (sc sc' : Scan), scanOthers self selfPt currPt curr l sc = some sc' →
      ∃ A B, sc'.common = sc.common ++ A ∧ sc'.other = sc.other ++ B ∧
        A.length + B.length = (l.filter (fun i => i != curr)).length := by
  intro l
  induction l with
  | nil =>
    intro sc sc' h
    simp only [scanOthers, Option.some.injEq] at h
    subst h
    exact ⟨[], [], by simp, by simp, rfl⟩
  | cons e2 rest ih =>
    intro sc sc' h
    rw [scanOthers] at h
    split at h
    · next hc =>
      obtain ⟨A, B, hA, hB, hl⟩ := ih sc sc' h
      refine ⟨A, B, hA, hB, ?_⟩
      simp [hc, hl]
    · next hc =>
      have hfl : ((e2 :: rest).filter (fun i => i != curr)).length =
          (rest.filter (fun i => i != curr)).length + 1 := by
        have : (e2 != curr) = true := by simpa using hc
        simp [this]
      have hother : ∀ {sc'}, scanOthers self selfPt currPt curr rest { sc with other := sc.other ++ [e2] } = some sc' →
          ∃ A B, sc'.common = sc.common ++ A ∧ sc'.other = sc.other ++ B ∧
            A.length + B.length = ((e2 :: rest).filter (fun i => i != curr)).length := by
        intro sc' h
        obtain ⟨A, B, hA, hB, hl⟩ := ih _ sc' h
        refine ⟨A, e2 :: B, hA, by rw [hB]; simp, ?_⟩
        rw [hfl, ← hl]; simp; omega
      have hcommon : ∀ {sc' : Scan} {t1 : HTree},
          scanOthers self selfPt currPt curr rest { sc with t := t1, common := sc.common ++ [e2] } = some sc' →
          ∃ A B, sc'.common = sc.common ++ A ∧ sc'.other = sc.other ++ B ∧
            A.length + B.length = ((e2 :: rest).filter (fun i => i != curr)).length := by
        intro sc' t1 h
        obtain ⟨A, B, hA, hB, hl⟩ := ih _ sc' h
        refine ⟨e2 :: A, B, by rw [hA]; simp, hB, ?_⟩
        rw [hfl, ← hl]; simp; omega
      split at h
      · split at h
        · cases h
        · split at h
          · exact hother h
          · split at h
            · cases h
            · split at h
              · cases h
              · split at h
                · split at h
                  · exact hother h
                  · exact hcommon (t1 := sc.t) h
                · split at h
                  · split at h
                    · cases h
                    · exact hcommon h
                  · exact hother h
      · cases h

theorem length_eq_of_count {l A B : List Nat} {curr : Nat} (hnd : l.Nodup) (hc : curr ∈ l)
    (h : A.length + B.length = (l.filter (fun i => i != curr)).length) :
    l.length = 1 + A.length + B.length := by
  have := length_filter_ne_of_nodup hnd hc
  omega

/-! ## (i) degrees after `mergeCommon` -/

/-- degree bookkeeping of `mergeCommon slf tg es` -/
structure MergeDeg (slf tg : Nat) (es : List Nat) (t t' : HTree) : Prop where
  subV : ∀ v ∈ t'.graphV, v ∈ t.graphV
  /-- the nodes merged away were not leaves -/
  removed : ∀ v ∈ t.graphV, v ∉ t'.graphV → 2 ≤ deg t.graphE v
  degSelf : deg t'.graphE slf + es.length = deg t.graphE slf
  degTg : deg t.graphE tg + es.length ≤ deg t'.graphE tg
  degOther : ∀ v ∈ t'.graphV, v ≠ slf → v ≠ tg → deg t'.graphE v = deg t.graphE v
  selfV : slf ∈ t'.graphV
  tgV : tg ∈ t'.graphV

theorem mergeCommon_deg {self tg : Nat} :
    ∀ (es : List Nat) (t : HTree) (sn : HNode) (e0 : HEdge) (t' : HTree), Tree t → sn ∈ t.nodes →
      sn.id = self → e0 ∈ t.edges → Joins e0 self tg → (∀ i ∈ es, i ∈ sn.edges) → es.Nodup → e0.id ∉ es →
      (∀ i ∈ es, FarDeg t self i) → mergeCommon self tg es t = some t' → MergeDeg self tg es t t' := by
  intro es
  induction es with
  | nil =>
    intro t sn e0 t' ht hsn hid he0 hj0 _ _ _ _ h
    simp only [mergeCommon, Option.some.injEq] at h
    subst h
    exact ⟨fun _ hv => hv, fun _ hv hnv => absurd hv hnv, rfl, Nat.le_refl _, fun _ _ _ _ => rfl,
      hid ▸ List.mem_map.mpr ⟨sn, hsn, rfl⟩, (joins_mem_graphV ht.1 he0 hj0).2⟩
  | cons i rest ih =>
    intro t sn e0 t' ht hsn hid he0 hj0 hin hnd hnot hfar h
    have hi : i ∈ sn.edges := hin i List.mem_cons_self
    obtain ⟨e, he, hei, hor⟩ := (ht.1.inc sn hsn i).mp hi
    subst hei
    obtain ⟨a, b, ha, hb, _, _⟩ := ht.1.ends e he
    obtain ⟨src, hfol⟩ : ∃ src, e.followFrom sn.id = some src := by
      unfold HEdge.followFrom
      split
      · exact ⟨b, hb⟩
      · exact ⟨a, ha⟩
    have hj : Joins e self src := hid ▸ joins_of_followFrom ht.1 hsn he hi hfol
    have hne : e0.id ≠ e.id := fun hh => hnot (hh ▸ List.mem_cons_self)
    obtain ⟨t1, hm, ht1, hs⟩ := mergeCommon_cons_tree ht he hj he0 hne hj0 rest
    rw [hm] at h
    have hss : self ≠ src := ht.ne_of_joins he hj
    have hst : self ≠ tg := ht.ne_of_joins he0 hj0
    have hts : tg ≠ src := by
      intro hh
      subst hh
      exact ht.no_parallel he he0 hne hj hj0
    have hdeg1 := identify_deg hs hts hss
    -- the far end of `e` is not a leaf
    have hsrc2 : 2 ≤ deg t.graphE src := by
      obtain ⟨x, hx, hxi, o, hfo, _, hd⟩ := hfar e.id List.mem_cons_self
      have hxe : x = e := ht.1.edge_eq hx he hxi
      subst hxe
      rw [hid] at hfol; rw [hfol] at hfo
      rw [Option.some.inj hfo]; exact hd
    -- self's record in `t1`
    obtain ⟨sn1, hsn1, hsn1id⟩ := hs.nodes' sn hsn (hid ▸ hss)
    obtain ⟨n, hn, _, hk, so, _, _, hedges⟩ := hs.nodes sn1 hsn1
    have hnsn : n = sn := ht.1.node_eq hn hsn (hk.id.symm.trans hsn1id)
    subst hnsn
    rw [if_neg (hid ▸ hst), if_pos hid] at hedges
    -- `e0`'s record in `t1`
    obtain ⟨e1, he1, he1id⟩ := hs.edges' e0 he0 hne
    obtain ⟨x, hx, _, hxk, hx1, hx2⟩ := hs.edges e1 he1
    have hxe0 : x = e0 := ht.1.edge_eq hx he0 (hxk.id.symm.trans he1id)
    subst hxe0
    have hj1 : Joins e1 self tg := by
      have r1 : ren src tg self = self := ren_of_ne hss
      have r2 : ren src tg tg = tg := ren_of_ne hts
      rcases hj0 with ⟨j1, j2⟩ | ⟨j1, j2⟩
      · exact Or.inl ⟨by rw [hx1, j1]; simp [r1], by rw [hx2, j2]; simp [r2]⟩
      · exact Or.inr ⟨by rw [hx1, j1]; simp [r2], by rw [hx2, j2]; simp [r1]⟩
    have hnd' := List.nodup_cons.mp hnd
    -- the remaining far ends are still non-leaves
    have hfar1 : ∀ i' ∈ rest, FarDeg t1 self i' := by
      intro i' hi'
      obtain ⟨x', hx', hxi', o', hfo', hoV', hd'⟩ := hfar i' (List.mem_cons_of_mem _ hi')
      have hne' : x'.id ≠ e.id := by rw [hxi']; exact fun hh => hnd'.1 (hh ▸ hi')
      have hne0 : x'.id ≠ x.id := by
        rw [hxi']; exact fun hh => hnot (hh ▸ List.mem_cons_of_mem _ hi')
      have hj' : Joins x' self o' := by
        rw [← hid]
        exact joins_of_followFrom ht.1 hsn hx' (hxi' ▸ hin i' (List.mem_cons_of_mem _ hi')) (hid ▸ hfo')
      have hos' : o' ≠ src := by
        intro hh; subst hh; exact ht.no_parallel he hx' hne' hj hj'
      have hot' : o' ≠ tg := by
        intro hh; subst hh; exact ht.no_parallel he0 hx' hne0 hj0 hj'
      have hoself : self ≠ o' := ht.ne_of_joins hx' hj'
      obtain ⟨x1, hx1m, hx1id⟩ := hs.edges' x' hx' hne'
      obtain ⟨x0, hx0, _, k0, q1, q2⟩ := hs.edges x1 hx1m
      have hx0' : x0 = x' := ht.1.edge_eq hx0 hx' (k0.id.symm.trans hx1id)
      subst hx0'
      have hf1 := followFrom_ren hss hst q1 q2 hfo'
      rw [ren_of_ne hos'] at hf1
      refine ⟨x1, hx1m, hx1id.trans hxi', o', hf1, ?_, ?_⟩
      · rw [hs.graphV, mem_filter_ne]; exact ⟨hoV', hos'⟩
      · rw [hdeg1 o']
        simp only [hos', hot', hoself, if_false]
        exact hd'
    have hm' := ih t1 sn1 e1 t' ht1 hsn1 (hsn1id.trans hid) he1 hj1
      (by
        intro j hj'
        rw [hedges]
        simp only [List.mem_filter, bne_iff_ne, ne_eq]
        exact ⟨hin j (List.mem_cons_of_mem _ hj'), fun hh => hnd'.1 (hh ▸ hj')⟩)
      hnd'.2 (by rw [he1id]; exact fun hh => hnot (List.mem_cons_of_mem _ hh)) hfar1 h
    have hV1 : ∀ v, v ∈ t1.graphV ↔ v ∈ t.graphV ∧ v ≠ src := by
      intro v; rw [hs.graphV, mem_filter_ne]
    have hdself : 1 ≤ deg t.graphE self := by
      rw [← hid, ← ht.length_edges_eq_deg hsn]
      exact List.length_pos_of_mem hi
    refine ⟨fun v hv => ((hV1 v).mp (hm'.subV v hv)).1, ?_, ?_, ?_, ?_, hm'.selfV, hm'.tgV⟩
    · intro v hv hnv
      by_cases hvs : v = src
      · rw [hvs]; exact hsrc2
      · have hv1 : v ∈ t1.graphV := (hV1 v).mpr ⟨hv, hvs⟩
        have h2 := hm'.removed v hv1 hnv
        have hvt : v ≠ tg := fun hh => hnv (hh ▸ hm'.tgV)
        have hvself : self ≠ v := fun hh => hnv (hh ▸ hm'.selfV)
        rw [hdeg1 v] at h2
        simpa only [hvs, hvt, hvself, if_false, Nat.sub_zero] using h2
    · have := hm'.degSelf
      rw [hdeg1 self] at this
      simp only [hss, hst, if_false, if_true] at this
      simp only [List.length_cons]
      omega
    · have := hm'.degTg
      rw [hdeg1 tg] at this
      simp only [hts, hst, if_false, if_true, Nat.sub_zero] at this
      simp only [List.length_cons]
      omega
    · intro v hv hvself hvt
      rw [hm'.degOther v hv hvself hvt, hdeg1 v]
      have hvs : v ≠ src := ((hV1 v).mp (hm'.subV v hv)).2
      simp only [hvs, hvt, Ne.symm hvself, if_false, Nat.sub_zero]

/-! ## leaves after the merges -/

theorem leaves_congr {t t' : HTree} {T : List Nat} (hV : t'.graphV = t.graphV) (hE : t'.graphE = t.graphE)
    (h : LeavesAre t.graphV t.graphE T) : LeavesAre t'.graphV t'.graphE T := by
  rw [hV, hE]; exact h

theorem not_mem_leaves_of_deg {V : List Nat} {E : List Edge} {T : List Nat} (hT : LeavesAre V E T)
    {v : Nat} (hd : deg E v ≠ 1) : v ∉ T := fun hv => hd ((hT.2 v (hT.1 v hv)).mpr hv)

/-- after the merges, if `self` keeps at least two edges, the leaves are the same -/
theorem leaves_after_merge {self cnId : Nat} {A : List Nat} {t t1 : HTree} {T : List Nat}
    (hT : LeavesAre t.graphV t.graphE T) (md : MergeDeg self cnId A t t1)
    (hcn2 : 2 ≤ deg t.graphE cnId) (hs2 : 2 ≤ deg t1.graphE self) :
    LeavesAre t1.graphV t1.graphE T := by
  have hselfT : self ∉ T := not_mem_leaves_of_deg hT (by have := md.degSelf; omega)
  have hcnT : cnId ∉ T := not_mem_leaves_of_deg hT (by omega)
  refine ⟨?_, ?_⟩
  · intro x hx
    have hxV := hT.1 x hx
    have hd : deg t.graphE x = 1 := (hT.2 x hxV).mpr hx
    apply Classical.byContradiction
    intro hnx
    have := md.removed x hxV hnx
    omega
  · intro v hv
    by_cases hvs : v = self
    · subst hvs
      exact ⟨fun hh => by omega, fun hh => absurd hh hselfT⟩
    · by_cases hvc : v = cnId
      · subst hvc
        have := md.degTg
        exact ⟨fun hh => by omega, fun hh => absurd hh hcnT⟩
      · rw [md.degOther v hv hvs hvc]
        exact hT.2 v (md.subV v hv)

/-- after the merges, if `self` is left with one edge and is then removed with it, the leaves are the same -/
theorem leaves_after_merge_leaf {self cnId : Nat} {A : List Nat} {t t1 t2 tf : HTree} {T : List Nat}
    (hT : LeavesAre t.graphV t.graphE T) (md : MergeDeg self cnId A t t1)
    (hcn2 : 2 ≤ deg t.graphE cnId) (hA : 1 ≤ A.length) (hs1 : deg t1.graphE self = 1)
    (hV2 : t2.graphV = t1.graphV) (hE2 : t2.graphE = t1.graphE) {e0' : HEdge}
    (hsp : IdentifySpec t2 e0' cnId cnId self tf) (hne : cnId ≠ self) :
    LeavesAre tf.graphV tf.graphE T := by
  have hselfT : self ∉ T := not_mem_leaves_of_deg hT (by have := md.degSelf; omega)
  have hcnT : cnId ∉ T := not_mem_leaves_of_deg hT (by omega)
  have hdeg := identify_deg hsp hne hne
  refine ⟨?_, ?_⟩
  · intro x hx
    have hxV := hT.1 x hx
    have hd : deg t.graphE x = 1 := (hT.2 x hxV).mpr hx
    rw [hsp.graphV, mem_filter_ne, hV2]
    refine ⟨?_, fun hh => hselfT (hh ▸ hx)⟩
    apply Classical.byContradiction
    intro hnx
    have := md.removed x hxV hnx
    omega
  · intro v hv
    rw [hsp.graphV, mem_filter_ne, hV2] at hv
    rw [hdeg v, hE2]
    simp only [hv.2, if_false]
    by_cases hvc : v = cnId
    · subst hvc
      simp only [if_true]
      have := md.degTg
      exact ⟨fun hh => by omega, fun hh => absurd hh hcnT⟩
    · have : ¬ cnId = v := fun hh => hvc hh.symm
      simp only [hvc, this, if_false, Nat.sub_zero]
      rw [md.degOther v hv.1 hv.2 hvc]
      exact hT.2 v (md.subV v hv.1)

/-! ## T1: the outer loop keeps the terminal set -/

theorem graphV_modNode_junction (t : HTree) (i : Nat) (v : Option Nat) :
    (t.modNode i (fun x => { x with junction := v })).graphV = t.graphV :=
  modNode_graphV t i (fun x => { x with junction := v }) (fun _ => rfl)

theorem graphE_modEdge_conn (t : HTree) (i : Nat) (c : Option Nat) :
    (t.modEdge i (fun x => { x with conn := c })).graphE = t.graphE :=
  modEdge_graphE t i (fun x => { x with conn := c }) (fun _ => rfl) (fun _ => rfl)

theorem moveLoop_terminals (self sj : Nat) (T : List Nat) :
    ∀ (l : List Nat) (s : Imp) (r : MoveResult), Tree s.t → MoveSafe s.t self →
      LeavesAre s.t.graphV s.t.graphE T → moveLoop s self sj l = some r →
      LeavesAre r.s.t.graphV r.s.t.graphE T := by
  intro l
  induction l with
  | nil =>
    intro s r _ _ hT h
    simp only [moveLoop, Option.some.injEq] at h
    subst h
    exact hT
  | cons curr rest ih =>
    intro s r ht hsafe hT h
    rw [moveLoop] at h
    split at h
    · next sn ce hsn hce =>
      split at h
      · cases h
      · next hguard =>
        split at h
        · cases h
        · next cnId hfol =>
          split at h
          · cases h
          · next cn hcn =>
            split at h
            · exact ih s r ht hsafe hT h
            · next hcnj =>
              split at h
              · exact ih s r ht hsafe hT h
              · next hcefx =>
                split at h
                · cases h
                · next sc hscan =>
                  obtain ⟨hsnm, hsnid⟩ := node?_mem hsn
                  obtain ⟨hcem, hceid⟩ := edge?_mem hce
                  obtain ⟨hcnm, hcnid⟩ := node?_mem hcn
                  have hin : curr ∈ sn.edges := by simpa using hguard
                  have hjc : Joins ce self cnId := by
                    rw [← hsnid]
                    exact joins_of_followFrom ht.1 hsnm hcem (hceid ▸ hin) (hsnid ▸ hfol)
                  have hne : self ≠ cnId := ht.ne_of_joins hcem hjc
                  have hcnjn : cn.junction = none := by
                    cases hh : cn.junction with
                    | none => rfl
                    | some _ => rw [hh] at hcnj; simp at hcnj
                  have hcef : ce.hasFixedRoute = false := by simpa using hcefx
                  have hnd : sn.edges.Nodup := ht.1.nodupL sn hsnm
                  have ctx0 : MoveCtx s.t self curr cnId sn ce cn.point :=
                    ⟨ht, hsafe, hsnm, hsnid, hcem, hceid, hin, hcef, hjc, cn, hcnm, hcnid, rfl, hcnjn⟩
                  have hscanT := scanOthers_T sn.edges { t := s.t, common := [curr], other := [] } sc hnd
                    ctx0 hT hscan
                  have hspec := scanOthers_spec hsnid sn.edges _ sc hnd ht hsnm hscan
                  obtain ⟨A, B, hA, hB, sA, sB, cA, cB, cov, _⟩ := hspec.parts
                  have hdrop : sc.common.drop 1 = A := by rw [hA]; rfl
                  have hlen : sn.edges.length = 1 + A.length + B.length := by
                    obtain ⟨A', B', hA', hB', hl⟩ := scanOthers_count _ _ _ hscan
                    have e1 : A' = A := List.append_cancel_left (hA'.symm.trans hA)
                    have e2 : B' = B := List.append_cancel_left (hB'.symm.trans hB)
                    subst e1; subst e2
                    exact length_eq_of_count hnd hin hl
                  have hdself : deg sc.t.graphE self = 1 + A.length + B.length := by
                    rw [← hlen, ← hsnid]
                    exact (hspec.tree.length_edges_eq_deg hspec.self_mem).symm
                  have hce' : ce ∈ sc.t.edges := hspec.le.keepE ce hcem (Or.inl hceid)
                  obtain ⟨t1, hm, hms⟩ := mergeCommon_tree A sc.t sn ce hspec.tree hspec.self_mem hsnid
                    hce' hjc (fun i hi => sA.subset hi) (hnd.sublist sA) (hceid ▸ cA)
                  have hfar := hscanT.far A hA
                  have md := mergeCommon_deg A sc.t sn ce t1 hspec.tree hspec.self_mem hsnid
                    hce' hjc (fun i hi => sA.subset hi) (hnd.sublist sA) (hceid ▸ cA) hfar.1 hm
                  have hd1self : deg t1.graphE self = 1 + B.length := by
                    have := md.degSelf; omega
                  rw [hdrop, hm] at h
                  dsimp only at h
                  have hT2 : Tree ((t1.modNode cnId (fun x => { x with junction := some sj })).modNode self
                      (fun x => { x with junction := none })) :=
                    modNode_Tree _ _ _ (fun _ => rfl) (fun _ => rfl)
                      (modNode_Tree _ _ _ (fun _ => rfl) (fun _ => rfl) hms.tree)
                  have hV2 : ((t1.modNode cnId (fun x => { x with junction := some sj })).modNode self
                      (fun x => { x with junction := none })).graphV = t1.graphV := by
                    exact (graphV_modNode_junction _ _ _).trans (graphV_modNode_junction _ _ _)
                  have hAlen : sc.common.length = 1 + A.length := by rw [hA]; simp; omega
                  have hBlen : sc.other.length = B.length := by rw [hB]; simp
                  split at h
                  · next hcond =>
                    have hA1 : 1 ≤ A.length := by
                      simp only [Bool.and_eq_true, decide_eq_true_eq] at hcond
                      omega
                    have hcn2 : 2 ≤ deg sc.t.graphE cnId :=
                      hfar.2 (fun hh => by rw [hh] at hA1; simp at hA1)
                    split at h
                    · next hoth =>
                      split at h
                      · cases h
                      · next t3 hdis =>
                        simp only [Option.some.injEq] at h
                        subst h
                        show LeavesAre ((t3.deleteEdge curr).deleteNode self).graphV
                          ((t3.deleteEdge curr).deleteNode self).graphE T
                        obtain ⟨sn', hsn', hk', hed'⟩ := hms.self_node
                        obtain ⟨e0', he0', hke, hj'⟩ := hms.edge0
                        have hB0 : B = [] := by rw [hoth] at hB; simpa using hB.symm
                        have hcov : ∀ i ∈ sn.edges, i ≠ curr → i ∈ A := by
                          intro i hi hic
                          rcases cov i hi hic with hh | hh
                          · exact hh
                          · rw [hB0] at hh; cases hh
                        rw [filter_not_mem_eq_singleton hnd hin cA hcov] at hed'
                        obtain ⟨n1, hn1, hn1id, hn1ed⟩ := modNode_node cnId
                          (fun x => { x with junction := some sj }) (fun _ => rfl) (fun _ => rfl) hsn'
                        obtain ⟨n2, hn2, hn2id, hn2ed⟩ := modNode_node self
                          (fun x => { x with junction := none }) (fun _ => rfl) (fun _ => rfl) hn1
                        have hid2 : n2.id = self := by rw [hn2id, hn1id, hk'.id, hsnid]
                        have hcurr : e0'.id = curr := hke.id.trans hceid
                        have hj2 : Joins e0' cnId n2.id := by
                          rw [hid2]
                          rcases hj' with hh | hh
                          · exact Or.inr hh
                          · exact Or.inl hh
                        obtain ⟨t', hr, _, hsp, _⟩ := removeLeaf_tree hT2 (e := e0') he0' hn2 hj2
                          (by rw [hn2ed, hn1ed, hed', hcurr])
                        rw [hcurr, hid2] at hr
                        unfold removeLeaf at hr
                        rw [hdis] at hr
                        simp only [Option.map_some, Option.some.injEq] at hr
                        rw [hr]
                        rw [hid2] at hsp
                        exact leaves_after_merge_leaf hscanT.leaves md hcn2 hA1
                          (by rw [hd1self, hB0]; rfl) hV2 rfl hsp (Ne.symm hne)
                    · next o tl hoth =>
                      have hB1 : 1 ≤ B.length := by rw [← hBlen, hoth]; simp
                      split at h
                      · cases h
                      · simp only [Option.some.injEq] at h
                        subst h
                        exact leaves_congr hV2 (graphE_modEdge_conn _ _ _)
                          (leaves_after_merge hscanT.leaves md hcn2 (by rw [hd1self]; omega))
                  · split at h
                    · next hcond =>
                      have hAB : 1 ≤ A.length ∧ 1 ≤ B.length := by
                        simp only [Bool.and_eq_true, decide_eq_true_eq] at hcond
                        omega
                      have hcn2 : 2 ≤ deg sc.t.graphE cnId :=
                        hfar.2 (fun hh => by rw [hh] at hAB; simp at hAB)
                      simp only [Option.some.injEq] at h
                      subst h
                      exact leaves_congr (graphV_modNode_junction _ _ _) (graphE_modEdge_conn _ _ _)
                        (leaves_after_merge hscanT.leaves md hcn2 (by rw [hd1self]; omega))
                    · exact ih { s with t := sc.t } r hspec.tree hscanT.ctx.safe hscanT.leaves h
    · cases h

/-- T1: `moveJunctionAlongCommonEdge` keeps the terminal set -/
theorem moveJunctionAlongCommonEdge_terminals {s : Imp} {self : Nat} {r : MoveResult} {T : List Nat}
    (ht : Tree s.t) (hsafe : MoveSafe s.t self) (hT : LeavesAre s.t.graphV s.t.graphE T)
    (h : moveJunctionAlongCommonEdge s self = some r) : LeavesAre r.s.t.graphV r.s.t.graphE T := by
  unfold moveJunctionAlongCommonEdge at h
  split at h
  · cases h
  · split at h
    · cases h
    · exact moveLoop_terminals _ _ T _ s r ht hsafe hT h

/-- T2: one step of the caller's loop keeps the terminal set -/
theorem moveJunctionStep_terminals {s : Imp} {j : Nat} {r : MoveResult} {T : List Nat} (ht : Tree s.t)
    (hsafe : ∀ self, s.junctions.find? (fun p => p.1 == j) = some (j, self) → MoveSafe s.t self)
    (hT : LeavesAre s.t.graphV s.t.graphE T) (h : moveJunctionStep s j = some r) :
    LeavesAre r.s.t.graphV r.s.t.graphE T := by
  unfold moveJunctionStep at h
  split at h
  · cases h
  · next j' n hfind =>
    have hj' : j' = j := by simpa using (mem_of_find? hfind).2
    subst hj'
    split at h
    · cases h
    · next r0 hr0 =>
      have := moveJunctionAlongCommonEdge_terminals ht (hsafe n hfind) hT hr0
      split at h
      · simp only [Option.some.injEq] at h; subst h; exact this
      · simp only [Option.some.injEq] at h; subst h; exact this

end AdaptaVerif.Lemmas.HyperTreeMoveTerminals
