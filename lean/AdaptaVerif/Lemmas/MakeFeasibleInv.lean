/-
The invariant of the model of `ConstrainedFDLayout::makeFeasible` (`Model/MakeFeasible.lean`):
every constraint of `valid[dim]` holds (slack ≥ ZERO_UPPERBOUND) at SOME position vector that agrees
with `finalPosition` on the node variables — preserved by every trial, and re-established by every
combined solve that leaves no `unsatisfiable` flag behind.
-/
import AdaptaVerif.Model.MakeFeasible
import AdaptaVerif.Lemmas.MakeFeasibleFrame
import AdaptaVerif.Lemmas.VpscFinal
namespace AdaptaVerif.Lemmas.MakeFeasibleInv
open AdaptaVerif.Model.MakeFeasible AdaptaVerif.Model.Vpsc
open AdaptaVerif.Model.Compound (Dim)
open AdaptaVerif.Lemmas.VpscModel AdaptaVerif.Lemmas.VpscHistory AdaptaVerif.Lemmas.VpscInv
open AdaptaVerif.Lemmas.VpscMerge AdaptaVerif.Lemmas.VpscStaticFrame
open AdaptaVerif.Lemmas.MakeFeasibleFrame
open AdaptaVerif.Lemmas.VpscFinal (Hist hist_J final_eq positions_get)
open AdaptaVerif.Lemmas.VpscSolve (satisfy_final)

/-! ### consistency of a solver state with a constraint vector -/

/-- solver state `st` carries exactly the constraints `V` (data) over the variables `vars` (scales) -/
structure Consist (vars : Array (Rat × Rat × Rat)) (V : Array Con) (st : St) : Prop where
  size : st.cons.size = V.size
  data : ∀ i : Nat, i < V.size → SameData (st.cons[i]!) (V[i]!)
  vsize : st.vars.size = vars.size
  scale : ∀ i : Nat, i < vars.size → (st.vars[i]!).scale = (vars[i]!).2.2

/-- no constraint of the state is flagged unsatisfiable -/
def Clean (st : St) : Prop := ∀ i : Nat, i < st.cons.size → (st.cons[i]!).unsat = false

theorem sameData_trans {a b c : Con} (h1 : SameData a b) (h2 : SameData b c) : SameData a c :=
  ⟨h1.1.trans h2.1, h1.2.1.trans h2.2.1, h1.2.2.1.trans h2.2.2.1, h1.2.2.2.trans h2.2.2.2⟩

theorem consist_init (vars : Array (Rat × Rat × Rat)) (V : Array Con) :
    Consist vars V (St.init vars V) :=
  ⟨(init_cons vars V).1, (init_cons vars V).2, (init_vars_scale vars V).1, (init_vars_scale vars V).2⟩

theorem init_unsat (vars : Array (Rat × Rat × Rat)) (V : Array Con) (ci : Nat) (hci : ci < V.size) :
    ((St.init vars V).cons[ci]!).unsat = (V[ci]!).unsat := by
  have h : (St.init vars V).cons.toList = V.toList.map (fun c => { c with active := false }) := by
    unfold St.init
    simp only
    rw [← Array.foldl_toList, foldl_addConstraint_cons]
    simp
  have hsz : (St.init vars V).cons.size = V.size := (init_cons vars V).1
  have e1 : (St.init vars V).cons[ci]! = (St.init vars V).cons.toList[ci]! := by
    rw [getElem!_pos _ ci (by rw [hsz]; exact hci), getElem!_pos _ ci (by simpa [hsz] using hci)]
    simp
  rw [e1, h]
  rw [getElem!_pos _ ci (by simpa using hci), getElem!_pos V ci hci]
  simp only [List.getElem_map, Array.getElem_toList]

theorem consist_addConstraint {vars : Array (Rat × Rat × Rat)} {V : Array Con} {st : St}
    (h : Consist vars V st) (c : Con) : Consist vars (V.push c) (st.addConstraint c) := by
  obtain ⟨a1, a2, a3, a4⟩ := cd_addConstraint st c
  obtain ⟨b1, b2⟩ := vs_addConstraint st c
  refine ⟨by rw [a1, h.size]; simp, fun i hi => ?_, b1.trans h.vsize, fun i hi => (b2 i).trans (h.scale i hi)⟩
  have hi' : i < V.size + 1 := by simpa using hi
  by_cases hlt : i < V.size
  · rw [a2 i (by rw [h.size]; exact hlt), get!_push_lt _ _ _ hlt]
    exact h.data i hlt
  · have e : i = V.size := by omega
    subst e
    rw [get!_push_eq]
    rw [← h.size]
    exact a3

theorem clean_addConstraint {st : St} (h : Clean st) (c : Con) (hc : c.unsat = false) :
    Clean (st.addConstraint c) := by
  obtain ⟨a1, a2, a3, a4⟩ := cd_addConstraint st c
  intro i hi
  rw [a1] at hi
  by_cases hlt : i < st.cons.size
  · rw [a2 i hlt]; exact h i hlt
  · have e : i = st.cons.size := by omega
    subst e
    rw [a4]; exact hc

theorem consist_satisfy {vars : Array (Rat × Rat × Rat)} {V : Array Con} {st : St}
    (h : Consist vars V st) : Consist vars V st.satisfy.1 := by
  obtain ⟨a1, a2⟩ := cd_satisfy_inc st
  obtain ⟨b1, b2⟩ := vs_satisfy_inc st
  exact ⟨a1.trans h.size, fun i hi => sameData_trans (a2 i) (h.data i hi), b1.trans h.vsize,
    fun i hi => (b2 i).trans (h.scale i hi)⟩

theorem positions_size (st : St) : st.positions.size = st.vars.size := by
  unfold St.positions
  simp

/-- the exit scan of a returning, flag-free `satisfy`, read on the caller's constraint vector -/
theorem solve_holds {vars : Array (Rat × Rat × Rat)} {V : Array Con} {st0 st' : St} {pos : Array Rat}
    {ret : Bool} (hs : st0.satisfy = (st', .ok pos ret)) (hc : Consist vars V st') (hcl : Clean st') :
    pos.size = vars.size ∧
    ∀ c ∈ V, c.l < vars.size → c.r < vars.size → ZERO_UPPERBOUND ≤ slackOf vars pos c := by
  obtain ⟨hp, hscan⟩ := satisfy_ok st0 st' pos ret hs
  rw [scanOk_iff] at hscan
  refine ⟨by rw [hp, positions_size, hc.vsize], fun c hcV hl hr => ?_⟩
  obtain ⟨i, hi, rfl⟩ := Array.mem_iff_getElem.1 hcV
  have hi' : i < st'.cons.size := by rw [hc.size]; exact hi
  have hmem : st'.cons[i]! ∈ st'.cons := by
    rw [getElem!_pos _ i hi']; exact Array.getElem_mem hi'
  have h1 := hscan _ hmem (hcl i hi')
  obtain ⟨d1, d2, d3, _⟩ := hc.data i hi
  rw [getElem!_pos V i hi] at d1 d2 d3
  unfold slackAt at h1
  unfold slackOf
  rw [d1, d2, d3, hc.scale _ hl, hc.scale _ hr] at h1
  exact h1

/-- in a returning, flag-free `satisfy` after a public-API history, every equality of the caller's vector
    holds EXACTLY at the reported positions (scales of the variables in range non-zero) -/
theorem solve_eq_exact {vars : Array (Rat × Rat × Rat)} {V : Array Con} {st0 st' : St} {pos : Array Rat}
    {ret : Bool} (hs : st0.satisfy = (st', .ok pos ret)) (hh : Hist st0) (hc : Consist vars V st')
    (hcl : Clean st') (hscale : ∀ i : Nat, i < vars.size → (vars[i]!).2.2 ≠ 0) :
    ∀ c ∈ V, c.l < vars.size → c.r < vars.size → c.eq = true → slackOf vars pos c = 0 := by
  intro c hcV hl hr heq
  have hF := satisfy_final st0 st' pos ret (hist_J hh) hs
  have hp := (satisfy_ok st0 st' pos ret hs).1
  obtain ⟨i, hi, rfl⟩ := Array.mem_iff_getElem.1 hcV
  have hi' : i < st'.cons.size := by rw [hc.size]; exact hi
  obtain ⟨d1, d2, d3, d4⟩ := hc.data i hi
  rw [getElem!_pos V i hi] at d1 d2 d3 d4
  obtain ⟨_, ht⟩ := final_eq hF i hi' (by rw [d4]; exact heq) (hcl i hi')
  rw [d1, d2, d3] at ht
  have hl' : V[i].l < st'.vars.size := by rw [hc.vsize]; exact hl
  have hr' : V[i].r < st'.vars.size := by rw [hc.vsize]; exact hr
  have sl : (st'.vars[V[i].l]!).scale ≠ 0 := by rw [hc.scale _ hl]; exact hscale _ hl
  have sr : (st'.vars[V[i].r]!).scale ≠ 0 := by rw [hc.scale _ hr]; exact hscale _ hr
  unfold slackOf
  rw [hp, positions_get st' _ hl', positions_get st' _ hr', ← hc.scale _ hl, ← hc.scale _ hr,
    scale_mul_pos st' _ sl, scale_mul_pos st' _ sr]
  linarith

/-! ### the invariant of one dimension -/

/-- the live solver of a dimension is consistent with `valid` -/
structure SolverOk (ds : DimSt) (st : St) : Prop where
  size : st.cons.size = ds.valid.size
  data : ∀ i : Nat, i < ds.valid.size → SameData (st.cons[i]!) (ds.valid[i]!)
  clean : ∀ i : Nat, i < st.cons.size → (st.cons[i]!).unsat = false
  vsize : st.vars.size = ds.vars.size
  scale : ∀ i : Nat, i < ds.vars.size → (st.vars[i]!).scale = (ds.vars[i]!).2.2
  /-- the live solver was reached through the public API from well-formed input -/
  hist : Hist st

theorem SolverOk.consist {ds : DimSt} {st : St} (h : SolverOk ds st) : Consist ds.vars ds.valid st :=
  ⟨h.size, h.data, h.vsize, h.scale⟩

theorem SolverOk.of {ds : DimSt} {st : St} (h : Consist ds.vars ds.valid st) (hc : Clean st)
    (hh : Hist st) : SolverOk ds st := ⟨h.size, h.data, hc, h.vsize, h.scale, hh⟩

/-- `Good` without the witness: what the combined branch keeps while it pushes without solving -/
structure Pre (ds : DimSt) : Prop where
  fsize : ds.final.size = ds.vars.size
  wf : ∀ c ∈ ds.valid, c.l < ds.vars.size ∧ c.r < ds.vars.size ∧ c.unsat = false
  sol : ∀ st, ds.solver = some st → SolverOk ds st

structure Good (n : Nat) (ds : DimSt) : Prop where
  fsize : ds.final.size = ds.vars.size
  wf : ∀ c ∈ ds.valid, c.l < ds.vars.size ∧ c.r < ds.vars.size ∧ c.unsat = false
  wit : ∃ g : Array Rat, g.size = ds.vars.size ∧ (∀ i : Nat, i < n → g[i]! = ds.final[i]!) ∧
        ∀ c ∈ ds.valid, ZERO_UPPERBOUND ≤ slackOf ds.vars g c
  sol : ∀ st, ds.solver = some st → SolverOk ds st
  /-- if all scales are non-zero, ONE witness also makes every kept equality hold exactly -/
  weq : (∀ i : Nat, i < ds.vars.size → (ds.vars[i]!).2.2 ≠ 0) →
        ∃ g : Array Rat, g.size = ds.vars.size ∧ (∀ i : Nat, i < n → g[i]! = ds.final[i]!) ∧
        (∀ c ∈ ds.valid, ZERO_UPPERBOUND ≤ slackOf ds.vars g c) ∧
        ∀ c ∈ ds.valid, c.eq = true → slackOf ds.vars g c = 0

theorem Good.pre {n : Nat} {ds : DimSt} (h : Good n ds) : Pre ds := ⟨h.fsize, h.wf, h.sol⟩

theorem good_init (n : Nat) (vs : Array (Rat × Rat × Rat)) :
    Good n { vars := vs, final := vs.map (·.1) } := by
  refine ⟨by simp, fun c hc => ?_, ⟨vs.map (·.1), by simp, fun _ _ => rfl, fun c hc => ?_⟩, fun st h => ?_,
    fun _ => ⟨vs.map (·.1), by simp, fun _ _ => rfl, fun c hc => ?_, fun c hc => ?_⟩⟩
  · simp at hc
  · simp at hc
  · simp at h
  · simp at hc
  · simp at hc

theorem restore_size (n : Nat) (prior cur : Array Rat) : (restore n prior cur).size = cur.size := by
  unfold restore
  simp

theorem restore_node (n : Nat) (prior cur : Array Rat) (hsz : cur.size = prior.size) (i : Nat)
    (hi : i < n) : (restore n prior cur)[i]! = prior[i]! := by
  by_cases hlt : i < cur.size
  · unfold restore
    rw [mapIdx_get! _ _ _ hlt, if_pos hi]
  · rw [getElem!_neg _ i (by rw [restore_size]; exact hlt), getElem!_neg prior i (by rw [← hsz]; exact hlt)]

theorem solverFor_consist (ds : DimSt) (c : Con) (h : Pre ds) :
    Consist ds.vars (ds.valid.push c) (ds.solverFor c) := by
  unfold DimSt.solverFor
  split
  · exact consist_init _ _
  · rename_i st hst
    exact consist_addConstraint (h.sol st hst).consist c

theorem solverFor_hist (ds : DimSt) (c : Con) (h : Pre ds)
    (hc : c.l < ds.vars.size ∧ c.r < ds.vars.size ∧ c.unsat = false) : Hist (ds.solverFor c) := by
  unfold DimSt.solverFor
  split
  · refine Hist.init _ _ fun c' hc' => ?_
    rcases Array.mem_push.1 hc' with hm | rfl
    · exact h.wf c' hm
    · exact hc
  · rename_i st hst
    have hok := h.sol st hst
    exact Hist.add st c hok.hist (by rw [hok.vsize]; exact hc.1) (by rw [hok.vsize]; exact hc.2.1) hc.2.2

theorem clean_of_any {st : St} (h : st.cons.any (·.unsat) = false) : Clean st := by
  intro i hi
  rw [Array.any_eq_false] at h
  have := h i hi
  rw [getElem!_pos _ i hi]
  simpa using this

/-! ### one trial -/

/-- one trial preserves the invariant; an accepted constraint is in `valid` afterwards; `vars` never
    changes; `valid` only grows by the accepted constraint -/
theorem tryCon_good (n : Nat) (ds : DimSt) (c : Con) (own : Nat × Nat) (h : Good n ds)
    (hc : c.l < ds.vars.size ∧ c.r < ds.vars.size ∧ c.unsat = false) :
    Good n (ds.tryCon n c own).ds ∧ (ds.tryCon n c own).ds.vars = ds.vars ∧
    ((ds.tryCon n c own).accepted = true → (ds.tryCon n c own).ds.valid = ds.valid.push c) ∧
    ((ds.tryCon n c own).accepted = false → (ds.tryCon n c own).ds.valid = ds.valid) := by
  have hcons := consist_satisfy (solverFor_consist ds c h.pre)
  have hhist := Hist.satisfy _ (solverFor_hist ds c h.pre hc)
  unfold DimSt.tryCon
  simp only
  generalize hsat : (ds.solverFor c).satisfy = r at hcons hhist
  obtain ⟨st', o⟩ := r
  simp only at hcons hhist ⊢
  obtain ⟨g, hg1, hg2, hg3⟩ := h.wit
  cases o with
  | ok pos ret =>
    simp only
    split
    · -- flagged: back out
      rename_i hfl
      have hres : ∀ i : Nat, i < n → (restore n ds.final pos)[i]! = ds.final[i]! := fun i hi =>
        restore_node n ds.final pos
          (by rw [(satisfy_ok _ _ _ _ hsat).1, positions_size, hcons.vsize, h.fsize]) i hi
      refine ⟨⟨?_, h.wf, ⟨g, hg1, fun i hi => ?_, hg3⟩, fun st hst => by simp at hst, fun hsc => ?_⟩, rfl,
        fun hh => by simp at hh, fun _ => rfl⟩
      · show (restore n ds.final pos).size = ds.vars.size
        rw [restore_size, (satisfy_ok _ _ _ _ hsat).1, positions_size, hcons.vsize]
      · show g[i]! = (restore n ds.final pos)[i]!
        rw [hres i hi]
        exact hg2 i hi
      · obtain ⟨g', e1, e2, e3, e4⟩ := h.weq hsc
        exact ⟨g', e1, fun i hi => (e2 i hi).trans (hres i hi).symm, e3, e4⟩
    · rename_i hfl
      have hcl : Clean st' := clean_of_any (by simpa using hfl)
      obtain ⟨hp, hall⟩ := solve_holds hsat hcons hcl
      have hwf : ∀ c' ∈ ds.valid.push c, c'.l < ds.vars.size ∧ c'.r < ds.vars.size ∧ c'.unsat = false := by
        intro c' hc'
        rcases Array.mem_push.1 hc' with hm | rfl
        · exact h.wf c' hm
        · exact hc
      have hex := solve_eq_exact hsat (solverFor_hist ds c h.pre hc) hcons hcl
      refine ⟨⟨hp, hwf, ⟨pos, hp, fun _ _ => rfl, fun c' hc' => ?_⟩, fun st hst => ?_, fun hsc =>
        ⟨pos, hp, fun _ _ => rfl, fun c' hc' => hall c' hc' (hwf c' hc').1 (hwf c' hc').2.1,
          fun c' hc' he => hex hsc c' hc' (hwf c' hc').1 (hwf c' hc').2.1 he⟩⟩, rfl,
        fun _ => rfl, fun hh => by simp at hh⟩
      · exact hall c' hc' (hwf c' hc').1 (hwf c' hc').2.1
      · have e : st' = st := by simpa using hst
        subst e
        exact ⟨hcons.size, hcons.data, hcl, hcons.vsize, hcons.scale, hhist⟩
  | threw =>
    exact ⟨⟨h.fsize, h.wf, ⟨g, hg1, hg2, hg3⟩, fun st hst => by simp at hst, h.weq⟩, rfl,
      fun hh => by simp at hh, fun _ => rfl⟩
  | outOfFuel =>
    exact ⟨⟨h.fsize, h.wf, ⟨g, hg1, hg2, hg3⟩, fun st hst => by simp at hst, h.weq⟩, rfl,
      fun hh => by simp at hh, fun _ => rfl⟩

/-! ### the whole state -/

/-- both dimensions are `Good` as long as no combined solve left a flag behind / threw / ran out of fuel -/
def MFGood (mf : MF) : Prop :=
  mf.combineFlags = #[] → mf.escaped = false → mf.fuelOut = false → Good mf.n mf.x ∧ Good mf.n mf.y

/-- what never changes (`n`, `vars`) and what only ever grows (`combineFlags`, `escaped`, `fuelOut`) -/
structure Frame (a b : MF) : Prop where
  n : b.n = a.n
  xv : b.x.vars = a.x.vars
  yv : b.y.vars = a.y.vars
  flags : b.combineFlags = #[] → a.combineFlags = #[]
  esc : b.escaped = false → a.escaped = false
  fuel : b.fuelOut = false → a.fuelOut = false

theorem Frame.refl (a : MF) : Frame a a := ⟨rfl, rfl, rfl, id, id, id⟩
theorem Frame.trans {a b c : MF} (h1 : Frame a b) (h2 : Frame b c) : Frame a c :=
  ⟨h2.n.trans h1.n, h2.xv.trans h1.xv, h2.yv.trans h1.yv, fun h => h1.flags (h2.flags h),
   fun h => h1.esc (h2.esc h), fun h => h1.fuel (h2.fuel h)⟩

/-- a step of the model: frame + the invariant is kept -/
structure Step (a b : MF) : Prop where
  frame : Frame a b
  good : MFGood a → MFGood b

theorem Step.refl (a : MF) : Step a a := ⟨Frame.refl a, id⟩
theorem Step.trans {a b c : MF} (h1 : Step a b) (h2 : Step b c) : Step a c :=
  ⟨h1.frame.trans h2.frame, fun h => h2.good (h1.good h)⟩

/-- only bookkeeping fields (log, marks, margin, stuck) differ -/
theorem Step.of_same {a b : MF} (hn : b.n = a.n) (hx : b.x = a.x) (hy : b.y = a.y)
    (hf : b.combineFlags = a.combineFlags) (he : b.escaped = a.escaped) (hu : b.fuelOut = a.fuelOut) :
    Step a b := by
  refine ⟨⟨hn, by rw [hx], by rw [hy], by rw [hf]; exact id, by rw [he]; exact id, by rw [hu]; exact id⟩, ?_⟩
  intro hg
  unfold MFGood at hg ⊢
  rw [hn, hx, hy, hf, he, hu]
  exact hg

theorem wf_x {sx sy : Nat} {c : Con} (h : Alt.wf sx sy { dim := .x, con := c } = true) :
    c.l < sx ∧ c.r < sx ∧ c.unsat = false := by
  simp [Alt.wf] at h
  exact ⟨h.1.1, h.1.2, h.2⟩

theorem wf_y {sx sy : Nat} {c : Con} (h : Alt.wf sx sy { dim := .y, con := c } = true) :
    c.l < sy ∧ c.r < sy ∧ c.unsat = false := by
  simp [Alt.wf] at h
  exact ⟨h.1.1, h.1.2, h.2⟩

theorem tryCon_vars (n : Nat) (ds : DimSt) (c : Con) (own : Nat × Nat) :
    (ds.tryCon n c own).ds.vars = ds.vars := by
  unfold DimSt.tryCon
  simp only
  generalize (ds.solverFor c).satisfy = r
  obtain ⟨st', o⟩ := r
  cases o with
  | ok pos ret =>
    simp only
    split <;> rfl
  | threw => rfl
  | outOfFuel => rfl

theorem trial_x_x (mf : MF) (cc sub k : Nat) (c : Con) :
    (mf.trial cc sub k ⟨.x, c⟩).1.x = (mf.x.tryCon mf.n c (cc, sub)).ds := rfl
theorem trial_y_y (mf : MF) (cc sub k : Nat) (c : Con) :
    (mf.trial cc sub k ⟨.y, c⟩).1.y = (mf.y.tryCon mf.n c (cc, sub)).ds := rfl
theorem trial_x_y (mf : MF) (cc sub k : Nat) (c : Con) : (mf.trial cc sub k ⟨.x, c⟩).1.y = mf.y := rfl
theorem trial_y_x (mf : MF) (cc sub k : Nat) (c : Con) : (mf.trial cc sub k ⟨.y, c⟩).1.x = mf.x := rfl
theorem trial_n (mf : MF) (cc sub k : Nat) (a : Alt) : (mf.trial cc sub k a).1.n = mf.n := by
  obtain ⟨d, c⟩ := a; cases d <;> rfl
theorem trial_flags (mf : MF) (cc sub k : Nat) (a : Alt) :
    (mf.trial cc sub k a).1.combineFlags = mf.combineFlags := by
  obtain ⟨d, c⟩ := a; cases d <;> rfl
theorem trial_esc (mf : MF) (cc sub k : Nat) (a : Alt) :
    (mf.trial cc sub k a).1.escaped = mf.escaped := by
  obtain ⟨d, c⟩ := a; cases d <;> rfl
theorem trial_fuel (mf : MF) (cc sub k : Nat) (a : Alt) :
    (mf.trial cc sub k a).1.fuelOut = false → mf.fuelOut = false := by
  have hor : ∀ (p q : Bool), (p || q) = false → p = false := by
    intro p q h; cases p <;> simp_all
  obtain ⟨d, c⟩ := a
  cases d
  · exact hor mf.fuelOut (mf.x.tryCon mf.n c (cc, sub)).fuelOut
  · exact hor mf.fuelOut (mf.y.tryCon mf.n c (cc, sub)).fuelOut

theorem trial_step (mf : MF) (cc sub k : Nat) (a : Alt)
    (hwf : Alt.wf mf.x.vars.size mf.y.vars.size a = true) : Step mf (mf.trial cc sub k a).1 := by
  have hn := trial_n mf cc sub k a
  have hf := trial_flags mf cc sub k a
  have he := trial_esc mf cc sub k a
  have hu := trial_fuel mf cc sub k a
  obtain ⟨d, c⟩ := a
  cases d with
  | x =>
    have hc := wf_x hwf
    have hx := trial_x_x mf cc sub k c
    have hy := trial_x_y mf cc sub k c
    generalize (mf.trial cc sub k ⟨.x, c⟩).1 = b at hn hf he hu hx hy ⊢
    refine ⟨⟨hn, by rw [hx]; exact tryCon_vars _ _ _ _, by rw [hy], by rw [hf]; exact id,
      by rw [he]; exact id, hu⟩, ?_⟩
    intro hg h1 h2 h3
    have hg' := hg (hf ▸ h1) (he ▸ h2) (hu h3)
    rw [hn, hx, hy]
    exact ⟨(tryCon_good mf.n mf.x c (cc, sub) hg'.1 hc).1, hg'.2⟩
  | y =>
    have hc := wf_y hwf
    have hx := trial_y_x mf cc sub k c
    have hy := trial_y_y mf cc sub k c
    generalize (mf.trial cc sub k ⟨.y, c⟩).1 = b at hn hf he hu hx hy ⊢
    refine ⟨⟨hn, by rw [hx], by rw [hy]; exact tryCon_vars _ _ _ _, by rw [hf]; exact id,
      by rw [he]; exact id, hu⟩, ?_⟩
    intro hg h1 h2 h3
    have hg' := hg (hf ▸ h1) (he ▸ h2) (hu h3)
    rw [hn, hx, hy]
    exact ⟨hg'.1, (tryCon_good mf.n mf.y c (cc, sub) hg'.2 hc).1⟩

theorem tryAlts_step (cc sub : Nat) : ∀ (alts : List Alt) (mf : MF) (k : Nat),
    (∀ a ∈ alts, Alt.wf mf.x.vars.size mf.y.vars.size a = true) →
    Step mf (mf.tryAlts cc sub k alts).1
  | [], mf, k, _ => Step.refl mf
  | a :: rest, mf, k, h => by
    unfold MF.tryAlts
    simp only
    have h1 := trial_step mf cc sub k a (h a (by simp))
    split
    · exact h1
    · refine h1.trans (tryAlts_step cc sub rest _ _ ?_)
      rw [h1.frame.xv, h1.frame.yv]
      exact fun a ha => h a (by simp [ha])

theorem runSub_step (mf : MF) (cc sub : Nat) (alts : List Alt)
    (h : ∀ a ∈ alts, Alt.wf mf.x.vars.size mf.y.vars.size a = true) :
    Step mf (mf.runSub cc sub alts) := by
  unfold MF.runSub
  split
  · exact Step.of_same rfl rfl rfl rfl rfl rfl
  · exact (tryAlts_step cc sub alts mf 0 h).trans (Step.of_same rfl rfl rfl rfl rfl rfl)

theorem runSubs_step (cc : Nat) : ∀ (subs : List (List Alt)) (mf : MF) (i : Nat),
    (∀ alts ∈ subs, ∀ a ∈ alts, Alt.wf mf.x.vars.size mf.y.vars.size a = true) →
    Step mf (mf.runSubs cc i subs)
  | [], mf, i, _ => Step.refl mf
  | alts :: rest, mf, i, h => by
    unfold MF.runSubs
    have h1 := runSub_step mf cc i alts (h alts (by simp))
    refine h1.trans (runSubs_step cc rest _ _ ?_)
    rw [h1.frame.xv, h1.frame.yv]
    exact fun al ha => h al (by simp [ha])

/-! ### the combined branch -/

theorem pushCon_pre (ds : DimSt) (c : Con) (own : Nat × Nat) (h : Pre ds)
    (hc : c.l < ds.vars.size ∧ c.r < ds.vars.size ∧ c.unsat = false) : Pre (ds.pushCon c own) := by
  refine ⟨h.fsize, fun c' hc' => ?_, fun st' hst' => ?_⟩
  · rcases Array.mem_push.1 hc' with hm | rfl
    · exact h.wf c' hm
    · exact hc
  · have hst'' : ds.solver.map (fun st => st.addConstraint c) = some st' := hst'
    cases hs : ds.solver with
    | none => rw [hs] at hst''; simp at hst''
    | some st =>
      rw [hs] at hst''
      have e : st.addConstraint c = st' := by simpa using hst''
      subst e
      have hok := h.sol st hs
      have h1 : Consist ds.vars (ds.valid.push c) (st.addConstraint c) := consist_addConstraint hok.consist c
      exact ⟨h1.size, h1.data, clean_addConstraint hok.clean c hc.2.2, h1.vsize, h1.scale,
        Hist.add st c hok.hist (by rw [hok.vsize]; exact hc.1) (by rw [hok.vsize]; exact hc.2.1) hc.2.2⟩

theorem combinePush_spec (cc : Nat) : ∀ (subs : List (List Alt)) (mf : MF) (i : Nat),
    (∀ alts ∈ subs, ∀ a ∈ alts, Alt.wf mf.x.vars.size mf.y.vars.size a = true) →
    Frame mf (mf.combinePush cc i subs) ∧
    (Pre mf.x → Pre mf.y → Pre (mf.combinePush cc i subs).x ∧ Pre (mf.combinePush cc i subs).y)
  | [], mf, i, _ => ⟨Frame.refl mf, fun hx hy => ⟨hx, hy⟩⟩
  | alts :: rest, mf, i, h => by
    unfold MF.combinePush
    split
    · rename_i a
      have hwf := h [a] (by simp) a (by simp)
      obtain ⟨d, c⟩ := a
      cases d with
      | x =>
        have hc := wf_x hwf
        have ih := combinePush_spec cc rest
          { (mf.setDim .x (mf.x.pushCon c (cc, i))) with
            marks := (mf.setDim .x (mf.x.pushCon c (cc, i))).marks.push (cc, i, true) } (i + 1)
          (fun al ha => h al (by simp [ha]))
        have hfr : Frame mf { (mf.setDim .x (mf.x.pushCon c (cc, i))) with
            marks := (mf.setDim .x (mf.x.pushCon c (cc, i))).marks.push (cc, i, true) } :=
          ⟨rfl, rfl, rfl, id, id, id⟩
        refine ⟨hfr.trans ih.1, fun hx hy => ?_⟩
        exact ih.2 (pushCon_pre mf.x c (cc, i) hx hc) hy
      | y =>
        have hc := wf_y hwf
        have ih := combinePush_spec cc rest
          { (mf.setDim .y (mf.y.pushCon c (cc, i))) with
            marks := (mf.setDim .y (mf.y.pushCon c (cc, i))).marks.push (cc, i, true) } (i + 1)
          (fun al ha => h al (by simp [ha]))
        have hfr : Frame mf { (mf.setDim .y (mf.y.pushCon c (cc, i))) with
            marks := (mf.setDim .y (mf.y.pushCon c (cc, i))).marks.push (cc, i, true) } :=
          ⟨rfl, rfl, rfl, id, id, id⟩
        refine ⟨hfr.trans ih.1, fun hx hy => ?_⟩
        exact ih.2 hx (pushCon_pre mf.y c (cc, i) hy hc)
    · exact ⟨⟨rfl, rfl, rfl, id, id, id⟩, fun hx hy => ⟨hx, hy⟩⟩

theorem clean_of_flagged_empty {α : Type} (st : St) (f : Nat → α)
    (h : (((List.range st.cons.size).filter fun i => (st.cons[i]!).unsat).map f).isEmpty = true) :
    Clean st := by
  intro i hi
  simp only [List.isEmpty_iff, List.map_eq_nil_iff, List.filter_eq_nil_iff, List.mem_range] at h
  simpa using h i hi

theorem dim_setDim (mf : MF) (d : Dim) (ds : DimSt) : (mf.setDim d ds).dim d = ds := by
  cases d <;> rfl

theorem dim_setDim_ne (mf : MF) (d d' : Dim) (ds : DimSt) (h : d' ≠ d) :
    (mf.setDim d ds).dim d' = mf.dim d' := by
  cases d <;> cases d' <;> first | rfl | exact absurd rfl h

theorem setDim_frame (mf : MF) (d : Dim) (ds : DimSt) (h : ds.vars = (mf.dim d).vars) :
    Frame mf (mf.setDim d ds) := by
  cases d
  · exact ⟨rfl, h, rfl, id, id, id⟩
  · exact ⟨rfl, rfl, h, id, id, id⟩

/-- the state `combineSolve` solves: the live solver or a fresh `IncSolver(vs, valid)` -/
def solverOf (ds : DimSt) : St :=
  match ds.solver with
  | none => St.init ds.vars ds.valid
  | some st => st

theorem combineSolve_eq (mf : MF) (cc : Nat) (d : Dim) :
    mf.combineSolve cc d =
      if mf.escaped then mf else
        let r := (solverOf (mf.dim d)).satisfy
        let fl := ((List.range r.1.cons.size).filter fun i => (r.1.cons[i]!).unsat).map
          fun i => (mf.dim d).owner.getD i (0, 0)
        let m1 : MF := { mf with
          margin := rmin mf.margin r.1.margin
          combineFlags := (if fl.isEmpty then mf.combineFlags else mf.combineFlags.push (cc, d, fl)) }
        match r.2 with
        | .ok pos _ => m1.setDim d { mf.dim d with solver := some r.1, final := pos }
        | .threw => { m1 with escaped := true }
        | .outOfFuel => { m1 with fuelOut := true } := rfl

theorem combineSolve_spec (mf : MF) (cc : Nat) (d : Dim) :
    Frame mf (mf.combineSolve cc d) ∧
    (∀ d', d' ≠ d → (mf.combineSolve cc d).dim d' = mf.dim d') ∧
    (mf.escaped = false → Pre (mf.dim d) → (mf.combineSolve cc d).combineFlags = #[] →
      (mf.combineSolve cc d).escaped = false → (mf.combineSolve cc d).fuelOut = false →
      Good mf.n ((mf.combineSolve cc d).dim d)) := by
  rw [combineSolve_eq]
  split
  · rename_i he
    exact ⟨Frame.refl mf, fun _ _ => rfl, fun he' => by rw [he] at he'; cases he'⟩
  · simp only
    generalize hst0 : solverOf (mf.dim d) = st0
    generalize hsat : st0.satisfy = r
    obtain ⟨st', o⟩ := r
    generalize hfl : (((List.range st'.cons.size).filter fun i => (st'.cons[i]!).unsat).map
      fun i => (mf.dim d).owner.getD i (0, 0)) = fl
    have hflags : (if fl.isEmpty = true then mf.combineFlags else mf.combineFlags.push (cc, d, fl)) = #[] →
        mf.combineFlags = #[] ∧ fl.isEmpty = true := by
      intro h
      split at h
      · rename_i he; exact ⟨h, he⟩
      · exact absurd h Array.push_ne_empty
    cases o with
    | ok pos ret =>
      simp only
      generalize hm : ({ mf with
        margin := rmin mf.margin st'.margin
        combineFlags := (if fl.isEmpty = true then mf.combineFlags else mf.combineFlags.push (cc, d, fl)) } : MF) = m1
      have hm1 : Frame mf m1 := by
        subst hm; exact ⟨rfl, rfl, rfl, fun h => (hflags h).1, id, id⟩
      have hd : m1.dim d = mf.dim d := by subst hm; cases d <;> rfl
      refine ⟨hm1.trans (setDim_frame _ _ _ (by rw [hd])), fun d' hd' => ?_, fun he hp h1 h2 h3 => ?_⟩
      · rw [dim_setDim_ne _ _ _ _ hd']; subst hm; cases d' <;> rfl
      · rw [dim_setDim]
        have h1' : m1.combineFlags = #[] := by
          cases d <;> exact h1
        have hcl : Clean st' := by
          subst hm
          have := (hflags h1').2
          rw [← hfl] at this
          exact clean_of_flagged_empty st' _ this
        have hc0 : Consist (mf.dim d).vars (mf.dim d).valid st0 := by
          subst hst0
          unfold solverOf
          split
          · exact consist_init _ _
          · rename_i st hs; exact (hp.sol st hs).consist
        have hc : Consist (mf.dim d).vars (mf.dim d).valid st' := by
          have := consist_satisfy hc0
          rw [hsat] at this
          exact this
        obtain ⟨hps, hall⟩ := solve_holds hsat hc hcl
        have hh0 : Hist st0 := by
          subst hst0
          unfold solverOf
          split
          · exact Hist.init _ _ hp.wf
          · rename_i st1 hs1; exact (hp.sol st1 hs1).hist
        have hex := solve_eq_exact hsat hh0 hc hcl
        refine ⟨hps, hp.wf, ⟨pos, hps, fun _ _ => rfl, fun c hcm => ?_⟩, fun st hst => ?_, fun hsc =>
          ⟨pos, hps, fun _ _ => rfl, fun c hcm => hall c hcm (hp.wf c hcm).1 (hp.wf c hcm).2.1,
            fun c hcm he => hex hsc c hcm (hp.wf c hcm).1 (hp.wf c hcm).2.1 he⟩⟩
        · exact hall c hcm (hp.wf c hcm).1 (hp.wf c hcm).2.1
        · have e : st' = st := by simpa using hst
          subst e
          have hh : Hist st0.satisfy.1 := Hist.satisfy _ hh0
          rw [hsat] at hh
          exact ⟨hc.size, hc.data, hcl, hc.vsize, hc.scale, hh⟩
    | threw =>
      refine ⟨⟨rfl, rfl, rfl, fun h => (hflags h).1, (fun h => by cases h), id⟩, (fun d' _ => by cases d' <;> rfl),
        (fun _ _ _ h2 _ => by cases h2)⟩
    | outOfFuel =>
      refine ⟨⟨rfl, rfl, rfl, fun h => (hflags h).1, id, (fun h => by cases h)⟩, (fun d' _ => by cases d' <;> rfl),
        (fun _ _ _ _ h3 => by cases h3)⟩

/-! ### work-list items, the main loop -/

theorem runItem_step (mf : MF) (it : Item)
    (h : ∀ alts ∈ it.subs, ∀ a ∈ alts, Alt.wf mf.x.vars.size mf.y.vars.size a = true) :
    Step mf (mf.runItem it) := by
  unfold MF.runItem
  split
  · exact Step.refl mf
  · split
    · -- the combined branch: `combinePush`, then one solve per dimension
      obtain ⟨f1, p1⟩ := combinePush_spec it.cc it.subs mf 0 h
      generalize mf.combinePush it.cc 0 it.subs = m1 at f1 p1 ⊢
      obtain ⟨f2, o2, g2⟩ := combineSolve_spec m1 it.cc .x
      generalize m1.combineSolve it.cc .x = m2 at f2 o2 g2 ⊢
      obtain ⟨f3, o3, g3⟩ := combineSolve_spec m2 it.cc .y
      generalize m2.combineSolve it.cc .y = m3 at f3 o3 g3 ⊢
      refine ⟨f1.trans (f2.trans f3), fun hg h1 h2 h3 => ?_⟩
      have a1 := f3.flags h1
      have a2 := f3.esc h2
      have a3 := f3.fuel h3
      have b1 := f2.flags a1
      have b2 := f2.esc a2
      have b3 := f2.fuel a3
      obtain ⟨gx, gy⟩ := hg (f1.flags b1) (f1.esc b2) (f1.fuel b3)
      obtain ⟨px, py⟩ := p1 gx.pre gy.pre
      have gx2 : Good m1.n m2.x := g2 b2 px a1 a2 a3
      have ey2 : m2.y = m1.y := o2 .y (by decide)
      have gy3 : Good m2.n m3.y := g3 a2 (by rw [show m2.dim .y = m2.y from rfl, ey2]; exact py) h1 h2 h3
      have ex3 : m3.x = m2.x := o3 .x (by decide)
      rw [f3.n, ex3]
      rw [f2.n] at gy3 ⊢
      exact ⟨gx2, gy3⟩
    · exact runSubs_step it.cc it.subs mf 0 h

theorem run_step : ∀ (items : List Item) (mf : MF),
    (∀ it ∈ items, ∀ alts ∈ it.subs, ∀ a ∈ alts, Alt.wf mf.x.vars.size mf.y.vars.size a = true) →
    Step mf (mf.run items)
  | [], mf, _ => Step.refl mf
  | it :: rest, mf, h => by
    have h1 := runItem_step mf it (h it (by simp))
    have h2 : Step (mf.runItem it) ((mf.runItem it).run rest) := by
      refine run_step rest _ ?_
      rw [h1.frame.xv, h1.frame.yv]
      exact fun it' hi => h it' (by simp [hi])
    exact h1.trans h2

theorem itemsWf_mem {sx sy : Nat} {items : List Item} (h : itemsWf sx sy items = true) :
    ∀ it ∈ items, ∀ alts ∈ it.subs, ∀ a ∈ alts, Alt.wf sx sy a = true := by
  unfold itemsWf at h
  simp only [List.all_eq_true] at h
  exact h

theorem mfgood_init (n : Nat) (vx vy : Array (Rat × Rat × Rat)) : MFGood (MF.init n vx vy) :=
  fun _ _ _ => ⟨good_init n vx, good_init n vy⟩

/-- **the invariant at the end of `makeFeasible`**: if no combined solve left a flag behind (nor threw, nor
    ran out of fuel), every constraint of `valid[dim]` holds at a position vector that agrees with
    `finalPosition` on the node variables -/
theorem makeFeasible_good (n : Nat) (vx vy : Array (Rat × Rat × Rat)) (items : List Item)
    (hwf : itemsWf vx.size vy.size items = true)
    (hclean : (makeFeasible n vx vy items).combineFlags = #[])
    (hesc : (makeFeasible n vx vy items).escaped = false)
    (hfuel : (makeFeasible n vx vy items).fuelOut = false) :
    Good n (makeFeasible n vx vy items).x ∧ Good n (makeFeasible n vx vy items).y ∧
    (makeFeasible n vx vy items).x.vars = vx ∧ (makeFeasible n vx vy items).y.vars = vy ∧
    (makeFeasible n vx vy items).n = n := by
  have hs : Step (MF.init n vx vy) (makeFeasible n vx vy items) :=
    run_step items (MF.init n vx vy) (itemsWf_mem hwf)
  have hg := hs.good (mfgood_init n vx vy) hclean hesc hfuel
  have hn : (makeFeasible n vx vy items).n = n := hs.frame.n
  rw [hn] at hg
  exact ⟨hg.1, hg.2, hs.frame.xv, hs.frame.yv, hn⟩

/-! ### work lists without combined items: the invariant holds unconditionally -/

/-- a step outside the combined branch: `combineFlags` / `escaped` untouched, `Good` kept outright -/
structure UStep (a b : MF) : Prop where
  n : b.n = a.n
  xv : b.x.vars = a.x.vars
  yv : b.y.vars = a.y.vars
  flags : b.combineFlags = a.combineFlags
  esc : b.escaped = a.escaped
  fuel : b.fuelOut = false → a.fuelOut = false
  good : Good a.n a.x ∧ Good a.n a.y → Good b.n b.x ∧ Good b.n b.y

theorem UStep.refl (a : MF) : UStep a a := ⟨rfl, rfl, rfl, rfl, rfl, id, id⟩
theorem UStep.trans {a b c : MF} (h1 : UStep a b) (h2 : UStep b c) : UStep a c :=
  ⟨h2.n.trans h1.n, h2.xv.trans h1.xv, h2.yv.trans h1.yv, h2.flags.trans h1.flags,
   h2.esc.trans h1.esc, fun h => h1.fuel (h2.fuel h), fun h => h2.good (h1.good h)⟩

theorem UStep.of_same {a b : MF} (hn : b.n = a.n) (hx : b.x = a.x) (hy : b.y = a.y)
    (hf : b.combineFlags = a.combineFlags) (he : b.escaped = a.escaped)
    (hu : b.fuelOut = a.fuelOut) : UStep a b := by
  refine ⟨hn, by rw [hx], by rw [hy], hf, he, by rw [hu]; exact id, ?_⟩
  rw [hn, hx, hy]
  exact id

theorem trial_ustep (mf : MF) (cc sub k : Nat) (a : Alt)
    (hwf : Alt.wf mf.x.vars.size mf.y.vars.size a = true) : UStep mf (mf.trial cc sub k a).1 := by
  have hn := trial_n mf cc sub k a
  have hf := trial_flags mf cc sub k a
  have he := trial_esc mf cc sub k a
  have hu := trial_fuel mf cc sub k a
  obtain ⟨d, c⟩ := a
  cases d with
  | x =>
    have hc := wf_x hwf
    have hx := trial_x_x mf cc sub k c
    have hy := trial_x_y mf cc sub k c
    generalize (mf.trial cc sub k ⟨.x, c⟩).1 = b at hn hf he hu hx hy ⊢
    refine ⟨hn, by rw [hx]; exact tryCon_vars _ _ _ _, by rw [hy], hf, he, hu, fun hg => ?_⟩
    rw [hn, hx, hy]
    exact ⟨(tryCon_good mf.n mf.x c (cc, sub) hg.1 hc).1, hg.2⟩
  | y =>
    have hc := wf_y hwf
    have hx := trial_y_x mf cc sub k c
    have hy := trial_y_y mf cc sub k c
    generalize (mf.trial cc sub k ⟨.y, c⟩).1 = b at hn hf he hu hx hy ⊢
    refine ⟨hn, by rw [hx], by rw [hy]; exact tryCon_vars _ _ _ _, hf, he, hu, fun hg => ?_⟩
    rw [hn, hx, hy]
    exact ⟨hg.1, (tryCon_good mf.n mf.y c (cc, sub) hg.2 hc).1⟩

theorem tryAlts_ustep (cc sub : Nat) : ∀ (alts : List Alt) (mf : MF) (k : Nat),
    (∀ a ∈ alts, Alt.wf mf.x.vars.size mf.y.vars.size a = true) →
    UStep mf (mf.tryAlts cc sub k alts).1
  | [], mf, k, _ => UStep.refl mf
  | a :: rest, mf, k, h => by
    unfold MF.tryAlts
    simp only
    have h1 := trial_ustep mf cc sub k a (h a (by simp))
    split
    · exact h1
    · refine h1.trans (tryAlts_ustep cc sub rest _ _ ?_)
      rw [h1.xv, h1.yv]
      exact fun a ha => h a (by simp [ha])

theorem runSub_ustep (mf : MF) (cc sub : Nat) (alts : List Alt)
    (h : ∀ a ∈ alts, Alt.wf mf.x.vars.size mf.y.vars.size a = true) :
    UStep mf (mf.runSub cc sub alts) := by
  unfold MF.runSub
  split
  · exact UStep.of_same rfl rfl rfl rfl rfl rfl
  · exact (tryAlts_ustep cc sub alts mf 0 h).trans (UStep.of_same rfl rfl rfl rfl rfl rfl)

theorem runSubs_ustep (cc : Nat) : ∀ (subs : List (List Alt)) (mf : MF) (i : Nat),
    (∀ alts ∈ subs, ∀ a ∈ alts, Alt.wf mf.x.vars.size mf.y.vars.size a = true) →
    UStep mf (mf.runSubs cc i subs)
  | [], mf, i, _ => UStep.refl mf
  | alts :: rest, mf, i, h => by
    unfold MF.runSubs
    have h1 := runSub_ustep mf cc i alts (h alts (by simp))
    refine h1.trans (runSubs_ustep cc rest _ _ ?_)
    rw [h1.xv, h1.yv]
    exact fun al ha => h al (by simp [ha])

theorem runItem_ustep (mf : MF) (it : Item) (hnc : it.combine = false)
    (h : ∀ alts ∈ it.subs, ∀ a ∈ alts, Alt.wf mf.x.vars.size mf.y.vars.size a = true) :
    UStep mf (mf.runItem it) := by
  unfold MF.runItem
  split
  · exact UStep.refl mf
  · split
    · rename_i hc; rw [hnc] at hc; cases hc
    · exact runSubs_ustep it.cc it.subs mf 0 h

theorem run_ustep : ∀ (items : List Item) (mf : MF),
    (∀ it ∈ items, it.combine = false) →
    (∀ it ∈ items, ∀ alts ∈ it.subs, ∀ a ∈ alts, Alt.wf mf.x.vars.size mf.y.vars.size a = true) →
    UStep mf (mf.run items)
  | [], mf, _, _ => UStep.refl mf
  | it :: rest, mf, hnc, h => by
    have h1 := runItem_ustep mf it (hnc it (by simp)) (h it (by simp))
    have h2 : UStep (mf.runItem it) ((mf.runItem it).run rest) := by
      refine run_ustep rest _ (fun it' hi => hnc it' (by simp [hi])) ?_
      rw [h1.xv, h1.yv]
      exact fun it' hi => h it' (by simp [hi])
    exact h1.trans h2

/-- work lists without combined items: the invariant holds at the end with NO side condition (a trial
    that throws / runs out of fuel / leaves a flag is backed out), and nothing is ever flagged or escapes -/
theorem makeFeasible_good_nocombine (n : Nat) (vx vy : Array (Rat × Rat × Rat)) (items : List Item)
    (hwf : itemsWf vx.size vy.size items = true)
    (hnc : ∀ it ∈ items, it.combine = false) :
    Good n (makeFeasible n vx vy items).x ∧ Good n (makeFeasible n vx vy items).y ∧
    (makeFeasible n vx vy items).x.vars = vx ∧ (makeFeasible n vx vy items).y.vars = vy ∧
    (makeFeasible n vx vy items).n = n ∧
    (makeFeasible n vx vy items).combineFlags = #[] ∧ (makeFeasible n vx vy items).escaped = false := by
  have hs : UStep (MF.init n vx vy) (makeFeasible n vx vy items) :=
    run_ustep items (MF.init n vx vy) hnc (itemsWf_mem hwf)
  have hg := hs.good ⟨good_init n vx, good_init n vy⟩
  have hn : (makeFeasible n vx vy items).n = n := hs.n
  rw [hn] at hg
  exact ⟨hg.1, hg.2, hs.xv, hs.yv, hn, hs.flags, hs.esc⟩

end AdaptaVerif.Lemmas.MakeFeasibleInv
