/-
`Router::contains` maintained incrementally (Model.Reroute.cTxn) equals its from-scratch meaning.
-/
import AdaptaVerif.Model.Reroute
set_option linter.unusedSimpArgs false
namespace AdaptaVerif.Lemmas.RerouteContains
open AdaptaVerif.Model.Geometry (Pt inPoly)
open AdaptaVerif.Model.Reroute
open AdaptaVerif.Model.ActionQueue (Action Kind End)

/-! per-entry versions of the three loops -/

def eDel (o : Nat) (e : CEntry) : CEntry := { e with ids := e.ids.filter (· != o) }
def eAdd (poly : List Pt) (o : Nat) (e : CEntry) : CEntry :=
  if inPoly poly e.pt false && !e.ids.contains o then { e with ids := o :: e.ids } else e
def eGen (active : List Nat) (rp : Polys) (k : VKey) (p : Pt) (e : CEntry) : CEntry :=
  if e.key = k then { e with pt := p, ids := active.filter fun o => inPoly (rp o) p false } else e

def ePass1 (e : CEntry) (a : Action) : CEntry :=
  match a.kind with
  | .remove | .move => eDel a.id e
  | _ => e
def ePass2 (rpNew : Polys) (e : CEntry) (a : Action) : CEntry :=
  match a.kind with
  | .add | .move => eAdd (rpNew a.id) a.id e
  | _ => e
def ePass3 (activeNew : List Nat) (rpNew : Polys) (e : CEntry) (a : Action) : CEntry :=
  match a.kind with
  | .connChange => a.conns.foldl (fun e u => eGen activeNew rpNew (VKey.ofEnd a.id u.1) ⟨u.2.x, u.2.y⟩ e) e
  | _ => e

theorem foldl_map_comm {α β : Type} (f : β → α → α) :
    ∀ (l : List β) (cs : List α), l.foldl (fun cs b => cs.map (f b)) cs = cs.map (fun e => l.foldl (fun e b => f b e) e) := by
  intro l
  induction l with
  | nil => intro cs; simp
  | cons b l ih => intro cs; simp only [List.foldl_cons]; rw [ih]; simp [List.map_map, Function.comp_def]

theorem cPass1_eq (cs : List CEntry) (a : Action) : cPass1 cs a = cs.map (fun e => ePass1 e a) := by
  unfold cPass1 ePass1 cDel eDel
  cases a.kind <;> simp

theorem cPass2_eq (rp : Polys) (cs : List CEntry) (a : Action) : cPass2 rp cs a = cs.map (fun e => ePass2 rp e a) := by
  unfold cPass2 ePass2 cAdd eAdd
  cases a.kind <;> simp

theorem cPass3_eq (act : List Nat) (rp : Polys) (cs : List CEntry) (a : Action) :
    cPass3 act rp cs a = cs.map (fun e => ePass3 act rp e a) := by
  unfold cPass3 ePass3
  cases a.kind
  case connChange =>
    simp only
    have := foldl_map_comm (fun (u : End × AdaptaVerif.Model.ActionQueue.CEnd) (e : CEntry) =>
      eGen act rp (VKey.ofEnd a.id u.1) ⟨u.2.x, u.2.y⟩ e) a.conns cs
    simp only [cGen, eGen] at this ⊢
    exact this
  all_goals simp

theorem cTxn_eq (act : List Nat) (rp : Polys) (acts : List Action) (cs : List CEntry) :
    cTxn act rp acts cs = cs.map (fun e =>
      acts.foldl (ePass3 act rp) (acts.foldl (ePass2 rp) (acts.foldl ePass1 e))) := by
  unfold cTxn
  have h1 : ∀ cs, acts.foldl cPass1 cs = cs.map (fun e => acts.foldl ePass1 e) := by
    intro cs
    have := foldl_map_comm (fun (a : Action) (e : CEntry) => ePass1 e a) acts cs
    simp only [← cPass1_eq] at this
    exact this
  have h2 : ∀ cs, acts.foldl (cPass2 rp) cs = cs.map (fun e => acts.foldl (ePass2 rp) e) := by
    intro cs
    have := foldl_map_comm (fun (a : Action) (e : CEntry) => ePass2 rp e a) acts cs
    simp only [← cPass2_eq] at this
    exact this
  have h3 : ∀ cs, acts.foldl (cPass3 act rp) cs = cs.map (fun e => acts.foldl (ePass3 act rp) e) := by
    intro cs
    have := foldl_map_comm (fun (a : Action) (e : CEntry) => ePass3 act rp e a) acts cs
    simp only [← cPass3_eq] at this
    exact this
  rw [h1, h2, h3]
  simp [List.map_map, Function.comp_def]

/-! membership after pass 1 and pass 2 -/

def isRM (a : Action) : Bool := a.kind == .remove || a.kind == .move
def isAM (a : Action) : Bool := a.kind == .add || a.kind == .move

theorem ePass1_spec (e : CEntry) (a : Action) :
    (ePass1 e a).key = e.key ∧ (ePass1 e a).pt = e.pt ∧
      ∀ o, o ∈ (ePass1 e a).ids ↔ (o ∈ e.ids ∧ ¬ (isRM a = true ∧ a.id = o)) := by
  unfold ePass1 isRM eDel
  cases hk : a.kind <;> simp [List.mem_filter] <;> intro o _ <;> exact ⟨fun h he => h he.symm, fun h he => h he.symm⟩

theorem fold1_spec (acts : List Action) : ∀ (e : CEntry),
    (acts.foldl ePass1 e).key = e.key ∧ (acts.foldl ePass1 e).pt = e.pt ∧
      ∀ o, o ∈ (acts.foldl ePass1 e).ids ↔ (o ∈ e.ids ∧ ∀ a ∈ acts, ¬ (isRM a = true ∧ a.id = o)) := by
  induction acts with
  | nil => intro e; simp
  | cons a l ih =>
    intro e
    simp only [List.foldl_cons]
    obtain ⟨k1, p1, m1⟩ := ePass1_spec e a
    obtain ⟨k2, p2, m2⟩ := ih (ePass1 e a)
    refine ⟨k2.trans k1, p2.trans p1, ?_⟩
    intro o
    rw [m2, m1]
    constructor
    · rintro ⟨⟨h1, h2⟩, h3⟩
      exact ⟨h1, fun b hb => by rcases List.mem_cons.mp hb with rfl | hb; exact h2; exact h3 b hb⟩
    · rintro ⟨h1, h2⟩
      exact ⟨⟨h1, h2 a (List.mem_cons_self ..)⟩, fun b hb => h2 b (List.mem_cons_of_mem _ hb)⟩

theorem ePass2_spec (rp : Polys) (e : CEntry) (a : Action) :
    (ePass2 rp e a).key = e.key ∧ (ePass2 rp e a).pt = e.pt ∧
      ∀ o, o ∈ (ePass2 rp e a).ids ↔ (o ∈ e.ids ∨ (isAM a = true ∧ a.id = o ∧ inPoly (rp o) e.pt false = true)) := by
  unfold ePass2 isAM
  have hadd : (eAdd (rp a.id) a.id e).key = e.key ∧ (eAdd (rp a.id) a.id e).pt = e.pt ∧
      ∀ o, o ∈ (eAdd (rp a.id) a.id e).ids ↔ (o ∈ e.ids ∨ (a.id = o ∧ inPoly (rp o) e.pt false = true)) := by
    unfold eAdd
    by_cases hc : (inPoly (rp a.id) e.pt false && !e.ids.contains a.id) = true
    · rw [if_pos hc]
      simp only [Bool.and_eq_true, Bool.not_eq_true', List.contains_eq_mem, decide_eq_false_iff_not] at hc
      refine ⟨rfl, rfl, ?_⟩
      intro o
      simp only [List.mem_cons]
      constructor
      · rintro (rfl | h)
        · exact Or.inr ⟨rfl, hc.1⟩
        · exact Or.inl h
      · rintro (h | ⟨rfl, _⟩)
        · exact Or.inr h
        · exact Or.inl rfl
    · rw [if_neg hc]
      refine ⟨rfl, rfl, ?_⟩
      intro o
      constructor
      · exact Or.inl
      · rintro (h | ⟨rfl, hin⟩)
        · exact h
        · simp only [Bool.and_eq_true, Bool.not_eq_true', List.contains_eq_mem, decide_eq_false_iff_not, not_and] at hc
          exact Classical.not_not.mp (hc hin)
  cases hk : a.kind <;> simp only [beq_self_eq_true, Bool.or_true, Bool.true_or, true_and, reduceCtorEq,
    (by decide : (Kind.move == Kind.add) = false), (by decide : (Kind.remove == Kind.add) = false),
    (by decide : (Kind.remove == Kind.move) = false), (by decide : (Kind.connChange == Kind.add) = false),
    (by decide : (Kind.connChange == Kind.move) = false), (by decide : (Kind.add == Kind.move) = false),
    Bool.or_self, Bool.false_eq_true, false_and, or_false, and_self, implies_true, and_true]
  · exact hadd
  · exact hadd

theorem fold2_spec (rp : Polys) (acts : List Action) : ∀ (e : CEntry),
    (acts.foldl (ePass2 rp) e).key = e.key ∧ (acts.foldl (ePass2 rp) e).pt = e.pt ∧
      ∀ o, o ∈ (acts.foldl (ePass2 rp) e).ids ↔
        (o ∈ e.ids ∨ ∃ a ∈ acts, isAM a = true ∧ a.id = o ∧ inPoly (rp o) e.pt false = true) := by
  induction acts with
  | nil => intro e; simp
  | cons a l ih =>
    intro e
    simp only [List.foldl_cons]
    obtain ⟨k1, p1, m1⟩ := ePass2_spec rp e a
    obtain ⟨k2, p2, m2⟩ := ih (ePass2 rp e a)
    refine ⟨k2.trans k1, p2.trans p1, ?_⟩
    intro o
    rw [m2, m1, p1]
    constructor
    · rintro ((h | h) | ⟨b, hb, h⟩)
      · exact Or.inl h
      · exact Or.inr ⟨a, List.mem_cons_self .., h⟩
      · exact Or.inr ⟨b, List.mem_cons_of_mem _ hb, h⟩
    · rintro (h | ⟨b, hb, h⟩)
      · exact Or.inl (Or.inl h)
      · rcases List.mem_cons.mp hb with rfl | hb
        · exact Or.inl (Or.inr h)
        · exact Or.inr ⟨b, hb, h⟩

/-! pass 3 keeps / establishes the from-scratch meaning -/

theorem eGen_scratch (act : List Nat) (rp : Polys) (k : VKey) (p : Pt) (e : CEntry) (h : e.scratch act rp) :
    (eGen act rp k p e).scratch act rp := by
  unfold eGen
  split
  · intro o; simp [List.mem_filter]
  · exact h

theorem ePass3_scratch (act : List Nat) (rp : Polys) (e : CEntry) (a : Action) (h : e.scratch act rp) :
    (ePass3 act rp e a).scratch act rp := by
  unfold ePass3
  split
  · have : ∀ (l : List (End × AdaptaVerif.Model.ActionQueue.CEnd)) (e : CEntry), e.scratch act rp →
        (l.foldl (fun e u => eGen act rp (VKey.ofEnd a.id u.1) ⟨u.2.x, u.2.y⟩ e) e).scratch act rp := by
      intro l; induction l with
      | nil => intro e h; exact h
      | cons u l ih => intro e h; exact ih _ (eGen_scratch act rp _ _ e h)
    exact this _ _ h
  · exact h

theorem fold3_scratch (act : List Nat) (rp : Polys) (acts : List Action) : ∀ (e : CEntry), e.scratch act rp →
    (acts.foldl (ePass3 act rp) e).scratch act rp := by
  induction acts with
  | nil => intro e h; exact h
  | cons a l ih => intro e h; exact ih _ (ePass3_scratch act rp e a h)

end AdaptaVerif.Lemmas.RerouteContains
