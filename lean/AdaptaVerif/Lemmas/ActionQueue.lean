import AdaptaVerif.Spec.Scene
namespace AdaptaVerif.Lemmas.ActionQueue
open AdaptaVerif.Model.ActionQueue AdaptaVerif.Spec.Scene

/-! ### generic list facts -/

theorem updFirst_eq_map {α} (p : α → Bool) (f : α → α) (l : List α)
    (h : l.Pairwise fun a b => ¬(p a = true ∧ p b = true)) :
    updFirst p f l = l.map fun a => if p a then f a else a := by
  induction l with
  | nil => rfl
  | cons a l ih =>
    rw [List.pairwise_cons] at h
    simp only [updFirst, List.map_cons]
    by_cases hp : p a = true
    · simp only [hp, if_true, List.cons.injEq, true_and]
      symm
      calc l.map (fun a => if p a then f a else a) = l.map id := by
            apply List.map_congr_left
            intro b hb
            have := h.1 b hb
            simp only [hp, true_and] at this
            simp [this]
        _ = l := by simp
    · simp only [hp, Bool.false_eq_true, if_false, ih h.2]

theorem eraseFirst_eq_filter {α} (p : α → Bool) (l : List α)
    (h : l.Pairwise fun a b => ¬(p a = true ∧ p b = true)) :
    eraseFirst p l = l.filter fun a => !p a := by
  induction l with
  | nil => rfl
  | cons a l ih =>
    rw [List.pairwise_cons] at h
    simp only [eraseFirst]
    by_cases hp : p a = true
    · simp only [hp, if_true, List.filter_cons, Bool.not_true, Bool.false_eq_true, if_false]
      symm
      apply List.filter_eq_self.2
      intro b hb
      have := h.1 b hb
      simp only [hp, true_and] at this
      simp [this]
    · simp only [hp, Bool.false_eq_true, if_false, List.filter_cons, Bool.not_false, if_true, ih h.2]

theorem uniq_of_pairwise {α} {R : α → α → Prop} {l : List α} (h : l.Pairwise R) {a b : α}
    (ha : a ∈ l) (hb : b ∈ l) (hab : ¬R a b) (hba : ¬R b a) : a = b := by
  induction l with
  | nil => cases ha
  | cons c l ih =>
    rw [List.pairwise_cons] at h
    rcases List.mem_cons.1 ha with rfl | ha'
    · rcases List.mem_cons.1 hb with rfl | hb'
      · rfl
      · exact absurd (h.1 b hb') hab
    · rcases List.mem_cons.1 hb with rfl | hb'
      · exact absurd (h.1 a ha') hba
      · exact ih h.2 ha' hb'


/-! ### look-ups after scene updates -/

theorem find_map_upd {α} (key : α → Nat) (f : α → α) (hf : ∀ a, key (f a) = key a) (i id : Nat) (l : List α) :
    (l.map fun o => if key o == i then f o else o).find? (fun o => key o == id)
      = if id = i then (l.find? (fun o => key o == id)).map f else l.find? (fun o => key o == id) := by
  induction l with
  | nil => by_cases h : id = i <;> simp [h]
  | cons a l ih =>
    simp only [List.map_cons, List.find?_cons]
    grind

theorem find_filter_ne {α} (key : α → Nat) (i id : Nat) (l : List α) :
    (l.filter fun o => !(key o == i)).find? (fun o => key o == id)
      = if id = i then none else l.find? (fun o => key o == id) := by
  induction l with
  | nil => by_cases h : id = i <;> simp [h]
  | cons a l ih =>
    simp only [List.filter_cons, List.find?_cons]
    grind

theorem findObst_mapObst (sc : Scene) (i id : Nat) (f : Obst → Obst) (hf : ∀ o, (f o).id = o.id) :
    findObst (mapObst sc i f) id = if id = i then (findObst sc id).map f else findObst sc id :=
  find_map_upd Obst.id f hf i id sc.obsts

theorem findObst_eraseObst (sc : Scene) (i id : Nat) :
    findObst (eraseObst sc i) id = if id = i then none else findObst sc id :=
  find_filter_ne Obst.id i id sc.obsts

theorem findConn_mapConn (sc : Scene) (i id : Nat) (f : Conn → Conn) (hf : ∀ c, (f c).id = c.id) :
    findConn (mapConn sc i f) id = if id = i then (findConn sc id).map f else findConn sc id :=
  find_map_upd Conn.id f hf i id sc.conns

/-! ### per-object effect of the three loops of `processActions` -/

/-- effect of the remove/move loop body for action `a` on the look-up of obstacle `id` -/
def f1 (a : Action) (id : Nat) (x : Option Obst) : Option Obst :=
  if a.id = id then
    match a.kind with
    | .remove => none
    | .move => x.map fun o => { o with active := false }
    | _ => x
  else x

/-- effect of the add/move loop body -/
def f2 (a : Action) (id : Nat) (x : Option Obst) : Option Obst :=
  if a.id = id then
    match a.kind with
    | .add => x.map fun o => { o with active := true }
    | .move => x.map fun o => { o with active := true, geom := a.geom }
    | _ => x
  else x

/-- effect of the ConnChange loop body on connector `c` -/
def g3 (a : Action) (c : Nat) (x : Option Conn) : Option Conn :=
  if a.kind = .connChange ∧ a.id = c then x.map fun k => k.applyUpdates a.conns else x

theorem findObst_pass1One (sc : Scene) (a : Action) (id : Nat) :
    findObst (pass1One sc a) id = f1 a id (findObst sc id) := by
  unfold pass1One f1
  cases h : a.kind <;> simp only []
  · have := findObst_mapObst sc a.id id (fun o => { o with active := false }) (fun _ => rfl)
    grind
  · grind
  · have := findObst_eraseObst sc a.id id
    grind
  · grind

theorem findObst_pass2One (sc : Scene) (a : Action) (id : Nat) :
    findObst (pass2One sc a) id = f2 a id (findObst sc id) := by
  unfold pass2One f2
  cases h : a.kind <;> simp only []
  · have := findObst_mapObst sc a.id id (fun o => { o with active := true, geom := a.geom }) (fun _ => rfl)
    grind
  · have := findObst_mapObst sc a.id id (fun o => { o with active := true }) (fun _ => rfl)
    grind
  · grind
  · grind

theorem conns_pass1One (sc : Scene) (a : Action) : (pass1One sc a).conns = sc.conns := by
  unfold pass1One; cases a.kind <;> rfl

theorem conns_pass2One (sc : Scene) (a : Action) : (pass2One sc a).conns = sc.conns := by
  unfold pass2One; cases a.kind <;> rfl

theorem Conn.setEnd_id (c : Conn) (e : End) (p : CEnd) : (c.setEnd e p).id = c.id := by
  cases e <;> rfl

theorem pass3_fold_obsts (us : List (End × CEnd)) (i : Nat) (sc : Scene) :
    (us.foldl (fun sc u => mapConn sc i fun c => c.setEnd u.1 u.2) sc).obsts = sc.obsts := by
  induction us generalizing sc with
  | nil => rfl
  | cons u us ih => simp only [List.foldl_cons, ih]; rfl

theorem obsts_pass3One (sc : Scene) (a : Action) : (pass3One sc a).obsts = sc.obsts := by
  unfold pass3One; cases a.kind <;> first | rfl | exact pass3_fold_obsts _ _ _

theorem pass3_fold_find (us : List (End × CEnd)) (i c : Nat) (sc : Scene) :
    findConn (us.foldl (fun sc u => mapConn sc i fun k => k.setEnd u.1 u.2) sc) c
      = if c = i then (findConn sc c).map fun k => k.applyUpdates us else findConn sc c := by
  induction us generalizing sc with
  | nil => by_cases h : c = i <;> simp [h, Conn.applyUpdates]
  | cons u us ih =>
    simp only [List.foldl_cons, ih, findConn_mapConn _ _ _ _ (fun k => Conn.setEnd_id k _ _)]
    by_cases h : c = i
    · simp only [h, if_true, Option.map_map]; rfl
    · simp only [h, if_false]

theorem findConn_pass3One (sc : Scene) (a : Action) (c : Nat) :
    findConn (pass3One sc a) c = g3 a c (findConn sc c) := by
  unfold pass3One g3
  cases h : a.kind <;> simp only [pass3_fold_find] <;> grind

theorem findObst_congr {sc sc' : Scene} (h : sc.obsts = sc'.obsts) (id : Nat) : findObst sc id = findObst sc' id := by
  unfold findObst; rw [h]

theorem findConn_congr {sc sc' : Scene} (h : sc.conns = sc'.conns) (id : Nat) : findConn sc id = findConn sc' id := by
  unfold findConn; rw [h]

theorem findObst_fold1 (l : List Action) (sc : Scene) (id : Nat) :
    findObst (l.foldl pass1One sc) id = l.foldl (fun x a => f1 a id x) (findObst sc id) := by
  induction l generalizing sc with
  | nil => rfl
  | cons a l ih => simp only [List.foldl_cons, ih, findObst_pass1One]

theorem findObst_fold2 (l : List Action) (sc : Scene) (id : Nat) :
    findObst (l.foldl pass2One sc) id = l.foldl (fun x a => f2 a id x) (findObst sc id) := by
  induction l generalizing sc with
  | nil => rfl
  | cons a l ih => simp only [List.foldl_cons, ih, findObst_pass2One]

theorem findObst_fold3 (l : List Action) (sc : Scene) (id : Nat) :
    findObst (l.foldl pass3One sc) id = findObst sc id := by
  induction l generalizing sc with
  | nil => rfl
  | cons a l ih => simp only [List.foldl_cons, ih]; exact findObst_congr (obsts_pass3One _ _) _

theorem findConn_fold1 (l : List Action) (sc : Scene) (c : Nat) :
    findConn (l.foldl pass1One sc) c = findConn sc c := by
  induction l generalizing sc with
  | nil => rfl
  | cons a l ih => simp only [List.foldl_cons, ih]; exact findConn_congr (conns_pass1One _ _) _

theorem findConn_fold2 (l : List Action) (sc : Scene) (c : Nat) :
    findConn (l.foldl pass2One sc) c = findConn sc c := by
  induction l generalizing sc with
  | nil => rfl
  | cons a l ih => simp only [List.foldl_cons, ih]; exact findConn_congr (conns_pass2One _ _) _

theorem findConn_fold3 (l : List Action) (sc : Scene) (c : Nat) :
    findConn (l.foldl pass3One sc) c = l.foldl (fun x a => g3 a c x) (findConn sc c) := by
  induction l generalizing sc with
  | nil => rfl
  | cons a l ih => simp only [List.foldl_cons, ih, findConn_pass3One]

/-- a fold of per-object effects over actions none of which concerns the object is the identity -/
theorem fold_noop {β} (F : Action → β → β) (l : List Action) (x : β)
    (h : ∀ a ∈ l, ∀ y, F a y = y) : l.foldl (fun y a => F a y) x = x := by
  induction l generalizing x with
  | nil => rfl
  | cons a l ih =>
    simp only [List.foldl_cons]
    rw [h a (List.mem_cons_self ..)]
    exact ih x fun b hb => h b (List.mem_cons_of_mem _ hb)

theorem fold_single {β} (F : Action → β → β) (l1 l2 : List Action) (a : Action) (x : β)
    (h1 : ∀ b ∈ l1, ∀ y, F b y = y) (h2 : ∀ b ∈ l2, ∀ y, F b y = y) :
    (l1 ++ a :: l2).foldl (fun y b => F b y) x = F a x := by
  rw [List.foldl_append, List.foldl_cons, fold_noop F l1 x h1, fold_noop F l2 _ h2]

end AdaptaVerif.Lemmas.ActionQueue
