/-
Structural lemmas about the pointer-level model of libavoid's hyperedge tree (`Model/HyperTree`):
the well-formedness invariant `WF` (both directions of the doubly linked structure agree), closed
forms of the rewrites (`contract`, one iteration of `mergeCommon`, `splitFromNodeAtPoint`, leaf
removal) and the fact that they keep `WF` and the tree property of the abstract multigraph.
-/
import AdaptaVerif.Model.HyperTree
import AdaptaVerif.Lemmas.HyperTreeGraph
namespace AdaptaVerif.Lemmas.HyperTree
open AdaptaVerif.Model.HyperTree AdaptaVerif.Check.Tree AdaptaVerif.Spec.Tree AdaptaVerif.Lemmas.HyperTreeGraph

/-- the two directions of the doubly linked structure agree, nothing dangles -/
structure WF (t : HTree) : Prop where
  nodupN : (t.nodes.map (·.id)).Nodup
  nodupE : (t.edges.map (·.id)).Nodup
  ends : ∀ e ∈ t.edges, ∃ a b, e.e1 = some a ∧ e.e2 = some b ∧ a ∈ t.graphV ∧ b ∈ t.graphV
  nodupL : ∀ n ∈ t.nodes, n.edges.Nodup
  inc : ∀ n ∈ t.nodes, ∀ i, i ∈ n.edges ↔ ∃ e ∈ t.edges, e.id = i ∧ (e.e1 = some n.id ∨ e.e2 = some n.id)
  fresh : (∀ n ∈ t.nodes, n.id < t.next) ∧ (∀ e ∈ t.edges, e.id < t.next)

/-- well-formed heap whose abstract multigraph is a tree -/
def Tree (t : HTree) : Prop := WF t ∧ IsTree t.graphV t.graphE

/-- `e` joins `a` and `b` (either orientation) -/
def Joins (e : HEdge) (a b : Nat) : Prop :=
  (e.e1 = some a ∧ e.e2 = some b) ∨ (e.e1 = some b ∧ e.e2 = some a)

/-! ## generic list helpers -/

theorem find?_map_keep {α : Type} (key : α → Nat) (g : α → α) (hg : ∀ x, key (g x) = key x)
    (l : List α) (i : Nat) :
    (l.map g).find? (fun x => key x == i) = (l.find? (fun x => key x == i)).map g := by
  induction l with
  | nil => rfl
  | cons a l ih =>
    simp only [List.map_cons, List.find?_cons, hg]
    cases h : key a == i <;> simp [ih]

theorem find?_of_nodup {α : Type} (key : α → Nat) {l : List α} (hnd : (l.map key).Nodup)
    {x : α} (hx : x ∈ l) : l.find? (fun y => key y == key x) = some x := by
  induction l with
  | nil => cases hx
  | cons a l ih =>
    simp only [List.map_cons, List.nodup_cons, List.mem_map, not_exists, not_and] at hnd
    rcases List.mem_cons.mp hx with rfl | hx'
    · simp
    · have : key a ≠ key x := fun h => hnd.1 x hx' h.symm
      simp [this, ih hnd.2 hx']

theorem eq_of_nodup_key {α : Type} (key : α → Nat) {l : List α} (hnd : (l.map key).Nodup)
    {x y : α} (hx : x ∈ l) (hy : y ∈ l) (h : key x = key y) : x = y := by
  have h1 := find?_of_nodup key hnd hx
  have h2 := find?_of_nodup key hnd hy
  rw [h] at h1
  exact Option.some.inj (h1.symm.trans h2)

theorem filterMap_congr' {α β : Type} {f g : α → Option β} {l : List α}
    (h : ∀ x ∈ l, f x = g x) : l.filterMap f = l.filterMap g := by
  induction l with
  | nil => rfl
  | cons a l ih =>
    simp only [List.filterMap_cons, h a List.mem_cons_self]
    rw [ih (fun x hx => h x (List.mem_cons_of_mem _ hx))]

theorem mem_of_find? {α : Type} {p : α → Bool} {l : List α} {x : α} (h : l.find? p = some x) :
    x ∈ l ∧ p x = true := ⟨List.mem_of_find?_eq_some h, List.find?_some h⟩

/-! ## G1: field updates -/

/-- `WF` only reads ids, incidence lists, end pointers and the allocation counter -/
theorem WF_congr {t t' : HTree}
    (hn : t'.nodes.map (fun n => (n.id, n.edges)) = t.nodes.map (fun n => (n.id, n.edges)))
    (he : t'.edges.map (fun e => (e.id, e.e1, e.e2)) = t.edges.map (fun e => (e.id, e.e1, e.e2)))
    (hx : t'.next = t.next) (h : WF t) : WF t' := by
  have hnid : t'.nodes.map (·.id) = t.nodes.map (·.id) := by
    have := congrArg (List.map Prod.fst) hn
    simpa [List.map_map, Function.comp_def] using this
  have heid : t'.edges.map (·.id) = t.edges.map (·.id) := by
    have := congrArg (List.map Prod.fst) he
    simpa [List.map_map, Function.comp_def] using this
  have hV : t'.graphV = t.graphV := hnid
  have nodeOf : ∀ n' ∈ t'.nodes, ∃ n ∈ t.nodes, n.id = n'.id ∧ n.edges = n'.edges := by
    intro n' hn'
    have : (n'.id, n'.edges) ∈ t.nodes.map (fun n => (n.id, n.edges)) := by
      rw [← hn]; exact List.mem_map.mpr ⟨n', hn', rfl⟩
    obtain ⟨n, hm, hq⟩ := List.mem_map.mp this
    simp only [Prod.mk.injEq] at hq
    exact ⟨n, hm, hq.1, hq.2⟩
  have edgeOf : ∀ e' ∈ t'.edges, ∃ e ∈ t.edges, e.id = e'.id ∧ e.e1 = e'.e1 ∧ e.e2 = e'.e2 := by
    intro e' he'
    have : (e'.id, e'.e1, e'.e2) ∈ t.edges.map (fun e => (e.id, e.e1, e.e2)) := by
      rw [← he]; exact List.mem_map.mpr ⟨e', he', rfl⟩
    obtain ⟨e, hm, hq⟩ := List.mem_map.mp this
    simp only [Prod.mk.injEq] at hq
    exact ⟨e, hm, hq.1, hq.2.1, hq.2.2⟩
  have edgeOf' : ∀ e ∈ t.edges, ∃ e' ∈ t'.edges, e.id = e'.id ∧ e.e1 = e'.e1 ∧ e.e2 = e'.e2 := by
    intro e he'
    have : (e.id, e.e1, e.e2) ∈ t'.edges.map (fun e => (e.id, e.e1, e.e2)) := by
      rw [he]; exact List.mem_map.mpr ⟨e, he', rfl⟩
    obtain ⟨e', hm, hq⟩ := List.mem_map.mp this
    simp only [Prod.mk.injEq] at hq
    exact ⟨e', hm, hq.1.symm, hq.2.1.symm, hq.2.2.symm⟩
  refine ⟨hnid ▸ h.nodupN, heid ▸ h.nodupE, ?_, ?_, ?_, ?_, ?_⟩
  · intro e' he'
    obtain ⟨e, hm, _, h1, h2⟩ := edgeOf e' he'
    obtain ⟨a, b, ha, hb, hav, hbv⟩ := h.ends e hm
    exact ⟨a, b, h1 ▸ ha, h2 ▸ hb, hV ▸ hav, hV ▸ hbv⟩
  · intro n' hn'
    obtain ⟨n, hm, _, h2⟩ := nodeOf n' hn'
    exact h2 ▸ h.nodupL n hm
  · intro n' hn' i
    obtain ⟨n, hm, h1, h2⟩ := nodeOf n' hn'
    rw [← h2, ← h1, h.inc n hm i]
    constructor
    · rintro ⟨e, hem, hid, hor⟩
      obtain ⟨e', hm', q0, q1, q2⟩ := edgeOf' e hem
      exact ⟨e', hm', q0 ▸ hid, q1 ▸ q2 ▸ hor⟩
    · rintro ⟨e', hem, hid, hor⟩
      obtain ⟨e, hm', q0, q1, q2⟩ := edgeOf e' hem
      exact ⟨e, hm', q0 ▸ hid, q1 ▸ q2 ▸ hor⟩
  · intro n' hn'
    obtain ⟨n, hm, h1, _⟩ := nodeOf n' hn'
    rw [hx, ← h1]; exact h.fresh.1 n hm
  · intro e' he'
    obtain ⟨e, hm, h1, _⟩ := edgeOf e' he'
    rw [hx, ← h1]; exact h.fresh.2 e hm

theorem WF_congr_iff {t t' : HTree}
    (hn : t'.nodes.map (fun n => (n.id, n.edges)) = t.nodes.map (fun n => (n.id, n.edges)))
    (he : t'.edges.map (fun e => (e.id, e.e1, e.e2)) = t.edges.map (fun e => (e.id, e.e1, e.e2)))
    (hx : t'.next = t.next) : WF t' ↔ WF t :=
  ⟨WF_congr hn.symm he.symm hx.symm, WF_congr hn he hx⟩

section G1
variable (t : HTree) (i : Nat)

theorem modNode_graphV (f : HNode → HNode) (hid : ∀ n, (f n).id = n.id) :
    (t.modNode i f).graphV = t.graphV := by
  simp only [HTree.graphV, HTree.modNode, List.map_map]
  apply List.map_congr_left
  intro n _
  simp only [Function.comp]
  split <;> simp [hid]

theorem modNode_graphE (f : HNode → HNode) : (t.modNode i f).graphE = t.graphE := rfl

theorem modNode_edges (f : HNode → HNode) : (t.modNode i f).edges = t.edges := rfl
theorem modNode_next (f : HNode → HNode) : (t.modNode i f).next = t.next := rfl
theorem modEdge_nodes (f : HEdge → HEdge) : (t.modEdge i f).nodes = t.nodes := rfl
theorem modEdge_next (f : HEdge → HEdge) : (t.modEdge i f).next = t.next := rfl

theorem modNode_WF_iff (f : HNode → HNode) (hid : ∀ n, (f n).id = n.id)
    (hed : ∀ n, (f n).edges = n.edges) : WF (t.modNode i f) ↔ WF t := by
  refine WF_congr_iff (t := t) (t' := t.modNode i f) ?_ rfl rfl
  simp only [HTree.modNode, List.map_map]
  apply List.map_congr_left
  intro n _
  simp only [Function.comp]
  split <;> simp [hid, hed]

theorem modNode_WF (f : HNode → HNode) (hid : ∀ n, (f n).id = n.id)
    (hed : ∀ n, (f n).edges = n.edges) (h : WF t) : WF (t.modNode i f) :=
  (modNode_WF_iff t i f hid hed).mpr h

theorem modEdge_graphV (f : HEdge → HEdge) : (t.modEdge i f).graphV = t.graphV := rfl

theorem modEdge_graphE (f : HEdge → HEdge) (h1 : ∀ e, (f e).e1 = e.e1) (h2 : ∀ e, (f e).e2 = e.e2) :
    (t.modEdge i f).graphE = t.graphE := by
  simp only [HTree.graphE, HTree.modEdge, List.filterMap_map]
  apply filterMap_congr'
  intro e _
  simp only [Function.comp]
  split <;> simp [HEdge.ends?, h1, h2]

theorem modEdge_WF_iff (f : HEdge → HEdge) (hid : ∀ e, (f e).id = e.id)
    (h1 : ∀ e, (f e).e1 = e.e1) (h2 : ∀ e, (f e).e2 = e.e2) : WF (t.modEdge i f) ↔ WF t := by
  refine WF_congr_iff (t := t) (t' := t.modEdge i f) rfl ?_ rfl
  simp only [HTree.modEdge, List.map_map]
  apply List.map_congr_left
  intro e _
  simp only [Function.comp]
  split <;> simp [hid, h1, h2]

theorem modEdge_WF (f : HEdge → HEdge) (hid : ∀ e, (f e).id = e.id)
    (h1 : ∀ e, (f e).e1 = e.e1) (h2 : ∀ e, (f e).e2 = e.e2) (h : WF t) : WF (t.modEdge i f) :=
  (modEdge_WF_iff t i f hid h1 h2).mpr h

theorem modNode_Tree (f : HNode → HNode) (hid : ∀ n, (f n).id = n.id)
    (hed : ∀ n, (f n).edges = n.edges) (h : Tree t) : Tree (t.modNode i f) :=
  ⟨modNode_WF t i f hid hed h.1, by rw [modNode_graphV t i f hid, modNode_graphE]; exact h.2⟩

theorem modEdge_Tree (f : HEdge → HEdge) (hid : ∀ e, (f e).id = e.id)
    (h1 : ∀ e, (f e).e1 = e.e1) (h2 : ∀ e, (f e).e2 = e.e2) (h : Tree t) : Tree (t.modEdge i f) :=
  ⟨modEdge_WF t i f hid h1 h2 h.1, by rw [modEdge_graphV, modEdge_graphE t i f h1 h2]; exact h.2⟩

end G1

/-! ## G2: closed forms of the primitives -/

/-- `replaceNode`'s effect on the edge record: the FIRST matching end is redirected -/
def redir (old new : Nat) (x : HEdge) : HEdge :=
  if x.e1 = some old then { x with e1 := some new }
  else if x.e2 = some old then { x with e2 := some new } else x

/-- `disconnectEdge` on a node record -/
def rmE (i : Nat) (n : HNode) : HNode := { n with edges := n.edges.filter (fun j => j != i) }

/-- `disconnectEdge` on an edge record -/
def nullE (x : HEdge) : HEdge := { x with e1 := none, e2 := none }

@[simp] theorem redir_id (o n : Nat) (x : HEdge) : (redir o n x).id = x.id := by
  unfold redir; split
  · rfl
  · split <;> rfl
@[simp] theorem rmE_id (i : Nat) (n : HNode) : (rmE i n).id = n.id := rfl
@[simp] theorem rmE_edges (i : Nat) (n : HNode) : (rmE i n).edges = n.edges.filter (fun j => j != i) := rfl
@[simp] theorem nullE_id (x : HEdge) : (nullE x).id = x.id := rfl

theorem node?_of_mem {t : HTree} (h : (t.nodes.map (·.id)).Nodup) {n : HNode} (hn : n ∈ t.nodes) :
    t.node? n.id = some n := find?_of_nodup (fun n : HNode => n.id) h hn

theorem edge?_of_mem {t : HTree} (h : (t.edges.map (·.id)).Nodup) {e : HEdge} (he : e ∈ t.edges) :
    t.edge? e.id = some e := find?_of_nodup (fun n : HEdge => n.id) h he

theorem node?_mem {t : HTree} {i : Nat} {n : HNode} (h : t.node? i = some n) : n ∈ t.nodes ∧ n.id = i := by
  have := mem_of_find? h
  exact ⟨this.1, by simpa using this.2⟩

theorem edge?_mem {t : HTree} {i : Nat} {e : HEdge} (h : t.edge? i = some e) : e ∈ t.edges ∧ e.id = i := by
  have := mem_of_find? h
  exact ⟨this.1, by simpa using this.2⟩

theorem HTree.ext' {a b : HTree} (h1 : a.nodes = b.nodes) (h2 : a.edges = b.edges)
    (h3 : a.next = b.next) (h4 : a.fixedConns = b.fixedConns) : a = b := by
  cases a; cases b; simp_all

theorem replaceNode_closed {t : HTree} (hE : (t.edges.map (·.id)).Nodup) {ed : HEdge}
    (hed : ed ∈ t.edges) {old new : Nat} (hon : old ≠ new)
    (hend : ed.e1 = some old ∨ ed.e2 = some old) :
    replaceNode t ed.id old new =
      { t with nodes := t.nodes.map (fun n => if n.id == old then rmE ed.id n
                          else if n.id == new then { n with edges := n.edges ++ [ed.id] } else n),
               edges := t.edges.map (fun x => if x.id == ed.id then redir old new x else x) } := by
  have hnodes : ∀ f : HEdge → HEdge,
      ((nodePush (nodeDisconnect t old ed.id) new ed.id).modEdge ed.id f).nodes =
        t.nodes.map (fun n => if n.id == old then rmE ed.id n
                          else if n.id == new then { n with edges := n.edges ++ [ed.id] } else n) := by
    intro f
    simp only [HTree.modEdge, nodePush, nodeDisconnect, HTree.modNode, List.map_map]
    apply List.map_congr_left
    intro n _
    simp only [Function.comp]
    by_cases h1 : n.id = old
    · have h2 : n.id ≠ new := h1 ▸ hon
      simp [h1, hon, rmE]
    · simp [h1]
  have hedges : ∀ f : HEdge → HEdge, (∀ x ∈ t.edges, x.id = ed.id → f x = redir old new x) →
      ((nodePush (nodeDisconnect t old ed.id) new ed.id).modEdge ed.id f).edges =
        t.edges.map (fun x => if x.id == ed.id then redir old new x else x) := by
    intro f hf
    simp only [HTree.modEdge, nodePush, nodeDisconnect, HTree.modNode]
    apply List.map_congr_left
    intro x hx
    by_cases h : x.id = ed.id
    · simp [h, hf x hx h]
    · simp [h]
  have hsame : ∀ x ∈ t.edges, x.id = ed.id → x = ed := fun x hx h => eq_of_nodup_key (·.id) hE hx hed h
  unfold replaceNode
  rw [edge?_of_mem hE hed]
  simp only
  split
  · next h1 =>
    exact HTree.ext' (hnodes _) (hedges (fun x => { x with e1 := some new }) (by
      intro x hx h; rw [hsame x hx h]; simp [redir, h1])) rfl rfl
  · next h1 =>
    have h2 : ed.e2 = some old := by cases hend with
      | inl h => exact absurd h h1
      | inr h => exact h
    rw [if_pos h2]
    exact HTree.ext' (hnodes _) (hedges (fun x => { x with e2 := some new }) (by
      intro x hx h; rw [hsame x hx h]; simp [redir, h1, h2])) rfl rfl

theorem HNode.eta_edges (n : HNode) : { n with edges := n.edges } = n := rfl

/-- closed form of the loop of `spliceEdgesFrom` -/
theorem spliceLoop_closed {self old : Nat} (hso : old ≠ self) :
    ∀ (l : List Nat) (fuel : Nat) (t : HTree) (o : HNode),
      (t.nodes.map (·.id)).Nodup → (t.edges.map (·.id)).Nodup →
      t.node? old = some o → o.edges = l → l.Nodup →
      (∀ i ∈ l, ∃ ed ∈ t.edges, ed.id = i ∧ (ed.e1 = some old ∨ ed.e2 = some old)) →
      l.length < fuel →
      spliceLoop fuel t self old = some
        { t with nodes := t.nodes.map (fun n => if n.id == old then { n with edges := [] }
                            else if n.id == self then { n with edges := n.edges ++ l } else n),
                 edges := t.edges.map (fun x => if l.contains x.id then redir old self x else x) } := by
  intro l
  induction l with
  | nil =>
    intro fuel t o hN _ ho hl _ _ hf
    obtain ⟨fuel, rfl⟩ : ∃ f, fuel = f + 1 := ⟨fuel - 1, by simp at hf; omega⟩
    simp only [spliceLoop, ho, hl]
    congr 1
    refine HTree.ext' ?_ ?_ rfl rfl
    · symm
      simp only
      conv => rhs; rw [← List.map_id t.nodes]
      apply List.map_congr_left
      intro n hn
      by_cases h1 : n.id = old
      · have : n = o := by
          have := node?_of_mem hN hn
          rw [h1, ho] at this
          exact (Option.some.inj this).symm
        subst this
        have : ({ n with edges := [] } : HNode) = n := by cases n; simp_all
        rw [if_pos (by simp [h1])]; exact this
      · simp [h1]
    · simp
  | cons e' tl ih =>
    intro fuel t o hN hE ho hl hnd hinc hf
    obtain ⟨fuel, rfl⟩ : ∃ f, fuel = f + 1 := ⟨fuel - 1, by simp at hf; omega⟩
    simp only [spliceLoop, ho, hl]
    obtain ⟨ed, hed, hid, hend⟩ := hinc e' List.mem_cons_self
    subst hid
    have hnotin : ed.id ∉ tl := (List.nodup_cons.mp hnd).1
    rw [replaceNode_closed hE hed hso hend]
    have hoid : o.id = old := (node?_mem ho).2
    rw [ih fuel _ (rmE ed.id o)]
    · congr 1
      refine HTree.ext' ?_ ?_ rfl rfl
      · simp only [List.map_map]
        apply List.map_congr_left
        intro n _
        simp only [Function.comp]
        by_cases h1 : n.id = old
        · simp [h1, rmE]
        · by_cases h2 : n.id = self
          · have hso' : self ≠ old := Ne.symm hso
            simp [h2, hso']
          · simp [h1, h2]
      · simp only [List.map_map]
        apply List.map_congr_left
        intro x _
        simp only [Function.comp]
        by_cases h1 : x.id = ed.id
        · simp [h1, hnotin]
        · simp [h1]
    · simpa [List.map_map, Function.comp_def, apply_ite HNode.id] using hN
    · simpa [List.map_map, Function.comp_def, apply_ite HEdge.id] using hE
    · simp only [HTree.node?]
      rw [find?_map_keep (fun n : HNode => n.id)]
      · have : t.nodes.find? (fun n => n.id == old) = some o := ho
        rw [this]; simp [hoid]
      · intro x; split
        · rfl
        · split <;> rfl
    · simp [rmE, hl]
      intro a ha h; exact hnotin (h ▸ ha)
    · exact (List.nodup_cons.mp hnd).2
    · intro i hi
      obtain ⟨ed', hed', hid', hend'⟩ := hinc i (List.mem_cons_of_mem _ hi)
      refine ⟨ed', ?_, hid', hend'⟩
      have : ed'.id ≠ ed.id := fun h => hnotin (h ▸ hid' ▸ hi)
      exact List.mem_map.mpr ⟨ed', hed', by simp [this]⟩
    · simp at hf ⊢; omega

theorem filter_map_eq {α β : Type} {f g : α → β} {p : β → Bool} {q : α → Bool} {l : List α}
    (hp : ∀ x ∈ l, p (f x) = q x) (hg : ∀ x ∈ l, q x = true → f x = g x) :
    (l.map f).filter p = (l.filter q).map g := by
  induction l with
  | nil => rfl
  | cons a l ih =>
    have ih' := ih (fun x hx => hp x (List.mem_cons_of_mem _ hx))
      (fun x hx => hg x (List.mem_cons_of_mem _ hx))
    simp only [List.map_cons, List.filter_cons, hp a List.mem_cons_self]
    cases hq : q a
    · simpa using ih'
    · simp [ih', hg a List.mem_cons_self hq]

namespace WF
variable {t : HTree} (h : WF t)
include h

theorem mem_edges_iff {n : HNode} (hn : n ∈ t.nodes) {ed : HEdge} (hed : ed ∈ t.edges) :
    ed.id ∈ n.edges ↔ (ed.e1 = some n.id ∨ ed.e2 = some n.id) := by
  rw [h.inc n hn]
  constructor
  · rintro ⟨e', he', hid, hor⟩
    rw [← eq_of_nodup_key (fun e : HEdge => e.id) h.nodupE he' hed hid]; exact hor
  · intro hor; exact ⟨ed, hed, rfl, hor⟩

omit h in
theorem node_of_mem_graphV {a : Nat} (ha : a ∈ t.graphV) : ∃ n ∈ t.nodes, n.id = a := by
  simpa [HTree.graphV] using ha

theorem node_eq {n m : HNode} (hn : n ∈ t.nodes) (hm : m ∈ t.nodes) (hid : n.id = m.id) : n = m :=
  eq_of_nodup_key (fun n : HNode => n.id) h.nodupN hn hm hid

theorem edge_eq {n m : HEdge} (hn : n ∈ t.edges) (hm : m ∈ t.edges) (hid : n.id = m.id) : n = m :=
  eq_of_nodup_key (fun n : HEdge => n.id) h.nodupE hn hm hid

end WF

theorem rmE_rmE (i : Nat) (n : HNode) : rmE i (rmE i n) = rmE i n := by
  simp [rmE, List.filter_filter]

theorem rmE_of_not_mem {i : Nat} {n : HNode} (hi : i ∉ n.edges) : rmE i n = n := by
  have : n.edges.filter (fun j => j != i) = n.edges :=
    List.filter_eq_self.mpr (fun a ha => by simpa using fun (h' : a = i) => hi (h' ▸ ha))
  cases n; simp_all [rmE]

/-- closed form of `HyperedgeTreeEdge::disconnectEdge()` on a well-formed heap -/
theorem edgeDisconnect_closed {t : HTree} (h : WF t) {ed : HEdge} (hed : ed ∈ t.edges) :
    edgeDisconnect t ed.id = some
      { t with nodes := t.nodes.map (rmE ed.id),
               edges := t.edges.map (fun x => if x.id == ed.id then nullE x else x) } := by
  obtain ⟨a, b, ha, hb, _, _⟩ := h.ends ed hed
  unfold edgeDisconnect
  rw [edge?_of_mem h.nodupE hed]
  simp only [ha, hb]
  congr 1
  refine HTree.ext' ?_ rfl rfl rfl
  simp only [HTree.modEdge, nodeDisconnect, HTree.modNode, List.map_map]
  apply List.map_congr_left
  intro n hn
  simp only [Function.comp]
  have hiff := h.mem_edges_iff hn hed
  rw [ha, hb] at hiff
  show (if (if n.id == a then rmE ed.id n else n).id == b
          then rmE ed.id (if n.id == a then rmE ed.id n else n)
          else (if n.id == a then rmE ed.id n else n)) = rmE ed.id n
  cases ha' : (n.id == a) <;> cases hb' : (n.id == b) <;>
    simp only [hb', rmE_id, rmE_rmE, if_true, if_false, Bool.false_eq_true]
  have : ed.id ∉ n.edges := by
    rw [hiff]
    simp only [beq_eq_false_iff_ne, ne_eq] at ha' hb'
    simp only [Option.some.injEq, not_or]
    exact ⟨fun h => ha' h.symm, fun h => hb' h.symm⟩
  exact (rmE_of_not_mem this).symm

/-- node record after the splice loop -/
def spN (old self : Nat) (l : List Nat) (n : HNode) : HNode :=
  if n.id == old then { n with edges := [] }
  else if n.id == self then { n with edges := n.edges ++ l } else n

/-- edge record after the splice loop -/
def spE (old self : Nat) (l : List Nat) (x : HEdge) : HEdge :=
  if l.contains x.id then redir old self x else x

/-- closed form of `spliceEdgesFrom` -/
theorem spliceEdgesFrom_closed {t : HTree} {self old : Nat} (hso : old ≠ self) {o : HNode}
    (hN : (t.nodes.map (·.id)).Nodup) (hE : (t.edges.map (·.id)).Nodup)
    (ho : t.node? old = some o) (hnd : o.edges.Nodup)
    (hinc : ∀ i ∈ o.edges, ∃ ed ∈ t.edges, ed.id = i ∧ (ed.e1 = some old ∨ ed.e2 = some old)) :
    spliceEdgesFrom t self old = some
      { t with nodes := t.nodes.map (spN old self o.edges),
               edges := t.edges.map (spE old self o.edges) } := by
  unfold spliceEdgesFrom
  rw [if_neg hso, ho]
  exact spliceLoop_closed hso o.edges _ t o hN hE ho rfl hnd hinc (Nat.lt_succ_self _)

/-- the heap after identifying `src` with `tg` and dropping the edge `e`; `sl` is what is appended
    to `tg`'s list (`src`'s old list without `e`) -/
def identified (t : HTree) (e tg src : Nat) (sl : List Nat) : HTree :=
  { t with nodes := (t.nodes.filter (fun n => n.id != src)).map
                      (fun n => if n.id == tg then { n with edges := n.edges.filter (fun j => j != e) ++ sl }
                                else rmE e n),
           edges := (t.edges.filter (fun x => x.id != e)).map (redir src tg) }

theorem redir_of_no_end {old new : Nat} {x : HEdge} (h1 : x.e1 ≠ some old) (h2 : x.e2 ≠ some old) :
    redir old new x = x := by simp [redir, h1, h2]

/-- the splice step, after `disconnectEdge`, whatever has been done to the record of `e` -/
theorem splice_after_disconnect {t t2 : HTree} (h : WF t) {e : Nat} {so : HNode}
    (hso : so ∈ t.nodes) {tg : Nat} (hne : tg ≠ so.id)
    (hn2 : t2.nodes = t.nodes.map (rmE e)) (hE2 : (t2.edges.map (·.id)).Nodup)
    (hsub : ∀ x ∈ t.edges, x.id ≠ e → x ∈ t2.edges) :
    spliceEdgesFrom t2 tg so.id = some
      { t2 with nodes := (t.nodes.map (rmE e)).map (spN so.id tg (so.edges.filter (fun j => j != e))),
                edges := t2.edges.map (spE so.id tg (so.edges.filter (fun j => j != e))) } := by
  have hN2 : (t2.nodes.map (·.id)).Nodup := by
    rw [hn2]; simpa [List.map_map, Function.comp_def] using h.nodupN
  have ho : t2.node? so.id = some (rmE e so) := by
    simp only [HTree.node?, hn2]
    rw [find?_map_keep (fun n : HNode => n.id) (rmE e) (fun _ => rfl)]
    have := node?_of_mem h.nodupN hso
    simp only [HTree.node?] at this
    rw [this]; rfl
  rw [spliceEdgesFrom_closed (Ne.symm hne) hN2 hE2 ho]
  · rw [hn2]; rfl
  · exact List.Nodup.sublist List.filter_sublist (h.nodupL so hso)
  · intro i hi
    simp only [rmE_edges, List.mem_filter, bne_iff_ne, ne_eq] at hi
    obtain ⟨ed, hed, hid, hor⟩ := (h.inc so hso i).mp hi.1
    exact ⟨ed, hsub ed hed (hid ▸ hi.2), hid, hor⟩

@[simp] theorem spN_id (old self : Nat) (l : List Nat) (n : HNode) : (spN old self l n).id = n.id := by
  unfold spN; split
  · rfl
  · split <;> rfl

@[simp] theorem spE_id (old self : Nat) (l : List Nat) (x : HEdge) : (spE old self l x).id = x.id := by
  unfold spE; split
  · exact redir_id _ _ _
  · rfl

theorem spE_eq_redir {t : HTree} (h : WF t) {so : HNode} (hso : so ∈ t.nodes) {e tg : Nat}
    {x : HEdge} (hx : x ∈ t.edges) (hxe : x.id ≠ e) :
    spE so.id tg (so.edges.filter (fun j => j != e)) x = redir so.id tg x := by
  unfold spE
  split
  · rfl
  · next hc =>
    have hni : x.id ∉ so.edges := by
      intro hm; apply hc
      simp only [List.contains_eq_mem, List.mem_filter, bne_iff_ne, ne_eq, decide_eq_true_eq]
      exact ⟨hm, hxe⟩
    rw [h.mem_edges_iff hso hx, not_or] at hni
    exact (redir_of_no_end hni.1 hni.2).symm

theorem identified_nodes_eq {t : HTree} {e tg src : Nat} (hne : tg ≠ src) (l : List Nat) :
    ((t.nodes.map (rmE e)).map (spN src tg l)).filter (fun n => n.id != src) =
      (identified t e tg src l).nodes := by
  rw [List.map_map]
  apply filter_map_eq
  · intro x _; simp
  · intro x _ hq
    simp only [bne_iff_ne, ne_eq] at hq
    by_cases hh : x.id = tg
    · have : ¬ tg = src := hne
      simp [spN, hh, this, rmE]
    · simp [spN, hq, hh]

/-- one iteration of the loop of `mergeCommon`, with the far end `src` of `e` already looked up -/
def mergeStep (t : HTree) (e tg src : Nat) : Option HTree := do
  let t1 ← edgeDisconnect t e
  let t2 ← spliceEdgesFrom t1 tg src
  pure ((t2.deleteNode src).deleteEdge e)

theorem mergeCommon_cons (self tg e : Nat) (rest : List Nat) (t : HTree) :
    mergeCommon self tg (e :: rest) t =
      (farEnd t e self).bind (fun src => (mergeStep t e tg src).bind (mergeCommon self tg rest)) := by
  simp only [mergeCommon, mergeStep, bind, pure]
  cases farEnd t e self with
  | none => rfl
  | some src =>
    simp only [Option.bind]
    cases edgeDisconnect t e with
    | none => rfl
    | some t1 =>
      simp only
      cases spliceEdgesFrom t1 tg src <;> rfl

/-- `contract` computes the closed form -/
theorem contract_eq {t : HTree} (h : WF t) {ed : HEdge} (hed : ed ∈ t.edges) {so : HNode}
    (hso : so ∈ t.nodes) {tg : Nat} (hne : tg ≠ so.id) :
    contract t ed.id tg so.id =
      some (identified t ed.id tg so.id (so.edges.filter (fun j => j != ed.id))) := by
  have hfil : (t.edges.map (fun x => if x.id == ed.id then nullE x else x)).filter
      (fun x => x.id != ed.id) = t.edges.filter (fun x => x.id != ed.id) := by
    rw [filter_map_eq (g := fun x => x) (q := fun x => x.id != ed.id)]
    · simp
    · intro x _; split <;> simp
    · intro x _ hq
      simp only [bne_iff_ne, ne_eq] at hq
      simp [hq]
  simp only [contract, bind, pure]
  rw [edgeDisconnect_closed h hed]
  simp only [Option.bind, HTree.deleteEdge]
  rw [splice_after_disconnect h hso hne rfl]
  · simp only [HTree.deleteNode]
    congr 1
    refine HTree.ext' (identified_nodes_eq hne _) ?_ rfl rfl
    simp only [identified, hfil]
    apply List.map_congr_left
    intro x hx
    simp only [List.mem_filter, bne_iff_ne, ne_eq] at hx
    exact spE_eq_redir h hso hx.1 hx.2
  · simp only [hfil]
    exact List.Nodup.sublist (List.Sublist.map _ List.filter_sublist) h.nodupE
  · intro x hx hxe
    simp only [hfil, List.mem_filter, bne_iff_ne, ne_eq]
    exact ⟨hx, hxe⟩

/-- one iteration of `mergeCommon` computes the same closed form -/
theorem mergeStep_eq {t : HTree} (h : WF t) {ed : HEdge} (hed : ed ∈ t.edges) {so : HNode}
    (hso : so ∈ t.nodes) {tg : Nat} (hne : tg ≠ so.id) :
    mergeStep t ed.id tg so.id =
      some (identified t ed.id tg so.id (so.edges.filter (fun j => j != ed.id))) := by
  simp only [mergeStep, bind, pure]
  rw [edgeDisconnect_closed h hed]
  simp only [Option.bind]
  rw [splice_after_disconnect h hso hne rfl]
  · simp only [HTree.deleteNode, HTree.deleteEdge]
    congr 1
    refine HTree.ext' (identified_nodes_eq hne _) ?_ rfl rfl
    simp only [identified, List.map_map]
    apply filter_map_eq
    · intro x _; simp only [Function.comp, spE_id]; split <;> simp
    · intro x hx hq
      simp only [bne_iff_ne, ne_eq] at hq
      simp only [Function.comp]
      rw [if_neg (by simpa using hq)]
      exact spE_eq_redir h hso hx hq
  · simpa [List.map_map, Function.comp_def, apply_ite HEdge.id] using h.nodupE
  · intro x hx hxe
    exact List.mem_map.mpr ⟨x, hx, by simp [hxe]⟩

/-! ## G2: the closed form is well-formed and has the expected multigraph -/

theorem redir_ends {src tg : Nat} {x : HEdge} (hloop : ¬ (x.e1 = some src ∧ x.e2 = some src)) :
    (redir src tg x).e1 = x.e1.map (ren src tg) ∧ (redir src tg x).e2 = x.e2.map (ren src tg) := by
  unfold redir
  by_cases h1 : x.e1 = some src
  · have h2 : x.e2 ≠ some src := fun h => hloop ⟨h1, h⟩
    rw [if_pos h1]
    refine ⟨by simp [h1, ren], ?_⟩
    cases h : x.e2 with
    | none => rfl
    | some b =>
      have : b ≠ src := fun hb => h2 (by rw [h, hb])
      simp [ren, this]
  · rw [if_neg h1]
    have e1 : x.e1.map (ren src tg) = x.e1 := by
      cases h : x.e1 with
      | none => rfl
      | some a =>
        have : a ≠ src := fun ha => h1 (by rw [h, ha])
        simp [ren, this]
    by_cases h2 : x.e2 = some src
    · rw [if_pos h2]
      exact ⟨e1.symm, by simp [h2, ren]⟩
    · rw [if_neg h2]
      refine ⟨e1.symm, ?_⟩
      cases h : x.e2 with
      | none => rfl
      | some b =>
        have : b ≠ src := fun hb => h2 (by rw [h, hb])
        simp [ren, this]

theorem map_ren_eq_some_other {src tg v : Nat} (h1 : v ≠ src) (h2 : v ≠ tg) (o : Option Nat) :
    o.map (ren src tg) = some v ↔ o = some v := by
  cases o with
  | none => simp
  | some a =>
    simp only [Option.map_some, Option.some.injEq, ren]
    split
    · next h =>
      subst h
      exact ⟨fun h => absurd h.symm h2, fun h => absurd h.symm h1⟩
    · exact Iff.rfl

theorem map_ren_eq_some_tg {src tg : Nat} (o : Option Nat) :
    o.map (ren src tg) = some tg ↔ (o = some tg ∨ o = some src) := by
  cases o with
  | none => simp
  | some a =>
    simp only [Option.map_some, Option.some.injEq, ren]
    split
    · next h => subst h; simp
    · next h => simp [h]

theorem identified_graphV (t : HTree) (e tg src : Nat) (sl : List Nat) :
    (identified t e tg src sl).graphV = t.graphV.filter (fun v => v != src) := by
  simp only [HTree.graphV, identified, List.map_map, List.filter_map]
  apply List.map_congr_left
  intro n _
  simp only [Function.comp]
  split <;> rfl

theorem identified_graphE {t : HTree} (h : WF t) {e tg src : Nat} (sl : List Nat)
    (hloop : ∀ e' ∈ t.edges, ¬ Joins e' src src) :
    (identified t e tg src sl).graphE =
      ((t.edges.filter (fun e' => e'.id != e)).filterMap HEdge.ends?).map (renE src tg) := by
  simp only [HTree.graphE, identified, List.filterMap_map, List.map_filterMap]
  apply filterMap_congr'
  intro x hx
  have hx' : x ∈ t.edges := (List.mem_filter.mp hx).1
  obtain ⟨a, b, ha, hb, _, _⟩ := h.ends x hx'
  have := redir_ends (tg := tg) (x := x) (src := src) (fun hh => hloop x hx' (Or.inl hh))
  simp only [Function.comp, HEdge.ends?, this.1, this.2, ha, hb, Option.map_some, renE]

theorem identified_WF {t : HTree} (h : WF t) {ed : HEdge} {so : HNode}
    (hso : so ∈ t.nodes) {tg : Nat} (htg : tg ∈ t.graphV) (hne : tg ≠ so.id)
    (hpar : ∀ e' ∈ t.edges, e'.id ≠ ed.id → ¬ Joins e' tg so.id)
    (hloop : ∀ e' ∈ t.edges, ¬ Joins e' so.id so.id) :
    WF (identified t ed.id tg so.id (so.edges.filter (fun j => j != ed.id))) := by
  have hV := identified_graphV t ed.id tg so.id (so.edges.filter (fun j => j != ed.id))
  have memN : ∀ n', n' ∈ (identified t ed.id tg so.id (so.edges.filter (fun j => j != ed.id))).nodes →
      ∃ n ∈ t.nodes, n.id ≠ so.id ∧ n'.id = n.id ∧
        n'.edges = if n.id = tg then n.edges.filter (fun j => j != ed.id) ++ so.edges.filter (fun j => j != ed.id)
                   else n.edges.filter (fun j => j != ed.id) := by
    intro n' hn'
    simp only [identified, List.mem_map, List.mem_filter, bne_iff_ne, ne_eq] at hn'
    obtain ⟨n, ⟨hn, hns⟩, rfl⟩ := hn'
    refine ⟨n, hn, hns, ?_, ?_⟩
    · split <;> rfl
    · by_cases hh : n.id = tg <;> simp [hh]
  have memE : ∀ e', e' ∈ (identified t ed.id tg so.id (so.edges.filter (fun j => j != ed.id))).edges ↔
      ∃ x ∈ t.edges, x.id ≠ ed.id ∧ e' = redir so.id tg x := by
    intro e'
    simp only [identified, List.mem_map, List.mem_filter, bne_iff_ne, ne_eq]
    constructor
    · rintro ⟨x, ⟨hx, hxe⟩, rfl⟩; exact ⟨x, hx, hxe, rfl⟩
    · rintro ⟨x, hx, hxe, rfl⟩; exact ⟨x, ⟨hx, hxe⟩, rfl⟩
  have hre : ∀ x ∈ t.edges, (redir so.id tg x).e1 = x.e1.map (ren so.id tg) ∧
      (redir so.id tg x).e2 = x.e2.map (ren so.id tg) :=
    fun x hx => redir_ends (fun hh => hloop x hx (Or.inl hh))
  refine ⟨?_, ?_, ?_, ?_, ?_, ?_, ?_⟩
  · -- nodupN
    show (HTree.graphV _).Nodup
    rw [hV]
    exact List.Nodup.sublist List.filter_sublist h.nodupN
  · -- nodupE
    simp only [identified, List.map_map]
    have : (fun x : HEdge => x.id) ∘ redir so.id tg = fun x => x.id := by
      funext x; simp
    rw [this]
    exact List.Nodup.sublist (List.Sublist.map _ List.filter_sublist) h.nodupE
  · -- ends
    intro e' he'
    obtain ⟨x, hx, _, rfl⟩ := (memE e').mp he'
    obtain ⟨a, b, ha, hb, hav, hbv⟩ := h.ends x hx
    refine ⟨ren so.id tg a, ren so.id tg b, by rw [(hre x hx).1, ha]; rfl,
      by rw [(hre x hx).2, hb]; rfl, ?_, ?_⟩
    · rw [hV, mem_filter_ne]
      unfold ren; split
      · exact ⟨htg, hne⟩
      · next hh => exact ⟨hav, hh⟩
    · rw [hV, mem_filter_ne]
      unfold ren; split
      · exact ⟨htg, hne⟩
      · next hh => exact ⟨hbv, hh⟩
  · -- nodupL
    intro n' hn'
    obtain ⟨n, hn, hns, _, hedges⟩ := memN n' hn'
    rw [hedges]
    have hf : ∀ m ∈ t.nodes, (m.edges.filter (fun j => j != ed.id)).Nodup :=
      fun m hm => List.Nodup.sublist List.filter_sublist (h.nodupL m hm)
    split
    · next hnt =>
      rw [List.nodup_append]
      refine ⟨hf n hn, hf so hso, ?_⟩
      intro i hi j hj hij
      subst hij
      simp only [List.mem_filter, bne_iff_ne, ne_eq] at hi hj
      obtain ⟨x, hx, hxi, hor1⟩ := (h.inc n hn i).mp hi.1
      obtain ⟨y, hy, hyi, hor2⟩ := (h.inc so hso i).mp hj.1
      have : x = y := h.edge_eq hx hy (hxi.trans hyi.symm)
      subst this
      obtain ⟨a, b, ha, hb, _, _⟩ := h.ends x hx
      rw [hnt] at hor1
      have hxe : x.id ≠ ed.id := hxi ▸ hi.2
      apply hpar x hx hxe
      have hl := hloop x hx
      unfold Joins at hl ⊢
      rw [ha, hb] at hor1 hor2 hl ⊢
      simp only [Option.some.injEq] at hor1 hor2 hl ⊢
      omega
    · exact hf n hn
  · -- inc
    intro n' hn' i
    obtain ⟨n, hn, hns, hid, hedges⟩ := memN n' hn'
    rw [hedges, hid]
    have key : ∀ P : HEdge → Prop,
        (∃ e' ∈ (identified t ed.id tg so.id (so.edges.filter (fun j => j != ed.id))).edges,
            e'.id = i ∧ P e') ↔
        ∃ x ∈ t.edges, x.id ≠ ed.id ∧ x.id = i ∧ P (redir so.id tg x) := by
      intro P
      constructor
      · rintro ⟨e', he', hi, hP⟩
        obtain ⟨x, hx, hxe, rfl⟩ := (memE e').mp he'
        exact ⟨x, hx, hxe, by simpa using hi, hP⟩
      · rintro ⟨x, hx, hxe, hi, hP⟩
        exact ⟨_, (memE _).mpr ⟨x, hx, hxe, rfl⟩, by simpa using hi, hP⟩
    rw [key]
    split
    · next hnt =>
      simp only [List.mem_append, List.mem_filter, bne_iff_ne, ne_eq]
      rw [h.inc n hn i, h.inc so hso i, hnt]
      constructor
      · rintro (⟨⟨x, hx, hxi, hor⟩, hie⟩ | ⟨⟨x, hx, hxi, hor⟩, hie⟩)
        · refine ⟨x, hx, hxi ▸ hie, hxi, ?_⟩
          rw [(hre x hx).1, (hre x hx).2, map_ren_eq_some_tg, map_ren_eq_some_tg]
          cases hor with
          | inl h => exact Or.inl (Or.inl h)
          | inr h => exact Or.inr (Or.inl h)
        · refine ⟨x, hx, hxi ▸ hie, hxi, ?_⟩
          rw [(hre x hx).1, (hre x hx).2, map_ren_eq_some_tg, map_ren_eq_some_tg]
          cases hor with
          | inl h => exact Or.inl (Or.inr h)
          | inr h => exact Or.inr (Or.inr h)
      · rintro ⟨x, hx, hxe, hxi, hor⟩
        rw [(hre x hx).1, (hre x hx).2, map_ren_eq_some_tg, map_ren_eq_some_tg] at hor
        rcases hor with (h1 | h1) | (h1 | h1)
        · exact Or.inl ⟨⟨x, hx, hxi, Or.inl h1⟩, hxi ▸ hxe⟩
        · exact Or.inr ⟨⟨x, hx, hxi, Or.inl h1⟩, hxi ▸ hxe⟩
        · exact Or.inl ⟨⟨x, hx, hxi, Or.inr h1⟩, hxi ▸ hxe⟩
        · exact Or.inr ⟨⟨x, hx, hxi, Or.inr h1⟩, hxi ▸ hxe⟩
    · next hnt =>
      simp only [List.mem_filter, bne_iff_ne, ne_eq]
      rw [h.inc n hn i]
      constructor
      · rintro ⟨⟨x, hx, hxi, hor⟩, hie⟩
        refine ⟨x, hx, hxi ▸ hie, hxi, ?_⟩
        rw [(hre x hx).1, (hre x hx).2, map_ren_eq_some_other hns hnt, map_ren_eq_some_other hns hnt]
        exact hor
      · rintro ⟨x, hx, hxe, hxi, hor⟩
        rw [(hre x hx).1, (hre x hx).2, map_ren_eq_some_other hns hnt, map_ren_eq_some_other hns hnt] at hor
        exact ⟨⟨x, hx, hxi, hor⟩, hxi ▸ hxe⟩
  · intro n' hn'
    obtain ⟨n, hn, _, hid, _⟩ := memN n' hn'
    rw [hid]; exact h.fresh.1 n hn
  · intro e' he'
    obtain ⟨x, hx, _, rfl⟩ := (memE e').mp he'
    rw [redir_id]; exact h.fresh.2 x hx

open AdaptaVerif.Lemmas.Tree

/-- the non-structural fields of a node record are unchanged -/
structure NodeKept (n n' : HNode) : Prop where
  id : n'.id = n.id
  junction : n'.junction = n.junction
  point : n'.point = n.point
  finalVertex : n'.finalVertex = n.finalVertex
  isConnectorSource : n'.isConnectorSource = n.isConnectorSource
  isPinDummyEndpoint : n'.isPinDummyEndpoint = n.isPinDummyEndpoint

/-- the non-structural fields of an edge record are unchanged -/
structure EdgeKept (x x' : HEdge) : Prop where
  id : x'.id = x.id
  conn : x'.conn = x.conn
  hasFixedRoute : x'.hasFixedRoute = x.hasFixedRoute

theorem NodeKept.refl (n : HNode) : NodeKept n n := ⟨rfl, rfl, rfl, rfl, rfl, rfl⟩
theorem EdgeKept.refl (x : HEdge) : EdgeKept x x := ⟨rfl, rfl, rfl⟩

theorem redir_kept (o n : Nat) (x : HEdge) : EdgeKept x (redir o n x) := by
  unfold redir; split
  · exact ⟨rfl, rfl, rfl⟩
  · split
    · exact ⟨rfl, rfl, rfl⟩
    · exact EdgeKept.refl x

/-- the edges other than `e`, as abstract edges -/
def restE (t : HTree) (e : Nat) : List Edge :=
  (t.edges.filter (fun e' => e'.id != e)).filterMap HEdge.ends?

theorem perm_cons_filter_key {α : Type} (key : α → Nat) {l : List α} (hnd : (l.map key).Nodup)
    {x : α} (hx : x ∈ l) : l.Perm (x :: l.filter (fun y => key y != key x)) := by
  induction l with
  | nil => cases hx
  | cons a l ih =>
    simp only [List.map_cons, List.nodup_cons, List.mem_map, not_exists, not_and] at hnd
    rcases List.mem_cons.mp hx with rfl | hx'
    · have : (l.filter (fun y => key y != key x)) = l :=
        List.filter_eq_self.mpr (fun y hy => by simpa using fun (hh : key y = key x) => hnd.1 y hy hh)
      simp [this]
    · have hne : key a ≠ key x := fun hh => hnd.1 x hx' hh.symm
      have : (key a != key x) = true := by simpa using hne
      simp only [List.filter_cons, this, if_true]
      exact ((ih hnd.2 hx').cons a).trans (List.Perm.swap x a _)

/-- the abstract edge list with the edge `e` pulled to the front -/
theorem graphE_perm {t : HTree} (h : WF t) {e : HEdge} (he : e ∈ t.edges) {a b : Nat}
    (h1 : e.e1 = some a) (h2 : e.e2 = some b) : t.graphE.Perm ((a, b) :: restE t e.id) := by
  have hp := perm_cons_filter_key (fun x : HEdge => x.id) h.nodupE he
  have := hp.filterMap HEdge.ends?
  simpa [HTree.graphE, restE, HEdge.ends?, h1, h2] using this

theorem adj_restE {t : HTree} {e : Nat} {x : HEdge} (hx : x ∈ t.edges) (hxe : x.id ≠ e) {a b : Nat}
    (hj : Joins x a b) : Adj (restE t e) a b := by
  have hm : x ∈ t.edges.filter (fun e' => e'.id != e) := by
    simp only [List.mem_filter, bne_iff_ne, ne_eq]; exact ⟨hx, hxe⟩
  rcases hj with ⟨h1, h2⟩ | ⟨h1, h2⟩
  · exact Or.inl (List.mem_filterMap.mpr ⟨x, hm, by simp [HEdge.ends?, h1, h2]⟩)
  · exact Or.inr (List.mem_filterMap.mpr ⟨x, hm, by simp [HEdge.ends?, h1, h2]⟩)

/-- in a tree, the edge `e` pulled to the front in the orientation one likes -/
theorem Tree.isTree_head {t : HTree} (h : Tree t) {e : HEdge} (he : e ∈ t.edges) {a b : Nat}
    (hj : Joins e a b) : IsTree t.graphV ((a, b) :: restE t e.id) := by
  rcases hj with ⟨h1, h2⟩ | ⟨h1, h2⟩
  · exact isTree_congr (fun _ => Iff.rfl) (graphE_perm h.1 he h1 h2) h.2
  · exact isTree_swap_head (isTree_congr (fun _ => Iff.rfl) (graphE_perm h.1 he h1 h2) h.2)

theorem Tree.ne_of_joins {t : HTree} (h : Tree t) {e : HEdge} (he : e ∈ t.edges) {a b : Nat}
    (hj : Joins e a b) : a ≠ b :=
  isTree_bridge_ne (h.isTree_head he hj) (List.Perm.refl _)

theorem Tree.no_loop {t : HTree} (h : Tree t) {e : HEdge} (he : e ∈ t.edges) (a : Nat) :
    ¬ Joins e a a := fun hj => h.ne_of_joins he hj rfl

theorem Tree.no_parallel {t : HTree} (h : Tree t) {e e' : HEdge} (he : e ∈ t.edges)
    (he' : e' ∈ t.edges) (hne : e'.id ≠ e.id) {a b : Nat} (hj : Joins e a b) : ¬ Joins e' a b :=
  fun hj' => isTree_bridge (h.isTree_head he hj) (List.Perm.refl _)
    (Reach.single (adj_restE he' hne hj'))

theorem joins_mem_graphV {t : HTree} (h : WF t) {e : HEdge} (he : e ∈ t.edges) {a b : Nat}
    (hj : Joins e a b) : a ∈ t.graphV ∧ b ∈ t.graphV := by
  obtain ⟨a', b', h1, h2, ha, hb⟩ := h.ends e he
  rcases hj with ⟨j1, j2⟩ | ⟨j1, j2⟩
  · rw [h1] at j1; rw [h2] at j2; cases j1; cases j2; exact ⟨ha, hb⟩
  · rw [h1] at j1; rw [h2] at j2; cases j1; cases j2; exact ⟨hb, ha⟩

/-- what the identification sequence does, as one record -/
structure IdentifySpec (t : HTree) (e : HEdge) (x tg src : Nat) (t' : HTree) : Prop where
  wf : WF t'
  graphV : t'.graphV = t.graphV.filter (fun v => v != src)
  graphE : t'.graphE = (restE t e.id).map (renE src tg)
  perm : t.graphE.Perm ((x, src) :: restE t e.id) ∨ t.graphE.Perm ((src, x) :: restE t e.id)
  next : t'.next = t.next
  fixedConns : t'.fixedConns = t.fixedConns
  /-- every surviving node comes from an old node other than `src`; edge lists as described -/
  nodes : ∀ n' ∈ t'.nodes, ∃ n ∈ t.nodes, n.id ≠ src ∧ NodeKept n n' ∧
    ∃ so ∈ t.nodes, so.id = src ∧
      n'.edges = if n.id = tg then n.edges.filter (fun j => j != e.id) ++ so.edges.filter (fun j => j != e.id)
                 else if n.id = x then n.edges.filter (fun j => j != e.id) else n.edges
  nodes' : ∀ n ∈ t.nodes, n.id ≠ src → ∃ n' ∈ t'.nodes, n'.id = n.id
  /-- every surviving edge comes from an old edge other than `e`, its ends renamed `src ↦ tg` -/
  edges : ∀ x' ∈ t'.edges, ∃ x ∈ t.edges, x.id ≠ e.id ∧ EdgeKept x x' ∧
    x'.e1 = x.e1.map (ren src tg) ∧ x'.e2 = x.e2.map (ren src tg)
  edges' : ∀ x ∈ t.edges, x.id ≠ e.id → ∃ x' ∈ t'.edges, x'.id = x.id

theorem filter_ne_self_of_not_end {t : HTree} (h : WF t) {n : HNode} (hn : n ∈ t.nodes) {e : HEdge}
    (he : e ∈ t.edges) (h1 : e.e1 ≠ some n.id) (h2 : e.e2 ≠ some n.id) :
    n.edges.filter (fun j => j != e.id) = n.edges := by
  apply List.filter_eq_self.mpr
  intro j hj
  simp only [bne_iff_ne, ne_eq]
  intro hje
  subst hje
  rcases (h.mem_edges_iff hn he).mp hj with h' | h'
  · exact h1 h'
  · exact h2 h'

theorem identify_spec {t : HTree} (h : WF t) {e : HEdge} (he : e ∈ t.edges) {x src tg : Nat}
    (hj : Joins e x src) (hxs : x ≠ src) (htg : tg ∈ t.graphV) (hts : tg ≠ src)
    (hpar : ∀ e' ∈ t.edges, e'.id ≠ e.id → ¬ Joins e' tg src)
    (hloop : ∀ e' ∈ t.edges, ¬ Joins e' src src) :
    ∃ t', contract t e.id tg src = some t' ∧ mergeStep t e.id tg src = some t' ∧
      IdentifySpec t e x tg src t' := by
  obtain ⟨so, hso, rfl⟩ := WF.node_of_mem_graphV (joins_mem_graphV h he hj).2
  refine ⟨_, contract_eq h he hso hts, mergeStep_eq h he hso hts, ?_⟩
  refine ⟨identified_WF h hso htg hts hpar hloop, identified_graphV _ _ _ _ _,
    identified_graphE h _ hloop, ?_, rfl, rfl, ?_, ?_, ?_, ?_⟩
  · rcases hj with ⟨h1, h2⟩ | ⟨h1, h2⟩
    · exact Or.inl (graphE_perm h he h1 h2)
    · exact Or.inr (graphE_perm h he h1 h2)
  · intro n' hn'
    simp only [identified, List.mem_map, List.mem_filter, bne_iff_ne, ne_eq] at hn'
    obtain ⟨n, ⟨hn, hns⟩, rfl⟩ := hn'
    refine ⟨n, hn, hns, ?_, so, hso, rfl, ?_⟩
    · split
      · exact ⟨rfl, rfl, rfl, rfl, rfl, rfl⟩
      · exact ⟨rfl, rfl, rfl, rfl, rfl, rfl⟩
    · by_cases h1 : n.id = tg
      · simp [h1]
      · have : (n.id == tg) = false := by simpa using h1
        simp only [this, Bool.false_eq_true, if_false, h1, rmE_edges]
        split
        · rfl
        · next hnx =>
          apply filter_ne_self_of_not_end h hn he
          · rcases hj with ⟨j1, _⟩ | ⟨j1, _⟩
            · rw [j1]; simpa using fun hh => hnx hh.symm
            · rw [j1]; simpa using fun hh => hns hh.symm
          · rcases hj with ⟨_, j2⟩ | ⟨_, j2⟩
            · rw [j2]; simpa using fun hh => hns hh.symm
            · rw [j2]; simpa using fun hh => hnx hh.symm
  · intro n hn hns
    refine ⟨_, List.mem_map.mpr ⟨n, ?_, rfl⟩, ?_⟩
    · simp only [List.mem_filter, bne_iff_ne, ne_eq]; exact ⟨hn, hns⟩
    · split <;> rfl
  · intro x' hx'
    simp only [identified, List.mem_map, List.mem_filter, bne_iff_ne, ne_eq] at hx'
    obtain ⟨y, ⟨hy, hye⟩, rfl⟩ := hx'
    have hr := redir_ends (tg := tg) (fun hh => hloop y hy (Or.inl hh))
    exact ⟨y, hy, hye, redir_kept _ _ _, hr.1, hr.2⟩
  · intro y hy hye
    refine ⟨_, List.mem_map.mpr ⟨y, ?_, rfl⟩, redir_id _ _ _⟩
    simp only [List.mem_filter, bne_iff_ne, ne_eq]; exact ⟨hy, hye⟩

/-- contracting a tree edge keeps a tree -/
theorem contract_tree {t : HTree} (h : Tree t) {e : HEdge} (he : e ∈ t.edges) {tg src : Nat}
    (hj : Joins e tg src) :
    ∃ t', contract t e.id tg src = some t' ∧ Tree t' ∧ IdentifySpec t e tg tg src t' := by
  have hts : tg ≠ src := h.ne_of_joins he hj
  obtain ⟨t', hc, _, hs⟩ := identify_spec h.1 he hj hts (joins_mem_graphV h.1 he hj).1 hts
    (fun e' he' hne => h.no_parallel he he' hne hj) (fun e' he' => h.no_loop he' src)
  refine ⟨t', hc, ⟨hs.wf, ?_⟩, hs⟩
  rw [hs.graphV, hs.graphE]
  exact isTree_contract (h.isTree_head he hj) (List.Perm.refl _)

/-- one iteration of `mergeCommon` keeps a tree: `e` joins `self` and `src`, another edge `e0`
    joins `self` and `tg`; `src` is glued onto `tg` and `e` disappears -/
theorem mergeStep_tree {t : HTree} (h : Tree t) {e e0 : HEdge} (he : e ∈ t.edges) {self tg src : Nat}
    (hj : Joins e self src) (he0 : e0 ∈ t.edges) (hne : e0.id ≠ e.id) (hj0 : Joins e0 self tg) :
    ∃ t', mergeStep t e.id tg src = some t' ∧ Tree t' ∧ IdentifySpec t e self tg src t' := by
  have hss : self ≠ src := h.ne_of_joins he hj
  have hbr := isTree_bridge (h.isTree_head he hj) (List.Perm.refl _)
  have hr0 : Reach (restE t e.id) self tg := Reach.single (adj_restE he0 hne hj0)
  have hts : tg ≠ src := fun hh => hbr (hh ▸ hr0)
  obtain ⟨t', _, hc, hs⟩ := identify_spec h.1 he hj hss (joins_mem_graphV h.1 he0 hj0).2 hts
    (fun e' he' hne' hj' => hbr (Reach.trans hr0 (Reach.single (adj_restE he' hne' hj'))))
    (fun e' he' => h.no_loop he' src)
  refine ⟨t', hc, ⟨hs.wf, ?_⟩, hs⟩
  rw [hs.graphV, hs.graphE]
  exact isTree_identify (h.isTree_head he hj) (List.Perm.refl _) hr0

theorem farEnd_of_joins {t : HTree} (h : WF t) {e : HEdge} (he : e ∈ t.edges) {self src : Nat}
    (hj : Joins e self src) (hss : self ≠ src) : farEnd t e.id self = some src := by
  unfold farEnd
  rw [edge?_of_mem h.nodupE he]
  show e.followFrom self = some src
  unfold HEdge.followFrom
  rcases hj with ⟨h1, h2⟩ | ⟨h1, h2⟩
  · rw [if_pos h1, h2]
  · have : ¬ e.e1 = some self := by rw [h1]; simpa using fun hh => hss hh.symm
    rw [if_neg this, h1]

theorem mergeCommon_cons_eq {t t' : HTree} {self tg e src : Nat} (rest : List Nat)
    (hfar : farEnd t e self = some src) (hm : mergeStep t e tg src = some t') :
    mergeCommon self tg (e :: rest) t = mergeCommon self tg rest t' := by
  rw [mergeCommon_cons, hfar]
  simp only [Option.bind, hm]

/-- the step of `mergeCommon` as it is run: look up the far end, then `mergeStep` -/
theorem mergeCommon_cons_tree {t : HTree} (h : Tree t) {e e0 : HEdge} (he : e ∈ t.edges)
    {self tg src : Nat} (hj : Joins e self src) (he0 : e0 ∈ t.edges) (hne : e0.id ≠ e.id)
    (hj0 : Joins e0 self tg) (rest : List Nat) :
    ∃ t', mergeCommon self tg (e.id :: rest) t = mergeCommon self tg rest t' ∧ Tree t' ∧
      IdentifySpec t e self tg src t' := by
  obtain ⟨t', hm, ht, hs⟩ := mergeStep_tree h he hj he0 hne hj0
  refine ⟨t', ?_, ht, hs⟩
  exact mergeCommon_cons_eq rest (farEnd_of_joins h.1 he hj (h.ne_of_joins he hj)) hm

/-! ## G4: removing a leaf -/

/-- `edge->disconnectEdge(); delete edge; delete self;` -/
def removeLeaf (t : HTree) (e self : Nat) : Option HTree :=
  (edgeDisconnect t e).map (fun t1 => (t1.deleteEdge e).deleteNode self)

theorem removeLeaf_eq {t : HTree} (h : WF t) {e : HEdge} (he : e ∈ t.edges) {sn : HNode}
    (hsn : sn ∈ t.nodes) (hl : sn.edges = [e.id]) (tg : Nat) :
    removeLeaf t e.id sn.id = some (identified t e.id tg sn.id (sn.edges.filter (fun j => j != e.id))) := by
  have hsl : sn.edges.filter (fun j => j != e.id) = [] := by simp [hl]
  unfold removeLeaf
  rw [edgeDisconnect_closed h he, hsl]
  simp only [Option.map_some, HTree.deleteEdge, HTree.deleteNode]
  congr 1
  refine HTree.ext' ?_ ?_ rfl rfl
  · apply filter_map_eq
    · intro x _; rfl
    · intro x _ _
      split
      · simp [rmE]
      · rfl
  · apply filter_map_eq
    · intro x _; split <;> rfl
    · intro x hx hq
      simp only [bne_iff_ne, ne_eq] at hq
      rw [if_neg (by simpa using hq)]
      have hni : x.id ∉ sn.edges := by rw [hl]; simpa using hq
      rw [h.mem_edges_iff hsn hx, not_or] at hni
      exact (redir_of_no_end hni.1 hni.2).symm

theorem restE_map_ren_of_leaf {t : HTree} (h : WF t) {e : HEdge} {sn : HNode}
    (hsn : sn ∈ t.nodes) (hl : sn.edges = [e.id]) (tg : Nat) :
    (restE t e.id).map (renE sn.id tg) = restE t e.id := by
  conv => rhs; rw [← List.map_id (restE t e.id)]
  apply List.map_congr_left
  rintro ⟨a, b⟩ hab
  simp only [restE, List.mem_filterMap, List.mem_filter, bne_iff_ne, ne_eq] at hab
  obtain ⟨x, ⟨hx, hxe⟩, hends⟩ := hab
  have hni : x.id ∉ sn.edges := by rw [hl]; simpa using hxe
  rw [h.mem_edges_iff hsn hx, not_or] at hni
  unfold HEdge.ends? at hends
  split at hends
  · next a' b' h1 h2 =>
    simp only [Option.some.injEq, Prod.mk.injEq] at hends
    obtain ⟨rfl, rfl⟩ := hends
    have ha : a' ≠ sn.id := fun hh => hni.1 (by rw [h1, hh])
    have hb : b' ≠ sn.id := fun hh => hni.2 (by rw [h2, hh])
    simp [renE, ren, ha, hb]
  · cases hends

/-- leaf removal on a well-formed heap: same result as contracting `e` into `tg`; the remaining
    abstract edges are untouched -/
theorem removeLeaf_spec {t : HTree} (h : WF t) {e : HEdge} (he : e ∈ t.edges) {tg : Nat} {sn : HNode}
    (hsn : sn ∈ t.nodes) (hj : Joins e tg sn.id) (hts : tg ≠ sn.id) (hl : sn.edges = [e.id]) :
    ∃ t', removeLeaf t e.id sn.id = some t' ∧ contract t e.id tg sn.id = some t' ∧
      IdentifySpec t e tg tg sn.id t' ∧ t'.graphE = restE t e.id := by
  have hend : ∀ e' ∈ t.edges, (e'.e1 = some sn.id ∨ e'.e2 = some sn.id) → e' = e := by
    intro e' he' hor
    have := (h.mem_edges_iff hsn he').mpr hor
    rw [hl] at this
    exact h.edge_eq he' he (by simpa using this)
  obtain ⟨t', hc, _, hs⟩ := identify_spec h he hj hts (joins_mem_graphV h he hj).1 hts
    (fun e' he' hne hj' => hne (by
      rw [hend e' he' (by rcases hj' with ⟨_, j2⟩ | ⟨j1, _⟩
                          · exact Or.inr j2
                          · exact Or.inl j1)]))
    (fun e' he' hj' => by
      have h1 : e'.e1 = some sn.id := by rcases hj' with ⟨j1, _⟩ | ⟨j1, _⟩ <;> exact j1
      have h2 : e'.e2 = some sn.id := by rcases hj' with ⟨_, j2⟩ | ⟨_, j2⟩ <;> exact j2
      have := hend e' he' (Or.inl h1)
      subst this
      rcases hj with ⟨j1, _⟩ | ⟨_, j2⟩
      · rw [h1] at j1; exact hts (Option.some.inj j1).symm
      · rw [h2] at j2; exact hts (Option.some.inj j2).symm)
  have heq := removeLeaf_eq h he hsn hl tg
  rw [contract_eq h he hsn hts] at hc
  cases hc
  refine ⟨_, heq, contract_eq h he hsn hts, hs, ?_⟩
  rw [hs.graphE, restE_map_ren_of_leaf h hsn hl]

theorem removeLeaf_tree {t : HTree} (h : Tree t) {e : HEdge} (he : e ∈ t.edges) {tg : Nat} {sn : HNode}
    (hsn : sn ∈ t.nodes) (hj : Joins e tg sn.id) (hl : sn.edges = [e.id]) :
    ∃ t', removeLeaf t e.id sn.id = some t' ∧ Tree t' ∧
      IdentifySpec t e tg tg sn.id t' ∧ t'.graphE = restE t e.id := by
  obtain ⟨t', hr, hc, hs, hE⟩ := removeLeaf_spec h.1 he hsn hj (h.ne_of_joins he hj) hl
  obtain ⟨t'', hc', ht, _⟩ := contract_tree h he hj
  rw [hc] at hc'
  cases hc'
  exact ⟨t', hr, ht, hs, hE⟩

/-! ## G5: the stored degree is the degree in the abstract multigraph -/

theorem countP_add_of_disjoint {α : Type} (p q : α → Bool) (l : List α)
    (hd : ∀ x ∈ l, ¬ (p x = true ∧ q x = true)) :
    l.countP p + l.countP q = l.countP (fun x => p x || q x) := by
  induction l with
  | nil => rfl
  | cons a l ih =>
    have ih' := ih (fun x hx => hd x (List.mem_cons_of_mem _ hx))
    have ha := hd a List.mem_cons_self
    simp only [List.countP_cons]
    cases hp : p a <;> cases hq : q a <;> simp_all <;> omega

theorem length_edges_eq_deg {t : HTree} (h : WF t) (hloop : ∀ e ∈ t.edges, e.e1 ≠ e.e2)
    {n : HNode} (hn : n ∈ t.nodes) : n.edges.length = deg t.graphE n.id := by
  let hasEnd : HEdge → Bool := fun e => decide (e.e1 = some n.id) || decide (e.e2 = some n.id)
  have hperm : n.edges.Perm ((t.edges.filter hasEnd).map (·.id)) := by
    rw [List.perm_ext_iff_of_nodup (h.nodupL n hn)
      (List.Nodup.sublist (List.Sublist.map _ List.filter_sublist) h.nodupE)]
    intro i
    rw [h.inc n hn i]
    simp only [List.mem_map, List.mem_filter, hasEnd, Bool.or_eq_true, decide_eq_true_eq]
    constructor
    · rintro ⟨e, he, hid, hor⟩; exact ⟨e, ⟨he, hor⟩, hid⟩
    · rintro ⟨e, ⟨he, hor⟩, hid⟩; exact ⟨e, he, hid, hor⟩
  rw [hperm.length_eq, List.length_map, ← List.countP_eq_length_filter]
  unfold deg HTree.graphE
  rw [List.countP_filterMap, List.countP_filterMap, countP_add_of_disjoint]
  · apply List.countP_congr
    intro e he
    obtain ⟨a, b, ha, hb, _, _⟩ := h.ends e he
    simp only [hasEnd, HEdge.ends?, ha, hb, Option.map_some, Option.getD_some, Bool.or_eq_true,
      decide_eq_true_eq, Option.some.injEq, beq_iff_eq]
  · intro e he
    obtain ⟨a, b, ha, hb, _, _⟩ := h.ends e he
    have := hloop e he
    rw [ha, hb] at this
    simp only [HEdge.ends?, ha, hb, Option.map_some, Option.getD_some, beq_iff_eq]
    rintro ⟨rfl, rfl⟩
    exact this rfl

theorem Tree.length_edges_eq_deg {t : HTree} (h : Tree t) {n : HNode} (hn : n ∈ t.nodes) :
    n.edges.length = deg t.graphE n.id := by
  apply AdaptaVerif.Lemmas.HyperTree.length_edges_eq_deg h.1 _ hn
  intro e he heq
  obtain ⟨a, b, ha, hb, _, _⟩ := h.1.ends e he
  have : a = b := by rw [ha, hb] at heq; exact Option.some.inj heq
  subst this
  exact h.no_loop he a (Or.inl ⟨ha, hb⟩)

/-- `HTree.degree` (what the C++ reads: `edges.size()`) is the graph degree -/
theorem degree_eq_deg {t : HTree} (h : WF t) (hloop : ∀ e ∈ t.edges, e.e1 ≠ e.e2)
    {n : HNode} (hn : n ∈ t.nodes) : t.degree n.id = deg t.graphE n.id := by
  unfold HTree.degree
  rw [node?_of_mem h.nodupN hn]
  exact length_edges_eq_deg h hloop hn

/-! ## G3: `splitFromNodeAtPoint` -/

/-- the new node made by the split -/
def splitNode (t : HTree) (e : Nat) (p : AdaptaVerif.Model.Geometry.Pt) : HNode :=
  { id := t.next, edges := [t.next + 1, e], junction := none, point := p }

/-- the new edge made by the split -/
def splitEdge (t : HTree) (target : Nat) (conn : Option Nat) : HEdge :=
  { id := t.next + 1, e1 := some t.next, e2 := some target, conn := conn,
    hasFixedRoute := match conn with
      | some c => t.fixedConns.contains c
      | none => false }

/-- closed form of the heap after `splitFromNodeAtPoint` -/
def splitResult (t : HTree) (ed : HEdge) (source target : Nat) (p : AdaptaVerif.Model.Geometry.Pt) : HTree :=
  { t with
    nodes := t.nodes.map (fun n => if n.id == target
                then { n with edges := n.edges.filter (fun j => j != ed.id) ++ [t.next + 1] } else n)
              ++ [splitNode t ed.id p],
    edges := t.edges.map (fun x => if x.id == ed.id
                then { x with e1 := some source, e2 := some t.next } else x)
              ++ [splitEdge t target ed.conn],
    next := t.next + 2 }

theorem split_eq {t : HTree} (h : WF t) {ed : HEdge} (hed : ed ∈ t.edges) {source target : Nat}
    (hj : Joins ed source target) (hst : source ≠ target) (p : AdaptaVerif.Model.Geometry.Pt) :
    splitFromNodeAtPoint t ed.id source p =
      some (splitResult t ed source target p, t.next, t.next + 1) := by
  have htN : target < t.next := by
    obtain ⟨n, hn, rfl⟩ := WF.node_of_mem_graphV (joins_mem_graphV h hed hj).2
    exact h.fresh.1 n hn
  have heN : ed.id < t.next := h.fresh.2 ed hed
  unfold splitFromNodeAtPoint
  rw [edge?_of_mem h.nodupE hed]
  have hfs : (if ed.e2 = some source then (ed.e2, ed.e1) else (ed.e1, ed.e2)) =
      (some source, some target) := by
    rcases hj with ⟨h1, h2⟩ | ⟨h1, h2⟩
    · rw [if_neg (by rw [h2]; simpa using fun hh => hst hh.symm), h1, h2]
    · rw [if_pos h2, h1, h2]
  simp only [hfs, ne_eq, not_true_eq_false, if_false]
  simp only [newNode, newEdge, nodePush, nodeDisconnect, HTree.modEdge, HTree.modNode]
  refine congrArg (fun r => some (r, t.next, t.next + 1)) (HTree.ext' ?_ ?_ rfl rfl)
  · simp only [List.map_append, List.map_map, List.map_cons, List.map_nil, splitResult]
    congr 1
    · apply List.map_congr_left
      intro n hn
      have hnN : n.id ≠ t.next := Nat.ne_of_lt (h.fresh.1 n hn)
      have hN1 : t.next + 1 ≠ ed.id := by omega
      by_cases hnt : n.id = target
      · simp [hnt, Nat.ne_of_lt htN, List.filter_append, hN1]
      · simp [hnt, hnN]
    · have : t.next ≠ target := (Nat.ne_of_lt htN).symm
      simp [this, splitNode]
  · simp only [List.map_append, List.map_map, List.map_cons, List.map_nil, splitResult]
    congr 1
    · apply List.map_congr_left
      intro x _
      by_cases hx : x.id = ed.id
      · simp [hx]
      · simp [hx]
    · have : t.next + 1 ≠ ed.id := by omega
      simp [this, splitEdge]
      generalize ed.conn = c
      cases c <;> rfl

theorem splitResult_graphV (t : HTree) (ed : HEdge) (source target : Nat)
    (p : AdaptaVerif.Model.Geometry.Pt) :
    (splitResult t ed source target p).graphV = t.graphV ++ [t.next] := by
  simp only [HTree.graphV, splitResult, List.map_append, List.map_map, List.map_cons, List.map_nil,
    splitNode]
  congr 1
  apply List.map_congr_left
  intro n _
  simp only [Function.comp]
  split <;> rfl

theorem splitResult_graphE {t : HTree} (h : WF t) {ed : HEdge} (hed : ed ∈ t.edges)
    (source target : Nat) (p : AdaptaVerif.Model.Geometry.Pt) :
    (splitResult t ed source target p).graphE.Perm
      ((source, t.next) :: (t.next, target) :: restE t ed.id) := by
  have hp := perm_cons_filter_key (fun x : HEdge => x.id) h.nodupE hed
  have hp2 := (hp.map (fun x : HEdge => if x.id == ed.id
                then { x with e1 := some source, e2 := some t.next } else x)).filterMap HEdge.ends?
  have hfil : (t.edges.filter (fun y => y.id != ed.id)).map (fun x : HEdge => if x.id == ed.id
                then { x with e1 := some source, e2 := some t.next } else x) =
      t.edges.filter (fun y => y.id != ed.id) := by
    conv => rhs; rw [← List.map_id (t.edges.filter (fun y => y.id != ed.id))]
    apply List.map_congr_left
    intro x hx
    simp only [List.mem_filter, bne_iff_ne, ne_eq] at hx
    simp [hx.2]
  simp only [List.map_cons, hfil, beq_self_eq_true, if_true, List.filterMap_cons, HEdge.ends?] at hp2
  simp only [HTree.graphE, splitResult, List.filterMap_append, List.filterMap_cons,
    List.filterMap_nil, splitEdge, HEdge.ends?]
  refine (List.perm_append_comm).trans ?_
  simp only [List.singleton_append]
  exact (List.Perm.cons _ hp2).trans (List.Perm.swap _ _ _)

theorem splitResult_WF {t : HTree} (h : WF t) {ed : HEdge} (hed : ed ∈ t.edges) {source target : Nat}
    (hj : Joins ed source target) (hst : source ≠ target) (p : AdaptaVerif.Model.Geometry.Pt) :
    WF (splitResult t ed source target p) := by
  have hV := splitResult_graphV t ed source target p
  have hsV := (joins_mem_graphV h hed hj).1
  have htV := (joins_mem_graphV h hed hj).2
  have hVlt : ∀ v ∈ t.graphV, v < t.next := by
    intro v hv
    obtain ⟨n, hn, rfl⟩ := WF.node_of_mem_graphV hv
    exact h.fresh.1 n hn
  have htN : target < t.next := hVlt _ htV
  have hsN : source < t.next := hVlt _ hsV
  have heN : ed.id < t.next := h.fresh.2 ed hed
  have hEd : ∀ v, (ed.e1 = some v ∨ ed.e2 = some v) ↔ (v = source ∨ v = target) := by
    intro v
    rcases hj with ⟨h1, h2⟩ | ⟨h1, h2⟩ <;> rw [h1, h2] <;> simp only [Option.some.injEq] <;>
      constructor <;> rintro (hh | hh) <;> simp [hh]
  have hendlt : ∀ x ∈ t.edges, ∀ v, (x.e1 = some v ∨ x.e2 = some v) → v < t.next := by
    intro x hx v hor
    obtain ⟨a, b, ha, hb, hav, hbv⟩ := h.ends x hx
    rcases hor with hh | hh
    · rw [ha] at hh; cases hh; exact hVlt _ hav
    · rw [hb] at hh; cases hh; exact hVlt _ hbv
  have incS : ∀ n ∈ t.nodes, ∀ i, i ∈ n.edges ↔
      (∃ x ∈ t.edges, x.id ≠ ed.id ∧ x.id = i ∧ (x.e1 = some n.id ∨ x.e2 = some n.id)) ∨
      (i = ed.id ∧ (n.id = source ∨ n.id = target)) := by
    intro n hn i
    rw [h.inc n hn i]
    constructor
    · rintro ⟨x, hx, hxi, hor⟩
      by_cases hxe : x.id = ed.id
      · have : x = ed := h.edge_eq hx hed hxe
        subst this
        exact Or.inr ⟨hxi.symm, (hEd _).mp hor⟩
      · exact Or.inl ⟨x, hx, hxe, hxi, hor⟩
    · rintro (⟨x, hx, _, hxi, hor⟩ | ⟨hi, hor⟩)
      · exact ⟨x, hx, hxi, hor⟩
      · exact ⟨ed, hed, hi.symm, (hEd _).mpr hor⟩
  have key : ∀ (i v : Nat),
      (∃ e' ∈ (splitResult t ed source target p).edges, e'.id = i ∧ (e'.e1 = some v ∨ e'.e2 = some v)) ↔
      ((∃ x ∈ t.edges, x.id ≠ ed.id ∧ x.id = i ∧ (x.e1 = some v ∨ x.e2 = some v)) ∨
        (i = ed.id ∧ (v = source ∨ v = t.next)) ∨ (i = t.next + 1 ∧ (v = t.next ∨ v = target))) := by
    intro i v
    simp only [splitResult, List.mem_append, List.mem_map, List.mem_singleton]
    constructor
    · rintro ⟨e', (⟨x, hx, rfl⟩ | rfl), hi, hor⟩
      · by_cases hxe : x.id = ed.id
        · simp only [hxe, beq_self_eq_true, if_true, Option.some.injEq] at hi hor
          refine Or.inr (Or.inl ⟨hi.symm, ?_⟩)
          rcases hor with hh | hh <;> simp [hh]
        · have : (x.id == ed.id) = false := by simpa using hxe
          simp only [this, Bool.false_eq_true, if_false] at hi hor
          exact Or.inl ⟨x, hx, hxe, hi, hor⟩
      · simp only [splitEdge, Option.some.injEq] at hi hor
        refine Or.inr (Or.inr ⟨hi.symm, ?_⟩)
        rcases hor with hh | hh <;> simp [hh]
    · rintro (⟨x, hx, hxe, hi, hor⟩ | ⟨hi, hor⟩ | ⟨hi, hor⟩)
      · refine ⟨x, Or.inl ⟨x, hx, ?_⟩, hi, hor⟩
        have : (x.id == ed.id) = false := by simpa using hxe
        simp [this]
      · refine ⟨_, Or.inl ⟨ed, hed, rfl⟩, ?_, ?_⟩
        · simp [hi]
        · simp only [beq_self_eq_true, if_true, Option.some.injEq]
          rcases hor with hh | hh <;> simp [hh]
      · refine ⟨_, Or.inr rfl, ?_, ?_⟩
        · simp [splitEdge, hi]
        · simp only [splitEdge, Option.some.injEq]
          rcases hor with hh | hh <;> simp [hh]
  refine ⟨?_, ?_, ?_, ?_, ?_, ?_, ?_⟩
  · -- nodupN
    show (HTree.graphV _).Nodup
    rw [hV, List.nodup_append]
    refine ⟨h.nodupN, by simp, ?_⟩
    intro a ha b hb hab
    simp only [List.mem_singleton] at hb
    have := hVlt a ha
    omega
  · -- nodupE
    have : (splitResult t ed source target p).edges.map (·.id) = t.edges.map (·.id) ++ [t.next + 1] := by
      simp only [splitResult, List.map_append, List.map_map, List.map_cons, List.map_nil, splitEdge]
      congr 1
      apply List.map_congr_left
      intro x _
      simp only [Function.comp]
      split <;> rfl
    rw [this, List.nodup_append]
    refine ⟨h.nodupE, by simp, ?_⟩
    intro a ha b hb hab
    simp only [List.mem_singleton] at hb
    obtain ⟨x, hx, rfl⟩ := List.mem_map.mp ha
    have := h.fresh.2 x hx
    omega
  · -- ends
    intro e' he'
    rw [hV]
    simp only [splitResult, List.mem_append, List.mem_map, List.mem_singleton] at he'
    rcases he' with ⟨x, hx, rfl⟩ | rfl
    · by_cases hxe : x.id = ed.id
      · refine ⟨source, t.next, by simp [hxe], by simp [hxe], ?_, ?_⟩
        · exact List.mem_append_left _ hsV
        · simp
      · obtain ⟨a, b, ha, hb, hav, hbv⟩ := h.ends x hx
        have : (x.id == ed.id) = false := by simpa using hxe
        refine ⟨a, b, by simp [this, ha], by simp [this, hb], List.mem_append_left _ hav,
          List.mem_append_left _ hbv⟩
    · exact ⟨t.next, target, rfl, rfl, by simp, List.mem_append_left _ htV⟩
  · -- nodupL
    intro n' hn'
    simp only [splitResult, List.mem_append, List.mem_map, List.mem_singleton] at hn'
    rcases hn' with ⟨n, hn, rfl⟩ | rfl
    · split
      · simp only
        rw [List.nodup_append]
        refine ⟨List.Nodup.sublist List.filter_sublist (h.nodupL n hn), by simp, ?_⟩
        intro a ha b hb hab
        simp only [List.mem_singleton] at hb
        have ha' := (List.mem_filter.mp ha).1
        obtain ⟨x, hx, hxi, _⟩ := (h.inc n hn a).mp ha'
        have := h.fresh.2 x hx
        omega
      · exact h.nodupL n hn
    · simp only [splitNode, List.nodup_cons, List.mem_singleton, List.not_mem_nil, not_false_eq_true,
        List.nodup_nil, and_true]
      omega
  · -- inc
    intro n' hn' i
    rw [key]
    simp only [splitResult, List.mem_append, List.mem_map, List.mem_singleton] at hn'
    rcases hn' with ⟨n, hn, rfl⟩ | rfl
    · have hnN : n.id < t.next := h.fresh.1 n hn
      by_cases hnt : n.id = target
      · simp only [hnt, beq_self_eq_true, if_true, List.mem_append, List.mem_filter, List.mem_singleton,
          bne_iff_ne, ne_eq]
        rw [incS n hn i, hnt]
        constructor
        · rintro (⟨(hh | ⟨hi, _⟩), hie⟩ | hi)
          · exact Or.inl hh
          · exact absurd hi hie
          · exact Or.inr (Or.inr ⟨hi, Or.inr trivial⟩)
        · rintro (⟨x, hx, hxe, hxi, hor⟩ | ⟨hi, hor⟩ | ⟨hi, _⟩)
          · exact Or.inl ⟨Or.inl ⟨x, hx, hxe, hxi, hor⟩, hxi ▸ hxe⟩
          · exfalso; rcases hor with hh | hh <;> omega
          · exact Or.inr hi
      · have : (n.id == target) = false := by simpa using hnt
        simp only [this, Bool.false_eq_true, if_false]
        rw [incS n hn i]
        constructor
        · rintro (hh | ⟨hi, hor⟩)
          · exact Or.inl hh
          · rcases hor with hh | hh
            · exact Or.inr (Or.inl ⟨hi, Or.inl hh⟩)
            · exact absurd hh hnt
        · rintro (hh | ⟨hi, hor⟩ | ⟨hi, hor⟩)
          · exact Or.inl hh
          · rcases hor with hh | hh
            · exact Or.inr ⟨hi, Or.inl hh⟩
            · omega
          · exfalso; rcases hor with hh | hh
            · omega
            · exact hnt hh
    · simp only [splitNode, List.mem_cons, List.not_mem_nil, or_false]
      constructor
      · rintro (hi | hi)
        · exact Or.inr (Or.inr ⟨hi, Or.inl trivial⟩)
        · exact Or.inr (Or.inl ⟨hi, Or.inr trivial⟩)
      · rintro (⟨x, hx, _, _, hor⟩ | ⟨hi, _⟩ | ⟨hi, _⟩)
        · have := hendlt x hx _ hor
          omega
        · exact Or.inr hi
        · exact Or.inl hi
  · intro n' hn'
    simp only [splitResult, List.mem_append, List.mem_map, List.mem_singleton] at hn'
    rcases hn' with ⟨n, hn, rfl⟩ | rfl
    · have := h.fresh.1 n hn
      show (if _ then _ else _ : HNode).id < t.next + 2
      split <;> exact Nat.lt_of_lt_of_le this (Nat.le_add_right _ _)
    · show t.next < t.next + 2
      omega
  · intro e' he'
    simp only [splitResult, List.mem_append, List.mem_map, List.mem_singleton] at he'
    rcases he' with ⟨x, hx, rfl⟩ | rfl
    · have := h.fresh.2 x hx
      show (if _ then _ else _ : HEdge).id < t.next + 2
      split <;> exact Nat.lt_of_lt_of_le this (Nat.le_add_right _ _)
    · show t.next + 1 < t.next + 2
      omega

/-- what `splitFromNodeAtPoint` does, as one record (`t' = splitResult …` exactly, see `split_spec`) -/
structure SplitSpec (t : HTree) (ed : HEdge) (source target : Nat) (p : AdaptaVerif.Model.Geometry.Pt)
    (t' : HTree) : Prop where
  wf : WF t'
  graphV : t'.graphV = t.graphV ++ [t.next]
  graphE : t'.graphE.Perm ((source, t.next) :: (t.next, target) :: restE t ed.id)
  next : t'.next = t.next + 2
  fixedConns : t'.fixedConns = t.fixedConns
  nodes : ∀ n' ∈ t'.nodes,
    (∃ n ∈ t.nodes, NodeKept n n' ∧
      n'.edges = if n.id = target then n.edges.filter (fun j => j != ed.id) ++ [t.next + 1] else n.edges) ∨
    n' = splitNode t ed.id p
  nodes' : ∀ n ∈ t.nodes, ∃ n' ∈ t'.nodes, n'.id = n.id
  newNode : splitNode t ed.id p ∈ t'.nodes
  edges : ∀ x' ∈ t'.edges,
    (∃ x ∈ t.edges, EdgeKept x x' ∧
      (if x.id = ed.id then x'.e1 = some source ∧ x'.e2 = some t.next
       else x'.e1 = x.e1 ∧ x'.e2 = x.e2)) ∨
    x' = splitEdge t target ed.conn
  edges' : ∀ x ∈ t.edges, ∃ x' ∈ t'.edges, x'.id = x.id
  newEdge : splitEdge t target ed.conn ∈ t'.edges

theorem split_spec {t : HTree} (h : WF t) {ed : HEdge} (hed : ed ∈ t.edges) {source target : Nat}
    (hj : Joins ed source target) (hst : source ≠ target) (p : AdaptaVerif.Model.Geometry.Pt) :
    splitFromNodeAtPoint t ed.id source p =
        some (splitResult t ed source target p, t.next, t.next + 1) ∧
      SplitSpec t ed source target p (splitResult t ed source target p) := by
  refine ⟨split_eq h hed hj hst p, splitResult_WF h hed hj hst p, splitResult_graphV _ _ _ _ _,
    splitResult_graphE h hed _ _ _, rfl, rfl, ?_, ?_, ?_, ?_, ?_, ?_⟩
  · intro n' hn'
    simp only [splitResult, List.mem_append, List.mem_map, List.mem_singleton] at hn'
    rcases hn' with ⟨n, hn, rfl⟩ | rfl
    · refine Or.inl ⟨n, hn, ?_, ?_⟩
      · split
        · exact ⟨rfl, rfl, rfl, rfl, rfl, rfl⟩
        · exact NodeKept.refl n
      · by_cases hnt : n.id = target <;> simp [hnt]
    · exact Or.inr rfl
  · intro n hn
    refine ⟨_, List.mem_append_left _ (List.mem_map.mpr ⟨n, hn, rfl⟩), ?_⟩
    split <;> rfl
  · simp [splitResult]
  · intro x' hx'
    simp only [splitResult, List.mem_append, List.mem_map, List.mem_singleton] at hx'
    rcases hx' with ⟨x, hx, rfl⟩ | rfl
    · refine Or.inl ⟨x, hx, ?_, ?_⟩
      · split
        · exact ⟨rfl, rfl, rfl⟩
        · exact EdgeKept.refl x
      · by_cases hxe : x.id = ed.id <;> simp [hxe]
    · exact Or.inr rfl
  · intro x hx
    refine ⟨_, List.mem_append_left _ (List.mem_map.mpr ⟨x, hx, rfl⟩), ?_⟩
    split <;> rfl
  · simp [splitResult]

theorem split_tree {t : HTree} (h : Tree t) {ed : HEdge} (hed : ed ∈ t.edges) {source target : Nat}
    (hj : Joins ed source target) (p : AdaptaVerif.Model.Geometry.Pt) :
    ∃ t', splitFromNodeAtPoint t ed.id source p = some (t', t.next, t.next + 1) ∧ Tree t' ∧
      SplitSpec t ed source target p t' := by
  have hst : source ≠ target := h.ne_of_joins hed hj
  obtain ⟨heq, hs⟩ := split_spec h.1 hed hj hst p
  refine ⟨_, heq, ⟨hs.wf, ?_⟩, hs⟩
  have hN : t.next ∉ t.graphV := by
    intro hm
    obtain ⟨n, hn, hid⟩ := WF.node_of_mem_graphV hm
    have := h.1.fresh.1 n hn
    omega
  have := isTree_subdivide (h.isTree_head hed hj) (List.Perm.refl _) hN
  refine isTree_congr ?_ hs.graphE.symm this
  intro v
  rw [hs.graphV]
  simp only [List.mem_append, List.mem_cons, List.not_mem_nil, or_false]
  exact Or.comm

end AdaptaVerif.Lemmas.HyperTree
