/-
The route libavoid reads back from the per-vertex `pathNext` pointers (`Model.AStar.routeOfChain`) is the
loop-erased node chain: it starts where the chain starts (the target), ends where the chain ends (the
source), visits no vertex twice, and each of its hops is a hop of the chain.
-/
import AdaptaVerif.Model.AStar
namespace AdaptaVerif.Lemmas.AStarRoute
open AdaptaVerif.Model.AStar

/-- `a` is immediately followed by `b` in `l` -/
def Hop (a b : Nat) (l : List Nat) : Prop := ∃ p q, l = p ++ a :: b :: q

theorem Hop.cons {a b : Nat} {l : List Nat} (x : Nat) (h : Hop a b l) : Hop a b (x :: l) := by
  obtain ⟨p, q, rfl⟩ := h
  exact ⟨x :: p, q, rfl⟩

theorem Hop.append_left {a b : Nat} {l : List Nat} (pre : List Nat) (h : Hop a b l) : Hop a b (pre ++ l) := by
  obtain ⟨p, q, rfl⟩ := h
  exact ⟨pre ++ p, q, by simp⟩

/-- `afterLast v l` is what follows the last occurrence of `v`, or all of `l` -/
theorem afterLast_spec (v : Nat) (l : List Nat) :
    (v ∈ l → ∃ pre, l = pre ++ v :: afterLast v l) ∧ (v ∉ l → afterLast v l = l) ∧ v ∉ afterLast v l := by
  induction l with
  | nil => simp [afterLast]
  | cons x xs ih =>
    obtain ⟨ih1, ih2, ih3⟩ := ih
    unfold afterLast
    by_cases hv : v ∈ xs
    · rw [if_pos hv]
      refine ⟨fun _ => ?_, fun hn => absurd (List.mem_cons_of_mem _ hv) hn, ih3⟩
      obtain ⟨pre, hpre⟩ := ih1 hv
      exact ⟨x :: pre, by rw [List.cons_append, ← hpre]⟩
    · rw [if_neg hv]
      by_cases hx : x = v
      · rw [if_pos hx]
        exact ⟨fun _ => ⟨[], by simp [hx]⟩, fun hn => absurd (by simp [hx]) hn, hv⟩
      · rw [if_neg hx]
        refine ⟨fun hm => ?_, fun _ => rfl, ?_⟩
        · rcases List.mem_cons.1 hm with h | h
          · exact absurd h.symm hx
          · exact absurd h hv
        · intro hm
          rcases List.mem_cons.1 hm with h | h
          · exact hx h.symm
          · exact hv h

theorem afterLast_length_le (v : Nat) (l : List Nat) : (afterLast v l).length ≤ l.length := by
  induction l with
  | nil => simp [afterLast]
  | cons x xs ih =>
    unfold afterLast
    split
    · simp only [List.length_cons]; omega
    · split <;> simp

/-- `afterLast v l` is a suffix of `l` -/
theorem afterLast_suffix (v : Nat) (l : List Nat) : ∃ pre, l = pre ++ afterLast v l := by
  by_cases h : v ∈ l
  · obtain ⟨pre, hp⟩ := (afterLast_spec v l).1 h
    exact ⟨pre ++ [v], by simpa using hp⟩
  · exact ⟨[], by simp [(afterLast_spec v l).2.1 h]⟩

theorem route_nil (fuel : Nat) : routeOfChain fuel [] = [] := by cases fuel <;> rfl

theorem getLast?_suffix (pre s : List Nat) (hs : s ≠ []) : (pre ++ s).getLast? = s.getLast? := by
  induction pre with
  | nil => rfl
  | cons x xs ih =>
    have : xs ++ s ≠ [] := by simp [hs]
    rw [List.cons_append]
    cases h : xs ++ s with
    | nil => exact absurd h this
    | cons y ys => rw [List.getLast?_cons_cons, ← h, ih]

theorem route_props : ∀ (n : Nat) (fuel : Nat) (chain : List Nat), chain.length ≤ n → chain.length ≤ fuel →
    (∀ x ∈ routeOfChain fuel chain, x ∈ chain) ∧
    (routeOfChain fuel chain).Nodup ∧
    (routeOfChain fuel chain).head? = chain.head? ∧
    (routeOfChain fuel chain).getLast? = chain.getLast? ∧
    (∀ a b, Hop a b (routeOfChain fuel chain) → Hop a b chain) := by
  intro n
  induction n with
  | zero =>
    intro fuel chain hn _
    have : chain = [] := List.eq_nil_of_length_eq_zero (Nat.le_zero.1 hn)
    subst this
    rw [route_nil]; simp [Hop]
  | succ n ih =>
    intro fuel chain hn hf
    cases chain with
    | nil => rw [route_nil]; simp [Hop]
    | cons v rest =>
      cases fuel with
      | zero => simp at hf
      | succ fuel =>
        have hl := afterLast_length_le v rest
        simp only [List.length_cons] at hn hf
        obtain ⟨i1, i2, i3, i4, i5⟩ := ih fuel (afterLast v rest) (by omega) (by omega)
        obtain ⟨hin, hout, hnot⟩ := afterLast_spec v rest
        obtain ⟨pre, hpre⟩ := afterLast_suffix v rest
        have hsub : ∀ x ∈ afterLast v rest, x ∈ rest := by
          intro x hx; rw [hpre]; exact List.mem_append_right _ hx
        simp only [routeOfChain]
        refine ⟨?_, ?_, rfl, ?_, ?_⟩
        · intro x hx
          rcases List.mem_cons.1 hx with h | h
          · rw [h]; exact List.mem_cons_self ..
          · exact List.mem_cons_of_mem _ (hsub x (i1 x h))
        · rw [List.nodup_cons]
          exact ⟨fun hm => hnot (i1 v hm), i2⟩
        · -- last vertex
          generalize hA : afterLast v rest = A at *
          cases A with
          | nil =>
            rw [route_nil]
            by_cases hv : v ∈ rest
            · obtain ⟨p, hp⟩ := hin hv
              rw [hp]
              show [v].getLast? = (v :: (p ++ [v])).getLast?
              rw [show v :: (p ++ [v]) = (v :: p) ++ [v] from rfl, getLast?_suffix _ _ (by simp)]
            · rw [← hout hv]
          | cons c ct =>
            cases hr : routeOfChain fuel (c :: ct) with
            | nil => rw [hr] at i3; simp at i3
            | cons a t =>
              rw [hr] at i4
              rw [List.getLast?_cons_cons, i4, hpre]
              rw [show v :: (pre ++ c :: ct) = (v :: pre) ++ c :: ct from rfl, getLast?_suffix _ _ (by simp)]
        · intro a b hab
          obtain ⟨p, q, hpq⟩ := hab
          cases p with
          | nil =>
            simp only [List.nil_append, List.cons.injEq] at hpq
            obtain ⟨hav, hq⟩ := hpq
            subst hav
            have hb : (afterLast v rest).head? = some b := by rw [← i3, hq]; rfl
            generalize hA : afterLast v rest = A at *
            cases A with
            | nil => simp at hb
            | cons c ct =>
              simp only [List.head?_cons, Option.some.injEq] at hb; subst hb
              by_cases hv : v ∈ rest
              · obtain ⟨p2, hp2⟩ := hin hv
                exact ⟨v :: p2, ct, by rw [hp2]; rfl⟩
              · exact ⟨[], ct, by rw [← hout hv]; rfl⟩
          | cons x p' =>
            simp only [List.cons_append, List.cons.injEq] at hpq
            obtain ⟨_, hq⟩ := hpq
            have := i5 a b ⟨p', q, hq⟩
            have h2 : Hop a b rest := by rw [hpre]; exact Hop.append_left _ this
            exact Hop.cons _ h2

end AdaptaVerif.Lemmas.AStarRoute
