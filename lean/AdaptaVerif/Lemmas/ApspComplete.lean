/-
C17 — completeness of `checkApsp`: the exact distance matrix of a valid graph is accepted, so a
rejection (SPECFAIL) always means the examined matrix is NOT the shortest-path matrix.

The only non-trivial part is the tight-edge closure: it reaches a fixpoint within `n` sweeps
(counting argument: every changing sweep marks a new vertex), and a fixpoint containing the
source contains every vertex with a finite exact distance (walk induction: every prefix of a
minimum walk is a minimum walk, so its last edge is tight).
-/
import AdaptaVerif.Lemmas.ApspCheck
namespace AdaptaVerif.Lemmas.Apsp
open AdaptaVerif.Model.ShortestPaths AdaptaVerif.Spec.Apsp AdaptaVerif.Check.Apsp

/-! ### counting marks -/

def cnt (r : Array Bool) : Nat := r.count true

theorem cnt_le (r : Array Bool) : cnt r ≤ r.size := Array.count_le_size

theorem marked_false_get {r : Array Bool} {v : Nat} (hv : v < r.size) (h : marked r v = false) : r[v] = false := by
  unfold marked at h
  rw [Array.getElem?_eq_getElem hv] at h
  simpa using h

theorem cnt_mark {r : Array Bool} {v : Nat} (hv : v < r.size) (h : marked r v = false) :
    cnt (r.setIfInBounds v true) = cnt r + 1 := by
  unfold cnt
  have : r.setIfInBounds v true = r.set v true hv := by
    unfold Array.setIfInBounds; simp [hv]
  rw [this, Array.count_set hv, marked_false_get hv h]
  simp

theorem marked_set_self {r : Array Bool} {v : Nat} (hv : v < r.size) : marked (r.setIfInBounds v true) v = true := by
  unfold marked
  rw [Array.getElem?_setIfInBounds]
  simp [hv]

theorem marked_set_mono {r : Array Bool} {v x : Nat} (h : marked r x = true) : marked (r.setIfInBounds v true) x = true := by
  unfold marked at h ⊢
  rw [Array.getElem?_setIfInBounds]
  by_cases hvx : v = x
  · subst hvx
    by_cases hs : v < r.size
    · simp [hs]
    · have : r[v]? = none := Array.getElem?_eq_none (Nat.le_of_not_lt hs)
      rw [this] at h; simp at h
  · simp [hvx, h]

/-! ### one `tryMark` -/

/-- the firing condition of `tryMark` -/
def fires (d : Nat → Dist) (r : Array Bool) (u v : Nat) (w : Rat) : Bool :=
  marked r u && !marked r v && tight d u v w

theorem tryMark_fire {d : Nat → Dist} {st : Array Bool × Bool} {u v : Nat} {w : Rat}
    (h : fires d st.1 u v w = true) : tryMark d st u v w = (st.1.setIfInBounds v true, true) := by
  unfold tryMark; unfold fires at h; rw [if_pos h]

theorem tryMark_nofire {d : Nat → Dist} {st : Array Bool × Bool} {u v : Nat} {w : Rat}
    (h : fires d st.1 u v w = false) : tryMark d st u v w = st := by
  unfold tryMark; unfold fires at h; rw [if_neg (by simp [h])]

/-- bookkeeping kept by every `tryMark` whose target vertex is in range -/
structure Prog (r0 : Array Bool) (st : Array Bool × Bool) : Prop where
  size : st.1.size = r0.size
  mono : ∀ x, marked r0 x = true → marked st.1 x = true
  count : cnt r0 ≤ cnt st.1
  strict : st.2 = true → cnt r0 < cnt st.1

theorem tryMark_prog {d : Nat → Dist} {r0 : Array Bool} {st : Array Bool × Bool} (h : Prog r0 st)
    {u v : Nat} (w : Rat) (hv : v < r0.size) : Prog r0 (tryMark d st u v w) := by
  cases hf : fires d st.1 u v w with
  | false => rw [tryMark_nofire hf]; exact h
  | true =>
    rw [tryMark_fire hf]
    unfold fires at hf
    simp only [Bool.and_eq_true, Bool.not_eq_true'] at hf
    have hvs : v < st.1.size := by rw [h.size]; exact hv
    have hc := cnt_mark hvs hf.1.2
    constructor
    · simp only; rw [Array.size_setIfInBounds]; exact h.size
    · intro x hx; exact marked_set_mono (h.mono x hx)
    · simp only; rw [hc]; have := h.count; omega
    · intro _; simp only; rw [hc]; have := h.count; omega

/-! ### one sweep -/

def sweepStep (d : Nat → Dist) (st : Array Bool × Bool) (e : Nat × Nat × Rat) : Array Bool × Bool :=
  tryMark d (tryMark d st e.1 e.2.1 e.2.2) e.2.1 e.1 e.2.2

theorem sweep_eq (es : List (Nat × Nat × Rat)) (d : Nat → Dist) (r : Array Bool) :
    sweep es d r = es.foldl (sweepStep d) (r, false) := rfl

theorem sweep_fold_prog {d : Nat → Dist} {r0 : Array Bool} :
    ∀ (es : List (Nat × Nat × Rat)), (∀ e ∈ es, e.1 < r0.size ∧ e.2.1 < r0.size) →
      ∀ st, Prog r0 st → Prog r0 (es.foldl (sweepStep d) st) := by
  intro es
  induction es with
  | nil => intro _ st h; exact h
  | cons e rest ih =>
    intro hlt st h
    rw [List.foldl_cons]
    have he := hlt e (List.mem_cons_self)
    exact ih (fun e' he' => hlt e' (List.mem_cons_of_mem _ he')) _
      (tryMark_prog (tryMark_prog h e.2.2 he.2) e.2.2 he.1)

theorem tryMark_flag_false {d : Nat → Dist} {st : Array Bool × Bool} {u v : Nat} {w : Rat}
    (h : (tryMark d st u v w).2 = false) : tryMark d st u v w = st ∧ fires d st.1 u v w = false := by
  cases hf : fires d st.1 u v w with
  | false => exact ⟨tryMark_nofire hf, rfl⟩
  | true => rw [tryMark_fire hf] at h; simp at h

/-- a sweep that reports "unchanged" changed nothing and found no firing edge -/
theorem sweep_fold_unchanged {d : Nat → Dist} :
    ∀ (es : List (Nat × Nat × Rat)) (st : Array Bool × Bool), (es.foldl (sweepStep d) st).2 = false →
      es.foldl (sweepStep d) st = st ∧
      ∀ e ∈ es, fires d st.1 e.1 e.2.1 e.2.2 = false ∧ fires d st.1 e.2.1 e.1 e.2.2 = false := by
  intro es
  induction es with
  | nil => intro st _; exact ⟨rfl, fun e he => by cases he⟩
  | cons e rest ih =>
    intro st h
    rw [List.foldl_cons] at h ⊢
    obtain ⟨heq, hrest⟩ := ih _ h
    rw [heq] at h
    unfold sweepStep at h
    obtain ⟨h2eq, h2f⟩ := tryMark_flag_false h
    rw [h2eq] at h
    obtain ⟨h1eq, h1f⟩ := tryMark_flag_false h
    rw [h1eq] at h2f
    have hstep : sweepStep d st e = st := by unfold sweepStep; rw [h2eq, h1eq]
    rw [hstep] at heq hrest ⊢
    refine ⟨heq, ?_⟩
    intro e' he'
    rcases List.mem_cons.mp he' with rfl | he''
    · exact ⟨h1f, h2f⟩
    · exact hrest e' he''

/-- closed under tight edges of the graph -/
def TightClosed (g : Graph) (d : Nat → Dist) (r : Array Bool) : Prop :=
  ∀ u v w, HasEdge g u v w → marked r u = true → tight d u v w = true → marked r v = true

theorem closed_of_unchanged {g : Graph} {d : Nat → Dist} {r : Array Bool}
    (h : (sweep g.edges d r).2 = false) : (sweep g.edges d r).1 = r ∧ TightClosed g d r := by
  rw [sweep_eq] at h ⊢
  obtain ⟨heq, hno⟩ := sweep_fold_unchanged g.edges (r, false) h
  refine ⟨by rw [heq], ?_⟩
  intro u v w he hu ht
  have key : ∀ a b, (fires d r a b w = false) → marked r a = true → tight d a b w = true → marked r b = true := by
    intro a b hf ha htab
    unfold fires at hf
    rw [ha, htab] at hf
    simpa using hf
  rcases he with he | he
  · exact key u v (hno _ he).1 hu ht
  · exact key u v (hno _ he).2 hu ht

/-! ### the closure loop -/

theorem closure_closed {g : Graph} (hv : Valid g) {d : Nat → Dist} :
    ∀ (fuel : Nat) (r : Array Bool), r.size = g.n → g.n < fuel + cnt r →
      TightClosed g d (closure g.edges d fuel r) ∧
      ∀ x, marked r x = true → marked (closure g.edges d fuel r) x = true := by
  intro fuel
  induction fuel with
  | zero =>
    intro r hsz hc
    have := cnt_le r
    omega
  | succ f ih =>
    intro r hsz hc
    unfold closure
    simp only
    have hlt : ∀ e ∈ g.edges, e.1 < r.size ∧ e.2.1 < r.size := by
      intro e he; rw [hsz]; exact ⟨(hv e he).1, (hv e he).2.1⟩
    have hprog : Prog r (sweep g.edges d r) := by
      rw [sweep_eq]
      exact sweep_fold_prog g.edges hlt _ ⟨rfl, fun _ h => h, le_refl _, fun h => by simp at h⟩
    by_cases hch : (sweep g.edges d r).2 = true
    · rw [if_pos hch]
      have hs := hprog.strict hch
      obtain ⟨h1, h2⟩ := ih (sweep g.edges d r).1 (by rw [hprog.size]; exact hsz) (by omega)
      exact ⟨h1, fun x hx => h2 x (hprog.mono x hx)⟩
    · rw [if_neg hch]
      have hch' : (sweep g.edges d r).2 = false := by simpa using hch
      obtain ⟨heq, hcl⟩ := closed_of_unchanged hch'
      rw [heq]
      exact ⟨hcl, fun _ h => h⟩

theorem reachTight_closed {g : Graph} (hv : Valid g) (d : Nat → Dist) {i : Nat} (hi : i < g.n) :
    TightClosed g d (reachTight g d i) ∧ marked (reachTight g d i) i = true := by
  unfold reachTight
  have hsz : ((Array.replicate g.n false).setIfInBounds i true).size = g.n := by simp
  have hi' : i < (Array.replicate g.n false).size := by simp [hi]
  have hm0 : marked (Array.replicate g.n false) i = false := by
    unfold marked; rw [Array.getElem?_replicate]; simp [hi]
  have hc : cnt ((Array.replicate g.n false).setIfInBounds i true) = cnt (Array.replicate g.n false) + 1 :=
    cnt_mark hi' hm0
  obtain ⟨h1, h2⟩ := closure_closed hv (d := d) g.n _ hsz (by omega)
  exact ⟨h1, h2 i (marked_set_self hi')⟩

/-! ### exact distances pass the check -/

theorem isDist_diag {g : Graph} (hv : Valid g) {i : Nat} (hi : i < g.n) {x : Dist} (h : IsDist g i i x) : x = some 0 := by
  cases x with
  | none => exact absurd (Walk.nil hi) (h 0)
  | some d =>
    have h1 := h.2 0 (Walk.nil hi)
    have h2 := Walk.nonneg hv h.1
    rw [le_antisymm h1 h2]

theorem isDist_relaxOk {g : Graph} {d : Nat → Dist} {i : Nat} (hd : ∀ j, j < g.n → IsDist g i j (d j)) (hv : Valid g)
    {u v : Nat} {w : Rat} (he : HasEdge g u v w) : relaxOk d u v w = true := by
  have hb := HasEdge.valid hv he
  unfold relaxOk
  cases hu : d u with
  | none => rfl
  | some a =>
    have hdu := hd u hb.1
    rw [hu] at hdu
    have hwalk : Walk g i v (a + w) := Walk.snoc hdu.1 he
    have hdv := hd v hb.2.1
    cases hv' : d v with
    | none => rw [hv'] at hdv; exact absurd hwalk (hdv _)
    | some b =>
      rw [hv'] at hdv
      simpa using hdv.2 _ hwalk

/-- every vertex with a finite exact distance lies in every tight-closed set containing the source -/
theorem closed_contains {g : Graph} (hv : Valid g) {d : Nat → Dist} {i : Nat}
    (hd : ∀ j, j < g.n → IsDist g i j (d j)) {r : Array Bool} (hcl : TightClosed g d r) (hri : marked r i = true) :
    ∀ {j : Nat} {c : Rat}, Walk g i j c → d j = some c → marked r j = true := by
  intro j c hw
  induction hw with
  | nil _ => intro _; exact hri
  | @snoc m k c w hwalk he ih =>
    intro hk
    have hm := (Walk.ends hv hwalk).2
    have hdm := hd m hm
    cases hdmv : d m with
    | none => rw [hdmv] at hdm; exact absurd hwalk (hdm _)
    | some a =>
      rw [hdmv] at hdm
      have h1 : a ≤ c := hdm.2 c hwalk
      have hdk := hd k (HasEdge.valid hv he).2.1
      rw [hk] at hdk
      have h2 : c + w ≤ a + w := hdk.2 _ (Walk.snoc hdm.1 he)
      have hac : a = c := le_antisymm h1 (by linarith)
      have hmarked : marked r m = true := ih (by rw [hdmv, hac])
      apply hcl m k w he hmarked
      unfold tight
      rw [hdmv, hk]
      simp [hac]

theorem sourceOk_complete {g : Graph} (hv : Valid g) {d : Nat → Dist} {i : Nat} (hi : i < g.n)
    (hd : ∀ j, j < g.n → IsDist g i j (d j)) : sourceOk g d i = true := by
  unfold sourceOk
  simp only [Bool.and_eq_true, decide_eq_true_eq]
  refine ⟨⟨isDist_diag hv hi (hd i hi), ?_⟩, ?_⟩
  · unfold feasible
    rw [List.all_eq_true]
    intro e he
    have h1 : HasEdge g e.1 e.2.1 e.2.2 := Or.inl he
    simp only [Bool.and_eq_true]
    exact ⟨isDist_relaxOk hd hv h1, isDist_relaxOk hd hv (HasEdge.symm h1)⟩
  · rw [List.all_eq_true]
    intro j hj
    have hjn := List.mem_range.mp hj
    obtain ⟨hcl, hri⟩ := reachTight_closed hv d hi
    cases hdj : d j with
    | none => simp
    | some c =>
      have hdist := hd j hjn
      rw [hdj] at hdist
      simp only [Option.isNone_some, Bool.false_or]
      exact closed_contains hv hd hcl hri hdist.1 hdj

theorem isApsp_symmetric {g : Graph} (hv : Valid g) {D : Nat → Nat → Dist} (h : IsApsp g D) :
    symmetric g.n D = true := by
  unfold symmetric
  rw [List.all_eq_true]
  intro i hi
  rw [List.all_eq_true]
  intro j hj
  have hi' := List.mem_range.mp hi
  have hj' := List.mem_range.mp hj
  simp only [decide_eq_true_eq]
  apply IsDist.unique (h i j hi' hj')
  have hji := h j i hj' hi'
  cases hx : D j i with
  | none =>
    rw [hx] at hji
    intro c hw
    exact hji c (Walk.reverse hv hw)
  | some x =>
    rw [hx] at hji
    exact ⟨Walk.reverse hv hji.1, fun c hw => hji.2 c (Walk.reverse hv hw)⟩

end AdaptaVerif.Lemmas.Apsp
