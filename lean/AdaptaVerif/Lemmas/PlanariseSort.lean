/-
`std::sort` (libstdc++ insertion sort, `Model.Planarise.stdSort`) and util.h `partition`
(`Model.Planarise.partition`): permutation for every comparator, sortedness for strict weak orders,
and the parts of `partition` on keys that are equal or more than the tolerance apart.
-/
import AdaptaVerif.Model.Planarise
import AdaptaVerif.Lemmas.StrictWeakOrder
namespace AdaptaVerif.Lemmas.Planarise
open AdaptaVerif.Model.Planarise AdaptaVerif.Lemmas.SWO

variable {α : Type}

theorem insRev_perm (lt : α → α → Bool) (v : α) (l : List α) : (insRev lt v l).Perm (v :: l) := by
  induction l with
  | nil => simp [insRev]
  | cons e r ih =>
    simp only [insRev]
    split
    · exact ((List.Perm.cons e ih).trans (List.Perm.swap v e r))
    · exact List.Perm.refl _

theorem insStep_perm (lt : α → α → Bool) (acc : List α) (v : α) : (insStep lt acc v).Perm (v :: acc) := by
  unfold insStep
  split
  · rename_i h
    have : acc = [] := by simpa using h
    subst this; simp
  · split
    · exact List.perm_append_singleton v acc
    · exact insRev_perm lt v acc

theorem foldl_insStep_perm (lt : α → α → Bool) (l : List α) :
    ∀ acc, (l.foldl (insStep lt) acc).Perm (l ++ acc) := by
  induction l with
  | nil => intro acc; simp
  | cons v r ih =>
    intro acc
    simp only [List.foldl_cons]
    refine (ih _).trans ?_
    refine (List.Perm.append_left r (insStep_perm lt acc v)).trans ?_
    simp

theorem stdSort_perm (lt : α → α → Bool) (l : List α) : (stdSort lt l).Perm l := by
  unfold stdSort
  refine (List.reverse_perm _).trans ?_
  simpa using foldl_insStep_perm lt l []

theorem stdSort_mem (lt : α → α → Bool) (l : List α) (a : α) : a ∈ stdSort lt l ↔ a ∈ l :=
  (stdSort_perm lt l).mem_iff

theorem IsSWO.negTrans {lt : α → α → Bool} (h : IsSWO lt) (a b c : α)
    (h1 : lt a b = false) (h2 : lt b c = false) : lt a c = false := by
  cases hac : lt a c with
  | false => rfl
  | true =>
    cases hba : lt b a with
    | true => have := h.trans b a c hba hac; simp [h2] at this
    | false =>
      cases hcb : lt c b with
      | true => have := h.trans a c b hac hcb; simp [h1] at this
      | false => have := (h.incomp_trans a b c h1 hba h2 hcb).1; simp [hac] at this

theorem insRev_mem (lt : α → α → Bool) (v : α) (l : List α) (x : α) :
    x ∈ insRev lt v l ↔ x = v ∨ x ∈ l := by
  simpa using (insRev_perm lt v l).mem_iff (a := x)

/-- the reversed sorted prefix stays sorted -/
theorem insRev_sorted {lt : α → α → Bool} (h : IsSWO lt) (v : α) (l : List α)
    (hl : l.Pairwise (fun a b => lt a b = false)) :
    (insRev lt v l).Pairwise (fun a b => lt a b = false) := by
  induction l with
  | nil => simp [insRev]
  | cons e r ih =>
    rw [List.pairwise_cons] at hl
    simp only [insRev]
    split
    · rename_i hve
      rw [List.pairwise_cons]
      refine ⟨?_, ih hl.2⟩
      intro x hx
      rcases (insRev_mem lt v r x).1 hx with rfl | hx
      · exact h.asymm _ _ hve
      · exact hl.1 x hx
    · rename_i hve
      have hve : lt v e = false := by simpa using hve
      rw [List.pairwise_cons]
      refine ⟨?_, List.pairwise_cons.2 hl⟩
      intro x hx
      rcases List.mem_cons.1 hx with rfl | hx
      · exact hve
      · exact IsSWO.negTrans h v e x hve (hl.1 x hx)

theorem insStep_sorted {lt : α → α → Bool} (h : IsSWO lt) (acc : List α) (v : α)
    (hl : acc.Pairwise (fun a b => lt a b = false)) :
    (insStep lt acc v).Pairwise (fun a b => lt a b = false) := by
  unfold insStep
  split
  · simp
  · rename_i f hf
    split
    · rename_i hvf
      rw [List.pairwise_append]
      refine ⟨hl, by simp, ?_⟩
      intro x hx y hy
      have hy : y = v := by simpa using hy
      subst hy
      -- x is not after the first element f, and y < f
      have hfl : f ∈ acc := List.mem_of_getLast? hf
      have hxf : lt x f = false := by
        obtain ⟨pre, rfl⟩ : ∃ pre, acc = pre ++ [f] := by
          have hne : acc ≠ [] := by intro h0; simp [h0] at hf
          refine ⟨acc.dropLast, ?_⟩
          have h1 := List.dropLast_concat_getLast hne
          have h2 : acc.getLast hne = f := by
            have := List.getLast?_eq_some_getLast hne
            rw [hf] at this; exact (Option.some.inj this).symm
          rw [h2] at h1; exact h1.symm
        rw [List.pairwise_append] at hl
        rcases List.mem_append.1 hx with hx | hx
        · exact hl.2.2 x hx f (by simp)
        · have : x = f := by simpa using hx
          subst this; exact h.irrefl _
      cases hxy : lt x y with
      | false => rfl
      | true => have := h.trans x y f hxy hvf; simp [hxf] at this
    · exact insRev_sorted h v acc hl

theorem foldl_insStep_sorted {lt : α → α → Bool} (h : IsSWO lt) (l : List α) :
    ∀ acc, acc.Pairwise (fun a b => lt a b = false) →
      (l.foldl (insStep lt) acc).Pairwise (fun a b => lt a b = false) := by
  induction l with
  | nil => intro acc hacc; simpa using hacc
  | cons v r ih => intro acc hacc; exact ih _ (insStep_sorted h acc v hacc)

theorem stdSort_sorted (lt : α → α → Bool) (h : IsSWO lt) (l : List α) :
    (stdSort lt l).Pairwise (fun a b => lt b a = false) := by
  unfold stdSort
  rw [List.pairwise_reverse]
  exact foldl_insStep_sorted h l [] List.Pairwise.nil



/-! ### sortedness for comparators that are `key a < key b` on the elements being sorted -/

theorem insRev_sortedK (lt : α → α → Bool) (key : α → Rat) (D : α → Prop)
    (hD : ∀ a b, D a → D b → (lt a b = true ↔ key a < key b))
    (v : α) (hv : D v) (l : List α) (hl : ∀ x ∈ l, D x)
    (hs : l.Pairwise (fun a b => key b ≤ key a)) :
    (insRev lt v l).Pairwise (fun a b => key b ≤ key a) := by
  induction l with
  | nil => simp [insRev]
  | cons e r ih =>
    rw [List.pairwise_cons] at hs
    have he : D e := hl e (by simp)
    have hr : ∀ x ∈ r, D x := fun x hx => hl x (by simp [hx])
    simp only [insRev]
    split
    · rename_i hve
      have hve' : key v < key e := (hD v e hv he).1 hve
      rw [List.pairwise_cons]
      refine ⟨?_, ih hr hs.2⟩
      intro x hx
      rcases (insRev_mem lt v r x).1 hx with rfl | hx
      · exact Rat.le_of_lt hve'
      · exact hs.1 x hx
    · rename_i hve
      have hve' : ¬ key v < key e := fun h => hve ((hD v e hv he).2 h)
      have hev : key e ≤ key v := Rat.not_lt.1 hve'
      rw [List.pairwise_cons]
      refine ⟨?_, List.pairwise_cons.2 hs⟩
      intro x hx
      rcases List.mem_cons.1 hx with rfl | hx
      · exact hev
      · exact Rat.le_trans (hs.1 x hx) hev

theorem insStep_sortedK (lt : α → α → Bool) (key : α → Rat) (D : α → Prop)
    (hD : ∀ a b, D a → D b → (lt a b = true ↔ key a < key b))
    (acc : List α) (v : α) (hv : D v) (hl : ∀ x ∈ acc, D x)
    (hs : acc.Pairwise (fun a b => key b ≤ key a)) :
    (insStep lt acc v).Pairwise (fun a b => key b ≤ key a) := by
  unfold insStep
  split
  · simp
  · rename_i f hf
    split
    · rename_i hvf
      have hne : acc ≠ [] := by intro h0; simp [h0] at hf
      have hfl : f ∈ acc := List.mem_of_getLast? hf
      have hvf' : key v < key f := (hD v f hv (hl f hfl)).1 hvf
      obtain ⟨pre, hpre⟩ : ∃ pre, acc = pre ++ [f] := by
        refine ⟨acc.dropLast, ?_⟩
        have h1 := List.dropLast_concat_getLast hne
        have h2 : acc.getLast hne = f := by
          have := List.getLast?_eq_some_getLast hne
          rw [hf] at this; exact (Option.some.inj this).symm
        rw [h2] at h1; exact h1.symm
      rw [List.pairwise_append]
      refine ⟨hs, by simp, ?_⟩
      intro x hx y hy
      have hy : y = v := by simpa using hy
      subst hy
      have hfx : key f ≤ key x := by
        subst hpre
        rw [List.pairwise_append] at hs
        rcases List.mem_append.1 hx with hx | hx
        · exact hs.2.2 x hx f (by simp)
        · have : x = f := by simpa using hx
          subst this; exact Rat.le_refl
      grind
    · exact insRev_sortedK lt key D hD v hv acc hl hs

theorem insStep_mem (lt : α → α → Bool) (acc : List α) (v x : α) :
    x ∈ insStep lt acc v ↔ x = v ∨ x ∈ acc := by
  simpa using (insStep_perm lt acc v).mem_iff (a := x)

theorem foldl_insStep_sortedK (lt : α → α → Bool) (key : α → Rat) (D : α → Prop)
    (hD : ∀ a b, D a → D b → (lt a b = true ↔ key a < key b)) (l : List α) :
    ∀ acc, (∀ x ∈ l, D x) → (∀ x ∈ acc, D x) → acc.Pairwise (fun a b => key b ≤ key a) →
      (l.foldl (insStep lt) acc).Pairwise (fun a b => key b ≤ key a) := by
  induction l with
  | nil => intro acc _ _ hacc; simpa using hacc
  | cons v r ih =>
    intro acc hl hacc hs
    refine ih _ (fun x hx => hl x (by simp [hx])) ?_ (insStep_sortedK lt key D hD acc v (hl v (by simp)) hacc hs)
    intro x hx
    rcases (insStep_mem lt acc v x).1 hx with rfl | hx
    · exact hl _ (by simp)
    · exact hacc x hx

/-- if the comparator is `key a < key b` on the elements of `l`, the result is ascending in `key` -/
theorem stdSort_sorted_key (lt : α → α → Bool) (key : α → Rat) (l : List α)
    (h : ∀ a ∈ l, ∀ b ∈ l, (lt a b = true ↔ key a < key b)) :
    (stdSort lt l).Pairwise (fun a b => key a ≤ key b) := by
  unfold stdSort
  rw [List.pairwise_reverse]
  exact foldl_insStep_sortedK lt key (· ∈ l) (fun a b ha hb => h a ha b hb) l [] (fun x hx => hx)
    (by simp) List.Pairwise.nil



/-- two coordinates are equal or more than 1 (≥ every tolerance of the planariser) apart -/
def Apart (a b : Rat) : Prop := a = b ∨ a + 1 < b ∨ b + 1 < a

theorem avg_same (n : Nat) (a : Rat) : ((n : Rat) * a + a) / ((n : Rat) + 1) = a := by
  have h1 : (n : Rat) * a + a = a * ((n : Rat) + 1) := by grind
  have h0 : (0 : Rat) ≤ (n : Rat) := by exact_mod_cast Nat.zero_le n
  have h2 : ((n : Rat) + 1) ≠ 0 := by grind
  rw [h1, Rat.mul_div_cancel h2]

/-- parts of `partGo`: the first part continues `cur` with the items whose key equals `avg`, every later part
has a constant, strictly larger key, keys increase from part to part, nothing is lost or reordered -/
theorem partGo_spec (key : α → Rat) (tol : Rat) (ht0 : 0 ≤ tol) (ht1 : tol < 1) :
    ∀ (rest cur : List α) (avg : Rat) (n : Nat),
      (∀ a ∈ cur, key a = avg) →
      rest.Pairwise (fun a b => key a ≤ key b) → (∀ b ∈ rest, avg ≤ key b) →
      (∀ b ∈ rest, Apart avg (key b)) → (∀ a ∈ rest, ∀ b ∈ rest, Apart (key a) (key b)) →
      ∃ first others, partGo key tol rest cur avg n = first :: others ∧
        (∀ a ∈ first, key a = avg) ∧ (cur ≠ [] → first ≠ []) ∧
        (∀ p ∈ others, ∀ a ∈ p, avg < key a) ∧
        (first :: others).flatten = cur.reverse ++ rest ∧
        (∀ p ∈ others, p ≠ [] ∧ ∃ X, ∀ a ∈ p, key a = X) ∧
        others.Pairwise (fun p q => ∀ a ∈ p, ∀ b ∈ q, key a < key b) := by
  intro rest
  induction rest with
  | nil =>
    intro cur avg n hcur _ _ _ _
    refine ⟨cur.reverse, [], by simp [partGo], ?_, ?_, by simp, by simp, by simp, by simp⟩
    · intro a ha; exact hcur a (by simpa using ha)
    · intro h; simpa using h
  | cons it rest ih =>
    intro cur avg n hcur hs hle hap1 hap2
    rw [List.pairwise_cons] at hs
    have hk : avg ≤ key it := hle it (by simp)
    have hapk : Apart avg (key it) := hap1 it (by simp)
    simp only [partGo]
    split
    · rename_i hin
      have hkeq : key it = avg := by
        unfold absR at hin
        rcases hapk with h | h | h
        · exact h.symm
        · split at hin <;> grind
        · grind
      rw [hkeq, avg_same]
      obtain ⟨first, others, h1, h2, h3, h4, h5, h6, h7⟩ := ih (it :: cur) avg (n + 1)
        (by intro a ha; rcases List.mem_cons.1 ha with rfl | ha; exact hkeq; exact hcur a ha)
        hs.2 (fun b hb => hle b (by simp [hb])) (fun b hb => hap1 b (by simp [hb]))
        (fun a ha b hb => hap2 a (by simp [ha]) b (by simp [hb]))
      refine ⟨first, others, h1, h2, fun _ => h3 (by simp), h4, ?_, h6, h7⟩
      rw [h5]; simp
    · rename_i hin
      have hgt : avg + 1 < key it := by
        unfold absR at hin
        rcases hapk with h | h | h
        · rw [← h] at hin; exact absurd (by split <;> grind) hin
        · exact h
        · grind
      obtain ⟨first, others, h1, h2, h3, h4, h5, h6, h7⟩ := ih [it] (key it) 1
        (by intro a ha; have : a = it := by simpa using ha
            rw [this])
        hs.2 (fun b hb => hs.1 b hb) (fun b hb => hap2 it (by simp) b (by simp [hb]))
        (fun a ha b hb => hap2 a (by simp [ha]) b (by simp [hb]))
      refine ⟨cur.reverse, first :: others, by rw [h1], ?_, ?_, ?_, ?_, ?_, ?_⟩
      · intro a ha; exact hcur a (by simpa using ha)
      · intro h; simpa using h
      · intro p hp a ha
        rcases List.mem_cons.1 hp with rfl | hp
        · rw [h2 a ha]; grind
        · have := h4 p hp a ha; grind
      · simp only [List.flatten_cons] at h5 ⊢
        rw [h5]; simp
      · intro p hp
        rcases List.mem_cons.1 hp with rfl | hp
        · exact ⟨h3 (by simp), key it, h2⟩
        · exact h6 p hp
      · rw [List.pairwise_cons]
        refine ⟨?_, h7⟩
        intro q hq a ha b hb
        rw [h2 a ha]; exact h4 q hq b hb


theorem partition_spec (key : α → Rat) (tol : Rat) (ht0 : 0 ≤ tol) (ht1 : tol < 1) (items : List α)
    (hap : ∀ a ∈ items, ∀ b ∈ items, Apart (key a) (key b)) :
    (partition key tol items).flatten.Perm items ∧
    (∀ p ∈ partition key tol items, p ≠ [] ∧ ∃ X, ∀ a ∈ p, key a = X) ∧
    (partition key tol items).Pairwise (fun p q => ∀ a ∈ p, ∀ b ∈ q, key a < key b) := by
  unfold partition
  have hperm := stdSort_perm (fun a b => decide (key a < key b)) items
  have hsort := stdSort_sorted_key (fun a b => decide (key a < key b)) key items (by intros; simp)
  generalize stdSort (fun a b => decide (key a < key b)) items = sorted at hperm hsort
  match sorted, hperm, hsort with
  | [], hperm, _ =>
    have : items = [] := by simpa using hperm.symm
    subst this; simp
  | f :: rest, hperm, hsort =>
    rw [List.pairwise_cons] at hsort
    have hmem : ∀ x, x ∈ f :: rest → x ∈ items := fun x hx => hperm.mem_iff.1 hx
    obtain ⟨first, others, h1, h2, h3, h4, h5, h6, h7⟩ := partGo_spec key tol ht0 ht1 rest [f] (key f) 1
      (by intro a ha; have : a = f := by simpa using ha
          rw [this])
      hsort.2 hsort.1 (fun b hb => hap f (hmem f (by simp)) b (hmem b (by simp [hb])))
      (fun a ha b hb => hap a (hmem a (by simp [ha])) b (hmem b (by simp [hb])))
    simp only []
    rw [h1]
    refine ⟨?_, ?_, ?_⟩
    · rw [h5]; simpa using hperm
    · intro p hp
      rcases List.mem_cons.1 hp with rfl | hp
      · exact ⟨h3 (by simp), key f, h2⟩
      · exact h6 p hp
    · rw [List.pairwise_cons]
      refine ⟨?_, h7⟩
      intro q hq a ha b hb
      rw [h2 a ha]; exact h4 q hq b hb


end AdaptaVerif.Lemmas.Planarise
