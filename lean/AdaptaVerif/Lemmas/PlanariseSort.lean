/-
`std::sort` (libstdc++ insertion sort, `Model.Planarise.stdSort`) and util.h `partition`
(`Model.Planarise.partition`): permutation for every comparator, sortedness for strict weak orders,
and the parts of `partition` on keys that are equal or more than the tolerance apart.
-/
import AdaptaVerif.Model.Planarise
import AdaptaVerif.Lemmas.StrictWeakOrder
namespace AdaptaVerif.Lemmas.Planarise
open AdaptaVerif.Model.Planarise AdaptaVerif.Lemmas.SWO

variable {α : Type}

theorem insRev_perm (lt : α → α → Bool) (v : α) (l : List α) : (insRev lt v l).Perm (v :: l) := by
  induction l with
  | nil => simp [insRev]
  | cons e r ih =>
    simp only [insRev]
    split
    · exact ((List.Perm.cons e ih).trans (List.Perm.swap v e r))
    · exact List.Perm.refl _

theorem insStep_perm (lt : α → α → Bool) (acc : List α) (v : α) : (insStep lt acc v).Perm (v :: acc) := by
  unfold insStep
  split
  · rename_i h
    have : acc = [] := by simpa using h
    subst this; simp
  · split
    · exact List.perm_append_singleton v acc
    · exact insRev_perm lt v acc

theorem foldl_insStep_perm (lt : α → α → Bool) (l : List α) :
    ∀ acc, (l.foldl (insStep lt) acc).Perm (l ++ acc) := by
  induction l with
  | nil => intro acc; simp
  | cons v r ih =>
    intro acc
    simp only [List.foldl_cons]
    refine (ih _).trans ?_
    refine (List.Perm.append_left r (insStep_perm lt acc v)).trans ?_
    simp

theorem stdSort_perm (lt : α → α → Bool) (l : List α) : (stdSort lt l).Perm l := by
  unfold stdSort
  refine (List.reverse_perm _).trans ?_
  simpa using foldl_insStep_perm lt l []

theorem stdSort_mem (lt : α → α → Bool) (l : List α) (a : α) : a ∈ stdSort lt l ↔ a ∈ l :=
  (stdSort_perm lt l).mem_iff

theorem IsSWO.negTrans {lt : α → α → Bool} (h : IsSWO lt) (a b c : α)
    (h1 : lt a b = false) (h2 : lt b c = false) : lt a c = false := by
  cases hac : lt a c with
  | false => rfl
  | true =>
    cases hba : lt b a with
    | true => have := h.trans b a c hba hac; simp [h2] at this
    | false =>
      cases hcb : lt c b with
      | true => have := h.trans a c b hac hcb; simp [h1] at this
      | false => have := (h.incomp_trans a b c h1 hba h2 hcb).1; simp [hac] at this

theorem insRev_mem (lt : α → α → Bool) (v : α) (l : List α) (x : α) :
    x ∈ insRev lt v l ↔ x = v ∨ x ∈ l := by
  simpa using (insRev_perm lt v l).mem_iff (a := x)

/-- the reversed sorted prefix stays sorted -/
theorem insRev_sorted {lt : α → α → Bool} (h : IsSWO lt) (v : α) (l : List α)
    (hl : l.Pairwise (fun a b => lt a b = false)) :
    (insRev lt v l).Pairwise (fun a b => lt a b = false) := by
  induction l with
  | nil => simp [insRev]
  | cons e r ih =>
    rw [List.pairwise_cons] at hl
    simp only [insRev]
    split
    · rename_i hve
      rw [List.pairwise_cons]
      refine ⟨?_, ih hl.2⟩
      intro x hx
      rcases (insRev_mem lt v r x).1 hx with rfl | hx
      · exact h.asymm _ _ hve
      · exact hl.1 x hx
    · rename_i hve
      have hve : lt v e = false := by simpa using hve
      rw [List.pairwise_cons]
      refine ⟨?_, List.pairwise_cons.2 hl⟩
      intro x hx
      rcases List.mem_cons.1 hx with rfl | hx
      · exact hve
      · exact IsSWO.negTrans h v e x hve (hl.1 x hx)

theorem insStep_sorted {lt : α → α → Bool} (h : IsSWO lt) (acc : List α) (v : α)
    (hl : acc.Pairwise (fun a b => lt a b = false)) :
    (insStep lt acc v).Pairwise (fun a b => lt a b = false) := by
  unfold insStep
  split
  · simp
  · rename_i f hf
    split
    · rename_i hvf
      rw [List.pairwise_append]
      refine ⟨hl, by simp, ?_⟩
      intro x hx y hy
      have hy : y = v := by simpa using hy
      subst hy
      -- x is not after the first element f, and y < f
      have hfl : f ∈ acc := List.mem_of_getLast? hf
      have hxf : lt x f = false := by
        obtain ⟨pre, rfl⟩ : ∃ pre, acc = pre ++ [f] := by
          have hne : acc ≠ [] := by intro h0; simp [h0] at hf
          refine ⟨acc.dropLast, ?_⟩
          have h1 := List.dropLast_concat_getLast hne
          have h2 : acc.getLast hne = f := by
            have := List.getLast?_eq_some_getLast hne
            rw [hf] at this; exact (Option.some.inj this).symm
          rw [h2] at h1; exact h1.symm
        rw [List.pairwise_append] at hl
        rcases List.mem_append.1 hx with hx | hx
        · exact hl.2.2 x hx f (by simp)
        · have : x = f := by simpa using hx
          subst this; exact h.irrefl _
      cases hxy : lt x y with
      | false => rfl
      | true => have := h.trans x y f hxy hvf; simp [hxf] at this
    · exact insRev_sorted h v acc hl

theorem foldl_insStep_sorted {lt : α → α → Bool} (h : IsSWO lt) (l : List α) :
    ∀ acc, acc.Pairwise (fun a b => lt a b = false) →
      (l.foldl (insStep lt) acc).Pairwise (fun a b => lt a b = false) := by
  induction l with
  | nil => intro acc hacc; simpa using hacc
  | cons v r ih => intro acc hacc; exact ih _ (insStep_sorted h acc v hacc)

theorem stdSort_sorted (lt : α → α → Bool) (h : IsSWO lt) (l : List α) :
    (stdSort lt l).Pairwise (fun a b => lt b a = false) := by
  unfold stdSort
  rw [List.pairwise_reverse]
  exact foldl_insStep_sorted h l [] List.Pairwise.nil

end AdaptaVerif.Lemmas.Planarise
