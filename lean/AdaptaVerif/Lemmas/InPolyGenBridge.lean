/-
C16 — bridges for the two geometry kernels generated into `Gen/GeometryK2.lean`:
`segmentShapeIntersect` (in/out `bool&` flag) and `inPolyGen` (local copy of the polygon translated by the
query point through element assignment, then an indexed loop with early `return true` counting ray
crossings) against the hand models of `Model/Geometry.lean`.
-/
import AdaptaVerif.Gen.GeometryK2
import AdaptaVerif.Lemmas.InPolyBridge
import AdaptaVerif.Lemmas.GenLoopBridge
namespace AdaptaVerif.Lemmas.InPolyGenBridge
open AdaptaVerif.Model.Geometry AdaptaVerif.Lemmas.GeometryBridge AdaptaVerif.Lemmas.InPolyBridge
open AdaptaVerif.Gen AdaptaVerif.Lemmas.GenLoopBridge AdaptaVerif.Gen.GeometryK2

/-! ### segmentShapeIntersect -/

theorem segmentShapeIntersect_eq (e1 e2 s1 s2 : Pt) (seen : Bool) :
    AdaptaVerif.Gen.GeometryK2.segmentShapeIntersect e1 e2 s1 s2 seen = AdaptaVerif.Model.Geometry.segmentShapeIntersect e1 e2 s1 s2 seen := by
  unfold AdaptaVerif.Gen.GeometryK2.segmentShapeIntersect AdaptaVerif.Model.Geometry.segmentShapeIntersect
  simp only [segmentIntersect_eq, pointOnLine_eq, vecDir_eq]
  cases segmentIntersect e1 e2 s1 s2 <;> cases seen <;> simp

theorem segmentShapeIntersect_pre_true (e1 e2 s1 s2 : Pt) (seen : Bool) :
    AdaptaVerif.Gen.GeometryK2.segmentShapeIntersect_pre e1 e2 s1 s2 seen = true := by
  unfold AdaptaVerif.Gen.GeometryK2.segmentShapeIntersect_pre
  simp [segmentIntersect_pre_true, pointOnLine_pre_zero, vecDir_pre_zero]

/-! ### inPolyGen, first loop: translate the copy so that `q` is the origin -/

def shift (q p : Pt) : Pt := ⟨p.x - q.x, p.y - q.y⟩

theorem body1_eq (q : Pt) (i : Nat) (l : List Pt) (hi : i < l.length) :
    inPolyGen_body1 q i l = l.set i (shift q (l.getD i default)) := by
  unfold inPolyGen_body1 shift
  simp [List.getD_eq_getElem?_getD, hi, List.set_set]

theorem shift_loop_aux (q : Pt) : ∀ (fuel i : Nat) (l : List Pt), i + fuel = l.length →
    forRange (inPolyGen_body1 q) fuel i l = l.take i ++ (l.drop i).map (shift q) := by
  intro fuel
  induction fuel with
  | zero =>
    intro i l h
    have : l.drop i = [] := List.drop_eq_nil_of_le (by omega)
    simp [forRange, this, List.take_of_length_le (show l.length ≤ i by omega)]
  | succ f ih =>
    intro i l h
    have hi : i < l.length := by omega
    simp only [forRange]
    rw [body1_eq q i l hi, ih (i + 1) _ (by simp; omega)]
    rw [List.drop_eq_getElem_cons hi, getD_lt l i hi]
    have h1 : (l.take i).set i (shift q l[i]) = l.take i := List.set_eq_of_length_le (by simp)
    have h2 : (l.map (shift q)).drop i = shift q l[i] :: (l.map (shift q)).drop (i + 1) := by
      rw [List.drop_eq_getElem_cons (by simpa using hi)]; simp
    simp [List.take_set, List.drop_set, List.take_add_one, hi, h1, h2]

theorem shift_loop (q : Pt) (poly : List Pt) :
    forRange (inPolyGen_body1 q) (poly.length - 0) 0 poly = poly.map (shift q) := by
  rw [shift_loop_aux q _ 0 poly (by simp)]
  simp

/-! ### second loop: early `return true` at a vertex equal to the origin, else count ray crossings -/


theorem boolInt_ne (a b : Bool) : decide ((if a then (1 : Int) else 0) ≠ (if b then (1 : Int) else 0)) = (a != b) := by
  cases a <;> cases b <;> decide

def isOrigin (p : Pt) : Bool := decide (p.x = 0) && decide (p.y = 0)
def rCond (e : Pt × Pt) : Bool := (decide (e.2.y > 0) != decide (e.1.y > 0)) && decide (crossX e.2 e.1 > 0)
def lCond (e : Pt × Pt) : Bool := (decide (e.2.y < 0) != decide (e.1.y < 0)) && decide (crossX e.2 e.1 < 0)

/-- the loop as a scan over the edge list `(P[i1], P[i])` -/
def scanG : List (Pt × Pt) → Int → Int → Option Bool × (Int × Int)
  | [], l, r => (none, (l, r))
  | e :: es, l, r =>
    if isOrigin e.2 then (some true, (l, r))
    else scanG es (if lCond e then l + 1 else l) (if rCond e then r + 1 else r)

theorem loop2_eq_scan (a P : List Pt) (q : Pt) (bnd : Nat) :
    ∀ (fuel i : Nat) (l r : Int), i + fuel = P.length →
      inPolyGen_loop2 a q P P.length bnd fuel i l r = scanG ((edges P).drop i) l r := by
  intro fuel
  induction fuel with
  | zero =>
    intro i l r h
    have : (edges P).drop i = [] := by
      apply List.drop_eq_nil_of_le; rw [edges_length]; omega
    simp [this, AdaptaVerif.Gen.GeometryK2.inPolyGen_loop2, scanG]
  | succ f ih =>
    intro i l r h
    have hi : i < P.length := by omega
    have he : i < (edges P).length := by rw [edges_length]; exact hi
    rw [List.drop_eq_getElem_cons he, edges_getElem P i hi he]
    simp only [AdaptaVerif.Gen.GeometryK2.inPolyGen_loop2, scanG, isOrigin, boolInt_ne]
    by_cases ho : (decide ((P.getD i default).x = 0) && decide ((P.getD i default).y = 0)) = true
    · simp only [ho, if_true]
    · simp only [ho, if_false, Bool.false_eq_true]
      rw [ih (i + 1) _ _ (by omega)]
      congr 1
      · unfold lCond crossX
        cases hc : (decide ((P.getD i default).y < 0) != decide ((P.getD ((i + P.length - 1) % P.length) default).y < 0)) <;> simp [hc]
      · unfold rCond crossX
        cases hc : (decide ((P.getD i default).y > 0) != decide ((P.getD ((i + P.length - 1) % P.length) default).y > 0)) <;> simp [hc]

theorem tmod2 (n : Nat) : Int.tmod (n : Int) 2 = ((n % 2 : Nat) : Int) := (Int.ofNat_tmod n 2).symm

theorem loopExit_some {α σ : Type} (r : Option α × σ) (k : σ → α) (x : α) (h : r.1 = some x) : loopExit r k = x := by
  obtain ⟨o, s⟩ := r
  simp only at h
  subst h
  rfl

theorem scanG_origin (es : List (Pt × Pt)) (l r : Int) (h : es.any (fun e => isOrigin e.2) = true) :
    (scanG es l r).1 = some true := by
  induction es generalizing l r with
  | nil => simp at h
  | cons e es ih =>
    simp only [scanG]
    by_cases ho : isOrigin e.2 = true
    · simp [ho]
    · simp only [ho, if_false, Bool.false_eq_true]
      apply ih
      simp only [List.any_cons, Bool.or_eq_true] at h
      rcases h with h | h
      · exact absurd h ho
      · exact h

theorem scanG_none (es : List (Pt × Pt)) (l r : Int) (h : es.any (fun e => isOrigin e.2) = false) :
    scanG es l r = (none, (l + (es.countP lCond : Nat), r + (es.countP rCond : Nat))) := by
  induction es generalizing l r with
  | nil => simp [scanG]
  | cons e es ih =>
    simp only [List.any_cons, Bool.or_eq_false_iff] at h
    simp only [scanG, h.1, if_false, Bool.false_eq_true]
    rw [ih _ _ h.2, List.countP_cons, List.countP_cons]
    cases lCond e <;> cases rCond e <;> simp <;> omega

theorem edges_snd (P : List Pt) : (edges P).map Prod.snd = P := by
  unfold edges
  rw [List.map_snd_zip]
  rw [prevs_length]

theorem inPolyGen_eq (poly : List Pt) (q : Pt) :
    AdaptaVerif.Gen.GeometryK2.inPolyGen poly q = AdaptaVerif.Model.Geometry.inPolyGen poly q := by
  unfold AdaptaVerif.Gen.GeometryK2.inPolyGen
  simp only []
  rw [shift_loop]
  have hlen : poly.length = (poly.map (shift q)).length := by simp
  rw [hlen, loop2_eq_scan _ _ _ _ _ 0 0 0 (by simp), List.drop_zero]
  have hany : (edges (poly.map (shift q))).any (fun e => isOrigin e.2) = (poly.map (shift q)).any isOrigin := by
    conv => rhs; rw [← edges_snd (poly.map (shift q))]
    rw [List.any_map]; rfl
  unfold AdaptaVerif.Model.Geometry.inPolyGen
  simp only []
  show _ = if (poly.map (shift q)).any isOrigin = true then true else _
  cases ho : (poly.map (shift q)).any isOrigin with
  | true =>
    rw [ho] at hany
    simp only [if_true]
    exact loopExit_some _ _ _ (scanG_origin _ _ _ hany)
  | false =>
    rw [ho] at hany
    rw [scanG_none _ _ _ hany]
    simp only [Bool.false_eq_true, if_false, loopExit, Int.zero_add]
    rw [tmod2, tmod2]
    show _ = if ((edges (poly.map (shift q))).countP rCond % 2 != (edges (poly.map (shift q))).countP lCond % 2) = true then true
      else (edges (poly.map (shift q))).countP rCond % 2 == 1
    generalize (edges (poly.map (shift q))).countP rCond % 2 = a
    generalize (edges (poly.map (shift q))).countP lCond % 2 = b
    by_cases hab : a = b
    · subst hab
      by_cases h1 : a = 1 <;> simp [h1] <;> omega
    · have : (a : Int) ≠ (b : Int) := by omega
      simp [hab, this]

/-! ### all accesses in bounds, no unsigned wrap-around -/

theorem body1_pre_true (q : Pt) (i : Nat) (l : List Pt) (hi : i < l.length) : inPolyGen_body1_pre q i l = true := by
  unfold inPolyGen_body1_pre
  simp [hi]

theorem body1_length (q : Pt) (i : Nat) (l : List Pt) : (inPolyGen_body1 q i l).length = l.length := by
  unfold inPolyGen_body1
  simp

theorem loop2_pre_true (a P : List Pt) (q : Pt) (bnd : Nat) :
    ∀ (fuel i : Nat) (l r : Int), i + fuel = P.length →
      inPolyGen_loop2_pre a q P P.length bnd fuel i l r = true := by
  intro fuel
  induction fuel with
  | zero => intro i l r _; rfl
  | succ f ih =>
    intro i l r h
    have hi : i < P.length := by omega
    have hm : (i + P.length - 1) % P.length < P.length := Nat.mod_lt _ (by omega)
    have h1 : 1 ≤ i + P.length := by omega
    simp only [inPolyGen_loop2_pre, hi, hm, h1, decide_true, Bool.or_true, Bool.and_self, ite_self, ih (i + 1) _ _ (by omega)]

theorem loopExitPre_of {α σ : Type} (r : Option α × σ) (k : σ → Bool) (h : ∀ s, k s = true) : loopExitPre r k = true := by
  obtain ⟨o, s⟩ := r
  cases o <;> simp [loopExitPre, h]

theorem inPolyGen_pre_true (poly : List Pt) (q : Pt) : AdaptaVerif.Gen.GeometryK2.inPolyGen_pre poly q = true := by
  unfold AdaptaVerif.Gen.GeometryK2.inPolyGen_pre
  simp only []
  have p1 : forRangePre (inPolyGen_body1_pre q) (inPolyGen_body1 q) (poly.length - 0) 0 poly = true :=
    forRangePre_of_inv (fun _ (l : List Pt) => l.length = poly.length) _ _ _ _ _ rfl
      (fun i l _ hi hl => ⟨body1_pre_true q i l (by omega), by rw [body1_length]; exact hl⟩)
  rw [p1, shift_loop]
  have hlen : poly.length = (poly.map (shift q)).length := by simp
  rw [hlen, loop2_pre_true _ _ _ _ _ 0 0 0 (by simp)]
  simp only [Bool.true_and]
  apply loopExitPre_of
  intro s
  obtain ⟨a, b⟩ := s
  simp

end AdaptaVerif.Lemmas.InPolyGenBridge
