/-
C11 — bridge between `ShapeConnectionPin::position` as GENERATED from cola/libavoid/connectionpin.cpp
(`Gen/PinPosK.lean`, with `Box::width/height` from geomtypes.cpp) and the hand model `Model.Pins.pinPosition`
(per-axis `axisPos`) that `pin_translation_equivariant`, `pin_in_box`, `pin_resize_proportional` … are about.
-/
import AdaptaVerif.Gen.PinPosK
namespace AdaptaVerif.Lemmas.PinPosBridge
open AdaptaVerif.Model.Pins AdaptaVerif.Gen AdaptaVerif.Gen.KeysPins AdaptaVerif.Gen.PinPosK

/-- the `Avoid::Box` of a model box -/
def boxK (b : Box) : BoxK := ⟨⟨b.minX, b.minY⟩, ⟨b.maxX, b.maxY⟩⟩

theorem width_boxK (b : Box) : width (boxK b) = b.maxX - b.minX := rfl
theorem height_boxK (b : Box) : height (boxK b) = b.maxY - b.minY := rfl

theorem position_junction (newPoly shapePoly : List Pt) (s : PinSpec) (j : Pt) (bbox : List Pt → Rat → BoxK) :
    position newPoly s (some j) shapePoly bbox = j := rfl

theorem position_x (newPoly shapePoly : List Pt) (s : PinSpec) (bbox : List Pt → Rat → BoxK) (b : Box)
    (hb : bbox (if newPoly.isEmpty then shapePoly else newPoly) 0 = boxK b) :
    (position newPoly s none shapePoly bbox).x = (pinPosition s b).x := by
  unfold position pinPosition axisPos
  simp only [Option.isSome_none, Bool.false_eq_true, if_false, hb, width_boxK, height_boxK]
  simp only [boxK]
  repeat' split
  all_goals simp_all

theorem position_y (newPoly shapePoly : List Pt) (s : PinSpec) (bbox : List Pt → Rat → BoxK) (b : Box)
    (hb : bbox (if newPoly.isEmpty then shapePoly else newPoly) 0 = boxK b) :
    (position newPoly s none shapePoly bbox).y = (pinPosition s b).y := by
  unfold position pinPosition axisPos
  simp only [Option.isSome_none, Bool.false_eq_true, if_false, hb, width_boxK, height_boxK]
  simp only [boxK]
  repeat' split
  all_goals simp_all

theorem position_pre_true (newPoly shapePoly : List Pt) (s : PinSpec) (junction : Option Pt) (bbox : List Pt → Rat → BoxK) :
    position_pre newPoly s junction shapePoly bbox = true := by
  unfold position_pre
  cases junction <;> simp [width_pre, height_pre]

end AdaptaVerif.Lemmas.PinPosBridge
