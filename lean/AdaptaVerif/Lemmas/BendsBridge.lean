/-
Tie for C05's estimator kernels: the definitions generated from makepath.cpp by cpp2lean
(AdaptaVerif.Gen.Makepath: value `f` + reached-assertions predicate `f_pre`) coincide with the
hand model AdaptaVerif.Model.Bends (which encodes a failed assertion as `none`).
-/
import AdaptaVerif.Gen.Makepath
import AdaptaVerif.Model.Bends
import Mathlib.Tactic.Linarith
namespace AdaptaVerif.Lemmas.BendsBridge
open AdaptaVerif.Model.Geometry (Pt)
namespace G
export AdaptaVerif.Gen.Makepath (dimDirection orthogonalDirectionsCount orthogonalDirection dirRight dirLeft
  dirReverse bends dirRight_pre dirLeft_pre dirReverse_pre bends_pre orthogonalDirection_pre)
end G
namespace M
export AdaptaVerif.Model.Bends (dimDirection orthogonalDirectionsCount orthogonalDirection dirRight dirLeft
  dirReverse bends bendsChain)
end M

theorem dimDirection_eq (d : Rat) : G.dimDirection d = M.dimDirection d := by
  simp [AdaptaVerif.Gen.Makepath.dimDirection, AdaptaVerif.Model.Bends.dimDirection]

theorem orthogonalDirectionsCount_eq (d : Nat) : G.orthogonalDirectionsCount d = M.orthogonalDirectionsCount d := by
  simp [AdaptaVerif.Gen.Makepath.orthogonalDirectionsCount, AdaptaVerif.Model.Bends.orthogonalDirectionsCount]

theorem orthogonalDirection_eq (a b : Pt) : G.orthogonalDirection a b = M.orthogonalDirection a b := by
  simp [AdaptaVerif.Gen.Makepath.orthogonalDirection, AdaptaVerif.Model.Bends.orthogonalDirection]

theorem dirRight_eq (d : Nat) : M.dirRight d = if G.dirRight_pre d then some (G.dirRight d) else none := by
  simp only [AdaptaVerif.Gen.Makepath.dirRight, AdaptaVerif.Gen.Makepath.dirRight_pre, AdaptaVerif.Model.Bends.dirRight]
  split_ifs <;> simp_all

theorem dirLeft_eq (d : Nat) : M.dirLeft d = if G.dirLeft_pre d then some (G.dirLeft d) else none := by
  simp only [AdaptaVerif.Gen.Makepath.dirLeft, AdaptaVerif.Gen.Makepath.dirLeft_pre, AdaptaVerif.Model.Bends.dirLeft]
  split_ifs <;> simp_all

theorem dirReverse_eq (d : Nat) : M.dirReverse d = if G.dirReverse_pre d then some (G.dirReverse d) else none := by
  simp only [AdaptaVerif.Gen.Makepath.dirReverse, AdaptaVerif.Gen.Makepath.dirReverse_pre, AdaptaVerif.Model.Bends.dirReverse]
  split_ifs <;> simp_all

theorem dir_pre_iff (d : Nat) : (G.dirRight_pre d = true ↔ (d = 1 ∨ d = 2 ∨ d = 4 ∨ d = 8)) ∧
    (G.dirLeft_pre d = true ↔ (d = 1 ∨ d = 2 ∨ d = 4 ∨ d = 8)) ∧
    (G.dirReverse_pre d = true ↔ (d = 1 ∨ d = 2 ∨ d = 4 ∨ d = 8)) := by
  simp only [AdaptaVerif.Gen.Makepath.dirRight_pre, AdaptaVerif.Gen.Makepath.dirLeft_pre, AdaptaVerif.Gen.Makepath.dirReverse_pre]
  refine ⟨?_, ?_, ?_⟩ <;> split_ifs <;> simp_all

theorem chain_eq (cd dd ctd rev : Nat) (perp : Bool) :
    M.bendsChain cd dd ctd rev perp =
      (if (decide (cd = dd) && decide (ctd = cd)) then some 0 else
       if (perp && decide (ctd = (dd ||| cd))) then some 1 else
       if (perp && decide (ctd = cd)) then some 1 else
       if (perp && decide (ctd = dd)) then some 1 else
       if ((decide (cd = dd) && decide (ctd ≠ cd)) && !(decide ((ctd &&& rev) ≠ 0))) then some 2 else
       if ((decide (cd = rev) && decide (ctd ≠ dd)) && decide (ctd ≠ cd)) then some 2 else
       if ((perp && decide (ctd ≠ (dd ||| cd))) && decide (ctd ≠ cd)) then some 3 else
       if (decide (cd = rev) && (decide (ctd = dd) || decide (ctd = cd))) then some 4 else
       if (decide (cd = dd) && decide ((ctd &&& rev) ≠ 0)) then some 4 else none) := by
  simp only [AdaptaVerif.Model.Bends.bendsChain, Bool.and_eq_true, decide_eq_true_eq, Bool.or_eq_true,
    Bool.not_eq_true', decide_eq_false_iff_not, and_assoc]

theorem orthogonalDirection_pre_true (a b : Pt) : AdaptaVerif.Gen.Makepath.orthogonalDirection_pre a b = true := by
  simp only [AdaptaVerif.Gen.Makepath.orthogonalDirection_pre]
  split_ifs <;> rfl

theorem chain_step (c p : Bool) (a v : Int) :
    (if (if c then true else p) = true then some (if c then a else v).toNat else none)
      = if c then some a.toNat else (if p = true then some v.toNat else none) := by
  cases c <;> simp

theorem chain_end (v : Int) : (if (false && true) = true then some v.toNat else (none : Option Nat)) = none := by simp

theorem bends_eq (c : Pt) (cd : Nat) (d : Pt) (dd : Nat) :
    M.bends c cd d dd = if G.bends_pre c cd d dd then some (G.bends c cd d dd).toNat else none := by
  obtain ⟨hR, hL, hV⟩ := dir_pre_iff dd
  by_cases hdd : dd = 1 ∨ dd = 2 ∨ dd = 4 ∨ dd = 8
  · have eR := hR.2 hdd; have eL := hL.2 hdd; have eV := hV.2 hdd
    by_cases h0 : cd = 0
    · simp [AdaptaVerif.Model.Bends.bends, AdaptaVerif.Gen.Makepath.bends_pre, h0]
    · simp only [AdaptaVerif.Model.Bends.bends, dirRight_eq, dirLeft_eq, dirReverse_eq, eR, eL, eV, if_true,
        AdaptaVerif.Gen.Makepath.bends_pre, AdaptaVerif.Gen.Makepath.bends, orthogonalDirection_eq, chain_eq,
        orthogonalDirection_pre_true, h0, if_false, ne_eq, not_false_eq_true, decide_true,
        Bool.true_and, Bool.or_true, Bool.and_true, chain_step]
      rfl
  · have eR : G.dirRight_pre dd = false := by rw [Bool.eq_false_iff]; exact fun h => hdd (hR.1 h)
    have eL : G.dirLeft_pre dd = false := by rw [Bool.eq_false_iff]; exact fun h => hdd (hL.1 h)
    have eV : G.dirReverse_pre dd = false := by rw [Bool.eq_false_iff]; exact fun h => hdd (hV.1 h)
    simp [AdaptaVerif.Model.Bends.bends, dirRight_eq, dirLeft_eq, dirReverse_eq, eR, eL, eV,
      AdaptaVerif.Gen.Makepath.bends_pre]

end AdaptaVerif.Lemmas.BendsBridge
