/-
Composition of the completeness of the StraightConstraint generation (`straight_complete`) with the
step-level safety theorem (`solve_step_node_stays_off_segment`): a node that is visible from a segment
on both of its scan lines is protected by one `solve()` move.
-/
import AdaptaVerif.Lemmas.TopoConsGen
namespace AdaptaVerif.Lemmas.TopoConsStep
open AdaptaVerif.Model.TopoCons AdaptaVerif.Lemmas.TopoConsGen

theorem bool_eq_of_iff {c b : Bool} {P : Prop} [Decidable P] (h : c = true ↔ P) (hb : b = decide P) : c = b := by
  subst hb
  by_cases hp : P
  · simp [hp, h.mpr hp]
  · have : c ≠ true := fun e => hp (h.mp e)
    cases c <;> simp_all

theorem solve_step_visible_pair_safe (d : Nat) (bO bC : Node → Node → Bool)
    (nodes : List Node) (segs : List Seg) (extra : List AdaptaVerif.Model.Tri.TriConstraint)
    (ini fin : AdaptaVerif.Model.Tri.Pos)
    (hini : AdaptaVerif.Spec.Tri.Feasible
      ((consClosed d bO bC nodes segs).map (fun x => triOf x.1 x.2) ++ extra) ini)
    (n : Node) (sg : Seg) (hn : n ∈ nodes) (hsg : sg ∈ segs) (hnc : sg.connected n = false)
    -- the segment's span covers the node's extent across the scan direction
    (hspanLo : sg.lo d ≤ n.r.lo (conj d) ∧ n.r.lo (conj d) < sg.hi d)
    (hspanHi : sg.lo d < n.r.hi (conj d) ∧ n.r.hi (conj d) ≤ sg.hi d)
    -- visible on both scan lines of the node
    (hvisLo : ∀ m ∈ nodes, m.id ≠ n.id → m.r.lo (conj d) < n.r.lo (conj d) → n.r.lo (conj d) < m.r.hi (conj d) →
      ¬ ((sg.inter d (n.r.lo (conj d)) < m.r.centre d ∧ m.r.centre d < n.r.centre d) ∨
         (n.r.centre d < m.r.centre d ∧ m.r.centre d < sg.inter d (n.r.lo (conj d)))))
    (hvisHi : ∀ m ∈ nodes, m.id ≠ n.id → m.r.lo (conj d) < n.r.hi (conj d) → n.r.hi (conj d) < m.r.hi (conj d) →
      ¬ ((sg.inter d (n.r.hi (conj d)) < m.r.centre d ∧ m.r.centre d < n.r.centre d) ∨
         (n.r.centre d < m.r.centre d ∧ m.r.centre d < sg.inter d (n.r.hi (conj d)))))
    -- the facing corners are not the segment's own end bends
    (hcornerLo :
      ¬ (n.id = sg.s.node.id ∧
          cornerFor d n (n.r.lo (conj d)) (decide (n.r.centre d < sg.inter d (n.r.lo (conj d)))) = sg.s.ri) ∧
      ¬ (n.id = sg.e.node.id ∧
          cornerFor d n (n.r.lo (conj d)) (decide (n.r.centre d < sg.inter d (n.r.lo (conj d)))) = sg.e.ri))
    (hcornerHi :
      ¬ (n.id = sg.s.node.id ∧
          cornerFor d n (n.r.hi (conj d)) (decide (n.r.centre d < sg.inter d (n.r.hi (conj d)))) = sg.s.ri) ∧
      ¬ (n.id = sg.e.node.id ∧
          cornerFor d n (n.r.hi (conj d)) (decide (n.r.centre d < sg.inter d (n.r.hi (conj d)))) = sg.e.ri))
    -- the node centre is on the same side `b` of the segment's line on both scan lines
    (b : Bool) (hbLo : b = decide (n.r.centre d < sg.inter d (n.r.lo (conj d))))
    (hbHi : b = decide (n.r.centre d < sg.inter d (n.r.hi (conj d)))) :
    let x' := AdaptaVerif.Model.Tri.moveStep
      ((consClosed d bO bC nodes segs).map (fun x => triOf x.1 x.2) ++ extra) ini fin
    ∀ q, (n.movedTo d x').r.lo (conj d) ≤ q → q ≤ (n.movedTo d x').r.hi (conj d) →
      0 ≤ gap d (sg.movedTo d x') (n.movedTo d x') q b := by
  obtain ⟨c1, h1, hn1, hp1, hl1⟩ := straight_complete d bO bC nodes segs n sg hn hsg hnc (n.r.lo (conj d))
    (Or.inl ⟨rfl, hspanLo⟩) hvisLo hcornerLo
  obtain ⟨c2, h2, hn2, hp2, hl2⟩ := straight_complete d bO bC nodes segs n sg hn hsg hnc (n.r.hi (conj d))
    (Or.inr ⟨rfl, hspanHi⟩) hvisHi hcornerHi
  exact solve_step_node_stays_off_segment d bO bC nodes segs extra ini fin hini n sg c1 c2 b h1 h2 hn1 hn2 hp1 hp2
    (bool_eq_of_iff hl1 hbLo) (bool_eq_of_iff hl2 hbHi)

-- non-vacuity: every hypothesis of `solve_step_visible_pair_safe` holds in the control scene of the harness
-- (nodes [0,20]², [22,40]x[21,34], [-40,-20]x[40,60], edge centre(0) → centre(2), XDIM, node 1 on the right: b = false)
example :
    AdaptaVerif.Spec.Tri.Feasible
      ((consClosed 0 idLt idLt [w0, w1', w2] [wSg]).map (fun x => triOf x.1 x.2) ++ []) ctlIni ∧
    w1' ∈ [w0, w1', w2] ∧ wSg ∈ [wSg] ∧ wSg.connected w1' = false ∧
    (wSg.lo 0 ≤ w1'.r.lo (conj 0) ∧ w1'.r.lo (conj 0) < wSg.hi 0) ∧
    (wSg.lo 0 < w1'.r.hi (conj 0) ∧ w1'.r.hi (conj 0) ≤ wSg.hi 0) ∧
    (∀ m ∈ [w0, w1', w2], m.id ≠ w1'.id → m.r.lo (conj 0) < w1'.r.lo (conj 0) → w1'.r.lo (conj 0) < m.r.hi (conj 0) →
      ¬ ((wSg.inter 0 (w1'.r.lo (conj 0)) < m.r.centre 0 ∧ m.r.centre 0 < w1'.r.centre 0) ∨
         (w1'.r.centre 0 < m.r.centre 0 ∧ m.r.centre 0 < wSg.inter 0 (w1'.r.lo (conj 0))))) ∧
    (∀ m ∈ [w0, w1', w2], m.id ≠ w1'.id → m.r.lo (conj 0) < w1'.r.hi (conj 0) → w1'.r.hi (conj 0) < m.r.hi (conj 0) →
      ¬ ((wSg.inter 0 (w1'.r.hi (conj 0)) < m.r.centre 0 ∧ m.r.centre 0 < w1'.r.centre 0) ∨
         (w1'.r.centre 0 < m.r.centre 0 ∧ m.r.centre 0 < wSg.inter 0 (w1'.r.hi (conj 0))))) ∧
    false = decide (w1'.r.centre 0 < wSg.inter 0 (w1'.r.lo (conj 0))) ∧
    false = decide (w1'.r.centre 0 < wSg.inter 0 (w1'.r.hi (conj 0))) := by
  refine ⟨?_, by simp, by simp, by decide +kernel, by decide +kernel, by decide +kernel, ?_, ?_,
    by decide +kernel, by decide +kernel⟩
  · unfold AdaptaVerif.Spec.Tri.Feasible
    decide +kernel
  · intro m hm
    simp only [List.mem_cons, List.not_mem_nil, or_false] at hm
    rcases hm with rfl | rfl | rfl <;> decide +kernel
  · intro m hm
    simp only [List.mem_cons, List.not_mem_nil, or_false] at hm
    rcases hm with rfl | rfl | rfl <;> decide +kernel

end AdaptaVerif.Lemmas.TopoConsStep
