/-
Explicit walks in the active graph; in a forest (every active constraint is a bridge) a
non-backtracking walk never repeats a constraint; every connected pair is joined by a
non-backtracking walk.
-/
import AdaptaVerif.Lemmas.VpscGraph
namespace AdaptaVerif.Lemmas.VpscWalk
open AdaptaVerif.Model.Vpsc
open AdaptaVerif.Lemmas.VpscGraph
open Relation

/-- a step: constraint index, from, to -/
abbrev Step := Nat × Nat × Nat

/-- `W` is a walk from `x` to `y` along active constraints -/
inductive Walk (cons : Array Con) : Nat → Nat → List Step → Prop
  | nil (x : Nat) : Walk cons x x []
  | cons {j a b c : Nat} {rest : List Step} : AE cons j a b → Walk cons b c rest →
      Walk cons a c ((j, a, b) :: rest)

/-- non-backtracking (at the level of vertices), the vertex we came from being `u` -/
def NB : Option Nat → List Step → Prop
  | _, [] => True
  | u, (_, a, b) :: rest => u ≠ some b ∧ NB (some a) rest

theorem Walk.append {cons : Array Con} : ∀ {P Q : List Step} {x m y : Nat},
    Walk cons x m P → Walk cons m y Q → Walk cons x y (P ++ Q) := by
  intro P
  induction P with
  | nil => intro Q x m y hp hq; cases hp; exact hq
  | cons s P ih =>
    intro Q x m y hp hq
    cases hp with
    | cons hae hrest => exact Walk.cons hae (ih hrest hq)

theorem Walk.split {cons : Array Con} : ∀ {P Q : List Step} {x y : Nat},
    Walk cons x y (P ++ Q) → ∃ m, Walk cons x m P ∧ Walk cons m y Q := by
  intro P
  induction P with
  | nil => intro Q x y h; exact ⟨x, Walk.nil x, h⟩
  | cons s P ih =>
    intro Q x y h
    cases h with
    | cons hae hrest =>
      obtain ⟨m, h1, h2⟩ := ih hrest
      exact ⟨m, Walk.cons hae h1, h2⟩

/-- a walk none of whose steps uses constraint `e` witnesses reachability avoiding `e` -/
theorem Walk.reachAvoid {cons : Array Con} {e : Nat} : ∀ {W : List Step} {x y : Nat},
    Walk cons x y W → (∀ s ∈ W, s.1 ≠ e) → ReachAvoid cons e x y := by
  intro W
  induction W with
  | nil => intro x y h _; cases h; exact ReflTransGen.refl
  | cons s W ih =>
    intro x y h hne
    cases h with
    | cons hae hrest =>
      exact ReflTransGen.head ⟨_, hne _ List.mem_cons_self, hae⟩
        (ih hrest (fun s hs => hne s (List.mem_cons_of_mem _ hs)))

theorem Walk.reach {cons : Array Con} : ∀ {W : List Step} {x y : Nat},
    Walk cons x y W → Reach cons x y := by
  intro W
  induction W with
  | nil => intro x y h; cases h; exact ReflTransGen.refl
  | cons s W ih =>
    intro x y h
    cases h with
    | cons hae hrest => exact ReflTransGen.head ⟨_, trivial, hae⟩ (ih hrest)

/-- the two ends of a step are the two ends of its constraint -/
theorem ae_ends {cons : Array Con} {j a b a' b' : Nat} (h : AE cons j a b) (h' : AE cons j a' b') :
    (a' = a ∧ b' = b) ∨ (a' = b ∧ b' = a) := by
  obtain ⟨_, _, h3⟩ := h
  obtain ⟨_, _, h3'⟩ := h'
  rcases h3 with ⟨rfl, rfl⟩ | ⟨rfl, rfl⟩ <;> rcases h3' with ⟨rfl, rfl⟩ | ⟨rfl, rfl⟩
  · exact Or.inl ⟨rfl, rfl⟩
  · exact Or.inr ⟨rfl, rfl⟩
  · exact Or.inr ⟨rfl, rfl⟩
  · exact Or.inl ⟨rfl, rfl⟩

/-- forest: every active constraint is a bridge -/
def Forest (cons : Array Con) : Prop :=
  ∀ j a b : Nat, AE cons j a b → ¬ ReachAvoid cons j a b

/-- **in a forest a non-backtracking walk uses every constraint at most once** -/
theorem Walk.nodup {cons : Array Con} (hf : Forest cons) : ∀ {W : List Step} {x y : Nat} {u : Option Nat},
    Walk cons x y W → NB u W → (W.map (·.1)).Nodup := by
  intro W
  induction W with
  | nil => intro x y u _ _; simp
  | cons s W ih =>
    intro x y u h hnb
    cases h with
    | @cons j a b c rest hae hrest =>
      have hnd : (W.map (·.1)).Nodup := ih hrest hnb.2
      rw [List.map_cons, List.nodup_cons]
      refine ⟨?_, hnd⟩
      intro hmem
      obtain ⟨t, htW, hte⟩ := List.mem_map.1 hmem
      obtain ⟨P, S, hPS⟩ := List.append_of_mem htW
      subst hPS
      obtain ⟨m, hP, hS⟩ := Walk.split hrest
      obtain ⟨tj, ta, tb⟩ := t
      simp only at hte
      subst hte
      cases hS with
      | cons haet hS' =>
        -- no step of P uses constraint tj (nodup)
        have hPavoid : ∀ s ∈ P, s.1 ≠ tj := by
          intro s hs heq
          rw [List.map_append, List.map_cons, List.nodup_append] at hnd
          exact hnd.2.2 _ (List.mem_map.2 ⟨s, hs, rfl⟩) _ (List.mem_cons_self) heq
        have hreachP := Walk.reachAvoid hP hPavoid
        rcases ae_ends hae haet with ⟨rfl, rfl⟩ | ⟨rfl, rfl⟩
        · -- t leaves from `a`: then b ~ a avoiding the constraint
          exact hf _ _ _ hae hreachP.symm
        · -- t goes b → a
          cases P with
          | nil =>
            -- t is the first step of the rest: immediate backtracking
            exact hnb.2.1 rfl
          | cons s' P' =>
            cases hP with
            | @cons j' a' b' c' rest' hae' hP' =>
              have hP'avoid : ∀ s ∈ P', s.1 ≠ j' := by
                intro s hs heq
                rw [List.map_append, List.map_cons, List.nodup_append, List.nodup_cons] at hnd
                exact hnd.1.1 (by rw [← heq]; exact List.mem_map.2 ⟨s, hs, rfl⟩)
              exact hf _ _ _ hae' (Walk.reachAvoid hP' hP'avoid).symm

/-! ### shortening: connected ⇒ joined by a non-backtracking walk -/

theorem exists_walk {cons : Array Con} {x y : Nat} (h : Reach cons x y) : ∃ W, Walk cons x y W := by
  induction h using ReflTransGen.head_induction_on with
  | refl => exact ⟨[], Walk.nil _⟩
  | head hab _ ih =>
    obtain ⟨W, hW⟩ := ih
    obtain ⟨j, _, hj⟩ := hab
    exact ⟨_, Walk.cons hj hW⟩

theorem shorten {cons : Array Con} : ∀ (W : List Step) (x y : Nat) (u : Option Nat),
    Walk cons x y W → ¬ NB u W →
    (∃ j b rest, W = (j, x, b) :: rest ∧ u = some b) ∨
    (∃ W', Walk cons x y W' ∧ W'.length < W.length) := by
  intro W
  induction W with
  | nil => intro x y u _ hnb; exact absurd trivial hnb
  | cons s W ih =>
    intro x y u h hnb
    cases h with
    | @cons j a b c rest hae hrest =>
      by_cases hu : u = some b
      · exact Or.inl ⟨j, b, W, rfl, hu⟩
      · have hnb' : ¬ NB (some x) W := fun hh => hnb ⟨hu, hh⟩
        rcases ih b y (some x) hrest hnb' with ⟨j', b', rest', hW, hx⟩ | ⟨W', hW', hlen⟩
        · -- x → b → x → … : drop the first two steps
          subst hW
          have hbx : b' = x := by simpa using hx.symm
          subst hbx
          cases hrest with
          | cons _ hrest' =>
            exact Or.inr ⟨rest', hrest', by simp; omega⟩
        · exact Or.inr ⟨(j, x, b) :: W', Walk.cons hae hW', by simp; omega⟩

theorem exists_nb_walk {cons : Array Con} {x y : Nat} (h : Reach cons x y) :
    ∃ W, Walk cons x y W ∧ NB none W := by
  obtain ⟨W, hW⟩ := exists_walk h
  induction hn : W.length using Nat.strong_induction_on generalizing W with
  | _ n ih =>
    by_cases hnb : NB none W
    · exact ⟨W, hW, hnb⟩
    · rcases shorten W x y none hW hnb with ⟨_, _, _, _, hu⟩ | ⟨W', hW', hlen⟩
      · exact absurd hu (by simp)
      · exact ih W'.length (by omega) W' hW' rfl

end AdaptaVerif.Lemmas.VpscWalk
