/-
Lemmas about the model of `Tree::symmetricLayout`, part 5: the growth directions are images of each other.
A `Frame` is a change of coordinates (point map `φ`, size map `σ`) between growth directions `d` and `d'` that
commutes with everything the layout does; the layout for `d'` of the re-sized tree is the `φ`-image of the
layout for `d`.  Instances: SOUTH→NORTH (mirror y), EAST→WEST (mirror x), SOUTH→EAST (transpose, w↔h).
-/
import AdaptaVerif.Lemmas.TreeLayoutSym
namespace AdaptaVerif.Lemmas.TreeLayout
open AdaptaVerif.Model.TreeLayout

structure Frame where
  d : Dir
  d' : Dir
  φ : Pt → Pt
  σ : Rat × Rat → Rat × Rat
  flip_comm : ∀ p, flipPt d' (φ p) = φ (flipPt d p)
  add_comm : ∀ p v : Pt, φ ⟨p.x + v.x, p.y + v.y⟩ = ⟨(φ p).x + (φ v).x, (φ p).y + (φ v).y⟩
  zero : φ ⟨0, 0⟩ = ⟨0, 0⟩
  disp_comm : ∀ v, disp d' (φ v) = disp d v
  base : ∀ rs, baseTrans d' rs = φ (baseTrans d rs)
  side : ∀ rs R, (if d'.isVertical then (⟨R, (baseTrans d' rs).y⟩ : Pt) else ⟨(baseTrans d' rs).x, R⟩) =
    φ (if d.isVertical then ⟨R, (baseTrans d rs).y⟩ else ⟨(baseTrans d rs).x, R⟩)
  half : ∀ w h, (if d'.isVertical then (σ (w, h)).1 / 2 else (σ (w, h)).2 / 2) =
    (if d.isVertical then w / 2 else h / 2)

namespace Frame
variable (F : Frame)

def mapNode (n : PNode) : PNode := ⟨n.id, F.φ n.c, (F.σ (n.w, n.h)).1, (F.σ (n.w, n.h)).2⟩
def mapLevel (l : Level) : Level := ⟨l.lo, l.hi, l.nodes.map F.mapNode⟩
def mapLay (t : Lay) : Lay := ⟨t.levels.map F.mapLevel, t.lb, t.ub⟩
def mapSt (st : St) : St := { st with root := F.mapLevel st.root, rest := st.rest.map F.mapLevel }
def mapForest : Forest → Forest
  | .nil => .nil
  | .cons id w h kids rest => .cons id (F.σ (w, h)).1 (F.σ (w, h)).2 (mapForest kids) (mapForest rest)

abbrev cfg (ns rs : Rat) : Cfg := ⟨F.d, ns, rs⟩
abbrev cfg' (ns rs : Rat) : Cfg := ⟨F.d', ns, rs⟩

theorem flip_level (l : Level) : (F.mapLevel l).flip F.d' = F.mapLevel (l.flip F.d) := by
  simp only [Level.flip, mapLevel, List.map_map, Level.mk.injEq, true_and]
  congr 1; funext n
  simp [mapNode, PNode.flip, F.flip_comm]

theorem flip_lay (t : Lay) : (F.mapLay t).flip F.d' = F.mapLay (t.flip F.d) := by
  simp only [Lay.flip, mapLay, List.map_map, Lay.mk.injEq, and_true]
  congr 1; funext l; exact F.flip_level l

theorem translate_level (v : Pt) (l : Level) :
    (F.mapLevel l).translate F.d' (F.φ v) = F.mapLevel (l.translate F.d v) := by
  simp only [Level.translate, mapLevel, F.disp_comm, List.map_map, Level.mk.injEq, true_and]
  congr 1; funext n
  simp [mapNode, PNode.translate, F.add_comm]

theorem translate_lay (v : Pt) (t : Lay) :
    (F.mapLay t).translate F.d' (F.φ v) = F.mapLay (t.translate F.d v) := by
  simp only [Lay.translate, mapLay, F.disp_comm, List.map_map, Lay.mk.injEq, and_true]
  congr 1; funext l; exact F.translate_level v l

theorem overlay_map {f : Level → Level → Level} (hf : ∀ t p, f (F.mapLevel t) (F.mapLevel p) = F.mapLevel (f t p)) :
    ∀ ts ps : List Level, overlay f (ts.map F.mapLevel) (ps.map F.mapLevel) = (overlay f ts ps).map F.mapLevel
  | [], ps => by simp [overlay]
  | t :: ts, [] => by simp [overlay]
  | t :: ts, p :: ps => by simp [overlay, hf, overlay_map hf ts ps]

theorem fCentral_map (t p : Level) : fCentral (F.mapLevel t) (F.mapLevel p) = F.mapLevel (fCentral t p) := by
  simp [fCentral, mapLevel]
theorem fPos_map (t p : Level) : fPos (F.mapLevel t) (F.mapLevel p) = F.mapLevel (fPos t p) := by
  simp [fPos, mapLevel]
theorem fNeg_map (t p : Level) : fNeg (F.mapLevel t) (F.mapLevel p) = F.mapLevel (fNeg t p) := by
  simp [fNeg, mapLevel]

theorem candidates_map (pos : Bool) (ns : Rat) : ∀ ps ts : List Level,
    candidates pos ns (ps.map F.mapLevel) (ts.map F.mapLevel) = candidates pos ns ps ts
  | [], _ => by simp [candidates]
  | _ :: _, [] => by simp [candidates]
  | p :: ps, t :: ts => by
    have ih := candidates_map pos ns ps ts
    unfold candidates at ih ⊢
    simp only [List.map_cons, List.zipWith_cons_cons, ih]
    rfl

theorem foldl_lo_map (g : Rat → Level → Rat) (hg : ∀ a l, g a (F.mapLevel l) = g a l) :
    ∀ (ls : List Level) (a : Rat), (ls.map F.mapLevel).foldl g a = ls.foldl g a
  | [], _ => rfl
  | l :: ls, a => by simp [hg, foldl_lo_map g hg ls]

theorem placeCentral_map (ns rs : Rat) (st : St) (t : Lay) :
    placeCentral (F.cfg' ns rs) (F.mapSt st) (F.mapLay t) = F.mapSt (placeCentral (F.cfg ns rs) st t) := by
  unfold placeCentral
  simp only [F.base, F.translate_lay]
  simp only [mapSt, mapLay, F.overlay_map F.fCentral_map]
  rw [F.foldl_lo_map _ (fun _ _ => rfl), F.foldl_lo_map _ (fun _ _ => rfl)]

theorem sideMoved_map (ns rs : Rat) (st : St) (t : Lay) :
    sideMoved (F.cfg' ns rs) (F.mapSt st) (F.mapLay t) = F.mapLay (sideMoved (F.cfg ns rs) st t) := by
  unfold sideMoved
  rw [show (F.mapSt st).positiveNext = st.positiveNext from rfl,
    show (F.mapSt st).rest = st.rest.map F.mapLevel from rfl]
  rcases Bool.eq_false_or_eq_true st.positiveNext with hp | hp
  · simp only [hp, if_true]
    rw [show (F.mapLay t).levels = t.levels.map F.mapLevel from rfl,
      F.candidates_map, F.side, F.translate_lay]
  · simp only [hp, Bool.false_eq_true, if_false, F.flip_lay]
    rw [show (F.mapLay (t.flip F.d)).levels = (t.flip F.d).levels.map F.mapLevel from rfl,
      F.candidates_map, F.side, F.translate_lay]

theorem foldl_cons_map (g : Rat → Level → Rat) (hg : ∀ a l, g a (F.mapLevel l) = g a l) (r : Level)
    (ls : List Level) (a : Rat) :
    (F.mapLevel r :: ls.map F.mapLevel).foldl g a = (r :: ls).foldl g a := by
  rw [← List.map_cons]; exact F.foldl_lo_map g hg _ _

theorem placeSide_map (ns rs : Rat) (st : St) (t : Lay) :
    placeSide (F.cfg' ns rs) (F.mapSt st) (F.mapLay t) = F.mapSt (placeSide (F.cfg ns rs) st t) := by
  simp only [placeSide, F.sideMoved_map]
  rw [show (F.mapSt st).positiveNext = st.positiveNext from rfl,
    show (F.mapSt st).rest = st.rest.map F.mapLevel from rfl,
    show (F.mapSt st).root = F.mapLevel st.root from rfl,
    show (F.mapLay (sideMoved (F.cfg ns rs) st t)).levels = (sideMoved (F.cfg ns rs) st t).levels.map F.mapLevel from rfl]
  rcases Bool.eq_false_or_eq_true st.positiveNext with hp | hp
  · simp only [hp, if_true, F.overlay_map F.fPos_map]
    rw [F.foldl_cons_map (fun e l => rmax e l.hi) (fun _ _ => rfl)]
    rfl
  · simp only [hp, Bool.false_eq_true, if_false, F.overlay_map F.fNeg_map]
    rw [F.foldl_cons_map (fun e l => rmin e l.lo) (fun _ _ => rfl)]
    rfl

theorem place_map (ns rs : Rat) (st : St) (t : Lay) :
    place (F.cfg' ns rs) (F.mapSt st) (F.mapLay t) = F.mapSt (place (F.cfg ns rs) st t) := by
  unfold place
  rw [show (F.mapSt st).mustCentral = st.mustCentral from rfl]
  split
  · exact F.placeCentral_map ns rs st t
  · exact F.placeSide_map ns rs st t

theorem foldl_place_map (ns rs : Rat) : ∀ (ts : List Lay) (st : St),
    (ts.map F.mapLay).foldl (place (F.cfg' ns rs)) (F.mapSt st) = F.mapSt (ts.foldl (place (F.cfg ns rs)) st)
  | [], _ => rfl
  | t :: ts, st => by
    simp only [List.map_cons, List.foldl_cons, F.place_map]
    exact foldl_place_map ns rs ts _

theorem maxDepth_map (ts : List Lay) : maxDepth (ts.map F.mapLay) = maxDepth ts := by
  unfold maxDepth
  have : ∀ (ts : List Lay) (m : Nat), (ts.map F.mapLay).foldl (fun m l => max m l.levels.length) m
      = ts.foldl (fun m l => max m l.levels.length) m := by
    intro ts
    induction ts with
    | nil => intro m; rfl
    | cons t ts ih => intro m; simp [mapLay, ih]
  exact this ts 0

theorem initSt_map (ns rs : Rat) (id : Nat) (w h : Rat) (k : Nat) (c : Bool) :
    initSt (F.cfg' ns rs) id (F.σ (w, h)).1 (F.σ (w, h)).2 k c = F.mapSt (initSt (F.cfg ns rs) id w h k c) := by
  unfold initSt
  simp only [mapSt, mapLevel, mapNode, List.map_cons, List.map_nil, F.zero, List.map_replicate]
  rw [F.half w h]

theorem placeAll_map (ns rs : Rat) (id : Nat) (w h : Rat) (ordered : List Lay) (c : Bool) :
    placeAll (F.cfg' ns rs) id (F.σ (w, h)).1 (F.σ (w, h)).2 (ordered.map F.mapLay) c =
      F.mapLay (placeAll (F.cfg ns rs) id w h ordered c) := by
  unfold placeAll
  rw [F.maxDepth_map, F.initSt_map, F.foldl_place_map]
  rfl

theorem pick_map (perm : List Nat) (ls : List Lay) : pick perm (ls.map F.mapLay) = (pick perm ls).map F.mapLay := by
  simp only [pick, List.getElem?_map, List.map_filterMap]

theorem keys_map : ∀ f : Forest, keys (F.mapForest f) = keys f
  | .nil => rfl
  | .cons _ _ _ kids rest => by simp [mapForest, keys, keys_map kids, keys_map rest]

theorem layoutAll_map (ord : Order) (ns rs : Rat) : ∀ f : Forest,
    layoutAll ord (F.cfg' ns rs) (F.mapForest f) = (layoutAll ord (F.cfg ns rs) f).map F.mapLay
  | .nil => rfl
  | .cons id w h kids rest => by
    simp only [mapForest, layoutAll, List.map_cons, layoutNode, F.keys_map, layoutAll_map ord ns rs kids,
      layoutAll_map ord ns rs rest, F.pick_map, F.placeAll_map]

/-- the layout for direction `d'` of the re-sized tree is the image of the layout for direction `d` -/
theorem layoutWith_map (ord : Order) (ns rs : Rat) (convex : Bool) (id : Nat) (w h : Rat) (kids : Forest) :
    layoutWith ord (F.cfg' ns rs) convex id (F.σ (w, h)).1 (F.σ (w, h)).2 (F.mapForest kids) =
      F.mapLay (layoutWith ord (F.cfg ns rs) convex id w h kids) := by
  simp only [layoutWith, layoutNode, F.keys_map, F.layoutAll_map, F.pick_map, F.placeAll_map]

end Frame

/-! ### the three generating frames -/

/-- SOUTH → NORTH: mirror in the x-axis, sizes unchanged -/
def southNorth : Frame where
  d := .south
  d' := .north
  φ := fun p => ⟨p.x, -p.y⟩
  σ := id
  flip_comm := by intro p; simp [flipPt, Dir.isVertical]
  add_comm := by intro p v; dsimp only; rw [neg_add]
  zero := by simp
  disp_comm := by intro v; simp [disp, Dir.isVertical]
  base := by intro rs; simp [baseTrans]
  side := by intro rs R; simp [baseTrans, Dir.isVertical]
  half := by intro w h; simp [Dir.isVertical]

/-- EAST → WEST: mirror in the y-axis, sizes unchanged -/
def eastWest : Frame where
  d := .east
  d' := .west
  φ := fun p => ⟨-p.x, p.y⟩
  σ := id
  flip_comm := by intro p; simp [flipPt, Dir.isVertical]
  add_comm := by intro p v; dsimp only; rw [neg_add]
  zero := by simp
  disp_comm := by intro v; simp [disp, Dir.isVertical]
  base := by intro rs; simp [baseTrans]
  side := by intro rs R; simp [baseTrans, Dir.isVertical]
  half := by intro w h; simp [Dir.isVertical]

/-- SOUTH → EAST: transpose, width and height exchanged -/
def southEast : Frame where
  d := .south
  d' := .east
  φ := fun p => ⟨p.y, p.x⟩
  σ := fun s => (s.2, s.1)
  flip_comm := by intro p; simp [flipPt, Dir.isVertical]
  add_comm := by intro p v; simp
  zero := by simp
  disp_comm := by intro v; simp [disp, Dir.isVertical]
  base := by intro rs; simp [baseTrans]
  side := by intro rs R; simp [baseTrans, Dir.isVertical]
  half := by intro w h; simp [Dir.isVertical]

theorem southNorth_mapForest : ∀ f : Forest, southNorth.mapForest f = f
  | .nil => rfl
  | .cons _ _ _ kids rest => by
    simp only [Frame.mapForest, southNorth_mapForest kids, southNorth_mapForest rest]; rfl

theorem eastWest_mapForest : ∀ f : Forest, eastWest.mapForest f = f
  | .nil => rfl
  | .cons _ _ _ kids rest => by
    simp only [Frame.mapForest, eastWest_mapForest kids, eastWest_mapForest rest]; rfl

end AdaptaVerif.Lemmas.TreeLayout
