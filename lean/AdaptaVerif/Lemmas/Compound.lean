import AdaptaVerif.Spec.Compound
import AdaptaVerif.Check.Layout
import Mathlib.Tactic.Linarith
import Mathlib.Algebra.Order.Field.Rat
/-
Helper lemmas for Props/C07.lean and Props/C08.lean.
-/
namespace AdaptaVerif.Lemmas.Compound
open AdaptaVerif.Model.Compound AdaptaVerif.Spec.Compound AdaptaVerif.Check.Layout

theorem allHold_map {α : Type} (f : α → Sep) (l : List α) (a : Asg) :
    AllHold (l.map f) a ↔ ∀ p ∈ l, Holds (f p) a := by
  simp [AllHold, List.mem_map]

theorem allHold_append (l₁ l₂ : List Sep) (a : Asg) :
    AllHold (l₁ ++ l₂) a ↔ AllHold l₁ a ∧ AllHold l₂ a := by
  simp only [AllHold, List.mem_append]
  constructor
  · intro h; exact ⟨fun c hc => h c (Or.inl hc), fun c hc => h c (Or.inr hc)⟩
  · rintro ⟨h1, h2⟩ c (hc | hc)
    · exact h1 c hc
    · exact h2 c hc

theorem allHold_flatMap {α : Type} (f : α → List Sep) (l : List α) (a : Asg) :
    AllHold (l.flatMap f) a ↔ ∀ p ∈ l, AllHold (f p) a := by
  simp only [AllHold, List.mem_flatMap]
  constructor
  · intro h p hp c hc; exact h c ⟨p, hp, hc⟩
  · rintro h c ⟨p, hp, hc⟩; exact h p hp c hc

theorem flatMap_single {α β : Type} (f : α → β) (l : List α) : l.flatMap (fun a => [f a]) = l.map f := by
  induction l with
  | nil => rfl
  | cons a t ih => simp [List.flatMap_cons, ih]

theorem update_same (a : Asg) (v : Nat) (val : Rat) : update a v val v = val := by
  simp [update]

theorem update_other (a : Asg) (v : Nat) (val : Rat) (i : Nat) (h : i ≠ v) : update a v val i = a i := by
  simp [update, h]

/-! ### a separating value between two finite sets of rationals -/

theorem exists_lower (R : List Rat) (t : Rat) : ∃ b : Rat, ∀ r ∈ R, b ≤ r + t := by
  induction R with
  | nil => exact ⟨0, by simp⟩
  | cons r R ih =>
    obtain ⟨b, hb⟩ := ih
    refine ⟨min b (r + t), ?_⟩
    intro r' hr'
    rcases List.mem_cons.mp hr' with h | h
    · subst h; exact min_le_right _ _
    · exact le_trans (min_le_left _ _) (hb r' h)

theorem exists_between (L R : List Rat) (t : Rat) (h : ∀ l ∈ L, ∀ r ∈ R, l ≤ r + t) :
    ∃ b : Rat, (∀ l ∈ L, l ≤ b) ∧ (∀ r ∈ R, b ≤ r + t) := by
  induction L with
  | nil =>
    obtain ⟨b, hb⟩ := exists_lower R t
    exact ⟨b, by simp, hb⟩
  | cons l L ih =>
    obtain ⟨b, hb1, hb2⟩ := ih (fun l' hl' r hr => h l' (List.mem_cons_of_mem _ hl') r hr)
    refine ⟨max b l, ?_, ?_⟩
    · intro l' hl'
      rcases List.mem_cons.mp hl' with h' | h'
      · subst h'; exact le_max_right _ _
      · exact le_trans (hb1 l' h') (le_max_left _ _)
    · intro r hr
      exact max_le (hb2 r hr) (h l (List.mem_cons_self) r hr)

/-! ### absR / minR / maxR -/

theorem absR_le_iff (r t : Rat) : absR r ≤ t ↔ (r ≤ t ∧ -r ≤ t) := by
  unfold absR
  split
  · constructor
    · intro h; constructor <;> linarith
    · intro h; exact h.2
  · constructor
    · intro h; constructor <;> linarith
    · intro h; exact h.1

theorem minR_eq (a b : Rat) : minR a b = min a b := by
  unfold minR; split
  · rename_i h; exact (min_eq_left h).symm
  · rename_i h; exact (min_eq_right (le_of_lt (not_le.mp h))).symm

theorem maxR_eq (a b : Rat) : maxR a b = max a b := by
  unfold maxR; split
  · rename_i h; exact (max_eq_right h).symm
  · rename_i h; exact (max_eq_left (le_of_lt (not_le.mp h))).symm

theorem sepOk_iff (tol : Rat) (eq : Bool) (l g r : Rat) :
    sepOk tol eq l g r = true ↔ GapTol tol eq l g r := by
  unfold sepOk GapTol NearEq
  cases eq
  · simp
  · simp only [if_true, decide_eq_true_eq, absR_le_iff]
    constructor
    · rintro ⟨h1, h2⟩; constructor <;> linarith
    · rintro ⟨h1, h2⟩; constructor <;> linarith

end AdaptaVerif.Lemmas.Compound
