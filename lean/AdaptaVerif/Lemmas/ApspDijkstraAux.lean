/-
C17 — auxiliary facts for the Dijkstra proof: order on `Dist`, vector read/write, adjacency
lists, the abstract selector specification and its concrete instance `selMin`.
-/
import AdaptaVerif.Lemmas.ApspWalk
namespace AdaptaVerif.Lemmas.Apsp
open AdaptaVerif.Model.ShortestPaths AdaptaVerif.Spec.Apsp

/-- `x ≤ y` with `none = +∞` -/
def dle (x y : Dist) : Prop := ∀ c, y = some c → ∃ b, x = some b ∧ b ≤ c

theorem dle_refl (x : Dist) : dle x x := fun c h => ⟨c, h, le_refl _⟩

theorem dle_trans {x y z : Dist} (h₁ : dle x y) (h₂ : dle y z) : dle x z := by
  intro c hc
  obtain ⟨b, hb, hbc⟩ := h₂ c hc
  obtain ⟨a, ha, hab⟩ := h₁ b hb
  exact ⟨a, ha, le_trans hab hbc⟩

theorem dle_none (x : Dist) : dle x none := fun c h => by cases h

theorem dle_some {a b : Rat} : dle (some a) (some b) ↔ a ≤ b := by
  constructor
  · intro h
    obtain ⟨x, hx, hxb⟩ := h b rfl
    injection hx with hx
    rw [hx]; exact hxb
  · intro h c hc
    injection hc with hc
    exact ⟨a, rfl, by rw [← hc]; exact h⟩

theorem leD_iff (x y : Dist) : leD x y = true ↔ dle x y := by
  cases x with
  | none =>
    cases y with
    | none => simp [leD, dle_none]
    | some b =>
      simp only [leD, Bool.false_eq_true, false_iff]
      intro h
      obtain ⟨_, hx, _⟩ := h b rfl
      cases hx
  | some a =>
    cases y with
    | none => simp [leD, dle_none]
    | some b => simp [leD, dle_some]

theorem leD_total {x y : Dist} (h : leD x y = false) : leD y x = true := by
  cases x with
  | none =>
    cases y with
    | none => simp [leD] at h
    | some b => simp [leD]
  | some a =>
    cases y with
    | none => simp [leD] at h
    | some b =>
      simp only [leD, decide_eq_false_iff_not, not_le] at h
      simp only [leD, decide_eq_true_eq]
      exact le_of_lt h

/-! ### vectors -/

theorem Vec.at_set (d : Vec) (v v' : Nat) (x : Dist) :
    Vec.at (d.setIfInBounds v x) v' = if v = v' ∧ v < d.size then x else Vec.at d v' := by
  unfold Vec.at
  rw [Array.getElem?_setIfInBounds]
  by_cases h : v = v'
  · subst h
    by_cases hs : v < d.size
    · simp [hs]
    · have : d[v]? = none := Array.getElem?_eq_none (Nat.le_of_not_lt hs)
      simp [hs, this]
  · simp [h]

theorem Vec.at_replicate (n : Nat) (x : Dist) (v : Nat) :
    Vec.at (Array.replicate n x) v = if v < n then x else none := by
  unfold Vec.at
  rw [Array.getElem?_replicate]
  split <;> rfl

/-! ### adjacency lists -/

theorem adj_mem (es : List (Nat × Nat × Rat)) (u v : Nat) (w : Rat) :
    (v, w) ∈ adj es u ↔ (u, v, w) ∈ es ∨ (v, u, w) ∈ es := by
  induction es with
  | nil => simp [adj]
  | cons e rest ih =>
    obtain ⟨a, b, w'⟩ := e
    unfold adj
    simp only [List.mem_append, List.mem_cons, Prod.mk.injEq, ih]
    constructor
    · rintro (h | h | h)
      · by_cases ha : a = u
        · rw [if_pos ha] at h
          simp only [List.mem_cons, Prod.mk.injEq, List.not_mem_nil, or_false] at h
          left; left; exact ⟨ha.symm, h.1, h.2⟩
        · rw [if_neg ha] at h; cases h
      · by_cases hb : b = u
        · rw [if_pos hb] at h
          simp only [List.mem_cons, Prod.mk.injEq, List.not_mem_nil, or_false] at h
          right; left; exact ⟨h.1, hb.symm, h.2⟩
        · rw [if_neg hb] at h; cases h
      · rcases h with h | h
        · left; right; exact h
        · right; right; exact h
    · rintro ((⟨h1, h2, h3⟩ | h) | (⟨h1, h2, h3⟩ | h))
      · left; rw [if_pos h1.symm]; simp [h2, h3]
      · right; right; left; exact h
      · right; left; rw [if_pos h2.symm]; simp [h1, h3]
      · right; right; right; exact h

theorem adj_hasEdge {g : Graph} {u v : Nat} {w : Rat} : (v, w) ∈ adj g.edges u ↔ HasEdge g u v w :=
  adj_mem g.edges u v w

/-! ### selector specification -/

/-- what Dijkstra needs from the priority queue: `sel d q` fails exactly on the empty queue and
    otherwise removes one element whose key is minimal -/
structure SelSpec (sel : Selector) : Prop where
  none_iff : ∀ d q, sel d q = none ↔ q = []
  spec : ∀ d q u q', q.Nodup → sel d q = some (u, q') →
    u ∈ q ∧ (∀ x ∈ q, dle (Vec.at d u) (Vec.at d x)) ∧ (∀ x, x ∈ q' ↔ x ∈ q ∧ x ≠ u) ∧
    q'.Nodup ∧ q'.length + 1 = q.length

theorem selMinAux_spec (d : Vec) : ∀ (xs : List Nat) (best : Nat),
    (selMinAux d best xs = best ∨ selMinAux d best xs ∈ xs) ∧
    dle (Vec.at d (selMinAux d best xs)) (Vec.at d best) ∧
    ∀ y ∈ xs, dle (Vec.at d (selMinAux d best xs)) (Vec.at d y) := by
  intro xs
  induction xs with
  | nil => intro best; exact ⟨Or.inl rfl, dle_refl _, fun y hy => by cases hy⟩
  | cons x rest ih =>
    intro best
    unfold selMinAux
    by_cases h : leD (Vec.at d best) (Vec.at d x) = true
    · rw [if_pos h]
      obtain ⟨h1, h2, h3⟩ := ih best
      refine ⟨?_, h2, ?_⟩
      · rcases h1 with h1 | h1
        · exact Or.inl h1
        · exact Or.inr (List.mem_cons_of_mem _ h1)
      · intro y hy
        rcases List.mem_cons.mp hy with rfl | hy'
        · exact dle_trans h2 ((leD_iff _ _).mp h)
        · exact h3 y hy'
    · rw [if_neg h]
      have hx : dle (Vec.at d x) (Vec.at d best) := (leD_iff _ _).mp (leD_total (by simpa using h))
      obtain ⟨h1, h2, h3⟩ := ih x
      refine ⟨?_, dle_trans h2 hx, ?_⟩
      · rcases h1 with h1 | h1
        · exact Or.inr (by rw [h1]; exact List.mem_cons_self)
        · exact Or.inr (List.mem_cons_of_mem _ h1)
      · intro y hy
        rcases List.mem_cons.mp hy with rfl | hy'
        · exact h2
        · exact h3 y hy'

theorem selMin_spec : SelSpec selMin := by
  constructor
  · intro d q
    cases q with
    | nil => simp [selMin]
    | cons x xs => simp [selMin]
  · intro d q u q' hnd h
    cases q with
    | nil => simp [selMin] at h
    | cons x xs =>
      simp only [selMin, Option.some.injEq, Prod.mk.injEq] at h
      obtain ⟨hu, hq'⟩ := h
      obtain ⟨h1, h2, h3⟩ := selMinAux_spec d xs x
      rw [hu] at h1 h2 h3 hq'
      have hmem : u ∈ x :: xs := by
        rcases h1 with h1 | h1
        · rw [h1]; exact List.mem_cons_self
        · exact List.mem_cons_of_mem _ h1
      refine ⟨hmem, ?_, ?_, ?_, ?_⟩
      · intro y hy
        rcases List.mem_cons.mp hy with rfl | hy'
        · exact h2
        · exact h3 y hy'
      · intro y
        rw [← hq', hnd.mem_erase_iff]
        exact ⟨fun h => ⟨h.2, h.1⟩, fun h => ⟨h.2, h.1⟩⟩
      · rw [← hq']; exact hnd.erase u
      · rw [← hq', List.length_erase_of_mem hmem]
        have : 0 < (x :: xs).length := by simp
        omega

end AdaptaVerif.Lemmas.Apsp
