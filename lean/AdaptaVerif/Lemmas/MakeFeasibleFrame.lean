/-
Frames of the incremental VPSC solver model (`St.satisfy`): the solver never writes the data of a
constraint (ends, gap, equality flag), only `active` / `unsat` (and `unsat` is only ever set); it
never changes the number of variables / constraints nor the scale of a variable.
-/
import AdaptaVerif.Lemmas.VpscStaticFrame
namespace AdaptaVerif.Lemmas.MakeFeasibleFrame
open AdaptaVerif.Model.Vpsc
open AdaptaVerif.Lemmas.VpscModel AdaptaVerif.Lemmas.VpscHistory AdaptaVerif.Lemmas.VpscInv
open AdaptaVerif.Lemmas.VpscMerge AdaptaVerif.Lemmas.VpscLoop AdaptaVerif.Lemmas.VpscStaticMem
open AdaptaVerif.Lemmas.VpscStaticFrame

/-- variables keep their number and their scale / desired / weight -/
def VS (a b : St) : Prop := b.vars.size = a.vars.size ∧ ∀ i : Nat, (b.vars[i]!).scale = (a.vars[i]!).scale

/-! ### array-level relations -/

/-- same size, and every variable keeps its scale -/
def SameScale (a b : Array Var) : Prop :=
  a.size = b.size ∧ ∀ i : Nat, (a[i]!).scale = (b[i]!).scale

theorem SameScale.refl (a : Array Var) : SameScale a a := ⟨rfl, fun _ => rfl⟩
theorem SameScale.trans {a b c : Array Var} (h1 : SameScale a b) (h2 : SameScale b c) :
    SameScale a c := ⟨h1.1.trans h2.1, fun i => (h1.2 i).trans (h2.2 i)⟩

/-- `b` is `a` with only flags changed, `unsat` only set -/
def ConsMono (a b : Array Con) : Prop :=
  b.size = a.size ∧ ∀ ci : Nat, SameData (b[ci]!) (a[ci]!) ∧ ((a[ci]!).unsat = true → (b[ci]!).unsat = true)

theorem ConsMono.refl (a : Array Con) : ConsMono a a := ⟨rfl, fun _ => ⟨⟨rfl, rfl, rfl, rfl⟩, fun h => h⟩⟩
theorem ConsMono.trans {a b c : Array Con} (h1 : ConsMono a b) (h2 : ConsMono b c) : ConsMono a c :=
  ⟨h2.1.trans h1.1, fun ci =>
    ⟨⟨(h2.2 ci).1.1.trans (h1.2 ci).1.1, (h2.2 ci).1.2.1.trans (h1.2 ci).1.2.1,
      (h2.2 ci).1.2.2.1.trans (h1.2 ci).1.2.2.1, (h2.2 ci).1.2.2.2.trans (h1.2 ci).1.2.2.2⟩,
     fun h => (h2.2 ci).2 ((h1.2 ci).2 h)⟩⟩

theorem consMono_set (cons : Array Con) (ci : Nat) (c' : Con) (hd : SameData c' (cons[ci]!))
    (hu : (cons[ci]!).unsat = true → c'.unsat = true) : ConsMono cons (cons.set! ci c') := by
  refine ⟨set!_size _ _ _, fun j => ?_⟩
  rw [cons_set_get]
  split
  · rename_i h
    rw [← h.1]
    exact ⟨hd, hu⟩
  · exact ⟨⟨rfl, rfl, rfl, rfl⟩, fun h => h⟩

theorem sameScale_setBlock (vars : Array Var) (v nb : Nat) :
    SameScale (vars.set! v { vars[v]! with block := nb }) vars := by
  refine ⟨by simp, fun i => ?_⟩
  rw [get!_set!]
  split
  · rename_i h; rw [h.1]
  · rfl

theorem populateSplit_scale (cons : Array Con) (old nb : Nat) :
    ∀ (fuel : Nat) (vars : Array Var) (mem : Array Nat) (v : Nat) (u : Option Nat),
      SameScale (populateSplit cons old nb fuel vars mem v u).1 vars := by
  intro fuel
  induction fuel with
  | zero => intro vars mem v u; exact SameScale.refl _
  | succ fuel ih =>
    intro vars mem v u
    unfold populateSplit
    simp only
    apply Array.foldl_induction (motive := fun _ (acc : Array Var × Array Nat × Bool) => SameScale acc.1 vars)
    · apply Array.foldl_induction (motive := fun _ (acc : Array Var × Array Nat × Bool) => SameScale acc.1 vars)
      · exact sameScale_setBlock vars v nb
      · intro i acc hm
        obtain ⟨vs, mm, ok⟩ := acc
        simp only
        split
        · exact (ih _ _ _ _).trans hm
        · exact hm
    · intro i acc hm
      obtain ⟨vs, mm, ok⟩ := acc
      simp only
      split
      · exact (ih _ _ _ _).trans hm
      · exact hm

theorem shiftVars_scale (vars : Array Var) (s d : Nat) (x : Rat) :
    SameScale (shiftVars vars s d x) vars := by
  refine ⟨shiftVars_size _ _ _ _, fun i => ?_⟩
  by_cases hi : i < vars.size
  · rw [shiftVars_get _ _ _ _ _ hi]
    split <;> rfl
  · have h1 : ¬ i < (shiftVars vars s d x).size := by rw [shiftVars_size]; exact hi
    rw [getElem!_neg _ i h1, getElem!_neg vars i hi]

/-! ### the combined frame relation -/

/-- constraint data and sizes kept, `unsat` only set, variable scales kept -/
def FR (a b : St) : Prop := ConsMono a.cons b.cons ∧ SameScale b.vars a.vars

theorem FR.refl (a : St) : FR a a := ⟨ConsMono.refl _, SameScale.refl _⟩
theorem FR.trans {a b c : St} (h1 : FR a b) (h2 : FR b c) : FR a c :=
  ⟨h1.1.trans h2.1, h2.2.trans h1.2⟩
theorem FR.of_eq {a b : St} (hc : b.cons = a.cons) (hv : b.vars = a.vars) : FR a b := by
  unfold FR; rw [hc, hv]; exact ⟨ConsMono.refl _, SameScale.refl _⟩

theorem FR.cd {a b : St} (h : FR a b) : CD a b := ⟨h.1.1, fun ci => (h.1.2 ci).1⟩
theorem FR.vs {a b : St} (h : FR a b) : VS a b := h.2
theorem FR.um {a b : St} (h : FR a b) (ci : Nat) (hu : (a.cons[ci]!).unsat = true) :
    (b.cons[ci]!).unsat = true := (h.1.2 ci).2 hu

theorem fr_foldl {α : Type} (f : St → α → St) (hf : ∀ st a, FR st (f st a)) :
    ∀ (l : List α) (st : St), FR st (l.foldl f st)
  | [], st => FR.refl st
  | a :: l, st => (hf st a).trans (fr_foldl f hf l _)

/-! ### the primitive steps -/

theorem fr_refreshBlock (st : St) (bid : Nat) : FR st (st.refreshBlock bid) :=
  FR.of_eq (refreshBlock_core st bid).2.1 (refreshBlock_core st bid).1

theorem fr_moveBlocks (st : St) : FR st st.moveBlocks :=
  FR.of_eq (moveBlocks_core st).2.1 (moveBlocks_core st).1

theorem fr_findMinLM (st : St) (bid : Nat) : FR st (st.findMinLM bid).1 :=
  FR.of_eq (findMinLM_spec st bid).2.1 (findMinLM_spec st bid).1

theorem fr_split (st : St) (old ci : Nat) : FR st (st.split old ci).1 := by
  unfold FR
  rw [split_cons, split_vars]
  exact ⟨consMono_set _ _ _ ⟨rfl, rfl, rfl, rfl⟩ (fun h => h),
    (populateSplit_scale _ _ _ _ _ _ _ _).trans (populateSplit_scale _ _ _ _ _ _ _ _)⟩

theorem fr_note (s : St) (m : Rat) : FR s (s.note m) := FR.of_eq rfl rfl
theorem fr_insertBlocks (s : St) (a b : Nat) : FR s (s.insertBlocks a b) := FR.of_eq rfl rfl
theorem fr_insertBlock (s : St) (a : Nat) : FR s (s.insertBlock a) := FR.of_eq rfl rfl
theorem fr_pushInactive (s : St) (a : Nat) : FR s (s.pushInactive a) := FR.of_eq rfl rfl
theorem fr_okAnd (s : St) (ok : Bool) : FR s (s.okAnd ok) := FR.of_eq rfl rfl
theorem fr_setLm (s : St) (lm : Array Rat) : FR s (s.setLm lm) := FR.of_eq rfl rfl
theorem fr_incSplit (s : St) : FR s s.incSplit := FR.of_eq rfl rfl
theorem fr_incSplitBetween (s : St) : FR s s.incSplitBetween := FR.of_eq rfl rfl
theorem fr_incFlagPath (s : St) : FR s s.incFlagPath := FR.of_eq rfl rfl
theorem fr_incFlagNoSplit (s : St) : FR s s.incFlagNoSplit := FR.of_eq rfl rfl
theorem fr_incResat (s : St) : FR s s.incResat := FR.of_eq rfl rfl
theorem fr_markDeleted (s : St) (b : Nat) : FR s (s.markDeleted b) := FR.of_eq rfl rfl
theorem fr_cleanup (s : St) : FR s s.cleanup := FR.of_eq rfl rfl

theorem fr_splitOn (st : St) (old ci : Nat) : FR st (st.splitOn old ci).1 := by
  unfold St.splitOn
  simp only
  exact (fr_split st old ci).trans ((fr_markDeleted _ old).trans (fr_pushInactive _ ci))

theorem fr_mergeAcross (st : St) (ci : Nat) : FR st (st.mergeAcross ci).1 := by
  unfold FR
  rw [mergeAcross_cons, mergeAcross_vars]
  refine ⟨consMono_set _ _ _ ⟨rfl, rfl, rfl, rfl⟩ (fun h => h), ?_⟩
  simp only
  split <;> exact shiftVars_scale _ _ _ _

theorem fr_flag (st : St) (v : Nat) : FR st (st.flag v) :=
  ⟨consMono_set _ _ _ ⟨rfl, rfl, rfl, rfl⟩ (fun _ => rfl), SameScale.refl _⟩

theorem fr_mostViolated (st : St) : FR st st.mostViolated.1 :=
  FR.of_eq (mostViolated_spec st).cons (mostViolated_spec st).vars

theorem fr_splitBlockStep (st : St) (i : Nat) : FR st (st.splitBlockStep i) := by
  unfold St.splitBlockStep
  simp only
  have h1 := fr_findMinLM st st.order[i]!
  split
  · exact h1
  · rename_i ci lmv gap hm
    split
    · refine h1.trans ?_
      generalize (st.findMinLM st.order[i]!).1 = s1
      refine ((fr_note s1 (lmv - LAGRANGIAN_TOLERANCE)).trans (fr_note _ gap)).trans ?_
      generalize (s1.note (lmv - LAGRANGIAN_TOLERANCE)).note gap = s2
      exact (fr_splitOn s2 _ ci).trans ((fr_insertBlocks _ _ _).trans (fr_incSplit _))
    · exact h1.trans (fr_note _ _)

theorem fr_splitBlocks (st : St) : FR st st.splitBlocks := by
  unfold St.splitBlocks
  simp only
  exact ((fr_moveBlocks st).trans (fr_foldl St.splitBlockStep fr_splitBlockStep _ _)).trans
    (fr_cleanup _)

theorem fr_afterSplit (st : St) (v lid rid : Nat) : FR st (st.afterSplit v lid rid) := by
  unfold St.afterSplit
  split
  · exact FR.refl st
  · rename_i s hs
    simp only
    split
    · exact (fr_note st s).trans ((fr_pushInactive _ v).trans ((fr_insertBlocks _ lid rid).trans (fr_incResat _)))
    · exact (fr_note st s).trans ((fr_mergeAcross (st.note s) v).trans (fr_insertBlock _ _))

theorem fr_searchSplit (st : St) (v : Nat) : FR st (st.searchSplit v).1 := by
  unfold St.searchSplit
  simp only
  exact (fr_setLm st _).trans ((fr_okAnd _ _).trans (fr_okAnd _ _))

theorem fr_splitBetweenWith (st : St) (v : Nat) (path : Option (Array Nat)) :
    FR st (st.splitBetweenWith v path) := by
  unfold St.splitBetweenWith
  simp only
  split
  · exact (fr_flag st v).trans (fr_incFlagNoSplit _)
  · rename_i sc x gap hmin
    refine (fr_note st gap).trans ?_
    generalize st.note gap = s1
    refine (fr_splitOn s1 (st.vars[(st.cons[v]!).l]!).block sc).trans ?_
    generalize s1.splitOn (st.vars[(st.cons[v]!).l]!).block sc = q
    exact (fr_incSplitBetween q.1).trans (fr_afterSplit _ _ _ _)

theorem fr_splitBetween (st : St) (v : Nat) : FR st (st.splitBetween v) := by
  unfold St.splitBetween
  exact (fr_searchSplit st v).trans (fr_splitBetweenWith _ _ _)

theorem fr_process (st : St) (v : Nat) : FR st (st.process v) := by
  unfold St.process
  simp only
  split
  · exact fr_mergeAcross st v
  · split
    · exact (fr_okAnd st _).trans ((fr_flag _ v).trans (fr_incFlagPath _))
    · exact (fr_okAnd st _).trans (fr_splitBetween _ v)

theorem fr_satisfyLoop : ∀ (fuel : Nat) (st : St), FR st (St.satisfyLoop fuel st) := by
  intro fuel
  induction fuel with
  | zero =>
    intro st
    unfold St.satisfyLoop
    exact FR.of_eq rfl rfl
  | succ fuel ih =>
    intro st
    unfold St.satisfyLoop
    simp only
    have hm := fr_mostViolated st
    generalize st.mostViolated = r at hm ⊢
    obtain ⟨r1, r2⟩ := r
    cases r2 with
    | none => exact hm
    | some v =>
      simp only
      split
      · exact hm.trans ((fr_process r1 v).trans (ih _))
      · exact hm

theorem fr_satisfy (st : St) : FR st st.satisfy.1 := by
  unfold St.satisfy
  simp only
  have h2 := (fr_splitBlocks st).trans (fr_satisfyLoop st.splitBlocks.loopFuel st.splitBlocks)
  generalize St.satisfyLoop st.splitBlocks.loopFuel st.splitBlocks = L at h2 ⊢
  have h3 : FR st L.cleanup := h2.trans (fr_cleanup L)
  generalize L.cleanup = st3 at h3 ⊢
  split
  · exact h3
  · split
    · exact h3
    · exact h3

/-! ### the deliverables -/

theorem cd_satisfy_inc (st : St) : CD st st.satisfy.1 := (fr_satisfy st).cd

theorem vs_satisfy_inc (st : St) : VS st st.satisfy.1 := (fr_satisfy st).vs

/-- flags are only ever set, never cleared, by satisfy -/
theorem unsat_mono_satisfy (st : St) (ci : Nat) (h : (st.cons[ci]!).unsat = true) :
    (st.satisfy.1.cons[ci]!).unsat = true := (fr_satisfy st).um ci h

theorem cd_addConstraint (st : St) (c : Con) :
    (st.addConstraint c).cons.size = st.cons.size + 1 ∧
    (∀ ci : Nat, ci < st.cons.size → (st.addConstraint c).cons[ci]! = st.cons[ci]!) ∧
    SameData ((st.addConstraint c).cons[st.cons.size]!) c ∧
    ((st.addConstraint c).cons[st.cons.size]!).unsat = c.unsat := by
  rw [addConstraint_cons]
  refine ⟨by simp, fun ci hci => get!_push_lt _ _ _ hci, ?_, ?_⟩
  · rw [get!_push_eq]; exact ⟨rfl, rfl, rfl, rfl⟩
  · rw [get!_push_eq]

theorem linkCon_scale (st : St) (ci : Nat) (c : Con) (i : Nat) :
    ((st.linkCon ci c).vars[i]!).scale = (st.vars[i]!).scale := by
  unfold St.linkCon
  simp only [get!_set!]
  split <;> split <;> simp_all

theorem vs_addConstraint (st : St) (c : Con) : VS st (st.addConstraint c) :=
  ⟨addConstraint_size st c, fun i => linkCon_scale _ _ _ i⟩

theorem VS.refl (a : St) : VS a a := ⟨rfl, fun _ => rfl⟩
theorem VS.trans {a b c : St} (h1 : VS a b) (h2 : VS b c) : VS a c :=
  ⟨h2.1.trans h1.1, fun i => (h2.2 i).trans (h1.2 i)⟩

theorem vs_foldl_addConstraint : ∀ (cs : List Con) (st : St),
    VS st (cs.foldl (fun st c => st.addConstraint c) st)
  | [], st => VS.refl st
  | c :: rest, st => (vs_addConstraint st c).trans (vs_foldl_addConstraint rest _)

theorem init_vars_scale (vs : Array (Rat × Rat × Rat)) (cs : Array Con) :
    (St.init vs cs).vars.size = vs.size ∧
    ∀ i : Nat, i < vs.size → ((St.init vs cs).vars[i]!).scale = (vs[i]!).2.2 := by
  unfold St.init
  simp only
  rw [← Array.foldl_toList]
  obtain ⟨h1, h2⟩ := vs_foldl_addConstraint cs.toList
    { vars := vs.mapIdx fun i (x : Rat × Rat × Rat) =>
        ({ desired := x.1, weight := x.2.1, scale := x.2.2, block := i } : Var),
      cons := #[], lm := #[],
      blocks := vs.mapIdx fun i (x : Rat × Rat × Rat) => ({ vars := #[i], scale := x.2.2, posn := x.1 } : Block),
      order := Array.range vs.size, inactive := #[] }
  refine ⟨by rw [h1]; simp, fun i hi => ?_⟩
  rw [h2 i]
  simp only
  rw [mapIdx_get! _ _ _ hi, getElem!_pos vs i hi]

end AdaptaVerif.Lemmas.MakeFeasibleFrame
