/-
Geometric meaning of `Model.Reroute.edgeBlocked` (the as-coded `newBlockingShape` test): for a strictly
convex counter-clockwise polygon, if the test does NOT report the edge blocked then the edge does not
enter the polygon's interior — away from the known weakness of the per-shape `segmentShapeIntersect` loop
(no vertex of the polygon in the open segment; ends not strictly inside).  Reuses Lemmas/VisSound*.
-/
import AdaptaVerif.Lemmas.Reroute
import AdaptaVerif.Lemmas.VisSoundConvex
import AdaptaVerif.Lemmas.Route
namespace AdaptaVerif.Lemmas.RerouteGeom
open AdaptaVerif.Model.Geometry (Pt area2 inPoly)
open AdaptaVerif.Check.Route (lerp Poly polyEdges segHitsOriented legs)
open AdaptaVerif.Spec.Route (InsideOriented)
open AdaptaVerif.Model.Reroute
open AdaptaVerif.Lemmas.VisSound
open AdaptaVerif.Lemmas.Route (segHitsOriented_iff)
open AdaptaVerif.Lemmas.GeometrySpec (inPoly_iff)

/-- `inPoly(poly, q, countBorder = false)` means strictly inside (counter-clockwise interior) -/
theorem inPoly_strict (poly : Poly) (q : Pt) (hlen : 3 ≤ poly.length) (h : inPoly poly q false = true) :
    InsideOriented 1 0 poly q := by
  refine ⟨hlen, ?_⟩
  intro e he
  have := ((inPoly_iff poly q).2.mp h) e ((edges_mem_iff poly e).mpr he)
  simpa using this

/-- the as-coded test is sound for a strictly convex counter-clockwise polygon -/
theorem edgeBlocked_false_sound (poly : Poly) (r : Reg)
    (hlen : 3 ≤ poly.length) (hC : ConvexCycle (polyEdges poly))
    (hb : edgeBlocked poly r = false)
    (ha : ¬ InsideOriented 1 0 poly r.pu) (hb' : ¬ InsideOriented 1 0 poly r.pv)
    (hnov : ∀ v ∈ poly, ∀ t : Rat, 0 < t → t < 1 → lerp r.pu r.pv t ≠ v) :
    segHitsOriented 1 0 poly r.pu r.pv = false := by
  cases hs : segHitsOriented 1 0 poly r.pu r.pv with
  | false => rfl
  | true =>
    exfalso
    obtain ⟨t, h0, h1, hin⟩ := (segHitsOriented_iff 1 0 _ _ _).mp hs
    -- the two early exits of `edgeBlocked` are excluded by the hypotheses
    have hne : r.pu ≠ r.pv := by
      intro he
      have : lerp r.pu r.pv t = r.pu := by
        unfold lerp; rw [← he]; cases r.pu; simp
      rw [this] at hin
      exact ha hin
    have hnoex : ((r.u.isConn && inPoly poly r.pu false) || (r.v.isConn && inPoly poly r.pv false)) = false := by
      rw [Bool.or_eq_false_iff]
      constructor
      · cases hu : r.u.isConn
        · rfl
        · cases hi : inPoly poly r.pu false
          · rfl
          · exact absurd (inPoly_strict poly _ hlen hi) ha
      · cases hv : r.v.isConn
        · rfl
        · cases hi : inPoly poly r.pv false
          · rfl
          · exact absurd (inPoly_strict poly _ hlen hi) hb'
    unfold edgeBlocked at hb
    rw [if_neg hne, hnoex] at hb
    simp only [Bool.false_eq_true, if_false] at hb
    have hB : BoundaryChar (polyEdges poly) := boundaryChar_of_convexCycle _ hC
    have inside_iff : ∀ p : Pt, InsideOriented 1 0 poly p ↔ ∀ e ∈ polyEdges poly, 0 < F e p := by
      intro p
      unfold InsideOriented F
      simp only [zero_mul, one_mul]
      exact ⟨fun h => h.2, fun h => ⟨hlen, h⟩⟩
    have notin : ∀ p : Pt, ¬ InsideOriented 1 0 poly p → ∃ e ∈ polyEdges poly, F e p ≤ 0 := by
      intro p hp
      by_contra hne'
      apply hp
      rw [inside_iff]
      intro e he
      by_contra hle
      exact hne' ⟨e, he, not_lt.mp hle⟩
    have := shapeBlocksGo_of_interior (polyEdges poly) hB r.pu r.pv t h0 h1 ((inside_iff _).mp hin)
      (notin _ ha) (notin _ hb')
      (by
        intro e he t ht0 ht1
        have hv := polyEdges_mem_vertices poly e he
        exact ⟨hnov _ hv.1 t ht0 ht1, hnov _ hv.2 t ht0 ht1⟩)
    rw [this] at hb
    exact Bool.noConfusion hb

open AdaptaVerif.Lemmas.Route (rectPoly strictlyInside_rect_iff) in
open AdaptaVerif.Spec.Route (SegHits StrictlyInside) in
/-- rectangles: the conclusion in terms of the C03 specification `SegHits` (either orientation) -/
theorem edgeBlocked_false_sound_rect (x0 y0 x1 y1 : Rat) (hx : x0 < x1) (hy : y0 < y1) (r : Reg)
    (hb : edgeBlocked (rectPoly x0 y0 x1 y1) r = false)
    (ha : ¬ StrictlyInside (rectPoly x0 y0 x1 y1) r.pu) (hb' : ¬ StrictlyInside (rectPoly x0 y0 x1 y1) r.pv)
    (hnov : ∀ v ∈ rectPoly x0 y0 x1 y1, ∀ t : Rat, 0 < t → t < 1 → lerp r.pu r.pv t ≠ v) :
    ¬ SegHits (rectPoly x0 y0 x1 y1) r.pu r.pv := by
  rintro ⟨tm, h0, h1, hin⟩
  have hmem : ∀ e, e ∈ rectEdges x0 y0 x1 y1 ↔ e ∈ polyEdges (rectPoly x0 y0 x1 y1) := by
    intro e; rw [← edges_rect]; exact edges_mem_iff _ e
  have hB : BoundaryChar (polyEdges (rectPoly x0 y0 x1 y1)) :=
    boundaryChar_congr _ _ hmem (rect_boundaryChar x0 y0 x1 y1 hx hy)
  have pos_iff : ∀ P : Pt, (∀ e ∈ polyEdges (rectPoly x0 y0 x1 y1), 0 < F e P) ↔
      x0 < P.x ∧ P.x < x1 ∧ y0 < P.y ∧ P.y < y1 := by
    intro P
    rw [← rect_pos_iff x0 y0 x1 y1 hx hy]
    exact ⟨fun h e he => h e ((hmem e).mp he), fun h e he => h e ((hmem e).mpr he)⟩
  rw [strictlyInside_rect_iff x0 y0 x1 y1 hx hy] at hin ha hb'
  have notin : ∀ p : Pt, ¬ (x0 < p.x ∧ p.x < x1 ∧ y0 < p.y ∧ p.y < y1) →
      ∃ e ∈ polyEdges (rectPoly x0 y0 x1 y1), F e p ≤ 0 := by
    intro p hp
    by_contra hne
    apply hp
    rw [← pos_iff]
    intro e he
    by_contra hle
    exact hne ⟨e, he, not_lt.mp hle⟩
  have hne : r.pu ≠ r.pv := by
    intro he
    have : lerp r.pu r.pv tm = r.pu := by
      unfold lerp; rw [← he]; cases r.pu; simp
    rw [this] at hin
    exact ha hin
  have strict_of_inPoly : ∀ p : Pt, inPoly (rectPoly x0 y0 x1 y1) p false = true →
      x0 < p.x ∧ p.x < x1 ∧ y0 < p.y ∧ p.y < y1 := by
    intro p hi
    rw [← pos_iff]
    intro e he
    have := ((inPoly_iff (rectPoly x0 y0 x1 y1) p).2.mp hi) e ((edges_mem_iff _ e).mpr he)
    exact this
  have hnoex : ((r.u.isConn && inPoly (rectPoly x0 y0 x1 y1) r.pu false) ||
      (r.v.isConn && inPoly (rectPoly x0 y0 x1 y1) r.pv false)) = false := by
    rw [Bool.or_eq_false_iff]
    constructor
    · cases hu : r.u.isConn
      · rfl
      · cases hi : inPoly (rectPoly x0 y0 x1 y1) r.pu false
        · rfl
        · exact absurd (strict_of_inPoly _ hi) ha
    · cases hv : r.v.isConn
      · rfl
      · cases hi : inPoly (rectPoly x0 y0 x1 y1) r.pv false
        · rfl
        · exact absurd (strict_of_inPoly _ hi) hb'
  unfold edgeBlocked at hb
  rw [if_neg hne, hnoex] at hb
  simp only [Bool.false_eq_true, if_false] at hb
  have := shapeBlocksGo_of_interior (polyEdges (rectPoly x0 y0 x1 y1)) hB r.pu r.pv tm h0 h1 ((pos_iff _).mpr hin)
    (notin _ ha) (notin _ hb')
    (by
      intro e he t ht0 ht1
      have hv := polyEdges_mem_vertices _ e he
      exact ⟨hnov _ hv.1 t ht0 ht1, hnov _ hv.2 t ht0 ht1⟩)
  rw [this] at hb
  exact Bool.noConfusion hb

end AdaptaVerif.Lemmas.RerouteGeom
