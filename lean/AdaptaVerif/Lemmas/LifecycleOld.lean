/-
C15 (A) — helper lemmas, part 6: the machine as the code was before /repo def6b3d (`stepOld`) never
releases a `ClusterRef`: the ids of the allocated clusters only grow, whatever the history.
-/
import AdaptaVerif.Lemmas.LifecycleClusterRefs
namespace AdaptaVerif.Lemmas.Lifecycle
open AdaptaVerif.Model.Lifecycle AdaptaVerif.Spec.Lifecycle

@[simp] theorem cl_addFault (s : St) (f : Fault) : (s.addFault f).clusters = s.clusters := rfl
@[simp] theorem cl_enqueue (s : St) (t : AType) (o : Id) : (s.enqueue t o).clusters = s.clusters := by
  unfold St.enqueue; split <;> rfl
@[simp] theorem cl_dropAction (s : St) (t : AType) (o : Id) : (s.dropAction t o).clusters = s.clusters := rfl
@[simp] theorem cl_removeFromQueue (s : St) (o : Id) : (s.removeFromQueue o).clusters = s.clusters := rfl
@[simp] theorem cl_modify (s : St) (c : Id) (d : Bool) (e : EndSpec) : (s.modify c d e).clusters = s.clusters := rfl
@[simp] theorem cl_addObst (s : St) (i : Id) (j a : Bool) : (s.addObst i j a).clusters = s.clusters := rfl
@[simp] theorem cl_addPin (s : St) (p o : Id) (c : Nat) : (s.addPin p o c).clusters = s.clusters := rfl
@[simp] theorem cl_addConn (s : St) (i : Id) (a : Bool) : (s.addConn i a).clusters = s.clusters := rfl
@[simp] theorem cl_unlinkPin (s : St) (p : Id) : (s.unlinkPin p).clusters = s.clusters := rfl
@[simp] theorem cl_releasePin (s : St) (p : Id) : (s.releasePin p).clusters = s.clusters := rfl
@[simp] theorem cl_freeObstacle (s : St) (o : Id) : (s.freeObstacle o).clusters = s.clusters := rfl
@[simp] theorem cl_freeConn (s : St) (c : Id) : (s.freeConn c).clusters = s.clusters := rfl
@[simp] theorem cl_setCheckpoints (s : St) (c : Id) (vs : List Id) : (s.setCheckpoints c vs).clusters = s.clusters := rfl
@[simp] theorem cl_closeRouter (s : St) : s.closeRouter.clusters = s.clusters := rfl

@[simp] theorem cl_processTransaction (s : St) : s.processTransaction.clusters = s.clusters := by
  unfold St.processTransaction
  split
  · rfl
  · have := crf_processActions s
    simp only [crf, Prod.mk.injEq] at this
    exact this.1

@[simp] theorem cl_maybeProcess (s : St) : s.maybeProcess.clusters = s.clusters := by
  unfold St.maybeProcess
  split
  · rfl
  · simp

theorem cl_deleteObstacleOp (s : St) (o : Id) (j : Bool) : (deleteObstacleOp s o j).clusters = s.clusters := by
  unfold deleteObstacleOp
  cases j <;> simp only [Bool.false_eq_true, ↓reduceIte] <;>
  · split
    · rfl
    · split
      · rfl
      · simp

theorem cl_moveObstacleOp (s : St) (o : Id) (j : Bool) : (moveObstacleOp s o j).clusters = s.clusters := by
  unfold moveObstacleOp
  cases j <;> simp only [Bool.false_eq_true, ↓reduceIte] <;>
  · split
    · rfl
    · split
      · rfl
      · simp

theorem cl_foldl {α : Type} (f : St → α → St) (hf : ∀ s a, (f s a).clusters = s.clusters)
    (l : List α) (s : St) : (l.foldl f s).clusters = s.clusters :=
  foldl_inv (fun t => t.clusters = s.clusters) f (fun t a ht => (hf t a).trans ht) l s rfl

theorem kids_setClusterRefs (s : St) (k : Id) (refs : List Id) : kids (s.setClusterRefs k refs) = kids s := by
  simp only [kids, St.setClusterRefs, List.map_map]
  apply List.map_congr_left
  intro x _; simp only [Function.comp]; split <;> rfl

theorem kids_unlinkCluster (s : St) (k : Id) : kids (s.unlinkCluster k) = kids s := by
  simp only [kids, St.unlinkCluster, List.map_map]
  apply List.map_congr_left
  intro x _; simp only [Function.comp]; split <;> rfl

/-- the pre-def6b3d machine never takes a cluster out of the allocated set -/
theorem kids_stepOld_mono (s : St) (op : Op) : ∀ k ∈ kids s, k ∈ kids (stepOld s op) := by
  intro k hk
  unfold stepOld
  split
  · exact hk
  · have same : ∀ {t : St}, t.clusters = s.clusters → k ∈ kids t := by
      intro t ht; simp only [kids, ht]; exact hk
    cases op with
    | deleteCluster id =>
      dsimp only; split
      · exact hk
      · rw [kids_unlinkCluster]; exact hk
    | deleteRouter =>
      dsimp only
      refine same ?_
      rw [cl_closeRouter, cl_foldl (fun (s : St) (o : Obst) => s.freeObstacle o.id) (fun _ _ => rfl),
        cl_foldl (fun (s : St) (c : Conn) => s.freeConn c.id) (fun _ _ => rfl)]
    | newCluster id refs =>
      dsimp only
      unfold step
      split
      · exact hk
      · simp only [kids, St.addCluster, List.map_append, List.mem_append]; exact Or.inl hk
    | setClusterPoly id refs =>
      dsimp only
      unfold step
      split
      · exact hk
      · dsimp only; split
        · exact hk
        · rw [kids_setClusterRefs]; exact hk
    | newShape id => dsimp only; unfold step; split; exact hk; exact same (by simp)
    | newJunction id pin => dsimp only; unfold step; split; exact hk; exact same (by simp)
    | newConn id src dst ctor3 => dsimp only; unfold step; split; exact hk; exact same (by simp)
    | newPin pin shape cls =>
      dsimp only; unfold step; split; exact hk
      dsimp only; split
      · exact hk
      · exact same (by simp)
    | deleteShape id => dsimp only; unfold step; split; exact hk; exact same (cl_deleteObstacleOp s _ _)
    | deleteJunction id => dsimp only; unfold step; split; exact hk; exact same (cl_deleteObstacleOp s _ _)
    | deleteConn id =>
      dsimp only; unfold step; split; exact hk
      dsimp only; split
      · exact hk
      · exact same (by simp)
    | deletePin pin =>
      dsimp only; unfold step; split; exact hk
      dsimp only; split
      · exact hk
      · exact same (by simp)
    | moveShape id => dsimp only; unfold step; split; exact hk; exact same (cl_moveObstacleOp s _ _)
    | moveJunction id => dsimp only; unfold step; split; exact hk; exact same (cl_moveObstacleOp s _ _)
    | setEndpoint c isDst e =>
      dsimp only; unfold step; split; exact hk
      dsimp only; split
      · exact hk
      · exact same (by simp)
    | setRoutingCheckpoints c vs =>
      dsimp only; unfold step; split; exact hk
      dsimp only; split
      · exact hk
      · exact same (by simp)
    | processTransaction => dsimp only; unfold step; split; exact hk; exact same (by simp)
    | setTransactionUse b => dsimp only; unfold step; split; exact hk; exact hk
    | rDelConn id =>
      dsimp only; unfold step; split; exact hk
      dsimp only; split
      · exact hk
      · exact same (by simp)
    | rDelJunction id =>
      dsimp only; unfold step; split; exact hk
      dsimp only; split
      · exact hk
      · exact same (by simp)
    | rNewJunction id pin => dsimp only; unfold step; split; exact hk; exact same (by simp)
    | rNewConn id => dsimp only; unfold step; split; exact hk; exact same (by simp)
    | touchConn c =>
      dsimp only; unfold step; split; exact hk
      dsimp only; split
      · exact hk
      · exact same (by simp)
    | touchPin pin =>
      dsimp only; unfold step; split; exact hk
      dsimp only; split
      · exact hk
      · exact same (by simp)
    | apiRouter => dsimp only; unfold step; split; exact hk; exact hk
    | apiConn c =>
      dsimp only; unfold step; split; exact hk
      dsimp only; split <;> exact hk
    | apiObst o =>
      dsimp only; unfold step; split; exact hk
      dsimp only; split <;> exact hk

theorem kids_stepOld_newCluster (s : St) (hal : s.alive = true) (k : Id) (refs : List Id) :
    k ∈ kids (stepOld s (.newCluster k refs)) := by
  unfold stepOld
  rw [if_neg (by simp [hal])]
  dsimp only
  unfold step
  rw [if_neg (by simp [hal])]
  simp [kids, St.addCluster]

theorem kids_runOld_mono (ops : List Op) (s : St) : ∀ k ∈ kids s, k ∈ kids (ops.foldl stepOld s) := by
  induction ops generalizing s with
  | nil => exact fun _ h => h
  | cons op rest ih => exact fun k hk => ih _ k (kids_stepOld_mono s op k hk)

end AdaptaVerif.Lemmas.Lifecycle
