/-
Main proofs for property C02: KKT sufficiency (exact and ε-relaxed), uniqueness of the optimum,
transport of feasibility/cost along a renaming of variables and along a translation, the
optimal position of a rigid block.
-/
import AdaptaVerif.Lemmas.Qp

namespace AdaptaVerif.Lemmas.Qp
open AdaptaVerif.Spec.Qp

/-! ### unfolding `Con.Holds` -/

theorem holds_eq {s : Nat → Rat} {c : Con} {x : Nat → Rat} (he : c.eq = true) :
    c.Holds s x ↔ slack s c x = 0 := by
  unfold Con.Holds; simp [he]

theorem holds_ineq {s : Nat → Rat} {c : Con} {x : Nat → Rat} (he : c.eq = false) :
    c.Holds s x ↔ 0 ≤ slack s c x := by
  unfold Con.Holds; simp [he]

/-! ### KKT sufficiency -/

/-- one summand of the multiplier sum, bounded below using sign condition, complementary
    slackness at `x` and feasibility of `y` -/
theorem term_bound (eps : Rat) (s : Nat → Rat) (c : Con) (lam : Rat) (x y : Nat → Rat)
    (hy : c.Holds s y) (hsign : c.eq = true ∨ -eps ≤ lam) (hcs : lam * slack s c x = 0) :
    -eps * (if c.eq then 0 else slack s c y) ≤ lam * (slack s c y - slack s c x) := by
  cases he : c.eq with
  | true =>
    have h0 : slack s c y = 0 := (holds_eq he).mp hy
    simp only [if_true, h0]
    have : lam * (0 - slack s c x) = -(lam * slack s c x) := by ring
    rw [this, hcs]; simp
  | false =>
    have h0 : 0 ≤ slack s c y := (holds_ineq he).mp hy
    have hl : -eps ≤ lam := by
      rcases hsign with h | h
      · rw [he] at h; exact absurd h (by simp)
      · exact h
    simp only [Bool.false_eq_true, if_false]
    have e : lam * (slack s c y - slack s c x) = lam * slack s c y - lam * slack s c x := by ring
    rw [e, hcs]
    have : 0 ≤ (lam + eps) * slack s c y := mul_nonneg (by linarith) h0
    nlinarith

/-- ε-KKT bound: a feasible point with stationarity, complementary slackness and multipliers
    `≥ -ε` on inequalities is optimal up to `ε · Σ slack(y)`. -/
theorem kktEps_bound (eps : Rat) (P : Problem) (x : Nat → Rat) (lam : List Rat)
    (hWF : WF P) (h : KKTeps eps P x lam) (y : Nat → Rat) (hy : Feasible P y) :
    cost P x ≤ cost P y + eps * ineqSlackSum P y := by
  obtain ⟨hlen, _, hstat, hsc⟩ := h
  have hb := zip_bounds P lam hWF.2
  have hw : ∀ i, i < P.n → 0 ≤ P.w i := fun i hi => le_of_lt (hWF.1 i hi)
  have h1 := cost_lower P (P.cons.zip lam) x y hw hb hstat
  have h2 : listSum (fun p : Con × Rat => -eps * (if p.1.eq then 0 else slack P.s p.1 y)) (P.cons.zip lam)
      ≤ listSum (fun p : Con × Rat => p.2 * (slack P.s p.1 y - slack P.s p.1 x)) (P.cons.zip lam) := by
    apply listSum_le
    intro p hp
    obtain ⟨c, l⟩ := p
    have hc : c ∈ P.cons := (List.of_mem_zip hp).1
    have := hsc (c, l) hp
    exact term_bound eps P.s c l x y (hy c hc) this.1 this.2
  have h3 : listSum (fun p : Con × Rat => -eps * (if p.1.eq then 0 else slack P.s p.1 y)) (P.cons.zip lam)
      = -eps * ineqSlackSum P y := by
    rw [listSum_mul_left (-eps) (fun p : Con × Rat => if p.1.eq then 0 else slack P.s p.1 y)]
    unfold ineqSlackSum
    rw [listSum_zip_fst (fun c : Con => if c.eq then 0 else slack P.s c y) P.cons lam hlen]
  rw [h3] at h2
  linarith

/-- Distance of an ε-KKT point from the exact optimum (given with its multipliers), in the
    weighted norm: `Σ w_i (x_i - x*_i)^2 ≤ ε · Σ_{inequalities} slack_c(x*)`. -/
theorem kktEps_distance (eps : Rat) (P : Problem) (hWF : WF P) (xs : Nat → Rat) (lams : List Rat)
    (hs : KKT P xs lams) (x : Nat → Rat) (lam : List Rat) (h : KKTeps eps P x lam) :
    sumTo P.n (fun i => P.w i * ((x i - xs i) * (x i - xs i))) ≤ eps * ineqSlackSum P xs := by
  have hup := kktEps_bound eps P x lam hWF h xs hs.2.1
  obtain ⟨_, _, hstat, hsc⟩ := hs
  have hb := zip_bounds P lams hWF.2
  have hex := cost_exact P (P.cons.zip lams) xs x hb hstat
  have hnn : 0 ≤ listSum (fun p : Con × Rat => p.2 * (slack P.s p.1 x - slack P.s p.1 xs)) (P.cons.zip lams) := by
    have h0 : listSum (fun _ : Con × Rat => (0 : Rat)) (P.cons.zip lams) = 0 := by
      have := listSum_mul_left (0 : Rat) (fun _ : Con × Rat => (0 : Rat)) (P.cons.zip lams)
      simpa using this
    rw [← h0]
    apply listSum_le
    intro p hp
    obtain ⟨c, l⟩ := p
    have hc : c ∈ P.cons := (List.of_mem_zip hp).1
    have hh := hsc (c, l) hp
    have := term_bound 0 P.s c l xs x (h.2.1 c hc) (by simpa using hh.1) hh.2
    simpa using this
  linarith

theorem kkt_iff_eps0 (P : Problem) (x : Nat → Rat) (lam : List Rat) :
    KKT P x lam ↔ KKTeps 0 P x lam := by
  unfold KKT KKTeps; simp

theorem kkt_optimal (P : Problem) (x : Nat → Rat) (lam : List Rat)
    (hWF : WF P) (h : KKT P x lam) : IsOptimum P x := by
  refine ⟨h.2.1, fun y hy => ?_⟩
  have := kktEps_bound 0 P x lam hWF ((kkt_iff_eps0 P x lam).mp h) y hy
  simpa using this

/-! ### uniqueness -/

theorem optimum_unique (P : Problem) (hWF : WF P) (x y : Nat → Rat)
    (hx : IsOptimum P x) (hy : IsOptimum P y) : ∀ i, i < P.n → x i = y i := by
  have hz := feasible_midpoint P x y hx.1 hy.1
  have h1 := hx.2 _ hz
  have h2 := hy.2 _ hz
  rw [cost_midpoint] at h1 h2
  have hS : sumTo P.n (fun i => P.w i * ((x i - y i) * (x i - y i))) ≤ 0 := by linarith
  have hnn : ∀ i, i < P.n → 0 ≤ P.w i * ((x i - y i) * (x i - y i)) :=
    fun i hi => mul_nonneg (le_of_lt (hWF.1 i hi)) (mul_self_nonneg _)
  intro i hi
  have h0 := sumTo_terms_zero hnn hS i hi
  have hw := hWF.1 i hi
  rcases mul_eq_zero.mp h0 with h | h
  · linarith
  · have := mul_self_eq_zero.mp h
    linarith

/-! ### renaming variables, reordering constraints -/

theorem slack_rename (P : Problem) (σ τ : Nat → Nat) (cons' : List Con) (c : Con) (x' : Nat → Rat)
    (hl : τ (σ c.l) = c.l) (hr : τ (σ c.r) = c.r) :
    slack (P.permute τ cons').s (c.rename σ) x' = slack P.s c (fun i => x' (σ i)) := by
  simp only [slack, Problem.permute, Con.rename, hl, hr]

theorem holds_rename (P : Problem) (σ τ : Nat → Nat) (cons' : List Con) (c : Con) (x' : Nat → Rat)
    (hl : τ (σ c.l) = c.l) (hr : τ (σ c.r) = c.r) :
    (c.rename σ).Holds (P.permute τ cons').s x' ↔ c.Holds P.s (fun i => x' (σ i)) := by
  unfold Con.Holds
  rw [slack_rename P σ τ cons' c x' hl hr]
  exact Iff.rfl

theorem feasible_pull (P : Problem) (σ τ : Nat → Nat) (cons' : List Con) (hWF : WF P)
    (hp : IsPerm P.n σ τ) (hc : cons'.Perm (P.cons.map (Con.rename σ))) (x' : Nat → Rat)
    (h : Feasible (P.permute τ cons') x') : Feasible P (fun i => x' (σ i)) := by
  intro c hcm
  have hb := hWF.2 c hcm
  have hmem : c.rename σ ∈ cons' := hc.mem_iff.mpr (List.mem_map_of_mem hcm)
  exact (holds_rename P σ τ cons' c x' (hp.1 _ hb.1).2 (hp.1 _ hb.2).2).mp (h _ hmem)

theorem feasible_push (P : Problem) (σ τ : Nat → Nat) (cons' : List Con) (hWF : WF P)
    (hp : IsPerm P.n σ τ) (hc : cons'.Perm (P.cons.map (Con.rename σ))) (y : Nat → Rat)
    (h : Feasible P y) : Feasible (P.permute τ cons') (fun j => y (τ j)) := by
  intro c' hc'
  obtain ⟨c, hcm, rfl⟩ := List.mem_map.mp (hc.mem_iff.mp hc')
  have hb := hWF.2 c hcm
  have hl := (hp.1 _ hb.1).2
  have hr := (hp.1 _ hb.2).2
  refine (holds_rename P σ τ cons' c _ hl hr).mpr ?_
  have e : c.Holds P.s (fun i => y (τ (σ i))) ↔ c.Holds P.s y := by
    unfold Con.Holds slack
    simp only [hl, hr]
  exact e.mpr (h c hcm)

theorem cost_pull (P : Problem) (σ τ : Nat → Nat) (cons' : List Con)
    (hp : IsPerm P.n σ τ) (x' : Nat → Rat) :
    cost (P.permute τ cons') x' = cost P (fun i => x' (σ i)) := by
  unfold cost
  simp only [Problem.permute]
  rw [← sumTo_perm hp (fun j => P.w (τ j) * ((x' j - P.d (τ j)) * (x' j - P.d (τ j))))]
  apply sumTo_congr
  intro i hi
  simp only [(hp.1 i hi).2]

theorem cost_push (P : Problem) (σ τ : Nat → Nat) (cons' : List Con)
    (hp : IsPerm P.n σ τ) (y : Nat → Rat) :
    cost (P.permute τ cons') (fun j => y (τ j)) = cost P y := by
  unfold cost
  simp only [Problem.permute]
  exact sumTo_perm hp.symm (fun i => P.w i * ((y i - P.d i) * (y i - P.d i)))

theorem optimum_pull (P : Problem) (σ τ : Nat → Nat) (cons' : List Con) (hWF : WF P)
    (hp : IsPerm P.n σ τ) (hc : cons'.Perm (P.cons.map (Con.rename σ))) (x' : Nat → Rat)
    (h : IsOptimum (P.permute τ cons') x') : IsOptimum P (fun i => x' (σ i)) := by
  refine ⟨feasible_pull P σ τ cons' hWF hp hc x' h.1, fun y hy => ?_⟩
  rw [← cost_pull P σ τ cons' hp x', ← cost_push P σ τ cons' hp y]
  exact h.2 _ (feasible_push P σ τ cons' hWF hp hc y hy)

/-! ### translation -/

theorem slack_shift (P : Problem) (t : Rat) (c : Con) (x : Nat → Rat) (hs : P.s c.l = P.s c.r) :
    slack (P.shift t).s c (fun i => x i + t) = slack P.s c x := by
  simp only [slack, Problem.shift, hs]; ring

theorem cost_shift (P : Problem) (t : Rat) (x : Nat → Rat) :
    cost (P.shift t) (fun i => x i + t) = cost P x := by
  unfold cost
  simp only [Problem.shift]
  apply sumTo_congr
  intro i _
  ring

theorem optimum_shift (P : Problem) (t : Rat) (hs : ∀ c ∈ P.cons, P.s c.l = P.s c.r)
    (x : Nat → Rat) (h : IsOptimum P x) : IsOptimum (P.shift t) (fun i => x i + t) := by
  constructor
  · intro c hc
    have := h.1 c hc
    unfold Con.Holds at *
    rw [slack_shift P t c x (hs c hc)]
    exact this
  · intro y hy
    have hfe : Feasible P (fun i => y i - t) := by
      intro c hc
      have := hy c hc
      unfold Con.Holds at *
      have e : slack (P.shift t).s c y = slack P.s c (fun i => y i - t) := by
        rw [← slack_shift P t c (fun i => y i - t) (hs c hc)]
        simp
      rw [← e]; exact this
    have h1 := h.2 _ hfe
    have e2 : cost (P.shift t) y = cost P (fun i => y i - t) := by
      rw [← cost_shift P t (fun i => y i - t)]
      simp
    rw [cost_shift, e2]
    exact h1

/-! ### a rigid block -/

theorem blockCost_expand (m : Nat) (w a b d : Nat → Rat) (p : Rat) :
    blockCost m w a b d p =
      p * p * sumTo m (fun k => w k * a k * a k)
        - 2 * p * (sumTo m (fun k => w k * a k * d k) - sumTo m (fun k => w k * a k * b k))
        + sumTo m (fun k => w k * ((b k - d k) * (b k - d k))) := by
  unfold blockCost
  have e : ∀ k, k < m → w k * ((a k * p + b k - d k) * (a k * p + b k - d k)) =
      (p * p) * (w k * a k * a k) - ((2 * p) * (w k * a k * d k) - (2 * p) * (w k * a k * b k))
        + w k * ((b k - d k) * (b k - d k)) := by
    intro k _; ring
  rw [sumTo_congr e, sumTo_add, sumTo_sub, sumTo_sub, sumTo_mul_left, sumTo_mul_left, sumTo_mul_left]
  ring

theorem blockPosn_optimal (m : Nat) (w a b d : Nat → Rat)
    (hA : 0 < sumTo m (fun k => w k * a k * a k)) (p : Rat) :
    blockCost m w a b d (blockPosn m w a b d) ≤ blockCost m w a b d p := by
  rw [blockCost_expand m w a b d p, blockCost_expand m w a b d (blockPosn m w a b d)]
  unfold blockPosn
  generalize sumTo m (fun k => w k * a k * a k) = A2 at hA
  generalize sumTo m (fun k => w k * a k * d k) - sumTo m (fun k => w k * a k * b k) = N
  generalize sumTo m (fun k => w k * ((b k - d k) * (b k - d k))) = C
  have hq : A2 * (N / A2) = N := by field_simp
  have key : p * p * A2 - 2 * p * N + C - ((N / A2) * (N / A2) * A2 - 2 * (N / A2) * N + C)
      = A2 * ((p - N / A2) * (p - N / A2)) := by
    have : N = A2 * (N / A2) := hq.symm
    generalize N / A2 = q at *
    subst this
    ring
  have : 0 ≤ A2 * ((p - N / A2) * (p - N / A2)) := mul_nonneg hA.le (mul_self_nonneg _)
  linarith

end AdaptaVerif.Lemmas.Qp
