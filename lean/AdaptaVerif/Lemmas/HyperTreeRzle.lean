/-
C12, model of `HyperedgeImprover::removeZeroLengthEdges(node, ignored)`: the traversal keeps the
hyperedge tree a well-formed tree, for every fuel, start node and `ignored` edge.
-/
import AdaptaVerif.Lemmas.HyperTree
namespace AdaptaVerif.Lemmas.HyperTreeRzle
open AdaptaVerif.Model.HyperTree AdaptaVerif.Check.Tree AdaptaVerif.Spec.Tree AdaptaVerif.Lemmas.HyperTree

theorem Joins.symm {e : HEdge} {a b : Nat} (h : Joins e a b) : Joins e b a := by
  rcases h with h | h
  · exact Or.inr h
  · exact Or.inl h

/-- a live edge object numbered `i` joins `a` and `b` -/
def JoinsId (t : HTree) (i a b : Nat) : Prop := ∃ e ∈ t.edges, e.id = i ∧ Joins e a b

theorem contract_tree_id {t : HTree} (h : Tree t) {i tg src : Nat} (hj : JoinsId t i tg src) :
    ∃ t', contract t i tg src = some t' ∧ Tree t' := by
  obtain ⟨e, he, rfl, hj⟩ := hj
  obtain ⟨t', hc, ht, _⟩ := contract_tree h he hj
  exact ⟨t', hc, ht⟩

/-- an edge listed at a live node, looked at from that node: it joins the node and `followFrom` -/
theorem joins_of_listed {t : HTree} (h : Tree t) {sn : HNode} (hsn : sn ∈ t.nodes) {e : HEdge}
    (he : e ∈ t.edges) (hl : e.id ∈ sn.edges) {o : Nat} (ho : e.followFrom sn.id = some o) :
    Joins e sn.id o := by
  obtain ⟨e', he', hid, hend⟩ := (h.1.inc sn hsn e.id).mp hl
  have : e' = e := h.1.edge_eq he' he hid
  subst this
  obtain ⟨a, b, h1, h2, _, _⟩ := h.1.ends e' he'
  unfold HEdge.followFrom at ho
  by_cases hc : e'.e1 = some sn.id
  · rw [if_pos hc] at ho
    exact Or.inl ⟨hc, ho⟩
  · rw [if_neg hc] at ho
    rcases hend with hend | hend
    · exact absurd hend hc
    · exact Or.inr ⟨ho, hend⟩

/-- what the decision for one zero-length edge does to the heap: nothing, or two field updates -/
theorem rzleDecide_spec {s : Imp} {e : HEdge} {sn on : HNode} {tg src : Nat} {s1 : Imp}
    (h : rzleDecide s e sn on = some (tg, src, s1)) (ht : Tree s.t) (he : e ∈ s.t.edges)
    (hj : Joins e sn.id on.id) : Tree s1.t ∧ JoinsId s1.t e.id tg src := by
  unfold rzleDecide at h
  split at h
  · simp only [Option.some.injEq, Prod.mk.injEq] at h
    obtain ⟨rfl, rfl, rfl⟩ := h
    exact ⟨ht, e, he, rfl, Joins.symm hj⟩
  · simp only [Option.some.injEq, Prod.mk.injEq] at h
    obtain ⟨rfl, rfl, rfl⟩ := h
    exact ⟨ht, e, he, rfl, hj⟩
  · simp only [Option.some.injEq, Prod.mk.injEq] at h
    obtain ⟨rfl, rfl, rfl⟩ := h
    exact ⟨ht, e, he, rfl, hj⟩
  · split at h
    · simp only [Option.some.injEq, Prod.mk.injEq] at h
      obtain ⟨rfl, rfl, rfl⟩ := h
      refine ⟨?_, ?_⟩
      · exact modEdge_Tree _ _ _ (fun _ => rfl) (fun _ => rfl) (fun _ => rfl)
          (modNode_Tree _ _ _ (fun _ => rfl) (fun _ => rfl) ht)
      · refine ⟨{ e with conn := none }, ?_, rfl, hj⟩
        show _ ∈ (s.t.edges.map _)
        refine List.mem_map.mpr ⟨e, he, ?_⟩
        simp
    · simp at h

theorem rzleDec_spec {s : Imp} {e : HEdge} {sn : HNode} {self tg src : Nat} {s1 : Imp}
    (hdec : rzleDec s e sn self = some (tg, src, s1)) (ht : Tree s.t) (he : e ∈ s.t.edges)
    (hsn : sn ∈ s.t.nodes) (hl : e.id ∈ sn.edges) (hsid : sn.id = self) :
    Tree s1.t ∧ JoinsId s1.t e.id tg src := by
  unfold rzleDec at hdec
  split at hdec
  · split at hdec
    · simp at hdec
    · rename_i o ho
      split at hdec
      · simp at hdec
      · rename_i on hon
        obtain ⟨_, honid⟩ := node?_mem hon
        have hj : Joins e sn.id on.id := by
          rw [honid]
          exact joins_of_listed ht hsn he hl (by rw [hsid]; exact ho)
        exact rzleDecide_spec hdec ht he hj
  · simp at hdec

/-- the heap the contraction runs on (fix 6964517: possibly with the attributes of a merged terminal leaf
    copied to the surviving node) differs from the decided heap in attribute fields of one node only -/
structure PrepSpec (t t1 : HTree) : Prop where
  edges : t1.edges = t.edges
  graphV : t1.graphV = t.graphV
  graphE : t1.graphE = t.graphE
  tree : Tree t → Tree t1
  back : ∀ n1 ∈ t1.nodes, ∃ n ∈ t.nodes, n.id = n1.id ∧ n.edges = n1.edges ∧ n.junction = n1.junction ∧
    n.point = n1.point
  fwd : ∀ n ∈ t.nodes, ∃ n1 ∈ t1.nodes, n1.id = n.id ∧ n1.edges = n.edges ∧ n1.junction = n.junction ∧
    n1.point = n.point

theorem PrepSpec.refl (t : HTree) : PrepSpec t t :=
  ⟨rfl, rfl, rfl, id, fun n hn => ⟨n, hn, rfl, rfl, rfl, rfl⟩, fun n hn => ⟨n, hn, rfl, rfl, rfl, rfl⟩⟩

theorem rzlePrep_spec (s1 : Imp) (e tg src : Nat) : PrepSpec s1.t (rzlePrep s1 e tg src) := by
  unfold rzlePrep keepTerminalAttrs
  split
  · split
    · split
      · refine ⟨rfl, modNode_graphV _ _ _ (fun _ => rfl), rfl,
          modNode_Tree _ _ _ (fun _ => rfl) (fun _ => rfl), ?_, ?_⟩
        · intro n1 hn1
          have hn1' : n1 ∈ s1.t.nodes.map _ := hn1
          obtain ⟨n, hn, rfl⟩ := List.mem_map.mp hn1'
          refine ⟨n, hn, ?_, ?_, ?_, ?_⟩ <;> split <;> rfl
        · intro n hn
          refine ⟨_, (List.mem_map.mpr ⟨n, hn, rfl⟩ : _ ∈ s1.t.nodes.map _), ?_, ?_, ?_, ?_⟩ <;> split <;> rfl
      · exact PrepSpec.refl _
    · exact PrepSpec.refl _
  · exact PrepSpec.refl _

theorem PrepSpec.joinsId {t t1 : HTree} (h : PrepSpec t t1) {i a b : Nat} (hj : JoinsId t i a b) :
    JoinsId t1 i a b := by
  obtain ⟨e, he, hid, hj⟩ := hj
  exact ⟨e, by rw [h.edges]; exact he, hid, hj⟩

/-- what one contraction performed by the traversal looks like: the edge `e`, listed at the live node
    `sn`, was chosen by `rzleDec`, and `contract` returned `t2` -/
structure RzleStep (s : Imp) (s2 : Imp) : Prop where
  step : ∃ (e : HEdge) (sn : HNode) (tg src : Nat) (s1 : Imp) (t2 : HTree),
    e ∈ s.t.edges ∧ sn ∈ s.t.nodes ∧ e.id ∈ sn.edges ∧ rzleDec s e sn sn.id = some (tg, src, s1) ∧
    contract (rzlePrep s1 e.id tg src) e.id tg src = some t2 ∧ s2 = { s1 with t := t2 }

/-- Induction principle for the traversal: a property of the improver state that every single
    contraction step preserves is preserved by `removeZeroLengthEdges`, for every fuel. -/
theorem rzle_inv_all (P : Imp → Prop) (hstep : ∀ s s2, P s → RzleStep s s2 → P s2) (f : Nat) :
    (∀ s self ign s', P s → rzleNode f s self ign = some s' → P s') ∧
    (∀ s self ign l s', P s → rzleLoop f s self ign l = some s' → P s') ∧
    (∀ s eid ign s', P s → rzleEdge f s eid ign = some s' → P s') := by
  induction f with
  | zero =>
    refine ⟨?_, ?_, ?_⟩
    · intro s self ign s' _ h; simp [rzleNode] at h
    · intro s self ign l s' _ h; simp [rzleLoop] at h
    · intro s eid ign s' _ h; simp [rzleEdge] at h
  | succ f ih =>
    obtain ⟨ihN, ihL, ihE⟩ := ih
    refine ⟨?_, ?_, ?_⟩
    · intro s self ign s' ht h
      rw [rzleNode] at h
      split at h
      · simp at h
      · exact ihL _ _ _ _ _ ht h
    · intro s self ign l s' ht h
      cases l with
      | nil =>
        rw [rzleLoop] at h
        simp only [Option.some.injEq] at h
        subst h
        exact ht
      | cons eid rest =>
        rw [rzleLoop] at h
        split at h
        · exact ihL _ _ _ _ _ ht h
        · split at h
          · rename_i e sn hE hN
            obtain ⟨he, heid⟩ := edge?_mem hE
            obtain ⟨hsn, hsid⟩ := node?_mem hN
            split at h
            · simp at h
            · rename_i hcont
              have hl : e.id ∈ sn.edges := by
                rw [heid]
                simpa using hcont
              -- the decision
              split at h
              · rename_i target source s1 hdec
                split at h
                · simp at h
                · rename_i t2 hc
                  refine ihN _ _ _ _ (hstep s _ ht ⟨e, sn, target, source, s1, t2, he, hsn, hl, ?_, ?_, rfl⟩) h
                  · rw [hsid]; exact hdec
                  · rw [heid]; exact hc
              · split at h
                · simp at h
                · rename_i s2 hs2
                  exact ihL _ _ _ _ _ (ihE _ _ _ _ ht hs2) h
          · simp at h
    · intro s eid ign s' ht h
      rw [rzleEdge] at h
      split at h
      · simp at h
      · split at h
        · simp at h
        · rename_i a _
          split at h
          · simp at h
          · rename_i s1 hs1
            have ht1 : P s1 := by
              split at hs1
              · exact ihN _ _ _ _ ht hs1
              · simp only [Option.some.injEq] at hs1
                subst hs1
                exact ht
            split at h
            · simp at h
            · split at h
              · simp at h
              · split at h
                · exact ihN _ _ _ _ ht1 h
                · simp only [Option.some.injEq] at h
                  subst h
                  exact ht1

/-- one contraction step keeps the tree -/
theorem rzleStep_tree {s s2 : Imp} (ht : Tree s.t) (h : RzleStep s s2) : Tree s2.t := by
  obtain ⟨e, sn, tg, src, s1, t2, he, hsn, hl, hdec, hc, rfl⟩ := h.step
  obtain ⟨ht1, hj1⟩ := rzleDec_spec hdec ht he hsn hl rfl
  have hp := rzlePrep_spec s1 e.id tg src
  obtain ⟨t2', hc', ht2⟩ := contract_tree_id (hp.tree ht1) (hp.joinsId hj1)
  rw [hc] at hc'
  cases hc'
  exact ht2

/-- `removeZeroLengthEdges(node, ignored)` keeps the hyperedge tree a well-formed tree -/
theorem rzleNode_tree {f : Nat} {s : Imp} {self : Nat} {ign : Option Nat} {s' : Imp}
    (ht : Tree s.t) (h : rzleNode f s self ign = some s') : Tree s'.t :=
  (rzle_inv_all (fun s => Tree s.t) (fun _ _ ht hs => rzleStep_tree ht hs) f).1 s self ign s' ht h

end AdaptaVerif.Lemmas.HyperTreeRzle
