import AdaptaVerif.Model.TglfIds
/-! Helper lemmas for `Props/C18Ids.lean`. -/
namespace AdaptaVerif.Lemmas.TglfIds
open AdaptaVerif.Model.TglfIds

theorem foldl_max_ge_init (ns : List NodeId) (m : Int) : m ≤ ns.foldl (fun m n => max m n.ext) m := by
  induction ns generalizing m with
  | nil => simp
  | cons a t ih => simp only [List.foldl_cons]; exact Int.le_trans (Int.le_max_left _ _) (ih _)

theorem foldl_max_ge_mem (ns : List NodeId) (m : Int) (n : NodeId) (h : n ∈ ns) :
    n.ext ≤ ns.foldl (fun m n => max m n.ext) m := by
  induction ns generalizing m with
  | nil => cases h
  | cons a t ih =>
    simp only [List.foldl_cons]
    rcases List.mem_cons.mp h with rfl | h
    · exact Int.le_trans (Int.le_max_right _ _) (foldl_max_ge_init _ _)
    · exact ih _ h

theorem ext_le_maxExt (ns : List NodeId) (n : NodeId) (h : n ∈ ns) : n.ext ≤ maxExt ns :=
  foldl_max_ge_mem ns (-1) n h

theorem maxExt_ge_neg_one (ns : List NodeId) : -1 ≤ maxExt ns := foldl_max_ge_init ns (-1)

/-- with strictly increasing internal ids, every node lacking an external id has an internal id ≥ the first one -/
theorem firstLacking_le (ns : List NodeId) (hs : ns.Pairwise (fun a b => a.id < b.id))
    (n : NodeId) (h : n ∈ ns) (hn : n.ext = -1) : firstLacking ns ≤ (n.id : Int) := by
  unfold firstLacking
  induction ns with
  | nil => cases h
  | cons a t ih =>
    rw [List.pairwise_cons] at hs
    by_cases ha : a.ext = -1
    · simp only [List.find?_cons, ha, beq_self_eq_true]
      rcases List.mem_cons.mp h with rfl | h
      · exact Int.le_refl _
      · have := hs.1 n h; omega
    · have hb : (a.ext == -1) = false := by simpa using ha
      simp only [List.find?_cons, hb]
      rcases List.mem_cons.mp h with rfl | h
      · exact absurd hn ha
      · exact ih hs.2 h

end AdaptaVerif.Lemmas.TglfIds
