/-
Bridges: the kernels of the A* search regenerated from makepath.cpp / graph.cpp by cpp2lean
(`Gen/AStarK.lean`, job `astar` of tools/cpp2lean/jobs_astar.py) are the hand model of `Model/AStar.lean`.
-/
import AdaptaVerif.Gen.AStarK
import AdaptaVerif.Model.AStar
namespace AdaptaVerif.Lemmas.AStarBridge
open AdaptaVerif.Model.Geometry (Pt)
namespace G
export AdaptaVerif.Gen.AStarK (aNodeCmp aNodeCmp_pre Dot CrossLength orthogTurnOrder orthogTurnOrder_pre)
end G
namespace M
export AdaptaVerif.Model.AStar (worse Node ANodeK dot crossLength orthogTurnOrder epsDouble)
end M

/-- the key record the generated comparator reads, for a model node -/
def key (n : M.Node) : M.ANodeK := ⟨n.f, (n.ts : Int)⟩

theorem aNodeCmp_eq (a b : M.Node) : G.aNodeCmp (key a) (key b) = M.worse M.epsDouble a b := by
  unfold AdaptaVerif.Gen.AStarK.aNodeCmp AdaptaVerif.Model.AStar.worse key AdaptaVerif.Model.AStar.epsDouble
    AdaptaVerif.Gen.absR AdaptaVerif.Model.AStar.absR
  simp only [decide_eq_true_eq, ne_eq, Int.natCast_inj, Int.ofNat_lt]

theorem aNodeCmp_pre (a b : M.ANodeK) : G.aNodeCmp_pre a b = true := by
  unfold AdaptaVerif.Gen.AStarK.aNodeCmp_pre
  repeat' split
  all_goals rfl

theorem dot_eq (l r : Pt) : G.Dot l r = M.dot l r := rfl
theorem crossLength_eq (l r : Pt) : G.CrossLength l r = M.crossLength l r := rfl

theorem vecDir_eq (a b c : Pt) :
    AdaptaVerif.Gen.AStarK.vecDir a b c 0 = AdaptaVerif.Model.Geometry.vecDir a b c 0 := by
  unfold AdaptaVerif.Gen.AStarK.vecDir AdaptaVerif.Model.Geometry.vecDir AdaptaVerif.Model.Geometry.area2
  simp only [Rat.neg_zero]
  by_cases h : (b.x - a.x) * (c.y - a.y) - (c.x - a.x) * (b.y - a.y) < 0
  · simp [h]
  · simp [h]

theorem orthogTurnOrder_eq (a b c : Pt) : G.orthogTurnOrder a b c = (M.orthogTurnOrder a b c : Int) := by
  unfold AdaptaVerif.Gen.AStarK.orthogTurnOrder AdaptaVerif.Model.AStar.orthogTurnOrder AdaptaVerif.Gen.earlyExit
  rw [vecDir_eq]
  generalize AdaptaVerif.Model.Geometry.vecDir a b c 0 = d
  simp only [Bool.or_eq_true, Bool.and_eq_true, decide_eq_true_eq, ne_eq]
  by_cases h4 : (¬c.x = b.x ∧ ¬c.y = b.y) ∨ (¬a.x = b.x ∧ ¬a.y = b.y)
  · rw [if_pos h4, if_pos h4]; rfl
  · rw [if_neg h4, if_neg h4]
    by_cases h1 : d > 0
    · rw [if_pos h1, if_pos h1]; rfl
    · rw [if_neg h1, if_neg h1]
      by_cases h2 : d < 0
      · rw [if_pos h2, if_pos h2]; rfl
      · rw [if_neg h2, if_neg h2]
        by_cases hx : b.x = c.x
        · rw [if_pos hx, if_pos hx]
          by_cases hb : (a.y < b.y ∧ c.y < b.y) ∨ (a.y > b.y ∧ c.y > b.y)
          · rw [if_pos hb, if_pos hb]; rfl
          · rw [if_neg hb, if_neg hb]; rfl
        · rw [if_neg hx, if_neg hx]
          by_cases hb : (a.x < b.x ∧ c.x < b.x) ∨ (a.x > b.x ∧ c.x > b.x)
          · rw [if_pos hb, if_pos hb]; rfl
          · rw [if_neg hb, if_neg hb]; rfl

theorem orthogTurnOrder_pre (a b c : Pt) : G.orthogTurnOrder_pre a b c = true := by
  unfold AdaptaVerif.Gen.AStarK.orthogTurnOrder_pre AdaptaVerif.Gen.AStarK.vecDir_pre AdaptaVerif.Gen.earlyExitPre
  simp only [decide_eq_true_eq]
  repeat' split
  all_goals simp_all

end AdaptaVerif.Lemmas.AStarBridge
