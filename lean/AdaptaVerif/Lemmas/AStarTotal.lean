/-
Totality of the A* model (`Model/AStar.lean`): the search never runs out of fuel when the fuel
exceeds the number of (previous vertex, vertex) keys that can occur.  Every iteration of the loop
moves one key from PENDING to DONE for good, and the keys of PENDING ++ DONE are pairwise distinct.

* `search_total`    — abstract problem, `K` any finite key universe closed under the successor relation
* `graph_run_total` — the orthogonal router's problem with `Graph.fuel`: `g.run ≠ .outOfFuel`
-/
import AdaptaVerif.Lemmas.AStarGraph
namespace AdaptaVerif.Lemmas.AStarTotal
open AdaptaVerif.Model.AStar AdaptaVerif.Lemmas.AStarSound AdaptaVerif.Lemmas.AStarGraph

/-- the key PENDING and DONE are searched by: (previous vertex, vertex) -/
def key (n : Node) : Option Nat × Nat := (n.pv, n.v)

theorem sameKey_key (a b : Node) : sameKey a b = true ↔ key a = key b := by
  rw [sameKey_iff]
  simp only [key, Prod.mk.injEq]
  constructor
  · rintro ⟨h1, h2⟩; exact ⟨h2, h1⟩
  · rintro ⟨h1, h2⟩; exact ⟨h2, h1⟩

/-! ### `extractBest` permutes -/

theorem extractBest_none (eps : Rat) (l : List Node) (h : extractBest eps l = none) : l = [] := by
  cases l with
  | nil => rfl
  | cons x xs =>
    exfalso
    unfold extractBest at h
    cases hx : extractBest eps xs with
    | none => rw [hx] at h; simp at h
    | some p =>
      obtain ⟨b, r⟩ := p
      rw [hx] at h
      simp only at h
      split at h <;> simp at h

theorem extractBest_perm (eps : Rat) : ∀ (l : List Node) (b : Node) (rest : List Node),
    extractBest eps l = some (b, rest) → List.Perm l (b :: rest) := by
  intro l
  induction l with
  | nil => intro b rest h; simp [extractBest] at h
  | cons x xs ih =>
    intro b rest h
    unfold extractBest at h
    cases hx : extractBest eps xs with
    | none =>
      rw [hx] at h
      simp only [Option.some.injEq, Prod.mk.injEq] at h
      obtain ⟨rfl, rfl⟩ := h
      rw [extractBest_none eps xs hx]
    | some p =>
      obtain ⟨b', r'⟩ := p
      rw [hx] at h
      simp only at h
      have ih' := ih b' r' hx
      split at h
      · simp only [Option.some.injEq, Prod.mk.injEq] at h
        obtain ⟨rfl, rfl⟩ := h
        exact (List.Perm.cons x ih').trans (List.Perm.swap _ _ _)
      · simp only [Option.some.injEq, Prod.mk.injEq] at h
        obtain ⟨rfl, rfl⟩ := h
        exact List.Perm.refl _

/-! ### `updPending` keeps the key list -/

theorem updPending_keys (node : Node) : ∀ (l p : List Node), updPending node l = some p →
    p.map key = l.map key := by
  intro l
  induction l with
  | nil => intro p h; simp [updPending] at h
  | cons a rest ih =>
    intro p h
    unfold updPending at h
    split at h
    · rename_i hk
      simp only [Option.some.injEq] at h
      subst h
      split
      · simp only [List.map_cons, (sameKey_key node a).1 hk]
      · rfl
    · cases hu : updPending node rest with
      | none => rw [hu] at h; simp at h
      | some q =>
        rw [hu] at h
        simp only [Option.map_some, Option.some.injEq] at h
        subst h
        simp only [List.map_cons, ih q hu]

theorem updPending_none (node : Node) : ∀ (l : List Node), updPending node l = none →
    ∀ a ∈ l, key node ≠ key a := by
  intro l
  induction l with
  | nil => intro _ a ha; simp at ha
  | cons x rest ih =>
    intro h a ha
    unfold updPending at h
    split at h
    · simp at h
    · rename_i hk
      have hr : updPending node rest = none := by
        cases hu : updPending node rest with
        | none => rfl
        | some q => rw [hu] at h; simp at h
      rcases List.mem_cons.1 ha with rfl | ha'
      · intro hc; exact hk ((sameKey_key node a).2 hc)
      · exact ih hr a ha'

/-! ### the invariant -/

structure T (K : List (Option Nat × Nat)) (st : St) : Prop where
  /-- the keys of PENDING ++ DONE are pairwise distinct -/
  nd : ((st.pending ++ st.done).map key).Nodup
  /-- and they lie in the universe -/
  inK : ∀ k ∈ (st.pending ++ st.done).map key, k ∈ K
  /-- only the start node has no `prevNode` -/
  pr : ∀ n ∈ st.pending ++ st.done, n.pv ≠ none → n.prev.isSome = true

theorem T_init (P : Problem) (K : List (Option Nat × Nat)) (hK0 : (none, P.src) ∈ K) :
    T K (init P) := by
  constructor
  · simp [init]
  · intro k hk
    simp only [init, List.append_nil, List.map_cons, List.map_nil, List.mem_singleton] at hk
    subst hk
    exact hK0
  · intro n hn hpv
    simp only [init, List.append_nil, List.mem_singleton] at hn
    subst hn
    exact absurd rfl hpv

theorem T_relax (K : List (Option Nat × Nat)) (b : Node) (bi : Nat) (st : St) (e : Option Succ)
    (he : ∀ s, e = some s → (some b.v, s.w) ∈ K) (hT : T K st) : T K (relax b bi st e) := by
  unfold relax
  cases e with
  | none => exact ⟨hT.nd, hT.inK, hT.pr⟩
  | some s =>
    simp only
    split
    · rename_i p hp
      have hk := updPending_keys _ _ _ hp
      refine ⟨?_, ?_, ?_⟩
      · simp only [List.map_append, hk]
        simpa only [List.map_append] using hT.nd
      · simp only [List.map_append, hk]
        simpa only [List.map_append] using hT.inK
      · intro n hn hpv
        simp only [List.mem_append] at hn
        rcases hn with hn | hn
        · rcases updPending_mem _ _ _ hp n hn with h1 | h1
          · exact hT.pr n (List.mem_append.2 (Or.inl h1)) hpv
          · subst h1; rfl
        · exact hT.pr n (List.mem_append.2 (Or.inr hn)) hpv
    · rename_i hp
      have hpn := updPending_none _ _ hp
      split
      · exact ⟨hT.nd, hT.inK, hT.pr⟩
      · rename_i hd
        -- no DONE node has the key of the new node
        have hdn : ∀ a ∈ st.done,
            key { v := s.w, pv := some b.v, prev := some bi, g := b.g + s.c, h := s.h,
                  ts := st.time : Node } ≠ key a := by
          intro a ha hc
          apply hd
          rw [List.any_eq_true]
          refine ⟨a, ha, ?_⟩
          have hpv : a.pv ≠ none := by
            have : (some b.v : Option Nat) = a.pv := by
              have := congrArg Prod.fst hc
              simpa [key] using this
            rw [← this]; simp
          rw [Bool.and_eq_true]
          exact ⟨(sameKey_key _ a).2 hc, hT.pr a (List.mem_append.2 (Or.inr ha)) hpv⟩
        have hperm : List.Perm ((st.pending ++
              [{ v := s.w, pv := some b.v, prev := some bi, g := b.g + s.c, h := s.h,
                 ts := st.time : Node }]) ++ st.done)
            ({ v := s.w, pv := some b.v, prev := some bi, g := b.g + s.c, h := s.h,
               ts := st.time : Node } :: (st.pending ++ st.done)) := by
          rw [List.append_assoc]
          exact List.perm_middle
        refine ⟨?_, ?_, ?_⟩
        · show ((_ ++ st.done).map key).Nodup
          rw [(hperm.map key).nodup_iff, List.map_cons, List.nodup_cons]
          refine ⟨?_, hT.nd⟩
          intro hmem
          rw [List.mem_map] at hmem
          obtain ⟨a, ha, hka⟩ := hmem
          rcases List.mem_append.1 ha with h1 | h1
          · exact hpn a h1 hka.symm
          · exact hdn a h1 hka.symm
        · intro k hk
          have hk' : k ∈ (_ :: (st.pending ++ st.done)).map key := ((hperm.map key).mem_iff).1 hk
          rw [List.map_cons, List.mem_cons] at hk'
          rcases hk' with rfl | hk'
          · exact he s rfl
          · exact hT.inK k hk'
        · intro n hn hpv
          have hn' := (hperm.mem_iff).1 hn
          rcases List.mem_cons.1 hn' with rfl | hn'
          · rfl
          · exact hT.pr n hn' hpv

theorem T_foldl (K : List (Option Nat × Nat)) (b : Node) (bi : Nat) :
    ∀ (todo : List (Option Succ)) (st : St),
      (∀ e ∈ todo, ∀ s, e = some s → (some b.v, s.w) ∈ K) → T K st →
      T K (todo.foldl (relax b bi) st) := by
  intro todo
  induction todo with
  | nil => intro st _ h; exact h
  | cons e todo ih =>
    intro st hsub hT
    simp only [List.foldl_cons]
    apply ih
    · intro e' he'; exact hsub e' (List.mem_cons_of_mem _ he')
    · exact T_relax K b bi st e (hsub e List.mem_cons_self) hT

theorem foldl_relax_done (b : Node) (bi : Nat) : ∀ (todo : List (Option Succ)) (st : St),
    (todo.foldl (relax b bi) st).done = st.done := by
  intro todo
  induction todo with
  | nil => intro st; rfl
  | cons e todo ih =>
    intro st
    simp only [List.foldl_cons]
    rw [ih, relax_done]

/-- popping the head of the heap keeps the invariant -/
theorem T_pop (K : List (Option Nat × Nat)) (eps : Rat) (st : St) (b : Node) (rest : List Node)
    (hx : extractBest eps st.pending = some (b, rest)) (hT : T K st) :
    T K { pending := rest, done := st.done ++ [b], time := st.time } := by
  have hperm : List.Perm (rest ++ (st.done ++ [b])) (st.pending ++ st.done) := by
    have h1 : List.Perm (rest ++ (st.done ++ [b])) (b :: (rest ++ st.done)) := by
      rw [← List.append_assoc]
      have := @List.perm_middle _ b (rest ++ st.done) []
      simpa using this
    have h2 : List.Perm (b :: (rest ++ st.done)) (st.pending ++ st.done) :=
      List.Perm.append_right st.done (extractBest_perm eps _ _ _ hx).symm
    exact h1.trans h2
  refine ⟨?_, ?_, ?_⟩
  · show ((rest ++ (st.done ++ [b])).map key).Nodup
    rw [(hperm.map key).nodup_iff]; exact hT.nd
  · intro k hk
    exact hT.inK k (((hperm.map key).mem_iff).1 hk)
  · intro n hn hpv
    exact hT.pr n ((hperm.mem_iff).1 hn) hpv

theorem T_card (K : List (Option Nat × Nat)) (st : St) (hT : T K st) :
    st.pending.length + st.done.length ≤ K.length := by
  have := List.Nodup.length_le_of_subset hT.nd (fun k hk => hT.inK k hk)
  simpa using this

/-! ### GOAL 1 -/

theorem search_fuel (P : Problem) (K : List (Option Nat × Nat))
    (hKs : ∀ pv v s, (pv, v) ∈ K → some s ∈ P.succs pv v → (some v, s.w) ∈ K) :
    ∀ (fuel : Nat) (st : St), T K st → search P fuel st = .outOfFuel →
      st.done.length + fuel ≤ K.length := by
  intro fuel
  induction fuel with
  | zero =>
    intro st hT _
    have := T_card K st hT
    omega
  | succ fuel ih =>
    intro st hT h
    unfold search at h
    split at h
    · simp at h
    · rename_i b rest hx
      simp only at h
      split at h
      · simp at h
      · have hT1 := T_pop K P.eps st b rest hx hT
        have hbK : (b.pv, b.v) ∈ K := by
          apply hT1.inK
          show key b ∈ (rest ++ (st.done ++ [b])).map key
          exact List.mem_map_of_mem (by simp)
        have hT2 := T_foldl K b st.done.length (P.succs b.pv b.v) _
          (fun e he s hes => hKs b.pv b.v s hbK (hes ▸ he)) hT1
        have := ih _ hT2 h
        rw [foldl_relax_done] at this
        simp only [List.length_append, List.length_singleton] at this
        omega

/-- `K` is a finite universe of states (previous vertex, vertex) closed under the successor relation -/
theorem search_total (P : Problem) (K : List (Option Nat × Nat))
    (hK0 : (none, P.src) ∈ K)
    (hKs : ∀ pv v s, (pv, v) ∈ K → some s ∈ P.succs pv v → (some v, s.w) ∈ K)
    (fuel : Nat) (hf : K.length < fuel) :
    search P fuel (init P) ≠ .outOfFuel := by
  intro h
  have := search_fuel P K hKs fuel (init P) (T_init P K hK0) h
  simp only [init, List.length_nil] at this
  omega

/-! ### GOAL 2 -/

theorem foldl_len_sum {α : Type} : ∀ (xs : List (List α)) (a : Nat),
    xs.foldl (fun n l => n + l.length) a = a + (xs.map List.length).sum := by
  intro xs
  induction xs with
  | nil => intro a; simp
  | cons x xs ih =>
    intro a
    simp only [List.foldl_cons, ih, List.map_cons, List.sum_cons]
    omega

theorem range_map_getD {α : Type} (xs : List α) (d : α) :
    (List.range xs.length).map (fun p => xs.getD p d) = xs := by
  apply List.ext_getElem
  · simp
  · intro i h1 h2
    simp [List.getD_eq_getElem?_getD, h2]

theorem states_len_list {β : Type} (f : Nat → Edge → β) (xs : List (List Edge)) :
    ((List.range xs.length).flatMap fun p => (xs.getD p []).map (f p)).length =
      xs.foldl (fun n l => n + l.length) 0 := by
  rw [foldl_len_sum, List.length_flatMap]
  simp only [List.length_map, Nat.zero_add]
  have := congrArg (fun l => (l.map List.length).sum) (range_map_getD xs [])
  simpa [List.map_map, Function.comp_def] using this

theorem states_length (g : Graph) : g.states.length < g.fuel := by
  unfold Graph.states Graph.fuel
  obtain ⟨pts, adj, vflags, connPt, src, tar, segPen, revPen, connSrc, connDst, pinPts, prune, eps⟩ := g
  obtain ⟨xs⟩ := adj
  simp only [List.length_cons]
  have h := states_len_list (fun p e => (some p, e.to)) xs
  have e1 : ∀ p, (Array.mk xs).getD p [] = xs.getD p [] := by
    intro p; simp [Array.getD_eq_getD_getElem?, List.getD_eq_getElem?_getD]
  have e2 : Array.foldl (fun n (l : List Edge) => n + l.length) 0 (Array.mk xs) =
      xs.foldl (fun n l => n + l.length) 0 := by
    rw [← Array.foldl_toList]
  rw [e2]
  simp only [e1, List.size_toArray, h]
  omega

theorem graph_run_total (g : Graph) : g.run ≠ .outOfFuel := by
  unfold Graph.run
  exact search_total g.problem g.states (legit_start g)
    (fun pv v s _ hs => legit_step g pv v s hs) g.fuel (states_length g)

end AdaptaVerif.Lemmas.AStarTotal
